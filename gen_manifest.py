#!/usr/bin/env python3
"""Regenerates MANIFEST.json from props_config.py (claimed checks) and properties.jsonl (the rest)."""
import json, sys
import os
HERE = os.path.dirname(os.path.abspath(__file__))
sys.path.insert(0, HERE)
from props_config import PROPS

ids = [json.loads(l)["id"] for l in open(HERE + "/properties.jsonl")]
BASE = "for m in $(cat /w/out/gomods.txt); do MF=$(cd /repo/$m && . /w/out/goenv.sh && gomodflag); (cd /repo/$m && go test $MF -json -vet=off -count=1 -timeout 25m ./...); done"
man = {
    "version": 1,
    "setup_cmd": "./check setup",
    "hooks": {
        "guard": "verif",
        "enable": "go build -tags verif (add-only files verif_export.go; the harness module replaces github.com/tdewolff/parse/v2 by /repo)",
        "baseline_off_cmd": BASE,
        "source_commits": json.load(open(HERE + "/hooks_commits.json")) if os.path.exists(HERE + "/hooks_commits.json") else [],
        "add_only": True,
    },
    "engines": [
        {"name": "coq", "path": "coq", "serves_properties": sorted(PROPS), "kind_free_text": "Coq 8.16.1 development: executable Gallina models, proofs, Props/<id>.v statements with Print Assumptions"},
        {"name": "harness", "path": "harness", "serves_properties": sorted(PROPS), "kind_free_text": "Go: translators (source -> Gen/*.v), correspondence driver (extracted OCaml model vs implementation), property oracles (search)"},
        {"name": "modelrun", "path": "ocaml", "serves_properties": sorted(PROPS), "kind_free_text": "OCaml driver around the extracted models (ExtrOcamlBasic only)"},
    ],
    "checks": [],
    "not_applicable": [],
    "notes": "Every check: rebuild harness against /repo's working tree, regenerate Gen/*.v, make, re-check Props/<id>.v, correspondence, oracle search. See DESIGN.md.",
}
for pid in ids:
    if pid in PROPS and os.path.exists(HERE + '/coq/theories/Props/%s.v' % pid):
        c = PROPS[pid]
        man["checks"].append({
            "property_id": pid,
            "quick_cmd": "./check %s quick" % pid,
            "thorough_cmd": "./check %s thorough" % pid,
            "evidence_file": "/verif/evidence/%s.json" % pid,
            "replay_cmd_template": "./check %s --replay {path}" % pid,
            "engine": "coq",
            "level_claimed": {"category": "proof", "text": c["level_text"], "design_ref": c.get("design_ref", "DESIGN.md section 6 " + pid)},
            "level_note": c["level_note"],
            "technique": c.get("technique", "Coq proof about an executable Gallina model + model/implementation correspondence check"),
        })
    else:
        man["not_applicable"].append({"property_id": pid, "reason": "not claimed yet: its model and theorems are still being built (see DESIGN.md section 9); no check registered"})
json.dump(man, open(HERE + "/MANIFEST.json", "w"), indent=1)
print("checks:", len(man["checks"]), "not_applicable:", len(man["not_applicable"]))
