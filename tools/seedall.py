#!/usr/bin/env python3
"""seedall.py [ids...] — re-run every stored seeded change (seeded/<id>-<k>/patch.diff) through the registered quick check of
its property, against a scratch copy of /repo (tools/seedtest.py). Prints one line per seed: caught / MISSED / does-not-apply.
Run it in a clone of /verif (it rebuilds Gen files and the Coq tree for every seed), e.g.
  git clone -q /verif /tmp/vseed && cd /tmp/vseed && ./check setup && tools/seedall.py ; rm -rf /tmp/vseed"""
import glob, json, os, subprocess, sys
ROOT = os.path.dirname(os.path.dirname(os.path.abspath(__file__)))
want = sys.argv[1:]
res = []
for d in sorted(glob.glob(ROOT + "/seeded/*/")):
    name = os.path.basename(d.rstrip("/"))
    if want and not any(name.startswith(w) for w in want):
        continue
    meta = json.load(open(d + "meta.json"))
    pids = sorted((meta.get("checks_run") or {meta["property"]: ""}).keys())
    if meta["property"] not in pids:
        pids.append(meta["property"])
    p = subprocess.run([ROOT + "/tools/seedtest.py", d + "patch.diff"] + pids, capture_output=True, text=True)
    out = p.stdout
    if "PATCH DOES NOT APPLY" in out:
        verdict = "does-not-apply (the code it changes has been repaired since)"
    else:
        caught = [l.split()[1] for l in out.splitlines() if l.startswith("== ") and "exit=1" in l]
        verdict = ("caught by " + ",".join(caught)) if caught else "MISSED"
    print("%-8s %s" % (name, verdict), flush=True)
    res.append((name, verdict))
json.dump(dict(res), open(ROOT + "/seeded/LAST_RERUN.json", "w"), indent=1)
missed = [n for n, v in res if v == "MISSED"]
print("missed:", missed)
sys.exit(1 if missed else 0)
