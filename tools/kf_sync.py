#!/usr/bin/env python3
"""After merging builder branches: KNOWN_FINDINGS.txt is merged with merge=union, which can resurrect a line that a
builder deleted. For every property owned by a builder branch, keep exactly the lines of that branch's file."""
import re, subprocess, sys
OWNER = {'C03': 'c03', 'C05': 'c03', 'C04': 'c04', 'C06': 'c06', 'C07': 'c07', 'C08': 'c07', 'C09': 'c09', 'C10': 'c10',
         'C11': 'c11', 'C14': 'c14', 'C15': 'c15', 'C16': 'c16', 'C17': 'c17', 'C18': 'c18', 'C20': 'c18', 'C19': 'c19'}
only = sys.argv[1:]
if not only:
    sys.exit('usage: kf_sync.py Cxx ... (only the properties whose builder branch was just merged)')
path = '/verif/KNOWN_FINDINGS.txt'
main = open(path).read().splitlines()
cache = {}
def branch(b):
    if b not in cache:
        cache[b] = subprocess.check_output(['git', '-C', '/verif', 'show', f'agent/{b}:KNOWN_FINDINGS.txt']).decode().splitlines()
    return cache[b]
new, dropped = [], 0
for l in main:
    m = re.search(r'property=(C\d\d) ', l)
    if m and m.group(1) in OWNER and (not only or m.group(1) in only):
        if l not in branch(OWNER[m.group(1)]):
            print('drop', l[:120]); dropped += 1
            continue
    new.append(l)
open(path, 'w').write('\n'.join(new) + '\n')
print(dropped, 'lines dropped')
