#!/usr/bin/env python3
"""seedtest.py <patch.diff> <Cxx> [<Cyy> ...] — run checks against a scratch copy of /repo with a patch applied.
The scratch worktree lives under /tmp and is removed afterwards; /repo itself is not touched.
Prints, per property, the exit code and the VIOLATION line; restores evidence/ and Gen/ afterwards."""
import os, subprocess, sys, tempfile, shutil
ROOT = os.path.dirname(os.path.dirname(os.path.abspath(__file__)))
patch = os.path.abspath(sys.argv[1])
pids = sys.argv[2:]
wt = tempfile.mkdtemp(prefix="vp-st-")
os.rmdir(wt)
subprocess.run(["git", "-C", "/repo", "worktree", "add", "-q", "--detach", wt, "HEAD"], check=True)
try:
    r = subprocess.run(["git", "-C", wt, "apply", patch], capture_output=True, text=True)
    if r.returncode != 0:
        print("PATCH DOES NOT APPLY:", r.stderr)
        sys.exit(2)
    env = dict(os.environ, VERIF_REPO=wt)
    for pid in pids:
        p = subprocess.run([ROOT + "/check", pid, "quick"], cwd=ROOT, env=env, capture_output=True, text=True)
        lines = [l for l in p.stdout.splitlines() if l.startswith("VIOLATION") or l.startswith("violation:") or l.startswith("no longer checks") or " quick: " in l]
        print("== %s exit=%d" % (pid, p.returncode))
        for l in lines[:6]:
            print("   " + l[:400])
finally:
    subprocess.run(["git", "-C", "/repo", "worktree", "remove", "--force", wt])
    subprocess.run(["git", "checkout", "--", "evidence", "coq/theories/Gen"], cwd=ROOT)
    # rebuild against /repo so that the next run starts from the real tree
    subprocess.run([ROOT + "/check", "setup"], cwd=ROOT, capture_output=True)
