#!/usr/bin/env python3
"""seedconfirm.py <seed OUT dir> <k> <Cxx> — confirm a seeded change independently in a scratch worktree of /repo:
builds, full test suite passes with the patch, demo fails with the patch and passes without; then runs the Cxx check
against the patched scratch copy; on success stores everything under /verif/seeded/<Cxx>-<k>/ with meta.json."""
import json, os, subprocess, sys, tempfile, shutil, re
ROOT = os.path.dirname(os.path.dirname(os.path.abspath(__file__)))
out, k, pid = sys.argv[1], sys.argv[2], sys.argv[3]
extra = sys.argv[4:]  # further properties to check
ENV = dict(os.environ, GOFLAGS="-mod=mod", GOPROXY="off", GOSUMDB="off", GOTOOLCHAIN="local")
meta = json.load(open("%s/meta%s.json" % (out, k)))
patch = "%s/patch%s.diff" % (out, k)
demo = [f for f in os.listdir(out) if f.startswith("demo%s_" % k)][0]
wt = tempfile.mkdtemp(prefix="vp-sc-"); os.rmdir(wt)
subprocess.run(["git", "-C", "/repo", "worktree", "add", "-q", "--detach", wt, "HEAD"], check=True)
res = {}
def sh(cmd):
    p = subprocess.run(cmd, shell=True, cwd=wt, env=ENV, capture_output=True, text=True)
    return p.returncode, (p.stdout + p.stderr)[-1500:]
try:
    os.makedirs(wt + "/OUT", exist_ok=True)
    for f in os.listdir(out):
        shutil.copy(out + "/" + f, wt + "/OUT/" + f)
    cmd = meta["demo_cmd"].replace("/tmp/seed-%s" % pid, wt)
    rc, o = sh(cmd); res["demo_clean"] = 1 if (rc != 0 or "FAIL" in o or "panic:" in o or "fatal error" in o) else 0
    # remove demo file(s) placed by the command before running the suite
    sh("git clean -fdq -e OUT")
    rc, o = sh("git apply OUT/patch%s.diff" % k); res["apply"] = rc
    if rc != 0:
        print("patch does not apply (the tree has moved on?):", o); res["apply_err"] = o
    rc, o = sh("go build ./... && go vet ./... >/dev/null 2>&1; go build ./..."); res["build"] = rc
    rc, o = sh("go test -count=1 ./... 2>&1 | tail -12"); res["suite"] = 0 if ("FAIL" not in o and rc == 0) else 1; res["suite_out"] = o[-400:]
    rc, o = sh(cmd); res["demo_patched"] = 1 if (rc != 0 or "FAIL" in o or "panic:" in o or "fatal error" in o) else 0; res["demo_out"] = o[-500:]
    sh("git clean -fdq -e OUT")
finally:
    subprocess.run(["git", "-C", "/repo", "worktree", "remove", "--force", wt])
ok = res.get("apply") == 0 and res.get("build") == 0 and res.get("suite") == 0 and res.get("demo_clean") == 0 and res.get("demo_patched") != 0
print(json.dumps({x: res[x] for x in res if not x.endswith("_out")}), "CONFIRMED" if ok else "NOT CONFIRMED")
if not ok:
    print(res.get("suite_out", ""), res.get("demo_out", ""))
    sys.exit(1)
# run the checks
p = subprocess.run([ROOT + "/tools/seedtest.py", patch, pid] + extra, capture_output=True, text=True)
print(p.stdout)
caught = {}
for m in re.finditer(r"== (C\d+) exit=(\d+)", p.stdout):
    caught[m.group(1)] = (m.group(2) == "1")
d = "%s/seeded/%s-%s" % (ROOT, pid, os.path.basename(os.path.dirname(out.rstrip('/'))).replace('seed-', '') + "-" + k if False else k)
d = "%s/seeded/%s-%s" % (ROOT, pid, k)
n = 0
while os.path.exists(d):
    n += 1
    d = "%s/seeded/%s-%s_%d" % (ROOT, pid, k, n)
os.makedirs(d)
shutil.copy(patch, d + "/patch.diff")
shutil.copy(out + "/" + demo, d + "/" + demo.replace("demo%s_" % k, "demo_"))
meta2 = {"property": pid, "breaks": meta.get("summary"), "needs": meta.get("needs"), "demo_cmd": meta.get("demo_cmd"),
         "author_verified": meta.get("verified"),
         "confirmed_by_me": "scratch worktree of /repo HEAD: go build ok, go test ./... passes with the patch, demo passes on the clean tree and fails with the patch",
         "checks_run": {c: ("VIOLATION reported (exit 1)" if v else "NOT detected (exit 0)") for c, v in caught.items()},
         "check_output": p.stdout[-1500:]}
json.dump(meta2, open(d + "/meta.json", "w"), indent=1)
print("stored in", d, caught)
