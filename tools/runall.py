#!/usr/bin/env python3
"""runall.py [quick|thorough] [ids...] — run every registered check on the unchanged tree and summarise."""
import json, subprocess, sys, time, os
ROOT = os.path.dirname(os.path.dirname(os.path.abspath(__file__)))
tier = "quick"
ids = []
for a in sys.argv[1:]:
    if a in ("quick", "thorough"):
        tier = a
    else:
        ids.append(a)
man = json.load(open(ROOT + "/MANIFEST.json"))
bad = 0
for c in man["checks"]:
    pid = c["property_id"]
    if ids and pid not in ids:
        continue
    t = time.time()
    p = subprocess.run([ROOT + "/check", pid, tier], cwd=ROOT, capture_output=True, text=True)
    last = [l for l in p.stdout.splitlines() if (" %s: " % tier) in l or l.startswith("VIOLATION")]
    kf = sum(1 for l in p.stdout.splitlines() if l.startswith("KNOWN-FINDING"))
    print("%s exit=%d %5.1fs known=%d  %s" % (pid, p.returncode, time.time() - t, kf, " | ".join(last)[:200]), flush=True)
    bad += p.returncode != 0
sys.exit(1 if bad else 0)
