#!/usr/bin/env python3
"""revertall.py [Cxx ...] — for every `fixed: property=<id> <commit>` line of KNOWN_FINDINGS.txt: revert that commit in a scratch
copy of /repo and run the property's quick check against it (tools/seedtest.py). A fixed entry suppresses nothing, so the
check must report the violation again. Prints one line per entry: reported-again / NOT-REPORTED / revert-conflicts.
Run it in a clone of /verif (it rebuilds Gen files and the Coq tree for every entry)."""
import json, os, re, subprocess, sys, tempfile
ROOT = os.path.dirname(os.path.dirname(os.path.abspath(__file__)))
want = sys.argv[1:]
entries = []
for line in open(ROOT + "/KNOWN_FINDINGS.txt"):
    m = re.match(r"fixed:\s+property=(C\d\d)\s+([0-9a-f]{7,40})\s+(.*)", line.strip())
    if m and (not want or m.group(1) in want):
        entries.append(m.groups())
res = {}
for pid, h, what in entries:
    key = "%s %s" % (pid, h)
    wt = tempfile.mkdtemp(prefix="vp-rv-"); os.rmdir(wt)
    subprocess.run(["git", "-C", "/repo", "worktree", "add", "-q", "--detach", wt, "HEAD"], check=True)
    patch = None
    try:
        r = subprocess.run(["git", "-C", wt, "revert", "--no-commit", h], capture_output=True, text=True)
        if r.returncode != 0:
            res[key] = "revert-conflicts (later commits touch the same lines)"
        else:
            patch = tempfile.mktemp(prefix="vp-rv-", suffix=".diff")
            open(patch, "w").write(subprocess.run(["git", "-C", wt, "diff", "HEAD"], capture_output=True, text=True).stdout)
    finally:
        subprocess.run(["git", "-C", "/repo", "worktree", "remove", "--force", wt])
    if patch:
        p = subprocess.run([ROOT + "/tools/seedtest.py", patch, pid], capture_output=True, text=True)
        os.remove(patch)
        concrete = "no-failing-input-found" not in p.stdout
        res[key] = ("reported-again" + ("" if concrete else " (no-failing-input-found)")) if ("exit=1" in p.stdout) else "NOT-REPORTED"
    print("%-14s %-45s %s" % (key, res[key], what[:90]), flush=True)
json.dump(res, open(ROOT + "/seeded/LAST_REVERTS.json", "w"), indent=1)
bad = [k for k, v in res.items() if v == "NOT-REPORTED"]
print("not reported:", bad)
sys.exit(1 if bad else 0)
