#!/bin/sh
# usage: goal.sh theories/X/File.v <line>   — shows the proof state after <line> lines of the file
f=$1; n=$2
tmp=/tmp/goal_$$.v
head -n $n $f > $tmp
printf '\nShow.\nAbort.\n' >> $tmp
coqc -Q theories Verif $tmp 2>&1 | tail -${3:-60}
rm -f $tmp /tmp/goal_$$.vo /tmp/goal_$$.glob /tmp/.goal_$$.aux /tmp/goal_$$.vok /tmp/goal_$$.vos
