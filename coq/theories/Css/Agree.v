(* Css/Agree.v — IsIdent and IsURLUnquoted agree with the lexer (C07). *)
From Verif Require Import Common.Base Common.Tactics Common.Lx Css.Model Css.Basics Css.Bounds Css.Proofs.
From Coq Require Import ZifyBool.

Ltac cls := unfold ident_start, ident_char, url_bad_char, is_hex, is_ws, is_nl, is_digit, is_letter, is_sign,
                   is_qmark in *.
(* decide the condition of the first remaining [if] from the hypotheses *)
Ltac dec1 :=
  match goal with
  | |- context [if ?b then _ else _] =>
      first [ replace b with false by (cls; lia) | replace b with true by (cls; lia) ]
  end.
Ltac bind_inv H :=
  match type of H with
  | option_bind ?e _ = Some _ =>
      let x := fresh "x" in let E := fresh "E" in
      destruct e as [x|] eqn:E; [cbn [option_bind] in H|discriminate H]
  end.
Ltac if_inv H :=
  match type of H with
  | (if ?b then _ else _) = _ => let E := fresh "E" in destruct b eqn:E
  | Some (if ?b then _ else _) = _ => let E := fresh "E" in destruct b eqn:E
  end.

(* --- lexing a buffer that is one token ------------------------------------------------------------- *)
Lemma suffix_init b : suffix (lx_init b) = b ++ [0].
Proof. reflexivity. Qed.

Lemma css_lex_single b ty : b <> [] -> css_scan (b ++ [0]) = Some (ty, len b) -> is_err ty = false ->
  css_lex b = LexDone [(ty, b)].
Proof.
  intros Hb Hs Ht. unfold css_lex.
  destruct b as [|c0 b0]; [congruence|]. set (b := c0 :: b0) in *.
  change (length b) with (S (length b0)). cbn [css_lex_from].
  destruct (lx_init_data b) as (Hd & Hl).
  destruct (css_next_spec (lx_init b) (css_inv_init b)) as [[E _]|[E (ty' & n & Hs' & _ & Hn1 & Hn2 & Hn)]].
  - rewrite Hl in E. cbn [lx_init lpos] in E. subst b. lens. lia.
  - rewrite suffix_init, Hs in Hs'. assert (ty' = ty) by congruence. assert (n = len b) by congruence. subst ty' n.
    rewrite Hn, Ht. rewrite Hd. cbn [lx_init lpos lbuf].
    replace (slice b 0 (0 + len b)) with b.
    2:{ unfold slice. rewrite skipz_0. replace (0 + len b - 0) with (len b) by lia. symmetry. apply firstz_all. lia. }
    set (z' := mkLx (b ++ [0]) (0 + len b) (0 + len b)).
    assert (Hi : css_inv z').
    { apply (inv_after (lx_init b) (len b) (css_inv_init b)); [lens; lia|]. rewrite Hl. cbn [lx_init lpos]. lia. }
    destruct (css_eof_sticky_proof z' Hi) as [He _]. rewrite He; [reflexivity|].
    subst z'. unfold lx_len. cbn [lpos lbuf]. rewrite len_app. change (len [0]) with 1. lia.
Qed.

Lemma css_lex_single_inv b ty b' : css_lex b = LexDone [(ty, b')] ->
  b' = b /\ b <> [] /\ css_scan (b ++ [0]) = Some (ty, len b) /\ is_err ty = false.
Proof.
  intros H. destruct (css_tiling_proof b _ H) as (Hc & Hall & _).
  cbn [map concat snd] in Hc. rewrite app_nil_r in Hc. subst b'.
  inversion Hall as [|x l [Hne Hte] _]; subst. cbn [fst snd] in *.
  split; [reflexivity|]. split; [exact Hne|].
  unfold css_lex in H. destruct b as [|c0 b0]; [congruence|]. set (b := c0 :: b0) in *.
  change (length b) with (S (length b0)) in H. cbn [css_lex_from] in H.
  destruct (lx_init_data b) as (Hd & Hl).
  destruct (css_next_spec (lx_init b) (css_inv_init b)) as [[E _]|[E (ty' & n & Hs' & Hty & Hn1 & Hn2 & Hn)]].
  - rewrite Hl in E. cbn [lx_init lpos] in E. subst b. lens. lia.
  - rewrite Hn, Hty in H. rewrite suffix_init in Hs'.
    match type of H with match ?x with _ => _ end = _ => destruct x as [ts| |]; try discriminate end.
    assert (E1 : ty' = ty) by congruence.
    assert (E2 : slice (lx_data (lx_init b)) (lpos (lx_init b)) (lpos (lx_init b) + n) = b) by congruence.
    subst ty'. rewrite Hd in E2. cbn [lx_init lpos] in E2, Hn2. rewrite Hl in Hn2.
    pose proof (len_slice b 0 (0 + n) ltac:(lia) ltac:(lia)) as Hls. rewrite E2 in Hls.
    replace n with (len b) in Hs' by lia. split; [exact Hs'|exact Hty].
Qed.

(* --- which consumer can produce which token type ------------------------------------------------------ *)
Definition identy (ty : ttype) : Prop := ty = TIdent \/ ty = TCustomPropertyName.

Ltac inv_all H := repeat (first [bind_inv H | if_inv H]).
Ltac not_identy := intros [Hx|Hx]; discriminate Hx.

Lemma consume_bracket_ty l ty n : consume_bracket l = Some (ty, n) -> ~ identy ty.
Proof. unfold consume_bracket. intros H. inv_all H; some_inv H; not_identy. Qed.

Lemma consume_match_ty l ty n : consume_match l = Some (ty, n) -> ~ identy ty.
Proof. unfold consume_match. intros H. inv_all H; some_inv H; not_identy. Qed.

Lemma consume_numeric_ty l ty n : consume_numeric l = Some (ty, n) ->
  ty = TError \/ ty = TNumber \/ ty = TPercentage \/ ty = TDimension.
Proof. unfold consume_numeric. intros H. inv_all H; some_inv H; auto. Qed.

Lemma string_loop_ty q l : forall k ty n, string_loop q l k = Some (ty, n) -> ty = TString \/ ty = TBadString.
Proof.
  induction l as [|c t IH]; intros k ty n H; [destruct k; discriminate H|].
  destruct k as [|k].
  - rewrite string_loop_0 in H. inv_all H; try (some_inv H; auto; fail);
      apply bump2_some in H; destruct H as (m & H & _); eapply IH; exact H.
  - rewrite string_loop_skip in H. apply bump2_some in H. destruct H as (m & H & _). eapply IH; exact H.
Qed.

Lemma consume_string_ty l ty n : consume_string l = Some (ty, n) -> ty = TString \/ ty = TBadString.
Proof.
  unfold consume_string. intros H. bind_inv H. apply bump2_some in H. destruct H as (m & H & _).
  eapply string_loop_ty; exact H.
Qed.

Lemma url_end_ty n l ty m : url_end n l = Some (ty, m) -> ty = TURL \/ ty = TBadURL.
Proof. unfold url_end. intros H. inv_all H; some_inv H; auto. Qed.

Lemma consume_identlike_ty l ty n : consume_identlike l = Some (ty, n) ->
  (ty = TIdent /\ consume_ident_token l = Some n) \/ ty = TError \/ ty = TFunction \/ ty = TURL \/ ty = TBadURL.
Proof.
  unfold consume_identlike. intros H. bind_inv H. if_inv H; [some_inv H; auto|].
  bind_inv H. if_inv H; [some_inv H; auto|]. if_inv H; [some_inv H; auto|].
  right. right. right. bind_inv H. unfold url_arg in H.
  inv_all H; try (some_inv H; auto; fail); apply url_end_ty in H; exact H.
Qed.

Lemma consume_custom_variable_pos l n : consume_custom_variable l = Some n -> 0 < n -> consume_ident_token l = Some n.
Proof. unfold consume_custom_variable. intros H Hn. bind_inv H. if_inv H; [some_inv H; lia|exact H]. Qed.

Lemma pair_eq_inv {A B} (a c : A) (b d : B) : (a, b) = (c, d) -> a = c /\ b = d.
Proof. intros H. split; congruence. Qed.

(* a token of type Ident or CustomPropertyName is exactly what consumeIdentToken moves over *)
Lemma css_scan_identy l ty n : css_scan l = Some (ty, n) -> identy ty -> consume_ident_token l = Some n.
Proof.
  unfold css_scan. intros H Hi. bind_inv H.
  unfold or_delim, pos_tok in H.
  inv_all H; apply Some_inj in H;
  (match type of H with
   | (_, _) = (_, _) => apply pair_eq_inv in H; destruct H as [H H']; subst
   | ?x = (_, _) => subst x
   end);
  try (exfalso; revert Hi; not_identy);
  cbn [fst snd] in *;
  first [ exfalso; eapply consume_bracket_ty; eassumption
        | exfalso; eapply consume_match_ty; eassumption
        | apply consume_custom_variable_pos; [assumption|lia]
        | match goal with E : consume_string _ = _ |- _ => apply consume_string_ty in E; destruct E; subst; exfalso; revert Hi; not_identy end
        | match goal with E : consume_numeric _ = Some (ty, _) |- _ => apply consume_numeric_ty in E; destruct E as [?|[?|[?|?]]]; subst; exfalso; revert Hi; not_identy end
        | match goal with E : consume_identlike _ = Some (ty, _) |- _ => apply consume_identlike_ty in E; destruct E as [[? ?]|[?|[?|[?|?]]]]; subst; [assumption|exfalso; revert Hi; not_identy..] end ].
Qed.

(* --- IsIdent => one Ident / CustomPropertyName token --------------------------------------------------- *)
Lemma ident_loop_full_hd t : ident_loop (t ++ [0]) 0 = Some (len t) ->
  t = [] \/ ident_char (hd0 t) = true \/ hd0 t = 92.
Proof.
  destruct t as [|c t]; [auto|]. cbn [app hd0]. rewrite ident_loop_0. intros H. right.
  destruct (ident_char c); [auto|]. destruct (c =? 92) eqn:E; [right; lia|].
  some_inv H. lens. lia.
Qed.

Lemma identlike_full b : b <> [] -> consume_ident_token (b ++ [0]) = Some (len b) ->
  consume_identlike (b ++ [0]) = Some (TIdent, len b).
Proof.
  intros Hb H. unfold consume_identlike. rewrite H. cbn [option_bind].
  assert (0 < len b) by (destruct b; [congruence|lens; lia]).
  replace (len b =? 0) with false by lia.
  rewrite skipz_app_sent by lia. rewrite skipz_at_end. cbn [app]. rewrite peekz_0. reflexivity.
Qed.

Lemma number_token_nondigit c t : is_sign c = false -> is_digit c = false -> c <> 46 ->
  consume_number_token (c :: t) = Some 0.
Proof.
  intros Hs Hd Hp. unfold consume_number_token. rewrite peekz_0. cbn [option_bind]. rewrite Hs.
  rewrite skipz_0. unfold digits. rewrite scan_while_cons, Hd. cbn [option_bind]. rewrite skipz_0, peekz_0.
  cbn [option_bind]. replace (c =? 46) with false by lia. reflexivity.
Qed.

Lemma numeric_nondigit c t : is_sign c = false -> is_digit c = false -> c <> 46 ->
  consume_numeric (c :: t) = Some (TError, 0).
Proof. intros. unfold consume_numeric. rewrite number_token_nondigit by assumption. reflexivity. Qed.

Lemma isident_scan b : b <> [] -> consume_ident_token (b ++ [0]) = Some (len b) ->
  exists ty, css_scan (b ++ [0]) = Some (ty, len b) /\ identy ty.
Proof.
  intros Hb H. pose proof (identlike_full b Hb H) as Hil.
  destruct b as [|c t]; [congruence|]. clear Hb.
  assert (Hpos : 0 < len (c :: t)) by (lens; lia).
  pose proof H as H0. unfold consume_ident_token in H0. cbn [app] in H0, H, Hil |- *. rewrite peekz_0 in H0.
  cbn [option_bind] in H0.
  unfold css_scan. rewrite peekz_0. cbn [option_bind].
  destruct (c =? 45) eqn:E45.
  - assert (c = 45) by lia. subst c. repeat dec1.
    destruct t as [|c1 t].
    + exfalso. cbn in H0. some_inv H0. discriminate.
    + cbn [app] in *. rewrite peekz_1, peekz_0 in H0. cbn [option_bind] in H0.
      destruct (c1 =? 45) eqn:E1.
      * assert (c1 = 45) by lia. subst c1. unfold ident_tail in H0. rewrite skipz_2 in H0. bind_inv H0.
        some_inv H0. assert (Hx : x = len t) by (lens; lia). subst x.
        pose proof (ident_loop_full_hd t E) as Hhd.
        unfold consume_cdc. inz. repeat dec1. rewrite peekz_sent_0. cbn [option_bind].
        replace (hd0 t =? 62) with false.
        2:{ destruct Hhd as [->|[Hh|Hh]]; [reflexivity|cls; lia|lia]. }
        cbn [Z.ltb Z.compare]. cbv beta iota.
        unfold consume_custom_variable. inz. repeat dec1. rewrite H. cbn [option_bind].
        replace (0 <? len (45 :: 45 :: t)) with true by lia. eexists; split; [reflexivity|right; reflexivity].
      * unfold consume_cdc. inz. repeat dec1. cbn [Z.ltb Z.compare]. cbv beta iota.
        unfold consume_custom_variable. inz. repeat dec1. cbn [Z.ltb Z.compare]. cbv beta iota.
        rewrite Hil. cbn [option_bind fst is_err negb]. eexists; split; [reflexivity|left; reflexivity].
  - unfold ident_tail in H0. rewrite skipz_0, peekz_0 in H0. cbn [option_bind] in H0.
    destruct (ident_start c) eqn:Es.
    + bind_inv H0. some_inv H0. assert (Hx : x = len t) by (lens; lia). subst x. cbn [tl] in E.
      pose proof (ident_loop_full_hd t E) as Hhd.
      destruct ((c =? 117) || (c =? 85)) eqn:Eu.
      * repeat dec1. unfold consume_unicode_range. inz. repeat dec1. rewrite peekz_sent_0. cbn [option_bind].
        replace (negb (hd0 t =? 43)) with true.
        2:{ destruct Hhd as [->|[Hh|Hh]]; [reflexivity|cls; lia|lia]. }
        cbn [option_bind Z.ltb Z.compare]. cbv beta iota. rewrite Hil. cbn [option_bind].
        eexists; split; [reflexivity|left; reflexivity].
      * repeat dec1. rewrite numeric_nondigit by (cls; lia). cbn [option_bind fst is_err negb].
        rewrite Hil. cbn [option_bind]. eexists; split; [reflexivity|left; reflexivity].
    + destruct (c =? 92) eqn:E92; [|exfalso; some_inv H0; lia].
      assert (c = 92) by lia. subst c. repeat dec1. rewrite Hil. cbn [option_bind].
      eexists; split; [reflexivity|left; reflexivity].
Qed.

Lemma is_ident_total b : exists r, is_ident b = Some r.
Proof. unfold is_ident. destruct (consume_ident_token_ok b) as (n & -> & _). cbn [option_bind]. eauto. Qed.

(* C07: for a non-empty argument, IsIdent is true exactly when the whole argument lexes as one Ident or
   CustomPropertyName token *)
Lemma isident_agrees_proof : forall b, b <> [] ->
  (is_ident b = Some true <->
   exists ty, css_lex b = LexDone [(ty, b)] /\ (ty = TIdent \/ ty = TCustomPropertyName)).
Proof.
  intros b Hb. unfold is_ident. destruct (consume_ident_token_ok b) as (n & Hn & Hr). rewrite Hn.
  cbn [option_bind]. split.
  - intros H. assert (n = len b) by (some_inv H; lia). subst n.
    destruct (isident_scan b Hb Hn) as (ty & Hs & Hi). exists ty. split; [|exact Hi].
    apply css_lex_single; [exact Hb|exact Hs|]. destruct Hi; subst; reflexivity.
  - intros (ty & Hl & Hi). destruct (css_lex_single_inv b ty b Hl) as (_ & _ & Hs & _).
    pose proof (css_scan_identy _ _ _ Hs Hi) as Hc. rewrite Hn in Hc. some_inv Hc.
    rewrite Z.eqb_refl. reflexivity.
Qed.

Example isident_example :
  is_ident [45; 45; 97] = Some true /\ css_lex [45; 45; 97] = LexDone [(TCustomPropertyName, [45; 45; 97])] /\
  is_ident [97; 92; 52; 49; 32; 98] = Some true /\ is_ident [97; 32; 98] = Some false.
Proof. vm_compute. auto. Qed.

(* --- IsURLUnquoted => url(b) is one URL token ------------------------------------------------------------ *)
(* the same bytes followed by ")" instead of the end of input: consumeEscape moves over the same bytes,
   except that a multi-byte rune cut off by the end of b now also swallows the ')' (PeekRune only looks at
   the lead byte and at how many bytes remain) *)
Lemma hex_upto_follow k d x : is_hex x = false -> hex_upto k (d ++ [x; 0]) = hex_upto k (d ++ [0]).
Proof.
  intros Hx. revert d. induction k as [|k IH]; intros d; [reflexivity|]. cbn [hex_upto].
  unfold consume_hexdigit. destruct d as [|c d]; cbn [app]; rewrite !peekz_0; cbn [option_bind].
  - rewrite Hx. reflexivity.
  - destruct (is_hex c); cbn [Z.ltb Z.compare tl]; [|reflexivity]. rewrite IH. reflexivity.
Qed.

Lemma rune_len_val c t : rune_len (c :: t) =
  Some (if (c <? 192) || (len t <? 2) then 1 else if (c <? 224) || (len t <? 3) then 2
        else if (c <? 240) || (len t <? 4) then 3 else 4).
Proof.
  unfold rune_len. rewrite peekz_0. cbn [option_bind]. rewrite len_cons.
  replace (1 + len t - 1) with (len t) by lia.
  destruct ((c <? 192) || (len t <? 2)) eqn:E1; [reflexivity|].
  rewrite peekz_1, peekz_2, peekz_3.
  destruct (peekz_in_range t 0) as (x0 & ->); [lia|]. cbn [option_bind].
  destruct ((c <? 224) || (len t <? 3)) eqn:E2; [reflexivity|].
  destruct (peekz_in_range t 1) as (x1 & ->); [lia|]. cbn [option_bind].
  destruct ((c <? 240) || (len t <? 4)) eqn:E3; [reflexivity|].
  destruct (peekz_in_range t 2) as (x2 & ->); [lia|]. reflexivity.
Qed.

Lemma escape_follow d e : consume_escape (d ++ [0]) = Some e -> 0 < e ->
  consume_escape (d ++ [41; 0]) = Some e \/ (e = len d /\ consume_escape (d ++ [41; 0]) = Some (e + 1)).
Proof.
  unfold consume_escape. destruct d as [|c d]; cbn [app]; rewrite !peekz_0; cbn [option_bind].
  { cbn. intros H. some_inv H. lia. }
  destruct (negb (c =? 92)); [intros H; some_inv H; lia|]. cbn [tl].
  destruct d as [|c1 d]; cbn [app].
  { cbn. intros H. some_inv H. lia. }
  unfold consume_newline. rewrite !peekz_0. cbn [option_bind].
  destruct ((c1 =? 10) || (c1 =? 12)); cbn [option_bind Z.ltb Z.compare]; [intros H; some_inv H; lia|].
  destruct (c1 =? 13) eqn:E13.
  { rewrite !peekz_1. destruct d; cbn [app]; rewrite !peekz_0; cbn [option_bind]; intros H Hp; exfalso.
    - cbn in H. some_inv H. lia.
    - destruct (z =? 10); cbn in H; some_inv H; lia. }
  cbn [option_bind Z.ltb Z.compare]. unfold consume_hexdigit. rewrite !peekz_0. cbn [option_bind].
  destruct (is_hex c1) eqn:Eh; cbn [Z.ltb Z.compare tl].
  - rewrite (hex_upto_follow 5 d 41 eq_refl).
    destruct (hex_upto_ok 5 d) as (k & -> & Hk & _). cbn [option_bind].
    change (d ++ [41; 0]) with (d ++ [41] ++ [0]). rewrite app_assoc.
    rewrite !skipz_app_sent by (rewrite ?len_app; change (len [41]) with 1; lia).
    replace (skipz k (d ++ [41])) with (skipz k d ++ [41]).
    2:{ unfold skipz, len in *. rewrite skipn_app. replace (Z.to_nat k - length d)%nat with O by lia. reflexivity. }
    unfold escape_ws, consume_newline, consume_whitespace.
    destruct (skipz k d) as [|x r]; cbn [app]; rewrite !peekz_0; cbn [option_bind]; [cbn; auto|].
    destruct ((x =? 10) || (x =? 12)); [auto|]. destruct (x =? 13); [|auto].
    rewrite !peekz_1. destruct r as [|y r]; cbn [app]; rewrite !peekz_0; cbn [option_bind]; [cbn; auto|auto].
  - destruct (192 <=? c1) eqn:E192.
    + rewrite !rune_len_val. cbn [option_bind]. rewrite !len_app. change (len [41; 0]) with 2. change (len [0]) with 1.
      rewrite !len_cons. pose proof (len_nonneg d) as Hd. intros H Hp. some_inv H.
      destruct ((c1 <? 192) || (len d + 1 <? 2)) eqn:A1; destruct ((c1 <? 192) || (len d + 2 <? 2)) eqn:B1;
      destruct ((c1 <? 224) || (len d + 1 <? 3)) eqn:A2; destruct ((c1 <? 224) || (len d + 2 <? 3)) eqn:B2;
      destruct ((c1 <? 240) || (len d + 1 <? 4)) eqn:A3; destruct ((c1 <? 240) || (len d + 2 <? 4)) eqn:B3;
      try lia; first [ left; reflexivity | right; split; [lia|f_equal; lia] ].
    + rewrite eofb_cons_sent.
      replace (eofb (c1 :: d ++ [41; 0])) with false by (destruct d; reflexivity).
      rewrite andb_false_r. auto.
Qed.

Lemma url_loop_skip_all d x : url_loop (d ++ [x; 0]) (S (length d)) = Some (true, len d + 1).
Proof.
  induction d as [|c d IH]; cbn [app length].
  - rewrite url_loop_skip, url_loop_0. cbn. reflexivity.
  - rewrite url_loop_skip, IH. cbn [bump2]. rewrite len_cons. f_equal. f_equal. lia.
Qed.

Lemma url_loop_close b : forall k ok, url_loop (b ++ [0]) k = Some (ok, len b) ->
  exists m, url_loop (b ++ [41; 0]) k = Some (true, m) /\ (m = len b \/ m = len b + 1).
Proof.
  induction b as [|c b IH]; intros k ok H; cbn [app] in *.
  - destruct k as [|k].
    + exists 0. rewrite url_loop_0. cbn. auto.
    + rewrite url_loop_skip in H. destruct k; discriminate H.
  - destruct k as [|k].
    + rewrite url_loop_0 in H |- *. rewrite eofb_cons_sent in H.
      replace (eofb (c :: b ++ [41; 0])) with false by (destruct b; reflexivity).
      rewrite andb_false_r in *. cbn [orb] in *.
      destruct (c =? 41); [some_inv H; lens; lia|].
      destruct (url_bad_char c).
      * destruct (c =? 92); [|some_inv H; lens; lia].
        bind_inv H. destruct (0 <? x) eqn:Ex; [|some_inv H; lens; lia].
        apply bump2_some in H. destruct H as (m & H & Hm).
        assert (Hm' : m = len b) by (lens; lia). subst m.
        change (c :: b ++ [0]) with ((c :: b) ++ [0]) in E.
        destruct (escape_follow (c :: b) x E ltac:(lia)) as [E'|[Hx E']]; cbn [app] in E'; rewrite E'; cbn [option_bind].
        -- rewrite Ex. destruct (IH _ _ H) as (m & -> & Hmm). cbn [bump2]. eexists; split; [reflexivity|]. lens; lia.
        -- replace (0 <? x + 1) with true by lia.
           replace (Z.to_nat (x + 1 - 1)) with (S (length b)) by (rewrite Hx; unfold len; cbn [length]; lia).
           rewrite url_loop_skip_all. cbn [bump2]. eexists; split; [reflexivity|]. lens; lia.
      * apply bump2_some in H. destruct H as (m & H & Hm).
        assert (Hm' : m = len b) by (lens; lia). subst m.
        destruct (IH _ _ H) as (m & -> & Hmm). cbn [bump2]. eexists; split; [reflexivity|]. lens; lia.
    + rewrite url_loop_skip in H |- *. apply bump2_some in H. destruct H as (m & H & Hm).
      assert (Hm' : m = len b) by (lens; lia). subst m.
      destruct (IH _ _ H) as (m & -> & Hmm). cbn [bump2]. eexists; split; [reflexivity|]. lens; lia.
Qed.

Lemma url_full_hd b ok : url_loop (b ++ [0]) 0 = Some (ok, len b) ->
  is_ws (hd0 (b ++ [41])) = false /\ hd0 (b ++ [41]) <> 34 /\ hd0 (b ++ [41]) <> 39.
Proof.
  destruct b as [|c b]; cbn [app hd0]; [cbn; lia|].
  rewrite url_loop_0. rewrite eofb_cons_sent, andb_false_r. cbn [orb]. intros H.
  destruct (c =? 41) eqn:E41; [some_inv H; lens; lia|].
  destruct (url_bad_char c) eqn:Eb.
  - destruct (c =? 92) eqn:E92; [|some_inv H; lens; lia]. cls. lia.
  - cls. lia.
Qed.

Definition url_open : list Z := [117; 114; 108; 40].   (* "url(" *)

Lemma url_ident_token r : consume_ident_token (url_open ++ r) = Some 3.
Proof.
  unfold url_open, consume_ident_token. cbn [app]. rewrite peekz_0. cbn [option_bind].
  change (117 =? 45) with false. cbv beta iota. unfold ident_tail. rewrite skipz_0, peekz_0. cbn [option_bind].
  change (ident_start 117) with true. cbv beta iota. cbn [tl].
  rewrite ident_loop_0. change (ident_char 114) with true. cbv beta iota.
  rewrite ident_loop_0. change (ident_char 108) with true. cbv beta iota.
  rewrite ident_loop_0. change (ident_char 40) with false. change (40 =? 92) with false. cbv beta iota.
  reflexivity.
Qed.

Lemma isurl_scan b : is_url_unquoted b = Some true ->
  css_scan ((url_open ++ b ++ [41]) ++ [0]) = Some (TURL, len (url_open ++ b ++ [41])).
Proof.
  unfold is_url_unquoted. intros H. bind_inv H. destruct x as [ok m]. cbn [snd] in H.
  assert (m = len b) by (some_inv H; lia). subst m. clear H.
  destruct (url_loop_close b O ok E) as (m & Hm & Hmm).
  destruct (url_full_hd b ok E) as (Hw & Hq1 & Hq2).
  assert (Hlen : len (url_open ++ b ++ [41]) = 4 + len b + 1).
  { rewrite !len_app. change (len url_open) with 4. change (len [41]) with 1. lia. }
  rewrite Hlen. rewrite <- app_assoc.
  set (r := (b ++ [41]) ++ [0]).
  unfold css_scan, url_open. cbn [app]. rewrite peekz_0. cbn [option_bind].
  change (is_ws 117) with false. cbv beta iota. change (117 =? 58) with false. cbv beta iota.
  cbn [Z.eqb Pos.eqb orb]. cbv beta iota.
  unfold consume_unicode_range. rewrite peekz_0, peekz_1, peekz_0. cbn [option_bind Z.eqb Pos.eqb orb negb].
  cbn [Z.ltb Z.compare]. cbv beta iota.
  unfold consume_identlike. change (117 :: 114 :: 108 :: 40 :: r) with (url_open ++ r).
  rewrite url_ident_token. cbn [option_bind]. change (3 =? 0) with false. cbv beta iota.
  unfold url_open. cbn [app]. change (skipz 3 (117 :: 114 :: 108 :: 40 :: r)) with (40 :: r).
  rewrite peekz_0. cbn [option_bind]. change (negb (40 =? 40)) with false. cbv beta iota.
  change (firstz 3 (117 :: 114 :: 108 :: 40 :: r)) with [117; 114; 108].
  change (negb (is_url_name [117; 114; 108])) with false. cbv beta iota. cbn [tl].
  subst r. rewrite <- app_assoc. cbn [app].
  assert (Hws : scan_while is_ws (b ++ [41; 0]) = Some 0).
  { destruct b as [|c b]; cbn [app hd0] in *; rewrite scan_while_cons; [reflexivity|rewrite Hw; reflexivity]. }
  rewrite Hws. cbn [option_bind]. rewrite skipz_0. unfold url_arg.
  replace (peekz (b ++ [41; 0]) 0) with (Some (hd0 (b ++ [41]))) by (destruct b; cbn [app hd0]; rewrite peekz_0; reflexivity).
  cbn [option_bind].
  replace ((hd0 (b ++ [41]) =? 34) || (hd0 (b ++ [41]) =? 39)) with false by lia.
  rewrite Hm. cbn [option_bind fst snd].
  assert (Hsk : skipz m (b ++ [41; 0]) = if m =? len b then [41; 0] else [0]).
  { pose proof (len_nonneg b). destruct Hmm as [-> | ->].
    - rewrite Z.eqb_refl. unfold skipz, len. rewrite Nat2Z.id. rewrite skipn_app, skipn_all, Nat.sub_diag. reflexivity.
    - replace (len b + 1 =? len b) with false by lia.
      change (b ++ [41; 0]) with (b ++ [41] ++ [0]). rewrite app_assoc.
      replace (len b + 1) with (len (b ++ [41])) by (rewrite len_app; reflexivity).
      unfold skipz, len. rewrite Nat2Z.id. rewrite skipn_app, skipn_all, Nat.sub_diag. reflexivity. }
  rewrite Hsk. unfold url_end. destruct Hmm as [-> | ->].
  - rewrite Z.eqb_refl. change (scan_while is_ws [41; 0]) with (Some 0). cbn [option_bind]. rewrite skipz_0.
    change (consume_byte 41 [41; 0]) with (Some 1). cbn [option_bind]. change (0 <? 1) with true. cbn [orb].
    cbn [option_bind or_delim fst is_err]. f_equal. f_equal. lia.
  - replace (len b + 1 =? len b) with false by lia. change (scan_while is_ws [0]) with (Some 0).
    cbn [option_bind]. rewrite skipz_0.
    change (consume_byte 41 [0]) with (Some 0). cbn [option_bind]. change (eofb [0]) with true.
    change (0 <? 0) with false. cbn [orb].
    cbn [option_bind or_delim fst is_err]. f_equal. f_equal. lia.
Qed.

(* C07: IsURLUnquoted b is true only if url(b) lexes as one URL token *)
Lemma isurl_sound_proof : forall b, is_url_unquoted b = Some true ->
  css_lex (url_open ++ b ++ [41]) = LexDone [(TURL, url_open ++ b ++ [41])].
Proof.
  intros b H. apply css_lex_single; [discriminate|apply isurl_scan; exact H|reflexivity].
Qed.

Lemma is_url_unquoted_total b : exists r, is_url_unquoted b = Some r.
Proof.
  unfold is_url_unquoted. destruct (url_loop_ok b O) as (ok & n & -> & _); [lens; lia|]. cbn [option_bind]. eauto.
Qed.

(* "a/b" ; and a rune cut off by the end of the argument, whose escape swallows the ')' *)
Example isurl_example :
  is_url_unquoted [97; 47; 98] = Some true /\
  is_url_unquoted [92; 226; 130] = Some true /\
  css_lex (url_open ++ [92; 226; 130] ++ [41]) = LexDone [(TURL, url_open ++ [92; 226; 130] ++ [41])] /\
  is_url_unquoted [97; 32; 98] = Some false.
Proof. vm_compute. auto. Qed.

(* the statements of Props/C07.v *)
Lemma isident_agrees_full : forall b,
  (exists r, is_ident b = Some r) /\
  (b <> [] ->
   (is_ident b = Some true <->
    exists ty, css_lex b = LexDone [(ty, b)] /\ (ty = TIdent \/ ty = TCustomPropertyName))).
Proof. intros b. split; [apply is_ident_total|apply isident_agrees_proof]. Qed.

Lemma isurl_sound_full : forall b,
  (exists r, is_url_unquoted b = Some r) /\
  (is_url_unquoted b = Some true ->
   css_lex (url_open ++ b ++ [41]) = LexDone [(TURL, url_open ++ b ++ [41])]).
Proof. intros b. split; [apply is_url_unquoted_total|apply isurl_sound_proof]. Qed.
