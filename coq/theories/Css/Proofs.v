(* Css/Proofs.v — safety, progress, end-of-input and tiling of the CSS lexer model (C07 / C01 / C02). *)
From Verif Require Import Common.Base Common.Tactics Common.Lx Css.Model Css.Basics Css.Bounds.
From Coq Require Import ZifyBool.

(* the lexer's invariant between two calls of Next: well-formed cursor, empty selection *)
Definition css_inv (z : lx) : Prop := lx_wf z /\ lstart z = lpos z.

(* the input without the terminator *)
Definition lx_data (z : lx) : list Z := firstz (lx_len z) (lbuf z).

Lemma css_inv_init d : css_inv (lx_init d).
Proof. split; [apply lx_init_wf|reflexivity]. Qed.

Lemma inv_data z : css_inv z -> lbuf z = lx_data z ++ [0] /\ len (lx_data z) = lx_len z /\ 0 <= lpos z <= lx_len z.
Proof.
  intros [((d & Hd) & Hs & Hp) He]. unfold lx_data, lx_len in *. rewrite Hd in *.
  rewrite len_app in *. change (len [0]) with 1 in *. replace (len d + 1 - 1) with (len d) in * by lia.
  rewrite firstz_app_l by lia. rewrite firstz_all by lia. repeat split; lia.
Qed.

Lemma suffix_inv z : css_inv z -> suffix z = skipz (lpos z) (lx_data z) ++ [0].
Proof.
  intros H. destruct (inv_data z H) as (Hb & Hl & Hp). unfold suffix. rewrite Hb.
  apply skipz_app_sent. lia.
Qed.

Lemma skipz_at_end {A} (l : list A) : skipz (len l) l = [].
Proof. unfold skipz, len. rewrite Nat2Z.id. apply skipn_all. Qed.

Lemma skipz_nonempty {A} n (l : list A) : 0 <= n < len l -> exists c t, skipz n l = c :: t.
Proof.
  intros H. destruct (skipz n l) as [|c t] eqn:E; [|eauto].
  pose proof (len_skipz n l ltac:(lia)) as Hl. rewrite E in Hl. change (len (@nil A)) with 0 in Hl. lia.
Qed.

(* One call of Next, completely described. *)
Lemma css_next_spec z : css_inv z ->
  (lpos z = lx_len z /\ css_next z = Some (TError, [], z)) \/
  (lpos z < lx_len z /\ exists ty n,
     css_scan (suffix z) = Some (ty, n) /\ is_err ty = false /\ 1 <= n /\ lpos z + n <= lx_len z /\
     css_next z = Some (ty, slice (lx_data z) (lpos z) (lpos z + n), mkLx (lbuf z) (lpos z + n) (lpos z + n))).
Proof.
  intros H. pose proof (suffix_inv z H) as Hs. destruct (inv_data z H) as (Hb & Hl & Hp).
  destruct H as [Hwf He].
  destruct (Z.eq_dec (lpos z) (lx_len z)) as [E|E].
  - left. split; [exact E|]. unfold css_next. rewrite Hs, E, <- Hl, skipz_at_end. cbn [app].
    rewrite css_scan_eof. reflexivity.
  - right. split; [lia|].
    destruct (skipz_nonempty (lpos z) (lx_data z)) as (c & t & Ht); [lia|].
    pose proof (len_skipz (lpos z) (lx_data z) ltac:(lia)) as Hlt. rewrite Ht in Hlt.
    destruct (css_scan_good c t) as ([ty n] & Hr & Hg1 & Hg2). cbn [fst snd] in *.
    exists ty, n. rewrite Hs, Ht. split; [exact Hr|]. split; [exact Hg1|]. split; [lia|]. split; [lia|].
    unfold css_next. rewrite Hs, Ht, Hr. cbn [option_bind fst snd]. rewrite Hg1.
    unfold shift, lexeme, mv, skip. cbn [lbuf lpos lstart]. rewrite He.
    unfold slice_ok. rewrite Hb at 1. rewrite len_app. change (len [0]) with 1.
    replace ((0 <=? lpos z) && (lpos z <=? lpos z + n) && (lpos z + n <=? len (lx_data z) + 1)) with true
      by (symmetry; rewrite !andb_true_iff; repeat split; lia).
    cbn [option_bind fst snd]. rewrite Hb at 1. rewrite slice_app_l by lia. reflexivity.
Qed.

Lemma inv_after z n : css_inv z -> 0 <= n -> lpos z + n <= lx_len z ->
  css_inv (mkLx (lbuf z) (lpos z + n) (lpos z + n)).
Proof.
  intros [(Hd & Hs & Hp) He] Hn Hle. split; [|reflexivity].
  unfold lx_wf, lx_len in *. cbn [lbuf lpos lstart]. split; [exact Hd|lia].
Qed.

(* C01: every call returns, and the invariant is kept *)
Lemma css_total_proof : forall z, css_inv z ->
  exists ty b z', css_next z = Some (ty, b, z') /\ css_inv z'.
Proof.
  intros z H. destruct (css_next_spec z H) as [[E Hn]|[E (ty & n & _ & _ & Hn1 & Hn2 & Hn)]].
  - do 3 eexists. split; [exact Hn|exact H].
  - do 3 eexists. split; [exact Hn|]. apply inv_after; [exact H|lia|lia].
Qed.

Lemma css_progress_proof : forall z ty b z', css_inv z -> css_next z = Some (ty, b, z') -> ty <> TError ->
  lpos z < lpos z' <= lx_len z /\ lbuf z' = lbuf z /\ lstart z' = lpos z' /\ b <> [].
Proof.
  intros z ty b z' H Hn Hty.
  destruct (css_next_spec z H) as [[E Hn']|[E (ty' & n & _ & _ & Hn1 & Hn2 & Hn')]]; rewrite Hn' in Hn.
  - some_inv Hn. congruence.
  - assert (E1 : ty' = ty) by congruence.
    assert (E2 : slice (lx_data z) (lpos z) (lpos z + n) = b) by congruence.
    assert (E3 : mkLx (lbuf z) (lpos z + n) (lpos z + n) = z') by congruence.
    subst z'. cbn [lbuf lpos lstart]. repeat split; try lia.
    intros Hb. destruct (inv_data z H) as (_ & Hl & Hp).
    pose proof (len_slice (lx_data z) (lpos z) (lpos z + n) ltac:(lia) ltac:(lia)) as Hls.
    rewrite E2, Hb in Hls. change (len (@nil Z)) with 0 in Hls. lia.
Qed.

Lemma css_eof_sticky_proof : forall z, css_inv z ->
  (lpos z = lx_len z -> css_next z = Some (TError, [], z)) /\
  (forall b z', css_next z = Some (TError, b, z') ->
     lpos z = lx_len z /\ b = [] /\ z' = z /\ css_next z' = Some (TError, [], z')).
Proof.
  intros z H.
  destruct (css_next_spec z H) as [[E Hn']|[E (ty' & n & _ & Hty & Hn1 & Hn2 & Hn')]].
  - split; [intros _; exact Hn'|]. intros b z' Hn. rewrite Hn' in Hn.
    assert (b = []) by congruence. assert (z' = z) by congruence. subst. auto.
  - split; [lia|]. intros b z' Hn. rewrite Hn' in Hn. assert (ty' = TError) by congruence. subst ty'. discriminate.
Qed.

(* no byte outside the input is read (css_next is not None) or handed out: a token is the slice of the
   input between the cursor offsets before and after the call *)
Lemma css_no_overread_proof : forall z ty b z', css_inv z -> css_next z = Some (ty, b, z') ->
  lpos z <= lpos z' <= lx_len z /\ b = slice (lx_data z) (lpos z) (lpos z') /\ lx_data z' = lx_data z.
Proof.
  intros z ty b z' H Hn.
  destruct (css_next_spec z H) as [[E Hn']|[E (ty' & n & _ & _ & Hn1 & Hn2 & Hn')]]; rewrite Hn' in Hn.
  - assert (b = []) by congruence. assert (z' = z) by congruence. subst.
    split; [lia|]. split; [|reflexivity]. unfold slice. rewrite Z.sub_diag. reflexivity.
  - assert (E2 : slice (lx_data z) (lpos z) (lpos z + n) = b) by congruence.
    assert (E3 : mkLx (lbuf z) (lpos z + n) (lpos z + n) = z') by congruence.
    subst z' b. cbn [lpos]. split; [lia|]. split; reflexivity.
Qed.

(* --- driving Next to the end ------------------------------------------------------------------------ *)
Lemma css_lex_from_spec : forall fuel z, css_inv z -> lx_len z - lpos z < Z.of_nat fuel ->
  exists toks, css_lex_from fuel z = LexDone toks /\
    concat (map snd toks) = skipz (lpos z) (lx_data z) /\
    Forall (fun t => snd t <> [] /\ is_err (fst t) = false) toks /\
    len toks <= lx_len z - lpos z.
Proof.
  induction fuel as [|fuel IH]; intros z H Hf.
  - destruct (inv_data z H) as (_ & _ & Hp). lia.
  - cbn [css_lex_from].
    destruct (css_next_spec z H) as [[E Hn]|[E (ty & n & _ & Hty & Hn1 & Hn2 & Hn)]]; rewrite Hn.
    + cbn [is_err]. exists []. split; [reflexivity|]. destruct (inv_data z H) as (_ & Hl & _).
      rewrite E, <- Hl, skipz_at_end. split; [reflexivity|]. split; [constructor|]. change (len (@nil (ttype * list Z))) with 0. lia.
    + rewrite Hty.
      pose proof (inv_after z n H ltac:(lia) Hn2) as H'.
      set (z' := mkLx (lbuf z) (lpos z + n) (lpos z + n)) in *.
      assert (Hd : lx_data z' = lx_data z) by reflexivity.
      assert (Hl' : lx_len z' = lx_len z) by reflexivity.
      destruct (IH z' H') as (ts & -> & Hc & Hall & Hlen); [subst z'; cbn [lpos]; rewrite Hl'; lia|].
      eexists. split; [reflexivity|]. destruct (inv_data z H) as (_ & Hl & Hp).
      split; [|split].
      * cbn [map concat snd]. rewrite Hc, Hd. subst z'. cbn [lpos].
        unfold slice. replace (lpos z + n - lpos z) with n by lia.
        replace (lpos z + n) with (n + lpos z) by lia.
        rewrite <- (skipz_skipz n (lpos z)) by lia. apply firstz_skipz.
      * constructor; [|exact Hall]. cbn [fst snd]. split; [|exact Hty].
        intros Hb. pose proof (len_slice (lx_data z) (lpos z) (lpos z + n) ltac:(lia) ltac:(lia)) as Hls.
        rewrite Hb in Hls. change (len (@nil Z)) with 0 in Hls. lia.
      * rewrite len_cons. subst z'. cbn [lpos] in Hlen. rewrite Hl' in Hlen. lia.
Qed.

Lemma lx_init_data d : lx_data (lx_init d) = d /\ lx_len (lx_init d) = len d.
Proof.
  unfold lx_data, lx_len, lx_init. cbn [lbuf]. rewrite len_app. change (len [0]) with 1.
  replace (len d + 1 - 1) with (len d) by lia. rewrite firstz_app_l by lia. rewrite firstz_all by lia. auto.
Qed.

(* C01 linear bound: at most len d tokens, then the end-of-input report; fuel len d + 1 suffices *)
Lemma css_lex_done_proof : forall d, exists toks, css_lex d = LexDone toks /\ len toks <= len d.
Proof.
  intros d. unfold css_lex. destruct (lx_init_data d) as (Hd & Hl).
  destruct (css_lex_from_spec (S (length d)) (lx_init d) (css_inv_init d)) as (toks & Ht & _ & _ & Hlen).
  - rewrite Hl. cbn [lx_init lpos]. unfold len. lia.
  - exists toks. split; [exact Ht|]. rewrite Hl in Hlen. cbn [lx_init lpos] in Hlen. lia.
Qed.

Lemma concat_slice (pre : list (list Z)) b post :
  b = slice (concat (pre ++ b :: post)) (len (concat pre)) (len (concat pre) + len b).
Proof.
  rewrite concat_app. cbn [concat]. unfold slice.
  replace (len (concat pre) + len b - len (concat pre)) with (len b) by lia.
  unfold skipz, firstz, len. rewrite !Nat2Z.id.
  rewrite skipn_app, skipn_all, Nat.sub_diag. cbn [app skipn].
  rewrite firstn_app, firstn_all, Nat.sub_diag. cbn [firstn]. symmetry. apply app_nil_r.
Qed.

(* C02: the tokens tile the input: they concatenate to exactly the input, each is non-empty, and each is the
   slice of the input that starts where the previous one ended *)
Lemma css_tiling_proof : forall d toks, css_lex d = LexDone toks ->
  concat (map snd toks) = d /\
  Forall (fun t => snd t <> [] /\ fst t <> TError) toks /\
  (forall pre ty b post, toks = pre ++ (ty, b) :: post ->
     b = slice d (len (concat (map snd pre))) (len (concat (map snd pre)) + len b)).
Proof.
  intros d toks Hlex. unfold css_lex in Hlex. destruct (lx_init_data d) as (Hd & Hl).
  destruct (css_lex_from_spec (S (length d)) (lx_init d) (css_inv_init d)) as (toks' & Ht & Hc & Hall & _).
  - rewrite Hl. cbn [lx_init lpos]. unfold len. lia.
  - rewrite Ht in Hlex. assert (toks' = toks) by congruence. subst toks'.
    rewrite Hd in Hc. cbn [lx_init lpos] in Hc. rewrite skipz_0 in Hc.
    split; [exact Hc|]. split.
    + eapply Forall_impl; [|exact Hall]. intros [ty b] [H1 H2]. cbn [fst snd] in *. split; [exact H1|].
      intros ->. discriminate.
    + intros pre ty b post ->. rewrite <- Hc. rewrite map_app. cbn [map snd]. apply concat_slice.
Qed.

(* --- non-vacuity: the hypotheses of the theorems above are met by concrete states ------------------------ *)
(* "a:1px" *)
Example css_lex_example :
  css_lex [97; 58; 49; 112; 120] = LexDone [(TIdent, [97]); (TColon, [58]); (TDimension, [49; 112; 120])].
Proof. vm_compute. reflexivity. Qed.

Example css_next_example :
  css_inv (lx_init [97; 58]) /\
  css_next (lx_init [97; 58]) = Some (TIdent, [97], mkLx [97; 58; 0] 1 1) /\
  css_next (mkLx [97; 58; 0] 2 2) = Some (TError, [], mkLx [97; 58; 0] 2 2).
Proof. split; [apply css_inv_init|]. split; vm_compute; reflexivity. Qed.
