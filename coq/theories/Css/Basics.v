(* Css/Basics.v — list/peek lemmas on terminated buffers d ++ [0] and the tactics used by the CSS proofs. *)
From Verif Require Import Common.Base Common.Tactics Common.Lx Css.Model.
From Coq Require Import ZifyBool.

Lemma peekz_nil i : peekz [] i = None.
Proof. unfold peekz. change (len (@nil Z)) with 0. destruct (0 <=? i) eqn:A; destruct (i <? 0) eqn:B; cbn; try reflexivity. lia. Qed.

Lemma peekz_0 c t : peekz (c :: t) 0 = Some c.
Proof. unfold peekz. rewrite len_cons. pose proof (len_nonneg t). zb. reflexivity. Qed.

Lemma peekz_S c t i : 0 < i -> peekz (c :: t) i = peekz t (i - 1).
Proof.
  intros H. unfold peekz. rewrite len_cons.
  replace (0 <=? i) with true by (symmetry; apply Z.leb_le; lia).
  replace (0 <=? i - 1) with true by (symmetry; apply Z.leb_le; lia).
  replace (i <? 1 + len t) with (i - 1 <? len t) by lia.
  destruct (i - 1 <? len t); cbn; [|reflexivity].
  replace (Z.to_nat i) with (S (Z.to_nat (i - 1))) by lia. reflexivity.
Qed.

Lemma peekz_1 c t : peekz (c :: t) 1 = peekz t 0.
Proof. apply (peekz_S c t 1). lia. Qed.
Lemma peekz_2 c t : peekz (c :: t) 2 = peekz t 1.
Proof. apply (peekz_S c t 2). lia. Qed.
Lemma peekz_3 c t : peekz (c :: t) 3 = peekz t 2.
Proof. apply (peekz_S c t 3). lia. Qed.

Lemma skipz_0 {A} (l : list A) : skipz 0 l = l.
Proof. reflexivity. Qed.
Lemma skipz_nil {A} n : skipz n (@nil A) = [].
Proof. unfold skipz. apply skipn_nil. Qed.
Lemma skipz_cons {A} n (c : A) t : 0 < n -> skipz n (c :: t) = skipz (n - 1) t.
Proof. intros H. unfold skipz. replace (Z.to_nat n) with (S (Z.to_nat (n - 1))) by lia. reflexivity. Qed.
Lemma skipz_1 {A} (c : A) t : skipz 1 (c :: t) = t.
Proof. reflexivity. Qed.
Lemma skipz_2 {A} (c c1 : A) t : skipz 2 (c :: c1 :: t) = t.
Proof. reflexivity. Qed.
Lemma skipz_neg {A} n (l : list A) : n <= 0 -> skipz n l = l.
Proof. intros H. unfold skipz. replace (Z.to_nat n) with O by lia. reflexivity. Qed.

Lemma skipz_skipz {A} a b (l : list A) : 0 <= a -> 0 <= b -> skipz a (skipz b l) = skipz (a + b) l.
Proof.
  intros Ha Hb. unfold skipz.
  replace (Z.to_nat (a + b)) with (Z.to_nat b + Z.to_nat a)%nat by lia.
  generalize (Z.to_nat a) as x. generalize (Z.to_nat b) as y. clear.
  intros y; revert l. induction y as [|y IH]; intros l x; cbn [Nat.add skipn]; [reflexivity|].
  destruct l as [|h l]; [rewrite !skipn_nil; reflexivity|]. apply IH.
Qed.

Lemma skipz_app_sent n d : 0 <= n <= len d -> skipz n (d ++ [0]) = skipz n d ++ [0].
Proof.
  intros H. unfold skipz, len in *. rewrite skipn_app.
  replace (Z.to_nat n - length d)%nat with O by lia. reflexivity.
Qed.

Lemma skipz_tl {A} (l : list A) : skipz 1 l = tl l.
Proof. destruct l; reflexivity. Qed.

Lemma len_skipz' {A} n (l : list A) : 0 <= n <= len l -> len (skipz n l) = len l - n.
Proof. apply len_skipz. Qed.

Lemma firstz_0 {A} (l : list A) : firstz 0 l = [].
Proof. reflexivity. Qed.
Lemma firstz_cons {A} n (c : A) t : 0 < n -> firstz n (c :: t) = c :: firstz (n - 1) t.
Proof. intros H. unfold firstz. replace (Z.to_nat n) with (S (Z.to_nat (n - 1))) by lia. reflexivity. Qed.
Lemma firstz_nil {A} n : firstz n (@nil A) = [].
Proof. unfold firstz. apply firstn_nil. Qed.
Lemma firstz_skipz {A} n (l : list A) : firstz n l ++ skipz n l = l.
Proof. apply firstn_skipn. Qed.
Lemma firstz_all {A} n (l : list A) : len l <= n -> firstz n l = l.
Proof. intros H. unfold firstz, len in *. apply firstn_all2. lia. Qed.
Lemma firstz_firstz {A} a b (l : list A) : 0 <= a <= b -> firstz a (firstz b l) = firstz a l.
Proof. intros H. unfold firstz. rewrite firstn_firstn. f_equal. lia. Qed.
Lemma firstz_app_l {A} n (a b : list A) : n <= len a -> firstz n (a ++ b) = firstz n a.
Proof.
  intros H. unfold firstz, len in *. rewrite firstn_app.
  replace (Z.to_nat n - length a)%nat with O by lia. cbn. apply app_nil_r.
Qed.
Lemma skipz_firstz_comm {A} a b (l : list A) : 0 <= a -> 0 <= b ->
  skipz a (firstz (a + b) l) = firstz b (skipz a l).
Proof.
  intros Ha Hb. unfold skipz, firstz.
  replace (Z.to_nat (a + b)) with (Z.to_nat a + Z.to_nat b)%nat by lia.
  revert l. induction (Z.to_nat a) as [|k IH]; intros l; cbn [Nat.add skipn firstn]; [reflexivity|].
  destruct l as [|x l]; cbn [firstn skipn]; [rewrite firstn_nil; reflexivity|]. apply IH.
Qed.

Lemma eofb_sent : eofb [0] = true.
Proof. reflexivity. Qed.
Lemma eofb_cons_sent c d : eofb (c :: d ++ [0]) = false.
Proof. destruct d; reflexivity. Qed.

Lemma peek0_sent d : exists c, peekz (d ++ [0]) 0 = Some c /\ (c <> 0 -> d <> []).
Proof.
  destruct d as [|c d]; cbn [app]; rewrite peekz_0; eexists; split; try reflexivity; congruence.
Qed.

(* the first byte of a terminated buffer *)
Definition hd0 (d : list Z) : Z := match d with c :: _ => c | [] => 0 end.
Lemma peekz_sent_0 d : peekz (d ++ [0]) 0 = Some (hd0 d).
Proof. destruct d; cbn [app hd0]; apply peekz_0. Qed.

Lemma len_pos_cons {A} (c : A) d : 1 <= len (c :: d).
Proof. rewrite len_cons. pose proof (len_nonneg d). lia. Qed.

Lemma bump_some o n : bump o = Some n -> exists m, o = Some m /\ n = 1 + m.
Proof. destruct o; cbn; intros H; inversion H; eauto. Qed.

Lemma bump2_some {A} (o : option (A * Z)) a n : bump2 o = Some (a, n) -> exists m, o = Some (a, m) /\ n = 1 + m.
Proof. destruct o as [[a' m]|]; cbn; intros H; inversion H; eauto. Qed.

(* byte class facts *)
Lemma is_ws_0 : is_ws 0 = false. Proof. reflexivity. Qed.
Lemma is_digit_0 : is_digit 0 = false. Proof. reflexivity. Qed.
Lemma is_hex_0 : is_hex 0 = false. Proof. reflexivity. Qed.
Lemma is_qmark_0 : is_qmark 0 = false. Proof. reflexivity. Qed.
Lemma ident_char_0 : ident_char 0 = false. Proof. reflexivity. Qed.
Lemma ident_start_0 : ident_start 0 = false. Proof. reflexivity. Qed.

(* "o is Some n with 0 <= n <= len d" *)
Definition okz (d : list Z) (o : option Z) : Prop := exists n, o = Some n /\ 0 <= n <= len d.
Definition okp {A} (d : list Z) (o : option (A * Z)) : Prop := exists a n, o = Some (a, n) /\ 0 <= n <= len d.

Lemma okz_bump c d o : okz d o -> okz (c :: d) (bump o).
Proof. intros (n & -> & H). exists (1 + n). rewrite len_cons. cbn [bump]. split; [reflexivity|lia]. Qed.

Lemma okp_bump2 {A} c d (o : option (A * Z)) : okp d o -> okp (c :: d) (bump2 o).
Proof. intros (a & n & -> & H). exists a, (1 + n). rewrite len_cons. cbn [bump2]. split; [reflexivity|lia]. Qed.

Lemma okz_weaken c d o : okz d o -> okz (c :: d) o.
Proof. intros (n & -> & H). exists n. rewrite len_cons. split; [reflexivity|lia]. Qed.

Lemma scan_while_ok p d : p 0 = false -> okz d (scan_while p (d ++ [0])).
Proof.
  intros Hp. induction d as [|c d IH]; cbn [app scan_while].
  - rewrite Hp. exists 0. split; [reflexivity|]. change (len (@nil Z)) with 0. lia.
  - destruct (p c).
    + destruct IH as (n & -> & H). exists (1 + n). rewrite len_cons. split; [reflexivity|lia].
    + exists 0. rewrite len_cons. pose proof (len_nonneg d). split; [reflexivity|lia].
Qed.

Lemma Some_inj {A} (a b : A) : Some a = Some b -> a = b.
Proof. congruence. Qed.
Lemma Some_pair_inj {A B} (a a' : A) (b b' : B) : Some (a, b) = Some (a', b') -> a = a' /\ b = b'.
Proof. intros H. split; congruence. Qed.
(* invert H : Some x = Some y without letting injection/inversion reduce Z arithmetic *)
Ltac some_inv H :=
  first [ apply Some_pair_inj in H; let H1 := fresh H in destruct H as [H H1]; try subst
        | apply Some_inj in H; try subst ].

Lemma scan_while_cons p c t :
  scan_while p (c :: t) = if p c then match scan_while p t with Some n => Some (1 + n) | None => None end else Some 0.
Proof. reflexivity. Qed.

(* what scan_while returns: the n first bytes satisfy p, the next one does not *)
Lemma scan_while_spec p l n : scan_while p l = Some n ->
  0 <= n < len l /\ Forall (fun c => p c = true) (firstz n l) /\
  exists c, peekz l n = Some c /\ p c = false.
Proof.
  revert n. induction l as [|c t IH]; intros n H; [discriminate|]. rewrite scan_while_cons in H.
  destruct (p c) eqn:Pc.
  - destruct (scan_while p t) as [m|]; [|discriminate]. some_inv H.
    destruct (IH m eq_refl) as (Hm & Hall & c' & Hc' & Pc').
    rewrite len_cons. split; [lia|]. split.
    + rewrite firstz_cons by lia. replace (1 + m - 1) with m by lia. constructor; assumption.
    + exists c'. rewrite peekz_S by lia. replace (1 + m - 1) with m by lia. auto.
  - some_inv H. rewrite len_cons. pose proof (len_nonneg t). split; [lia|].
    split; [constructor|]. exists c. rewrite peekz_0. auto.
Qed.

Lemma scan_while_app p a c r : Forall (fun x => p x = true) a -> p c = false ->
  scan_while p (a ++ c :: r) = Some (len a).
Proof.
  intros Ha Hc. induction Ha as [|x a Hx Ha IH]; cbn [app scan_while].
  - rewrite Hc. reflexivity.
  - rewrite Hx, IH. rewrite len_cons. reflexivity.
Qed.
