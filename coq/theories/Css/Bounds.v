(* Css/Bounds.v — every consume* function of the model returns (never None) on a terminated buffer
   d ++ [0] and moves over at most len d bytes: it never steps onto or over the terminator. *)
From Verif Require Import Common.Base Common.Tactics Common.Lx Css.Model Css.Basics.
From Coq Require Import ZifyBool.

Ltac inz :=
  repeat first [ rewrite peekz_0 | rewrite peekz_1 | rewrite peekz_2 | rewrite peekz_3 | rewrite peekz_nil ];
  cbn [option_bind].

Ltac lens :=
  repeat match goal with
  | |- context [len (_ :: _)] => rewrite len_cons
  | H : context [len (_ :: _)] |- _ => rewrite len_cons in H
  end;
  change (len (@nil Z)) with 0 in *;
  repeat match goal with
  | d : list Z |- _ => lazymatch goal with H : 0 <= len d |- _ => fail | _ => pose proof (len_nonneg d) end
  | |- context [len ?x] => lazymatch goal with H : 0 <= len x |- _ => fail | _ => pose proof (len_nonneg x) end
  | H0 : context [len ?x] |- _ => lazymatch goal with H : 0 <= len x |- _ => fail | _ => pose proof (len_nonneg x) end
  end.

Ltac fin := eexists; split; [reflexivity|cbv beta iota; lens; lia].
Ltac okz_now := first [ fin | eexists; eexists; split; [reflexivity|cbv beta iota; lens; lia] ].

(* split the terminated buffer: either the terminator alone or a first byte *)
Tactic Notation "dsent" ident(d) := (let c := fresh "c" in destruct d as [|c d]; cbn [app]; inz).

Lemma consume_byte_ok b d : b <> 0 -> okz d (consume_byte b (d ++ [0])).
Proof.
  intros Hb. unfold consume_byte. dsent d.
  - replace (0 =? b) with false by lia. okz_now.
  - destruct (_ =? b); okz_now.
Qed.

Lemma comment_loop_ok d : okz d (comment_loop (d ++ [0])).
Proof.
  induction d as [|c d IH]; cbn [app comment_loop].
  - cbn. okz_now.
  - rewrite eofb_cons_sent, andb_false_r.
    destruct (c =? 42).
    + dsent d.
      * cbn. apply (okz_bump c [] (Some 0)). okz_now.
      * destruct (_ =? 47); [okz_now|]. apply okz_bump. exact IH.
    + apply okz_bump. exact IH.
Qed.

Lemma consume_comment_ok d : okz d (consume_comment (d ++ [0])).
Proof.
  unfold consume_comment. dsent d; [cbn; okz_now|].
  destruct (negb (_ =? 47)); [okz_now|].
  dsent d; [cbn; okz_now|].
  destruct (negb (_ =? 42)); [okz_now|].
  rewrite skipz_2.
  destruct (comment_loop_ok d) as (n & -> & Hn). cbn [option_bind]. okz_now.
Qed.

Lemma consume_newline_ok d : exists n, consume_newline (d ++ [0]) = Some n /\ 0 <= n <= len d /\ n <= 2.
Proof.
  unfold consume_newline. dsent d; [cbn; fin|].
  destruct ((_ =? 10) || (_ =? 12)); [fin|].
  destruct (_ =? 13); [|fin].
  dsent d; [cbn|destruct (_ =? 10)]; fin.
Qed.

Lemma consume_class_ok (p : Z -> bool) d : p 0 = false ->
  exists n, (c <- peekz (d ++ [0]) 0 ;; Some (if p c then 1 else 0)) = Some n /\ 0 <= n <= len d /\ n <= 1.
Proof.
  intros Hp. dsent d.
  - rewrite Hp. fin.
  - destruct (p c); fin.
Qed.

Lemma consume_whitespace_ok d : exists n, consume_whitespace (d ++ [0]) = Some n /\ 0 <= n <= len d /\ n <= 1.
Proof. apply (consume_class_ok is_ws). reflexivity. Qed.
Lemma consume_digit_ok d : exists n, consume_digit (d ++ [0]) = Some n /\ 0 <= n <= len d /\ n <= 1.
Proof. apply (consume_class_ok is_digit). reflexivity. Qed.
Lemma consume_hexdigit_ok d : exists n, consume_hexdigit (d ++ [0]) = Some n /\ 0 <= n <= len d /\ n <= 1.
Proof. apply (consume_class_ok is_hex). reflexivity. Qed.

Lemma hex_upto_ok k d : exists n, hex_upto k (d ++ [0]) = Some n /\ 0 <= n <= len d /\ n <= Z.of_nat k.
Proof.
  revert d. induction k as [|k IH]; intros d; cbn [hex_upto].
  - fin.
  - unfold consume_hexdigit. dsent d.
    + cbn. fin.
    + destruct (is_hex _); cbn [Z.ltb Z.compare tl].
      * destruct (IH d) as (n & -> & Hn). cbn [bump]. fin.
      * fin.
Qed.

Lemma rune_len_ok c d : exists n, rune_len ((c :: d) ++ [0]) = Some n /\ 1 <= n <= len (c :: d) /\ n <= 4.
Proof.
  unfold rune_len. cbn [app]. inz. rewrite len_cons, len_app. change (len [0]) with 1.
  replace (1 + (len d + 1) - 1) with (1 + len d) by lia.
  destruct ((c <? 192) || (1 + len d <? 2)) eqn:E1; [fin|].
  destruct d as [|c1 d]; [lens; lia|]. cbn [app]. inz.
  destruct ((c <? 224) || (1 + len (c1 :: d) <? 3)) eqn:E2; [fin|].
  destruct d as [|c2 d]; [lens; lia|]. cbn [app]. inz.
  destruct ((c <? 240) || (1 + len (c1 :: c2 :: d) <? 4)) eqn:E3; [fin|].
  destruct d as [|c3 d]; [lens; lia|]. cbn [app]. inz.
  fin.
Qed.

Lemma escape_ws_ok d : exists n, escape_ws (d ++ [0]) = Some n /\ 0 <= n <= len d /\ n <= 2.
Proof.
  unfold escape_ws. destruct (consume_newline_ok d) as (nl & -> & Hnl). cbn [option_bind].
  destruct (0 <? nl); [exists nl; split; [reflexivity|lia]|].
  destruct (consume_whitespace_ok d) as (w & -> & Hw). exists w. split; [reflexivity|lia].
Qed.

(* consumeEscape: 0 (false, rewound) or at least 2 bytes, never onto the terminator *)
Lemma consume_escape_ok d :
  exists n, consume_escape (d ++ [0]) = Some n /\ 0 <= n <= len d /\ (n = 0 \/ 2 <= n).
Proof.
  unfold consume_escape. dsent d; [cbn; fin|].
  destruct (negb (_ =? 92)); [fin|].
  cbn [tl]. destruct (consume_newline_ok d) as (nl & -> & Hnl). cbn [option_bind].
  destruct (0 <? nl); [fin|].
  unfold consume_hexdigit. dsent d.
  - cbn. fin.
  - destruct (is_hex _); cbn [Z.ltb Z.compare tl].
    + destruct (hex_upto_ok 5 d) as (k & -> & Hk). cbn [option_bind].
      rewrite skipz_app_sent by lia.
      destruct (escape_ws_ok (skipz k d)) as (w & -> & Hw). cbn [option_bind].
      rewrite len_skipz in Hw by lia.
      fin.
    + destruct (192 <=? _) eqn:E.
      * destruct (rune_len_ok c0 d) as (n & Hn & Hb). cbn [app] in Hn. rewrite Hn. cbn [option_bind].
        fin.
      * rewrite eofb_cons_sent, andb_false_r. fin.
Qed.

(* --- unfolding equations of the loops (cbn would also unfold Z arithmetic) ----------------- *)
Lemma ident_loop_nil k : ident_loop [] k = None.
Proof. destruct k; reflexivity. Qed.
Lemma ident_loop_skip c t k : ident_loop (c :: t) (S k) = bump (ident_loop t k).
Proof. reflexivity. Qed.
Lemma ident_loop_0 c t : ident_loop (c :: t) 0 =
  if ident_char c then bump (ident_loop t 0)
  else if c =? 92 then e <- consume_escape (c :: t) ;;
                       if 0 <? e then bump (ident_loop t (Z.to_nat (e - 1))) else Some 0
  else Some 0.
Proof. reflexivity. Qed.

Lemma string_loop_skip q c t k : string_loop q (c :: t) (S k) = bump2 (string_loop q t k).
Proof. reflexivity. Qed.
Lemma string_loop_0 q c t : string_loop q (c :: t) 0 =
  if (c =? 0) && eofb (c :: t) then Some (TString, 0)
  else if is_nl c then Some (TBadString, 1)
  else if c =? q then Some (TString, 1)
  else if c =? 92 then
    e <- consume_escape (c :: t) ;;
    if 0 <? e then bump2 (string_loop q t (Z.to_nat (e - 1)))
    else nl <- consume_newline t ;; bump2 (string_loop q t (Z.to_nat nl))
  else bump2 (string_loop q t 0).
Proof. reflexivity. Qed.

Lemma url_loop_skip c t k : url_loop (c :: t) (S k) = bump2 (url_loop t k).
Proof. reflexivity. Qed.
Lemma url_loop_0 c t : url_loop (c :: t) 0 =
  if ((c =? 0) && eofb (c :: t)) || (c =? 41) then Some (true, 0)
  else if url_bad_char c then
    if c =? 92 then
      e <- consume_escape (c :: t) ;;
      if 0 <? e then bump2 (url_loop t (Z.to_nat (e - 1))) else Some (false, 0)
    else Some (false, 0)
  else bump2 (url_loop t 0).
Proof. reflexivity. Qed.

Lemma badurl_loop_skip c t k : badurl_loop (c :: t) (S k) = bump (badurl_loop t k).
Proof. reflexivity. Qed.
Lemma badurl_loop_0 c t : badurl_loop (c :: t) 0 =
  if c =? 41 then Some 1
  else if eofb (c :: t) then Some 0
  else e <- consume_escape (c :: t) ;;
       if 0 <? e then bump (badurl_loop t (Z.to_nat (e - 1))) else bump (badurl_loop t 0).
Proof. reflexivity. Qed.

Lemma comment_loop_cons c t : comment_loop (c :: t) =
  if (c =? 0) && eofb (c :: t) then Some 0
  else if c =? 42 then c1 <- peekz t 0 ;; if c1 =? 47 then Some 2 else bump (comment_loop t)
  else bump (comment_loop t).
Proof. reflexivity. Qed.

(* --- loops ----------------------------------------------------------------------------------- *)
Lemma ident_loop_ok d : forall k, Z.of_nat k <= len d ->
  exists n, ident_loop (d ++ [0]) k = Some n /\ Z.of_nat k <= n <= len d.
Proof.
  induction d as [|c d IH]; intros k Hk; cbn [app].
  - assert (k = O) by (lens; lia). subst k. cbn. fin.
  - destruct k as [|k].
    + rewrite ident_loop_0. destruct (ident_char c).
      * destruct (IH O) as (n & -> & Hn); [lens; lia|]. cbn [bump]. fin.
      * destruct (c =? 92); [|fin].
        destruct (consume_escape_ok (c :: d)) as (e & He & Hb & Hc). cbn [app] in He. rewrite He.
        cbn [option_bind]. destruct (0 <? e) eqn:E; [|fin].
        destruct (IH (Z.to_nat (e - 1))) as (n & -> & Hn); [lens; lia|]. cbn [bump]. fin.
    + rewrite ident_loop_skip. destruct (IH k) as (n & -> & Hn); [lens; lia|]. cbn [bump]. fin.
Qed.

Lemma ident_tail_ok p custom d : 0 <= p <= len d ->
  okz d (ident_tail p custom (d ++ [0])).
Proof.
  intros Hp. unfold ident_tail. rewrite skipz_app_sent by lia.
  pose proof (len_skipz p d Hp) as Hl. set (d' := skipz p d) in *. clearbody d'.
  destruct custom.
  - destruct (ident_loop_ok d' O) as (n & -> & Hn); [lens; lia|]. cbn [option_bind]. okz_now.
  - dsent d'; [cbn; okz_now|].
    destruct (ident_start c).
    + cbn [tl]. destruct (ident_loop_ok d' O) as (n & -> & Hn); [lens; lia|]. cbn [option_bind]. okz_now.
    + destruct (c =? 92); [|okz_now].
      destruct (consume_escape_ok (c :: d')) as (e & He & Hb & Hc). cbn [app] in He. rewrite He.
      cbn [option_bind]. destruct (0 <? e) eqn:E; [|okz_now].
      change (c :: d' ++ [0]) with ((c :: d') ++ [0]). rewrite skipz_app_sent by lia.
      destruct (ident_loop_ok (skipz e (c :: d')) O) as (n & -> & Hn); [lens; lia|]. cbn [option_bind].
      rewrite len_skipz in Hn by lia. okz_now.
Qed.

Lemma consume_ident_token_ok d : okz d (consume_ident_token (d ++ [0])).
Proof.
  unfold consume_ident_token. destruct d as [|c d]; cbn [app]; inz.
  - cbn. okz_now.
  - destruct (c =? 45).
    + destruct d as [|c1 d]; cbn [app]; inz.
      * cbn [Z.eqb]. apply (ident_tail_ok 1 false [c]). lens; lia.
      * destruct (c1 =? 45).
        -- apply (ident_tail_ok 2 true (c :: c1 :: d)). lens; lia.
        -- apply (ident_tail_ok 1 false (c :: c1 :: d)). lens; lia.
    + apply (ident_tail_ok 0 false (c :: d)). lens; lia.
Qed.

Lemma consume_custom_variable_ok c d : okz (c :: d) (consume_custom_variable ((c :: d) ++ [0])).
Proof.
  unfold consume_custom_variable. cbn [app]. inz. destruct (peek0_sent d) as (c1 & -> & _). cbn [option_bind].
  destruct (negb (c1 =? 45)); [okz_now|]. apply (consume_ident_token_ok (c :: d)).
Qed.

Lemma consume_at_keyword_ok c d : okz (c :: d) (consume_at_keyword ((c :: d) ++ [0])).
Proof.
  unfold consume_at_keyword. cbn [app tl]. destruct (consume_ident_token_ok d) as (n & -> & Hn).
  cbn [option_bind]. destruct (0 <? n); okz_now.
Qed.

Lemma consume_hash_ok c d : okz (c :: d) (consume_hash ((c :: d) ++ [0])).
Proof.
  unfold consume_hash. cbn [app tl]. dsent d; [cbn; okz_now|].
  destruct (ident_char c0).
  - cbn [tl]. destruct (ident_loop_ok d O) as (n & -> & Hn); [lens; lia|]. cbn [option_bind]. okz_now.
  - destruct (c0 =? 92); [|okz_now].
    destruct (consume_escape_ok (c0 :: d)) as (e & He & Hb & Hc). cbn [app] in He. rewrite He.
    cbn [option_bind]. destruct (0 <? e) eqn:E; [|okz_now].
    change (c0 :: d ++ [0]) with ((c0 :: d) ++ [0]). rewrite skipz_app_sent by lia.
    destruct (ident_loop_ok (skipz e (c0 :: d)) O) as (n & -> & Hn); [lens; lia|]. cbn [option_bind].
    rewrite len_skipz in Hn by lia. okz_now.
Qed.

Lemma digits_ok d : okz d (digits (d ++ [0])).
Proof. apply scan_while_ok. reflexivity. Qed.

Lemma number_exp_ok n d m : 0 <= n -> n + len d <= m -> 
  exists r, number_exp n (d ++ [0]) = Some r /\ n <= r <= m.
Proof.
  intros Hn Hm. unfold number_exp. dsent d; [cbn; fin|].
  destruct ((c =? 101) || (c =? 69)); [|fin].
  dsent d.
  - cbn [is_sign Z.eqb orb]. cbv beta iota. rewrite skipz_1. cbn. fin.
  - destruct (is_sign c0).
    + rewrite skipz_2. destruct (digits_ok d) as (k & -> & Hk). cbn [option_bind]. destruct (k =? 0); fin.
    + rewrite Z.add_0_r, skipz_1. destruct (digits_ok (c0 :: d)) as (k & Hk & Hb). cbn [app] in Hk. rewrite Hk.
      cbn [option_bind]. destruct (k =? 0); fin.
Qed.

Lemma consume_number_token_ok d : okz d (consume_number_token (d ++ [0])).
Proof.
  unfold consume_number_token. rewrite peekz_sent_0. cbn [option_bind].
  set (s := if is_sign (hd0 d) then 1 else 0).
  assert (Hs : 0 <= s <= len d).
  { subst s. destruct d as [|c d]; [cbn; lia|]. cbn [hd0]. destruct (is_sign c); lens; lia. }
  rewrite skipz_app_sent by lia.
  pose proof (len_skipz s d Hs) as Hl1. set (d1 := skipz s d) in *. clearbody d1.
  destruct (digits_ok d1) as (k1 & -> & Hk1). cbn [option_bind].
  rewrite skipz_app_sent by lia.
  pose proof (len_skipz k1 d1 Hk1) as Hl2. set (d2 := skipz k1 d1) in *. clearbody d2.
  dsent d2.
  - cbn [Z.eqb]. destruct (k1 =? 0); [okz_now|].
    destruct (number_exp_ok (s + k1) [] (len d)) as (r & Hr & Hb); [lia|lens; lia|].
    cbn [app] in Hr. rewrite Hr. okz_now.
  - destruct (c =? 46).
    + cbn [tl]. destruct (digits_ok d2) as (k2 & -> & Hk2). cbn [option_bind].
      destruct (0 <? k2) eqn:E2.
      * change (c :: d2 ++ [0]) with ((c :: d2) ++ [0]). rewrite skipz_app_sent by (lens; lia).
        destruct (number_exp_ok (s + k1 + 1 + k2) (skipz (1 + k2) (c :: d2)) (len d)) as (r & -> & Hr);
          [lia|rewrite len_skipz by (lens; lia); lens; lia|]. okz_now.
      * destruct (0 <? k1); okz_now.
    + destruct (k1 =? 0); [okz_now|].
      destruct (number_exp_ok (s + k1) (c :: d2) (len d)) as (r & Hr & Hb); [lia|lens; lia|].
      cbn [app] in Hr. rewrite Hr. okz_now.
Qed.

Lemma consume_unicode_range_ok d : okz d (consume_unicode_range (d ++ [0])).
Proof.
  unfold consume_unicode_range. dsent d; [cbn; okz_now|].
  destruct (negb ((c =? 117) || (c =? 85))); [okz_now|].
  dsent d; [cbn; okz_now|].
  destruct (negb (c0 =? 43)); [okz_now|].
  rewrite skipz_2.
  destruct (scan_while_ok is_hex d eq_refl) as (k & -> & Hk). cbn [option_bind].
  rewrite skipz_app_sent by lia.
  pose proof (len_skipz k d Hk) as Hl3. set (d3 := skipz k d) in *. clearbody d3.
  unfold consume_byte. dsent d3.
  - cbn [Z.eqb Z.ltb Z.compare]. cbv beta iota. cbn [scan_while is_qmark Z.eqb option_bind].
    destruct ((k + 0 =? 0) || (6 <? k + 0)); okz_now.
  - destruct (c1 =? 45); cbn [Z.ltb Z.compare]; cbv beta iota.
    + destruct ((k =? 0) || (6 <? k)); [okz_now|]. cbn [tl].
      destruct (scan_while_ok is_hex d3 eq_refl) as (k2 & -> & Hk2). cbn [option_bind].
      destruct ((k2 =? 0) || (6 <? k2)); okz_now.
    + destruct (scan_while_ok is_qmark (c1 :: d3) eq_refl) as (q & Hq & Hb). cbn [app] in Hq. rewrite Hq.
      cbn [option_bind]. destruct ((k + q =? 0) || (6 <? k + q)); okz_now.
Qed.

Lemma consume_column_ok d : okz d (consume_column (d ++ [0])).
Proof.
  unfold consume_column. dsent d; [cbn; okz_now|].
  destruct (negb (c =? 124)); [okz_now|]. dsent d; [cbn; okz_now|]. destruct (c0 =? 124); okz_now.
Qed.

Lemma consume_cdo_ok d : okz d (consume_cdo (d ++ [0])).
Proof.
  unfold consume_cdo. dsent d; [cbn; okz_now|]. destruct (negb (c =? 60)); [okz_now|].
  dsent d; [cbn; okz_now|]. destruct (negb (c0 =? 33)); [okz_now|].
  dsent d; [cbn; okz_now|]. destruct (negb (c1 =? 45)); [okz_now|].
  dsent d; [cbn; okz_now|]. destruct (c2 =? 45); okz_now.
Qed.

Lemma consume_cdc_ok d : okz d (consume_cdc (d ++ [0])).
Proof.
  unfold consume_cdc. dsent d; [cbn; okz_now|]. destruct (negb (c =? 45)); [okz_now|].
  dsent d; [cbn; okz_now|]. destruct (negb (c0 =? 45)); [okz_now|].
  dsent d; [cbn; okz_now|]. destruct (c1 =? 62); okz_now.
Qed.

(* result of a consumer that returns a token type: ErrorToken with nothing moved, or a token of
   1..len d bytes *)
Definition tokr (d : list Z) (r : ttype * Z) : Prop :=
  (is_err (fst r) = true /\ snd r = 0) \/ (is_err (fst r) = false /\ 1 <= snd r <= len d).
Definition oktok (d : list Z) (o : option (ttype * Z)) : Prop := exists r, o = Some r /\ tokr d r.

Ltac tok_err := eexists; split; [reflexivity|left; split; reflexivity].
Ltac tok_ok := eexists; split; [reflexivity|right; split; [reflexivity|cbn [snd]; cbv beta iota; lens; lia]].

Lemma consume_match_ok c d : oktok (c :: d) (consume_match ((c :: d) ++ [0])).
Proof.
  unfold consume_match. cbn [app]. inz. dsent d; [cbn; tok_err|].
  destruct (c0 =? 61); [|tok_err].
  destruct (c =? 126); [tok_ok|]. destruct (c =? 124); [tok_ok|]. destruct (c =? 94); [tok_ok|].
  destruct (c =? 36); [tok_ok|]. destruct (c =? 42); [tok_ok|tok_err].
Qed.

Lemma consume_bracket_ok c d : oktok (c :: d) (consume_bracket ((c :: d) ++ [0])).
Proof.
  unfold consume_bracket. cbn [app]. inz.
  destruct (c =? 40); [tok_ok|]. destruct (c =? 41); [tok_ok|]. destruct (c =? 91); [tok_ok|].
  destruct (c =? 93); [tok_ok|]. destruct (c =? 123); [tok_ok|]. destruct (c =? 125); [tok_ok|tok_err].
Qed.

Lemma consume_numeric_ok d : oktok d (consume_numeric (d ++ [0])).
Proof.
  unfold consume_numeric. destruct (consume_number_token_ok d) as (n & -> & Hn). cbn [option_bind].
  destruct (n =? 0) eqn:E; [tok_err|].
  rewrite skipz_app_sent by lia.
  pose proof (len_skipz n d Hn) as Hl. set (d' := skipz n d) in *. clearbody d'.
  destruct (consume_byte_ok 37 d') as (p & -> & Hp); [lia|]. cbn [option_bind].
  destruct (0 <? p) eqn:Ep; [tok_ok|].
  destruct (consume_ident_token_ok d') as (i & -> & Hi). cbn [option_bind].
  destruct (0 <? i) eqn:Ei; tok_ok.
Qed.

(* string_loop: a token type that is not ErrorToken and at most len d bytes *)
Lemma string_loop_ok q d : forall k, Z.of_nat k <= len d ->
  exists ty n, string_loop q (d ++ [0]) k = Some (ty, n) /\ Z.of_nat k <= n <= len d /\ is_err ty = false.
Proof.
  induction d as [|c d IH]; intros k Hk; cbn [app].
  - assert (k = O) by (lens; lia). subst k. rewrite string_loop_0. cbn. do 2 eexists. split; [reflexivity|]. split; [lia|reflexivity].
  - destruct k as [|k].
    + rewrite string_loop_0. rewrite eofb_cons_sent, andb_false_r.
      destruct (is_nl c); [do 2 eexists; split; [reflexivity|split; [lens; lia|reflexivity]]|].
      destruct (c =? q); [do 2 eexists; split; [reflexivity|split; [lens; lia|reflexivity]]|].
      destruct (c =? 92).
      * destruct (consume_escape_ok (c :: d)) as (e & He & Hb & Hc). cbn [app] in He. rewrite He.
        cbn [option_bind]. destruct (0 <? e) eqn:E.
        -- destruct (IH (Z.to_nat (e - 1))) as (ty & n & -> & Hn & Ht); [lens; lia|]. cbn [bump2].
           do 2 eexists; split; [reflexivity|split; [lens; lia|exact Ht]].
        -- destruct (consume_newline_ok d) as (nl & -> & Hnl). cbn [option_bind].
           destruct (IH (Z.to_nat nl)) as (ty & n & -> & Hn & Ht); [lens; lia|]. cbn [bump2].
           do 2 eexists; split; [reflexivity|split; [lens; lia|exact Ht]].
      * destruct (IH O) as (ty & n & -> & Hn & Ht); [lens; lia|]. cbn [bump2].
        do 2 eexists; split; [reflexivity|split; [lens; lia|exact Ht]].
    + rewrite string_loop_skip. destruct (IH k) as (ty & n & -> & Hn & Ht); [lens; lia|]. cbn [bump2].
      do 2 eexists; split; [reflexivity|split; [lens; lia|exact Ht]].
Qed.

Lemma consume_string_ok c d :
  exists ty n, consume_string ((c :: d) ++ [0]) = Some (ty, n) /\ 1 <= n <= len (c :: d) /\ is_err ty = false.
Proof.
  unfold consume_string. cbn [app tl]. inz.
  destruct (string_loop_ok c d O) as (ty & n & -> & Hn & Ht); [lens; lia|]. cbn [bump2].
  do 2 eexists; split; [reflexivity|split; [lens; lia|exact Ht]].
Qed.

Lemma url_loop_ok d : forall k, Z.of_nat k <= len d ->
  exists b n, url_loop (d ++ [0]) k = Some (b, n) /\ Z.of_nat k <= n <= len d.
Proof.
  induction d as [|c d IH]; intros k Hk; cbn [app].
  - assert (k = O) by (lens; lia). subst k. rewrite url_loop_0. cbn. do 2 eexists. split; [reflexivity|lia].
  - destruct k as [|k].
    + rewrite url_loop_0. rewrite eofb_cons_sent, andb_false_r. cbn [orb].
      destruct (c =? 41); [do 2 eexists; split; [reflexivity|lens; lia]|].
      destruct (url_bad_char c).
      * destruct (c =? 92); [|do 2 eexists; split; [reflexivity|lens; lia]].
        destruct (consume_escape_ok (c :: d)) as (e & He & Hb & Hc). cbn [app] in He. rewrite He.
        cbn [option_bind]. destruct (0 <? e) eqn:E; [|do 2 eexists; split; [reflexivity|lens; lia]].
        destruct (IH (Z.to_nat (e - 1))) as (b & n & -> & Hn); [lens; lia|]. cbn [bump2].
        do 2 eexists; split; [reflexivity|lens; lia].
      * destruct (IH O) as (b & n & -> & Hn); [lens; lia|]. cbn [bump2].
        do 2 eexists; split; [reflexivity|lens; lia].
    + rewrite url_loop_skip. destruct (IH k) as (b & n & -> & Hn); [lens; lia|]. cbn [bump2].
      do 2 eexists; split; [reflexivity|lens; lia].
Qed.

Lemma badurl_loop_ok d : forall k, Z.of_nat k <= len d ->
  exists n, badurl_loop (d ++ [0]) k = Some n /\ Z.of_nat k <= n <= len d.
Proof.
  induction d as [|c d IH]; intros k Hk; cbn [app].
  - assert (k = O) by (lens; lia). subst k. rewrite badurl_loop_0. cbn. fin.
  - destruct k as [|k].
    + rewrite badurl_loop_0. rewrite eofb_cons_sent.
      destruct (c =? 41); [fin|].
      destruct (consume_escape_ok (c :: d)) as (e & He & Hb & Hc). cbn [app] in He. rewrite He.
      cbn [option_bind]. destruct (0 <? e) eqn:E.
      * destruct (IH (Z.to_nat (e - 1))) as (n & -> & Hn); [lens; lia|]. cbn [bump]. fin.
      * destruct (IH O) as (n & -> & Hn); [lens; lia|]. cbn [bump]. fin.
    + rewrite badurl_loop_skip. destruct (IH k) as (n & -> & Hn); [lens; lia|]. cbn [bump]. fin.
Qed.

(* url_end: URL or BadURL, n plus at most len d bytes *)
Lemma url_end_ok n d :
  exists ty m, url_end n (d ++ [0]) = Some (ty, m) /\ n <= m <= n + len d /\ (ty = TURL \/ ty = TBadURL).
Proof.
  unfold url_end. destruct (scan_while_ok is_ws d eq_refl) as (w & -> & Hw). cbn [option_bind].
  rewrite skipz_app_sent by lia.
  pose proof (len_skipz w d Hw) as Hl. set (d' := skipz w d) in *. clearbody d'.
  destruct (consume_byte_ok 41 d') as (b & -> & Hb); [lia|]. cbn [option_bind].
  destruct ((0 <? b) || eofb (d' ++ [0])).
  - do 2 eexists. split; [reflexivity|]. split; [lia|auto].
  - destruct (badurl_loop_ok d' O) as (r & -> & Hr); [lens; lia|]. cbn [option_bind].
    do 2 eexists. split; [reflexivity|]. split; [lia|auto].
Qed.

Lemma url_arg_ok n d :
  exists ty m, url_arg n (d ++ [0]) = Some (ty, m) /\ n <= m <= n + len d /\ (ty = TURL \/ ty = TBadURL).
Proof.
  unfold url_arg. rewrite peekz_sent_0. cbn [option_bind].
  destruct ((hd0 d =? 34) || (hd0 d =? 39)) eqn:Q.
  - destruct d as [|c3 d3]; [discriminate Q|].
    destruct (consume_string_ok c3 d3) as (ty & m & -> & Hm & Ht). cbn [option_bind fst snd].
    rewrite skipz_app_sent by lia.
    destruct (tt_eqb ty TBadString).
    + destruct (badurl_loop_ok (skipz m (c3 :: d3)) O) as (r & -> & Hr); [lens; lia|]. cbn [option_bind].
      rewrite len_skipz in Hr by lia. do 2 eexists. split; [reflexivity|]. split; [lens; lia|auto].
    + destruct (url_end_ok (n + m) (skipz m (c3 :: d3))) as (ty' & m' & -> & Hm' & Ht').
      rewrite len_skipz in Hm' by lia. do 2 eexists. split; [reflexivity|]. split; [lens; lia|auto].
  - destruct (url_loop_ok d O) as (b & m & -> & Hm); [lens; lia|]. cbn [option_bind fst snd].
    rewrite skipz_app_sent by lia.
    destruct b.
    + destruct (url_end_ok (n + m) (skipz m d)) as (ty' & m' & -> & Hm' & Ht').
      rewrite len_skipz in Hm' by lia. do 2 eexists. split; [reflexivity|]. split; [lens; lia|auto].
    + destruct (consume_whitespace_ok (skipz m d)) as (ws & -> & Hws). cbn [option_bind].
      rewrite len_skipz in Hws by lia.
      destruct (0 <? ws) eqn:Ews.
      * rewrite skipz_app_sent by lia.
        destruct (url_end_ok (n + m + 1) (skipz (m + 1) d)) as (ty' & m' & -> & Hm' & Ht').
        rewrite len_skipz in Hm' by lia. do 2 eexists. split; [reflexivity|]. split; [lens; lia|auto].
      * destruct (badurl_loop_ok (skipz m d) O) as (r & -> & Hr); [lens; lia|]. cbn [option_bind].
        rewrite len_skipz in Hr by lia. do 2 eexists. split; [reflexivity|]. split; [lens; lia|auto].
Qed.

Lemma consume_identlike_ok d : oktok d (consume_identlike (d ++ [0])).
Proof.
  unfold consume_identlike. destruct (consume_ident_token_ok d) as (n & -> & Hn). cbn [option_bind].
  destruct (n =? 0) eqn:E; [tok_err|].
  rewrite skipz_app_sent by lia.
  pose proof (len_skipz n d Hn) as Hl. set (d1 := skipz n d) in *. clearbody d1.
  dsent d1; [cbn; tok_ok|].
  destruct (negb (c =? 40)); [tok_ok|].
  destruct (negb (is_url_name _)); [tok_ok|]. cbn [tl].
  destruct (scan_while_ok is_ws d1 eq_refl) as (w & -> & Hw). cbn [option_bind].
  rewrite skipz_app_sent by lia.
  destruct (url_arg_ok (n + 1 + w) (skipz w d1)) as (ty' & m' & -> & Hm' & Ht').
  rewrite len_skipz in Hm' by lia.
  eexists; split; [reflexivity|]. right. split; [destruct Ht' as [-> | ->]; reflexivity|cbn [snd]; lens; lia].
Qed.

(* --- Next's switch ------------------------------------------------------------------------------ *)
Definition good (d : list Z) (r : ttype * Z) : Prop := is_err (fst r) = false /\ 1 <= snd r <= len d.

Lemma or_delim_good c d r : tokr (c :: d) r -> good (c :: d) (or_delim r).
Proof.
  intros [[He Hn]|[He Hn]]; unfold or_delim, good; rewrite He; cbn [fst snd].
  - split; [reflexivity|lens; lia].
  - split; assumption.
Qed.

Lemma pos_tok_good c d ty n : is_err ty = false -> 0 <= n <= len (c :: d) -> good (c :: d) (pos_tok ty n).
Proof.
  intros Ht Hn. unfold pos_tok, good. destruct (0 <? n) eqn:E; cbn [fst snd].
  - split; [exact Ht|lia].
  - split; [reflexivity|lens; lia].
Qed.

Lemma oktok_or_delim c d o : oktok (c :: d) o -> exists r, (r <- o ;; Some (or_delim r)) = Some r /\ good (c :: d) r.
Proof. intros (r & -> & Hr). cbn [option_bind]. eexists; split; [reflexivity|]. apply or_delim_good; exact Hr. Qed.

Lemma okz_pos_tok c d ty o : is_err ty = false -> okz (c :: d) o ->
  exists r, (n <- o ;; Some (pos_tok ty n)) = Some r /\ good (c :: d) r.
Proof. intros Ht (n & -> & Hn). cbn [option_bind]. eexists; split; [reflexivity|]. apply pos_tok_good; assumption. Qed.

Lemma css_scan_eof : css_scan [0] = Some (TError, 0).
Proof. reflexivity. Qed.

Lemma css_scan_good c d : exists r, css_scan ((c :: d) ++ [0]) = Some r /\ good (c :: d) r.
Proof.
  unfold css_scan. cbn [app]. inz. change (c :: d ++ [0]) with ((c :: d) ++ [0]).
  destruct (is_ws c).
  { cbn [app tl]. destruct (scan_while_ok is_ws d eq_refl) as (w & -> & Hw). cbn [option_bind].
    eexists; split; [reflexivity|]. split; [reflexivity|cbn [snd]; lens; lia]. }
  destruct (c =? 58). { eexists; split; [reflexivity|]. split; [reflexivity|cbn [snd]; lens; lia]. }
  destruct (c =? 59). { eexists; split; [reflexivity|]. split; [reflexivity|cbn [snd]; lens; lia]. }
  destruct (c =? 44). { eexists; split; [reflexivity|]. split; [reflexivity|cbn [snd]; lens; lia]. }
  destruct ((c =? 40) || (c =? 41) || (c =? 91) || (c =? 93) || (c =? 123) || (c =? 125)).
  { apply oktok_or_delim, consume_bracket_ok. }
  destruct (c =? 35). { apply okz_pos_tok; [reflexivity|apply consume_hash_ok]. }
  destruct ((c =? 34) || (c =? 39)).
  { destruct (consume_string_ok c d) as (ty & n & -> & Hn & Ht). cbn [option_bind].
    eexists; split; [reflexivity|]. unfold or_delim. cbn [fst]. rewrite Ht. split; [exact Ht|exact Hn]. }
  destruct ((c =? 46) || (c =? 43)). { apply oktok_or_delim, consume_numeric_ok. }
  destruct (c =? 45).
  { destruct (consume_cdc_ok (c :: d)) as (n1 & -> & H1). cbn [option_bind].
    destruct (0 <? n1) eqn:E1. { eexists; split; [reflexivity|]. split; [reflexivity|cbn [snd]; lia]. }
    destruct (consume_custom_variable_ok c d) as (n2 & -> & H2). cbn [option_bind].
    destruct (0 <? n2) eqn:E2. { eexists; split; [reflexivity|]. split; [reflexivity|cbn [snd]; lia]. }
    destruct (consume_identlike_ok (c :: d)) as (r3 & -> & H3). cbn [option_bind].
    destruct (is_err (fst r3)) eqn:E3; cbn [negb].
    - apply oktok_or_delim, consume_numeric_ok.
    - eexists; split; [reflexivity|]. destruct H3 as [[H3 _]|H3]; [congruence|exact H3]. }
  destruct (c =? 64). { apply okz_pos_tok; [reflexivity|apply consume_at_keyword_ok]. }
  destruct ((c =? 36) || (c =? 42) || (c =? 94) || (c =? 126)). { apply oktok_or_delim, consume_match_ok. }
  destruct (c =? 47). { apply okz_pos_tok; [reflexivity|apply consume_comment_ok]. }
  destruct (c =? 60). { apply okz_pos_tok; [reflexivity|apply consume_cdo_ok]. }
  destruct (c =? 92). { apply oktok_or_delim, consume_identlike_ok. }
  destruct ((c =? 117) || (c =? 85)).
  { destruct (consume_unicode_range_ok (c :: d)) as (n1 & -> & H1). cbn [option_bind].
    destruct (0 <? n1) eqn:E1. { eexists; split; [reflexivity|]. split; [reflexivity|cbn [snd]; lia]. }
    apply oktok_or_delim, consume_identlike_ok. }
  destruct (c =? 124).
  { destruct (consume_match_ok c d) as (r1 & -> & H1). cbn [option_bind].
    destruct (is_err (fst r1)) eqn:E1; cbn [negb].
    - apply okz_pos_tok; [reflexivity|apply consume_column_ok].
    - eexists; split; [reflexivity|]. destruct H1 as [[H1 _]|H1]; [congruence|exact H1]. }
  destruct (c =? 0).
  { cbn [app]. rewrite eofb_cons_sent. eexists; split; [reflexivity|]. split; [reflexivity|cbn [snd]; lens; lia]. }
  destruct (consume_numeric_ok (c :: d)) as (r1 & -> & H1). cbn [option_bind].
  destruct (is_err (fst r1)) eqn:E1; cbn [negb].
  - apply oktok_or_delim, consume_identlike_ok.
  - eexists; split; [reflexivity|]. destruct H1 as [[H1 _]|H1]; [congruence|exact H1].
Qed.
