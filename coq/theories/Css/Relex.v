(* Css/Relex.v — the lexer's decisions are local: cutting the input right after a token (or anywhere later)
   does not change that token.  Stated for every consumer as
       f (p ++ s ++ [0]) = Some r  ->  (bytes moved by r) <= len p  ->  f (p ++ [0]) = Some r
   i.e. the bytes s after the prefix p are replaced by the end of input.  This is what makes re-lexing a
   token on its own yield the same token (C02). *)
From Verif Require Import Common.Base Common.Tactics Common.Lx Css.Model Css.Basics Css.Bounds Css.Proofs Css.Agree.
From Coq Require Import ZifyBool.

Lemma skipz_app_l {A} n (p x : list A) : 0 <= n <= len p -> skipz n (p ++ x) = skipz n p ++ x.
Proof.
  intros H. unfold skipz, len in *. rewrite skipn_app.
  replace (Z.to_nat n - length p)%nat with O by lia. reflexivity.
Qed.

Lemma tl_app_l {A} (c : A) p x : tl ((c :: p) ++ x) = p ++ x.
Proof. reflexivity. Qed.

(* --- single-byte consumers ------------------------------------------------------------------------------ *)
Lemma class_cut (P : Z -> bool) p s n : P 0 = false ->
  (c <- peekz (p ++ s ++ [0]) 0 ;; Some (if P c then 1 else 0)) = Some n -> n <= len p ->
  (c <- peekz (p ++ [0]) 0 ;; Some (if P c then 1 else 0)) = Some n.
Proof.
  intros HP H Hn. destruct p as [|c p]; cbn [app] in *.
  - rewrite peekz_0. cbn [option_bind]. rewrite HP.
    rewrite peekz_sent_0 in H. cbn [option_bind] in H. destruct (P (hd0 s)); some_inv H; [lens; lia|reflexivity].
  - rewrite peekz_0 in *. exact H.
Qed.

Lemma whitespace_cut p s n : consume_whitespace (p ++ s ++ [0]) = Some n -> n <= len p ->
  consume_whitespace (p ++ [0]) = Some n.
Proof. apply (class_cut is_ws). reflexivity. Qed.
Lemma hexdigit_cut p s n : consume_hexdigit (p ++ s ++ [0]) = Some n -> n <= len p ->
  consume_hexdigit (p ++ [0]) = Some n.
Proof. apply (class_cut is_hex). reflexivity. Qed.

Lemma byte_cut b p s n : b <> 0 -> consume_byte b (p ++ s ++ [0]) = Some n -> n <= len p ->
  consume_byte b (p ++ [0]) = Some n.
Proof.
  intros Hb. unfold consume_byte. intros H Hn. destruct p as [|c p]; cbn [app] in *.
  - rewrite peekz_0. cbn [option_bind]. replace (0 =? b) with false by lia.
    rewrite peekz_sent_0 in H. cbn [option_bind] in H. destruct (hd0 s =? b); some_inv H; [lens; lia|reflexivity].
  - rewrite peekz_0 in *. exact H.
Qed.

Lemma scan_while_cut P p s n : P 0 = false ->
  scan_while P (p ++ s ++ [0]) = Some n -> n <= len p -> scan_while P (p ++ [0]) = Some n.
Proof.
  intros HP. revert n. induction p as [|c p IH]; intros n H Hn; cbn [app] in *.
  - rewrite scan_while_cons, HP. destruct (scan_while_spec _ _ _ H) as (Hb & _). f_equal. lens. lia.
  - rewrite scan_while_cons in *. destruct (P c); [|exact H].
    destruct (scan_while P (p ++ s ++ [0])) as [m|] eqn:E; [|discriminate]. some_inv H.
    rewrite (IH m eq_refl) by (lens; lia). reflexivity.
Qed.

Lemma newline_cut p s n : consume_newline (p ++ s ++ [0]) = Some n -> n <= len p ->
  consume_newline (p ++ [0]) = Some n.
Proof.
  unfold consume_newline. intros H Hn. destruct p as [|c p]; cbn [app] in *.
  - rewrite peekz_0. cbn. rewrite peekz_sent_0 in H. cbn [option_bind] in H.
    destruct ((hd0 s =? 10) || (hd0 s =? 12)); [some_inv H; lens; lia|].
    destruct (hd0 s =? 13); [|exact H]. bind_inv H. destruct (x =? 10); some_inv H; lens; lia.
  - rewrite peekz_0 in *. cbn [option_bind] in *. destruct ((c =? 10) || (c =? 12)); [exact H|].
    destruct (c =? 13); [|exact H]. rewrite peekz_1 in *.
    destruct p as [|c1 p]; cbn [app] in *.
    + rewrite peekz_0. cbn. rewrite peekz_sent_0 in H. cbn [option_bind] in H.
      destruct (hd0 s =? 10); some_inv H; [lens; lia|reflexivity].
    + rewrite peekz_0 in *. exact H.
Qed.

Lemma hex_upto_cut k : forall p s n, hex_upto k (p ++ s ++ [0]) = Some n -> n <= len p ->
  hex_upto k (p ++ [0]) = Some n.
Proof.
  induction k as [|k IH]; intros p s n H Hn; [exact H|].
  destruct p as [|c p]; cbn [app] in *.
  - destruct (hex_upto_ok (S k) s) as (n' & Hn' & Hb & _). rewrite H in Hn'. some_inv Hn'.
    assert (n' = 0) by (lens; lia). subst n'. reflexivity.
  - cbn [hex_upto] in *. unfold consume_hexdigit in *. rewrite peekz_0 in *. cbn [option_bind] in *.
    destruct (is_hex c); cbn [Z.ltb Z.compare] in *; cbv beta iota in *; [|exact H]. cbn [tl] in *.
    apply bump_some in H. destruct H as (m & H & ->).
    rewrite (IH _ _ _ H) by (lens; lia). reflexivity.
Qed.

Lemma rune_len_cut c p s n : rune_len ((c :: p) ++ s ++ [0]) = Some n -> n <= len (c :: p) ->
  rune_len ((c :: p) ++ [0]) = Some n.
Proof.
  cbn [app]. rewrite !rune_len_val. rewrite !len_app. change (len [0]) with 1. rewrite len_cons.
  intros H Hn. pose proof (len_nonneg p). pose proof (len_nonneg s). some_inv H. f_equal.
  destruct ((c <? 192) || (len p + (len s + 1) <? 2)) eqn:A1; destruct ((c <? 192) || (len p + 1 <? 2)) eqn:B1;
  destruct ((c <? 224) || (len p + (len s + 1) <? 3)) eqn:A2; destruct ((c <? 224) || (len p + 1 <? 3)) eqn:B2;
  destruct ((c <? 240) || (len p + (len s + 1) <? 4)) eqn:A3; destruct ((c <? 240) || (len p + 1 <? 4)) eqn:B3;
  lia.
Qed.

Lemma newline_pos c t n : consume_newline (c :: t) = Some n -> (0 <? n) = is_nl c.
Proof.
  unfold consume_newline, is_nl. rewrite peekz_0. cbn [option_bind]. intros H.
  destruct (c =? 10) eqn:A; destruct (c =? 12) eqn:B; destruct (c =? 13) eqn:C; cbn [orb] in *;
    try (some_inv H; reflexivity).
  bind_inv H. destruct (x =? 10); some_inv H; reflexivity.
Qed.

Lemma eofb_cons_app c p s : eofb (c :: p ++ s ++ [0]) = false.
Proof. destruct p; cbn [app]; [destruct s|]; reflexivity. Qed.

Lemma whitespace_range l n : consume_whitespace l = Some n -> 0 <= n <= 1.
Proof. unfold consume_whitespace. intros H. bind_inv H. destruct (is_ws x); some_inv H; lia. Qed.

Lemma newline_range2 l n : consume_newline l = Some n -> 0 <= n <= 2.
Proof.
  unfold consume_newline. destruct (peekz l 0) as [c|]; [|discriminate]. cbn [option_bind].
  destruct ((c =? 10) || (c =? 12)); [intros H; some_inv H; lia|].
  destruct (c =? 13); [|intros H; some_inv H; lia].
  destruct (peekz l 1) as [c1|]; [|discriminate]. cbn [option_bind]. destruct (c1 =? 10); intros H; some_inv H; lia.
Qed.

Lemma escape_ws_range l n : escape_ws l = Some n -> 0 <= n <= 2.
Proof.
  unfold escape_ws. intros H. bind_inv H. pose proof (newline_range2 _ _ E). destruct (0 <? x) eqn:Ex.
  - some_inv H. lia.
  - pose proof (whitespace_range _ _ H). lia.
Qed.

Lemma escape_ws_cut p s n : escape_ws (p ++ s ++ [0]) = Some n -> n <= len p -> escape_ws (p ++ [0]) = Some n.
Proof.
  unfold escape_ws. intros H Hn. bind_inv H. pose proof (len_nonneg p). destruct (0 <? x) eqn:Ex.
  - some_inv H. rewrite (newline_cut _ _ _ E Hn). cbn [option_bind]. rewrite Ex. reflexivity.
  - rewrite (newline_cut _ _ _ E) by lia. cbn [option_bind]. rewrite Ex. apply (whitespace_cut _ _ _ H Hn).
Qed.

(* consumeEscape: same result when the bytes after the escape are cut off; a failing escape also fails
   on every shorter input *)
Lemma escape_cut p s e : consume_escape (p ++ s ++ [0]) = Some e -> e <= len p ->
  consume_escape (p ++ [0]) = Some e.
Proof.
  intros H He.
  assert (Hr : 0 <= e /\ (e = 0 \/ 2 <= e)).
  { destruct (consume_escape_ok (p ++ s)) as (e' & He' & Hb & Hc). rewrite <- app_assoc, H in He'. some_inv He'. lia. }
  destruct p as [|c p]; cbn [app] in *.
  { assert (e = 0) by (lens; lia). subst e. reflexivity. }
  unfold consume_escape in *. rewrite peekz_0 in *. cbn [option_bind] in *.
  destruct (negb (c =? 92)); [exact H|]. cbn [tl] in *.
  destruct p as [|c1 p]; cbn [app] in *.
  { assert (e = 0) by (lens; lia). subst e. reflexivity. }
  bind_inv H. destruct (consume_newline_ok (c1 :: p)) as (nl' & Hnl' & _). cbn [app] in Hnl'. rewrite Hnl'.
  cbn [option_bind]. rewrite (newline_pos _ _ _ E) in H. rewrite (newline_pos _ _ _ Hnl').
  destruct (is_nl c1); [exact H|].
  unfold consume_hexdigit in *. rewrite peekz_0 in *. cbn [option_bind] in *.
  destruct (is_hex c1); cbn [Z.ltb Z.compare tl] in *; cbv beta iota in *.
  - bind_inv H. bind_inv H. some_inv H.
    destruct (hex_upto_ok 5 (p ++ s)) as (k' & Hk' & Hk1 & _). rewrite <- app_assoc, E0 in Hk'. some_inv Hk'.
    pose proof (escape_ws_range _ _ E1) as Hx1.
    rewrite (hex_upto_cut _ _ _ _ E0) by (lens; lia). cbn [option_bind].
    rewrite skipz_app_l in E1 by (lens; lia). rewrite skipz_app_sent by (lens; lia).
    rewrite (escape_ws_cut _ _ _ E1) by (rewrite len_skipz by (lens; lia); lens; lia). reflexivity.
  - destruct (192 <=? c1).
    + bind_inv H. some_inv H. change (c1 :: p ++ s ++ [0]) with ((c1 :: p) ++ s ++ [0]) in E0.
      pose proof (rune_len_cut _ _ _ _ E0 ltac:(lens; lia)) as Hrl. cbn [app] in Hrl. rewrite Hrl. reflexivity.
    + rewrite eofb_cons_app in H. rewrite eofb_cons_sent. exact H.
Qed.

(* --- the loops ----------------------------------------------------------------------------------------------- *)
Lemma ident_loop_ge l : forall k n, ident_loop l k = Some n -> Z.of_nat k <= n.
Proof.
  induction l as [|c t IH]; intros k n H; [rewrite ident_loop_nil in H; discriminate|].
  destruct k as [|k].
  - rewrite ident_loop_0 in H.
    destruct (ident_char c).
    + apply bump_some in H. destruct H as (m & H & ->). specialize (IH _ _ H). lia.
    + destruct (c =? 92); [|some_inv H; lia]. bind_inv H. destruct (0 <? x); [|some_inv H; lia].
      apply bump_some in H. destruct H as (m & H & ->). specialize (IH _ _ H). lia.
  - rewrite ident_loop_skip in H. apply bump_some in H. destruct H as (m & H & ->). specialize (IH _ _ H). lia.
Qed.

Lemma ident_loop_cut p : forall s k n, ident_loop (p ++ s ++ [0]) k = Some n -> n <= len p ->
  ident_loop (p ++ [0]) k = Some n.
Proof.
  induction p as [|c p IH]; intros s k n H Hn; cbn [app] in *.
  - pose proof (ident_loop_ge _ _ _ H). assert (n = 0) by (lens; lia). subst n.
    assert (k = O) by lia. subst k. reflexivity.
  - destruct k as [|k].
    + rewrite ident_loop_0 in *. destruct (ident_char c).
      * apply bump_some in H. destruct H as (m & H & ->). rewrite (IH _ _ _ H) by (lens; lia). reflexivity.
      * destruct (c =? 92); [|exact H]. bind_inv H.
        change (c :: p ++ s ++ [0]) with ((c :: p) ++ s ++ [0]) in E.
        destruct (0 <? x) eqn:Ex.
        -- apply bump_some in H. destruct H as (m & H & ->). pose proof (ident_loop_ge _ _ _ H).
           pose proof (escape_cut _ _ _ E ltac:(lens; lia)) as Hec. cbn [app] in Hec. rewrite Hec. cbn [option_bind]. rewrite Ex.
           rewrite (IH _ _ _ H) by (lens; lia). reflexivity.
        -- some_inv H. destruct (consume_escape_ok ((c :: p) ++ s)) as (e' & He' & Hb & _).
           rewrite <- app_assoc, E in He'. some_inv He'.
           pose proof (escape_cut _ _ _ E ltac:(lens; lia)) as Hec. cbn [app] in Hec. rewrite Hec. cbn [option_bind]. rewrite Ex. reflexivity.
    + rewrite ident_loop_skip in *. apply bump_some in H. destruct H as (m & H & ->).
      rewrite (IH _ _ _ H) by (lens; lia). reflexivity.
Qed.

Lemma escape_range d e : consume_escape (d ++ [0]) = Some e -> e = 0 \/ 2 <= e.
Proof.
  intros H. destruct (consume_escape_ok d) as (e' & He' & _ & Hc). rewrite H in He'. some_inv He'. exact Hc.
Qed.

Lemma escape_range2 p s e : consume_escape (p ++ s ++ [0]) = Some e -> e = 0 \/ 2 <= e.
Proof. rewrite app_assoc. apply escape_range. Qed.

Lemma ident_tail_range q d n : 0 <= q <= len d -> ident_tail q false (d ++ [0]) = Some n -> n = 0 \/ q + 1 <= n.
Proof.
  intros Hq. unfold ident_tail. rewrite skipz_app_sent by lia. intros H. bind_inv H.
  if_inv H.
  - bind_inv H. some_inv H. apply ident_loop_ge in E1. lia.
  - if_inv H; [|some_inv H; auto]. bind_inv H. apply escape_range in E2.
    if_inv H; [|some_inv H; auto]. bind_inv H. some_inv H. apply ident_loop_ge in E4. lia.
Qed.

Lemma ident_tail_cut q custom p s n : 0 <= q <= len p ->
  ident_tail q custom (p ++ s ++ [0]) = Some n -> n <= len p ->
  ident_tail q custom (p ++ [0]) = Some n.
Proof.
  intros Hq H Hn. unfold ident_tail in *.
  rewrite skipz_app_l in H by lia. rewrite skipz_app_sent by lia.
  pose proof (len_skipz q p Hq) as Hl. set (p' := skipz q p) in *. clearbody p'.
  destruct custom.
  - bind_inv H. some_inv H. pose proof (ident_loop_ge _ _ _ E).
    rewrite (ident_loop_cut _ _ _ _ E) by lia. reflexivity.
  - destruct p' as [|c p']; cbn [app] in *.
    + rewrite peekz_0. cbn [option_bind]. change (ident_start 0) with false. cbv beta iota.
      change (0 =? 92) with false. cbv beta iota.
      rewrite peekz_sent_0 in H. cbn [option_bind] in H. change (len (@nil Z)) with 0 in Hl.
      destruct (ident_start (hd0 s)).
      * bind_inv H. some_inv H. pose proof (ident_loop_ge _ _ _ E). lia.
      * destruct (hd0 s =? 92); [|exact H]. bind_inv H. destruct (0 <? x) eqn:Ex; [|exact H].
        bind_inv H. some_inv H. pose proof (ident_loop_ge _ _ _ E0). lia.
    + rewrite peekz_0 in *. cbn [option_bind] in *. destruct (ident_start c).
      * cbn [tl] in *. bind_inv H. some_inv H. pose proof (ident_loop_ge _ _ _ E).
        rewrite (ident_loop_cut _ _ _ _ E) by (lens; lia). reflexivity.
      * destruct (c =? 92); [|exact H]. bind_inv H.
        change (c :: p' ++ s ++ [0]) with ((c :: p') ++ s ++ [0]) in *.
        destruct (escape_range2 _ _ _ E) as [Hx|Hx].
        -- subst x. pose proof (escape_cut _ _ _ E ltac:(lens; lia)) as Hec. cbn [app] in Hec. rewrite Hec. exact H.
        -- replace (0 <? x) with true in * by lia. bind_inv H. some_inv H. pose proof (ident_loop_ge _ _ _ E0).
           pose proof (escape_cut _ _ _ E ltac:(lens; lia)) as Hec. cbn [app] in Hec. rewrite Hec.
           cbn [option_bind]. replace (0 <? x) with true by lia.
           rewrite skipz_app_l in E0 by (lens; lia).
           change (c :: p' ++ [0]) with ((c :: p') ++ [0]). rewrite skipz_app_sent by (lens; lia).
           rewrite (ident_loop_cut _ _ _ _ E0) by (rewrite len_skipz by (lens; lia); lens; lia). reflexivity.
Qed.

Lemma ident_token_range d n : consume_ident_token (d ++ [0]) = Some n -> 0 <= n.
Proof.
  intros H. destruct (consume_ident_token_ok d) as (n' & Hn' & Hb). rewrite H in Hn'. some_inv Hn'. lia.
Qed.

Lemma ident_token_cut p s n : consume_ident_token (p ++ s ++ [0]) = Some n -> n <= len p ->
  consume_ident_token (p ++ [0]) = Some n.
Proof.
  intros H Hn. assert (H0 : 0 <= n) by (rewrite app_assoc in H; apply ident_token_range in H; exact H).
  destruct p as [|c p]; cbn [app] in *.
  { assert (n = 0) by (lens; lia). subst n. reflexivity. }
  unfold consume_ident_token in *. rewrite peekz_0 in *. cbn [option_bind] in *.
  change (c :: p ++ s ++ [0]) with ((c :: p) ++ s ++ [0]) in *.
  change (c :: p ++ [0]) with ((c :: p) ++ [0]) in *.
  destruct (c =? 45).
  - destruct p as [|c1 p].
    + cbn [app]. rewrite peekz_1, peekz_0. cbn [option_bind]. change (0 =? 45) with false. cbv beta iota.
      cbn [app] in H. rewrite peekz_1, peekz_sent_0 in H. cbn [option_bind] in H.
      assert (n = 0).
      { destruct (hd0 s =? 45).
        - unfold ident_tail in H. bind_inv H. some_inv H. apply ident_loop_ge in E. lens. lia.
        - change (c :: s ++ [0]) with ((c :: s) ++ [0]) in H. apply ident_tail_range in H; [|lens; lia]. lens. lia. }
      subst n. reflexivity.
    + cbn [app] in *. rewrite peekz_1, peekz_0 in *. cbn [option_bind] in *.
      change (c :: c1 :: p ++ s ++ [0]) with ((c :: c1 :: p) ++ s ++ [0]) in *.
      change (c :: c1 :: p ++ [0]) with ((c :: c1 :: p) ++ [0]) in *.
      destruct (c1 =? 45); apply (ident_tail_cut _ _ _ s); try assumption; lens; lia.
  - apply (ident_tail_cut _ _ _ s); try assumption; lens; lia.
Qed.

Lemma custom_variable_cut p s n : consume_custom_variable ((45 :: p) ++ s ++ [0]) = Some n -> n <= len (45 :: p) ->
  consume_custom_variable ((45 :: p) ++ [0]) = Some n.
Proof.
  unfold consume_custom_variable. cbn [app]. rewrite !peekz_1. intros H Hn.
  destruct p as [|c1 p]; cbn [app] in *.
  - rewrite peekz_0. cbn [option_bind]. change (negb (0 =? 45)) with true. cbv beta iota.
    rewrite peekz_sent_0 in H. cbn [option_bind] in H.
    destruct (negb (hd0 s =? 45)) eqn:E; [exact H|]. exfalso.
    unfold consume_ident_token in H. rewrite peekz_0, peekz_1, peekz_sent_0 in H. cbn [option_bind] in H.
    change (45 =? 45) with true in H. cbv beta iota in H.
    replace (hd0 s =? 45) with true in H by (destruct (hd0 s =? 45); [reflexivity|discriminate]).
    unfold ident_tail in H. bind_inv H. some_inv H. apply ident_loop_ge in E0. lens. lia.
  - rewrite peekz_0 in *. cbn [option_bind] in *. destruct (negb (c1 =? 45)); [exact H|].
    change (45 :: c1 :: p ++ s ++ [0]) with ((45 :: c1 :: p) ++ s ++ [0]) in H.
    change (45 :: c1 :: p ++ [0]) with ((45 :: c1 :: p) ++ [0]).
    apply (ident_token_cut _ s); assumption.
Qed.

Lemma at_keyword_cut c p s n : consume_at_keyword ((c :: p) ++ s ++ [0]) = Some n -> n <= len (c :: p) ->
  consume_at_keyword ((c :: p) ++ [0]) = Some n.
Proof.
  unfold consume_at_keyword. cbn [app tl]. intros H Hn. bind_inv H.
  assert (0 <= x) by (rewrite app_assoc in E; apply ident_token_range in E; exact E).
  destruct (0 <? x) eqn:Ex; some_inv H.
  - rewrite (ident_token_cut _ _ _ E) by (lens; lia). cbn [option_bind]. rewrite Ex. reflexivity.
  - rewrite (ident_token_cut _ _ _ E) by (lens; lia). cbn [option_bind]. rewrite Ex. reflexivity.
Qed.

Lemma hash_cut c p s n : consume_hash ((c :: p) ++ s ++ [0]) = Some n -> n <= len (c :: p) ->
  consume_hash ((c :: p) ++ [0]) = Some n.
Proof.
  unfold consume_hash. cbn [app tl]. intros H Hn.
  destruct p as [|c1 p]; cbn [app] in *.
  - rewrite peekz_0. cbn [option_bind]. change (ident_char 0) with false. change (0 =? 92) with false. cbv beta iota.
    rewrite peekz_sent_0 in H. cbn [option_bind] in H.
    destruct (ident_char (hd0 s)).
    + bind_inv H. some_inv H. apply ident_loop_ge in E. lens. lia.
    + destruct (hd0 s =? 92); [|exact H]. bind_inv H. destruct (escape_range _ _ E) as [->|Hx]; [exact H|].
      replace (0 <? x) with true in H by lia. bind_inv H. some_inv H. apply ident_loop_ge in E0. lens. lia.
  - rewrite peekz_0 in *. cbn [option_bind tl] in *. destruct (ident_char c1).
    + bind_inv H. some_inv H. pose proof (ident_loop_ge _ _ _ E).
      rewrite (ident_loop_cut _ _ _ _ E) by (lens; lia). reflexivity.
    + destruct (c1 =? 92); [|exact H]. bind_inv H.
      change (c1 :: p ++ s ++ [0]) with ((c1 :: p) ++ s ++ [0]) in *.
      destruct (escape_range2 _ _ _ E) as [Hx|Hx].
      * subst x. pose proof (escape_cut _ _ _ E ltac:(lens; lia)) as Hec. cbn [app] in Hec. rewrite Hec. exact H.
      * replace (0 <? x) with true in * by lia. bind_inv H. some_inv H. pose proof (ident_loop_ge _ _ _ E0).
        pose proof (escape_cut _ _ _ E ltac:(lens; lia)) as Hec. cbn [app] in Hec. rewrite Hec.
        cbn [option_bind]. replace (0 <? x) with true by lia.
        rewrite skipz_app_l in E0 by (lens; lia).
        change (c1 :: p ++ [0]) with ((c1 :: p) ++ [0]). rewrite skipz_app_sent by (lens; lia).
        rewrite (ident_loop_cut _ _ _ _ E0) by (rewrite len_skipz by (lens; lia); lens; lia). reflexivity.
Qed.

Lemma digits_range l n : digits l = Some n -> 0 <= n.
Proof. intros H. apply scan_while_spec in H. lia. Qed.

Lemma digits_cut p s n : digits (p ++ s ++ [0]) = Some n -> n <= len p -> digits (p ++ [0]) = Some n.
Proof. apply scan_while_cut. reflexivity. Qed.

Lemma number_exp_range n0 l r : number_exp n0 l = Some r -> r = n0 \/ n0 + 2 <= r.
Proof.
  unfold number_exp. intros H. bind_inv H. if_inv H; [|some_inv H; auto].
  bind_inv H. bind_inv H. pose proof (digits_range _ _ E2). if_inv H; some_inv H; [auto|].
  right. destruct (is_sign x0); lia.
Qed.

Lemma number_exp_cut n0 p s r : number_exp n0 (p ++ s ++ [0]) = Some r -> r - n0 <= len p ->
  number_exp n0 (p ++ [0]) = Some r.
Proof.
  intros H Hr. pose proof (number_exp_range _ _ _ H) as Hrange.
  unfold number_exp in *. destruct p as [|c p]; cbn [app] in *.
  { rewrite peekz_0. cbn [option_bind]. change ((0 =? 101) || (0 =? 69)) with false. cbv beta iota.
    f_equal. lens. lia. }
  rewrite peekz_0 in *. cbn [option_bind] in *. destruct ((c =? 101) || (c =? 69)); [|exact H].
  rewrite peekz_1 in *. destruct p as [|c1 p]; cbn [app] in *.
  { rewrite peekz_0. cbn [option_bind]. change (is_sign 0) with false. cbv beta iota.
    rewrite Z.add_0_r, skipz_1. change (digits [0]) with (Some 0). cbn [option_bind]. change (0 =? 0) with true. cbv beta iota.
    f_equal. lens. lia. }
  rewrite peekz_0 in *. cbn [option_bind] in *.
  destruct (is_sign c1).
  - rewrite skipz_2 in *. bind_inv H. pose proof (digits_range _ _ E).
    destruct (x =? 0) eqn:Ex.
    + assert (x = 0) by lia. subst x. rewrite (digits_cut _ _ _ E) by (lens; lia). exact H.
    + some_inv H. rewrite (digits_cut _ _ _ E) by (lens; lia). cbn [option_bind]. rewrite Ex. reflexivity.
  - rewrite Z.add_0_r, skipz_1 in *. bind_inv H. pose proof (digits_range _ _ E).
    change (c1 :: p ++ s ++ [0]) with ((c1 :: p) ++ s ++ [0]) in E.
    destruct (x =? 0) eqn:Ex.
    + assert (x = 0) by lia. subst x. pose proof (digits_cut _ _ _ E ltac:(lens; lia)) as Hd. cbn [app] in Hd.
      rewrite Hd. exact H.
    + some_inv H. pose proof (digits_cut _ _ _ E ltac:(lens; lia)) as Hd. cbn [app] in Hd.
      rewrite Hd. cbn [option_bind]. rewrite Ex. reflexivity.
Qed.

Lemma number_token_cut p s n : consume_number_token (p ++ s ++ [0]) = Some n -> n <= len p ->
  consume_number_token (p ++ [0]) = Some n.
Proof.
  intros H Hn.
  assert (H0 : 0 <= n).
  { destruct (consume_number_token_ok (p ++ s)) as (n' & Hn' & Hb). rewrite <- app_assoc, H in Hn'. some_inv Hn'. lia. }
  destruct p as [|c p]; cbn [app] in *.
  { assert (n = 0) by (lens; lia). subst n. reflexivity. }
  unfold consume_number_token in *. rewrite peekz_0 in *. cbn [option_bind] in *.
  set (sg := if is_sign c then 1 else 0) in *.
  assert (Hsg : 0 <= sg <= 1) by (subst sg; destruct (is_sign c); lia).
  change (c :: p ++ s ++ [0]) with ((c :: p) ++ s ++ [0]) in H.
  change (c :: p ++ [0]) with ((c :: p) ++ [0]).
  rewrite skipz_app_l in H by (lens; lia). rewrite skipz_app_sent by (lens; lia).
  pose proof (len_skipz sg (c :: p) ltac:(lens; lia)) as Hlq. set (q := skipz sg (c :: p)) in *. clearbody q.
  bind_inv H. rename x into d1. pose proof (digits_range _ _ E) as Hd1.
  assert (Hd1q : d1 <= len q).
  { bind_inv H. if_inv H.
    - bind_inv H. match goal with E' : digits _ = Some x0 |- _ => pose proof (digits_range _ _ E') end.
      if_inv H; [apply number_exp_range in H; lens; lia|]. if_inv H; some_inv H; lens; lia.
    - if_inv H; [lens; lia|]. apply number_exp_range in H. lens; lia. }
  rewrite (digits_cut _ _ _ E) by lia. cbn [option_bind].
  rewrite skipz_app_l in H by lia. rewrite skipz_app_sent by lia.
  pose proof (len_skipz d1 q ltac:(lia)) as Hlq2. set (q2 := skipz d1 q) in *. clearbody q2.
  destruct q2 as [|c2 q3]; cbn [app] in *.
  - rewrite peekz_0. cbn [option_bind]. change (0 =? 46) with false. cbv beta iota.
    change (len (@nil Z)) with 0 in Hlq2.
    rewrite peekz_sent_0 in H. cbn [option_bind] in H.
    destruct (d1 =? 0) eqn:Ed1.
    + assert (d1 = 0) by lia. subst d1. f_equal.
      destruct (hd0 s =? 46).
      * bind_inv H. pose proof (digits_range _ _ E0). if_inv H; [apply number_exp_range in H; lia|].
        if_inv H; some_inv H; lia.
      * some_inv H. reflexivity.
    + unfold number_exp at 1. rewrite peekz_0. cbn [option_bind]. change ((0 =? 101) || (0 =? 69)) with false.
      cbv beta iota. f_equal.
      destruct (hd0 s =? 46).
      * bind_inv H. pose proof (digits_range _ _ E0). if_inv H; [apply number_exp_range in H; lia|].
        if_inv H; some_inv H; lia.
      * apply number_exp_range in H. lia.
  - rewrite peekz_0 in *. cbn [option_bind] in *. destruct (c2 =? 46).
    + cbn [tl] in *. bind_inv H. rename x into d2. pose proof (digits_range _ _ E0) as Hd2.
      destruct (0 <? d2) eqn:Ed2.
      * pose proof (number_exp_range _ _ _ H) as Hr.
        rewrite (digits_cut _ _ _ E0) by (lens; lia). cbn [option_bind]. rewrite Ed2.
        change (c2 :: q3 ++ s ++ [0]) with ((c2 :: q3) ++ s ++ [0]) in H.
        change (c2 :: q3 ++ [0]) with ((c2 :: q3) ++ [0]).
        rewrite skipz_app_l in H by (lens; lia). rewrite skipz_app_sent by (lens; lia).
        apply (number_exp_cut _ _ s); [exact H|]. rewrite len_skipz by (lens; lia). lens. lia.
      * assert (d2 = 0) by lia. subst d2. rewrite (digits_cut _ _ _ E0) by (lens; lia). cbn [option_bind].
        exact H.
    + destruct (d1 =? 0); [exact H|].
      pose proof (number_exp_range _ _ _ H) as Hr.
      change (c2 :: q3 ++ s ++ [0]) with ((c2 :: q3) ++ s ++ [0]) in H.
      change (c2 :: q3 ++ [0]) with ((c2 :: q3) ++ [0]).
      apply (number_exp_cut _ _ s); [exact H|]. lens. lia.
Qed.

Lemma numeric_cut p s ty n : consume_numeric (p ++ s ++ [0]) = Some (ty, n) -> n <= len p ->
  consume_numeric (p ++ [0]) = Some (ty, n).
Proof.
  unfold consume_numeric. intros H Hn. bind_inv H. rename x into m.
  assert (Hm : 0 <= m).
  { destruct (consume_number_token_ok (p ++ s)) as (n' & Hn' & Hb). rewrite <- app_assoc, E in Hn'. some_inv Hn'. lia. }
  destruct (m =? 0) eqn:Em.
  - assert (m = 0) by lia. subst m. rewrite (number_token_cut _ _ _ E) by (lens; lia). exact H.
  - assert (Hmn : m <= n).
    { bind_inv H. if_inv H; [some_inv H; lia|]. bind_inv H. if_inv H; some_inv H; lia. }
    rewrite (number_token_cut _ _ _ E) by lia. cbn [option_bind]. rewrite Em.
    rewrite skipz_app_l in H by lia. rewrite skipz_app_sent by lia.
    pose proof (len_skipz m p ltac:(lia)) as Hlq. set (q := skipz m p) in *. clearbody q.
    bind_inv H. rename x into pc.
    assert (Hpc : 0 <= pc <= 1) by (unfold consume_byte in E0; bind_inv E0; destruct (x =? 37); some_inv E0; lia).
    destruct (0 <? pc) eqn:Epc.
    + some_inv H. rewrite (byte_cut 37 _ _ _ ltac:(lia) E0) by lia. cbn [option_bind]. rewrite Epc. reflexivity.
    + rewrite (byte_cut 37 _ _ _ ltac:(lia) E0) by lia. cbn [option_bind]. rewrite Epc.
      bind_inv H. rename x into i.
      assert (Hi : 0 <= i) by (rewrite app_assoc in E1; apply ident_token_range in E1; exact E1).
      destruct (0 <? i) eqn:Ei; some_inv H.
      * rewrite (ident_token_cut _ _ _ E1) by lia. cbn [option_bind]. rewrite Ei. reflexivity.
      * rewrite (ident_token_cut _ _ _ E1) by lia. cbn [option_bind]. rewrite Ei. reflexivity.
Qed.

Lemma scan_while_range P l n : scan_while P l = Some n -> 0 <= n.
Proof. intros H. apply scan_while_spec in H. lia. Qed.

Lemma unicode_range_lb l n : consume_unicode_range l = Some n -> n = 0 \/ 3 <= n.
Proof.
  unfold consume_unicode_range. intros H. bind_inv H. if_inv H; [some_inv H; auto|].
  bind_inv H. if_inv H; [some_inv H; auto|]. bind_inv H. bind_inv H.
  match goal with E' : scan_while is_hex _ = Some x1 |- _ => pose proof (scan_while_range _ _ _ E') end.
  assert (0 <= x2 <= 1).
  { match goal with E' : consume_byte 45 _ = Some x2 |- _ => unfold consume_byte in E'; bind_inv E'; if_inv E'; some_inv E'; lia end. }
  if_inv H.
  - if_inv H; [some_inv H; auto|]. bind_inv H.
    match goal with E' : scan_while is_hex _ = Some x3 |- _ => pose proof (scan_while_range _ _ _ E') end.
    if_inv H; some_inv H; auto. right. lia.
  - bind_inv H.
    match goal with E' : scan_while is_qmark _ = Some x3 |- _ => pose proof (scan_while_range _ _ _ E') end.
    if_inv H; some_inv H; auto. right. lia.
Qed.

(* consumeUnicodeRangeToken when it succeeds (a failing attempt may succeed on a shorter input: u+1234567) *)
Lemma unicode_range_cut p s n : consume_unicode_range (p ++ s ++ [0]) = Some n -> 0 < n <= len p ->
  consume_unicode_range (p ++ [0]) = Some n.
Proof.
  intros H Hn. destruct (unicode_range_lb _ _ H) as [?|Hn3]; [lia|].
  unfold consume_unicode_range in *.
  destruct p as [|c [|c1 p]]; try (lens; lia). cbn [app] in *. rewrite peekz_0 in *. cbn [option_bind] in *.
  destruct (negb ((c =? 117) || (c =? 85))); [some_inv H; lia|].
  rewrite peekz_1 in *.
  rewrite peekz_0 in *. cbn [option_bind] in *. destruct (negb (c1 =? 43)); [some_inv H; lia|].
  rewrite skipz_2 in *.
  bind_inv H. rename x into k. pose proof (scan_while_range _ _ _ E) as Hk.
  bind_inv H. rename x into m.
  assert (Hm : 0 <= m <= 1) by (unfold consume_byte in E0; bind_inv E0; destruct (x =? 45); some_inv E0; lia).
  assert (Hkn : 2 + k + m <= n).
  { if_inv H.
    - if_inv H; [some_inv H; lia|]. bind_inv H. apply scan_while_range in E3. if_inv H; some_inv H; lia.
    - bind_inv H. apply scan_while_range in E2. if_inv H; some_inv H; lia. }
  rewrite (scan_while_cut is_hex _ _ _ eq_refl E) by (lens; lia). cbn [option_bind].
  rewrite skipz_app_l in * by (lens; lia).
  pose proof (len_skipz k p ltac:(lens; lia)) as Hlq. set (q := skipz k p) in *. clearbody q.
  rewrite (byte_cut 45 _ _ _ ltac:(lia) E0) by (lens; lia). cbn [option_bind].
  destruct (0 <? m) eqn:Em.
  - destruct ((k =? 0) || (6 <? k)); [exact H|].
    destruct q as [|c2 q]; [lens; lia|]. cbn [app tl] in *.
    bind_inv H. rename x into k2. pose proof (scan_while_range _ _ _ E1) as Hk2.
    destruct ((k2 =? 0) || (6 <? k2)) eqn:Ek2; [some_inv H; lia|]. some_inv H.
    rewrite (scan_while_cut is_hex _ _ _ eq_refl E1) by (lens; lia). cbn [option_bind]. rewrite Ek2. reflexivity.
  - bind_inv H. rename x into qm. pose proof (scan_while_range _ _ _ E1) as Hqm.
    destruct ((k + qm =? 0) || (6 <? k + qm)) eqn:Eq; [some_inv H; lia|]. some_inv H.
    rewrite (scan_while_cut is_qmark _ _ _ eq_refl E1) by (lens; lia). cbn [option_bind]. rewrite Eq. reflexivity.
Qed.

(* --- fixed patterns ------------------------------------------------------------------------------------------ *)
Ltac peeks := repeat first [ rewrite peekz_0 in * | rewrite peekz_1 in * | rewrite peekz_2 in *
                           | rewrite peekz_3 in * | rewrite peekz_nil in * ].
Ltac fixed_leaf H :=
  first [ exact H
        | discriminate H
        | exfalso; some_inv H; lens; lia
        | cbn; exact H
        | cbn; some_inv H; first [reflexivity | exfalso; lens; lia] ].
Ltac fixed_cut H :=
  cbn [app option_bind] in *; peeks; cbn [option_bind] in *;
  repeat (if_inv H; cbn [option_bind] in *; peeks; cbn [option_bind] in * );
  fixed_leaf H.

Lemma cdc_cut p s n : consume_cdc (p ++ s ++ [0]) = Some n -> n <= len p -> consume_cdc (p ++ [0]) = Some n.
Proof.
  unfold consume_cdc. intros H Hn.
  destruct p as [|c0 [|c1 [|c2 p]]]; destruct s as [|s0 [|s1 [|s2 s]]]; fixed_cut H.
Qed.

Lemma cdo_cut p s n : consume_cdo (p ++ s ++ [0]) = Some n -> n <= len p -> consume_cdo (p ++ [0]) = Some n.
Proof.
  unfold consume_cdo. intros H Hn.
  destruct p as [|c0 [|c1 [|c2 [|c3 p]]]]; destruct s as [|s0 [|s1 [|s2 [|s3 s]]]]; fixed_cut H.
Qed.

Lemma column_cut p s n : consume_column (p ++ s ++ [0]) = Some n -> n <= len p -> consume_column (p ++ [0]) = Some n.
Proof.
  unfold consume_column. intros H Hn.
  destruct p as [|c0 [|c1 p]]; destruct s as [|s0 [|s1 s]]; fixed_cut H.
Qed.

Lemma match_cut c p s ty n : consume_match ((c :: p) ++ s ++ [0]) = Some (ty, n) -> n <= len (c :: p) ->
  consume_match ((c :: p) ++ [0]) = Some (ty, n).
Proof.
  unfold consume_match. intros H Hn.
  destruct p as [|c1 p]; destruct s as [|s0 s]; fixed_cut H.
Qed.

Lemma bracket_cut c p s ty n : consume_bracket ((c :: p) ++ s ++ [0]) = Some (ty, n) ->
  consume_bracket ((c :: p) ++ [0]) = Some (ty, n).
Proof. unfold consume_bracket. cbn [app]. rewrite !peekz_0. auto. Qed.

(* --- comment, string, url ------------------------------------------------------------------------------------- *)
Lemma comment_loop_range d n : comment_loop (d ++ [0]) = Some n -> 0 <= n.
Proof. intros H. destruct (comment_loop_ok d) as (n' & Hn' & Hb). rewrite H in Hn'. some_inv Hn'. lia. Qed.

Lemma comment_loop_cut p : forall s n, comment_loop (p ++ s ++ [0]) = Some n -> n <= len p ->
  comment_loop (p ++ [0]) = Some n.
Proof.
  induction p as [|c p IH]; intros s n H Hn; cbn [app] in *.
  - pose proof (comment_loop_range _ _ H). assert (n = 0) by (lens; lia). subst n. reflexivity.
  - rewrite comment_loop_cons in *. rewrite eofb_cons_app in H. rewrite eofb_cons_sent. rewrite andb_false_r in *.
    destruct (c =? 42).
    + destruct p as [|c1 p]; cbn [app] in *.
      * rewrite peekz_0. cbn [option_bind]. change (0 =? 47) with false. cbv beta iota.
        rewrite peekz_sent_0 in H. cbn [option_bind] in H. destruct (hd0 s =? 47); [some_inv H; lens; lia|].
        apply bump_some in H. destruct H as (m & H & ->). pose proof (comment_loop_range _ _ H).
        assert (m = 0) by (lens; lia). subst m. reflexivity.
      * rewrite peekz_0 in *. cbn [option_bind] in *. destruct (c1 =? 47); [exact H|].
        apply bump_some in H. destruct H as (m & H & ->).
        change (c1 :: p ++ s ++ [0]) with ((c1 :: p) ++ s ++ [0]) in H.
        pose proof (IH _ _ H ltac:(lens; lia)) as IH'. cbn [app] in IH'. rewrite IH'. reflexivity.
    + apply bump_some in H. destruct H as (m & H & ->). rewrite (IH _ _ H) by (lens; lia). reflexivity.
Qed.

Lemma comment_cut p s n : consume_comment (p ++ s ++ [0]) = Some n -> n <= len p ->
  consume_comment (p ++ [0]) = Some n.
Proof.
  unfold consume_comment. intros H Hn.
  destruct p as [|c0 [|c1 p]]; cbn [app] in *; peeks; cbn [option_bind] in *.
  - cbn. rewrite peekz_sent_0 in H. cbn [option_bind] in H. if_inv H; [exact H|]. bind_inv H. if_inv H; [exact H|].
    bind_inv H. some_inv H. exfalso.
    destruct s as [|s0 [|s1 s]]; cbn [app] in *; peeks; try discriminate;
      try (some_inv E0; cbn in E1; discriminate).
    rewrite skipz_2 in E2. apply comment_loop_range in E2. lens. lia.
  - destruct (negb (c0 =? 47)); [exact H|]. cbn. rewrite peekz_sent_0 in H. cbn [option_bind] in H.
    if_inv H; [exact H|]. bind_inv H. some_inv H. exfalso.
    destruct s as [|s0 s]; cbn [app] in *; [discriminate|].
    rewrite skipz_2 in E0. apply comment_loop_range in E0. lens. lia.
  - destruct (negb (c0 =? 47)); [exact H|]. destruct (negb (c1 =? 42)); [exact H|].
    rewrite skipz_2 in *. bind_inv H. some_inv H. rewrite (comment_loop_cut _ _ _ E) by (lens; lia). reflexivity.
Qed.

Lemma string_loop_ge q l : forall k ty n, string_loop q l k = Some (ty, n) -> Z.of_nat k <= n.
Proof.
  induction l as [|c t IH]; intros k ty n H; [destruct k; discriminate H|].
  destruct k as [|k].
  - rewrite string_loop_0 in H.
    repeat (first [bind_inv H | if_inv H]); try (some_inv H; lia);
      apply bump2_some in H; destruct H as (m & H & ->); apply IH in H; lia.
  - rewrite string_loop_skip in H. apply bump2_some in H. destruct H as (m & H & ->). apply IH in H. lia.
Qed.

Lemma newline_range d n : consume_newline (d ++ [0]) = Some n -> 0 <= n.
Proof. intros H. destruct (consume_newline_ok d) as (n' & Hn' & Hb). rewrite H in Hn'. some_inv Hn'. lia. Qed.

Lemma string_loop_cut q p : forall s k ty n, string_loop q (p ++ s ++ [0]) k = Some (ty, n) -> n <= len p ->
  string_loop q (p ++ [0]) k = Some (ty, n).
Proof.
  induction p as [|c p IH]; intros s k ty n H Hn; cbn [app] in *.
  - pose proof (string_loop_ge _ _ _ _ _ H). assert (n = 0) by (lens; lia). subst n.
    assert (k = O) by lia. subst k.
    destruct s as [|c s]; [exact H|]. exfalso. cbn [app] in H. rewrite string_loop_0 in H.
    rewrite eofb_cons_sent, andb_false_r in H.
    repeat (first [bind_inv H | if_inv H]); try (some_inv H; lia);
      apply bump2_some in H; destruct H as (m & H & Hm); apply string_loop_ge in H; lia.
  - destruct k as [|k].
    + rewrite string_loop_0 in *. rewrite eofb_cons_app in H. rewrite eofb_cons_sent. rewrite andb_false_r in *.
      destruct (is_nl c); [exact H|]. destruct (c =? q); [exact H|].
      destruct (c =? 92).
      * bind_inv H. change (c :: p ++ s ++ [0]) with ((c :: p) ++ s ++ [0]) in E.
        destruct (escape_range2 _ _ _ E) as [Hx|Hx].
        -- subst x. pose proof (escape_cut _ _ _ E ltac:(lens; lia)) as Hec. cbn [app] in Hec. rewrite Hec.
           cbn [option_bind] in *. change (0 <? 0) with false in *. cbv beta iota in *.
           bind_inv H. apply bump2_some in H. destruct H as (m & H & ->).
           pose proof (string_loop_ge _ _ _ _ _ H).
           assert (0 <= x) by (rewrite app_assoc in E0; apply newline_range in E0; exact E0).
           rewrite (newline_cut _ _ _ E0) by (lens; lia). cbn [option_bind].
           rewrite (IH _ _ _ _ H) by (lens; lia). reflexivity.
        -- replace (0 <? x) with true in * by lia.
           apply bump2_some in H. destruct H as (m & H & ->). pose proof (string_loop_ge _ _ _ _ _ H).
           pose proof (escape_cut _ _ _ E ltac:(lens; lia)) as Hec. cbn [app] in Hec. rewrite Hec.
           cbn [option_bind]. replace (0 <? x) with true by lia.
           rewrite (IH _ _ _ _ H) by (lens; lia). reflexivity.
      * apply bump2_some in H. destruct H as (m & H & ->). rewrite (IH _ _ _ _ H) by (lens; lia). reflexivity.
    + rewrite string_loop_skip in *. apply bump2_some in H. destruct H as (m & H & ->).
      rewrite (IH _ _ _ _ H) by (lens; lia). reflexivity.
Qed.

Lemma string_cut c p s ty n : consume_string ((c :: p) ++ s ++ [0]) = Some (ty, n) -> n <= len (c :: p) ->
  consume_string ((c :: p) ++ [0]) = Some (ty, n).
Proof.
  unfold consume_string. cbn [app tl]. rewrite !peekz_0. cbn [option_bind]. intros H Hn.
  apply bump2_some in H. destruct H as (m & H & ->). rewrite (string_loop_cut _ _ _ _ _ _ H) by (lens; lia). reflexivity.
Qed.

Lemma url_loop_ge l : forall k b n, url_loop l k = Some (b, n) -> Z.of_nat k <= n.
Proof.
  induction l as [|c t IH]; intros k b n H; [destruct k; discriminate H|].
  destruct k as [|k].
  - rewrite url_loop_0 in H.
    repeat (first [bind_inv H | if_inv H]); try (some_inv H; lia);
      apply bump2_some in H; destruct H as (m & H & ->); apply IH in H; lia.
  - rewrite url_loop_skip in H. apply bump2_some in H. destruct H as (m & H & ->). apply IH in H. lia.
Qed.

Lemma url_loop_cut p : forall s k b n, url_loop (p ++ s ++ [0]) k = Some (b, n) ->
  (if b then n <= len p else n < len p) -> url_loop (p ++ [0]) k = Some (b, n).
Proof.
  induction p as [|c p IH]; intros s k b n H Hn; cbn [app] in *.
  - pose proof (url_loop_ge _ _ _ _ H). change (len (@nil Z)) with 0 in Hn.
    destruct b; [|lia]. assert (n = 0) by lia. subst n. assert (k = O) by lia. subst k. reflexivity.
  - destruct k as [|k].
    + rewrite url_loop_0 in *. rewrite eofb_cons_app in H. rewrite eofb_cons_sent. rewrite andb_false_r in *.
      cbn [orb] in *. destruct (c =? 41); [exact H|].
      destruct (url_bad_char c).
      * destruct (c =? 92); [|exact H]. bind_inv H.
        change (c :: p ++ s ++ [0]) with ((c :: p) ++ s ++ [0]) in E.
        destruct (escape_range2 _ _ _ E) as [Hx|Hx].
        -- subst x. pose proof (escape_cut _ _ _ E ltac:(lens; lia)) as Hec. cbn [app] in Hec. rewrite Hec. exact H.
        -- replace (0 <? x) with true in * by lia.
           apply bump2_some in H. destruct H as (m & H & ->). pose proof (url_loop_ge _ _ _ _ H).
           pose proof (escape_cut _ _ _ E ltac:(destruct b; lens; lia)) as Hec. cbn [app] in Hec. rewrite Hec.
           cbn [option_bind]. replace (0 <? x) with true by lia.
           rewrite (IH _ _ _ _ H) by (destruct b; lens; lia). reflexivity.
      * apply bump2_some in H. destruct H as (m & H & ->).
        rewrite (IH _ _ _ _ H) by (destruct b; lens; lia). reflexivity.
    + rewrite url_loop_skip in *. apply bump2_some in H. destruct H as (m & H & ->).
      rewrite (IH _ _ _ _ H) by (destruct b; lens; lia). reflexivity.
Qed.

Lemma badurl_loop_ge l : forall k n, badurl_loop l k = Some n -> Z.of_nat k <= n.
Proof.
  induction l as [|c t IH]; intros k n H; [destruct k; discriminate H|].
  destruct k as [|k].
  - rewrite badurl_loop_0 in H.
    repeat (first [bind_inv H | if_inv H]); try (some_inv H; lia);
      apply bump_some in H; destruct H as (m & H & ->); apply IH in H; lia.
  - rewrite badurl_loop_skip in H. apply bump_some in H. destruct H as (m & H & ->). apply IH in H. lia.
Qed.

Lemma badurl_loop_cut p : forall s k n, badurl_loop (p ++ s ++ [0]) k = Some n -> n <= len p ->
  badurl_loop (p ++ [0]) k = Some n.
Proof.
  induction p as [|c p IH]; intros s k n H Hn; cbn [app] in *.
  - pose proof (badurl_loop_ge _ _ _ H). assert (n = 0) by (lens; lia). subst n.
    assert (k = O) by lia. subst k. reflexivity.
  - destruct k as [|k].
    + rewrite badurl_loop_0 in *. rewrite eofb_cons_app in H. rewrite eofb_cons_sent.
      destruct (c =? 41); [exact H|]. bind_inv H.
      change (c :: p ++ s ++ [0]) with ((c :: p) ++ s ++ [0]) in E.
      destruct (escape_range2 _ _ _ E) as [Hx|Hx].
      * subst x. pose proof (escape_cut _ _ _ E ltac:(lens; lia)) as Hec. cbn [app] in Hec. rewrite Hec.
        cbn [option_bind] in *. change (0 <? 0) with false in *. cbv beta iota in *.
        apply bump_some in H. destruct H as (m & H & ->). rewrite (IH _ _ _ H) by (lens; lia). reflexivity.
      * replace (0 <? x) with true in * by lia.
        apply bump_some in H. destruct H as (m & H & ->). pose proof (badurl_loop_ge _ _ _ H).
        pose proof (escape_cut _ _ _ E ltac:(lens; lia)) as Hec. cbn [app] in Hec. rewrite Hec.
        cbn [option_bind]. replace (0 <? x) with true by lia.
        rewrite (IH _ _ _ H) by (lens; lia). reflexivity.
    + rewrite badurl_loop_skip in *. apply bump_some in H. destruct H as (m & H & ->).
      rewrite (IH _ _ _ H) by (lens; lia). reflexivity.
Qed.

Lemma consume_byte_range b l n : consume_byte b l = Some n -> 0 <= n <= 1.
Proof. unfold consume_byte. intros H. bind_inv H. destruct (x =? b); some_inv H; lia. Qed.

Lemma badurl_loop_pos c t n : badurl_loop (c :: t ++ [0]) 0 = Some n -> c <> 41 -> 1 <= n.
Proof.
  rewrite badurl_loop_0, eofb_cons_sent. intros H Hc. replace (c =? 41) with false in H by lia.
  bind_inv H. if_inv H; apply bump_some in H; destruct H as (m & H & ->); apply badurl_loop_ge in H; lia.
Qed.

Lemma url_end_cut n0 p s ty m : url_end n0 (p ++ s ++ [0]) = Some (ty, m) -> m - n0 <= len p ->
  url_end n0 (p ++ [0]) = Some (ty, m).
Proof.
  unfold url_end. intros H Hm. bind_inv H. rename x into w. pose proof (scan_while_range _ _ _ E) as Hw.
  bind_inv H. rename x into b. pose proof (consume_byte_range _ _ _ E0) as Hb.
  assert (Hwm : n0 + w + b <= m).
  { if_inv H; [some_inv H; lia|]. bind_inv H. apply badurl_loop_ge in E2. some_inv H. lia. }
  rewrite (scan_while_cut is_ws _ _ _ eq_refl E) by lia. cbn [option_bind].
  rewrite skipz_app_l in * by lia.
  pose proof (len_skipz w p ltac:(lia)) as Hlq. set (q := skipz w p) in *. clearbody q.
  rewrite (byte_cut 41 _ _ _ ltac:(lia) E0) by lia. cbn [option_bind].
  destruct (0 <? b) eqn:Eb; cbn [orb] in *; [exact H|].
  destruct q as [|c q]; cbn [app] in *.
  - change (eofb [0]) with true. cbv beta iota.
    destruct s as [|c s]; cbn [app] in *; [exact H|]. exfalso.
    rewrite eofb_cons_sent in H. bind_inv H. some_inv H.
    unfold consume_byte in E0. rewrite peekz_0 in E0. cbn [option_bind] in E0.
    destruct (c =? 41) eqn:Ec; [some_inv E0; lia|].
    apply badurl_loop_pos in E1; [|lia]. lens. lia.
  - rewrite eofb_cons_app in H. rewrite eofb_cons_sent. bind_inv H. some_inv H.
    change (c :: q ++ s ++ [0]) with ((c :: q) ++ s ++ [0]) in E1.
    pose proof (badurl_loop_ge _ _ _ E1).
    pose proof (badurl_loop_cut _ _ _ _ E1 ltac:(lens; lia)) as Hc. cbn [app] in Hc. rewrite Hc. reflexivity.
Qed.

Lemma firstz_app_sent {A} n (p x : list A) : 0 <= n <= len p -> firstz n (p ++ x) = firstz n p.
Proof. intros H. apply firstz_app_l. lia. Qed.

Lemma consume_string_pos c t ty n : consume_string (c :: t) = Some (ty, n) -> 1 <= n.
Proof.
  unfold consume_string. rewrite peekz_0. cbn [option_bind tl]. intros H. apply bump2_some in H.
  destruct H as (m & H & ->). apply string_loop_ge in H. lia.
Qed.

Lemma url_end_ge n0 l ty m : url_end n0 l = Some (ty, m) -> n0 <= m.
Proof.
  unfold url_end. intros H. bind_inv H. apply scan_while_range in E. bind_inv H. apply consume_byte_range in E0.
  if_inv H; [some_inv H; lia|]. bind_inv H. apply badurl_loop_ge in E2. some_inv H. lia.
Qed.

(* url_arg moves at least as far as its sub-steps *)
Lemma url_arg_ge n1 l ty m : url_arg n1 l = Some (ty, m) -> n1 <= m.
Proof.
  unfold url_arg. intros H. bind_inv H. if_inv H.
  - bind_inv H. destruct x0 as [ty2 m2]. cbn [fst snd] in *.
    destruct l as [|c3 l3]; [rewrite peekz_nil in E; discriminate|].
    apply consume_string_pos in E1. if_inv H.
    + bind_inv H. apply badurl_loop_ge in E3. some_inv H. lia.
    + apply url_end_ge in H. lia.
  - bind_inv H. destruct x0 as [b2 m2]. cbn [fst snd] in *. apply url_loop_ge in E1. if_inv H.
    + apply url_end_ge in H. lia.
    + bind_inv H. if_inv H; [apply url_end_ge in H; lia|]. bind_inv H. apply badurl_loop_ge in E5. some_inv H. lia.
Qed.

(* an unquoted url that stops at a byte which is not ')' : that byte is consumed by what follows *)
Lemma url_loop_first c t b m : url_loop (c :: t ++ [0]) 0 = Some (b, m) ->
  (c = 41 /\ b = true /\ m = 0) \/ (c <> 41 /\ b = false /\ m = 0) \/ (c <> 41 /\ 1 <= m).
Proof.
  rewrite url_loop_0, eofb_cons_sent, andb_false_r. cbn [orb]. intros H.
  destruct (c =? 41) eqn:E41; [some_inv H; left; lia|]. right.
  destruct (url_bad_char c).
  - destruct (c =? 92).
    + bind_inv H. if_inv H.
      * apply bump2_some in H. destruct H as (m' & H & ->). apply url_loop_ge in H. right. lia.
      * some_inv H. left. lia.
    + some_inv H. left. lia.
  - apply bump2_some in H. destruct H as (m' & H & ->). apply url_loop_ge in H. right. lia.
Qed.

Lemma url_loop_false d : forall k m, url_loop (d ++ [0]) k = Some (false, m) ->
  exists c t, skipz m (d ++ [0]) = c :: t ++ [0] /\ c <> 41.
Proof.
  induction d as [|c d IH]; intros k m H; cbn [app] in *.
  - destruct k as [|[|k]]; cbn in H; discriminate H.
  - destruct k as [|k].
    + rewrite url_loop_0, eofb_cons_sent, andb_false_r in H. cbn [orb] in H.
      destruct (c =? 41) eqn:E41; [discriminate H|].
      assert (Hstop : Some (false, 0) = Some (false, m) -> exists c0 t, skipz m (c :: d ++ [0]) = c0 :: t ++ [0] /\ c0 <> 41).
      { intros H'. some_inv H'. exists c, d. split; [reflexivity|lia]. }
      assert (Hnext : forall k', bump2 (url_loop (d ++ [0]) k') = Some (false, m) ->
                exists c0 t, skipz m (c :: d ++ [0]) = c0 :: t ++ [0] /\ c0 <> 41).
      { intros k' H'. apply bump2_some in H'. destruct H' as (m' & H' & ->). pose proof (url_loop_ge _ _ _ _ H').
        destruct (IH _ _ H') as (c0 & t & Hs & Hc). exists c0, t. split; [|exact Hc].
        rewrite skipz_cons by lia. replace (1 + m' - 1) with m' by lia. exact Hs. }
      destruct (url_bad_char c).
      * destruct (c =? 92); [|auto]. bind_inv H. destruct (0 <? x); [eauto|auto].
      * eauto.
    + rewrite url_loop_skip in H. apply bump2_some in H. destruct H as (m' & H & ->). pose proof (url_loop_ge _ _ _ _ H).
      destruct (IH _ _ H) as (c0 & t & Hs & Hc). exists c0, t. split; [|exact Hc].
      rewrite skipz_cons by lia. replace (1 + m' - 1) with m' by lia. exact Hs.
Qed.

Lemma url_arg_cut n1 p s ty m : url_arg n1 (p ++ s ++ [0]) = Some (ty, m) -> m - n1 <= len p ->
  url_arg n1 (p ++ [0]) = Some (ty, m).
Proof.
  intros H Hm. pose proof (url_arg_ge _ _ _ _ H) as Hge.
  destruct p as [|c3 p3].
  - (* nothing of the argument is kept: then nothing followed in the old input either *)
    change (len (@nil Z)) with 0 in Hm. assert (m = n1) by lia. subst m. cbn [app] in *.
    destruct s as [|cs s]; [exact H|]. exfalso. cbn [app] in H.
    unfold url_arg in H. rewrite peekz_0 in H. cbn [option_bind] in H. if_inv H.
    + bind_inv H. destruct x as [ty2 m2]. cbn [fst snd] in *. apply consume_string_pos in E0. if_inv H.
      * bind_inv H. apply badurl_loop_ge in E2. some_inv H. lia.
      * apply url_end_ge in H. lia.
    + bind_inv H. destruct x as [b2 m2]. cbn [fst snd] in *.
      destruct (url_loop_first _ _ _ _ E0) as [(Hc & -> & ->)|[(Hc & -> & ->)|(Hc & Hm2)]].
      * cbn [fst] in H. rewrite skipz_0 in H. unfold url_end in H. subst cs.
        rewrite scan_while_cons in H. change (is_ws 41) with false in H. cbn [option_bind] in H.
        rewrite skipz_0 in H. unfold consume_byte in H. rewrite peekz_0 in H. cbn [option_bind] in H.
        change (41 =? 41) with true in H. cbn [Z.ltb Z.compare orb] in H. cbv beta iota in H. some_inv H. lia.
      * cbn [fst] in H. rewrite skipz_0 in H. bind_inv H. if_inv H; [apply url_end_ge in H; lia|].
        bind_inv H. some_inv H. apply badurl_loop_pos in E3; [lia|exact Hc].
      * destruct b2.
        -- apply url_end_ge in H. lia.
        -- bind_inv H. if_inv H; [apply url_end_ge in H; lia|]. bind_inv H. apply badurl_loop_ge in E3. some_inv H. lia.
  - unfold url_arg in *. cbn [app] in *. rewrite peekz_0 in *. cbn [option_bind] in *.
    change (c3 :: p3 ++ s ++ [0]) with ((c3 :: p3) ++ s ++ [0]) in *.
    change (c3 :: p3 ++ [0]) with ((c3 :: p3) ++ [0]) in *.
    destruct ((c3 =? 34) || (c3 =? 39)).
    + bind_inv H. destruct x as [ty2 m2]. cbn [fst snd] in *. pose proof (consume_string_pos _ _ _ _ E) as Hm2.
      assert (Hm2n : n1 + m2 <= m).
      { if_inv H; [bind_inv H; apply badurl_loop_ge in E1; some_inv H; lia|apply url_end_ge in H; lia]. }
      rewrite (string_cut _ _ _ _ _ E) by (lens; lia). cbn [option_bind fst snd].
      rewrite skipz_app_l in * by (lens; lia).
      destruct (tt_eqb ty2 TBadString).
      * bind_inv H. some_inv H. pose proof (badurl_loop_ge _ _ _ E0).
        rewrite (badurl_loop_cut _ _ _ _ E0) by (rewrite len_skipz by (lens; lia); lens; lia). reflexivity.
      * apply (url_end_cut _ _ s); [exact H|]. rewrite len_skipz by (lens; lia). lens. lia.
    + bind_inv H. destruct x as [b2 m2]. cbn [fst snd] in *. pose proof (url_loop_ge _ _ _ _ E) as Hm2.
      destruct b2.
      * pose proof (url_end_ge _ _ _ _ H).
        rewrite (url_loop_cut _ _ _ _ _ E) by (lens; lia). cbn [option_bind fst snd].
        rewrite skipz_app_l in * by (lens; lia).
        apply (url_end_cut _ _ s); [exact H|]. rewrite len_skipz by (lens; lia). lens. lia.
      * (* the offending byte (not ')', not the end) is consumed by what follows: it lies inside the prefix *)
        bind_inv H. rename x into ws. pose proof (whitespace_range _ _ E0) as Hws.
        assert (Hin : n1 + m2 + 1 <= m).
        { pose proof E as E'. rewrite app_assoc in E'. apply url_loop_false in E'. destruct E' as (cb & tb & Hsk & Hcb).
          rewrite <- app_assoc in Hsk.
          destruct (0 <? ws) eqn:Ex; [apply url_end_ge in H; lia|]. bind_inv H. some_inv H.
          rewrite Hsk in E1. apply badurl_loop_pos in E1; [lia|exact Hcb]. }
        rewrite (url_loop_cut _ _ _ _ _ E) by (lens; lia). cbn [option_bind fst snd].
        rewrite !skipz_app_l in * by (lens; lia).
        pose proof (len_skipz m2 (c3 :: p3) ltac:(lens; lia)) as Hlq. set (q := skipz m2 (c3 :: p3)) in *.
        rewrite (whitespace_cut _ _ _ E0) by lia. cbn [option_bind].
        destruct (0 <? ws) eqn:Ex.
        -- subst q. apply (url_end_cut _ _ s); [exact H|]. rewrite len_skipz by (lens; lia). lens. lia.
        -- bind_inv H. some_inv H. pose proof (badurl_loop_ge _ _ _ E1).
           rewrite (badurl_loop_cut _ _ _ _ E1) by lia. reflexivity.
Qed.

Lemma identlike_cut p s ty n : consume_identlike (p ++ s ++ [0]) = Some (ty, n) -> n <= len p ->
  consume_identlike (p ++ [0]) = Some (ty, n).
Proof.
  unfold consume_identlike. intros H Hn. bind_inv H. rename x into n0.
  assert (Hn0 : 0 <= n0) by (rewrite app_assoc in E; apply ident_token_range in E; exact E).
  destruct (n0 =? 0) eqn:En0.
  { assert (n0 = 0) by lia. subst n0. rewrite (ident_token_cut _ _ _ E) by (lens; lia). exact H. }
  assert (Hn0n : n0 <= n).
  { bind_inv H. if_inv H; [some_inv H; lia|]. if_inv H; [some_inv H; lia|].
    bind_inv H. apply scan_while_range in E3. apply url_arg_ge in H. lia. }
  rewrite (ident_token_cut _ _ _ E) by lia. cbn [option_bind]. rewrite En0.
  rewrite skipz_app_l in * by lia. rewrite firstz_app_sent in * by lia.
  pose proof (len_skipz n0 p ltac:(lia)) as Hl1. set (p1 := skipz n0 p) in *. clearbody p1.
  destruct p1 as [|c1 p1]; cbn [app] in *.
  - rewrite peekz_0. cbn [option_bind]. change (negb (0 =? 40)) with true. cbv beta iota.
    rewrite peekz_sent_0 in H. cbn [option_bind] in H. change (len (@nil Z)) with 0 in Hl1.
    destruct (negb (hd0 s =? 40)); [exact H|]. exfalso.
    if_inv H; [some_inv H; lia|].
    bind_inv H. apply scan_while_range in E1. apply url_arg_ge in H. lia.
  - rewrite peekz_0 in *. cbn [option_bind] in *. destruct (negb (c1 =? 40)); [exact H|].
    destruct (negb (is_url_name (firstz n0 p))); [exact H|]. cbn [tl] in *.
    bind_inv H. rename x into w. pose proof (scan_while_range _ _ _ E0) as Hw.
    pose proof (url_arg_ge _ _ _ _ H) as Hge.
    rewrite (scan_while_cut is_ws _ _ _ eq_refl E0) by (lens; lia). cbn [option_bind].
    rewrite skipz_app_l in * by (lens; lia).
    apply (url_arg_cut _ _ s); [exact H|]. rewrite len_skipz by (lens; lia). lens. lia.
Qed.

(* --- Next's switch, cut exactly after the token ---------------------------------------------------------------- *)
Lemma or_delim_len d r ty n : tokr d r -> or_delim r = (ty, n) -> snd r <= n.
Proof.
  unfold or_delim. intros [[He Hn]|[He Hn]] H; rewrite He in H.
  - apply pair_eq_inv in H. destruct H as [_ H]. lia.
  - subst r. cbn [snd]. lia.
Qed.

Lemma pos_tok_len T n' ty n : 0 <= n' -> pos_tok T n' = (ty, n) -> n' <= n.
Proof.
  unfold pos_tok. intros H0 H. destruct (0 <? n') eqn:E; apply pair_eq_inv in H; destruct H as [_ H]; lia.
Qed.

Lemma tokr_of d o r : oktok d o -> o = Some r -> tokr d r.
Proof. intros (r' & -> & Hr) H. some_inv H. exact Hr. Qed.

Lemma okz_of d o n : okz d o -> o = Some n -> 0 <= n.
Proof. intros (n' & -> & Hr) H. some_inv H. lia. Qed.

Lemma u_plus_ident c t : (c =? 117) || (c =? 85) = true -> consume_identlike (c :: 43 :: t) = Some (TIdent, 1).
Proof.
  intros Hc. unfold consume_identlike, consume_ident_token. rewrite peekz_0. cbn [option_bind].
  replace (c =? 45) with false by lia. unfold ident_tail. rewrite skipz_0, peekz_0. cbn [option_bind].
  replace (ident_start c) with true by (cls; lia). cbn [tl]. rewrite ident_loop_0.
  change (ident_char 43) with false. change (43 =? 92) with false. cbv beta iota. cbn [option_bind].
  change (0 + 1 + 0 =? 0) with false. cbv beta iota. change (0 + 1 + 0) with 1. rewrite skipz_1, peekz_0.
  reflexivity.
Qed.

Lemma css_scan_cut p s ty : css_scan (p ++ s ++ [0]) = Some (ty, len p) -> is_err ty = false ->
  css_scan (p ++ [0]) = Some (ty, len p).
Proof.
  intros H Ht.
  destruct p as [|c p].
  { exfalso. cbn [app] in H. change (len (@nil Z)) with 0 in H. destruct s as [|c s].
    - cbn in H. some_inv H. discriminate.
    - destruct (css_scan_good c s) as (r & Hr & _ & Hg). rewrite H in Hr. some_inv Hr. cbn in Hg. lia. }
  set (n := len (c :: p)) in *. assert (Hn : n = len (c :: p)) by reflexivity. clearbody n.
  unfold css_scan in *. cbn [app] in *. rewrite peekz_0 in *. cbn [option_bind] in *.
  change (c :: p ++ s ++ [0]) with ((c :: p) ++ s ++ [0]) in *.
  change (c :: p ++ [0]) with ((c :: p) ++ [0]) in *.
  destruct (is_ws c).
  { cbn [app tl] in *. bind_inv H. some_inv H. apply scan_while_range in E as E'.
    rewrite (scan_while_cut is_ws _ _ _ eq_refl E) by (lens; lia). reflexivity. }
  destruct (c =? 58); [exact H|]. destruct (c =? 59); [exact H|]. destruct (c =? 44); [exact H|].
  destruct ((c =? 40) || (c =? 41) || (c =? 91) || (c =? 93) || (c =? 123) || (c =? 125)).
  { bind_inv H. destruct x as [ty' n']. rewrite (bracket_cut _ _ _ _ _ E). exact H. }
  destruct (c =? 35).
  { bind_inv H. apply Some_inj in H. rewrite app_assoc in E.
    pose proof (okz_of _ _ _ (consume_hash_ok c (p ++ s)) E) as H0. rewrite <- app_assoc in E.
    pose proof (pos_tok_len _ _ _ _ H0 H).
    rewrite (hash_cut _ _ _ _ E) by lia. cbn [option_bind]. rewrite H. reflexivity. }
  destruct ((c =? 34) || (c =? 39)).
  { bind_inv H. destruct x as [ty' n']. apply Some_inj in H.
    destruct (consume_string_ok c (p ++ s)) as (ty2 & n2 & Hs2 & Hn2 & Ht2).
    cbn [app] in Hs2, E. rewrite <- app_assoc in Hs2. rewrite E in Hs2. some_inv Hs2.
    unfold or_delim in H. cbn [fst] in H. rewrite Ht2 in H. apply pair_eq_inv in H. destruct H as [-> ->].
    change (c :: p ++ s ++ [0]) with ((c :: p) ++ s ++ [0]) in E.
    rewrite (string_cut _ _ _ _ _ E) by lia. cbn [option_bind]. unfold or_delim. cbn [fst]. rewrite Ht2. reflexivity. }
  destruct ((c =? 46) || (c =? 43)).
  { bind_inv H. destruct x as [ty' n']. apply Some_inj in H. rewrite app_assoc in E.
    pose proof (tokr_of _ _ _ (consume_numeric_ok ((c :: p) ++ s)) E) as Hr. rewrite <- app_assoc in E.
    pose proof (or_delim_len _ _ _ _ Hr H) as Hl. cbn [snd] in Hl.
    rewrite (numeric_cut _ _ _ _ E) by lia. cbn [option_bind]. rewrite H. reflexivity. }
  destruct (c =? 45) eqn:E45.
  { assert (c = 45) by lia. subst c.
    bind_inv H. rename x into n1. rewrite app_assoc in E.
    pose proof (okz_of _ _ _ (consume_cdc_ok ((45 :: p) ++ s)) E) as H1. rewrite <- app_assoc in E.
    destruct (0 <? n1) eqn:E1.
    { some_inv H. rewrite (cdc_cut _ _ _ E) by lia. cbn [option_bind]. rewrite E1. reflexivity. }
    rewrite (cdc_cut _ _ _ E) by (lens; lia). cbn [option_bind]. rewrite E1.
    bind_inv H. rename x into n2. rewrite app_assoc in E0.
    pose proof (okz_of _ _ _ (consume_custom_variable_ok 45 (p ++ s)) E0) as H2. rewrite <- app_assoc in E0.
    destruct (0 <? n2) eqn:E2.
    { some_inv H. rewrite (custom_variable_cut _ _ _ E0) by lia. cbn [option_bind]. rewrite E2. reflexivity. }
    rewrite (custom_variable_cut _ _ _ E0) by (lens; lia). cbn [option_bind]. rewrite E2.
    bind_inv H. destruct x as [ty3 n3]. rewrite app_assoc in E3.
    pose proof (tokr_of _ _ _ (consume_identlike_ok ((45 :: p) ++ s)) E3) as Hr3. rewrite <- app_assoc in E3.
    cbn [fst] in H. destruct (is_err ty3) eqn:Ee3; cbn [negb] in H.
    - destruct Hr3 as [[_ Hz]|[Hz _]]; cbn [fst snd] in *; [|congruence]. subst n3.
      rewrite (identlike_cut _ _ _ _ E3) by (lens; lia). cbn [option_bind fst]. rewrite Ee3. cbn [negb].
      bind_inv H. destruct x as [ty4 n4]. apply Some_inj in H. rewrite app_assoc in E4.
      pose proof (tokr_of _ _ _ (consume_numeric_ok ((45 :: p) ++ s)) E4) as Hr4. rewrite <- app_assoc in E4.
      pose proof (or_delim_len _ _ _ _ Hr4 H) as Hl. cbn [snd] in Hl.
      rewrite (numeric_cut _ _ _ _ E4) by lia. cbn [option_bind]. rewrite H. reflexivity.
    - some_inv H. rewrite (identlike_cut _ _ _ _ E3) by lia. cbn [option_bind fst]. rewrite Ee3. reflexivity. }
  destruct (c =? 64).
  { bind_inv H. apply Some_inj in H. rewrite app_assoc in E.
    pose proof (okz_of _ _ _ (consume_at_keyword_ok c (p ++ s)) E) as H0. rewrite <- app_assoc in E.
    pose proof (pos_tok_len _ _ _ _ H0 H).
    rewrite (at_keyword_cut _ _ _ _ E) by lia. cbn [option_bind]. rewrite H. reflexivity. }
  destruct ((c =? 36) || (c =? 42) || (c =? 94) || (c =? 126)).
  { bind_inv H. destruct x as [ty' n']. apply Some_inj in H. rewrite app_assoc in E.
    pose proof (tokr_of _ _ _ (consume_match_ok c (p ++ s)) E) as Hr. rewrite <- app_assoc in E.
    pose proof (or_delim_len _ _ _ _ Hr H) as Hl. cbn [snd] in Hl.
    rewrite (match_cut _ _ _ _ _ E) by lia. cbn [option_bind]. rewrite H. reflexivity. }
  destruct (c =? 47).
  { bind_inv H. apply Some_inj in H. rewrite app_assoc in E.
    pose proof (okz_of _ _ _ (consume_comment_ok ((c :: p) ++ s)) E) as H0. rewrite <- app_assoc in E.
    pose proof (pos_tok_len _ _ _ _ H0 H).
    rewrite (comment_cut _ _ _ E) by lia. cbn [option_bind]. rewrite H. reflexivity. }
  destruct (c =? 60).
  { bind_inv H. apply Some_inj in H. rewrite app_assoc in E.
    pose proof (okz_of _ _ _ (consume_cdo_ok ((c :: p) ++ s)) E) as H0. rewrite <- app_assoc in E.
    pose proof (pos_tok_len _ _ _ _ H0 H).
    rewrite (cdo_cut _ _ _ E) by lia. cbn [option_bind]. rewrite H. reflexivity. }
  destruct (c =? 92).
  { bind_inv H. destruct x as [ty' n']. apply Some_inj in H. rewrite app_assoc in E.
    pose proof (tokr_of _ _ _ (consume_identlike_ok ((c :: p) ++ s)) E) as Hr. rewrite <- app_assoc in E.
    pose proof (or_delim_len _ _ _ _ Hr H) as Hl. cbn [snd] in Hl.
    rewrite (identlike_cut _ _ _ _ E) by lia. cbn [option_bind]. rewrite H. reflexivity. }
  destruct ((c =? 117) || (c =? 85)) eqn:Eu.
  { bind_inv H. rename x into n1. rewrite app_assoc in E.
    pose proof (okz_of _ _ _ (consume_unicode_range_ok ((c :: p) ++ s)) E) as H1. rewrite <- app_assoc in E.
    destruct (0 <? n1) eqn:E1.
    { some_inv H. rewrite (unicode_range_cut _ _ _ E) by lia. cbn [option_bind]. rewrite E1. reflexivity. }
    assert (n1 = 0) by lia. subst n1.
    bind_inv H. destruct x as [ty' n']. apply Some_inj in H. rewrite app_assoc in E0.
    pose proof (tokr_of _ _ _ (consume_identlike_ok ((c :: p) ++ s)) E0) as Hr. rewrite <- app_assoc in E0.
    pose proof (or_delim_len _ _ _ _ Hr H) as Hl. cbn [snd] in Hl.
    (* the failed unicode-range attempt also fails on the token alone *)
    assert (Hu : consume_unicode_range ((c :: p) ++ [0]) = Some 0).
    { unfold consume_unicode_range. cbn [app]. rewrite peekz_0. cbn [option_bind]. rewrite Eu. cbn [negb].
      rewrite peekz_1. destruct p as [|c1 p]; cbn [app]; rewrite peekz_0; cbn [option_bind]; [reflexivity|].
      destruct (c1 =? 43) eqn:E43; [|reflexivity]. exfalso.
      assert (c1 = 43) by lia. subst c1. cbn [app] in E0. rewrite (u_plus_ident _ _ Eu) in E0. some_inv E0.
      cbn in H. apply pair_eq_inv in H. destruct H as [_ H]. lens. lia. }
    rewrite Hu. cbn [option_bind]. change (0 <? 0) with false. cbv beta iota.
    rewrite (identlike_cut _ _ _ _ E0) by lia. cbn [option_bind]. rewrite H. reflexivity. }
  destruct (c =? 124).
  { bind_inv H. destruct x as [ty1 n1]. rewrite app_assoc in E.
    pose proof (tokr_of _ _ _ (consume_match_ok c (p ++ s)) E) as Hr. rewrite <- app_assoc in E.
    cbn [fst] in H. destruct (is_err ty1) eqn:Ee1; cbn [negb] in H.
    - destruct Hr as [[_ Hz]|[Hz _]]; cbn [fst snd] in *; [|congruence]. subst n1.
      rewrite (match_cut _ _ _ _ _ E) by (lens; lia). cbn [option_bind fst]. rewrite Ee1. cbn [negb].
      bind_inv H. apply Some_inj in H. rewrite app_assoc in E0.
      pose proof (okz_of _ _ _ (consume_column_ok ((c :: p) ++ s)) E0) as H0. rewrite <- app_assoc in E0.
      pose proof (pos_tok_len _ _ _ _ H0 H).
      rewrite (column_cut _ _ _ E0) by lia. cbn [option_bind]. rewrite H. reflexivity.
    - some_inv H. rewrite (match_cut _ _ _ _ _ E) by lia. cbn [option_bind fst]. rewrite Ee1. reflexivity. }
  destruct (c =? 0).
  { cbn [app] in *. rewrite eofb_cons_sent. rewrite eofb_cons_app in H. exact H. }
  bind_inv H. destruct x as [ty1 n1]. rewrite app_assoc in E.
  pose proof (tokr_of _ _ _ (consume_numeric_ok ((c :: p) ++ s)) E) as Hr. rewrite <- app_assoc in E.
  cbn [fst] in H. destruct (is_err ty1) eqn:Ee1; cbn [negb] in H.
  - destruct Hr as [[_ Hz]|[Hz _]]; cbn [fst snd] in *; [|congruence]. subst n1.
    rewrite (numeric_cut _ _ _ _ E) by (lens; lia). cbn [option_bind fst]. rewrite Ee1. cbn [negb].
    bind_inv H. destruct x as [ty' n']. apply Some_inj in H. rewrite app_assoc in E0.
    pose proof (tokr_of _ _ _ (consume_identlike_ok ((c :: p) ++ s)) E0) as Hr2. rewrite <- app_assoc in E0.
    pose proof (or_delim_len _ _ _ _ Hr2 H) as Hl. cbn [snd] in Hl.
    rewrite (identlike_cut _ _ _ _ E0) by lia. cbn [option_bind]. rewrite H. reflexivity.
  - some_inv H. rewrite (numeric_cut _ _ _ _ E) by lia. cbn [option_bind fst]. rewrite Ee1. reflexivity.
Qed.

(* --- re-lexing ---------------------------------------------------------------------------------------------------- *)
Lemma css_lex_from_tokens : forall fuel z toks, css_inv z -> css_lex_from fuel z = LexDone toks ->
  Forall (fun t => exists rest, css_scan (snd t ++ rest ++ [0]) = Some (fst t, len (snd t)) /\
                                is_err (fst t) = false /\ snd t <> []) toks.
Proof.
  induction fuel as [|fuel IH]; intros z toks H Hl; [discriminate Hl|]. cbn [css_lex_from] in Hl.
  pose proof (suffix_inv z H) as Hs. destruct (inv_data z H) as (_ & Hlen & Hp).
  destruct (css_next_spec z H) as [[E Hn]|[E (ty & n & Hsc & Hty & Hn1 & Hn2 & Hn)]]; rewrite Hn in Hl.
  - cbn [is_err] in Hl. assert (toks = []) by congruence. subst. constructor.
  - rewrite Hty in Hl.
    pose proof (inv_after z n H ltac:(lia) Hn2) as H'.
    destruct (css_lex_from fuel _) as [ts| |] eqn:El; try discriminate.
    assert (toks = (ty, slice (lx_data z) (lpos z) (lpos z + n)) :: ts) by congruence. subst toks.
    constructor; [|eapply IH; eassumption].
    cbn [fst snd]. set (b := slice (lx_data z) (lpos z) (lpos z + n)).
    assert (Hb : len b = n) by (subst b; rewrite len_slice by lia; lia).
    exists (skipz n (skipz (lpos z) (lx_data z))).
    rewrite Hb. split; [|split; [exact Hty|]].
    + rewrite app_assoc. subst b. unfold slice. replace (lpos z + n - lpos z) with n by lia.
      rewrite firstz_skipz. rewrite <- Hs. exact Hsc.
    + intros Hnil. rewrite Hnil in Hb. change (len (@nil Z)) with 0 in Hb. lia.
Qed.

(* C02: lexing the text of any single token on its own yields that same token again *)
Lemma css_relex_proof : forall d toks ty b, css_lex d = LexDone toks -> In (ty, b) toks ->
  css_lex b = LexDone [(ty, b)].
Proof.
  intros d toks ty b Hl Hin. unfold css_lex in Hl.
  pose proof (css_lex_from_tokens _ _ _ (css_inv_init d) Hl) as Hall.
  rewrite Forall_forall in Hall. destruct (Hall _ Hin) as (rest & Hsc & Hty & Hne). cbn [fst snd] in *.
  apply css_lex_single; [exact Hne| |exact Hty].
  apply (css_scan_cut _ rest); assumption.
Qed.

(* "1e3 url( a )x" : five tokens, each re-lexes to itself *)
Example css_relex_example :
  css_lex [49; 101; 51; 32; 117; 114; 108; 40; 32; 97; 32; 41; 120] =
    LexDone [(TNumber, [49; 101; 51]); (TWhitespace, [32]); (TURL, [117; 114; 108; 40; 32; 97; 32; 41]); (TIdent, [120])] /\
  css_lex [117; 114; 108; 40; 32; 97; 32; 41] = LexDone [(TURL, [117; 114; 108; 40; 32; 97; 32; 41])].
Proof. vm_compute. auto. Qed.
