(* Css/Classes.v — token sequences written according to the CSS Syntax token grammar lex to exactly that
   sequence (C07), class by class: for every proved class a maximal-munch lemma
       "a token text of the class, followed by anything its follower condition allows, is returned by
        Next as exactly that token"
   and the sequencing theorem that chains them. *)
From Verif Require Import Common.Base Common.Tactics Common.Lx Css.Model Css.Basics Css.Bounds Css.Proofs Css.Agree Css.Relex.
From Coq Require Import ZifyBool.

(* --- chaining single steps --------------------------------------------------------------------------------- *)
(* Next returns token (ty, t) in front of the rest r *)
Definition munch (ty : ttype) (t r : list Z) : Prop :=
  css_scan (t ++ r ++ [0]) = Some (ty, len t) /\ is_err ty = false /\ t <> [].

Lemma css_next_munch z ty t r : css_inv z -> skipz (lpos z) (lx_data z) = t ++ r -> munch ty t r ->
  css_next z = Some (ty, t, mkLx (lbuf z) (lpos z + len t) (lpos z + len t)) /\
  css_inv (mkLx (lbuf z) (lpos z + len t) (lpos z + len t)) /\
  skipz (lpos z + len t) (lx_data z) = r.
Proof.
  intros H Hs (Hm & Hty & Hne).
  pose proof (suffix_inv z H) as Hsuf. rewrite Hs, <- app_assoc in Hsuf.
  destruct (inv_data z H) as (_ & Hlen & Hp).
  assert (Hlt : 0 < len t) by (destruct t; [congruence|lens; lia]).
  pose proof (len_skipz (lpos z) (lx_data z) ltac:(lia)) as Hl. rewrite Hs, len_app in Hl.
  pose proof (len_nonneg r).
  destruct (css_next_spec z H) as [[E _]|[E (ty' & n & Hsc & _ & Hn1 & Hn2 & Hn)]]; [lia|].
  rewrite Hsuf, Hm in Hsc. assert (ty' = ty) by congruence. assert (n = len t) by congruence. subst ty' n.
  assert (Hsl : slice (lx_data z) (lpos z) (lpos z + len t) = t).
  { unfold slice. replace (lpos z + len t - lpos z) with (len t) by lia. rewrite Hs.
    rewrite firstz_app_l by lia. apply firstz_all. lia. }
  rewrite Hsl in Hn. split; [exact Hn|]. split; [apply inv_after; [exact H|lia|lia]|].
  replace (lpos z + len t) with (len t + lpos z) by lia. rewrite <- skipz_skipz by lia. rewrite Hs.
  unfold skipz, len. rewrite Nat2Z.id. rewrite skipn_app, skipn_all, Nat.sub_diag. reflexivity.
Qed.

Lemma css_lex_from_seq : forall toks fuel z, css_inv z ->
  skipz (lpos z) (lx_data z) = concat (map snd toks) ->
  (forall pre t post, toks = pre ++ t :: post -> munch (fst t) (snd t) (concat (map snd post))) ->
  (length toks < fuel)%nat ->
  css_lex_from fuel z = LexDone toks.
Proof.
  induction toks as [|[ty t] toks IH]; intros fuel z H Hs Hstep Hf.
  - destruct fuel as [|fuel]; [lia|]. cbn [css_lex_from]. cbn [map concat] in Hs.
    destruct (inv_data z H) as (_ & Hlen & Hp).
    assert (lpos z = lx_len z).
    { pose proof (len_skipz (lpos z) (lx_data z) ltac:(lia)) as Hl. rewrite Hs in Hl.
      change (len (@nil Z)) with 0 in Hl. lia. }
    destruct (css_eof_sticky_proof z H) as [He _]. rewrite (He H0). reflexivity.
  - destruct fuel as [|fuel]; [cbn in Hf; lia|]. cbn [css_lex_from]. cbn [map concat snd] in Hs.
    pose proof (Hstep [] (ty, t) toks eq_refl) as Hm. cbn [fst snd] in Hm.
    destruct (css_next_munch z ty t _ H Hs Hm) as (Hn & Hi & Hr). rewrite Hn.
    destruct Hm as (_ & Hty & _). rewrite Hty.
    rewrite (IH fuel _ Hi); [reflexivity| |  |cbn [length] in Hf; lia].
    + cbn [lpos lx_data lbuf lx_len] in *. exact Hr.
    + intros pre t' post ->. apply (Hstep ((ty, t) :: pre) t' post). reflexivity.
Qed.

Lemma length_le_concat (toks : list (ttype * list Z)) :
  Forall (fun t => snd t <> []) toks -> (length toks <= length (concat (map snd toks)))%nat.
Proof.
  induction 1 as [|[ty t] toks Hne _ IH]; cbn [map concat length snd] in *; [lia|].
  rewrite app_length. destruct t; [congruence|]. cbn [length]. lia.
Qed.

(* if every token is munched in front of the tokens that follow it, lexing the concatenation gives the list *)
Lemma css_lex_seq toks :
  (forall pre t post, toks = pre ++ t :: post -> munch (fst t) (snd t) (concat (map snd post))) ->
  css_lex (concat (map snd toks)) = LexDone toks.
Proof.
  intros Hstep. unfold css_lex. apply css_lex_from_seq.
  - apply css_inv_init.
  - destruct (lx_init_data (concat (map snd toks))) as (Hd & _). rewrite Hd. reflexivity.
  - exact Hstep.
  - assert (Forall (fun t => snd t <> []) toks).
    { rewrite Forall_forall. intros t Hin. destruct (in_split _ _ Hin) as (pre & post & ->).
      destruct (Hstep pre t post eq_refl) as (_ & _ & Hne). exact Hne. }
    pose proof (length_le_concat toks H). lia.
Qed.

(* --- class: whitespace ---------------------------------------------------------------------------------------- *)
Definition all_b (P : Z -> bool) (t : list Z) : Prop := Forall (fun c => P c = true) t.

Lemma hd0_app_sent r : hd0 (r ++ [0]) = hd0 r.
Proof. destruct r; reflexivity. Qed.

Lemma scan_while_run P a r : all_b P a -> P (hd0 r) = false -> P 0 = false ->
  scan_while P (a ++ r ++ [0]) = Some (len a).
Proof.
  intros Ha Hr H0. destruct r as [|c r]; cbn [app hd0] in *; apply scan_while_app; assumption.
Qed.

Lemma munch_ws t r : t <> [] -> all_b is_ws t -> is_ws (hd0 r) = false -> munch TWhitespace t r.
Proof.
  intros Hne Ht Hr. split; [|split; [reflexivity|exact Hne]].
  destruct t as [|c t]; [congruence|]. inversion Ht as [|? ? Hc Ht']; subst.
  unfold css_scan. cbn [app]. rewrite peekz_0. cbn [option_bind]. rewrite Hc. cbn [tl].
  rewrite (scan_while_run is_ws t r Ht' Hr eq_refl). cbn [option_bind]. rewrite len_cons. reflexivity.
Qed.

(* --- class: punctuation, brackets, match operators, column, CDO, CDC (fixed texts, any follower) ---------------- *)
Definition fixed_tokens : list (ttype * list Z) :=
  [ (TColon, [58]); (TSemicolon, [59]); (TComma, [44]);
    (TLeftParenthesis, [40]); (TRightParenthesis, [41]); (TLeftBracket, [91]); (TRightBracket, [93]);
    (TLeftBrace, [123]); (TRightBrace, [125]);
    (TIncludeMatch, [126; 61]); (TDashMatch, [124; 61]); (TPrefixMatch, [94; 61]); (TSuffixMatch, [36; 61]);
    (TSubstringMatch, [42; 61]); (TColumn, [124; 124]); (TCDO, [60; 33; 45; 45]); (TCDC, [45; 45; 62]) ].

Ltac scan_fixed :=
  unfold css_scan; cbn [app]; rewrite peekz_0; cbn [option_bind];
  repeat dec1;
  unfold consume_bracket, consume_match, consume_column, consume_cdo, consume_cdc, or_delim, pos_tok;
  repeat first [ rewrite peekz_0 | rewrite peekz_1 | rewrite peekz_2 | rewrite peekz_3 ];
  cbn [option_bind]; repeat dec1; cbn [option_bind fst snd is_err negb];
  repeat first [ rewrite peekz_0 | rewrite peekz_1 | rewrite peekz_2 | rewrite peekz_3 ];
  cbn [option_bind]; repeat dec1; cbn [option_bind fst snd is_err negb].

Lemma munch_fixed ty t r : In (ty, t) fixed_tokens -> munch ty t r.
Proof.
  intros Hin. unfold fixed_tokens in Hin. cbn [In] in Hin.
  repeat (destruct Hin as [Hin|Hin]; [apply pair_eq_inv in Hin; destruct Hin as [<- <-];
    (split; [|split; [reflexivity|discriminate]]); scan_fixed; reflexivity|]).
  contradiction.
Qed.

(* --- class: comment ------------------------------------------------------------------------------------------- *)
(* the comment body does not contain the terminator *)
Fixpoint no_close (b : list Z) : bool :=
  match b with
  | c :: t => match t with c1 :: _ => negb ((c =? 42) && (c1 =? 47)) | [] => true end && no_close t
  | [] => true
  end.

Lemma comment_loop_run body r : no_close body = true ->
  comment_loop (body ++ 42 :: 47 :: r) = Some (len body + 2).
Proof.
  induction body as [|c t IH]; intros H; cbn [app].
  - rewrite comment_loop_cons. cbn [Z.eqb andb]. cbv beta iota. rewrite peekz_0. reflexivity.
  - rewrite comment_loop_cons.
    replace (eofb (c :: t ++ 42 :: 47 :: r)) with false by (destruct t; reflexivity). rewrite andb_false_r.
    cbn [no_close] in H. apply andb_true_iff in H. destruct H as [H1 H2]. specialize (IH H2).
    destruct (c =? 42) eqn:E.
    + destruct t as [|c1 t]; cbn [app] in *; rewrite peekz_0; cbn [option_bind].
      * change (42 =? 47) with false. cbv beta iota. rewrite IH. cbn [bump]. rewrite len_cons. f_equal; lia.
      * replace (c1 =? 47) with false by (destruct (c1 =? 47); [discriminate H1|reflexivity]).
        rewrite IH. cbn [bump]. rewrite !len_cons. f_equal; lia.
    + rewrite IH. cbn [bump]. rewrite len_cons. f_equal; lia.
Qed.

Lemma munch_comment body r : no_close body = true -> munch TComment (47 :: 42 :: body ++ [42; 47]) r.
Proof.
  intros H. split; [|split; [reflexivity|discriminate]].
  unfold css_scan. cbn [app]. rewrite peekz_0. cbn [option_bind]. repeat dec1.
  unfold consume_comment. rewrite peekz_0, peekz_1, peekz_0. cbn [option_bind]. repeat dec1. rewrite skipz_2.
  rewrite <- app_assoc. cbn [app]. rewrite (comment_loop_run body (r ++ [0]) H). cbn [option_bind].
  unfold pos_tok. rewrite !len_cons, len_app. change (len [42; 47]) with 2. pose proof (len_nonneg body).
  replace (0 <? 2 + (len body + 2)) with true by lia. f_equal; f_equal; lia.
Qed.

(* a comment that is not closed before the end of the input *)
Lemma comment_loop_eof body : no_close body = true -> comment_loop (body ++ [0]) = Some (len body).
Proof.
  intros H. induction body as [|c t IH]; cbn [app].
  - reflexivity.
  - rewrite comment_loop_cons, eofb_cons_sent, andb_false_r.
    cbn [no_close] in H. apply andb_true_iff in H. destruct H as [H1 H2]. specialize (IH H2).
    destruct (c =? 42) eqn:E.
    + rewrite peekz_sent_0. cbn [option_bind]. destruct t as [|c1 t]; cbn [hd0 app] in *.
      * change (0 =? 47) with false. cbv beta iota. rewrite IH. cbn [bump]. rewrite len_cons. f_equal; lia.
      * replace (c1 =? 47) with false by (destruct (c1 =? 47); [discriminate H1|reflexivity]).
        rewrite IH. cbn [bump]. rewrite !len_cons. f_equal; lia.
    + rewrite IH. cbn [bump]. rewrite len_cons. f_equal; lia.
Qed.

Lemma munch_comment_eof body : no_close body = true -> munch TComment (47 :: 42 :: body) [].
Proof.
  intros H. split; [|split; [reflexivity|discriminate]].
  unfold css_scan. cbn [app]. rewrite peekz_0. cbn [option_bind]. repeat dec1.
  unfold consume_comment. rewrite peekz_0, peekz_1, peekz_0. cbn [option_bind]. repeat dec1. rewrite skipz_2.
  rewrite (comment_loop_eof body H). cbn [option_bind].
  unfold pos_tok. rewrite !len_cons. pose proof (len_nonneg body).
  replace (0 <? 2 + len body) with true by lia. f_equal; f_equal; lia.
Qed.

Lemma skipz_len_app {A} (t x : list A) : skipz (len t) (t ++ x) = x.
Proof. unfold skipz, len. rewrite Nat2Z.id. rewrite skipn_app, skipn_all, Nat.sub_diag. reflexivity. Qed.

Lemma firstz_len_app {A} (t x : list A) : firstz (len t) (t ++ x) = t.
Proof. unfold firstz, len. rewrite Nat2Z.id. rewrite firstn_app, firstn_all, Nat.sub_diag. cbn. apply app_nil_r. Qed.

(* --- escapes (CSS Syntax "escape" diagram) ------------------------------------------------------------------- *)
(* An escape text e comes with a condition nb on what follows it (only its first byte matters, and for a UTF-8
   sequence cut short whether anything follows at all): a hex escape without its optional
   terminating whitespace must not be followed by whitespace (which it would swallow) nor, if shorter than six
   digits, by another hex digit.  The terminating whitespace is one byte, or CR LF (one whitespace, fix 2cdd145);
   a lone CR must therefore not be followed by LF. *)
Definition any_next (r : list Z) : bool := true.
Definition not_ws_next (r : list Z) : bool := negb (is_ws (hd0 r)).
Definition not_hex_ws_next (r : list Z) : bool := negb (is_hex (hd0 r)) && negb (is_ws (hd0 r)).
Definition not_lf_next (r : list Z) : bool := negb (hd0 r =? 10).
Definition at_end (r : list Z) : bool := match r with [] => true | _ => false end.
Definition rune_need (c : Z) : Z := if c <? 224 then 2 else if c <? 240 then 3 else 4.

Inductive esc_text : list Z -> (list Z -> bool) -> Prop :=
| Esc_char c : is_hex c = false -> is_nl c = false -> c < 192 -> esc_text [92; c] any_next
| Esc_rune c cont : 192 <= c -> len cont = rune_need c - 1 -> esc_text (92 :: c :: cont) any_next
| Esc_rune_cut c cont : 192 <= c -> len cont < rune_need c - 1 -> esc_text (92 :: c :: cont) at_end
| Esc_hex_ws h w : all_b is_hex h -> 1 <= len h <= 6 -> is_ws w = true -> w <> 13 -> esc_text (92 :: h ++ [w]) any_next
| Esc_hex_crlf h : all_b is_hex h -> 1 <= len h <= 6 -> esc_text (92 :: h ++ [13; 10]) any_next
| Esc_hex_cr h : all_b is_hex h -> 1 <= len h <= 6 -> esc_text (92 :: h ++ [13]) not_lf_next
| Esc_hex6 h : all_b is_hex h -> len h = 6 -> esc_text (92 :: h) not_ws_next
| Esc_hex h : all_b is_hex h -> 1 <= len h < 6 -> esc_text (92 :: h) not_hex_ws_next.

Lemma esc_text_bs e nb : esc_text e nb -> exists e', e = 92 :: e' /\ 1 <= len e'.
Proof.
  intros [c _ _ _|c cont Hc Hl|c cont Hc Hl|h w _ Hl _ _|h _ Hl|h _ Hl|h _ Hl|h _ Hl]; eexists; (split; [reflexivity|]).
  - lens; lia.
  - lens; lia.
  - pose proof (len_nonneg cont). lens; lia.
  - rewrite len_app. change (len [w]) with 1. lia.
  - rewrite len_app. change (len [13; 10]) with 2. lia.
  - rewrite len_app. change (len [13]) with 1. lia.
  - lia.
  - lia.
Qed.

Lemma hex_upto_run : forall n a X, all_b is_hex a -> len a <= Z.of_nat n ->
  (len a < Z.of_nat n -> is_hex (hd0 X) = false) -> hex_upto n (a ++ X ++ [0]) = Some (len a).
Proof.
  induction n as [|n IH]; intros a X Ha Hl Hx.
  - destruct a; [reflexivity|lens; lia].
  - cbn [hex_upto]. unfold consume_hexdigit. destruct a as [|c a].
    + cbn [app]. rewrite peekz_sent_0. cbn [option_bind]. rewrite Hx by (lens; lia). reflexivity.
    + inversion Ha as [|? ? Hc Ha']; subst. cbn [app]. rewrite peekz_0. cbn [option_bind]. rewrite Hc.
      cbn [Z.ltb Z.compare tl]. rewrite IH; [cbn [bump]; rewrite len_cons; reflexivity|exact Ha'|lens; lia|].
      intros H. apply Hx. lens. lia.
Qed.

Lemma hex_not_nl c : is_hex c = true -> ((c =? 10) || (c =? 12)) = false /\ (c =? 13) = false /\ is_ws c = false.
Proof. intros H. cls. lia. Qed.

Lemma escape_ws_one w x : is_ws w = true -> w <> 13 -> escape_ws (w :: x) = Some 1.
Proof.
  intros Hw H13. unfold escape_ws, consume_newline, consume_whitespace. rewrite !peekz_0. cbn [option_bind].
  replace (w =? 13) with false by lia. destruct ((w =? 10) || (w =? 12)); cbn [option_bind Z.ltb Z.compare]; [reflexivity|].
  rewrite Hw. reflexivity.
Qed.
Lemma escape_ws_crlf x : escape_ws (13 :: 10 :: x) = Some 2.
Proof. unfold escape_ws, consume_newline. rewrite peekz_0, peekz_1, peekz_0. reflexivity. Qed.
Lemma escape_ws_cr r : hd0 r <> 10 -> escape_ws (13 :: r ++ [0]) = Some 1.
Proof.
  intros H. unfold escape_ws, consume_newline. rewrite peekz_0, peekz_1, peekz_sent_0. cbn [option_bind Z.eqb Pos.eqb orb].
  replace (hd0 r =? 10) with false by lia. reflexivity.
Qed.
Lemma escape_ws_none r : is_ws (hd0 r) = false -> escape_ws (r ++ [0]) = Some 0.
Proof.
  intros H. unfold escape_ws, consume_newline, consume_whitespace. rewrite !peekz_sent_0. cbn [option_bind].
  replace ((hd0 r =? 10) || (hd0 r =? 12)) with false by (revert H; cls; lia).
  replace (hd0 r =? 13) with false by (revert H; cls; lia). cbn [option_bind Z.ltb Z.compare]. rewrite H. reflexivity.
Qed.

Lemma escape_run e nb r : esc_text e nb -> nb r = true -> consume_escape (e ++ r ++ [0]) = Some (len e).
Proof.
  intros He Hnb. unfold consume_escape.
  destruct He as [c Hh Hn Hc|c cont Hc Hl|c cont Hc Hl|h w Hh Hl Hw Hw13|h Hh Hl|h Hh Hl|h Hh Hl|h Hh Hl]; cbn [app]; rewrite peekz_0; cbn [option_bind negb Z.eqb Pos.eqb tl].
  - unfold consume_newline, consume_hexdigit. rewrite !peekz_0. cbn [option_bind].
    replace ((c =? 10) || (c =? 12)) with false by (cls; lia). replace (c =? 13) with false by (cls; lia).
    cbn [option_bind Z.ltb Z.compare]. rewrite Hh. cbn [Z.ltb Z.compare]. replace (192 <=? c) with false by lia.
    rewrite eofb_cons_sent, andb_false_r. reflexivity.
  - unfold consume_newline, consume_hexdigit. rewrite !peekz_0. cbn [option_bind].
    replace ((c =? 10) || (c =? 12)) with false by lia. replace (c =? 13) with false by lia.
    cbn [option_bind Z.ltb Z.compare]. replace (is_hex c) with false by (cls; lia). cbn [Z.ltb Z.compare].
    replace (192 <=? c) with true by lia. rewrite rune_len_val. cbn [option_bind].
    rewrite !len_app. change (len [0]) with 1. pose proof (len_nonneg r). unfold rune_need in Hl.
    rewrite !len_cons. f_equal.
    destruct (c <? 224) eqn:E1; destruct (c <? 240) eqn:E2;
      replace (c <? 192) with false by lia; cbn [orb];
      repeat match goal with |- context [?a <? ?b] => let v := fresh in destruct (a <? b) eqn:v; try lia end; cbn [orb]; lia.
  - destruct r as [|r0 r]; [|discriminate Hnb]. cbn [app].
    unfold consume_newline, consume_hexdigit. rewrite !peekz_0. cbn [option_bind].
    replace ((c =? 10) || (c =? 12)) with false by lia. replace (c =? 13) with false by lia.
    cbn [option_bind Z.ltb Z.compare]. replace (is_hex c) with false by (cls; lia). cbn [Z.ltb Z.compare].
    replace (192 <=? c) with true by lia. rewrite rune_len_val. cbn [option_bind].
    rewrite !len_app. change (len [0]) with 1. pose proof (len_nonneg cont). unfold rune_need in Hl.
    rewrite !len_cons. f_equal.
    destruct (c <? 224) eqn:E1; destruct (c <? 240) eqn:E2;
      replace (c <? 192) with false by lia; cbn [orb];
      repeat match goal with |- context [?a <? ?b] => let v := fresh in destruct (a <? b) eqn:v; try lia end; cbn [orb]; lia.
  - destruct h as [|h0 h]; [lens; lia|]. inversion Hh as [|? ? Hh0 Hh']; subst. cbn [app].
    destruct (hex_not_nl h0 Hh0) as (Hn1 & Hn2 & _).
    unfold consume_newline, consume_hexdigit. rewrite !peekz_0. cbn [option_bind]. rewrite Hn1, Hn2.
    cbn [option_bind Z.ltb Z.compare]. rewrite Hh0. cbn [Z.ltb Z.compare tl].
    rewrite <- app_assoc. cbn [app].
    replace (h ++ w :: r ++ [0]) with (h ++ (w :: r) ++ [0]) by reflexivity.
    rewrite (hex_upto_run 5 h (w :: r) Hh') by (try (intros _; cbn [hd0]; cls; lia); lens; lia).
    cbn [option_bind]. rewrite skipz_len_app. cbn [app]. rewrite (escape_ws_one w _ Hw Hw13). cbn [option_bind].
    rewrite !len_cons, len_app. change (len [w]) with 1. f_equal. lia.
  - destruct h as [|h0 h]; [lens; lia|]. inversion Hh as [|? ? Hh0 Hh']; subst. cbn [app].
    destruct (hex_not_nl h0 Hh0) as (Hn1 & Hn2 & _).
    unfold consume_newline, consume_hexdigit. rewrite !peekz_0. cbn [option_bind]. rewrite Hn1, Hn2.
    cbn [option_bind Z.ltb Z.compare]. rewrite Hh0. cbn [Z.ltb Z.compare tl].
    rewrite <- app_assoc. cbn [app].
    replace (h ++ 13 :: 10 :: r ++ [0]) with (h ++ (13 :: 10 :: r) ++ [0]) by reflexivity.
    rewrite (hex_upto_run 5 h (13 :: 10 :: r) Hh') by (try (intros _; reflexivity); lens; lia).
    cbn [option_bind]. rewrite skipz_len_app. cbn [app]. rewrite escape_ws_crlf. cbn [option_bind].
    rewrite !len_cons, len_app. change (len [13; 10]) with 2. f_equal. lia.
  - destruct h as [|h0 h]; [lens; lia|]. inversion Hh as [|? ? Hh0 Hh']; subst. cbn [app].
    destruct (hex_not_nl h0 Hh0) as (Hn1 & Hn2 & _).
    unfold consume_newline, consume_hexdigit. rewrite !peekz_0. cbn [option_bind]. rewrite Hn1, Hn2.
    cbn [option_bind Z.ltb Z.compare]. rewrite Hh0. cbn [Z.ltb Z.compare tl].
    rewrite <- app_assoc. cbn [app].
    replace (h ++ 13 :: r ++ [0]) with (h ++ (13 :: r) ++ [0]) by reflexivity.
    rewrite (hex_upto_run 5 h (13 :: r) Hh') by (try (intros _; reflexivity); lens; lia).
    cbn [option_bind]. rewrite skipz_len_app. cbn [app].
    unfold not_lf_next in Hnb. apply negb_true_iff in Hnb. rewrite escape_ws_cr by lia. cbn [option_bind].
    rewrite !len_cons, len_app. change (len [13]) with 1. f_equal. lia.
  - destruct h as [|h0 h]; [lens; lia|]. inversion Hh as [|? ? Hh0 Hh']; subst. cbn [app].
    destruct (hex_not_nl h0 Hh0) as (Hn1 & Hn2 & _).
    unfold consume_newline, consume_hexdigit. rewrite !peekz_0. cbn [option_bind]. rewrite Hn1, Hn2.
    cbn [option_bind Z.ltb Z.compare]. rewrite Hh0. cbn [Z.ltb Z.compare tl].
    rewrite (hex_upto_run 5 h r Hh') by (lens; lia).
    cbn [option_bind]. rewrite skipz_len_app.
    unfold not_ws_next in Hnb. apply negb_true_iff in Hnb. rewrite (escape_ws_none r Hnb). cbn [option_bind].
    rewrite !len_cons. f_equal. lia.
  - destruct h as [|h0 h]; [lens; lia|]. inversion Hh as [|? ? Hh0 Hh']; subst. cbn [app].
    destruct (hex_not_nl h0 Hh0) as (Hn1 & Hn2 & _).
    unfold not_hex_ws_next in Hnb. apply andb_true_iff in Hnb. destruct Hnb as [Hb1 Hb2].
    apply negb_true_iff in Hb1. apply negb_true_iff in Hb2.
    unfold consume_newline, consume_hexdigit. rewrite !peekz_0. cbn [option_bind]. rewrite Hn1, Hn2.
    cbn [option_bind Z.ltb Z.compare]. rewrite Hh0. cbn [Z.ltb Z.compare tl].
    rewrite (hex_upto_run 5 h r Hh') by (try (intros _; exact Hb1); lens; lia).
    cbn [option_bind]. rewrite skipz_len_app. rewrite (escape_ws_none r Hb2). cbn [option_bind].
    rewrite !len_cons. f_equal. lia.
Qed.

Lemma escape_fail r : r = [] \/ is_nl (hd0 r) = true -> consume_escape (92 :: r ++ [0]) = Some 0.
Proof.
  intros Hf. unfold consume_escape. rewrite peekz_0. cbn [option_bind negb Z.eqb Pos.eqb tl].
  destruct Hf as [->|Hnl]; [reflexivity|].
  destruct r as [|x r]; [discriminate Hnl|]. cbn [hd0 app] in *.
  destruct (consume_newline_ok (x :: r)) as (n & Hn & _). cbn [app] in Hn. rewrite Hn. cbn [option_bind].
  rewrite (newline_pos _ _ _ Hn), Hnl. reflexivity.
Qed.

(* a backslash that starts no escape: before a line break or the end of the input *)
Definition dead_bs (r : list Z) : Prop := hd0 r = 92 -> tl r = [] \/ is_nl (hd0 (tl r)) = true.

Lemma dead_bs_step r : dead_bs r -> (hd0 r =? 92) = true -> consume_escape (r ++ [0]) = Some 0.
Proof.
  intros H E. destruct r as [|c r]; [discriminate E|]. cbn [hd0 tl] in *. assert (c = 92) by lia. subst c.
  apply (escape_fail r). apply H. reflexivity.
Qed.

Lemma dead_bs_not r : hd0 r <> 92 -> dead_bs r.
Proof. intros H E. congruence. Qed.

(* --- class: identifiers, custom properties, functions, at-keywords, hashes -------------------------------------- *)
(* a name body t followed by r: name bytes and escapes, every escape followed by a byte it tolerates *)
Inductive nbody : list Z -> list Z -> Prop :=
| NB_nil r : nbody [] r
| NB_char c t r : ident_char c = true -> nbody t r -> nbody (c :: t) r
| NB_esc e nb t r : esc_text e nb -> nb (t ++ r) = true -> nbody t r -> nbody (e ++ t) r.

Lemma all_b_nbody a r : all_b ident_char a -> nbody a r.
Proof. induction 1; constructor; assumption. Qed.

(* the first item of a name: a name-start byte or an escape *)
Inductive ident_core : list Z -> list Z -> Prop :=
| IC_char c rest r : ident_start c = true -> nbody rest r -> ident_core (c :: rest) r
| IC_esc e nb rest r : esc_text e nb -> nb (rest ++ r) = true -> nbody rest r -> ident_core (e ++ rest) r.
Inductive ident_text : list Z -> list Z -> Prop :=
| IT_core t r : ident_core t r -> ident_text t r
| IT_dash t r : ident_core t r -> ident_text (45 :: t) r.
Inductive custom_text : list Z -> list Z -> Prop :=
| IT_custom rest r : nbody rest r -> custom_text (45 :: 45 :: rest) r.

(* the follower of a name: not a name byte and not the backslash of an escape *)
Definition name_follow (r : list Z) : Prop := ident_char (hd0 r) = false /\ dead_bs r.

Lemma ident_loop_skipn : forall a l, ident_loop (a ++ l) (length a) =
  match ident_loop l 0 with Some n => Some (len a + n) | None => None end.
Proof.
  induction a as [|x a IH]; intros l; cbn [app length].
  - change (len (@nil Z)) with 0. destruct (ident_loop l 0); reflexivity.
  - rewrite ident_loop_skip, IH. destruct (ident_loop l 0); cbn [bump]; [|reflexivity]. rewrite len_cons. f_equal; lia.
Qed.

Lemma ident_loop_run t r : nbody t r -> name_follow r -> ident_loop (t ++ r ++ [0]) 0 = Some (len t).
Proof.
  intros Ht [Hr1 Hr2]. induction Ht as [r|c t r Hc Ht IH|e nb t r He Hnb Ht IH].
  - cbn [app]. destruct r as [|c r]; cbn [app hd0] in *; rewrite ident_loop_0.
    + reflexivity.
    + rewrite Hr1. destruct (c =? 92) eqn:E92; [|reflexivity].
      pose proof (dead_bs_step (c :: r) Hr2 E92) as He. cbn [app] in He. rewrite He. reflexivity.
  - cbn [app]. rewrite ident_loop_0, Hc, (IH Hr1 Hr2). cbn [bump]. rewrite len_cons. reflexivity.
  - destruct (esc_text_bs e nb He) as (e' & -> & He').
    pose proof (escape_run _ _ (t ++ r) He Hnb) as Hesc. rewrite <- !app_assoc in *. cbn [app] in *.
    rewrite ident_loop_0. change (ident_char 92) with false. change (92 =? 92) with true. cbv beta iota.
    rewrite Hesc. cbn [option_bind]. rewrite len_cons. replace (0 <? 1 + len e') with true by lia.
    replace (Z.to_nat (1 + len e' - 1)) with (length e') by (unfold len; lia).
    rewrite ident_loop_skipn, (IH Hr1 Hr2). cbn [bump]. rewrite !len_cons, len_app. f_equal; lia.
Qed.

Lemma ident_core_len t r : ident_core t r -> 0 < len t.
Proof.
  intros [c rest r0 _ _|e nb rest r0 He _ _]; [lens; lia|]. destruct (esc_text_bs _ _ He) as (e' & -> & Hl).
  rewrite len_app, len_cons. pose proof (len_nonneg rest). lia.
Qed.

Lemma ident_text_len t r : ident_text t r -> 0 < len t.
Proof. intros [t0 r0 H|t0 r0 H]; pose proof (ident_core_len _ _ H); lens; lia. Qed.

(* consumeIdentToken after p bytes ('-' or nothing), on a name core *)
Lemma ident_tail_core p pre t r : len pre = p -> ident_core t r -> name_follow r ->
  ident_tail p false (pre ++ t ++ r ++ [0]) = Some (p + len t).
Proof.
  intros Hp Hc Hr. unfold ident_tail. rewrite <- Hp, skipz_len_app.
  destruct Hc as [c rest r Hc Hrest|e nb rest r He Hnb Hrest].
  - cbn [app]. rewrite peekz_0. cbn [option_bind]. rewrite Hc. cbn [tl].
    rewrite (ident_loop_run _ _ Hrest Hr). cbn [option_bind]. rewrite len_cons. f_equal; lia.
  - destruct (esc_text_bs e nb He) as (e' & Ee & He').
    pose proof (escape_run _ _ (rest ++ r) He Hnb) as Hesc. rewrite <- !app_assoc in *.
    rewrite Ee at 1. cbn [app]. rewrite peekz_0. cbn [option_bind]. change (ident_start 92) with false.
    change (92 =? 92) with true. cbv beta iota. rewrite Hesc. cbn [option_bind].
    replace (0 <? len e) with true by (rewrite Ee, len_cons; lia).
    rewrite skipz_len_app, (ident_loop_run _ _ Hrest Hr). cbn [option_bind]. rewrite len_app. f_equal; lia.
Qed.

Lemma ident_core_hd t r : ident_core t r -> ident_start (hd0 t) = true \/ hd0 t = 92.
Proof.
  intros [c rest r0 Hc _|e nb rest r0 He _ _]; [left; exact Hc|right].
  destruct (esc_text_bs _ _ He) as (e' & -> & _). reflexivity.
Qed.

Lemma nbody_hd t r : nbody t r -> t = [] \/ ident_char (hd0 t) = true \/ hd0 t = 92.
Proof.
  intros [r0|c t0 r0 Hc _|e nb t0 r0 He _ _]; [auto|right; left; exact Hc|right; right].
  destruct (esc_text_bs _ _ He) as (e' & -> & _). reflexivity.
Qed.

Lemma ident_token_run t r : ident_text t r \/ custom_text t r -> name_follow r ->
  consume_ident_token (t ++ r ++ [0]) = Some (len t).
Proof.
  intros Ht. unfold consume_ident_token.
  destruct Ht as [[t0 r0 Hc|t0 r0 Hc]|[rest r0 Hrest]]; intros Hr.
  - destruct (ident_core_hd _ _ Hc) as [Hh|Hh]; destruct t0 as [|c0 t0]; try (apply ident_core_len in Hc; lens; lia);
      cbn [hd0 app] in *; rewrite peekz_0; cbn [option_bind]; replace (c0 =? 45) with false by (cls; lia);
      apply (ident_tail_core 0 [] (c0 :: t0) r0 eq_refl Hc Hr).
  - cbn [app]. rewrite peekz_0, peekz_1. cbn [option_bind]. change (45 =? 45) with true. cbv beta iota.
    destruct t0 as [|c0 t0]; [apply ident_core_len in Hc; lens; lia|]. cbn [app]. rewrite peekz_0. cbn [option_bind].
    replace (c0 =? 45) with false by (destruct (ident_core_hd _ _ Hc) as [Hh|Hh]; cbn [hd0] in Hh; cls; lia).
    rewrite (len_cons 45). apply (ident_tail_core 1 [45] (c0 :: t0) r0 eq_refl Hc Hr).
  - cbn [app]. rewrite peekz_0, peekz_1, peekz_0. cbn [option_bind]. change (45 =? 45) with true. cbv beta iota.
    unfold ident_tail. rewrite skipz_2. rewrite (ident_loop_run _ _ Hrest Hr). cbn [option_bind]. rewrite !len_cons. f_equal; lia.
Qed.

Lemma identlike_ident_run t r : ident_text t r -> name_follow r -> hd0 r <> 40 ->
  consume_identlike (t ++ r ++ [0]) = Some (TIdent, len t).
Proof.
  intros Ht Hr H40. unfold consume_identlike. rewrite (ident_token_run t r (or_introl Ht) Hr). cbn [option_bind].
  pose proof (ident_text_len t r Ht). replace (len t =? 0) with false by lia.
  rewrite skipz_len_app. rewrite peekz_sent_0. cbn [option_bind].
  replace (hd0 r =? 40) with false by lia. reflexivity.
Qed.

(* "u" / "U" directly followed by "+" starts a unicode range unless what follows the "+" fails to be one: h = the hex
   digits, then either "-" (no or more than six digits before it, or no or more than six after it), or the "?" run q
   (no digit or "?" at all, or more than six of them).  The lexer then returns the identifier "u" on its own. *)
Inductive range_fails : list Z -> Prop :=
| RF_dash h h2 y3 : all_b is_hex h -> all_b is_hex h2 -> is_hex (hd0 y3) = false ->
    (len h = 0 \/ 6 < len h \/ len h2 = 0 \/ 6 < len h2) -> range_fails (h ++ 45 :: h2 ++ y3)
| RF_q h q y3 : all_b is_hex h -> all_b is_qmark q -> (q = [] -> is_hex (hd0 y3) = false /\ hd0 y3 <> 45) -> hd0 y3 <> 63 ->
    (len h + len q = 0 \/ 6 < len h + len q) -> range_fails (h ++ q ++ y3).

Lemma urange_fail c x : (c =? 117) || (c =? 85) = true -> range_fails x -> consume_unicode_range (c :: 43 :: x ++ [0]) = Some 0.
Proof.
  intros Eu Hx. unfold consume_unicode_range. rewrite peekz_0, peekz_1, peekz_0. cbn [option_bind]. rewrite Eu.
  change (43 =? 43) with true. cbn [negb]. rewrite skipz_2.
  destruct Hx as [h h2 y3 Hh Hh2 Hy Hl|h q y3 Hh Hq Hq0 Hy Hl].
  - rewrite <- app_assoc. cbn [app].
    change (h ++ 45 :: (h2 ++ y3) ++ [0]) with (h ++ (45 :: h2 ++ y3) ++ [0]).
    rewrite (scan_while_run is_hex h (45 :: h2 ++ y3) Hh eq_refl eq_refl). cbn [option_bind]. rewrite skipz_len_app.
    unfold consume_byte. cbn [app]. rewrite peekz_0. cbn [option_bind Z.eqb Pos.eqb Z.ltb Z.compare]. cbv beta iota.
    destruct ((len h =? 0) || (6 <? len h)) eqn:E1; [reflexivity|]. cbn [tl]. rewrite <- app_assoc.
    rewrite (scan_while_run is_hex h2 y3 Hh2 Hy eq_refl). cbn [option_bind].
    replace ((len h2 =? 0) || (6 <? len h2)) with true by lia. reflexivity.
  - rewrite <- !app_assoc.
    replace (h ++ q ++ y3 ++ [0]) with (h ++ (q ++ y3) ++ [0]) by (rewrite <- app_assoc; reflexivity).
    assert (Hnh : is_hex (hd0 (q ++ y3)) = false /\ hd0 (q ++ y3) <> 45).
    { destruct q as [|q0 q]; [apply Hq0; reflexivity|]. inversion Hq; subst. cbn [app hd0]. cls. lia. }
    destruct Hnh as [Hnh Hn45].
    rewrite (scan_while_run is_hex h (q ++ y3) Hh Hnh eq_refl). cbn [option_bind]. rewrite skipz_len_app.
    unfold consume_byte. rewrite peekz_sent_0. cbn [option_bind]. replace (hd0 (q ++ y3) =? 45) with false by lia.
    cbn [Z.ltb Z.compare]. cbv beta iota. rewrite <- app_assoc.
    rewrite (scan_while_run is_qmark q y3 Hq) by (try reflexivity; unfold is_qmark; lia). cbn [option_bind].
    replace ((len h + len q =? 0) || (6 <? len h + len q)) with true by lia. reflexivity.
Qed.

Definition u_follow (t r : list Z) : Prop :=
  match t with
  | [c] => (c =? 117) || (c =? 85) = true -> hd0 r = 43 -> range_fails (tl r)
  | _ => True
  end.

(* Next on a buffer that starts with a name (not "--"): everything before consumeIdentlike fails *)
Lemma scan_via_identlike t x ty n : (exists r, ident_text t r) -> u_follow t x ->
  consume_identlike (t ++ x ++ [0]) = Some (ty, n) -> is_err ty = false -> css_scan (t ++ x ++ [0]) = Some (ty, n).
Proof.
  intros (r & Ht) Hu Hil Hty.
  destruct Ht as [t0 r0 Hc|t0 r0 Hc].
  - destruct (ident_core_hd _ _ Hc) as [Hh|Hh]; destruct t0 as [|c t0]; try (apply ident_core_len in Hc; lens; lia);
      cbn [hd0 app] in *; unfold css_scan; rewrite peekz_0; cbn [option_bind].
    + destruct ((c =? 117) || (c =? 85)) eqn:Eu.
      * repeat dec1.
        assert (Hur : consume_unicode_range (c :: t0 ++ x ++ [0]) = Some 0).
        { unfold consume_unicode_range. rewrite peekz_0, peekz_1. cbn [option_bind]. rewrite Eu. cbn [negb].
          destruct t0 as [|c1 t0]; cbn [app].
          - destruct (hd0 x =? 43) eqn:E43.
            + destruct x as [|x0 x]; [discriminate E43|]. cbn [hd0] in E43. assert (x0 = 43) by lia. subst x0.
              pose proof (urange_fail c x Eu (Hu Eu eq_refl)) as Hf. unfold consume_unicode_range in Hf.
              rewrite peekz_0, peekz_1, peekz_0 in Hf. cbn [option_bind] in Hf. rewrite Eu in Hf. cbn [negb app] in *.
              rewrite peekz_0. cbn [option_bind]. exact Hf.
            + rewrite peekz_sent_0. cbn [option_bind]. rewrite E43. reflexivity.
          - rewrite peekz_0. cbn [option_bind].
            assert (Hb : nbody (c1 :: t0) r0) by (inversion Hc as [? ? ? _ Hb|e nb rest ? He _ _ Ee]; [exact Hb|];
              destruct (esc_text_bs _ _ He) as (e' & -> & _); cbn [app] in Ee; injection Ee as Ec _; cls; lia).
            assert (c1 <> 43) by (destruct (nbody_hd _ _ Hb) as [?|[Hx|Hx]]; [discriminate|cbn [hd0] in Hx; cls; lia|cbn [hd0] in Hx; lia]).
            replace (c1 =? 43) with false by lia. reflexivity. }
        rewrite Hur.
        cbn [option_bind Z.ltb Z.compare]. cbv beta iota. rewrite Hil. cbn [option_bind]. unfold or_delim. cbn [fst]. rewrite Hty. reflexivity.
      * repeat dec1. rewrite numeric_nondigit by (cls; lia). cbn [option_bind fst is_err negb]. rewrite Hil.
        cbn [option_bind]. unfold or_delim. cbn [fst]. rewrite Hty. reflexivity.
    + subst c. repeat dec1. rewrite Hil. cbn [option_bind]. unfold or_delim. cbn [fst]. rewrite Hty. reflexivity.
  - destruct t0 as [|c t0]; [apply ident_core_len in Hc; lens; lia|].
    assert (Hc45 : c <> 45) by (destruct (ident_core_hd _ _ Hc) as [Hh|Hh]; cbn [hd0] in Hh; cls; lia).
    cbn [app] in *. unfold css_scan. rewrite peekz_0. cbn [option_bind]. repeat dec1.
    unfold consume_cdc. rewrite peekz_0, peekz_1, peekz_0. cbn [option_bind]. repeat dec1.
    cbn [option_bind Z.ltb Z.compare]. cbv beta iota.
    unfold consume_custom_variable. rewrite peekz_1, peekz_0. cbn [option_bind]. repeat dec1.
    cbn [option_bind Z.ltb Z.compare]. cbv beta iota. rewrite Hil. cbn [option_bind fst]. rewrite Hty. reflexivity.
Qed.

Lemma munch_ident t r : ident_text t r -> name_follow r -> hd0 r <> 40 -> u_follow t r -> munch TIdent t r.
Proof.
  intros Ht Hr H40 Hu. pose proof (identlike_ident_run t r Ht Hr H40) as Hil.
  split; [|split; [reflexivity|pose proof (ident_text_len _ _ Ht); intros ->; cbn in *; lia]].
  apply scan_via_identlike; [eauto|exact Hu|exact Hil|reflexivity].
Qed.

Lemma munch_custom t r : custom_text t r -> name_follow r -> (t = [45; 45] -> hd0 r <> 62) ->
  munch TCustomPropertyName t r.
Proof.
  intros Ht Hr H62. pose proof (ident_token_run t r (or_intror Ht) Hr) as Hit.
  split; [|split; [reflexivity|destruct Ht; discriminate]].
  inversion Ht as [rest r0 Hrest]; subst. cbn [app] in *.
  unfold css_scan. rewrite peekz_0. cbn [option_bind]. repeat dec1.
  unfold consume_cdc. rewrite peekz_0, peekz_1, peekz_2, peekz_1, peekz_0. cbn [option_bind]. repeat dec1.
  assert (Hp : exists c2, peekz (rest ++ r ++ [0]) 0 = Some c2 /\ c2 <> 62).
  { destruct rest as [|c2 rest]; cbn [app].
    - rewrite peekz_sent_0. eexists; split; [reflexivity|]. apply H62. reflexivity.
    - rewrite peekz_0. eexists; split; [reflexivity|].
      destruct (nbody_hd _ _ Hrest) as [?|[Hx|Hx]]; [discriminate|cbn [hd0] in Hx; cls; lia|cbn [hd0] in Hx; lia]. }
  destruct Hp as (c2 & -> & Hc2). cbn [option_bind]. replace (c2 =? 62) with false by lia.
  cbn [option_bind Z.ltb Z.compare]. cbv beta iota.
  unfold consume_custom_variable. rewrite peekz_1, peekz_0. cbn [option_bind]. repeat dec1. rewrite Hit.
  cbn [option_bind]. replace (0 <? len (45 :: 45 :: rest)) with true by (lens; lia). reflexivity.
Qed.

Lemma name_follow_paren r : name_follow (40 :: r).
Proof. split; [reflexivity|apply dead_bs_not; cbn; lia]. Qed.

Lemma munch_function name r : ident_text name (40 :: r) -> is_url_name name = false -> munch TFunction (name ++ [40]) r.
Proof.
  intros Ht Hurl.
  pose proof (ident_token_run name (40 :: r) (or_introl Ht) (name_follow_paren r)) as Hit.
  pose proof (ident_text_len name _ Ht) as Hlen.
  assert (Hil : consume_identlike (name ++ (40 :: r) ++ [0]) = Some (TFunction, len name + 1)).
  { unfold consume_identlike. rewrite Hit. cbn [option_bind]. replace (len name =? 0) with false by lia.
    rewrite skipz_len_app. cbn [app]. rewrite peekz_0. cbn [option_bind]. change (negb (40 =? 40)) with false.
    cbv beta iota. rewrite firstz_len_app. rewrite Hurl. reflexivity. }
  split; [|split; [reflexivity|destruct name; discriminate]].
  rewrite len_app. change (len [40]) with 1. rewrite <- app_assoc. change ([40] ++ r ++ [0]) with ((40 :: r) ++ [0]).
  apply scan_via_identlike; [eauto| |exact Hil|reflexivity].
  destruct name as [|c [|c1 n]]; try exact I. intros _ H. cbn in H. lia.
Qed.

Lemma munch_at_keyword name r : ident_text name r \/ custom_text name r -> name_follow r ->
  munch TAtKeyword (64 :: name) r.
Proof.
  intros Ht Hr. pose proof (ident_token_run name r Ht Hr) as Hit.
  assert (0 < len name) by (destruct Ht as [Ht|Ht]; [eapply ident_text_len; exact Ht|destruct Ht; lens; lia]).
  split; [|split; [reflexivity|discriminate]].
  unfold css_scan. cbn [app]. rewrite peekz_0. cbn [option_bind]. repeat dec1.
  unfold consume_at_keyword. cbn [tl]. rewrite Hit. cbn [option_bind]. replace (0 <? len name) with true by lia.
  cbn [option_bind]. unfold pos_tok. rewrite len_cons. replace (0 <? 1 + len name) with true by lia. reflexivity.
Qed.

Lemma munch_hash body r : body <> [] -> nbody body r -> name_follow r -> munch THash (35 :: body) r.
Proof.
  intros Hne Hb Hr. split; [|split; [reflexivity|discriminate]].
  pose proof (len_nonneg body) as Hlb.
  unfold css_scan. cbn [app]. rewrite peekz_0. cbn [option_bind]. repeat dec1.
  unfold consume_hash. cbn [tl].
  destruct Hb as [r|c t r Hc Ht|e nb t r He Hnb Ht]; [congruence| |].
  - cbn [app]. rewrite peekz_0. cbn [option_bind]. rewrite Hc. cbn [tl].
    rewrite (ident_loop_run _ _ Ht Hr). cbn [option_bind]. unfold pos_tok. rewrite !len_cons. pose proof (len_nonneg t).
    replace (0 <? 2 + len t) with true by lia. f_equal; f_equal; lia.
  - destruct (esc_text_bs e nb He) as (e' & Ee & He').
    pose proof (escape_run _ _ (t ++ r) He Hnb) as Hesc. rewrite <- !app_assoc in *.
    rewrite Ee at 1. cbn [app]. rewrite peekz_0. cbn [option_bind]. change (ident_char 92) with false.
    change (92 =? 92) with true. cbv beta iota. rewrite Hesc. cbn [option_bind].
    replace (0 <? len e) with true by (rewrite Ee, len_cons; lia).
    rewrite skipz_len_app, (ident_loop_run _ _ Ht Hr). cbn [option_bind]. unfold pos_tok.
    rewrite len_cons, len_app. pose proof (len_nonneg t). pose proof (len_nonneg e).
    replace (0 <? 1 + len e + len t) with true by lia. f_equal; f_equal; lia.
Qed.


(* --- class: number, percentage, dimension (with the "." and "e" back-off) ---------------------------------------- *)
Definition sign_text (s : list Z) : Prop := s = [] \/ s = [43] \/ s = [45].
Definition frac (fd : list Z) : list Z := match fd with [] => [] | _ => 46 :: fd end.
Inductive exp_text : list Z -> Prop :=
| Exp_none : exp_text []
| Exp_some e es ed : e = 101 \/ e = 69 -> sign_text es -> all_b is_digit ed -> ed <> [] -> exp_text (e :: es ++ ed).
(* [+-]? ( digits+ ('.' digits+)? | '.' digits+ ) ( [eE] [+-]? digits+ )? *)
Inductive num_text : list Z -> Prop :=
| NumT sg ip fd ex : sign_text sg -> all_b is_digit ip -> all_b is_digit fd -> (ip <> [] \/ fd <> []) ->
    exp_text ex -> num_text (sg ++ ip ++ frac fd ++ ex).

Definition second (r : list Z) : Z := hd0 (tl r).
Definition third (r : list Z) : Z := hd0 (tl (tl r)).

(* what may follow the digits of a number whose text has (no) fraction / exponent:
   not a digit; a '.' only if it cannot start a fraction; an 'e' only if it cannot start an exponent *)
Definition num_follow (hasfrac hasexp : bool) (r : list Z) : Prop :=
  is_digit (hd0 r) = false /\
  (hd0 r = 46 -> hasfrac = true \/ hasexp = true \/ is_digit (second r) = false) /\
  (hd0 r = 101 \/ hd0 r = 69 -> hasexp = true \/
     (is_digit (second r) = false /\ (is_sign (second r) = true -> is_digit (third r) = false))).

Lemma peekz_app_sent_0 x r : peekz (x ++ r ++ [0]) 0 = Some (hd0 (x ++ r)).
Proof. rewrite app_assoc. apply peekz_sent_0. Qed.

Lemma peekz_sent_1 r : peekz (r ++ [0]) 1 = match r with [] => None | _ :: t => Some (hd0 t) end.
Proof. destruct r as [|c t]; cbn [app]; [reflexivity|]. rewrite peekz_1. apply peekz_sent_0. Qed.

Lemma digits_run a r : all_b is_digit a -> is_digit (hd0 r) = false -> digits (a ++ r ++ [0]) = Some (len a).
Proof. intros Ha Hr. apply scan_while_run; [exact Ha|exact Hr|reflexivity]. Qed.

Lemma all_digit_hd a : all_b is_digit a -> a <> [] -> is_digit (hd0 a) = true.
Proof. intros Ha Hne. destruct a; [congruence|]. inversion Ha; subst. assumption. Qed.

Lemma hd0_app a b : hd0 (a ++ b) = match a with [] => hd0 b | c :: _ => c end.
Proof. destruct a; reflexivity. Qed.

Lemma number_exp_run n0 ex r hf : exp_text ex -> num_follow hf (match ex with [] => false | _ => true end) r ->
  number_exp n0 (ex ++ r ++ [0]) = Some (n0 + len ex).
Proof.
  intros Hex (Hd & Hdot & He). unfold number_exp.
  destruct Hex as [|e es ed Hee Hes Hed Hne].
  - cbn [app]. rewrite peekz_sent_0. cbn [option_bind]. change (len (@nil Z)) with 0. rewrite Z.add_0_r.
    destruct ((hd0 r =? 101) || (hd0 r =? 69)) eqn:E; [|reflexivity].
    destruct He as [He|[He1 He2]]; [lia|discriminate|].
    destruct r as [|c r]; [cbn in E; discriminate|]. cbn [hd0] in *. rewrite peekz_sent_1. cbn [option_bind].
    unfold second, third in *. cbn [tl] in *.
    destruct (is_sign (hd0 r)) eqn:Es.
    + destruct r as [|c1 r]; [cbn in Es; discriminate|]. cbn [hd0 tl] in *.
      cbn [app]. change (1 + 1) with 2. rewrite skipz_2.
      replace (digits (r ++ [0])) with (Some 0).
      2:{ unfold digits. destruct r as [|c2 r]; cbn [app hd0] in *; rewrite scan_while_cons; [reflexivity|].
          rewrite (He2 eq_refl). reflexivity. }
      reflexivity.
    + cbn [app]. rewrite Z.add_0_r, skipz_1.
      replace (digits (r ++ [0])) with (Some 0).
      2:{ unfold digits. destruct r as [|c2 r]; cbn [app hd0] in *; rewrite scan_while_cons; [reflexivity|].
          rewrite He1. reflexivity. }
      reflexivity.
  - cbn [app]. rewrite peekz_0. cbn [option_bind]. replace ((e =? 101) || (e =? 69)) with true by lia.
    rewrite peekz_1. pose proof (all_digit_hd ed Hed Hne) as Hh.
    destruct Hes as [->|[->| ->]]; cbn [app].
    + destruct ed as [|d0 ed]; [congruence|]. cbn [hd0 app] in *. rewrite peekz_0. cbn [option_bind].
      replace (is_sign d0) with false by (cls; lia). rewrite Z.add_0_r, skipz_1.
      change (d0 :: ed ++ r ++ [0]) with ((d0 :: ed) ++ r ++ [0]).
      rewrite (digits_run _ _ Hed Hd). cbn [option_bind]. replace (len (d0 :: ed) =? 0) with false by (lens; lia).
      rewrite !len_cons. f_equal; lia.
    + rewrite peekz_0. cbn [option_bind]. change (is_sign 43) with true. cbv beta iota. change (1 + 1) with 2. rewrite skipz_2.
      rewrite (digits_run _ _ Hed Hd). cbn [option_bind].
      replace (len ed =? 0) with false by (destruct ed; [congruence|lens; lia]).
      rewrite !len_cons. f_equal; lia.
    + rewrite peekz_0. cbn [option_bind]. change (is_sign 45) with true. cbv beta iota. change (1 + 1) with 2. rewrite skipz_2.
      rewrite (digits_run _ _ Hed Hd). cbn [option_bind].
      replace (len ed =? 0) with false by (destruct ed; [congruence|lens; lia]).
      rewrite !len_cons. f_equal; lia.
Qed.

Definition nonemptyb {A} (l : list A) : bool := match l with [] => false | _ => true end.

Lemma number_token_run sg ip fd ex r :
  sign_text sg -> all_b is_digit ip -> all_b is_digit fd -> (ip <> [] \/ fd <> []) -> exp_text ex ->
  num_follow (nonemptyb fd) (nonemptyb ex) r ->
  consume_number_token ((sg ++ ip ++ frac fd ++ ex) ++ r ++ [0]) = Some (len (sg ++ ip ++ frac fd ++ ex)).
Proof.
  intros Hsg Hip Hfd Hne Hex Hfol. pose proof Hfol as (Hd & Hdot & He).
  repeat rewrite <- app_assoc. rewrite !len_app.
  set (X := ip ++ frac fd ++ ex ++ r ++ [0]).
  (* the byte after the integer digits is not a digit *)
  assert (HdX : is_digit (hd0 (frac fd ++ ex ++ r)) = false).
  { destruct fd as [|f0 fd]; [|reflexivity]. cbn [frac app]. destruct Hex as [|e es ed Hee _ _ _]; [exact Hd|].
    cbn [app hd0]. cls. lia. }
  assert (Hdig : digits X = Some (len ip)).
  { subst X. replace (ip ++ frac fd ++ ex ++ r ++ [0]) with (ip ++ (frac fd ++ ex ++ r) ++ [0])
      by (repeat rewrite <- app_assoc; reflexivity). apply digits_run; assumption. }
  assert (HX0 : exists c0, peekz X 0 = Some c0 /\ is_sign c0 = false).
  { subst X. destruct ip as [|i0 ip].
    - destruct Hne as [Hne|Hne]; [congruence|]. destruct fd as [|f0 fd]; [congruence|]. cbn [frac app].
      rewrite peekz_0. eexists; split; reflexivity.
    - cbn [app]. rewrite peekz_0. eexists; split; [reflexivity|]. inversion Hip; subst. cls. lia. }
  (* after the sign *)
  assert (Hmain : forall s, 0 <= s ->
    (d1 <- digits X ;;
     let l2 := skipz d1 X in
     c2 <- peekz l2 0 ;;
     if c2 =? 46 then
       d2 <- digits (tl l2) ;;
       if 0 <? d2 then number_exp (s + d1 + 1 + d2) (skipz (1 + d2) l2)
       else if 0 <? d1 then Some (s + d1) else Some 0
     else if d1 =? 0 then Some 0 else number_exp (s + d1) l2) = Some (s + (len ip + (len (frac fd) + len ex)))).
  { intros s Hs. rewrite Hdig. cbn [option_bind]. cbv zeta. subst X. rewrite skipz_len_app.
    destruct fd as [|f0 fd].
    - (* no fraction *)
      cbn [frac app nonemptyb] in *. change (len (@nil Z)) with 0.
      assert (Hipne : ip <> []) by (destruct Hne as [?|?]; [assumption|congruence]).
      assert (Hlip : 0 < len ip) by (destruct ip; [congruence|lens; lia]).
      rewrite peekz_app_sent_0. cbn [option_bind].
      destruct (hd0 (ex ++ r) =? 46) eqn:E46.
      + (* "1." followed by a non-digit: the '.' is given back *)
        destruct Hex as [|e es ed Hee _ _ _]; [|cbn [app hd0] in E46; lia]. cbn [app nonemptyb] in *.
        destruct r as [|c r]; [cbn in E46; discriminate|]. cbn [hd0] in *. assert (c = 46) by lia. subst c.
        cbn [app tl]. destruct (Hdot eq_refl) as [?|[?|Hs2]]; try discriminate. unfold second in Hs2. cbn [tl] in Hs2.
        replace (digits (r ++ [0])) with (Some 0).
        2:{ unfold digits. destruct r as [|c2 r]; cbn [app hd0] in *; rewrite scan_while_cons; [reflexivity|].
            rewrite Hs2. reflexivity. }
        cbn [option_bind]. change (0 <? 0) with false. cbv beta iota. replace (0 <? len ip) with true by lia.
        change (len (@nil Z)) with 0. f_equal; lia.
      + replace (len ip =? 0) with false by lia.
        rewrite (number_exp_run _ ex r false Hex).
        * f_equal; lia.
        * destruct ex; exact Hfol.
    - cbn [frac app]. rewrite peekz_0. cbn [option_bind]. change (46 =? 46) with true. cbv beta iota. cbn [tl].
      replace (f0 :: fd ++ ex ++ r ++ [0]) with ((f0 :: fd) ++ (ex ++ r) ++ [0]) by (cbn [app]; repeat rewrite <- app_assoc; reflexivity).
      rewrite (digits_run _ _ Hfd).
      2:{ destruct Hex as [|e es ed Hee _ _ _]; [exact Hd|]. cbn [app hd0]. cls. lia. }
      cbn [option_bind]. replace (0 <? len (f0 :: fd)) with true by (lens; lia).
      replace (skipz (1 + len (f0 :: fd)) (46 :: (f0 :: fd) ++ (ex ++ r) ++ [0])) with (ex ++ r ++ [0]).
      2:{ rewrite skipz_cons by (lens; lia). replace (1 + len (f0 :: fd) - 1) with (len (f0 :: fd)) by lia.
          rewrite skipz_len_app. rewrite <- app_assoc. reflexivity. }
      rewrite (number_exp_run _ ex r true Hex).
      * rewrite (len_cons 46). f_equal; lia.
      * cbn [nonemptyb] in Hfol. destruct ex; exact Hfol. }
  unfold consume_number_token.
  destruct Hsg as [->|[->| ->]]; cbn [app].
  - destruct HX0 as (c0 & Hc0 & Hs0). rewrite Hc0. cbn [option_bind]. rewrite Hs0. rewrite skipz_0.
    change (len (@nil Z)) with 0. apply (Hmain 0). lia.
  - rewrite peekz_0. cbn [option_bind]. change (is_sign 43) with true. cbv beta iota. rewrite skipz_1.
    change (len [43]) with 1. apply (Hmain 1). lia.
  - rewrite peekz_0. cbn [option_bind]. change (is_sign 45) with true. cbv beta iota. rewrite skipz_1.
    change (len [45]) with 1. apply (Hmain 1). lia.
Qed.

(* Next reaches consumeNumeric on a text that starts like a number *)
Lemma num_head sg ip fd ex : sign_text sg -> all_b is_digit ip -> all_b is_digit fd -> (ip <> [] \/ fd <> []) ->
  exists c0 rest, sg ++ ip ++ frac fd ++ ex = c0 :: rest /\
    ((is_digit c0 = true \/ c0 = 46) \/
     (is_sign c0 = true /\ exists c1 rest', rest = c1 :: rest' /\ (is_digit c1 = true \/ c1 = 46))).
Proof.
  intros Hsg Hip Hfd Hne.
  assert (H1 : exists c1 rest', ip ++ frac fd ++ ex = c1 :: rest' /\ (is_digit c1 = true \/ c1 = 46)).
  { destruct ip as [|i0 ip].
    - destruct Hne as [?|Hne]; [congruence|]. destruct fd as [|f0 fd]; [congruence|]. cbn [frac app]. eauto.
    - cbn [app]. inversion Hip; subst. eauto. }
  destruct H1 as (c1 & rest' & E & Hc1).
  destruct Hsg as [->|[->| ->]]; cbn [app]; rewrite E.
  - eauto.
  - do 2 eexists. split; [reflexivity|]. right. split; [reflexivity|eauto].
  - do 2 eexists. split; [reflexivity|]. right. split; [reflexivity|eauto].
Qed.

Lemma scan_via_numeric c0 rest ty n :
  ((is_digit c0 = true \/ c0 = 46) \/
   (is_sign c0 = true /\ exists c1 rest', rest = c1 :: rest' /\ (is_digit c1 = true \/ c1 = 46))) ->
  consume_numeric (c0 :: rest) = Some (ty, n) -> is_err ty = false ->
  css_scan (c0 :: rest) = Some (ty, n).
Proof.
  intros Hh Hnum Hty. unfold css_scan. rewrite peekz_0. cbn [option_bind].
  destruct Hh as [[Hd|H46]|(Hs & c1 & rest' & -> & Hc1)].
  - repeat dec1. rewrite Hnum. cbn [option_bind fst]. rewrite Hty. reflexivity.
  - subst c0. repeat dec1. rewrite Hnum. cbn [option_bind]. unfold or_delim. cbn [fst]. rewrite Hty. reflexivity.
  - destruct (c0 =? 43) eqn:E43.
    + assert (c0 = 43) by lia. subst c0. repeat dec1. rewrite Hnum. cbn [option_bind]. unfold or_delim. cbn [fst]. rewrite Hty. reflexivity.
    + assert (c0 = 45) by (cls; lia). subst c0. repeat dec1.
      unfold consume_cdc. rewrite peekz_0, peekz_1, peekz_0. cbn [option_bind]. repeat dec1.
      replace (c1 =? 45) with false by (destruct Hc1; cls; lia). cbn [negb option_bind Z.ltb Z.compare]. cbv beta iota.
      unfold consume_custom_variable. rewrite peekz_1, peekz_0. cbn [option_bind].
      replace (c1 =? 45) with false by (destruct Hc1; cls; lia). cbn [negb option_bind Z.ltb Z.compare]. cbv beta iota.
      assert (Hil : consume_identlike (45 :: c1 :: rest') = Some (TError, 0)).
      { unfold consume_identlike, consume_ident_token. rewrite peekz_0, peekz_1, peekz_0. cbn [option_bind].
        change (45 =? 45) with true. cbv beta iota. replace (c1 =? 45) with false by (destruct Hc1; cls; lia).
        unfold ident_tail. rewrite skipz_1, peekz_0. cbn [option_bind].
        replace (ident_start c1) with false by (destruct Hc1; cls; lia).
        replace (c1 =? 92) with false by (destruct Hc1; cls; lia). reflexivity. }
      rewrite Hil. cbn [option_bind fst is_err negb]. rewrite Hnum. cbn [option_bind]. unfold or_delim. cbn [fst].
      rewrite Hty. reflexivity.
Qed.

Lemma num_start_app c0 rest x :
  ((is_digit c0 = true \/ c0 = 46) \/
   (is_sign c0 = true /\ exists c1 rest', rest = c1 :: rest' /\ (is_digit c1 = true \/ c1 = 46))) ->
  ((is_digit c0 = true \/ c0 = 46) \/
   (is_sign c0 = true /\ exists c1 rest', rest ++ x = c1 :: rest' /\ (is_digit c1 = true \/ c1 = 46))).
Proof.
  intros [H|(Hs & c1 & rest' & -> & Hc)]; [left; exact H|]. right. split; [exact Hs|].
  exists c1, (rest' ++ x). split; [reflexivity|exact Hc].
Qed.

(* nothing that could continue a number as a dimension: no name start, no live escape, and a "-" only when no name
   follows it ("1-2", "1- ") *)
Definition no_dash_name (r : list Z) : Prop := ident_start (hd0 r) = false /\ hd0 r <> 45 /\ dead_bs r.
Definition no_name_start (r : list Z) : Prop :=
  ident_start (hd0 r) = false /\ dead_bs r /\ (hd0 r = 45 -> no_dash_name (tl r)).

Lemma ident_token_fail r : no_name_start r -> consume_ident_token (r ++ [0]) = Some 0.
Proof.
  intros (H1 & H3 & H2). unfold consume_ident_token. rewrite peekz_sent_0. cbn [option_bind].
  destruct (hd0 r =? 45) eqn:E45.
  - destruct r as [|c r']; [discriminate E45|]. cbn [hd0 tl] in *. assert (c = 45) by lia. subst c.
    destruct (H2 eq_refl) as (G1 & G2 & G3). cbn [app]. rewrite peekz_1, peekz_sent_0. cbn [option_bind].
    replace (hd0 r' =? 45) with false by lia. unfold ident_tail. rewrite skipz_1, peekz_sent_0. cbn [option_bind].
    rewrite G1. destruct (hd0 r' =? 92) eqn:E92; [rewrite (dead_bs_step r' G3 E92)|]; reflexivity.
  - unfold ident_tail. rewrite skipz_0, peekz_sent_0. cbn [option_bind].
    rewrite H1. destruct (hd0 r =? 92) eqn:E92; [rewrite (dead_bs_step r H3 E92)|]; reflexivity.
Qed.

Lemma num_text_nonempty sg ip fd ex : (ip <> [] \/ fd <> []) -> 0 < len (sg ++ ip ++ frac fd ++ ex).
Proof.
  intros Hne. rewrite !len_app. pose proof (len_nonneg sg). pose proof (len_nonneg ex).
  destruct Hne as [Hne|Hne].
  - destruct ip; [congruence|]. pose proof (len_nonneg (frac fd)). lens. lia.
  - destruct fd; [congruence|]. cbn [frac]. pose proof (len_nonneg ip). lens. lia.
Qed.

Lemma munch_number sg ip fd ex r :
  sign_text sg -> all_b is_digit ip -> all_b is_digit fd -> (ip <> [] \/ fd <> []) -> exp_text ex ->
  num_follow (nonemptyb fd) (nonemptyb ex) r -> hd0 r <> 37 -> no_name_start r ->
  munch TNumber (sg ++ ip ++ frac fd ++ ex) r.
Proof.
  intros Hsg Hip Hfd Hne Hex Hfol H37 Hnn.
  pose proof (number_token_run sg ip fd ex r Hsg Hip Hfd Hne Hex Hfol) as Hnt.
  pose proof (num_text_nonempty sg ip fd ex Hne) as Hlen.
  destruct (num_head sg ip fd ex Hsg Hip Hfd Hne) as (c0 & rest & Et & Hh).
  set (t := sg ++ ip ++ frac fd ++ ex) in *.
  split; [|split; [reflexivity|intros E; rewrite E in Hlen; cbn in Hlen; lia]].
  assert (Hnum : consume_numeric (t ++ r ++ [0]) = Some (TNumber, len t)).
  { unfold consume_numeric. rewrite Hnt. cbn [option_bind]. replace (len t =? 0) with false by lia.
    rewrite skipz_len_app. unfold consume_byte. rewrite peekz_sent_0. cbn [option_bind].
    replace (hd0 r =? 37) with false by lia. cbn [Z.ltb Z.compare]. cbv beta iota.
    rewrite (ident_token_fail r Hnn). reflexivity. }
  rewrite Et in *. cbn [app] in *. apply scan_via_numeric; [apply num_start_app; exact Hh|exact Hnum|reflexivity].
Qed.

Lemma munch_percentage sg ip fd ex r :
  sign_text sg -> all_b is_digit ip -> all_b is_digit fd -> (ip <> [] \/ fd <> []) -> exp_text ex ->
  munch TPercentage ((sg ++ ip ++ frac fd ++ ex) ++ [37]) r.
Proof.
  intros Hsg Hip Hfd Hne Hex.
  assert (Hfol : num_follow (nonemptyb fd) (nonemptyb ex) (37 :: r)).
  { split; [reflexivity|]. split; cbn [hd0]; intros; lia. }
  pose proof (number_token_run sg ip fd ex (37 :: r) Hsg Hip Hfd Hne Hex Hfol) as Hnt.
  pose proof (num_text_nonempty sg ip fd ex Hne) as Hlen.
  destruct (num_head sg ip fd ex Hsg Hip Hfd Hne) as (c0 & rest & Et & Hh).
  set (t := sg ++ ip ++ frac fd ++ ex) in *.
  split; [|split; [reflexivity|destruct t; discriminate]].
  rewrite len_app. change (len [37]) with 1. rewrite <- app_assoc. change ([37] ++ r ++ [0]) with ((37 :: r) ++ [0]).
  assert (Hnum : consume_numeric (t ++ (37 :: r) ++ [0]) = Some (TPercentage, len t + 1)).
  { unfold consume_numeric. rewrite Hnt. cbn [option_bind]. replace (len t =? 0) with false by lia.
    rewrite skipz_len_app. unfold consume_byte. cbn [app]. rewrite peekz_0. reflexivity. }
  rewrite Et in *. cbn [app] in *. apply scan_via_numeric; [apply num_start_app; exact Hh|exact Hnum|reflexivity].
Qed.

Lemma name_hd t r : ident_text t r \/ custom_text t r -> hd0 t = 45 \/ ident_start (hd0 t) = true \/ hd0 t = 92.
Proof.
  intros [[t0 r0 Hc|t0 r0 Hc]|[rest r0 _]]; [|left; reflexivity|left; reflexivity].
  destruct (ident_core_hd _ _ Hc); auto.
Qed.

(* a dimension: the unit is a name that does not read as an exponent (num_follow on unit ++ r says so) *)
Lemma munch_dimension sg ip fd ex unit r :
  sign_text sg -> all_b is_digit ip -> all_b is_digit fd -> (ip <> [] \/ fd <> []) -> exp_text ex ->
  ident_text unit r \/ custom_text unit r -> num_follow (nonemptyb fd) (nonemptyb ex) (unit ++ r) -> name_follow r ->
  munch TDimension ((sg ++ ip ++ frac fd ++ ex) ++ unit) r.
Proof.
  intros Hsg Hip Hfd Hne Hex Hu Hfol Hr.
  pose proof (number_token_run sg ip fd ex (unit ++ r) Hsg Hip Hfd Hne Hex Hfol) as Hnt.
  pose proof (num_text_nonempty sg ip fd ex Hne) as Hlen.
  destruct (num_head sg ip fd ex Hsg Hip Hfd Hne) as (c0 & rest & Et & Hh).
  pose proof (ident_token_run unit r Hu Hr) as Hit.
  assert (Hul : 0 < len unit) by (destruct Hu as [Hu|Hu]; [eapply ident_text_len; exact Hu|destruct Hu; lens; lia]).
  assert (Hu37 : hd0 (unit ++ r) <> 37).
  { destruct (name_hd _ _ Hu) as [Hx|[Hx|Hx]]; destruct unit as [|u0 unit]; try (lens; lia); cbn [app hd0] in *; cls; lia. }
  set (t := sg ++ ip ++ frac fd ++ ex) in *.
  split; [|split; [reflexivity|destruct t; discriminate]].
  rewrite len_app. rewrite <- app_assoc.
  assert (Hnum : consume_numeric (t ++ (unit ++ r) ++ [0]) = Some (TDimension, len t + len unit)).
  { unfold consume_numeric. rewrite Hnt. cbn [option_bind]. replace (len t =? 0) with false by lia.
    rewrite skipz_len_app. unfold consume_byte. rewrite peekz_sent_0. cbn [option_bind].
    replace (hd0 (unit ++ r) =? 37) with false by lia. cbn [Z.ltb Z.compare]. cbv beta iota.
    rewrite <- app_assoc. rewrite Hit. cbn [option_bind]. replace (0 <? len unit) with true by lia. reflexivity. }
  rewrite <- app_assoc in Hnum. rewrite Et in *. cbn [app] in *. apply scan_via_numeric; [apply num_start_app; exact Hh|exact Hnum|reflexivity].
Qed.

(* --- class: strings and bad strings ---------------------------------------------------------------------------- *)
Definition str_byte (q c : Z) : bool := negb (c =? q) && negb (c =? 92) && negb (is_nl c).
Definition is_quote (q : Z) : Prop := q = 34 \/ q = 39.

(* a line break as consumeNewline reads it: \n, \f, \r\n, or \r not followed by \n *)
Definition line_break (nlb y : list Z) : Prop :=
  nlb = [10] \/ nlb = [12] \/ nlb = [13; 10] \/ (nlb = [13] /\ hd0 y <> 10).

(* a string body t followed by r: plain bytes, escapes (with the follower they tolerate), and line continuations *)
Inductive sbody (q : Z) : list Z -> list Z -> Prop :=
| SB_nil r : sbody q [] r
| SB_char c t r : str_byte q c = true -> sbody q t r -> sbody q (c :: t) r
| SB_esc e nb t r : esc_text e nb -> nb (t ++ r) = true -> sbody q t r -> sbody q (e ++ t) r
| SB_cont nlb t r : line_break nlb (t ++ r) -> sbody q t r -> sbody q (92 :: nlb ++ t) r.

Lemma all_b_sbody q a r : all_b (str_byte q) a -> sbody q a r.
Proof. induction 1; constructor; assumption. Qed.

Lemma eofb_app_cons a c x : eofb (a ++ c :: x) = match a with [] => eofb (c :: x) | [_] => false | _ => false end.
Proof. destruct a as [|a0 [|a1 a]]; reflexivity. Qed.

Definition shift2 {A} (n : Z) (o : option (A * Z)) : option (A * Z) :=
  match o with Some (a, m) => Some (a, n + m) | None => None end.

Lemma string_loop_skipn q : forall a l, string_loop q (a ++ l) (length a) = shift2 (len a) (string_loop q l 0).
Proof.
  induction a as [|x a IH]; intros l; cbn [app length].
  - change (len (@nil Z)) with 0. destruct (string_loop q l 0) as [[ty n]|]; reflexivity.
  - rewrite string_loop_skip, IH. destruct (string_loop q l 0) as [[ty n]|]; cbn [bump2 shift2]; [|reflexivity].
    rewrite len_cons. f_equal; f_equal; lia.
Qed.

Lemma line_break_run nlb y : line_break nlb y -> consume_newline (nlb ++ y ++ [0]) = Some (len nlb) /\ is_nl (hd0 nlb) = true.
Proof.
  intros [->|[->|[->|[-> Hy]]]]; (split; [|reflexivity]); unfold consume_newline; cbn [app]; rewrite peekz_0; cbn [option_bind];
    try reflexivity.
  - rewrite peekz_1, peekz_0. reflexivity.
  - rewrite peekz_1, peekz_sent_0. cbn [option_bind Z.eqb Pos.eqb orb]. replace (hd0 y =? 10) with false by lia. reflexivity.
Qed.

(* the loop of consumeString walks over a body and continues at what follows it *)
Lemma string_loop_body q body x : is_quote q -> sbody q body x ->
  string_loop q (body ++ x ++ [0]) 0 = shift2 (len body) (string_loop q (x ++ [0]) 0).
Proof.
  intros Hq Hb. induction Hb as [x|y body x Hy Hb IH|e nb t x He Hnb Ht IH|nlb t x Hnl Ht IH].
  - cbn [app]. change (len (@nil Z)) with 0. destruct (string_loop q (x ++ [0]) 0) as [[ty n]|]; reflexivity.
  - cbn [app]. rewrite string_loop_0. rewrite app_assoc, eofb_cons_sent.
    rewrite andb_false_r. unfold str_byte in Hy. apply andb_true_iff in Hy. destruct Hy as [Hy Hy3].
    apply andb_true_iff in Hy. destruct Hy as [Hy1 Hy2].
    replace (is_nl y) with false by (destruct (is_nl y); [discriminate|reflexivity]).
    replace (y =? q) with false by (destruct (y =? q); [discriminate|reflexivity]).
    replace (y =? 92) with false by (destruct (y =? 92); [discriminate|reflexivity]).
    rewrite <- app_assoc, IH. destruct (string_loop q (x ++ [0]) 0) as [[ty n]|]; cbn [bump2 shift2]; [|reflexivity].
    rewrite len_cons. f_equal; f_equal; lia.
  - destruct (esc_text_bs e nb He) as (e' & -> & He').
    pose proof (escape_run _ _ (t ++ x) He Hnb) as Hesc. rewrite <- !app_assoc in *. cbn [app] in *.
    rewrite string_loop_0. change (92 =? 0) with false. change (is_nl 92) with false.
    replace (92 =? q) with false by (destruct Hq; subst; reflexivity). change (92 =? 92) with true. cbv beta iota. cbn [andb].
    cbv beta iota. rewrite Hesc. cbn [option_bind]. rewrite len_cons. replace (0 <? 1 + len e') with true by lia.
    replace (Z.to_nat (1 + len e' - 1)) with (length e') by (unfold len; lia).
    rewrite string_loop_skipn, IH. destruct (string_loop q (x ++ [0]) 0) as [[ty n]|]; cbn [bump2 shift2]; [|reflexivity].
    rewrite !len_cons, len_app. f_equal; f_equal; lia.
  - destruct (line_break_run nlb (t ++ x) Hnl) as [Hrun Hhd]. rewrite <- app_assoc in Hrun.
    cbn [app]. rewrite <- !app_assoc. rewrite string_loop_0. change (92 =? 0) with false. change (is_nl 92) with false.
    replace (92 =? q) with false by (destruct Hq; subst; reflexivity). change (92 =? 92) with true. cbn [andb]. cbv beta iota.
    replace (nlb ++ t ++ x ++ [0]) with ((nlb ++ t ++ x) ++ [0]) by (rewrite <- !app_assoc; reflexivity).
    rewrite escape_fail.
    2:{ right. destruct Hnl as [->|[->|[->|[-> _]]]]; reflexivity. }
    cbn [option_bind Z.ltb Z.compare]. cbv beta iota. rewrite <- !app_assoc. rewrite Hrun. cbn [option_bind].
    replace (Z.to_nat (len nlb)) with (length nlb) by (unfold len; lia).
    rewrite string_loop_skipn, IH. destruct (string_loop q (x ++ [0]) 0) as [[ty n]|]; cbn [bump2 shift2]; [|reflexivity].
    rewrite !len_cons, len_app. f_equal; f_equal; lia.
Qed.

Lemma string_loop_run q body c x : is_quote q -> sbody q body (c :: x) -> (c = q \/ is_nl c = true) ->
  string_loop q (body ++ c :: x ++ [0]) 0 =
    Some (if is_nl c then TBadString else TString, len body + 1).
Proof.
  intros Hq Hb Hc. pose proof (string_loop_body q body (c :: x) Hq Hb) as H. cbn [app] in H. rewrite H.
  rewrite string_loop_0, eofb_cons_sent, andb_false_r. destruct (is_nl c) eqn:En; [reflexivity|].
  destruct Hc as [->|?]; [|congruence]. rewrite Z.eqb_refl. reflexivity.
Qed.

Lemma scan_quote q l : is_quote q -> css_scan (q :: l) = r <- consume_string (q :: l) ;; Some (or_delim r).
Proof.
  intros Hq. unfold css_scan. rewrite peekz_0. cbn [option_bind]. destruct Hq; subst; reflexivity.
Qed.

Lemma consume_string_run q body c x : is_quote q -> sbody q body (c :: x) -> (c = q \/ is_nl c = true) ->
  consume_string (q :: body ++ c :: x ++ [0]) = Some (if is_nl c then TBadString else TString, len (q :: body ++ [c])).
Proof.
  intros Hq Hb Hc. unfold consume_string. rewrite peekz_0. cbn [option_bind tl].
  rewrite (string_loop_run q body c x Hq Hb Hc). cbn [bump2]. rewrite !len_cons, len_app. change (len [c]) with 1.
  f_equal; f_equal; lia.
Qed.

Lemma munch_string q body r : is_quote q -> sbody q body (q :: r) -> munch TString (q :: body ++ [q]) r.
Proof.
  intros Hq Hb. split; [|split; [reflexivity|discriminate]].
  cbn [app]. rewrite <- app_assoc. cbn [app]. rewrite (scan_quote q _ Hq).
  rewrite (consume_string_run q body q r Hq Hb (or_introl eq_refl)).
  replace (is_nl q) with false by (destruct Hq; subst; reflexivity). reflexivity.
Qed.

Lemma munch_bad_string q body nl r : is_quote q -> sbody q body (nl :: r) -> is_nl nl = true ->
  munch TBadString (q :: body ++ [nl]) r.
Proof.
  intros Hq Hb Hnl. split; [|split; [reflexivity|discriminate]].
  cbn [app]. rewrite <- app_assoc. cbn [app]. rewrite (scan_quote q _ Hq).
  rewrite (consume_string_run q body nl r Hq Hb (or_intror Hnl)). rewrite Hnl. reflexivity.
Qed.

(* a string that is not closed before the end of the input (optionally ending in a lone backslash) *)
Lemma consume_string_eof q body bs : is_quote q -> sbody q body bs -> (bs = [] \/ bs = [92]) ->
  consume_string (q :: body ++ bs ++ [0]) = Some (TString, len (q :: body ++ bs)).
Proof.
  intros Hq Hb Hbs. unfold consume_string. rewrite peekz_0. cbn [option_bind tl].
  rewrite (string_loop_body q body bs Hq Hb).
  destruct Hbs as [->| ->]; cbn [app].
  - rewrite string_loop_0. cbn [eofb Z.eqb andb shift2 bump2 option_bind].
    rewrite app_nil_r, len_cons. f_equal; f_equal; lia.
  - rewrite string_loop_0. change (92 =? 0) with false. change (is_nl 92) with false.
    replace (92 =? q) with false by (destruct Hq; subst; reflexivity). change (92 =? 92) with true. cbn [andb]. cbv beta iota.
    change (consume_escape [92; 0]) with (Some 0). cbn [option_bind Z.ltb Z.compare]. cbv beta iota.
    change (consume_newline [0]) with (Some 0). cbn [option_bind Z.to_nat]. rewrite string_loop_0.
    cbn [eofb Z.eqb andb shift2 bump2 option_bind].
    rewrite len_cons, len_app. change (len [92]) with 1. f_equal; f_equal; lia.
Qed.

Lemma munch_string_eof q body bs : is_quote q -> sbody q body bs -> (bs = [] \/ bs = [92]) ->
  munch TString (q :: body ++ bs) [].
Proof.
  intros Hq Hb Hbs. split; [|split; [reflexivity|discriminate]].
  cbn [app]. rewrite (scan_quote q _ Hq). rewrite <- app_assoc. rewrite (consume_string_eof q body bs Hq Hb Hbs). reflexivity.
Qed.

(* --- class: delimiters ------------------------------------------------------------------------------------------ *)
(* bytes that start no other token whatever follows *)
Definition plain_delim (c : Z) : bool :=
  (c =? 33) || (c =? 37) || (c =? 38) || (c =? 61) || (c =? 62) || (c =? 63) || (c =? 96) || (c =? 127)
  || ((1 <=? c) && (c <=? 8)) || (c =? 11) || ((14 <=? c) && (c <=? 31)).

(* a delimiter byte c and what may follow it (CSS Syntax: the checks "would start a number / an identifier /
   a valid escape", and the two-byte operators of this lexer) *)
Definition delim_ok (c : Z) (r : list Z) : Prop :=
  plain_delim c = true \/ c = 0 \/
  (c = 35 /\ name_follow r) \/
  (c = 64 /\ no_name_start r) \/
  (c = 43 /\ is_digit (hd0 r) = false /\ (hd0 r = 46 -> is_digit (second r) = false)) \/
  (c = 46 /\ is_digit (hd0 r) = false) \/
  (c = 45 /\ is_digit (hd0 r) = false /\ (hd0 r = 46 -> is_digit (second r) = false) /\ hd0 r <> 45 /\ no_name_start r) \/
  ((c = 36 \/ c = 42 \/ c = 94 \/ c = 126) /\ hd0 r <> 61) \/
  (c = 124 /\ hd0 r <> 61 /\ hd0 r <> 124) \/
  (c = 47 /\ hd0 r <> 42) \/
  (c = 60 /\ ~ (hd0 r = 33 /\ second r = 45 /\ third r = 45)) \/
  (c = 92 /\ (r = [] \/ is_nl (hd0 r) = true)).

Lemma ident_token_fail_cons c r : ident_start c = false -> c <> 45 -> c <> 92 -> consume_ident_token (c :: r ++ [0]) = Some 0.
Proof. intros H1 H2 H3. apply (ident_token_fail (c :: r)). split; [exact H1|split; [apply dead_bs_not; exact H3|cbn [hd0]; intros; congruence]]. Qed.

Lemma identlike_fail l : consume_ident_token l = Some 0 -> consume_identlike l = Some (TError, 0).
Proof. intros H. unfold consume_identlike. rewrite H. reflexivity. Qed.

Lemma munch_delim c r : delim_ok c r -> munch TDelim [c] r.
Proof.
  intros H. split; [|split; [reflexivity|discriminate]]. cbn [app]. change (len [c]) with 1.
  unfold css_scan. rewrite peekz_0. cbn [option_bind].
  destruct H as [H|[H|[(-> & Hf1 & Hf2)|[(-> & Hn)|[(-> & Hd & Hdot)|[(-> & Hd)|[(-> & Hd & H46 & Hn2 & Hn)|[(Hc & Hf)|[(-> & Hf1 & Hf2)|[(-> & Hf)|[(-> & Hf)|(-> & Hf)]]]]]]]]]]].
  - (* a byte that starts nothing *)
    unfold plain_delim in H. repeat dec1. rewrite numeric_nondigit by (cls; lia). cbn [option_bind fst is_err negb].
    rewrite identlike_fail by (apply ident_token_fail_cons; cls; lia). reflexivity.
  - subst c. repeat dec1. rewrite eofb_cons_sent. reflexivity.
  - repeat dec1. unfold consume_hash. cbn [tl]. rewrite peekz_sent_0. cbn [option_bind]. rewrite Hf1.
    destruct (hd0 r =? 92) eqn:E92; [rewrite (dead_bs_step r Hf2 E92)|]; reflexivity.
  - repeat dec1. unfold consume_at_keyword. cbn [tl]. rewrite (ident_token_fail r Hn). reflexivity.
  - repeat dec1. unfold consume_numeric, consume_number_token. rewrite peekz_0. cbn [option_bind].
    change (is_sign 43) with true. cbv beta iota. rewrite skipz_1.
    assert (Hdg : digits (r ++ [0]) = Some 0).
    { unfold digits. destruct r as [|x r]; cbn [app hd0] in *; rewrite scan_while_cons; [reflexivity|rewrite Hd; reflexivity]. }
    rewrite Hdg. cbn [option_bind]. rewrite skipz_0, peekz_sent_0. cbn [option_bind].
    destruct (hd0 r =? 46) eqn:E46; [|reflexivity].
    destruct r as [|x r]; [discriminate E46|]. cbn [hd0 app tl] in *. unfold second in Hdot. cbn [tl] in Hdot.
    assert (Hdg2 : digits (r ++ [0]) = Some 0).
    { unfold digits. destruct r as [|y r]; cbn [app hd0] in *; rewrite scan_while_cons; [reflexivity|rewrite Hdot by lia; reflexivity]. }
    rewrite Hdg2. reflexivity.
  - repeat dec1. unfold consume_numeric, consume_number_token. rewrite peekz_0. cbn [option_bind].
    change (is_sign 46) with false. cbv beta iota. rewrite skipz_0. unfold digits at 1. rewrite scan_while_cons.
    change (is_digit 46) with false. cbv beta iota. cbn [option_bind]. rewrite skipz_0, peekz_0. cbn [option_bind tl].
    change (46 =? 46) with true. cbv beta iota.
    assert (Hdg : digits (r ++ [0]) = Some 0).
    { unfold digits. destruct r as [|x r]; cbn [app hd0] in *; rewrite scan_while_cons; [reflexivity|rewrite Hd; reflexivity]. }
    rewrite Hdg. reflexivity.
  - destruct Hn as (Hn1 & Hn3 & _). repeat dec1.
    unfold consume_cdc. rewrite peekz_0, peekz_1, peekz_sent_0. cbn [option_bind]. repeat dec1.
    replace (hd0 r =? 45) with false by lia. cbn [negb option_bind Z.ltb Z.compare]. cbv beta iota.
    unfold consume_custom_variable. rewrite peekz_1, peekz_sent_0. cbn [option_bind].
    replace (hd0 r =? 45) with false by lia. cbn [negb option_bind Z.ltb Z.compare]. cbv beta iota.
    assert (Hit : consume_ident_token (45 :: r ++ [0]) = Some 0).
    { unfold consume_ident_token. rewrite peekz_0, peekz_1, peekz_sent_0. cbn [option_bind]. change (45 =? 45) with true.
      cbv beta iota. replace (hd0 r =? 45) with false by lia. unfold ident_tail. rewrite skipz_1, peekz_sent_0.
      cbn [option_bind]. rewrite Hn1. destruct (hd0 r =? 92) eqn:E92; [rewrite (dead_bs_step r Hn3 E92)|]; reflexivity. }
    rewrite (identlike_fail _ Hit). cbn [option_bind fst is_err negb].
    unfold consume_numeric, consume_number_token. rewrite peekz_0. cbn [option_bind].
    change (is_sign 45) with true. cbv beta iota. rewrite skipz_1.
    assert (Hdg : digits (r ++ [0]) = Some 0).
    { unfold digits. destruct r as [|x r]; cbn [app hd0] in *; rewrite scan_while_cons; [reflexivity|rewrite Hd; reflexivity]. }
    rewrite Hdg. cbn [option_bind]. rewrite skipz_0, peekz_sent_0. cbn [option_bind].
    destruct (hd0 r =? 46) eqn:E46; [|reflexivity].
    destruct r as [|x r]; [discriminate E46|]. cbn [hd0 app tl] in *. unfold second in H46. cbn [tl] in H46.
    assert (Hdg2 : digits (r ++ [0]) = Some 0).
    { unfold digits. destruct r as [|y r]; cbn [app hd0] in *; rewrite scan_while_cons; [reflexivity|rewrite H46 by lia; reflexivity]. }
    rewrite Hdg2. reflexivity.
  - assert (Hm : consume_match (c :: r ++ [0]) = Some (TError, 0)).
    { unfold consume_match. rewrite peekz_1, peekz_sent_0. cbn [option_bind]. replace (hd0 r =? 61) with false by lia. reflexivity. }
    repeat dec1. rewrite Hm. reflexivity.
  - assert (Hm : consume_match (124 :: r ++ [0]) = Some (TError, 0)).
    { unfold consume_match. rewrite peekz_1, peekz_sent_0. cbn [option_bind]. replace (hd0 r =? 61) with false by lia. reflexivity. }
    repeat dec1. rewrite Hm. cbn [option_bind fst is_err negb]. unfold consume_column. rewrite peekz_0, peekz_1, peekz_sent_0.
    cbn [option_bind]. repeat dec1. replace (hd0 r =? 124) with false by lia. reflexivity.
  - repeat dec1. unfold consume_comment. rewrite peekz_0, peekz_1, peekz_sent_0. cbn [option_bind]. repeat dec1.
    replace (hd0 r =? 42) with false by lia. reflexivity.
  - repeat dec1. unfold consume_cdo. rewrite peekz_0, peekz_1, peekz_sent_0. cbn [option_bind]. repeat dec1.
    destruct (hd0 r =? 33) eqn:E1; [|reflexivity]. cbn [negb].
    destruct r as [|c1 r1]; [discriminate E1|]. cbn [hd0 app] in *. rewrite peekz_2, peekz_1, peekz_sent_0. cbn [option_bind].
    destruct (hd0 r1 =? 45) eqn:E2; [|reflexivity]. cbn [negb].
    destruct r1 as [|c2 r2]; [discriminate E2|]. cbn [hd0 app] in *. rewrite peekz_3, peekz_2, peekz_1, peekz_sent_0. cbn [option_bind].
    replace (hd0 r2 =? 45) with false; [reflexivity|]. symmetry. apply Z.eqb_neq. intros E3. apply Hf. unfold second, third. cbn [tl hd0]. lia.
  - repeat dec1.
    assert (Hesc : consume_escape (92 :: r ++ [0]) = Some 0).
    { unfold consume_escape. rewrite peekz_0. cbn [option_bind negb Z.eqb Pos.eqb tl].
      destruct Hf as [->|Hnl]; [reflexivity|].
      destruct r as [|x r]; [discriminate Hnl|]. cbn [hd0 app] in *.
      destruct (consume_newline_ok (x :: r)) as (n & Hn & _). cbn [app] in Hn. rewrite Hn. cbn [option_bind].
      rewrite (newline_pos _ _ _ Hn), Hnl. reflexivity. }
    assert (Hit : consume_ident_token (92 :: r ++ [0]) = Some 0).
    { unfold consume_ident_token. rewrite peekz_0. cbn [option_bind]. change (92 =? 45) with false. cbv beta iota.
      unfold ident_tail. rewrite skipz_0, peekz_0. cbn [option_bind]. change (ident_start 92) with false. change (92 =? 92) with true.
      cbv beta iota. rewrite Hesc. reflexivity. }
    rewrite (identlike_fail _ Hit). reflexivity.
Qed.

(* --- class: unicode-range ---------------------------------------------------------------------------------------- *)
Inductive urange_text : list Z -> list Z -> Prop :=
| UR_hex u h q r : u = 117 \/ u = 85 -> all_b is_hex h -> all_b is_qmark q -> 1 <= len h + len q <= 6 ->
    (q = [] -> is_hex (hd0 r) = false /\ hd0 r <> 45) -> hd0 r <> 63 ->
    urange_text (u :: 43 :: h ++ q) r
| UR_range u h1 h2 r : u = 117 \/ u = 85 -> all_b is_hex h1 -> 1 <= len h1 <= 6 -> all_b is_hex h2 -> 1 <= len h2 <= 6 ->
    is_hex (hd0 r) = false -> urange_text (u :: 43 :: h1 ++ 45 :: h2) r.

Lemma all_b_hd P a : all_b P a -> a <> [] -> P (hd0 a) = true.
Proof. intros Ha Hne. destruct a; [congruence|]. inversion Ha; subst. assumption. Qed.

Lemma munch_unicode_range t r : urange_text t r -> munch TUnicodeRange t r.
Proof.
  intros Ht. split; [|split; [reflexivity|destruct Ht; discriminate]].
  assert (Hur : consume_unicode_range (t ++ r ++ [0]) = Some (len t) /\ 0 < len t /\
                exists u rest, t = u :: rest /\ (u = 117 \/ u = 85)).
  { destruct Ht as [u h q r Hu Hh Hq Hl Hf1 Hf2|u h1 h2 r Hu Hh1 Hl1 Hh2 Hl2 Hf].
    - split; [|split; [lens; pose proof (len_nonneg (h ++ q)); lia|eauto]].
      unfold consume_unicode_range. cbn [app]. rewrite peekz_0, peekz_1, peekz_0. cbn [option_bind].
      replace ((u =? 117) || (u =? 85)) with true by lia. change (43 =? 43) with true. cbn [negb]. rewrite skipz_2.
      rewrite <- app_assoc.
      replace (h ++ q ++ r ++ [0]) with (h ++ (q ++ r) ++ [0]) by (rewrite <- app_assoc; reflexivity).
      assert (Hnh : is_hex (hd0 (q ++ r)) = false).
      { destruct q as [|q0 q]; [apply Hf1; reflexivity|]. inversion Hq; subst. cbn [app hd0]. cls. lia. }
      rewrite (scan_while_run is_hex h (q ++ r) Hh Hnh eq_refl). cbn [option_bind]. rewrite skipz_len_app.
      assert (Hn45 : hd0 (q ++ r) <> 45).
      { destruct q as [|q0 q]; [apply Hf1; reflexivity|]. inversion Hq; subst. cbn [app hd0]. cls. lia. }
      unfold consume_byte. rewrite peekz_sent_0. cbn [option_bind]. replace (hd0 (q ++ r) =? 45) with false by lia.
      cbn [Z.ltb Z.compare]. cbv beta iota. rewrite <- app_assoc.
      rewrite (scan_while_run is_qmark q r Hq) by (try reflexivity; unfold is_qmark; lia). cbn [option_bind].
      replace ((len h + len q =? 0) || (6 <? len h + len q)) with false by lia.
      rewrite !len_cons, len_app. f_equal; lia.
    - split; [|split; [lens; pose proof (len_nonneg (h1 ++ 45 :: h2)); lia|eauto]].
      unfold consume_unicode_range. cbn [app]. rewrite peekz_0, peekz_1, peekz_0. cbn [option_bind].
      replace ((u =? 117) || (u =? 85)) with true by lia. change (43 =? 43) with true. cbn [negb]. rewrite skipz_2.
      rewrite <- app_assoc. cbn [app].
      replace (h1 ++ 45 :: h2 ++ r ++ [0]) with (h1 ++ (45 :: h2 ++ r) ++ [0]) by (cbn [app]; rewrite <- app_assoc; reflexivity).
      rewrite (scan_while_run is_hex h1 (45 :: h2 ++ r) Hh1 eq_refl eq_refl). cbn [option_bind]. rewrite skipz_len_app.
      unfold consume_byte. cbn [app]. rewrite peekz_0. cbn [option_bind]. change (45 =? 45) with true.
      cbn [Z.ltb Z.compare]. cbv beta iota. replace ((len h1 =? 0) || (6 <? len h1)) with false by lia. cbn [tl].
      rewrite <- app_assoc. rewrite (scan_while_run is_hex h2 r Hh2 Hf eq_refl). cbn [option_bind].
      replace ((len h2 =? 0) || (6 <? len h2)) with false by lia.
      rewrite !len_cons, len_app, len_cons. f_equal; lia. }
  destruct Hur as (Hur & Hlen & u & rest & -> & Hu). cbn [app] in *.
  unfold css_scan. rewrite peekz_0. cbn [option_bind]. repeat dec1. rewrite Hur. cbn [option_bind].
  replace (0 <? len (u :: rest)) with true by lia. reflexivity.
Qed.

(* --- class: url( ) and bad-url --------------------------------------------------------------------------------- *)
Ltac rassoc := repeat (rewrite <- ?app_assoc; progress cbn [app]); rewrite <- ?app_assoc.
Ltac rassoc_in H := repeat (rewrite <- ?app_assoc in H; progress cbn [app] in H); rewrite <- ?app_assoc in H.

(* the follower of a name only matters through its first byte (and whether there is one) *)
Definition same_head (x y : list Z) : Prop := hd0 x = hd0 y /\ (x = [] <-> y = []).

Lemma same_head_app t x y : same_head x y -> same_head (t ++ x) (t ++ y).
Proof. intros [H1 H2]. destruct t; [split; assumption|split; [reflexivity|split; discriminate]]. Qed.

Lemma esc_nb_follow e nb x y : esc_text e nb -> same_head x y -> nb x = nb y.
Proof.
  intros He [H1 H2]. destruct He; unfold any_next, at_end, not_ws_next, not_hex_ws_next, not_lf_next; rewrite ?H1; try reflexivity.
  destruct x, y; try reflexivity; [destruct H2 as [H2 _]; specialize (H2 eq_refl); discriminate|destruct H2 as [_ H2]; specialize (H2 eq_refl); discriminate].
Qed.

Lemma nbody_follow t r r' : nbody t r -> same_head r r' -> nbody t r'.
Proof.
  intros H E. induction H as [r|c t r Hc Ht IH|e nb t r He Hnb Ht IH]; [constructor|constructor; auto|].
  apply (NB_esc e nb); [exact He| |auto]. rewrite <- (esc_nb_follow e nb _ _ He (same_head_app t _ _ E)). exact Hnb.
Qed.
Lemma ident_core_follow t r r' : ident_core t r -> same_head r r' -> ident_core t r'.
Proof.
  intros [c rest r0 Hc Hb|e nb rest r0 He Hnb Hb] E.
  - apply IC_char; [exact Hc|eapply nbody_follow; eassumption].
  - apply (IC_esc e nb); [exact He| |eapply nbody_follow; eassumption].
    rewrite <- (esc_nb_follow e nb _ _ He (same_head_app rest _ _ E)). exact Hnb.
Qed.
Lemma ident_text_follow t r r' : ident_text t r -> same_head r r' -> ident_text t r'.
Proof. intros [t0 r0 H|t0 r0 H] E; [apply IT_core|apply IT_dash]; eapply ident_core_follow; eassumption. Qed.

(* a name that reads "url" once backslashes are dropped, in any letter case *)
Definition url_name (name : list Z) : Prop := ident_text name [40] /\ is_url_name name = true.

(* how a url ends: with ")" or with the end of the input *)
Inductive closer : list Z -> list Z -> Prop :=
| CL_paren r : closer [41] r
| CL_eof : closer [] [].

Definition url_byte (c : Z) : bool := negb (url_bad_char c) && negb (c =? 41).
Inductive ubody : list Z -> list Z -> Prop :=
| UB_nil r : ubody [] r
| UB_char c t r : url_byte c = true -> ubody t r -> ubody (c :: t) r
| UB_esc e nb t r : esc_text e nb -> nb (t ++ r) = true -> ubody t r -> ubody (e ++ t) r.

(* what consumeRemnantsBadURL skips: any byte but ")", whole escapes (so "\)" does not close), lone backslashes *)
Inductive rbody : list Z -> list Z -> Prop :=
| RB_nil r : rbody [] r
| RB_char c t r : c <> 41 -> c <> 92 -> rbody t r -> rbody (c :: t) r
| RB_esc e nb t r : esc_text e nb -> nb (t ++ r) = true -> rbody t r -> rbody (e ++ t) r
| RB_bs t r : t ++ r = [] \/ is_nl (hd0 (t ++ r)) = true -> rbody t r -> rbody (92 :: t) r.

Definition shift (n : Z) (o : option Z) : option Z := match o with Some m => Some (n + m) | None => None end.

Lemma url_loop_skipn : forall a l, url_loop (a ++ l) (length a) = shift2 (len a) (url_loop l 0).
Proof.
  induction a as [|x a IH]; intros l; cbn [app length].
  - change (len (@nil Z)) with 0. destruct (url_loop l 0) as [[ty n]|]; reflexivity.
  - rewrite url_loop_skip, IH. destruct (url_loop l 0) as [[ty n]|]; cbn [bump2 shift2]; [|reflexivity].
    rewrite len_cons. f_equal; f_equal; lia.
Qed.

Lemma badurl_loop_skipn : forall a l, badurl_loop (a ++ l) (length a) = shift (len a) (badurl_loop l 0).
Proof.
  induction a as [|x a IH]; intros l; cbn [app length].
  - change (len (@nil Z)) with 0. destruct (badurl_loop l 0); reflexivity.
  - rewrite badurl_loop_skip, IH. destruct (badurl_loop l 0); cbn [bump shift]; [|reflexivity].
    rewrite len_cons. f_equal; lia.
Qed.

Lemma url_loop_body body x : ubody body x -> url_loop (body ++ x ++ [0]) 0 = shift2 (len body) (url_loop (x ++ [0]) 0).
Proof.
  intros Hb. induction Hb as [x|y body x Hy Hb IH|e nb t x He Hnb Ht IH].
  - cbn [app]. change (len (@nil Z)) with 0. destruct (url_loop (x ++ [0]) 0) as [[ty n]|]; reflexivity.
  - cbn [app]. rewrite url_loop_0. unfold url_byte in Hy. apply andb_true_iff in Hy. destruct Hy as [Hy1 Hy2].
    replace (url_bad_char y) with false by (destruct (url_bad_char y); [discriminate|reflexivity]).
    replace (y =? 41) with false by (destruct (y =? 41); [discriminate|reflexivity]).
    replace (y =? 0) with false by (revert Hy1; cls; lia). cbn [andb orb].
    rewrite IH. destruct (url_loop (x ++ [0]) 0) as [[ty n]|]; cbn [bump2 shift2]; [|reflexivity].
    rewrite len_cons. f_equal; f_equal; lia.
  - destruct (esc_text_bs e nb He) as (e' & -> & He').
    pose proof (escape_run _ _ (t ++ x) He Hnb) as Hesc. rewrite <- !app_assoc in *. cbn [app] in *.
    rewrite url_loop_0. change (92 =? 0) with false. change (92 =? 41) with false. change (url_bad_char 92) with true.
    change (92 =? 92) with true. cbn [andb orb]. cbv beta iota.
    rewrite Hesc. cbn [option_bind]. rewrite len_cons. replace (0 <? 1 + len e') with true by lia.
    replace (Z.to_nat (1 + len e' - 1)) with (length e') by (unfold len; lia).
    rewrite url_loop_skipn, IH. destruct (url_loop (x ++ [0]) 0) as [[ty n]|]; cbn [bump2 shift2]; [|reflexivity].
    rewrite !len_cons, len_app. f_equal; f_equal; lia.
Qed.

Lemma escape_not_bs c l : c <> 92 -> consume_escape (c :: l) = Some 0.
Proof. intros H. unfold consume_escape. rewrite peekz_0. cbn [option_bind]. replace (c =? 92) with false by lia. reflexivity. Qed.

Lemma badurl_loop_body rem x : rbody rem x -> badurl_loop (rem ++ x ++ [0]) 0 = shift (len rem) (badurl_loop (x ++ [0]) 0).
Proof.
  intros Hb. induction Hb as [x|y t x Hy1 Hy2 Hb IH|e nb t x He Hnb Ht IH|t x Hf Ht IH].
  - cbn [app]. change (len (@nil Z)) with 0. destruct (badurl_loop (x ++ [0]) 0); reflexivity.
  - cbn [app]. rewrite badurl_loop_0. replace (y =? 41) with false by lia. rewrite app_assoc, eofb_cons_sent, <- app_assoc.
    rewrite (escape_not_bs y _ Hy2). cbn [option_bind Z.ltb Z.compare]. cbv beta iota.
    rewrite IH. destruct (badurl_loop (x ++ [0]) 0); cbn [bump shift]; [|reflexivity]. rewrite len_cons. f_equal; lia.
  - destruct (esc_text_bs e nb He) as (e' & -> & He').
    pose proof (escape_run _ _ (t ++ x) He Hnb) as Hesc. rewrite <- !app_assoc in *. cbn [app] in *.
    rewrite badurl_loop_0. change (92 =? 41) with false. cbv beta iota.
    replace (eofb (92 :: e' ++ t ++ x ++ [0])) with false
      by (symmetry; replace (e' ++ t ++ x ++ [0]) with ((e' ++ t ++ x) ++ [0]) by (rewrite <- !app_assoc; reflexivity); apply eofb_cons_sent).
    rewrite Hesc. cbn [option_bind]. rewrite len_cons. replace (0 <? 1 + len e') with true by lia.
    replace (Z.to_nat (1 + len e' - 1)) with (length e') by (unfold len; lia).
    rewrite badurl_loop_skipn, IH. destruct (badurl_loop (x ++ [0]) 0); cbn [bump shift]; [|reflexivity].
    rewrite !len_cons, len_app. f_equal; lia.
  - cbn [app]. rewrite badurl_loop_0. change (92 =? 41) with false. cbv beta iota.
    rewrite app_assoc, eofb_cons_sent. rewrite (escape_fail _ Hf). cbn [option_bind Z.ltb Z.compare]. cbv beta iota.
    rewrite <- app_assoc, IH. destruct (badurl_loop (x ++ [0]) 0); cbn [bump shift]; [|reflexivity]. rewrite len_cons. f_equal; lia.
Qed.

Lemma closer_badurl cl r : closer cl r -> badurl_loop (cl ++ r ++ [0]) 0 = Some (len cl).
Proof. intros [r0|]; cbn [app]; [rewrite badurl_loop_0|]; reflexivity. Qed.

Lemma closer_hd cl r : closer cl r -> hd0 (cl ++ r) = 41 \/ hd0 (cl ++ r) = 0.
Proof. intros [r0|]; [left|right]; reflexivity. Qed.

Lemma closer_url_loop cl r : closer cl r -> url_loop (cl ++ r ++ [0]) 0 = Some (true, 0).
Proof. intros [r0|]; cbn [app]; [rewrite url_loop_0, orb_true_r|]; reflexivity. Qed.

Lemma badurl_run rem cl r : rbody rem (cl ++ r) -> closer cl r ->
  badurl_loop (rem ++ cl ++ r ++ [0]) 0 = Some (len rem + len cl).
Proof.
  intros Hb Hc. pose proof (badurl_loop_body rem (cl ++ r) Hb) as H. rewrite <- app_assoc in H. rewrite H.
  rewrite (closer_badurl cl r Hc). reflexivity.
Qed.

(* after the url proper: optional whitespace, then the closer -> URL *)
Lemma url_end_close n ws2 cl r : all_b is_ws ws2 -> closer cl r ->
  url_end n (ws2 ++ cl ++ r ++ [0]) = Some (TURL, n + len ws2 + len cl).
Proof.
  intros Hw Hc. unfold url_end.
  replace (ws2 ++ cl ++ r ++ [0]) with (ws2 ++ (cl ++ r) ++ [0]) by (rewrite <- app_assoc; reflexivity).
  rewrite (scan_while_run is_ws ws2 (cl ++ r) Hw) by (try reflexivity; destruct (closer_hd cl r Hc) as [-> | ->]; reflexivity).
  cbn [option_bind]. rewrite skipz_len_app. destruct Hc as [r0|]; cbn [app].
  - unfold consume_byte. rewrite peekz_0. cbn [option_bind]. reflexivity.
  - unfold consume_byte. cbn. f_equal; f_equal; lia.
Qed.

(* ... or something else -> bad-url up to the closer *)
Lemma url_end_bad n ws2 rem cl r : all_b is_ws ws2 -> rem <> [] -> is_ws (hd0 rem) = false -> hd0 rem <> 41 ->
  rbody rem (cl ++ r) -> closer cl r ->
  url_end n (ws2 ++ rem ++ cl ++ r ++ [0]) = Some (TBadURL, n + len ws2 + len rem + len cl).
Proof.
  intros Hw Hne Hws H41 Hb Hc. unfold url_end.
  replace (ws2 ++ rem ++ cl ++ r ++ [0]) with (ws2 ++ (rem ++ cl ++ r) ++ [0]) by (rewrite <- !app_assoc; reflexivity).
  assert (Hhd : hd0 (rem ++ cl ++ r) = hd0 rem) by (destruct rem; [congruence|reflexivity]).
  rewrite (scan_while_run is_ws ws2 (rem ++ cl ++ r) Hw) by (try reflexivity; rewrite Hhd; exact Hws).
  cbn [option_bind]. rewrite skipz_len_app. unfold consume_byte. rewrite peekz_sent_0, Hhd. cbn [option_bind].
  replace (hd0 rem =? 41) with false by lia. cbn [Z.ltb Z.compare orb].
  replace (eofb ((rem ++ cl ++ r) ++ [0])) with false by (destruct rem; [congruence|symmetry; apply eofb_cons_sent]).
  rewrite <- !app_assoc. rewrite (badurl_run rem cl r Hb Hc). cbn [option_bind]. f_equal; f_equal; lia.
Qed.

(* a quoted url argument s followed by y: a string, a bad string (bad = true), or a string cut by the end of input *)
Inductive qarg : list Z -> list Z -> bool -> Prop :=
| QA_str q sb y : is_quote q -> sbody q sb (q :: y) -> qarg (q :: sb ++ [q]) y false
| QA_bad q sb nl y : is_quote q -> sbody q sb (nl :: y) -> is_nl nl = true -> qarg (q :: sb ++ [nl]) y true
| QA_eof q sb bs : is_quote q -> sbody q sb bs -> bs = [] \/ bs = [92] -> qarg (q :: sb ++ bs) [] false.

Lemma qarg_run s y bad : qarg s y bad ->
  consume_string (s ++ y ++ [0]) = Some (if bad then TBadString else TString, len s) /\
  ((hd0 s =? 34) || (hd0 s =? 39) = true) /\ s <> [].
Proof.
  intros [q sb y0 Hq Hb|q sb nl y0 Hq Hb Hnl|q sb bs Hq Hb Hbs]; (split; [|split; [destruct Hq; subst; reflexivity|discriminate]]).
  - rassoc. rewrite (consume_string_run q sb q y0 Hq Hb (or_introl eq_refl)).
    replace (is_nl q) with false by (destruct Hq; subst; reflexivity). reflexivity.
  - rassoc. rewrite (consume_string_run q sb nl y0 Hq Hb (or_intror Hnl)). rewrite Hnl. reflexivity.
  - rassoc. apply consume_string_eof; assumption.
Qed.

(* Next on  name "(" ws* z  with a url name: the url argument decides *)
Lemma scan_url name ws1 z ty n : url_name name -> all_b is_ws ws1 -> is_ws (hd0 z) = false ->
  url_arg (len name + 1 + len ws1) (z ++ [0]) = Some (ty, n) -> is_err ty = false ->
  css_scan (name ++ 40 :: ws1 ++ z ++ [0]) = Some (ty, n).
Proof.
  intros [Ht0 Hurl] Hw Hz Harg Hty.
  assert (Ht : ident_text name (40 :: ws1 ++ z)) by (eapply ident_text_follow; [exact Ht0|split; [reflexivity|split; discriminate]]).
  pose proof (ident_token_run name _ (or_introl Ht) (name_follow_paren _)) as Hit.
  pose proof (ident_text_len name _ Ht) as Hlen.
  assert (Hil : consume_identlike (name ++ (40 :: ws1 ++ z) ++ [0]) = Some (ty, n)).
  { unfold consume_identlike. rewrite Hit. cbn [option_bind]. replace (len name =? 0) with false by lia.
    rewrite skipz_len_app. cbn [app]. rewrite peekz_0. cbn [option_bind]. change (negb (40 =? 40)) with false.
    cbv beta iota. rewrite firstz_len_app. rewrite Hurl. cbn [negb tl]. rewrite <- app_assoc.
    rewrite (scan_while_run is_ws ws1 z Hw Hz eq_refl). cbn [option_bind]. rewrite skipz_len_app. exact Harg. }
  pose proof (scan_via_identlike name (40 :: ws1 ++ z) ty n) as H. rassoc_in H. rassoc_in Hil. apply H; [eauto| |exact Hil|exact Hty].
  destruct name as [|c [|c1 n']]; try exact I. intros _. exfalso. unfold is_url_name, strip_backslash in Hurl.
  cbn [filter] in Hurl. destruct (negb (c =? 92)); discriminate.
Qed.

Lemma url_arg_quoted n s y bad : qarg s y bad ->
  url_arg n (s ++ y ++ [0]) =
    if bad then r <- badurl_loop (y ++ [0]) 0 ;; Some (TBadURL, n + len s + r) else url_end (n + len s) (y ++ [0]).
Proof.
  intros Hs. destruct (qarg_run _ _ _ Hs) as (Hrun & Hq & Hne). unfold url_arg. rewrite Hrun.
  destruct s as [|c s]; [congruence|]. cbn [app hd0] in *. rewrite peekz_0. cbn [option_bind]. rewrite Hq.
  cbn [fst snd]. change (c :: s ++ y ++ [0]) with ((c :: s) ++ y ++ [0]). rewrite skipz_len_app.
  destruct bad; reflexivity.
Qed.

Definition not_quote (c : Z) : Prop := (c =? 34) || (c =? 39) = false.

Lemma ubody_hd body x : ubody body x -> body <> [] -> (url_byte (hd0 body) = true \/ hd0 body = 92).
Proof.
  intros [x0|c t x0 Hc _|e nb t x0 He _ _] Hne; [congruence|left; exact Hc|right].
  destruct (esc_text_bs _ _ He) as (e' & -> & _). reflexivity.
Qed.

Lemma ubody_hd_ok body x : ubody body x -> body <> [] -> not_quote (hd0 body) /\ is_ws (hd0 body) = false.
Proof.
  intros Hb Hne. destruct (ubody_hd _ _ Hb Hne) as [H|H].
  - unfold url_byte in H. apply andb_true_iff in H. destruct H as [H _]. unfold not_quote. revert H. cls. lia.
  - rewrite H. split; reflexivity.
Qed.

(* the unquoted argument runs to x where consumeUnquotedURL returns true (")" or end of input) *)
Lemma url_arg_open n body x : ubody body x -> not_quote (hd0 (body ++ x)) -> url_loop (x ++ [0]) 0 = Some (true, 0) ->
  url_arg n (body ++ x ++ [0]) = url_end (n + len body) (x ++ [0]).
Proof.
  intros Hb Hq Hx. unfold url_arg. rewrite app_assoc, peekz_sent_0, <- app_assoc. cbn [option_bind]. rewrite Hq.
  rewrite (url_loop_body body x Hb), Hx. cbn [shift2 option_bind fst snd]. rewrite Z.add_0_r, skipz_len_app. reflexivity.
Qed.

(* ... or to a byte where it returns false *)
Lemma url_arg_stop n body x : ubody body x -> not_quote (hd0 (body ++ x)) -> url_loop (x ++ [0]) 0 = Some (false, 0) ->
  url_arg n (body ++ x ++ [0]) =
    (ws <- consume_whitespace (x ++ [0]) ;;
     if 0 <? ws then url_end (n + len body + 1) (skipz (len body + 1) (body ++ x ++ [0]))
     else r <- badurl_loop (x ++ [0]) 0 ;; Some (TBadURL, n + len body + r)).
Proof.
  intros Hb Hq Hx. unfold url_arg. rewrite app_assoc, peekz_sent_0, <- app_assoc. cbn [option_bind]. rewrite Hq.
  rewrite (url_loop_body body x Hb), Hx. cbn [shift2 option_bind fst snd]. rewrite Z.add_0_r, skipz_len_app. reflexivity.
Qed.

Lemma url_loop_ws w x : is_ws w = true -> url_loop (w :: x ++ [0]) 0 = Some (false, 0).
Proof.
  intros Hw. rewrite url_loop_0, eofb_cons_sent, andb_false_r. cbn [orb].
  replace (w =? 41) with false by (revert Hw; cls; lia). replace (url_bad_char w) with true by (revert Hw; cls; lia).
  replace (w =? 92) with false by (revert Hw; cls; lia). reflexivity.
Qed.

(* a byte that stops an unquoted url without being whitespace: a quote, "(", a control byte, DEL, or a backslash that
   starts no escape *)
Definition url_stop (bc : Z) (y : list Z) : Prop :=
  url_bad_char bc = true /\ is_ws bc = false /\ (bc = 92 -> y = [] \/ is_nl (hd0 y) = true).

Lemma url_loop_stop bc y : url_stop bc y -> url_loop (bc :: y ++ [0]) 0 = Some (false, 0).
Proof.
  intros (Hb & Hw & H92). rewrite url_loop_0, eofb_cons_sent, andb_false_r. cbn [orb].
  replace (bc =? 41) with false by (revert Hb; cls; lia). rewrite Hb.
  destruct (bc =? 92) eqn:E; [|reflexivity]. assert (bc = 92) by lia. subst bc.
  rewrite (escape_fail y (H92 eq_refl)). reflexivity.
Qed.

Lemma munch_url_unquoted name ws1 body ws2 cl r :
  url_name name -> all_b is_ws ws1 -> ubody body (ws2 ++ cl ++ r) -> all_b is_ws ws2 -> (body = [] -> ws2 = []) ->
  closer cl r -> munch TURL (name ++ 40 :: ws1 ++ body ++ ws2 ++ cl) r.
Proof.
  intros Hn Hw1 Hb Hw2 Hbw Hc. split; [|split; [reflexivity|destruct name; discriminate]].
  assert (Hhd : not_quote (hd0 (body ++ ws2 ++ cl ++ r)) /\ is_ws (hd0 (body ++ ws2 ++ cl ++ r)) = false).
  { destruct body as [|b0 body].
    - rewrite (Hbw eq_refl). cbn [app]. destruct (closer_hd cl r Hc) as [-> | ->]; split; reflexivity.
    - apply (ubody_hd_ok _ _ Hb). discriminate. }
  destruct Hhd as [Hq Hz].
  pose proof (scan_url name ws1 (body ++ ws2 ++ cl ++ r) TURL (len (name ++ 40 :: ws1 ++ body ++ ws2 ++ cl)) Hn Hw1 Hz) as H.
  rassoc_in H. rassoc. apply H; [|reflexivity]. clear H.
  destruct ws2 as [|w ws2].
  - cbn [app] in *. pose proof (url_arg_open (len name + 1 + len ws1) body (cl ++ r) Hb Hq) as Ho. rassoc_in Ho.
    rewrite Ho by (apply closer_url_loop; exact Hc). clear Ho.
    pose proof (url_end_close (len name + 1 + len ws1 + len body) [] cl r (Forall_nil _) Hc) as He. cbn [app] in He.
    rewrite He. rewrite !len_app, len_cons, !len_app. change (len (@nil Z)) with 0. f_equal; f_equal; lia.
  - inversion Hw2 as [|? ? Hw Hw2']; subst.
    pose proof (url_arg_stop (len name + 1 + len ws1) body (w :: ws2 ++ cl ++ r) Hb Hq) as Hs. cbn [app] in Hs. rassoc_in Hs.
    cbn [app]. rewrite Hs by (pose proof (url_loop_ws w (ws2 ++ cl ++ r) Hw) as Hl; rassoc_in Hl; exact Hl). clear Hs.
    unfold consume_whitespace. rewrite peekz_0. cbn [option_bind]. rewrite Hw. cbn [Z.ltb Z.compare]. cbv beta iota.
    replace (len body + 1) with (len (body ++ [w])) by (rewrite len_app; reflexivity).
    replace (body ++ w :: ws2 ++ cl ++ r ++ [0]) with ((body ++ [w]) ++ ws2 ++ cl ++ r ++ [0]) by (rewrite <- app_assoc; reflexivity).
    rewrite skipz_len_app. rewrite (url_end_close _ ws2 cl r Hw2' Hc).
    rewrite !len_app, !len_cons, !len_app, len_cons, len_app. change (len [w]) with 1. f_equal; f_equal; lia.
Qed.

Lemma munch_url_quoted name ws1 s ws2 cl r :
  url_name name -> all_b is_ws ws1 -> qarg s (ws2 ++ cl ++ r) false -> all_b is_ws ws2 -> closer cl r ->
  munch TURL (name ++ 40 :: ws1 ++ s ++ ws2 ++ cl) r.
Proof.
  intros Hn Hw1 Hs Hw2 Hc. split; [|split; [reflexivity|destruct name; discriminate]].
  destruct (qarg_run _ _ _ Hs) as (Hrun & Hq & Hne).
  assert (Hhd : hd0 (s ++ ws2 ++ cl ++ r) = hd0 s) by (destruct s; [congruence|reflexivity]).
  assert (Hz : is_ws (hd0 (s ++ ws2 ++ cl ++ r)) = false) by (rewrite Hhd; revert Hq; cls; lia).
  pose proof (scan_url name ws1 (s ++ ws2 ++ cl ++ r) TURL (len (name ++ 40 :: ws1 ++ s ++ ws2 ++ cl)) Hn Hw1 Hz) as H.
  rassoc_in H. rassoc. apply H; [|reflexivity]. clear H.
  pose proof (url_arg_quoted (len name + 1 + len ws1) s (ws2 ++ cl ++ r) false Hs) as Ha. rassoc_in Ha. rewrite Ha.
  rewrite (url_end_close _ ws2 cl r Hw2 Hc).
  rewrite !len_app, len_cons, !len_app. f_equal; f_equal; lia.
Qed.

(* bad-url: the unquoted url is cut by a byte that is not allowed in it *)
Lemma munch_badurl_char name ws1 body bc rem cl r :
  url_name name -> all_b is_ws ws1 -> ubody body (bc :: rem ++ cl ++ r) -> url_stop bc (rem ++ cl ++ r) ->
  (body = [] -> not_quote bc) -> rbody (bc :: rem) (cl ++ r) -> closer cl r ->
  munch TBadURL (name ++ 40 :: ws1 ++ body ++ bc :: rem ++ cl) r.
Proof.
  intros Hn Hw1 Hb Hst Hbq Hr Hc. split; [|split; [reflexivity|destruct name; discriminate]].
  assert (Hhd : not_quote (hd0 (body ++ bc :: rem ++ cl ++ r)) /\ is_ws (hd0 (body ++ bc :: rem ++ cl ++ r)) = false).
  { destruct body as [|b0 body].
    - cbn [app hd0]. split; [apply Hbq; reflexivity|apply Hst].
    - apply (ubody_hd_ok _ _ Hb). discriminate. }
  destruct Hhd as [Hq Hz].
  pose proof (scan_url name ws1 (body ++ bc :: rem ++ cl ++ r) TBadURL (len (name ++ 40 :: ws1 ++ body ++ bc :: rem ++ cl)) Hn Hw1 Hz) as H.
  rassoc_in H. rassoc. apply H; [|reflexivity]. clear H.
  pose proof (url_arg_stop (len name + 1 + len ws1) body (bc :: rem ++ cl ++ r) Hb Hq) as Hs. cbn [app] in Hs. rassoc_in Hs.
  rewrite Hs by (pose proof (url_loop_stop bc (rem ++ cl ++ r) Hst) as Hl; rassoc_in Hl; exact Hl). clear Hs.
  unfold consume_whitespace. rewrite peekz_0. cbn [option_bind]. destruct Hst as (_ & Hws & _). rewrite Hws.
  cbn [Z.ltb Z.compare]. cbv beta iota.
  pose proof (badurl_run (bc :: rem) cl r Hr Hc) as Hbr. cbn [app] in Hbr. rewrite Hbr. cbn [option_bind].
  rewrite !len_app, !len_cons, !len_app, len_cons, len_app. f_equal; f_equal; lia.
Qed.

(* bad-url: whitespace inside the unquoted url, then more text *)
Lemma munch_badurl_ws name ws1 body ws2 rem cl r :
  url_name name -> all_b is_ws ws1 -> ubody body (ws2 ++ rem ++ cl ++ r) -> body <> [] -> all_b is_ws ws2 -> ws2 <> [] ->
  rem <> [] -> is_ws (hd0 rem) = false -> hd0 rem <> 41 -> rbody rem (cl ++ r) -> closer cl r ->
  munch TBadURL (name ++ 40 :: ws1 ++ body ++ ws2 ++ rem ++ cl) r.
Proof.
  intros Hn Hw1 Hb Hbne Hw2 Hw2ne Hrne Hrw Hr41 Hr Hc. split; [|split; [reflexivity|destruct name; discriminate]].
  destruct (ubody_hd_ok _ _ Hb Hbne) as [Hq0 Hz0].
  assert (Hhd : hd0 (body ++ ws2 ++ rem ++ cl ++ r) = hd0 body) by (destruct body; [congruence|reflexivity]).
  assert (Hq : not_quote (hd0 (body ++ ws2 ++ rem ++ cl ++ r))) by (rewrite Hhd; exact Hq0).
  assert (Hz : is_ws (hd0 (body ++ ws2 ++ rem ++ cl ++ r)) = false) by (rewrite Hhd; exact Hz0).
  pose proof (scan_url name ws1 (body ++ ws2 ++ rem ++ cl ++ r) TBadURL (len (name ++ 40 :: ws1 ++ body ++ ws2 ++ rem ++ cl)) Hn Hw1 Hz) as H.
  rassoc_in H. rassoc. apply H; [|reflexivity]. clear H.
  destruct ws2 as [|w ws2]; [congruence|]. inversion Hw2 as [|? ? Hw Hw2']; subst.
  pose proof (url_arg_stop (len name + 1 + len ws1) body (w :: ws2 ++ rem ++ cl ++ r) Hb Hq) as Hs. cbn [app] in Hs. rassoc_in Hs.
  cbn [app]. rewrite Hs by (pose proof (url_loop_ws w (ws2 ++ rem ++ cl ++ r) Hw) as Hl; rassoc_in Hl; exact Hl). clear Hs.
  unfold consume_whitespace. rewrite peekz_0. cbn [option_bind]. rewrite Hw. cbn [Z.ltb Z.compare]. cbv beta iota.
  replace (len body + 1) with (len (body ++ [w])) by (rewrite len_app; reflexivity).
  replace (body ++ w :: ws2 ++ rem ++ cl ++ r ++ [0]) with ((body ++ [w]) ++ ws2 ++ rem ++ cl ++ r ++ [0]) by (rewrite <- app_assoc; reflexivity).
  rewrite skipz_len_app. rewrite (url_end_bad _ ws2 rem cl r Hw2' Hrne Hrw Hr41 Hr Hc).
  rewrite !len_app, !len_cons, !len_app, len_cons, !len_app. change (len [w]) with 1. f_equal; f_equal; lia.
Qed.

(* bad-url: text after the quoted url *)
Lemma munch_badurl_after_string name ws1 s ws2 rem cl r :
  url_name name -> all_b is_ws ws1 -> qarg s (ws2 ++ rem ++ cl ++ r) false -> all_b is_ws ws2 ->
  rem <> [] -> is_ws (hd0 rem) = false -> hd0 rem <> 41 -> rbody rem (cl ++ r) -> closer cl r ->
  munch TBadURL (name ++ 40 :: ws1 ++ s ++ ws2 ++ rem ++ cl) r.
Proof.
  intros Hn Hw1 Hs Hw2 Hrne Hrw Hr41 Hr Hc. split; [|split; [reflexivity|destruct name; discriminate]].
  destruct (qarg_run _ _ _ Hs) as (Hrun & Hq & Hne).
  assert (Hhd : hd0 (s ++ ws2 ++ rem ++ cl ++ r) = hd0 s) by (destruct s; [congruence|reflexivity]).
  assert (Hz : is_ws (hd0 (s ++ ws2 ++ rem ++ cl ++ r)) = false) by (rewrite Hhd; revert Hq; cls; lia).
  pose proof (scan_url name ws1 (s ++ ws2 ++ rem ++ cl ++ r) TBadURL (len (name ++ 40 :: ws1 ++ s ++ ws2 ++ rem ++ cl)) Hn Hw1 Hz) as H.
  rassoc_in H. rassoc. apply H; [|reflexivity]. clear H.
  pose proof (url_arg_quoted (len name + 1 + len ws1) s (ws2 ++ rem ++ cl ++ r) false Hs) as Ha. rassoc_in Ha. rewrite Ha.
  rewrite (url_end_bad _ ws2 rem cl r Hw2 Hrne Hrw Hr41 Hr Hc).
  rewrite !len_app, len_cons, !len_app. f_equal; f_equal; lia.
Qed.

(* bad-url: the quoted url is a bad string *)
Lemma munch_badurl_bad_string name ws1 s rem cl r :
  url_name name -> all_b is_ws ws1 -> qarg s (rem ++ cl ++ r) true -> rbody rem (cl ++ r) -> closer cl r ->
  munch TBadURL (name ++ 40 :: ws1 ++ s ++ rem ++ cl) r.
Proof.
  intros Hn Hw1 Hs Hr Hc. split; [|split; [reflexivity|destruct name; discriminate]].
  destruct (qarg_run _ _ _ Hs) as (Hrun & Hq & Hne).
  assert (Hhd : hd0 (s ++ rem ++ cl ++ r) = hd0 s) by (destruct s; [congruence|reflexivity]).
  assert (Hz : is_ws (hd0 (s ++ rem ++ cl ++ r)) = false) by (rewrite Hhd; revert Hq; cls; lia).
  pose proof (scan_url name ws1 (s ++ rem ++ cl ++ r) TBadURL (len (name ++ 40 :: ws1 ++ s ++ rem ++ cl)) Hn Hw1 Hz) as H.
  rassoc_in H. rassoc. apply H; [|reflexivity]. clear H.
  pose proof (url_arg_quoted (len name + 1 + len ws1) s (rem ++ cl ++ r) true Hs) as Ha. rassoc_in Ha. rewrite Ha.
  rewrite (badurl_run rem cl r Hr Hc). cbn [option_bind].
  rewrite !len_app, len_cons, !len_app. f_equal; f_equal; lia.
Qed.

(* --- the token grammar, class by class, with what may follow each token ------------------------------------------ *)
(* tok_spec ty t r : t is a text of a token of type ty according to the railroad diagrams of CSS Syntax (as this
   lexer reads them), and the rest r of the input does not merge with it.  Every token type has its constructors:
   whitespace, the fixed texts, comments (closed / cut by the end of input), names with escapes (ident, custom
   property, function, at-keyword, hash, dimension unit), numbers, strings and bad strings with escapes and line
   continuations, url( ) unquoted and quoted, the four bad-url shapes with the remnants up to ")", unicode-range,
   and every delimiter byte with the followers that leave it a delimiter.  The converse (every lexer output is of this form) is
   not proved. *)
Inductive tok_spec : ttype -> list Z -> list Z -> Prop :=
| TS_ws t r : t <> [] -> all_b is_ws t -> is_ws (hd0 r) = false -> tok_spec TWhitespace t r
| TS_fixed ty t r : In (ty, t) fixed_tokens -> tok_spec ty t r
| TS_comment body r : no_close body = true -> tok_spec TComment (47 :: 42 :: body ++ [42; 47]) r
| TS_ident t r : ident_text t r -> name_follow r -> hd0 r <> 40 -> u_follow t r -> tok_spec TIdent t r
| TS_custom t r : custom_text t r -> name_follow r -> (t = [45; 45] -> hd0 r <> 62) -> tok_spec TCustomPropertyName t r
| TS_function name r : ident_text name (40 :: r) -> is_url_name name = false -> tok_spec TFunction (name ++ [40]) r
| TS_at name r : ident_text name r \/ custom_text name r -> name_follow r -> tok_spec TAtKeyword (64 :: name) r
| TS_hash body r : body <> [] -> nbody body r -> name_follow r -> tok_spec THash (35 :: body) r
| TS_number sg ip fd ex r :
    sign_text sg -> all_b is_digit ip -> all_b is_digit fd -> (ip <> [] \/ fd <> []) -> exp_text ex ->
    num_follow (nonemptyb fd) (nonemptyb ex) r -> hd0 r <> 37 -> no_name_start r ->
    tok_spec TNumber (sg ++ ip ++ frac fd ++ ex) r
| TS_percentage sg ip fd ex r :
    sign_text sg -> all_b is_digit ip -> all_b is_digit fd -> (ip <> [] \/ fd <> []) -> exp_text ex ->
    tok_spec TPercentage ((sg ++ ip ++ frac fd ++ ex) ++ [37]) r
| TS_dimension sg ip fd ex unit r :
    sign_text sg -> all_b is_digit ip -> all_b is_digit fd -> (ip <> [] \/ fd <> []) -> exp_text ex ->
    ident_text unit r \/ custom_text unit r -> num_follow (nonemptyb fd) (nonemptyb ex) (unit ++ r) -> name_follow r ->
    tok_spec TDimension ((sg ++ ip ++ frac fd ++ ex) ++ unit) r
| TS_string q body r : is_quote q -> sbody q body (q :: r) -> tok_spec TString (q :: body ++ [q]) r
| TS_bad_string q body nl r : is_quote q -> sbody q body (nl :: r) -> is_nl nl = true ->
    tok_spec TBadString (q :: body ++ [nl]) r
| TS_string_eof q body bs : is_quote q -> sbody q body bs -> bs = [] \/ bs = [92] -> tok_spec TString (q :: body ++ bs) []
| TS_delim c r : delim_ok c r -> tok_spec TDelim [c] r
| TS_unicode_range t r : urange_text t r -> tok_spec TUnicodeRange t r
| TS_comment_eof body : no_close body = true -> tok_spec TComment (47 :: 42 :: body) []
| TS_url_unquoted name ws1 body ws2 cl r :
    url_name name -> all_b is_ws ws1 -> ubody body (ws2 ++ cl ++ r) -> all_b is_ws ws2 -> (body = [] -> ws2 = []) ->
    closer cl r -> tok_spec TURL (name ++ 40 :: ws1 ++ body ++ ws2 ++ cl) r
| TS_url_quoted name ws1 s ws2 cl r :
    url_name name -> all_b is_ws ws1 -> qarg s (ws2 ++ cl ++ r) false -> all_b is_ws ws2 -> closer cl r ->
    tok_spec TURL (name ++ 40 :: ws1 ++ s ++ ws2 ++ cl) r
| TS_badurl_char name ws1 body bc rem cl r :
    url_name name -> all_b is_ws ws1 -> ubody body (bc :: rem ++ cl ++ r) -> url_stop bc (rem ++ cl ++ r) ->
    (body = [] -> not_quote bc) -> rbody (bc :: rem) (cl ++ r) -> closer cl r ->
    tok_spec TBadURL (name ++ 40 :: ws1 ++ body ++ bc :: rem ++ cl) r
| TS_badurl_ws name ws1 body ws2 rem cl r :
    url_name name -> all_b is_ws ws1 -> ubody body (ws2 ++ rem ++ cl ++ r) -> body <> [] -> all_b is_ws ws2 -> ws2 <> [] ->
    rem <> [] -> is_ws (hd0 rem) = false -> hd0 rem <> 41 -> rbody rem (cl ++ r) -> closer cl r ->
    tok_spec TBadURL (name ++ 40 :: ws1 ++ body ++ ws2 ++ rem ++ cl) r
| TS_badurl_after_string name ws1 s ws2 rem cl r :
    url_name name -> all_b is_ws ws1 -> qarg s (ws2 ++ rem ++ cl ++ r) false -> all_b is_ws ws2 ->
    rem <> [] -> is_ws (hd0 rem) = false -> hd0 rem <> 41 -> rbody rem (cl ++ r) -> closer cl r ->
    tok_spec TBadURL (name ++ 40 :: ws1 ++ s ++ ws2 ++ rem ++ cl) r
| TS_badurl_bad_string name ws1 s rem cl r :
    url_name name -> all_b is_ws ws1 -> qarg s (rem ++ cl ++ r) true -> rbody rem (cl ++ r) -> closer cl r ->
    tok_spec TBadURL (name ++ 40 :: ws1 ++ s ++ rem ++ cl) r.

Lemma tok_spec_munch ty t r : tok_spec ty t r -> munch ty t r.
Proof.
  intros H. destruct H.
  - apply munch_ws; assumption.
  - apply munch_fixed; assumption.
  - apply munch_comment; assumption.
  - apply munch_ident; assumption.
  - apply munch_custom; assumption.
  - apply munch_function; assumption.
  - apply munch_at_keyword; assumption.
  - apply munch_hash; assumption.
  - apply munch_number; assumption.
  - apply munch_percentage; assumption.
  - apply munch_dimension; assumption.
  - apply munch_string; assumption.
  - apply munch_bad_string; assumption.
  - apply munch_string_eof; assumption.
  - apply munch_delim; assumption.
  - apply munch_unicode_range; assumption.
  - apply munch_comment_eof; assumption.
  - apply munch_url_unquoted; assumption.
  - apply munch_url_quoted; assumption.
  - apply munch_badurl_char; assumption.
  - apply munch_badurl_ws; assumption.
  - apply munch_badurl_after_string; assumption.
  - apply munch_badurl_bad_string; assumption.
Qed.

(* every token is written according to its class and may be followed by the texts of the tokens after it *)
Fixpoint seq_ok (toks : list (ttype * list Z)) : Prop :=
  match toks with
  | [] => True
  | t :: rest => tok_spec (fst t) (snd t) (concat (map snd rest)) /\ seq_ok rest
  end.

Lemma seq_ok_split toks : seq_ok toks -> forall pre t post, toks = pre ++ t :: post ->
  tok_spec (fst t) (snd t) (concat (map snd post)).
Proof.
  intros H pre. revert toks H. induction pre as [|p pre IH]; intros toks H t post ->; cbn [app seq_ok] in H.
  - destruct H as [H _]. exact H.
  - destruct H as [_ H]. eapply IH; [exact H|reflexivity].
Qed.

(* C07 (partial): a token sequence over the proved classes, separated wherever two tokens would merge, lexes to
   exactly that sequence of types and texts *)
Lemma css_token_sequences_proof : forall toks, seq_ok toks -> css_lex (concat (map snd toks)) = LexDone toks.
Proof.
  intros toks H. apply css_lex_seq. intros pre t post E. apply tok_spec_munch. eapply seq_ok_split; eassumption.
Qed.

(* "a: 1.e3px" written as  a  :  ws  1  .  e3px : the '.' is given back by the number, and "-1e" "+" ... *)
Ltac nf_solve := split; [reflexivity|apply dead_bs_not; cbn; lia].
Ltac nns_solve := split; [reflexivity|split; [apply dead_bs_not; cbn; lia|cbn; intros; lia]].
Example seq_ok_example :
  seq_ok [ (TIdent, [97]); (TColon, [58]); (TWhitespace, [32]); (TNumber, [49]); (TColon, [58]);
           (TDimension, [45; 49; 46; 53; 101; 109]); (TSemicolon, [59]);
           (TString, [34; 120; 34]); (TComment, [47; 42; 42; 47]); (TPercentage, [53; 37]) ].
Proof.
  assert (Hall : forall P l, forallb P l = true -> all_b P l).
  { intros P l H. unfold all_b. rewrite Forall_forall. rewrite forallb_forall in H. exact H. }
  cbn [seq_ok fst snd map concat app].
  repeat split.
  - apply TS_ident; [apply IT_core, (IC_char 97 []); [reflexivity|constructor]|nf_solve|cbn; lia|cbn; intros; discriminate].
  - apply TS_fixed. cbn. auto.
  - apply TS_ws; [discriminate|apply Hall; reflexivity|reflexivity].
  - apply (TS_number [] [49] [] []); [left; reflexivity|apply Hall; reflexivity|constructor|left; discriminate|constructor| |cbn; lia|nns_solve].
    repeat split; cbn; intros; try lia; try discriminate.
  - apply TS_fixed. cbn. auto.
  - apply (TS_dimension [45] [49] [53] [] [101; 109]);
      [right; right; reflexivity|apply Hall; reflexivity|apply Hall; reflexivity|left; discriminate|constructor| | |nf_solve].
    + left. apply IT_core, (IC_char 101 [109]); [reflexivity|apply all_b_nbody, Hall; reflexivity].
    + repeat split; cbn; intros; try lia; try discriminate.
  - apply TS_fixed. cbn. auto 10.
  - apply (TS_string 34 [120]); [left; reflexivity|apply all_b_sbody, Hall; reflexivity].
  - apply (TS_comment []). reflexivity.
  - apply (TS_percentage [] [53] [] []); [left; reflexivity|apply Hall; reflexivity|constructor|left; discriminate|constructor].
Qed.

(*  \41 b  ws  url(a\)b)  url(a b\))  \  newline : a hex escape ends at its single whitespace, "\)" does not close a
    url or the remnants of a bad url, and a backslash before a line break is a delimiter *)
Example seq_ok_example_escapes :
  seq_ok [ (TIdent, [92; 52; 49; 32; 98]); (TWhitespace, [32]);
           (TURL, [117; 114; 108; 40; 97; 92; 41; 98; 41]);
           (TBadURL, [117; 114; 108; 40; 97; 32; 98; 92; 41; 41]);
           (TDelim, [92]); (TWhitespace, [10]) ].
Proof.
  assert (Hall : forall P l, forallb P l = true -> all_b P l).
  { intros P l H. unfold all_b. rewrite Forall_forall. rewrite forallb_forall in H. exact H. }
  assert (Hurl : url_name [117; 114; 108]).
  { split; [|reflexivity]. apply IT_core, (IC_char 117 [114; 108]); [reflexivity|apply all_b_nbody, Hall; reflexivity]. }
  assert (Hesc : esc_text [92; 41] any_next) by (apply Esc_char; [reflexivity|reflexivity|lia]).
  cbn [seq_ok fst snd map concat app].
  repeat split.
  - apply TS_ident; [|nf_solve|cbn; lia|exact I].
    apply IT_core. apply (IC_esc [92; 52; 49; 32] any_next [98]); [|reflexivity|apply NB_char; [reflexivity|constructor]].
    apply (Esc_hex_ws [52; 49] 32); [apply Hall; reflexivity|unfold len; cbn; lia|reflexivity|lia].
  - apply TS_ws; [discriminate|apply Hall; reflexivity|reflexivity].
  - apply (TS_url_unquoted [117; 114; 108] [] [97; 92; 41; 98] [] [41]);
      [exact Hurl|constructor| |constructor|reflexivity|constructor].
    apply UB_char; [reflexivity|]. apply (UB_esc [92; 41] any_next [98]); [exact Hesc|reflexivity|].
    apply UB_char; [reflexivity|constructor].
  - apply (TS_badurl_ws [117; 114; 108] [] [97] [32] [98; 92; 41] [41]);
      [exact Hurl|constructor|apply UB_char; [reflexivity|constructor]|discriminate|apply Hall; reflexivity|discriminate
      |discriminate|reflexivity|cbn; lia| |constructor].
    apply RB_char; [lia|lia|]. apply (RB_esc [92; 41] any_next []); [exact Hesc|reflexivity|constructor].
  - apply TS_delim. unfold delim_ok. do 11 right. split; [reflexivity|right; reflexivity].
  - apply TS_ws; [discriminate|apply Hall; reflexivity|reflexivity].
Qed.
