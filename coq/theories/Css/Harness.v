(* Css/Harness.v — correspondence drivers for the CSS lexer model (C07). *)
From Verif Require Import Common.Base Common.Codec Common.Lx Css.Model.

(* per Next call: type, Offset() after the call, len(data), data ; after an ErrorToken additionally
   the error code of Err() (1 = io.EOF, 0 = nil) ; the driver calls Next [extra] more times after the
   first ErrorToken, then writes -2.  -1 = panic, -3 = the call budget len+4 was exhausted. *)
Fixpoint lex_enc (fuel : nat) (z : lx) (extra : nat) : list Z :=
  match fuel with
  | O => [-3]
  | S f =>
      match css_next z with
      | None => [-1]
      | Some (ty, b, z') =>
          tt_code ty :: lpos z' :: len b :: b ++
          (if is_err ty then
             (if at_end z' then 1 else 0) ::
             match extra with O => [-2] | S e => lex_enc f z' e end
           else lex_enc f z' extra)
      end
  end.

(* case: |d| d *)
Definition run_csslex (l : list Z) : list Z :=
  let '(d, _) := take_list l in
  lex_enc (length d + 4) (lx_init d) 2.

Definition enc_ob (o : option bool) : Z :=
  match o with Some true => 1 | Some false => 0 | None => -1 end.

(* case: |b| b  ->  IsIdent(b), IsURLUnquoted(b) *)
Definition run_cssutil (l : list Z) : list Z :=
  let '(b, _) := take_list l in
  [enc_ob (is_ident b); enc_ob (is_url_unquoted b)].
