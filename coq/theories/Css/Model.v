(* Css/Model.v — executable model of the CSS lexer (/repo/css/lex.go) and of IsIdent / IsURLUnquoted
   (/repo/css/util.go).  Definitions only.

   Reading guide.  Every consume* function of lex.go is transcribed as a function of the UNREAD
   BUFFER l : list Z — the bytes from Peek(0) on, the NUL terminator included, i.e. [suffix z] of the
   cursor z (Common/Lx.v).  So
     l.r.Peek(i)           is  peekz l i        (None = index outside buf = Go panics)
     l.r.Err() != nil      is  eofb l           (in-memory input: io.EOF once pos >= len(buf)-1)
     l.r.Move(n); rest     is  rest on skipz n l (tl l for n = 1)
   and the result of a function is the number of bytes it has moved over when it returns.
   Functions that return false after Rewind(mark)/Move(-k) to where they started return 0 (every such
   function moves at least one byte when it returns true); functions that return false WITHOUT
   rewinding (consumeUnquotedURL) or return a token type return a pair.
   Loops whose body may move more than one byte (an escape) carry the number k of bytes that the
   last consumeEscape has already moved over: the body runs again when k is back to 0.  This keeps
   every loop a structural recursion on the unread buffer (no fuel). *)
From Verif Require Import Common.Base Common.Lx.

Inductive ttype :=
| TError | TIdent | TFunction | TAtKeyword | THash | TString | TBadString | TURL | TBadURL | TDelim
| TNumber | TPercentage | TDimension | TUnicodeRange | TIncludeMatch | TDashMatch | TPrefixMatch
| TSuffixMatch | TSubstringMatch | TColumn | TWhitespace | TCDO | TCDC | TColon | TSemicolon | TComma
| TLeftBracket | TRightBracket | TLeftParenthesis | TRightParenthesis | TLeftBrace | TRightBrace
| TComment | TEmpty | TCustomPropertyName | TCustomPropertyValue.

(* the numeric value of the Go constant (iota order in lex.go) *)
Definition tt_code (t : ttype) : Z :=
  match t with
  | TError => 0 | TIdent => 1 | TFunction => 2 | TAtKeyword => 3 | THash => 4 | TString => 5
  | TBadString => 6 | TURL => 7 | TBadURL => 8 | TDelim => 9 | TNumber => 10 | TPercentage => 11
  | TDimension => 12 | TUnicodeRange => 13 | TIncludeMatch => 14 | TDashMatch => 15
  | TPrefixMatch => 16 | TSuffixMatch => 17 | TSubstringMatch => 18 | TColumn => 19
  | TWhitespace => 20 | TCDO => 21 | TCDC => 22 | TColon => 23 | TSemicolon => 24 | TComma => 25
  | TLeftBracket => 26 | TRightBracket => 27 | TLeftParenthesis => 28 | TRightParenthesis => 29
  | TLeftBrace => 30 | TRightBrace => 31 | TComment => 32 | TEmpty => 33
  | TCustomPropertyName => 34 | TCustomPropertyValue => 35
  end.

Definition tt_eqb (a b : ttype) : bool := tt_code a =? tt_code b.
Definition is_err (t : ttype) : bool := match t with TError => true | _ => false end.

(* --- byte classes -------------------------------------------------------------------- *)
Definition is_ws (c : Z) : bool := (c =? 32) || (c =? 9) || (c =? 10) || (c =? 13) || (c =? 12).
Definition is_nl (c : Z) : bool := (c =? 10) || (c =? 13) || (c =? 12).
Definition is_digit (c : Z) : bool := (48 <=? c) && (c <=? 57).
Definition is_hex (c : Z) : bool :=
  is_digit c || ((97 <=? c) && (c <=? 102)) || ((65 <=? c) && (c <=? 70)).
Definition is_letter (c : Z) : bool := ((97 <=? c) && (c <=? 122)) || ((65 <=? c) && (c <=? 90)).
Definition ident_start (c : Z) : bool := is_letter c || (c =? 95) || (128 <=? c).
Definition ident_char (c : Z) : bool := is_letter c || is_digit c || (c =? 95) || (c =? 45) || (128 <=? c).
Definition is_sign (c : Z) : bool := (c =? 43) || (c =? 45).
Definition is_qmark (c : Z) : bool := c =? 63.

(* l.r.Err() != nil : the cursor is at (or past) the terminator *)
Definition eofb (l : list Z) : bool := match l with [] => true | [_] => true | _ => false end.

Definition bump (o : option Z) : option Z := match o with Some n => Some (1 + n) | None => None end.
Definition bump2 {A} (o : option (A * Z)) : option (A * Z) :=
  match o with Some (a, n) => Some (a, 1 + n) | None => None end.

(* --- the small consumers --------------------------------------------------------------- *)
Definition consume_byte (b : Z) (l : list Z) : option Z :=
  c <- peekz l 0 ;; Some (if c =? b then 1 else 0).

(* for { c := Peek(0); if c == 0 && Err() != nil {break} else if c == '*' && Peek(1) == '/' {Move(2);
   return} ; Move(1) } *)
Fixpoint comment_loop (l : list Z) : option Z :=
  match l with
  | [] => None
  | c :: t =>
      if (c =? 0) && eofb l then Some 0
      else if c =? 42 then
        c1 <- peekz t 0 ;;                      (* Peek(1) *)
        if c1 =? 47 then Some 2 else bump (comment_loop t)
      else bump (comment_loop t)
  end.

Definition consume_comment (l : list Z) : option Z :=
  c0 <- peekz l 0 ;;
  if negb (c0 =? 47) then Some 0 else
  c1 <- peekz l 1 ;;
  if negb (c1 =? 42) then Some 0 else
  n <- comment_loop (skipz 2 l) ;; Some (2 + n).

Definition consume_newline (l : list Z) : option Z :=
  c <- peekz l 0 ;;
  if (c =? 10) || (c =? 12) then Some 1
  else if c =? 13 then c1 <- peekz l 1 ;; Some (if c1 =? 10 then 2 else 1)
  else Some 0.

Definition consume_whitespace (l : list Z) : option Z :=
  c <- peekz l 0 ;; Some (if is_ws c then 1 else 0).

Definition consume_digit (l : list Z) : option Z :=
  c <- peekz l 0 ;; Some (if is_digit c then 1 else 0).

Definition consume_hexdigit (l : list Z) : option Z :=
  c <- peekz l 0 ;; Some (if is_hex c then 1 else 0).

(* for k := 1; k < 6; k++ { if !consumeHexDigit() {break} }  with n = 5 *)
Fixpoint hex_upto (n : nat) (l : list Z) : option Z :=
  match n with
  | O => Some 0
  | S n' => h <- consume_hexdigit l ;; if 0 <? h then bump (hex_upto n' (tl l)) else Some 0
  end.

(* the length n returned by Input.PeekRune(0) (input.go, after fix 5bd89b2); the continuation bytes
   it reads are peeked so that an out-of-range read would show *)
Definition rune_len (l : list Z) : option Z :=
  c <- peekz l 0 ;;
  let rem := len l - 1 in
  if (c <? 192) || (rem <? 2) then Some 1
  else if (c <? 224) || (rem <? 3) then _ <- peekz l 1 ;; Some 2
  else if (c <? 240) || (rem <? 4) then _ <- peekz l 1 ;; _ <- peekz l 2 ;; Some 3
  else _ <- peekz l 1 ;; _ <- peekz l 2 ;; _ <- peekz l 3 ;; Some 4.

(* the single whitespace that ends a hex escape; CR LF counts as one (fix 2cdd145) *)
Definition escape_ws (l : list Z) : option Z :=
  nl <- consume_newline l ;; if 0 <? nl then Some nl else consume_whitespace l.

Definition consume_escape (l : list Z) : option Z :=
  c <- peekz l 0 ;;
  if negb (c =? 92) then Some 0 else
  let l1 := tl l in                                        (* mark := Pos(); Move(1) *)
  nl <- consume_newline l1 ;;
  if 0 <? nl then Some 0 else                              (* Rewind(mark); return false *)
  h <- consume_hexdigit l1 ;;
  if 0 <? h then
    k <- hex_upto 5 (tl l1) ;;
    w <- escape_ws (skipz k (tl l1)) ;;                      (* if !consumeNewline() { consumeWhitespace() } *)
    Some (2 + k + w)
  else
    c1 <- peekz l1 0 ;;
    if 192 <=? c1 then n <- rune_len l1 ;; Some (1 + n)
    else if (c1 =? 0) && eofb l1 then Some 0               (* Rewind(mark); return false *)
    else Some 2.

(* the loop shared by consumeIdentToken and consumeHashToken *)
Fixpoint ident_loop (l : list Z) (k : nat) : option Z :=
  match l with
  | [] => None
  | c :: t =>
      match k with
      | S k' => bump (ident_loop t k')
      | O =>
          if ident_char c then bump (ident_loop t 0)
          else if c =? 92 then
            e <- consume_escape l ;;
            if 0 <? e then bump (ident_loop t (Z.to_nat (e - 1))) else Some 0
          else Some 0
      end
  end.

(* consumeIdentToken after the optional '-' / '--' prefix of p bytes *)
Definition ident_tail (p : Z) (custom : bool) (l : list Z) : option Z :=
  let l' := skipz p l in
  if custom then n <- ident_loop l' 0 ;; Some (p + n) else
  c <- peekz l' 0 ;;
  if ident_start c then n <- ident_loop (tl l') 0 ;; Some (p + 1 + n)
  else if c =? 92 then
    e <- consume_escape l' ;;
    if 0 <? e then n <- ident_loop (skipz e l') 0 ;; Some (p + e + n) else Some 0
  else Some 0.

Definition consume_ident_token (l : list Z) : option Z :=
  c0 <- peekz l 0 ;;
  if c0 =? 45 then
    c1 <- peekz l 1 ;;
    if c1 =? 45 then ident_tail 2 true l else ident_tail 1 false l
  else ident_tail 0 false l.

Definition consume_custom_variable (l : list Z) : option Z :=
  c1 <- peekz l 1 ;;
  if negb (c1 =? 45) then Some 0 else consume_ident_token l.

Definition consume_at_keyword (l : list Z) : option Z :=
  n <- consume_ident_token (tl l) ;;                       (* Move(1) *)
  if 0 <? n then Some (1 + n) else Some 0.                 (* Move(-1); return false *)

Definition consume_hash (l : list Z) : option Z :=
  let l1 := tl l in
  c <- peekz l1 0 ;;
  if ident_char c then n <- ident_loop (tl l1) 0 ;; Some (2 + n)
  else if c =? 92 then
    e <- consume_escape l1 ;;
    if 0 <? e then n <- ident_loop (skipz e l1) 0 ;; Some (1 + e + n) else Some 0
  else Some 0.

(* "if consumeDigit() { for consumeDigit() {} }" = the number of leading digits *)
Definition digits (l : list Z) : option Z := scan_while is_digit l.

(* the exponent part of consumeNumberToken; n bytes already moved over *)
Definition number_exp (n : Z) (l : list Z) : option Z :=
  c <- peekz l 0 ;;
  if (c =? 101) || (c =? 69) then
    c1 <- peekz l 1 ;;
    let s := if is_sign c1 then 1 else 0 in
    d <- digits (skipz (1 + s) l) ;;
    if d =? 0 then Some n else Some (n + 1 + s + d)
  else Some n.

Definition consume_number_token (l : list Z) : option Z :=
  c <- peekz l 0 ;;
  let s := if is_sign c then 1 else 0 in
  let l1 := skipz s l in
  d1 <- digits l1 ;;
  let l2 := skipz d1 l1 in
  c2 <- peekz l2 0 ;;
  if c2 =? 46 then
    d2 <- digits (tl l2) ;;
    if 0 <? d2 then number_exp (s + d1 + 1 + d2) (skipz (1 + d2) l2)
    else if 0 <? d1 then Some (s + d1)                     (* Move(-1); return true *)
    else Some 0
  else if d1 =? 0 then Some 0
  else number_exp (s + d1) l2.

Definition consume_unicode_range (l : list Z) : option Z :=
  c <- peekz l 0 ;;
  if negb ((c =? 117) || (c =? 85)) then Some 0 else
  c1 <- peekz l 1 ;;
  if negb (c1 =? 43) then Some 0 else
  let l2 := skipz 2 l in
  k <- scan_while is_hex l2 ;;
  let l3 := skipz k l2 in
  m <- consume_byte 45 l3 ;;
  if 0 <? m then
    if (k =? 0) || (6 <? k) then Some 0 else
    k2 <- scan_while is_hex (tl l3) ;;
    if (k2 =? 0) || (6 <? k2) then Some 0 else Some (2 + k + 1 + k2)
  else
    q <- scan_while is_qmark l3 ;;
    if (k + q =? 0) || (6 <? k + q) then Some 0 else Some (2 + k + q).

Definition consume_column (l : list Z) : option Z :=
  c0 <- peekz l 0 ;;
  if negb (c0 =? 124) then Some 0 else
  c1 <- peekz l 1 ;; Some (if c1 =? 124 then 2 else 0).

Definition consume_cdo (l : list Z) : option Z :=
  c0 <- peekz l 0 ;; if negb (c0 =? 60) then Some 0 else
  c1 <- peekz l 1 ;; if negb (c1 =? 33) then Some 0 else
  c2 <- peekz l 2 ;; if negb (c2 =? 45) then Some 0 else
  c3 <- peekz l 3 ;; Some (if c3 =? 45 then 4 else 0).

Definition consume_cdc (l : list Z) : option Z :=
  c0 <- peekz l 0 ;; if negb (c0 =? 45) then Some 0 else
  c1 <- peekz l 1 ;; if negb (c1 =? 45) then Some 0 else
  c2 <- peekz l 2 ;; Some (if c2 =? 62 then 3 else 0).

Definition consume_match (l : list Z) : option (ttype * Z) :=
  c1 <- peekz l 1 ;;
  if c1 =? 61 then
    c0 <- peekz l 0 ;;
    if c0 =? 126 then Some (TIncludeMatch, 2)
    else if c0 =? 124 then Some (TDashMatch, 2)
    else if c0 =? 94 then Some (TPrefixMatch, 2)
    else if c0 =? 36 then Some (TSuffixMatch, 2)
    else if c0 =? 42 then Some (TSubstringMatch, 2)
    else Some (TError, 0)
  else Some (TError, 0).

Definition consume_bracket (l : list Z) : option (ttype * Z) :=
  c <- peekz l 0 ;;
  if c =? 40 then Some (TLeftParenthesis, 1)
  else if c =? 41 then Some (TRightParenthesis, 1)
  else if c =? 91 then Some (TLeftBracket, 1)
  else if c =? 93 then Some (TRightBracket, 1)
  else if c =? 123 then Some (TLeftBrace, 1)
  else if c =? 125 then Some (TRightBrace, 1)
  else Some (TError, 0).

Definition consume_numeric (l : list Z) : option (ttype * Z) :=
  n <- consume_number_token l ;;
  if n =? 0 then Some (TError, 0) else
  let l' := skipz n l in
  p <- consume_byte 37 l' ;;
  if 0 <? p then Some (TPercentage, n + 1) else
  i <- consume_ident_token l' ;;
  if 0 <? i then Some (TDimension, n + i) else Some (TNumber, n).

(* consumeString after Move(1) over the opening quote *)
Fixpoint string_loop (delim : Z) (l : list Z) (k : nat) : option (ttype * Z) :=
  match l with
  | [] => None
  | c :: t =>
      match k with
      | S k' => bump2 (string_loop delim t k')
      | O =>
          if (c =? 0) && eofb l then Some (TString, 0)
          else if is_nl c then Some (TBadString, 1)
          else if c =? delim then Some (TString, 1)
          else if c =? 92 then
            e <- consume_escape l ;;
            if 0 <? e then bump2 (string_loop delim t (Z.to_nat (e - 1)))
            else nl <- consume_newline t ;;                 (* Move(1); consumeNewline() *)
                 bump2 (string_loop delim t (Z.to_nat nl))
          else bump2 (string_loop delim t 0)
      end
  end.

Definition consume_string (l : list Z) : option (ttype * Z) :=
  delim <- peekz l 0 ;; bump2 (string_loop delim (tl l) 0).

Definition url_bad_char (c : Z) : bool :=
  (c =? 34) || (c =? 39) || (c =? 40) || (c =? 92) || (c =? 32) || (c <=? 31) || (c =? 127).

(* consumeUnquotedURL: (result, bytes moved); no rewind on false *)
Fixpoint url_loop (l : list Z) (k : nat) : option (bool * Z) :=
  match l with
  | [] => None
  | c :: t =>
      match k with
      | S k' => bump2 (url_loop t k')
      | O =>
          if ((c =? 0) && eofb l) || (c =? 41) then Some (true, 0)
          else if url_bad_char c then
            if c =? 92 then
              e <- consume_escape l ;;
              if 0 <? e then bump2 (url_loop t (Z.to_nat (e - 1))) else Some (false, 0)
            else Some (false, 0)
          else bump2 (url_loop t 0)
      end
  end.

(* consumeRemnantsBadURL *)
Fixpoint badurl_loop (l : list Z) (k : nat) : option Z :=
  match l with
  | [] => None
  | c :: t =>
      match k with
      | S k' => bump (badurl_loop t k')
      | O =>
          if c =? 41 then Some 1                            (* consumeByte(')') *)
          else if eofb l then Some 0                        (* Err() != nil *)
          else e <- consume_escape l ;;
               if 0 <? e then bump (badurl_loop t (Z.to_nat (e - 1))) else bump (badurl_loop t 0)
      end
  end.

(* parse.EqualFold(bytes.Replace(lexeme, "\\", nil, -1), "url") *)
Definition strip_backslash (b : list Z) : list Z := filter (fun c => negb (c =? 92)) b.
Definition eq_fold1 (d c : Z) : bool := (d =? c) || ((65 <=? d) && (d <=? 90) && (d + 32 =? c)).
Definition is_url_name (b : list Z) : bool :=
  match strip_backslash b with
  | [d0; d1; d2] => eq_fold1 d0 117 && eq_fold1 d1 114 && eq_fold1 d2 108
  | _ => false
  end.

(* the tail of consumeIdentlike's url branch: whitespace, then ')' or end of input; n bytes so far *)
Definition url_end (n : Z) (l : list Z) : option (ttype * Z) :=
  w <- scan_while is_ws l ;;
  let l' := skipz w l in
  b <- consume_byte 41 l' ;;
  if (0 <? b) || eofb l' then Some (TURL, n + w + b)
  else r <- badurl_loop l' 0 ;; Some (TBadURL, n + w + r).

(* consumeIdentlike after "url(" and the leading whitespace: a quoted or unquoted url; n bytes so far *)
Definition url_arg (n : Z) (l : list Z) : option (ttype * Z) :=
  c <- peekz l 0 ;;
  if (c =? 34) || (c =? 39) then
    s <- consume_string l ;;
    if tt_eqb (fst s) TBadString then
      r <- badurl_loop (skipz (snd s) l) 0 ;; Some (TBadURL, n + snd s + r)
    else url_end (n + snd s) (skipz (snd s) l)
  else
    u <- url_loop l 0 ;;
    if fst u then url_end (n + snd u) (skipz (snd u) l) else
    ws <- consume_whitespace (skipz (snd u) l) ;;            (* "... && !l.consumeWhitespace()" *)
    if 0 <? ws then url_end (n + snd u + 1) (skipz (snd u + 1) l)
    else r <- badurl_loop (skipz (snd u) l) 0 ;; Some (TBadURL, n + snd u + r).

Definition consume_identlike (l : list Z) : option (ttype * Z) :=
  n <- consume_ident_token l ;;
  if n =? 0 then Some (TError, 0) else
  let l1 := skipz n l in
  c <- peekz l1 0 ;;
  if negb (c =? 40) then Some (TIdent, n) else
  if negb (is_url_name (firstz n l)) then Some (TFunction, n + 1) else
  let l2 := tl l1 in                                          (* Move(1) over '(' *)
  w <- scan_while is_ws l2 ;;
  url_arg (n + 1 + w) (skipz w l2).

(* --- Next --------------------------------------------------------------------------------- *)
Definition or_delim (r : ttype * Z) : ttype * Z := if is_err (fst r) then (TDelim, 1) else r.
Definition pos_tok (t : ttype) (n : Z) : ttype * Z := if 0 <? n then (t, n) else (TDelim, 1).

(* the switch of Next: token type and number of bytes from the cursor; (TError, 0) at the end *)
Definition css_scan (l : list Z) : option (ttype * Z) :=
  c <- peekz l 0 ;;
  if is_ws c then w <- scan_while is_ws (tl l) ;; Some (TWhitespace, 1 + w)
  else if c =? 58 then Some (TColon, 1)
  else if c =? 59 then Some (TSemicolon, 1)
  else if c =? 44 then Some (TComma, 1)
  else if (c =? 40) || (c =? 41) || (c =? 91) || (c =? 93) || (c =? 123) || (c =? 125) then
    r <- consume_bracket l ;; Some (or_delim r)
  else if c =? 35 then n <- consume_hash l ;; Some (pos_tok THash n)
  else if (c =? 34) || (c =? 39) then r <- consume_string l ;; Some (or_delim r)
  else if (c =? 46) || (c =? 43) then r <- consume_numeric l ;; Some (or_delim r)
  else if c =? 45 then
    cdc <- consume_cdc l ;;
    if 0 <? cdc then Some (TCDC, cdc) else
    cv <- consume_custom_variable l ;;
    if 0 <? cv then Some (TCustomPropertyName, cv) else
    il <- consume_identlike l ;;
    if negb (is_err (fst il)) then Some il else
    nu <- consume_numeric l ;; Some (or_delim nu)
  else if c =? 64 then n <- consume_at_keyword l ;; Some (pos_tok TAtKeyword n)
  else if (c =? 36) || (c =? 42) || (c =? 94) || (c =? 126) then r <- consume_match l ;; Some (or_delim r)
  else if c =? 47 then n <- consume_comment l ;; Some (pos_tok TComment n)
  else if c =? 60 then n <- consume_cdo l ;; Some (pos_tok TCDO n)
  else if c =? 92 then r <- consume_identlike l ;; Some (or_delim r)
  else if (c =? 117) || (c =? 85) then
    u <- consume_unicode_range l ;;
    if 0 <? u then Some (TUnicodeRange, u) else
    r <- consume_identlike l ;; Some (or_delim r)
  else if c =? 124 then
    r <- consume_match l ;;
    if negb (is_err (fst r)) then Some r else
    n <- consume_column l ;; Some (pos_tok TColumn n)
  else if c =? 0 then
    if eofb l then Some (TError, 0) else Some (TDelim, 1)
  else
    nu <- consume_numeric l ;;
    if negb (is_err (fst nu)) then Some nu else
    r <- consume_identlike l ;; Some (or_delim r).

(* Lexer.Next on the cursor: (token type, token bytes, cursor after the call).
   ErrorToken is returned with nil data and without Shift. *)
Definition css_next (z : lx) : option (ttype * list Z * lx) :=
  r <- css_scan (suffix z) ;;
  if is_err (fst r) then Some (TError, [], z) else
  sh <- shift (mv z (snd r)) ;;
  Some (fst r, fst sh, snd sh).

(* Drive Next until the first ErrorToken.  Fuel len+1 is never exhausted (css_lex_done). *)
Inductive lex_out := LexDone (toks : list (ttype * list Z)) | LexPanic | LexOutOfFuel.

Fixpoint css_lex_from (fuel : nat) (z : lx) : lex_out :=
  match fuel with
  | O => LexOutOfFuel
  | S f =>
      match css_next z with
      | None => LexPanic
      | Some (ty, b, z') =>
          if is_err ty then LexDone [] else
          match css_lex_from f z' with
          | LexDone ts => LexDone ((ty, b) :: ts)
          | o => o
          end
      end
  end.

Definition css_lex (d : list Z) : lex_out := css_lex_from (S (length d)) (lx_init d).

(* --- util.go ------------------------------------------------------------------------------ *)
(* IsIdent(b): NewInputBytes(b); consumeIdentToken(); Pos() == len(b) *)
Definition is_ident (b : list Z) : option bool :=
  n <- consume_ident_token (b ++ [0]) ;; Some (n =? len b).

(* IsURLUnquoted(b): consumeUnquotedURL(); Pos() == len(b) *)
Definition is_url_unquoted (b : list Z) : option bool :=
  u <- url_loop (b ++ [0]) 0 ;; Some (snd u =? len b).
