(* Css/Shape.v — C07, the converse direction: a token the lexer returns has the shape its type prescribes. *)
From Verif Require Import Common.Base Common.Tactics Common.Lx Css.Model Css.Basics Css.Bounds Css.Proofs Css.Agree Css.Relex Css.Classes.
From Coq Require Import ZifyBool.

(* the scan of a token of the input, seen on its own bytes *)
Lemma tok_scan d toks ty b : css_lex d = LexDone toks -> In (ty, b) toks ->
  css_scan (b ++ [0]) = Some (ty, len b) /\ is_err ty = false /\ b <> [].
Proof.
  intros Hl Hin. unfold css_lex in Hl.
  pose proof (css_lex_from_tokens _ _ _ (css_inv_init d) Hl) as Hall.
  rewrite Forall_forall in Hall. destruct (Hall _ Hin) as (rest & Hsc & Hty & Hne). cbn [fst snd] in *.
  split; [apply (css_scan_cut _ rest); assumption|]. split; assumption.
Qed.

(* --- the shapes of the token types, as predicates on the token's bytes alone ------------------------------------ *)
Definition str_shape (b : list Z) : Prop :=
  exists q body, is_quote q /\
    ((b = q :: body ++ [q] /\ sbody q body [q]) \/
     (exists bs, b = q :: body ++ bs /\ sbody q body bs /\ (bs = [] \/ bs = [92]))).
Definition badstr_shape (b : list Z) : Prop :=
  exists q body nl, is_quote q /\ b = q :: body ++ [nl] /\ sbody q body [nl] /\ is_nl nl = true.
Definition string_shape (ty : ttype) (b : list Z) : Prop :=
  match ty with TString => str_shape b | TBadString => badstr_shape b | _ => False end.

Definition at_shape (b : list Z) : Prop := exists name, b = 64 :: name /\ (ident_text name [] \/ custom_text name []).
Definition hash_shape (b : list Z) : Prop := exists body, b = 35 :: body /\ body <> [] /\ nbody body [].
Definition func_shape (b : list Z) : Prop := exists name, b = name ++ [40] /\ ident_text name [40] /\ is_url_name name = false.
Definition dim_shape (b : list Z) : Prop :=
  exists num unit, b = num ++ unit /\ num_text num /\ (ident_text unit [] \/ custom_text unit []).

Definition closer0 (cl : list Z) : Prop := cl = [41] \/ cl = [].

Definition arg_shape (ty : ttype) (a : list Z) : Prop :=
  match ty with
  | TURL =>
      (exists body ws2 cl, a = body ++ ws2 ++ cl /\ ubody body (ws2 ++ cl) /\ all_b is_ws ws2 /\ (body = [] -> ws2 = []) /\ closer0 cl) \/
      (exists s ws2 cl, a = s ++ ws2 ++ cl /\ qarg s (ws2 ++ cl) false /\ all_b is_ws ws2 /\ closer0 cl)
  | TBadURL =>
      (exists body bc rem cl, a = body ++ bc :: rem ++ cl /\ ubody body (bc :: rem ++ cl) /\ url_stop bc (rem ++ cl) /\
         (body = [] -> not_quote bc) /\ rbody (bc :: rem) cl /\ closer0 cl) \/
      (exists body ws2 rem cl, a = body ++ ws2 ++ rem ++ cl /\ ubody body (ws2 ++ rem ++ cl) /\ body <> [] /\ all_b is_ws ws2 /\
         ws2 <> [] /\ rem <> [] /\ is_ws (hd0 rem) = false /\ hd0 rem <> 41 /\ rbody rem cl /\ closer0 cl) \/
      (exists s ws2 rem cl, a = s ++ ws2 ++ rem ++ cl /\ qarg s (ws2 ++ rem ++ cl) false /\ all_b is_ws ws2 /\
         rem <> [] /\ is_ws (hd0 rem) = false /\ hd0 rem <> 41 /\ rbody rem cl /\ closer0 cl) \/
      (exists s rem cl, a = s ++ rem ++ cl /\ qarg s (rem ++ cl) true /\ rbody rem cl /\ closer0 cl)
  | _ => False
  end.
Definition url_like (ty : ttype) (b : list Z) : Prop :=
  exists name ws1 a, b = name ++ 40 :: ws1 ++ a /\ url_name name /\ all_b is_ws ws1 /\ arg_shape ty a.

Definition ur_shape (t : list Z) : Prop :=
  (exists u h q, t = u :: 43 :: h ++ q /\ (u = 117 \/ u = 85) /\ all_b is_hex h /\ all_b is_qmark q /\ 1 <= len h + len q <= 6) \/
  (exists u h1 h2, t = u :: 43 :: h1 ++ 45 :: h2 /\ (u = 117 \/ u = 85) /\ all_b is_hex h1 /\ 1 <= len h1 <= 6 /\
                   all_b is_hex h2 /\ 1 <= len h2 <= 6).

(* the shapes: tok_spec's constructor bodies without the follower conditions *)
Definition tok_shape (ty : ttype) (b : list Z) : Prop :=
  match ty with
  | TWhitespace => b <> [] /\ all_b is_ws b
  | TComment => exists body, no_close body = true /\ (b = 47 :: 42 :: body ++ [42; 47] \/ b = 47 :: 42 :: body)
  | TDelim => exists c, b = [c]
  | TNumber => num_text b
  | TPercentage => exists t, b = t ++ [37] /\ num_text t
  | TUnicodeRange => ur_shape b
  | TString => str_shape b
  | TBadString => badstr_shape b
  | TIdent => ident_text b []
  | TCustomPropertyName => custom_text b []
  | TFunction => func_shape b
  | TAtKeyword => at_shape b
  | THash => hash_shape b
  | TDimension => dim_shape b
  | TURL => url_like TURL b
  | TBadURL => url_like TBadURL b
  | TError | TEmpty | TCustomPropertyValue => False
  | _ => In (ty, b) fixed_tokens
  end.

(* a comment body: up to the first "*/", or to the end of the input *)
Lemma comment_loop_inv : forall rest, comment_loop (rest ++ [0]) = Some (len rest) ->
  exists body, no_close body = true /\ (rest = body ++ [42; 47] \/ rest = body).
Proof.
  induction rest as [|c t IH]; intros H; cbn [app] in H.
  - exists []. split; [reflexivity|right; reflexivity].
  - rewrite comment_loop_cons, eofb_cons_sent, andb_false_r in H.
    assert (Hrec : bump (comment_loop (t ++ [0])) = Some (len (c :: t)) -> (c = 42 -> hd0 t <> 47) ->
                   exists body, no_close body = true /\ (c :: t = body ++ [42; 47] \/ c :: t = body)).
    { intros Hb Hnx. apply bump_some in Hb. destruct Hb as (m & Hm & E). rewrite len_cons in E. assert (m = len t) by lia. subst m.
      destruct (IH Hm) as (body & Hnc & Hb).
      assert (Hhd : forall x, hd0 t = x -> match body with c1 :: _ => c1 = x | [] => True end).
      { intros x Hx. destruct body as [|c1 body']; [exact I|]. destruct Hb as [-> | ->]; cbn [app hd0] in Hx; exact Hx. }
      exists (c :: body). split.
      - cbn [no_close]. rewrite Hnc, andb_true_r. destruct body as [|c1 body']; [reflexivity|].
        specialize (Hhd _ eq_refl). apply negb_true_iff. destruct (c =? 42) eqn:E42; [|reflexivity]. cbn [andb].
        apply Z.eqb_neq. rewrite Hhd. apply Hnx. lia.
      - destruct Hb as [-> | ->]; [left|right]; reflexivity. }
    destruct (c =? 42) eqn:E42.
    + rewrite peekz_sent_0 in H. cbn [option_bind] in H. destruct (hd0 t =? 47) eqn:E47.
      * some_inv H. rewrite len_cons in H. pose proof (len_nonneg t).
        destruct t as [|c1 [|c2 t2]]; cbn [hd0] in E47; try (rewrite ?len_cons in H; pose proof (len_nonneg t2); lia); try lia.
        exists []. split; [reflexivity|left]. assert (c = 42) by lia. assert (c1 = 47) by lia. subst. reflexivity.
      * apply Hrec; [exact H|]. intros _. lia.
    + apply Hrec; [exact H|]. intros Hc. lia.
Qed.

Lemma one_byte (c : Z) (b' : list Z) : len (c :: b') = 1 -> b' = [].
Proof. rewrite len_cons. destruct b' as [|x t]; [reflexivity|]. rewrite len_cons. pose proof (len_nonneg t). lia. Qed.

Ltac in_fixed := unfold fixed_tokens; cbn [In]; repeat (first [left; reflexivity | right]).

Lemma len0_nil (b : list Z) : len b = 0 -> b = [].
Proof. destruct b as [|x t]; [reflexivity|]. rewrite len_cons. pose proof (len_nonneg t). lia. Qed.

Lemma hd0_is (b : list Z) k : hd0 b = k -> k <> 0 -> exists t, b = k :: t.
Proof. destruct b as [|y t]; cbn [hd0]; intros H Hk; [congruence|]. exists t. congruence. Qed.

Lemma delim_shape (c : Z) b' : 1 = len (c :: b') -> tok_shape TDelim (c :: b').
Proof. intros H. cbn [tok_shape]. rewrite (one_byte c b' (eq_sym H)). eauto. Qed.

(* result (t, n) is the scan of the whole of b *)
Ltac res H Hn := apply Some_pair_inj in H; destruct H as [<- Hn].
Ltac nil_of b Hn := assert (b = []) by (apply len0_nil; rewrite ?len_cons in Hn; pose proof (len_nonneg b); lia); subst b.

(* --- numbers ------------------------------------------------------------------------------------------------- *)
Lemma scan_while_split P : forall l n, scan_while P l = Some n ->
  exists a c r, l = a ++ c :: r /\ len a = n /\ all_b P a /\ P c = false.
Proof.
  induction l as [|c t IH]; intros n H; [discriminate|]. rewrite scan_while_cons in H.
  destruct (P c) eqn:Pc.
  - destruct (scan_while P t) as [m|] eqn:Em; [|discriminate]. apply Some_inj in H. subst n.
    destruct (IH m eq_refl) as (a & c' & r & -> & Hl & Ha & Hc). exists (c :: a), c', r.
    split; [reflexivity|]. split; [rewrite len_cons; lia|]. split; [constructor; assumption|assumption].
  - apply Some_inj in H. subst n. exists [], c, t. repeat split; [constructor|assumption].
Qed.

Lemma peekz0_cons l c : peekz l 0 = Some c -> exists t, l = c :: t.
Proof. destruct l as [|x t]; [discriminate|]. rewrite peekz_0. intros H. apply Some_inj in H. subst. eauto. Qed.

Lemma number_exp_inv n0 l n : number_exp n0 l = Some n ->
  exists ex r, l = ex ++ r /\ n = n0 + len ex /\ exp_text ex.
Proof.
  unfold number_exp. intros H. bind_inv H. destruct (peekz0_cons _ _ E) as (l' & ->).
  assert (Hnone : exists ex r, x :: l' = ex ++ r /\ n0 = n0 + len ex /\ exp_text ex).
  { exists [], (x :: l'). split; [reflexivity|]. split; [change (len (@nil Z)) with 0; lia|constructor]. }
  destruct ((x =? 101) || (x =? 69)) eqn:Ee; [|apply Some_inj in H; subst n; exact Hnone].
  bind_inv H. rewrite peekz_1 in E0. destruct (peekz0_cons _ _ E0) as (l2 & ->).
  bind_inv H. destruct (x1 =? 0) eqn:Ed; [apply Some_inj in H; subst n; exact Hnone|]. apply Some_inj in H. subst n.
  unfold digits in E1. destruct (is_sign x0) eqn:Es.
  - change (1 + 1) with 2 in E1. rewrite skipz_2 in E1.
    destruct (scan_while_split _ _ _ E1) as (ed & c & r & -> & Hl & Hall & Hc).
    exists (x :: [x0] ++ ed), (c :: r). split; [reflexivity|]. split; [rewrite len_cons, len_app, len_cons; change (len (@nil Z)) with 0; lia|].
    apply Exp_some; [lia| |exact Hall|intros ->; change (len (@nil Z)) with 0 in Hl; lia].
    unfold is_sign in Es. right. destruct (x0 =? 43) eqn:E43; [left; f_equal; lia|right; f_equal; lia].
  - change (1 + 0) with 1 in E1. rewrite skipz_1 in E1.
    destruct (scan_while_split _ _ _ E1) as (ed & c & r & Hd & Hl & Hall & Hc).
    exists (x :: [] ++ ed), (c :: r). split; [cbn [app]; f_equal; exact Hd|]. split; [rewrite len_cons; cbn [app]; lia|].
    apply Exp_some; [lia|left; reflexivity|exact Hall|intros ->; change (len (@nil Z)) with 0 in Hl; lia].
Qed.

Lemma number_token_inv l n : consume_number_token l = Some n -> 0 < n ->
  exists t r, l = t ++ r /\ len t = n /\ num_text t.
Proof.
  unfold consume_number_token. intros H Hn. bind_inv H. destruct (peekz0_cons _ _ E) as (l' & ->).
  set (s := if is_sign x then 1 else 0) in *.
  assert (Hsg : exists sg l1, x :: l' = sg ++ l1 /\ skipz s (x :: l') = l1 /\ len sg = s /\ sign_text sg).
  { subst s. destruct (is_sign x) eqn:Es.
    - exists [x], l'. split; [reflexivity|]. split; [apply skipz_1|]. split; [reflexivity|].
      unfold is_sign in Es. right. destruct (x =? 43) eqn:E43; [left; f_equal; lia|right; f_equal; lia].
    - exists [], (x :: l'). split; [reflexivity|]. split; [apply skipz_0|]. split; [reflexivity|left; reflexivity]. }
  destruct Hsg as (sg & l1 & Hl & Hsk & Hls & Hsgt). rewrite Hsk in H. rewrite Hl. clearbody s. clear Hl Hsk E.
  bind_inv H. unfold digits in E. destruct (scan_while_split _ _ _ E) as (ip & c2 & r2 & -> & Hlip & Hip & Hc2).
  assert (Hsk2 : skipz x0 (ip ++ c2 :: r2) = c2 :: r2) by (rewrite <- Hlip; apply skipz_len_app). rewrite Hsk2 in H. rewrite peekz_0 in H. cbn [option_bind] in H.
  destruct (c2 =? 46) eqn:E46.
  - cbn [tl] in H. bind_inv H. unfold digits in E0. destruct (scan_while_split _ _ _ E0) as (fd & c3 & r3 & -> & Hlfd & Hfd & Hc3).
    assert (c2 = 46) by lia. subst c2.
    destruct (0 <? x1) eqn:Ed2.
    + rewrite skipz_cons in H by lia. replace (1 + x1 - 1) with (len fd) in H by lia. rewrite skipz_len_app in H.
      destruct (number_exp_inv _ _ _ H) as (ex & r & Hr & Hnn & Hex).
      assert (Hfdne : fd <> []) by (intros ->; change (len (@nil Z)) with 0 in Hlfd; lia).
      exists (sg ++ ip ++ frac fd ++ ex), r. split.
      * destruct fd as [|f fd']; [congruence|]. cbn [frac]. rewrite Hr. repeat rewrite <- app_assoc. cbn [app]. repeat rewrite <- app_assoc. reflexivity.
      * split; [|constructor; auto].
        destruct fd as [|f fd']; [congruence|]. cbn [frac]. repeat rewrite ?len_app, ?len_cons. rewrite len_cons in Hlfd. lia.
    + assert (fd = []) by (apply len0_nil; pose proof (len_nonneg fd); lia). subst fd. destruct (0 <? x0) eqn:Ed1; [|apply Some_inj in H; lia].
      apply Some_inj in H. subst n. exists (sg ++ ip ++ frac [] ++ []), (46 :: c3 :: r3). split.
      * cbn [frac app]. rewrite app_nil_r. repeat rewrite <- app_assoc. reflexivity.
      * split; [cbn [frac app]; rewrite app_nil_r, len_app; lia|]. apply (NumT sg ip [] []); [assumption|assumption|constructor| |constructor].
        left. intros ->. change (len (@nil Z)) with 0 in Hlip. lia.
  - destruct (x0 =? 0) eqn:Ed1; [apply Some_inj in H; lia|].
    destruct (number_exp_inv _ _ _ H) as (ex & r & Hr & Hnn & Hex).
    exists (sg ++ ip ++ frac [] ++ ex), r. split.
    + cbn [frac app]. rewrite Hr. repeat rewrite <- app_assoc. reflexivity.
    + split; [cbn [frac app]; rewrite !len_app; lia|]. apply (NumT sg ip [] ex); [assumption|assumption|constructor| |assumption].
      left. intros ->. change (len (@nil Z)) with 0 in Hlip. lia.
Qed.

Lemma app_len_inj {A} : forall (a b x y : list A), a ++ x = b ++ y -> len a = len b -> a = b /\ x = y.
Proof.
  induction a as [|h a IH]; intros [|k b] x y H Hl; cbn [app] in H.
  - auto.
  - rewrite len_cons in Hl. change (len (@nil A)) with 0 in Hl. pose proof (len_nonneg b). lia.
  - rewrite len_cons in Hl. change (len (@nil A)) with 0 in Hl. pose proof (len_nonneg a). lia.
  - injection H as -> H. rewrite !len_cons in Hl. destruct (IH b x y H) as [-> ->]; [lia|]. auto.
Qed.

Lemma numeric_shape b ty : consume_numeric (b ++ [0]) = Some (ty, len b) -> ty = TNumber \/ ty = TPercentage -> tok_shape ty b.
Proof.
  unfold consume_numeric. intros H Hty. bind_inv H. destruct (x =? 0) eqn:E0; [apply Some_pair_inj in H; destruct H as [<- _]; destruct Hty; discriminate|].
  bind_inv H. destruct (consume_number_token_ok b) as (m & Hm & Hx). rewrite E in Hm. apply Some_inj in Hm. subst m.
  destruct (number_token_inv _ _ E) as (t & r & Hl & Hlt & Hnum); [lia|].
  assert (Hsk : skipz x (b ++ [0]) = r) by (rewrite Hl, <- Hlt; apply skipz_len_app). rewrite Hsk in *.
  destruct (0 <? x0) eqn:Ep.
  - apply Some_pair_inj in H. destruct H as [<- Hn]. cbn [tok_shape].
    unfold consume_byte in E1. bind_inv E1. apply Some_inj in E1. destruct (x1 =? 37) eqn:E37; [|lia].
    destruct (peekz0_cons _ _ E2) as (r' & ->). assert (x1 = 37) by lia. subst x1.
    exists t. split; [|exact Hnum].
    change (t ++ 37 :: r') with (t ++ [37] ++ r') in Hl. rewrite app_assoc in Hl.
    apply app_len_inj in Hl; [exact (proj1 Hl)|]. rewrite len_app. change (len [37]) with 1. lia.
  - bind_inv H. destruct (0 <? x1); apply Some_pair_inj in H; destruct H as [<- Hn]; [destruct Hty; discriminate|]. cbn [tok_shape].
    apply app_len_inj in Hl; [|lia]. rewrite (proj1 Hl). exact Hnum.
Qed.

(* --- unicode-range ------------------------------------------------------------------------------------------- *)
Lemma urange_inv l n : consume_unicode_range l = Some n -> 0 < n -> exists t r, l = t ++ r /\ len t = n /\ ur_shape t.
Proof.
  unfold consume_unicode_range. intros H Hn. bind_inv H. destruct (peekz0_cons _ _ E) as (l1 & ->).
  destruct (negb ((x =? 117) || (x =? 85))) eqn:Eu; [apply Some_inj in H; lia|]. apply negb_false_iff in Eu.
  bind_inv H. rewrite peekz_1 in E0. destruct (peekz0_cons _ _ E0) as (l2 & ->).
  destruct (negb (x0 =? 43)) eqn:Ep; [apply Some_inj in H; lia|]. apply negb_false_iff in Ep. assert (x0 = 43) by lia. subst x0.
  rewrite skipz_2 in H. bind_inv H. rename x0 into k. destruct (scan_while_split _ _ _ E1) as (h & y & r & -> & Hlh & Hh & Hy).
  assert (Hsk : skipz k (h ++ y :: r) = y :: r) by (rewrite <- Hlh; apply skipz_len_app). rewrite Hsk in H.
  unfold consume_byte in H. rewrite peekz_0 in H. cbn [option_bind tl] in H. pose proof (len_nonneg h).
  destruct (y =? 45) eqn:E45.
  - change (0 <? 1) with true in H. cbv iota in H.
    destruct ((k =? 0) || (6 <? k)) eqn:Ek; [apply Some_inj in H; lia|].
    bind_inv H. destruct (scan_while_split _ _ _ E2) as (h2 & y2 & r2 & -> & Hlh2 & Hh2 & Hy2). pose proof (len_nonneg h2).
    destruct ((x0 =? 0) || (6 <? x0)) eqn:Ek2; apply Some_inj in H; [lia|].
    assert (y = 45) by lia. subst y.
    exists (x :: 43 :: h ++ 45 :: h2), (y2 :: r2). split; [cbn [app]; rewrite <- app_assoc; reflexivity|].
    split; [rewrite !len_cons, len_app, len_cons; lia|]. right. exists x, h, h2. repeat split; try assumption; lia.
  - change (0 <? 0) with false in H. cbv iota in H.
    bind_inv H. destruct (scan_while_split _ _ _ E2) as (q & y2 & r2 & Hq0 & Hlq & Hq & Hy2). pose proof (len_nonneg q).
    destruct ((k + x0 =? 0) || (6 <? k + x0)) eqn:Ek; apply Some_inj in H; [lia|].
    exists (x :: 43 :: h ++ q), (y2 :: r2). split; [cbn [app]; rewrite <- app_assoc, <- Hq0; reflexivity|].
    split; [rewrite !len_cons, len_app; lia|]. left. exists x, h, q. repeat split; try assumption; lia.
Qed.

(* --- escapes --------------------------------------------------------------------------------------------------- *)
Lemma hex_upto_inv : forall n d k, hex_upto n (d ++ [0]) = Some k ->
  exists a r, d = a ++ r /\ len a = k /\ all_b is_hex a /\ k <= Z.of_nat n /\ (k < Z.of_nat n -> is_hex (hd0 r) = false).
Proof.
  induction n as [|n IH]; intros d k H.
  - cbn [hex_upto] in H. apply Some_inj in H. subst k. exists [], d. repeat split; try constructor; try lia.
  - cbn [hex_upto] in H. unfold consume_hexdigit in H. rewrite peekz_sent_0 in H. cbn [option_bind] in H.
    destruct (is_hex (hd0 d)) eqn:Eh.
    + destruct d as [|c d']; [discriminate Eh|]. cbn [hd0] in Eh. cbn [Z.ltb Z.compare app tl] in H.
      apply bump_some in H. destruct H as (m & Hm & ->). destruct (IH _ _ Hm) as (a & r & -> & Hl & Ha & Hk & Hr).
      exists (c :: a), r. split; [reflexivity|]. split; [rewrite len_cons; lia|]. split; [constructor; assumption|].
      split; [lia|]. intros Hlt. apply Hr. lia.
    + cbn [Z.ltb Z.compare] in H. apply Some_inj in H. subst k. exists [], d. repeat split; try constructor; try lia.
Qed.

Lemma escape_ws_inv r w : escape_ws (r ++ [0]) = Some w ->
  (w = 0 /\ is_ws (hd0 r) = false) \/
  (w = 1 /\ exists x r', r = x :: r' /\ is_ws x = true /\ x <> 13) \/
  (w = 2 /\ exists r', r = 13 :: 10 :: r') \/
  (w = 1 /\ exists r', r = 13 :: r' /\ hd0 r' <> 10).
Proof.
  unfold escape_ws, consume_newline, consume_whitespace. rewrite !peekz_sent_0. cbn [option_bind]. intros H.
  destruct r as [|x r']; cbn [hd0 app] in H.
  - cbn in H. apply Some_inj in H. left. split; [lia|reflexivity].
  - destruct ((x =? 10) || (x =? 12)) eqn:Enl.
    + cbn [option_bind Z.ltb Z.compare] in H. apply Some_inj in H. right. left. split; [lia|]. exists x, r'. split; [reflexivity|]. cls. lia.
    + destruct (x =? 13) eqn:E13.
      * rewrite peekz_1, peekz_sent_0 in H. cbn [option_bind] in H. assert (x = 13) by lia. subst x.
        destruct (hd0 r' =? 10) eqn:E10; cbn [option_bind Z.ltb Z.compare] in H; apply Some_inj in H.
        -- right. right. left. split; [lia|]. destruct (hd0_is r' 10) as (r2 & ->); [lia|lia|]. eauto.
        -- right. right. right. split; [lia|]. exists r'. split; [reflexivity|lia].
      * cbn [option_bind Z.ltb Z.compare hd0] in H. apply Some_inj in H. destruct (is_ws x) eqn:Ew.
        -- right. left. split; [lia|]. exists x, r'. split; [reflexivity|]. split; [exact Ew|lia].
        -- left. split; [lia|exact Ew].
Qed.

Lemma split_at (d : list Z) k : 0 <= k <= len d -> exists a r, d = a ++ r /\ len a = k.
Proof. intros H. exists (firstz k d), (skipz k d). split; [symmetry; apply firstz_skipz|apply len_firstz; exact H]. Qed.

Lemma escape_inv d n : consume_escape (d ++ [0]) = Some n -> 0 < n ->
  exists e r nb, d = e ++ r /\ len e = n /\ esc_text e nb /\ nb r = true.
Proof.
  unfold consume_escape. rewrite peekz_sent_0. cbn [option_bind]. intros H Hn.
  destruct (negb (hd0 d =? 92)) eqn:E92; [apply Some_inj in H; lia|]. apply negb_false_iff in E92.
  destruct (hd0_is d 92) as (d1 & ->); [lia|lia|]. cbn [app tl] in H.
  unfold consume_newline, consume_hexdigit in H. rewrite !peekz_sent_0 in H. cbn [option_bind] in H.
  assert (Hnl : is_nl (hd0 d1) = false).
  { destruct ((hd0 d1 =? 10) || (hd0 d1 =? 12)) eqn:E1; [cbn in H; apply Some_inj in H; lia|].
    destruct (hd0 d1 =? 13) eqn:E2; [|cls; lia].
    destruct (peekz (d1 ++ [0]) 1); cbn [option_bind] in H; [|discriminate]. destruct (z =? 10); cbn in H; apply Some_inj in H; lia. }
  replace ((hd0 d1 =? 10) || (hd0 d1 =? 12)) with false in H by (revert Hnl; cls; lia).
  replace (hd0 d1 =? 13) with false in H by (revert Hnl; cls; lia).
  cbn [option_bind Z.ltb Z.compare] in H.
  destruct (is_hex (hd0 d1)) eqn:Eh.
  - destruct d1 as [|c1 d2]; [discriminate Eh|]. cbn [hd0] in *. cbn [Z.ltb Z.compare app tl] in H.
    bind_inv H. bind_inv H. apply Some_inj in H.
    destruct (hex_upto_inv _ _ _ E) as (a & r2 & -> & Hla & Ha & Hk & Hr2). change (Z.of_nat 5) with 5 in *.
    assert (Hsk : skipz x (a ++ r2 ++ [0]) = r2 ++ [0]) by (rewrite <- Hla; apply skipz_len_app).
    rewrite <- app_assoc, Hsk in E0. pose proof (len_nonneg a).
    assert (Hh : all_b is_hex (c1 :: a)) by (constructor; assumption).
    assert (Hlh : len (c1 :: a) = 1 + x) by (rewrite len_cons; lia).
    destruct (escape_ws_inv _ _ E0) as [(-> & Hw)|[(-> & w & r3 & -> & Hw & H13)|[(-> & r3 & ->)|(-> & r3 & -> & H10)]]].
    + destruct (x =? 5) eqn:E5.
      * exists (92 :: c1 :: a), r2, not_ws_next. split; [reflexivity|]. split; [rewrite len_cons; lia|].
        split; [apply Esc_hex6; [exact Hh|lia]|]. unfold not_ws_next. rewrite Hw. reflexivity.
      * exists (92 :: c1 :: a), r2, not_hex_ws_next. split; [reflexivity|]. split; [rewrite len_cons; lia|].
        split; [apply Esc_hex; [exact Hh|lia]|]. unfold not_hex_ws_next. rewrite Hw, Hr2 by lia. reflexivity.
    + exists (92 :: (c1 :: a) ++ [w]), r3, any_next. split; [cbn [app]; rewrite <- app_assoc; reflexivity|].
      split; [rewrite len_cons, len_app; change (len [w]) with 1; lia|]. split; [apply Esc_hex_ws; [exact Hh|lia|exact Hw|exact H13]|reflexivity].
    + exists (92 :: (c1 :: a) ++ [13; 10]), r3, any_next. split; [cbn [app]; rewrite <- app_assoc; reflexivity|].
      split; [rewrite len_cons, len_app; change (len [13; 10]) with 2; lia|]. split; [apply Esc_hex_crlf; [exact Hh|lia]|reflexivity].
    + exists (92 :: (c1 :: a) ++ [13]), r3, not_lf_next. split; [cbn [app]; rewrite <- app_assoc; reflexivity|].
      split; [rewrite len_cons, len_app; change (len [13]) with 1; lia|]. split; [apply Esc_hex_cr; [exact Hh|lia]|].
      unfold not_lf_next. apply negb_true_iff. lia.
  - cbn [Z.ltb Z.compare] in H. destruct (192 <=? hd0 d1) eqn:E192.
    + destruct d1 as [|c1 d2]; [discriminate E192|]. cbn [hd0] in *. bind_inv H. apply Some_inj in H.
      unfold rune_len in E. cbn [app] in E. rewrite peekz_0 in E. cbn [option_bind] in E.
      rewrite len_cons, len_app in E. change (len [0]) with 1 in E. pose proof (len_nonneg d2).
      replace (c1 <? 192) with false in E by lia. cbn [orb] in E.
      assert (Hcut : forall k, len d2 = k -> k < rune_need c1 - 1 -> n = 2 + k ->
                exists e r nb, 92 :: c1 :: d2 = e ++ r /\ len e = n /\ esc_text e nb /\ nb r = true).
      { intros k Hk Hlt Hnk. exists (92 :: c1 :: d2), [], at_end. split; [rewrite app_nil_r; reflexivity|].
        split; [rewrite !len_cons; lia|]. split; [apply Esc_rune_cut; lia|reflexivity]. }
      assert (Hfull : forall k, k <= len d2 -> k = rune_need c1 - 1 -> n = 2 + k ->
                exists e r nb, 92 :: c1 :: d2 = e ++ r /\ len e = n /\ esc_text e nb /\ nb r = true).
      { intros k Hk Hlt Hnk. destruct (split_at d2 k) as (cont & r & -> & Hlc); [unfold rune_need in Hlt; destruct (c1 <? 224), (c1 <? 240); lia|].
        exists (92 :: c1 :: cont), r, any_next. split; [reflexivity|].
        split; [rewrite !len_cons; lia|]. split; [apply Esc_rune; lia|reflexivity]. }
      unfold rune_need in Hcut, Hfull. replace (1 + (len d2 + 1) - 1) with (len d2 + 1) in E by lia.
      destruct (len d2 + 1 <? 2) eqn:R2.
      { apply Some_inj in E. subst x. apply (Hcut 0); [lia| |lia]. destruct (c1 <? 224), (c1 <? 240); lia. }
      destruct ((c1 <? 224) || (len d2 + 1 <? 3)) eqn:R3.
      { inv_all E. apply Some_inj in E. subst x. destruct (c1 <? 224) eqn:C2.
        - apply (Hfull 1); lia.
        - apply (Hcut 1); [lia| |lia]. destruct (c1 <? 240); lia. }
      destruct ((c1 <? 240) || (len d2 + 1 <? 4)) eqn:R4.
      { inv_all E. apply Some_inj in E. subst x. destruct (c1 <? 224) eqn:C2; [lia|]. destruct (c1 <? 240) eqn:C3.
        - apply (Hfull 2); lia.
        - apply (Hcut 2); lia. }
      inv_all E. apply Some_inj in E. subst x. destruct (c1 <? 224) eqn:C2; [lia|]. destruct (c1 <? 240) eqn:C3; [lia|].
      apply (Hfull 3); lia.
    + destruct d1 as [|c1 d2].
      * cbn in H. apply Some_inj in H. lia.
      * cbn [hd0 app] in *. rewrite eofb_cons_sent, andb_false_r in H. apply Some_inj in H. subst n.
        exists [92; c1], d2, any_next. split; [reflexivity|]. split; [reflexivity|]. split; [apply Esc_char; [exact Eh|exact Hnl|lia]|reflexivity].
Qed.

(* --- strings ------------------------------------------------------------------------------------------------- *)
Lemma newline_inv r nl : consume_newline (r ++ [0]) = Some nl ->
  (nl = 0 /\ is_nl (hd0 r) = false) \/ (0 < nl /\ exists nlb y, r = nlb ++ y /\ len nlb = nl /\ line_break nlb y).
Proof.
  unfold consume_newline. rewrite peekz_sent_0. cbn [option_bind]. intros H.
  destruct ((hd0 r =? 10) || (hd0 r =? 12)) eqn:E1.
  - apply Some_inj in H. subst nl. right. split; [lia|]. destruct r as [|c r']; [discriminate E1|]. cbn [hd0] in E1.
    exists [c], r'. split; [reflexivity|]. split; [reflexivity|]. unfold line_break.
    destruct (c =? 10) eqn:E; [left; f_equal; lia|right; left; f_equal; lia].
  - destruct (hd0 r =? 13) eqn:E2.
    + destruct (hd0_is r 13) as (r' & ->); [lia|lia|]. cbn [app] in H. rewrite peekz_1, peekz_sent_0 in H. cbn [option_bind] in H.
      apply Some_inj in H. right. destruct (hd0 r' =? 10) eqn:E3.
      * destruct (hd0_is r' 10) as (r2 & ->); [lia|lia|]. split; [lia|]. exists [13; 10], r2. split; [reflexivity|]. split; [subst nl; reflexivity|].
        right. right. left. reflexivity.
      * split; [lia|]. exists [13], r'. split; [reflexivity|]. split; [subst nl; reflexivity|]. right. right. right. split; [reflexivity|lia].
    + apply Some_inj in H. left. split; [lia|]. cls. lia.
Qed.

Lemma escape_zero_inv t e : consume_escape (92 :: t ++ [0]) = Some e -> e <= 0 -> t = [] \/ is_nl (hd0 t) = true.
Proof.
  intros H He. destruct t as [|c t']; [auto|]. right. cbn [hd0]. destruct (is_nl c) eqn:Enl; [reflexivity|]. exfalso.
  revert H. unfold consume_escape. rewrite peekz_0. cbn [option_bind negb Z.eqb Pos.eqb tl app].
  unfold consume_newline, consume_hexdigit. rewrite !peekz_0. cbn [option_bind].
  replace ((c =? 10) || (c =? 12)) with false by (revert Enl; cls; lia).
  replace (c =? 13) with false by (revert Enl; cls; lia). cbn [option_bind Z.ltb Z.compare].
  destruct (is_hex c) eqn:Eh.
  - cbn [Z.ltb Z.compare tl]. intros H. bind_inv H. bind_inv H. apply Some_inj in H.
    destruct (hex_upto_inv _ _ _ E) as (a & r2 & _ & Hla & _). pose proof (len_nonneg a).
    pose proof (escape_ws_range _ _ E0). lia.
  - cbn [Z.ltb Z.compare]. destruct (192 <=? c) eqn:E192.
    + intros H. bind_inv H. apply Some_inj in H. destruct (rune_len_ok c t') as (m & Hm & Hm1 & _). cbn [app] in Hm. rewrite E in Hm.
      apply Some_inj in Hm. lia.
    + rewrite eofb_cons_sent, andb_false_r. intros H. apply Some_inj in H. lia.
Qed.

Definition str_end (q : Z) (ty : ttype) (rest : list Z) (extra : Z) : Prop :=
  (ty = TString /\ extra = 0 /\ rest = []) \/
  (ty = TBadString /\ extra = 1 /\ exists nl r, rest = nl :: r /\ is_nl nl = true) \/
  (ty = TString /\ extra = 1 /\ exists r, rest = q :: r) \/
  (ty = TString /\ extra = 1 /\ rest = [92]).

Lemma string_loop_inv q : forall m d ty n, (length d <= m)%nat -> string_loop q (d ++ [0]) 0 = Some (ty, n) ->
  exists body rest extra, d = body ++ rest /\ sbody q body rest /\ n = len body + extra /\ str_end q ty rest extra.
Proof.
  induction m as [|m IH]; intros d ty n Hlen H.
  - destruct d as [|c t]; [|cbn [length] in Hlen; lia]. cbn in H. apply Some_pair_inj in H. destruct H as [<- <-].
    exists [], [], 0. split; [reflexivity|]. split; [constructor|]. split; [reflexivity|left; auto].
  - destruct d as [|c t].
    { cbn in H. apply Some_pair_inj in H. destruct H as [<- <-].
      exists [], [], 0. split; [reflexivity|]. split; [constructor|]. split; [reflexivity|left; auto]. }
    cbn [length] in Hlen. cbn [app] in H. rewrite string_loop_0, eofb_cons_sent, andb_false_r in H.
    assert (Hstep : forall pre y ty' n', c :: t = pre ++ y -> (length y <= m)%nat ->
              string_loop q (y ++ [0]) 0 = Some (ty', n') ->
              (forall body' rest, y = body' ++ rest -> sbody q body' rest -> sbody q (pre ++ body') rest) ->
              exists body rest extra, c :: t = body ++ rest /\ sbody q body rest /\ len pre + n' = len body + extra /\ str_end q ty' rest extra).
    { intros pre y ty' n' Hd Hy Hl Hsb. destruct (IH _ _ _ Hy Hl) as (body' & rest & extra & Hyb & Hb & Hn & He).
      exists (pre ++ body'), rest, extra. split; [rewrite Hd, Hyb, app_assoc; reflexivity|]. split; [apply Hsb; assumption|].
      split; [rewrite len_app; lia|exact He]. }
    destruct (is_nl c) eqn:Enl.
    { apply Some_pair_inj in H. destruct H as [<- <-]. exists [], (c :: t), 1. split; [reflexivity|]. split; [constructor|].
      split; [reflexivity|]. right. left. eauto 6. }
    destruct (c =? q) eqn:Eq.
    { apply Some_pair_inj in H. destruct H as [<- <-]. exists [], (c :: t), 1. split; [reflexivity|]. split; [constructor|].
      split; [reflexivity|]. right. right. left. assert (c = q) by lia. subst c. eauto 6. }
    destruct (c =? 92) eqn:E92.
    + assert (c = 92) by lia. subst c. bind_inv H. destruct (0 <? x) eqn:Ex.
      * change (92 :: t ++ [0]) with ((92 :: t) ++ [0]) in E.
        destruct (escape_inv _ _ E) as (eb & r & nb & Hd & Hle & Heb & Hnb); [lia|].
        destruct (esc_text_bs _ _ Heb) as (e' & -> & He'). cbn [app] in Hd. injection Hd as ->.
        rewrite len_cons in Hle. replace (Z.to_nat (x - 1)) with (length e') in H by (unfold len in Hle; lia).
        rewrite <- app_assoc, string_loop_skipn in H.
        destruct (string_loop q (r ++ [0]) 0) as [[ty' n']|] eqn:El; [|discriminate H]. cbn [shift2 bump2] in H.
        apply Some_pair_inj in H. destruct H as [<- <-].
        destruct (Hstep (92 :: e') r ty' n') as (body & rest & extra & Hd & Hb & Hn & He); [reflexivity|rewrite app_length in Hlen; lia|exact El| |].
        { intros body' rest -> Hb. apply (SB_esc q _ nb); assumption. }
        exists body, rest, extra. split; [exact Hd|]. split; [exact Hb|]. split; [rewrite len_cons in Hn; lia|exact He].
      * bind_inv H. destruct (newline_inv _ _ E0) as [(-> & Hnl)|(Hpos & nlb & y & -> & Hlnl & Hlb)].
        -- destruct (escape_zero_inv _ _ E) as [-> |Hc]; [lia| |congruence].
           cbn in H. apply Some_pair_inj in H. destruct H as [<- <-].
           exists [], [92], 1. split; [reflexivity|]. split; [constructor|]. split; [reflexivity|]. right. right. right. auto.
        -- replace (Z.to_nat x0) with (length nlb) in H by (unfold len in Hlnl; lia).
           rewrite <- app_assoc, string_loop_skipn in H.
           destruct (string_loop q (y ++ [0]) 0) as [[ty' n']|] eqn:El; [|discriminate H]. cbn [shift2 bump2] in H.
           apply Some_pair_inj in H. destruct H as [<- <-].
           destruct (Hstep (92 :: nlb) y ty' n') as (body & rest & extra & Hd & Hb & Hn & He); [reflexivity|rewrite app_length in Hlen; lia|exact El| |].
           { intros body' rest -> Hb. apply SB_cont; assumption. }
           exists body, rest, extra. split; [exact Hd|]. split; [exact Hb|]. split; [rewrite len_cons in Hn; lia|exact He].
    + destruct (string_loop q (t ++ [0]) 0) as [[ty' n']|] eqn:El; [|discriminate H]. cbn [bump2] in H.
      apply Some_pair_inj in H. destruct H as [<- <-].
      destruct (Hstep [c] t ty' n') as (body & rest & extra & Hd & Hb & Hn & He); [reflexivity|lia|exact El| |].
      { intros body' rest -> Hb. cbn [app]. apply SB_char; [|exact Hb]. unfold str_byte. rewrite Eq, E92, Enl. reflexivity. }
      exists body, rest, extra. split; [exact Hd|]. split; [exact Hb|]. split; [change (len [c]) with 1 in Hn; lia|exact He].
Qed.

Lemma string_inv q d ty : is_quote q -> consume_string ((q :: d) ++ [0]) = Some (ty, len (q :: d)) -> string_shape ty (q :: d).
Proof.
  intros Hq H. unfold consume_string in H. cbn [app] in H. rewrite peekz_0 in H. cbn [option_bind tl] in H.
  destruct (string_loop q (d ++ [0]) 0) as [[ty' n']|] eqn:El; [|discriminate H]. cbn [bump2] in H.
  apply Some_pair_inj in H. destruct H as [<- Hn]. rewrite len_cons in Hn.
  destruct (string_loop_inv q _ d _ _ (le_n _) El) as (body & rest & extra & -> & Hb & Hn' & He).
  rewrite len_app in Hn. assert (Hlr : len rest = extra) by lia.
  destruct He as [(-> & -> & ->)|[(-> & -> & nl & r & -> & Hnl)|[(-> & -> & r & ->)|(-> & -> & ->)]]]; cbn [string_shape].
  - exists q, body. split; [exact Hq|]. right. exists []. auto.
  - nil_of r Hlr. exists q, body, nl. auto.
  - nil_of r Hlr. exists q, body. split; [exact Hq|]. left. auto.
  - exists q, body. split; [exact Hq|]. right. exists [92]. auto.
Qed.

(* --- names --------------------------------------------------------------------------------------------------- *)
Lemma ident_loop_inv : forall m d n, (length d <= m)%nat -> ident_loop (d ++ [0]) 0 = Some n ->
  exists t r, d = t ++ r /\ len t = n /\ nbody t r.
Proof.
  induction m as [|m IH]; intros d n Hlen H.
  - destruct d as [|c t]; [|cbn [length] in Hlen; lia]. cbn in H. apply Some_inj in H. subst n.
    exists [], []. split; [reflexivity|]. split; [reflexivity|constructor].
  - destruct d as [|c t].
    { cbn in H. apply Some_inj in H. subst n. exists [], []. split; [reflexivity|]. split; [reflexivity|constructor]. }
    cbn [length] in Hlen. cbn [app] in H. rewrite ident_loop_0 in H.
    assert (Hstop : Some 0 = Some n -> exists t0 r, c :: t = t0 ++ r /\ len t0 = n /\ nbody t0 r).
    { intros H0. apply Some_inj in H0. subst n. exists [], (c :: t). split; [reflexivity|]. split; [reflexivity|constructor]. }
    destruct (ident_char c) eqn:Ec.
    + apply bump_some in H. destruct H as (k & Hk & ->). assert (Hlt : (length t <= m)%nat) by lia. destruct (IH _ _ Hlt Hk) as (t0 & r & -> & Hl & Hb).
      exists (c :: t0), r. split; [reflexivity|]. split; [rewrite len_cons; lia|]. apply NB_char; assumption.
    + destruct (c =? 92) eqn:E92; [|exact (Hstop H)]. assert (c = 92) by lia. subst c.
      bind_inv H. destruct (0 <? x) eqn:Ex; [|exact (Hstop H)].
      change (92 :: t ++ [0]) with ((92 :: t) ++ [0]) in E.
      destruct (escape_inv _ _ E) as (eb & r0 & nb & Hd & Hle & Heb & Hnb); [lia|].
      destruct (esc_text_bs _ _ Heb) as (e' & -> & He'). cbn [app] in Hd. injection Hd as ->.
      rewrite len_cons in Hle. replace (Z.to_nat (x - 1)) with (length e') in H by (unfold len in Hle; lia).
      rewrite <- app_assoc, ident_loop_skipn in H.
      destruct (ident_loop (r0 ++ [0]) 0) as [k|] eqn:El; [|discriminate H]. cbn [bump] in H. apply Some_inj in H. subst n.
      assert (Hlt : (length r0 <= m)%nat) by (rewrite app_length in Hlen; lia). destruct (IH _ _ Hlt El) as (t0 & r & -> & Hl & Hb).
      exists ((92 :: e') ++ t0), r. split; [cbn [app]; rewrite <- app_assoc; reflexivity|].
      split; [rewrite len_app, len_cons; lia|]. apply (NB_esc _ nb); assumption.
Qed.

Lemma ident_loop_inv' d n : ident_loop (d ++ [0]) 0 = Some n -> exists t r, d = t ++ r /\ len t = n /\ nbody t r.
Proof. apply (ident_loop_inv (length d)). apply le_n. Qed.

(* the first item of a name and its body, as ident_tail (not custom) reads them after the prefix *)
Lemma ident_head_inv d p n :
  (c <- peekz (d ++ [0]) 0 ;;
   if ident_start c then n <- ident_loop (tl (d ++ [0])) 0 ;; Some (p + 1 + n)
   else if c =? 92 then
     e <- consume_escape (d ++ [0]) ;;
     if 0 <? e then n <- ident_loop (skipz e (d ++ [0])) 0 ;; Some (p + e + n) else Some 0
   else Some 0) = Some n -> 0 < n ->
  exists t r, d = t ++ r /\ len t = n - p /\ ident_core t r.
Proof.
  rewrite peekz_sent_0. cbn [option_bind]. intros H Hn. destruct (ident_start (hd0 d)) eqn:Es.
  - destruct d as [|c t']; [discriminate Es|]. cbn [hd0 app tl] in *. bind_inv H. apply Some_inj in H.
    destruct (ident_loop_inv' _ _ E) as (t0 & r & -> & Hl & Hb).
    exists (c :: t0), r. split; [reflexivity|]. split; [rewrite len_cons; lia|]. apply IC_char; assumption.
  - destruct (hd0 d =? 92) eqn:E92; [|apply Some_inj in H; lia].
    bind_inv H. destruct (0 <? x) eqn:Ex; [|apply Some_inj in H; lia]. bind_inv H. apply Some_inj in H.
    destruct (escape_inv _ _ E) as (eb & r0 & nb & -> & Hle & Heb & Hnb); [lia|].
    rewrite <- app_assoc, <- Hle, skipz_len_app in E0.
    destruct (ident_loop_inv' _ _ E0) as (t0 & r & -> & Hl & Hb).
    exists (eb ++ t0), r. split; [rewrite app_assoc; reflexivity|]. split; [rewrite len_app; lia|]. apply (IC_esc _ nb); assumption.
Qed.

Lemma name_inv d n : consume_ident_token (d ++ [0]) = Some n -> 0 < n ->
  exists t r, d = t ++ r /\ len t = n /\ (ident_text t r \/ custom_text t r).
Proof.
  unfold consume_ident_token. rewrite peekz_sent_0. cbn [option_bind]. intros H Hn.
  destruct (hd0 d =? 45) eqn:E45.
  - destruct (hd0_is d 45) as (d1 & ->); [lia|lia|]. cbn [app] in H. rewrite peekz_1, peekz_sent_0 in H. cbn [option_bind] in H.
    destruct (hd0 d1 =? 45) eqn:E2.
    + destruct (hd0_is d1 45) as (d2 & ->); [lia|lia|]. unfold ident_tail in H. cbn [app] in H. rewrite skipz_2 in H.
      bind_inv H. apply Some_inj in H. destruct (ident_loop_inv' _ _ E) as (t0 & r & -> & Hl & Hb).
      exists (45 :: 45 :: t0), r. split; [reflexivity|]. split; [rewrite !len_cons; lia|]. right. constructor. exact Hb.
    + unfold ident_tail in H. rewrite skipz_1 in H.
      destruct (ident_head_inv d1 1 n H Hn) as (t0 & r & -> & Hl & Hc).
      exists (45 :: t0), r. split; [reflexivity|]. split; [rewrite len_cons; lia|]. left. apply IT_dash. exact Hc.
  - unfold ident_tail in H. rewrite skipz_0 in H.
    destruct (ident_head_inv d 0 n H Hn) as (t0 & r & -> & Hl & Hc).
    exists t0, r. split; [reflexivity|]. split; [lia|]. left. apply IT_core. exact Hc.
Qed.

Lemma whole (b t r : list Z) : b = t ++ r -> len t = len b -> t = b /\ r = [].
Proof.
  intros -> Hl. rewrite len_app in Hl. assert (r = []) by (apply len0_nil; lia). subst r. rewrite app_nil_r. auto.
Qed.

Lemma name_whole b : consume_ident_token (b ++ [0]) = Some (len b) -> b <> [] -> ident_text b [] \/ custom_text b [].
Proof.
  intros H Hne. assert (0 < len b) by (destruct b; [congruence|rewrite len_cons; pose proof (len_nonneg b); lia]).
  destruct (name_inv _ _ H) as (t & r & Hb & Hl & Ht); [lia|]. destruct (whole _ _ _ Hb Hl) as [-> ->]. exact Ht.
Qed.

Lemma not_ident_dd rest r : ~ ident_text (45 :: 45 :: rest) r.
Proof.
  intros H. inversion H as [t r0 Hc|t r0 Hc]; subst; apply ident_core_hd in Hc; cbn [hd0] in Hc; destruct Hc as [Hc|Hc]; discriminate Hc.
Qed.

Lemma custom_inv b : consume_custom_variable (b ++ [0]) = Some (len b) -> hd0 b = 45 -> custom_text b [].
Proof.
  intros H Hhd. destruct (hd0_is b 45 Hhd) as (b1 & ->); [lia|]. assert (Hne : 45 :: b1 <> []) by discriminate.
  assert (Hpos : 0 < len (45 :: b1)) by (rewrite len_cons; pose proof (len_nonneg b1); lia).
  unfold consume_custom_variable in H. bind_inv H. destruct (negb (x =? 45)) eqn:E1; [apply Some_inj in H; lia|].
  apply negb_false_iff in E1. cbn [app] in E. rewrite peekz_1, peekz_sent_0 in E. apply Some_inj in E.
  destruct (hd0_is b1 45) as (b2 & ->); [lia|lia|].
  destruct (name_whole _ H Hne) as [Hi|Hc]; [|exact Hc]. exfalso. exact (not_ident_dd _ _ Hi).
Qed.

Lemma at_inv b' : consume_at_keyword ((64 :: b') ++ [0]) = Some (len (64 :: b')) -> at_shape (64 :: b').
Proof.
  unfold consume_at_keyword. cbn [app tl]. intros H. bind_inv H. pose proof (len_nonneg b'). rewrite len_cons in H.
  destruct (0 <? x) eqn:Ex; apply Some_inj in H; [|lia]. assert (x = len b') by lia. subst x.
  exists b'. split; [reflexivity|]. apply name_whole; [exact E|]. intros ->. change (len (@nil Z)) with 0 in Ex. lia.
Qed.

Lemma hash_inv b' : consume_hash ((35 :: b') ++ [0]) = Some (len (35 :: b')) -> hash_shape (35 :: b').
Proof.
  unfold consume_hash. cbn [app tl]. rewrite peekz_sent_0. cbn [option_bind]. intros H. pose proof (len_nonneg b'). rewrite len_cons in H.
  destruct (ident_char (hd0 b')) eqn:Ec.
  - destruct b' as [|c1 b2]; [discriminate Ec|]. cbn [hd0 app tl] in *. bind_inv H. apply Some_inj in H. rewrite len_cons in H.
    destruct (ident_loop_inv' _ _ E) as (t & r & Hb & Hl & Hn). destruct (whole _ _ _ Hb) as [-> ->]; [lia|].
    exists (c1 :: b2). split; [reflexivity|]. split; [discriminate|]. apply NB_char; assumption.
  - destruct (hd0 b' =? 92) eqn:E92; [|apply Some_inj in H; lia].
    bind_inv H. destruct (0 <? x) eqn:Ex; [|apply Some_inj in H; lia]. bind_inv H. apply Some_inj in H.
    destruct (escape_inv _ _ E) as (eb & r0 & nb & -> & Hle & Heb & Hnb); [lia|].
    rewrite <- app_assoc, <- Hle, skipz_len_app in E0.
    destruct (ident_loop_inv' _ _ E0) as (t & r & Hb & Hl & Hn). rewrite len_app in H. destruct (whole _ _ _ Hb) as [-> ->]; [lia|].
    exists (eb ++ r0). split; [reflexivity|]. split; [destruct (esc_text_bs _ _ Heb) as (e' & -> & _); discriminate|].
    replace r0 with (r0 ++ []) in Hnb by apply app_nil_r. apply (NB_esc _ nb); assumption.
Qed.

(* consumeIdentlike up to the decision between identifier, function and url *)
Lemma identlike_name d ty n : consume_identlike (d ++ [0]) = Some (ty, n) -> ty = TIdent \/ ty = TFunction ->
  exists name r, d = name ++ r /\ (ident_text name r \/ custom_text name r) /\
    consume_ident_token (d ++ [0]) = Some (len name) /\ 0 < len name /\
    ((ty = TIdent /\ n = len name) \/ (ty = TFunction /\ n = len name + 1 /\ hd0 r = 40 /\ is_url_name name = false)).
Proof.
  unfold consume_identlike. intros H Hty. bind_inv H.
  destruct (x =? 0) eqn:E0; [apply Some_pair_inj in H; destruct H as [<- _]; destruct Hty; discriminate|].
  destruct (consume_ident_token_ok d) as (m & Hm & Hm0). rewrite E in Hm. apply Some_inj in Hm. subst m.
  destruct (name_inv _ _ E) as (name & r & -> & Hl & Hname); [lia|].
  rewrite <- app_assoc in H. rewrite <- Hl in H. rewrite skipz_len_app, firstz_len_app in H.
  rewrite peekz_sent_0 in H. cbn [option_bind] in H. exists name, r. split; [reflexivity|]. split; [exact Hname|].
  split; [rewrite Hl; reflexivity|]. split; [lia|].
  destruct (negb (hd0 r =? 40)) eqn:E40; [apply Some_pair_inj in H; destruct H as [<- <-]; left; auto|].
  apply negb_false_iff in E40.
  destruct (negb (is_url_name name)) eqn:Eu; [apply Some_pair_inj in H; destruct H as [<- <-]; right; apply negb_true_iff in Eu; repeat split; auto; lia|].
  exfalso. bind_inv H. unfold url_arg in H.
  assert (Hu : ty = TURL \/ ty = TBadURL) by (inv_all H; try (some_inv H; auto; fail); apply url_end_ty in H; exact H).
  destruct Hty, Hu; congruence.
Qed.

Lemma tail_sent (b t r : list Z) : b ++ [0] = t ++ r -> len t <= len b -> exists r', r = r' ++ [0] /\ b = t ++ r'.
Proof.
  intros H Hl. pose proof (len_nonneg t). rewrite <- (firstz_skipz (len t) b) in H. rewrite <- app_assoc in H.
  apply app_len_inj in H; [|apply len_firstz; lia]. destruct H as [H1 H2]. exists (skipz (len t) b). split; [symmetry; exact H2|].
  pose proof (firstz_skipz (len t) b) as Hfs. rewrite H1 in Hfs. symmetry. exact Hfs.
Qed.

Lemma dimension_inv b : consume_numeric (b ++ [0]) = Some (TDimension, len b) -> dim_shape b.
Proof.
  unfold consume_numeric. intros H. bind_inv H. destruct (x =? 0) eqn:E0; [apply Some_pair_inj in H; destruct H; discriminate|].
  bind_inv H. destruct (consume_number_token_ok b) as (m & Hm & Hx). rewrite E in Hm. apply Some_inj in Hm. subst m.
  destruct (number_token_inv _ _ E) as (t & r & Hl & Hlt & Hnum); [lia|].
  destruct (tail_sent _ _ _ Hl) as (r' & -> & ->); [lia|].
  assert (Hsk : skipz x ((t ++ r') ++ [0]) = r' ++ [0]) by (rewrite <- app_assoc, <- Hlt; apply skipz_len_app). rewrite Hsk in *.
  destruct (0 <? x0); [apply Some_pair_inj in H; destruct H; discriminate|].
  bind_inv H. destruct (0 <? x1) eqn:Ei; apply Some_pair_inj in H; destruct H as [H Hn]; [|discriminate H].
  destruct (name_inv _ _ E2) as (unit & r2 & Hr & Hlu & Hunit); [lia|]. rewrite len_app in Hn.
  destruct (whole _ _ _ Hr) as [-> ->]; [lia|]. exists t, r'. auto.
Qed.

(* --- url( ) and bad-url ---------------------------------------------------------------------------------------- *)
Lemma scan_while_sent P : P 0 = false -> forall d n, scan_while P (d ++ [0]) = Some n ->
  exists a r, d = a ++ r /\ len a = n /\ all_b P a /\ P (hd0 r) = false.
Proof.
  intros P0. induction d as [|c t IH]; intros n H; cbn [app] in H; rewrite scan_while_cons in H.
  - rewrite P0 in H. apply Some_inj in H. subst n. exists [], []. repeat split; [constructor|exact P0].
  - destruct (P c) eqn:Pc.
    + destruct (scan_while P (t ++ [0])) as [m|] eqn:Em; [|discriminate]. apply Some_inj in H. subst n.
      destruct (IH m eq_refl) as (a & r & -> & Hl & Ha & Hr). exists (c :: a), r.
      split; [reflexivity|]. split; [rewrite len_cons; lia|]. split; [constructor; assumption|assumption].
    + apply Some_inj in H. subst n. exists [], (c :: t). repeat split; [constructor|exact Pc].
Qed.

(* the end of an unquoted url body *)
Definition uend (ok : bool) (rest : list Z) : Prop :=
  if ok then rest = [] \/ exists r, rest = 41 :: r
  else exists bc y, rest = bc :: y /\ url_bad_char bc = true /\ (bc = 92 -> y = [] \/ is_nl (hd0 y) = true).

Lemma url_loop_inv : forall m d ok n, (length d <= m)%nat -> url_loop (d ++ [0]) 0 = Some (ok, n) ->
  exists body rest, d = body ++ rest /\ len body = n /\ ubody body rest /\ uend ok rest.
Proof.
  induction m as [|m IH]; intros d ok n Hlen H.
  - destruct d as [|c t]; [|cbn [length] in Hlen; lia]. cbn in H. apply Some_pair_inj in H. destruct H as [<- <-].
    exists [], []. split; [reflexivity|]. split; [reflexivity|]. split; [constructor|left; reflexivity].
  - destruct d as [|c t].
    { cbn in H. apply Some_pair_inj in H. destruct H as [<- <-].
      exists [], []. split; [reflexivity|]. split; [reflexivity|]. split; [constructor|left; reflexivity]. }
    cbn [length] in Hlen. cbn [app] in H. rewrite url_loop_0, eofb_cons_sent, andb_false_r in H. cbn [orb] in H.
    destruct (c =? 41) eqn:E41.
    { apply Some_pair_inj in H. destruct H as [<- <-]. exists [], (c :: t). split; [reflexivity|]. split; [reflexivity|].
      split; [constructor|]. right. exists t. f_equal. lia. }
    assert (Hstop : (c = 92 -> t = [] \/ is_nl (hd0 t) = true) -> url_bad_char c = true -> Some (false, 0) = Some (ok, n) ->
              exists body rest, c :: t = body ++ rest /\ len body = n /\ ubody body rest /\ uend ok rest).
    { intros H92 Hbad H0. apply Some_pair_inj in H0. destruct H0 as [<- <-]. exists [], (c :: t). split; [reflexivity|]. split; [reflexivity|].
      split; [constructor|]. exists c, t. auto. }
    destruct (url_bad_char c) eqn:Ebad.
    + destruct (c =? 92) eqn:E92; [|apply Hstop; [lia|reflexivity|exact H]].
      assert (c = 92) by lia. subst c. bind_inv H. destruct (0 <? x) eqn:Ex.
      * change (92 :: t ++ [0]) with ((92 :: t) ++ [0]) in E.
        destruct (escape_inv _ _ E) as (eb & r0 & nb & Hd & Hle & Heb & Hnb); [lia|].
        destruct (esc_text_bs _ _ Heb) as (e' & -> & He'). cbn [app] in Hd. injection Hd as ->.
        rewrite len_cons in Hle. replace (Z.to_nat (x - 1)) with (length e') in H by (unfold len in Hle; lia).
        rewrite <- app_assoc, url_loop_skipn in H.
        destruct (url_loop (r0 ++ [0]) 0) as [[ok' n']|] eqn:El; [|discriminate H]. cbn [shift2 bump2] in H.
        apply Some_pair_inj in H. destruct H as [<- <-].
        assert (Hlt : (length r0 <= m)%nat) by (rewrite app_length in Hlen; lia).
        destruct (IH _ _ _ Hlt El) as (body & rest & -> & Hl & Hb & Hend).
        exists ((92 :: e') ++ body), rest. split; [cbn [app]; rewrite <- app_assoc; reflexivity|].
        split; [rewrite len_app, len_cons; lia|]. split; [apply (UB_esc _ nb); assumption|exact Hend].
      * apply Hstop; [|reflexivity|exact H]. intros _. apply (escape_zero_inv _ _ E). lia.
    + destruct (url_loop (t ++ [0]) 0) as [[ok' n']|] eqn:El; [|discriminate H]. cbn [bump2] in H.
      apply Some_pair_inj in H. destruct H as [<- <-].
      assert (Hlt : (length t <= m)%nat) by lia.
      destruct (IH _ _ _ Hlt El) as (body & rest & -> & Hl & Hb & Hend).
      exists (c :: body), rest. split; [reflexivity|]. split; [rewrite len_cons; lia|]. split; [|exact Hend].
      apply UB_char; [|exact Hb]. unfold url_byte. rewrite Ebad, E41. reflexivity.
Qed.

Lemma badurl_loop_inv : forall m d n, (length d <= m)%nat -> badurl_loop (d ++ [0]) 0 = Some n ->
  exists rem rest, d = rem ++ rest /\ rbody rem rest /\ ((rest = [] /\ n = len rem) \/ (exists r, rest = 41 :: r /\ n = len rem + 1)).
Proof.
  induction m as [|m IH]; intros d n Hlen H.
  - destruct d as [|c t]; [|cbn [length] in Hlen; lia]. cbn in H. apply Some_inj in H. subst n.
    exists [], []. split; [reflexivity|]. split; [constructor|left; auto].
  - destruct d as [|c t].
    { cbn in H. apply Some_inj in H. subst n. exists [], []. split; [reflexivity|]. split; [constructor|left; auto]. }
    cbn [length] in Hlen. cbn [app] in H. rewrite badurl_loop_0, eofb_cons_sent in H.
    destruct (c =? 41) eqn:E41.
    { apply Some_inj in H. subst n. exists [], (c :: t). split; [reflexivity|]. split; [constructor|]. right. exists t. split; [f_equal; lia|reflexivity]. }
    bind_inv H. destruct (0 <? x) eqn:Ex.
    + change (c :: t ++ [0]) with ((c :: t) ++ [0]) in E.
      destruct (escape_inv _ _ E) as (eb & r0 & nb & Hd & Hle & Heb & Hnb); [lia|].
      destruct (esc_text_bs _ _ Heb) as (e' & -> & He'). cbn [app] in Hd. injection Hd as -> ->.
      rewrite len_cons in Hle. replace (Z.to_nat (x - 1)) with (length e') in H by (unfold len in Hle; lia).
      rewrite <- app_assoc, badurl_loop_skipn in H.
      destruct (badurl_loop (r0 ++ [0]) 0) as [n'|] eqn:El; [|discriminate H]. cbn [shift bump] in H. apply Some_inj in H. subst n.
      assert (Hlt : (length r0 <= m)%nat) by (rewrite app_length in Hlen; lia).
      destruct (IH _ _ Hlt El) as (rem & rest & -> & Hb & Hend).
      exists ((92 :: e') ++ rem), rest. split; [cbn [app]; rewrite <- app_assoc; reflexivity|]. split; [apply (RB_esc _ nb); assumption|].
      rewrite len_app, len_cons. destruct Hend as [(-> & ->)|(r & -> & ->)]; [left; split; [reflexivity|lia]|right; exists r; split; [reflexivity|lia]].
    + destruct (badurl_loop (t ++ [0]) 0) as [n'|] eqn:El; [|discriminate H]. cbn [bump] in H. apply Some_inj in H. subst n.
      assert (Hlt : (length t <= m)%nat) by lia.
      destruct (IH _ _ Hlt El) as (rem & rest & -> & Hb & Hend).
      exists (c :: rem), rest. split; [reflexivity|]. split.
      * destruct (c =? 92) eqn:E92.
        -- assert (c = 92) by lia. subst c. apply RB_bs; [|exact Hb]. change (92 :: (rem ++ rest) ++ [0]) with (92 :: (rem ++ rest) ++ [0]) in E.
           destruct (escape_zero_inv _ _ E) as [H0|H0]; [lia|left; exact H0|right; exact H0].
        -- apply RB_char; [lia|lia|exact Hb].
      * rewrite len_cons. destruct Hend as [(-> & ->)|(r & -> & ->)]; [left; split; [reflexivity|lia]|right; exists r; split; [reflexivity|lia]].
Qed.

Lemma badurl_whole d : badurl_loop (d ++ [0]) 0 = Some (len d) -> exists rem cl, d = rem ++ cl /\ rbody rem cl /\ closer0 cl.
Proof.
  intros H. destruct (badurl_loop_inv _ d _ (le_n _) H) as (rem & rest & -> & Hb & [(-> & Hn)|(r & -> & Hn)]).
  - exists rem, []. split; [reflexivity|]. split; [exact Hb|right; reflexivity].
  - rewrite len_app, len_cons in Hn. nil_of r Hn. exists rem, [41]. split; [reflexivity|]. split; [exact Hb|left; reflexivity].
Qed.

Definition end_shape (ty : ttype) (d : list Z) : Prop :=
  exists ws2, all_b is_ws ws2 /\
    ((ty = TURL /\ exists cl, d = ws2 ++ cl /\ closer0 cl) \/
     (ty = TBadURL /\ exists rem cl, d = ws2 ++ rem ++ cl /\ rem <> [] /\ is_ws (hd0 rem) = false /\ hd0 rem <> 41 /\ rbody rem cl /\ closer0 cl)).

Lemma url_end_whole n d ty : url_end n (d ++ [0]) = Some (ty, n + len d) -> end_shape ty d.
Proof.
  unfold url_end. intros H. bind_inv H. destruct (scan_while_sent is_ws eq_refl _ _ E) as (ws2 & r & -> & Hl & Hws & Hr).
  assert (Hsk : skipz x ((ws2 ++ r) ++ [0]) = r ++ [0]) by (rewrite <- app_assoc, <- Hl; apply skipz_len_app). rewrite Hsk in H.
  unfold consume_byte in H. rewrite peekz_sent_0 in H. cbn [option_bind] in H. rewrite len_app in H. exists ws2. split; [exact Hws|].
  destruct (hd0 r =? 41) eqn:E41.
  - change (0 <? 1) with true in H. cbn [orb] in H. apply Some_pair_inj in H. destruct H as [<- Hn].
    destruct (hd0_is r 41) as (r' & ->); [lia|lia|]. nil_of r' Hn. left. split; [reflexivity|]. exists [41]. split; [reflexivity|left; reflexivity].
  - change (0 <? 0) with false in H. cbn [orb] in H. destruct (eofb (r ++ [0])) eqn:Ee.
    + apply Some_pair_inj in H. destruct H as [<- Hn]. assert (r = []) by (apply len0_nil; lia). subst r.
      left. split; [reflexivity|]. exists []. split; [reflexivity|right; reflexivity].
    + bind_inv H. apply Some_pair_inj in H. destruct H as [<- Hn]. assert (x0 = len r) by lia. subst x0.
      destruct (badurl_whole _ E0) as (rem & cl & -> & Hb & Hcl). right. split; [reflexivity|].
      assert (Hne : rem <> []).
      { intros ->. cbn [app] in *. destruct Hcl as [-> | ->]; [cbn in E41; discriminate|cbn in Ee; discriminate]. }
      exists rem, cl. split; [reflexivity|]. destruct rem as [|c0 rem']; [congruence|]. cbn [app hd0] in *.
      split; [discriminate|]. split; [exact Hr|]. split; [lia|]. split; [exact Hb|exact Hcl].
Qed.

Lemma string_arg_inv q d1 ty n : is_quote q -> consume_string ((q :: d1) ++ [0]) = Some (ty, n) ->
  exists s y bad, q :: d1 = s ++ y /\ qarg s y bad /\ n = len s /\ ty = (if bad then TBadString else TString).
Proof.
  intros Hq H. unfold consume_string in H. cbn [app] in H. rewrite peekz_0 in H. cbn [option_bind tl] in H.
  destruct (string_loop q (d1 ++ [0]) 0) as [[ty' n']|] eqn:El; [|discriminate H]. cbn [bump2] in H.
  apply Some_pair_inj in H. destruct H as [<- <-].
  destruct (string_loop_inv q _ d1 _ _ (le_n _) El) as (body & rest & extra & -> & Hb & Hn' & He).
  destruct He as [(-> & -> & ->)|[(-> & -> & nl & r & -> & Hnl)|[(-> & -> & r & ->)|(-> & -> & ->)]]].
  - exists (q :: body ++ []), [], false. split; [rewrite !app_nil_r; reflexivity|]. split; [apply QA_eof; auto|].
    split; [rewrite app_nil_r, len_cons; lia|reflexivity].
  - exists (q :: body ++ [nl]), r, true. split; [cbn [app]; rewrite <- app_assoc; reflexivity|]. split; [apply QA_bad; assumption|].
    split; [rewrite len_cons, len_app; change (len [nl]) with 1; lia|reflexivity].
  - exists (q :: body ++ [q]), r, false. split; [cbn [app]; rewrite <- app_assoc; reflexivity|]. split; [apply QA_str; assumption|].
    split; [rewrite len_cons, len_app; change (len [q]) with 1; lia|reflexivity].
  - exists (q :: body ++ [92]), [], false. split; [rewrite app_nil_r; reflexivity|]. split; [apply QA_eof; auto|].
    split; [rewrite len_cons, len_app; change (len [92]) with 1; lia|reflexivity].
Qed.

Lemma ws_nil_of_head (ws2 x : list Z) : all_b is_ws ws2 -> is_ws (hd0 (ws2 ++ x)) = false -> ws2 = [].
Proof. intros H Hh. destruct ws2 as [|w t]; [reflexivity|]. inversion H; subst. cbn [app hd0] in Hh. congruence. Qed.

Lemma skipz_len1_app (a : list Z) c x : skipz (len a + 1) (a ++ c :: x) = x.
Proof.
  change (a ++ c :: x) with (a ++ [c] ++ x). rewrite app_assoc.
  replace (len a + 1) with (len (a ++ [c])) by (rewrite len_app; reflexivity). apply skipz_len_app.
Qed.

Lemma url_arg_whole n a ty : url_arg n (a ++ [0]) = Some (ty, n + len a) -> is_ws (hd0 a) = false -> arg_shape ty a.
Proof.
  unfold url_arg. rewrite peekz_sent_0. cbn [option_bind]. intros H Hws.
  destruct ((hd0 a =? 34) || (hd0 a =? 39)) eqn:Eq.
  - assert (Hq : is_quote (hd0 a)) by (unfold is_quote; lia).
    destruct a as [|q d1]; [cbn in Eq; discriminate|]. cbn [hd0] in *. bind_inv H. destruct x as [sty sn].
    destruct (string_arg_inv _ _ _ _ Hq E) as (s & y & bad & Ha & Hs & -> & ->). cbn [fst snd] in H. rewrite Ha in *.
    assert (Hsk : skipz (len s) ((s ++ y) ++ [0]) = y ++ [0]) by (rewrite <- app_assoc; apply skipz_len_app). rewrite Hsk in H.
    rewrite len_app in H. destruct bad; cbn [tt_eqb tt_code Z.eqb Pos.eqb] in H.
    + bind_inv H. apply Some_pair_inj in H. destruct H as [<- Hn]. assert (x = len y) by lia. subst x.
      destruct (badurl_whole _ E0) as (rem & cl & -> & Hb & Hcl). cbn [arg_shape]. right. right. right.
      exists s, rem, cl. auto.
    + replace (n + (len s + len y)) with ((n + len s) + len y) in H by lia. apply url_end_whole in H.
      destruct H as (ws2 & Hw2 & [(-> & cl & -> & Hcl)|(-> & rem & cl & -> & Hne & Hrw & H41 & Hb & Hcl)]); cbn [arg_shape].
      * right. exists s, ws2, cl. auto.
      * right. right. left. exists s, ws2, rem, cl. repeat split; assumption.
  - bind_inv H. destruct x as [ok un]. destruct (url_loop_inv _ a _ _ (le_n _) E) as (body & rest & -> & <- & Hub & Hend).
    cbn [fst snd] in H. rewrite len_app in H.
    assert (Hsk : skipz (len body) ((body ++ rest) ++ [0]) = rest ++ [0]) by (rewrite <- app_assoc; apply skipz_len_app).
    destruct ok; cbn [uend] in Hend.
    + rewrite Hsk in H. replace (n + (len body + len rest)) with ((n + len body) + len rest) in H by lia. apply url_end_whole in H.
      destruct H as (ws2 & Hw2 & [(-> & cl & -> & Hcl)|(-> & rem & cl & -> & Hne & Hrw & H41 & Hb & Hcl)]).
      * assert (ws2 = []).
        { apply (ws_nil_of_head ws2 cl Hw2). destruct Hend as [H0|(r & H0)]; rewrite H0; reflexivity. }
        subst ws2. cbn [arg_shape]. left. exists body, [], cl. repeat split; auto; constructor.
      * exfalso. assert (ws2 = []).
        { apply (ws_nil_of_head ws2 (rem ++ cl) Hw2). destruct Hend as [H0|(r & H0)]; rewrite H0; reflexivity. }
        subst ws2. cbn [app] in Hend. destruct rem as [|c0 rem']; [congruence|]. cbn [app hd0] in *.
        destruct Hend as [H0|(r & H0)]; [discriminate H0|]. injection H0 as -> _. lia.
    + destruct Hend as (bc & y & -> & Hbad & H92). rewrite Hsk in H. unfold consume_whitespace in H. cbn [app] in H. rewrite peekz_0 in H.
      cbn [option_bind] in H. rewrite len_cons in H.
      destruct (is_ws bc) eqn:Ebw.
      * change (0 <? 1) with true in H. cbv iota in H. rewrite <- app_assoc in H. cbn [app] in H. rewrite skipz_len1_app in H.
        replace (n + (len body + (1 + len y))) with ((n + len body + 1) + len y) in H by lia. apply url_end_whole in H.
        assert (Hbne : body <> []) by (intros ->; cbn [app hd0] in Hws; congruence).
        destruct H as (ws2 & Hw2 & [(-> & cl & -> & Hcl)|(-> & rem & cl & -> & Hne & Hrw & H41 & Hb & Hcl)]); cbn [arg_shape].
        -- left. exists body, (bc :: ws2), cl. split; [reflexivity|]. split; [exact Hub|]. split; [constructor; assumption|].
           split; [intros; congruence|exact Hcl].
        -- right. left. exists body, (bc :: ws2), rem, cl. split; [reflexivity|]. split; [exact Hub|]. split; [exact Hbne|].
           split; [constructor; assumption|]. split; [discriminate|]. repeat split; assumption.
      * change (0 <? 0) with false in H. cbv iota in H. bind_inv H. apply Some_pair_inj in H. destruct H as [<- Hn].
        assert (x = len (bc :: y)) by (rewrite len_cons; lia). subst x.
        change (bc :: y ++ [0]) with ((bc :: y) ++ [0]) in E0.
        destruct (badurl_whole _ E0) as (rem & cl & Hr & Hb & Hcl).
        assert (H41 : bc <> 41) by (intros ->; discriminate Hbad).
        destruct rem as [|c0 rem']; [cbn [app] in Hr; destruct Hcl as [-> | ->]; [injection Hr as -> _; congruence|discriminate Hr]|].
        cbn [app] in Hr. injection Hr as <- ->. cbn [arg_shape]. left. exists body, bc, rem', cl. split; [reflexivity|]. split; [exact Hub|].
        split; [split; [exact Hbad|split; [exact Ebw|exact H92]]|]. split; [|split; [exact Hb|exact Hcl]].
        intros ->. cbn [app hd0] in Eq. exact Eq.
Qed.

Lemma identlike_url b ty : consume_identlike (b ++ [0]) = Some (ty, len b) -> ty = TURL \/ ty = TBadURL ->
  (forall rest n, b = 45 :: 45 :: rest -> consume_ident_token (b ++ [0]) = Some n -> n <= 0) -> url_like ty b.
Proof.
  unfold consume_identlike. intros H Hty Hnc. destruct (consume_ident_token (b ++ [0])) as [x|] eqn:E; [|discriminate H]. cbn [option_bind] in H.
  destruct (x =? 0) eqn:E0; [apply Some_pair_inj in H; destruct H as [<- _]; destruct Hty; discriminate|].
  destruct (consume_ident_token_ok b) as (m & Hm & Hm0). rewrite E in Hm. apply Some_inj in Hm. subst m.
  destruct (name_inv _ _ E) as (name & r & -> & Hl & Hname); [lia|].
  rewrite <- app_assoc in H. rewrite <- Hl in H. rewrite skipz_len_app, firstz_len_app in H.
  rewrite peekz_sent_0 in H. cbn [option_bind] in H.
  destruct (negb (hd0 r =? 40)) eqn:E40; [apply Some_pair_inj in H; destruct H as [<- _]; destruct Hty; discriminate|].
  apply negb_false_iff in E40.
  destruct (negb (is_url_name name)) eqn:Eu; [apply Some_pair_inj in H; destruct H as [<- _]; destruct Hty; discriminate|].
  apply negb_false_iff in Eu. destruct (hd0_is r 40) as (r1 & ->); [lia|lia|]. cbn [app tl] in H.
  bind_inv H. destruct (scan_while_sent is_ws eq_refl _ _ E1) as (ws1 & a & -> & Hlw & Hws1 & Ha).
  assert (Hsk : skipz x0 ((ws1 ++ a) ++ [0]) = a ++ [0]) by (rewrite <- app_assoc, <- Hlw; apply skipz_len_app). rewrite Hsk in H.
  rewrite len_app, len_cons, len_app in H.
  replace (len name + (1 + (len ws1 + len a))) with ((len name + 1 + x0) + len a) in H by lia.
  apply url_arg_whole in H; [|exact Ha].
  exists name, ws1, a. split; [reflexivity|]. split; [|split; [exact Hws1|exact H]].
  split; [|exact Eu]. destruct Hname as [Hi|Hc].
  - apply (ident_text_follow _ _ _ Hi). split; [reflexivity|split; discriminate].
  - exfalso. inversion Hc; subst. cbn [app] in Hnc. specialize (Hnc _ _ eq_refl eq_refl). rewrite !len_cons in *. pose proof (len_nonneg rest). lia.
Qed.

Lemma identlike_case b x ty : consume_identlike (b ++ [0]) = Some x -> Some (or_delim x) = Some (ty, len b) ->
  (forall rest n, b = 45 :: 45 :: rest -> consume_ident_token (b ++ [0]) = Some n -> n <= 0) ->
  b <> [] -> tok_shape ty b.
Proof.
  destruct x as [t n]. intros E H Hnc Hne.
  destruct (consume_identlike_ty _ _ _ E) as [(-> & _)|[->|[->|[->| ->]]]]; unfold or_delim in H; cbn [fst is_err] in H;
    apply Some_pair_inj in H; destruct H as [<- Hn].
  - subst n. destruct (identlike_name _ _ _ E (or_introl eq_refl)) as (name & r & Hb & Hname & Htok & Hpos & [(_ & Hn)|(Hx & _)]); [|discriminate Hx].
    destruct (whole _ _ _ Hb (eq_sym Hn)) as [-> ->]. destruct Hname as [Hi|Hc]; [exact Hi|]. exfalso.
    inversion Hc; subst. specialize (Hnc _ _ eq_refl Htok). lia.
  - destruct b as [|c b']; [congruence|]. apply delim_shape, Hn.
  - subst n. destruct (identlike_name _ _ _ E (or_intror eq_refl)) as (name & r & Hb & Hname & Htok & Hpos & [(Hx & _)|(_ & Hn & H40 & Hu)]); [discriminate Hx|].
    destruct (hd0_is r 40 H40) as (r' & ->); [lia|]. rewrite Hb, len_app in Hn. nil_of r' Hn.
    cbn [tok_shape]. exists name. split; [exact Hb|]. split; [|exact Hu]. destruct Hname as [Hi|Hc]; [exact Hi|]. exfalso.
    inversion Hc; subst. cbn [app] in Hnc. specialize (Hnc _ _ eq_refl Htok). lia.
  - subst n. exact (identlike_url b TURL E (or_introl eq_refl) Hnc).
  - subst n. exact (identlike_url b TBadURL E (or_intror eq_refl) Hnc).
Qed.

Lemma numeric_case b x ty : consume_numeric (b ++ [0]) = Some x -> Some (or_delim x) = Some (ty, len b) ->
  b <> [] -> tok_shape ty b.
Proof.
  destruct x as [t n]. intros E H Hne. unfold or_delim in H. cbn [fst] in H.
  destruct (consume_numeric_ty _ _ _ E) as [->|[->|[->| ->]]]; cbn [is_err] in H; apply Some_pair_inj in H; destruct H as [<- Hn].
  - destruct b as [|c b']; [congruence|]. apply delim_shape, Hn.
  - subst n. apply numeric_shape; [exact E|auto].
  - subst n. apply numeric_shape; [exact E|auto].
  - subst n. exact (dimension_inv b E).
Qed.

(* C07 (converse): the scan of a token on its own bytes determines its shape *)
Lemma scan_shape b ty : css_scan (b ++ [0]) = Some (ty, len b) -> b <> [] -> tok_shape ty b.
Proof.
  intros H Hne. destruct b as [|c b']; [congruence|]. cbn [app] in H.
  unfold css_scan in H. rewrite peekz_0 in H. cbn [option_bind] in H.
  (* whitespace *)
  destruct (is_ws c) eqn:Ews.
  { bind_inv H. res H Hn. cbn [tl] in E. rewrite len_cons in Hn. assert (x = len b') by lia. subst x.
    destruct (scan_while_spec _ _ _ E) as (_ & Hall & _). rewrite firstz_len_app in Hall.
    cbn [tok_shape]. split; [discriminate|]. constructor; assumption. }
  (* single-byte punctuation *)
  destruct (c =? 58) eqn:E58; [res H Hn; rewrite (one_byte _ _ (eq_sym Hn)); assert (c = 58) by lia; subst; cbn; in_fixed|].
  destruct (c =? 59) eqn:E59; [res H Hn; rewrite (one_byte _ _ (eq_sym Hn)); assert (c = 59) by lia; subst; cbn; in_fixed|].
  destruct (c =? 44) eqn:E44; [res H Hn; rewrite (one_byte _ _ (eq_sym Hn)); assert (c = 44) by lia; subst; cbn; in_fixed|].
  (* brackets *)
  destruct ((c =? 40) || (c =? 41) || (c =? 91) || (c =? 93) || (c =? 123) || (c =? 125)) eqn:Ebr.
  { bind_inv H. unfold consume_bracket in E. rewrite peekz_0 in E. cbn [option_bind] in E.
    inv_all E; apply Some_inj in E; subst x; unfold or_delim in H; cbn [fst is_err] in H; res H Hn;
      try (rewrite (one_byte _ _ (eq_sym Hn)); match goal with X : (c =? ?k) = true |- _ => assert (c = k) by lia; subst c end; cbn; in_fixed).
    lia. }
  (* hash *)
  destruct (c =? 35) eqn:E35.
  { bind_inv H. unfold pos_tok in H. destruct (0 <? x); res H Hn; [|apply delim_shape, Hn].
    subst x. assert (c = 35) by lia. subst c. exact (hash_inv b' E). }
  (* strings *)
  destruct ((c =? 34) || (c =? 39)) eqn:Eq.
  { bind_inv H. assert (Hq : is_quote c) by (unfold is_quote; lia). destruct x as [t n].
    destruct (consume_string_ty _ _ _ E) as [-> | ->]; unfold or_delim in H; cbn [fst is_err] in H; res H Hn; subst n.
    - exact (string_inv c b' TString Hq E).
    - exact (string_inv c b' TBadString Hq E). }
  (* '.' and '+' *)
  destruct ((c =? 46) || (c =? 43)) eqn:Edp.
  { bind_inv H. apply (numeric_case (c :: b') x ty E H Hne). }
  (* '-' *)
  destruct (c =? 45) eqn:E45.
  { bind_inv H. destruct (0 <? x) eqn:Ecdc.
    - res H Hn. unfold consume_cdc in E. rewrite peekz_0 in E. cbn [option_bind] in E. rewrite E45 in E. cbn [negb] in E.
      rewrite peekz_1, peekz_sent_0 in E. cbn [option_bind] in E.
      destruct (negb (hd0 b' =? 45)) eqn:E1; [apply Some_inj in E; lia|]. apply negb_false_iff in E1.
      destruct (hd0_is b' 45) as (b1 & ->); [lia|lia|].
      cbn [app] in E. rewrite peekz_2, peekz_1, peekz_sent_0 in E. cbn [option_bind] in E. apply Some_inj in E.
      destruct (hd0 b1 =? 62) eqn:E2; [|lia]. destruct (hd0_is b1 62) as (b2 & ->); [lia|lia|].
      subst x. nil_of b2 Hn. assert (c = 45) by lia. subst c. cbn. in_fixed.
    - bind_inv H. destruct (0 <? x0) eqn:Ecv; [res H Hn; subst x0; apply (custom_inv (c :: b')); [exact E0|cbn [hd0]; lia]|].
      bind_inv H. destruct (negb (is_err (fst x1))) eqn:Eil.
      + apply (identlike_case (c :: b') x1 ty E1); [|  |exact Hne].
        * unfold or_delim. apply negb_true_iff in Eil. rewrite Eil. exact H.
        * intros rest n0 Hb Htok. injection Hb as _ Hb'. subst b'. cbn [app] in Htok.
          unfold consume_custom_variable in E0. cbn [app] in E0. rewrite peekz_1, peekz_0 in E0. cbn [option_bind Z.eqb Pos.eqb negb] in E0.
          rewrite E0 in Htok. apply Some_inj in Htok. lia.
      + bind_inv H. apply (numeric_case (c :: b') x2 ty E2 H Hne). }
  (* '@' *)
  destruct (c =? 64) eqn:E64.
  { bind_inv H. unfold pos_tok in H. destruct (0 <? x); res H Hn; [|apply delim_shape, Hn].
    subst x. assert (c = 64) by lia. subst c. exact (at_inv b' E). }
  (* '$' '*' '^' '~' *)
  destruct ((c =? 36) || (c =? 42) || (c =? 94) || (c =? 126)) eqn:Em.
  { bind_inv H. unfold consume_match in E. rewrite peekz_1, peekz_sent_0, peekz_0 in E. cbn [option_bind] in E.
    destruct (hd0 b' =? 61) eqn:E61.
    - destruct (hd0_is b' 61) as (b2 & ->); [lia|lia|].
      inv_all E; apply Some_inj in E; subst x; unfold or_delim in H; cbn [fst is_err] in H; res H Hn;
        try (nil_of b2 Hn; match goal with X : (c =? ?k) = true |- _ => assert (c = k) by lia; subst c end; cbn; in_fixed).
      rewrite !len_cons in Hn. pose proof (len_nonneg b2). lia.
    - apply Some_inj in E. subst x. unfold or_delim in H. cbn [fst is_err] in H. res H Hn. apply delim_shape, Hn. }
  (* '/' : comment or delimiter *)
  destruct (c =? 47) eqn:E47.
  { bind_inv H. unfold consume_comment in E. rewrite peekz_0, peekz_1, peekz_sent_0 in E. cbn [option_bind] in E.
    rewrite E47 in E. cbn [negb] in E.
    destruct (negb (hd0 b' =? 42)) eqn:E42.
    - apply Some_inj in E. subst x. unfold pos_tok in H. cbn [Z.ltb Z.compare] in H. res H Hn. apply delim_shape, Hn.
    - apply negb_false_iff in E42. destruct (hd0_is b' 42) as (rest & ->); [lia|lia|].
      bind_inv E. apply Some_inj in E. subst x. cbn [app] in E0. rewrite skipz_2 in E0.
      destruct (comment_loop_ok rest) as (m & Hm & Hb). rewrite E0 in Hm. apply Some_inj in Hm. subst m.
      unfold pos_tok in H. replace (0 <? 2 + x0) with true in H by lia. res H Hn.
      rewrite !len_cons in Hn. assert (x0 = len rest) by lia. subst x0.
      destruct (comment_loop_inv rest E0) as (body & Hnc & Hr). assert (c = 47) by lia. subst c.
      cbn [tok_shape]. exists body. split; [exact Hnc|]. destruct Hr as [-> | ->]; [left|right]; reflexivity. }
  (* '<' *)
  destruct (c =? 60) eqn:E60.
  { bind_inv H. unfold consume_cdo in E. rewrite peekz_0 in E. cbn [option_bind] in E. rewrite E60 in E. cbn [negb] in E.
    assert (Hd : x = 0 \/ (x = 4 /\ exists b4, b' = 33 :: 45 :: 45 :: b4)).
    { rewrite peekz_1, peekz_sent_0 in E. cbn [option_bind] in E.
      destruct (negb (hd0 b' =? 33)) eqn:E1; [apply Some_inj in E; auto|]. apply negb_false_iff in E1.
      destruct (hd0_is b' 33) as (b1 & ->); [lia|lia|].
      cbn [app] in E. rewrite peekz_2, peekz_1, peekz_sent_0 in E. cbn [option_bind] in E.
      destruct (negb (hd0 b1 =? 45)) eqn:E2; [apply Some_inj in E; auto|]. apply negb_false_iff in E2.
      destruct (hd0_is b1 45) as (b2 & ->); [lia|lia|].
      cbn [app] in E. rewrite peekz_3, peekz_2, peekz_1, peekz_sent_0 in E. cbn [option_bind] in E. apply Some_inj in E.
      destruct (hd0 b2 =? 45) eqn:E3; [|auto]. destruct (hd0_is b2 45) as (b3 & ->); [lia|lia|].
      right. split; [auto|]. exists b3. reflexivity. }
    destruct Hd as [-> |(-> & b4 & ->)]; unfold pos_tok in H; cbn [Z.ltb Z.compare] in H; res H Hn.
    - apply delim_shape, Hn.
    - nil_of b4 Hn. assert (c = 60) by lia. subst c. cbn. in_fixed. }
  (* '\' *)
  destruct (c =? 92) eqn:E92.
  { bind_inv H. apply (identlike_case (c :: b') x ty E H); [|exact Hne]. intros rest n0 Hb _. injection Hb as Hc _. lia. }
  (* 'u' 'U' *)
  destruct ((c =? 117) || (c =? 85)) eqn:Eu.
  { bind_inv H. destruct (0 <? x) eqn:Eur.
    { res H Hn. destruct (urange_inv _ _ E) as (t & r & Hl & Hlt & Hsh); [lia|].
      change (c :: b' ++ [0]) with ((c :: b') ++ [0]) in Hl. apply app_len_inj in Hl; [|lia].
      cbn [tok_shape]. rewrite (proj1 Hl). exact Hsh. }
    bind_inv H. apply (identlike_case (c :: b') x0 ty E0 H); [|exact Hne]. intros rest n0 Hb _. injection Hb as Hc _. lia. }
  (* '|' *)
  destruct (c =? 124) eqn:E124.
  { bind_inv H. unfold consume_match in E. rewrite peekz_1, peekz_sent_0, peekz_0 in E. cbn [option_bind] in E.
    assert (c = 124) by lia. subst c.
    destruct (hd0 b' =? 61) eqn:E61.
    - cbn [Z.eqb Pos.eqb] in E. apply Some_inj in E. subst x. cbn [fst is_err negb] in H. res H Hn.
      destruct (hd0_is b' 61) as (b2 & ->); [lia|lia|]. nil_of b2 Hn. cbn. in_fixed.
    - apply Some_inj in E. subst x. cbn [fst is_err negb] in H. bind_inv H.
      unfold consume_column in E. rewrite peekz_0, peekz_1, peekz_sent_0 in E. cbn [option_bind Z.eqb Pos.eqb negb] in E.
      apply Some_inj in E. subst x.
      destruct (hd0 b' =? 124) eqn:Ec; unfold pos_tok in H; cbn [Z.ltb Z.compare] in H; res H Hn.
      + destruct (hd0_is b' 124) as (b2 & ->); [lia|lia|]. nil_of b2 Hn. cbn. in_fixed.
      + apply delim_shape, Hn. }
  (* NUL inside the input *)
  destruct (c =? 0) eqn:E0.
  { rewrite eofb_cons_sent in H. res H Hn. apply delim_shape, Hn. }
  (* anything else: a number or a name *)
  bind_inv H. destruct (negb (is_err (fst x))) eqn:En.
  - apply (numeric_case (c :: b') x ty E); [|exact Hne]. unfold or_delim. apply negb_true_iff in En. rewrite En. exact H.
  - bind_inv H. apply (identlike_case (c :: b') x0 ty E1 H); [|exact Hne]. intros rest n0 Hb _. injection Hb as Hc _. lia.
Qed.

(* C07 (converse): every token the lexer returns has the shape of its type *)
Lemma css_tokens_shaped_proof : forall d toks ty b, css_lex d = LexDone toks -> In (ty, b) toks -> tok_shape ty b.
Proof.
  intros d toks ty b Hl Hin. destruct (tok_scan d toks ty b Hl Hin) as (Hsc & _ & Hne). apply scan_shape; assumption.
Qed.
