(* Css/Shape.v — C07, the converse direction: a token the lexer returns has the shape its type prescribes (for the token
   types listed in shaped). *)
From Verif Require Import Common.Base Common.Tactics Common.Lx Css.Model Css.Basics Css.Bounds Css.Proofs Css.Agree Css.Relex Css.Classes.
From Coq Require Import ZifyBool.

(* the scan of a token of the input, seen on its own bytes *)
Lemma tok_scan d toks ty b : css_lex d = LexDone toks -> In (ty, b) toks ->
  css_scan (b ++ [0]) = Some (ty, len b) /\ is_err ty = false /\ b <> [].
Proof.
  intros Hl Hin. unfold css_lex in Hl.
  pose proof (css_lex_from_tokens _ _ _ (css_inv_init d) Hl) as Hall.
  rewrite Forall_forall in Hall. destruct (Hall _ Hin) as (rest & Hsc & Hty & Hne). cbn [fst snd] in *.
  split; [apply (css_scan_cut _ rest); assumption|]. split; assumption.
Qed.

(* the token types whose shape is characterised here; the others (names, numbers, strings, urls, unicode-range) are not *)
Definition shaped (ty : ttype) : bool :=
  match ty with
  | TWhitespace | TComment | TDelim
  | TColon | TSemicolon | TComma | TLeftParenthesis | TRightParenthesis | TLeftBracket | TRightBracket | TLeftBrace | TRightBrace
  | TIncludeMatch | TDashMatch | TPrefixMatch | TSuffixMatch | TSubstringMatch | TColumn | TCDO | TCDC => true
  | _ => false
  end.

(* the shapes: tok_spec's constructor bodies without the follower conditions *)
Definition tok_shape (ty : ttype) (b : list Z) : Prop :=
  match ty with
  | TWhitespace => b <> [] /\ all_b is_ws b
  | TComment => exists body, no_close body = true /\ (b = 47 :: 42 :: body ++ [42; 47] \/ b = 47 :: 42 :: body)
  | TDelim => exists c, b = [c]
  | _ => if shaped ty then In (ty, b) fixed_tokens else True
  end.

(* a comment body: up to the first "*/", or to the end of the input *)
Lemma comment_loop_inv : forall rest, comment_loop (rest ++ [0]) = Some (len rest) ->
  exists body, no_close body = true /\ (rest = body ++ [42; 47] \/ rest = body).
Proof.
  induction rest as [|c t IH]; intros H; cbn [app] in H.
  - exists []. split; [reflexivity|right; reflexivity].
  - rewrite comment_loop_cons, eofb_cons_sent, andb_false_r in H.
    assert (Hrec : bump (comment_loop (t ++ [0])) = Some (len (c :: t)) -> (c = 42 -> hd0 t <> 47) ->
                   exists body, no_close body = true /\ (c :: t = body ++ [42; 47] \/ c :: t = body)).
    { intros Hb Hnx. apply bump_some in Hb. destruct Hb as (m & Hm & E). rewrite len_cons in E. assert (m = len t) by lia. subst m.
      destruct (IH Hm) as (body & Hnc & Hb).
      assert (Hhd : forall x, hd0 t = x -> match body with c1 :: _ => c1 = x | [] => True end).
      { intros x Hx. destruct body as [|c1 body']; [exact I|]. destruct Hb as [-> | ->]; cbn [app hd0] in Hx; exact Hx. }
      exists (c :: body). split.
      - cbn [no_close]. rewrite Hnc, andb_true_r. destruct body as [|c1 body']; [reflexivity|].
        specialize (Hhd _ eq_refl). apply negb_true_iff. destruct (c =? 42) eqn:E42; [|reflexivity]. cbn [andb].
        apply Z.eqb_neq. rewrite Hhd. apply Hnx. lia.
      - destruct Hb as [-> | ->]; [left|right]; reflexivity. }
    destruct (c =? 42) eqn:E42.
    + rewrite peekz_sent_0 in H. cbn [option_bind] in H. destruct (hd0 t =? 47) eqn:E47.
      * some_inv H. rewrite len_cons in H. pose proof (len_nonneg t).
        destruct t as [|c1 [|c2 t2]]; cbn [hd0] in E47; try (rewrite ?len_cons in H; pose proof (len_nonneg t2); lia); try lia.
        exists []. split; [reflexivity|left]. assert (c = 42) by lia. assert (c1 = 47) by lia. subst. reflexivity.
      * apply Hrec; [exact H|]. intros _. lia.
    + apply Hrec; [exact H|]. intros Hc. lia.
Qed.

(* the results of Next that are not one of the shaped types, or are a one-byte delimiter *)
Definition free_or_delim (ty : ttype) (n : Z) : Prop := shaped ty = false \/ (ty = TDelim /\ n = 1).

Lemma or_delim_free r : (is_err (fst r) = true \/ shaped (fst r) = false) -> free_or_delim (fst (or_delim r)) (snd (or_delim r)).
Proof.
  unfold or_delim. destruct (is_err (fst r)) eqn:E; intros [H|H]; cbn [fst snd]; try congruence.
  - right. split; reflexivity.
  - right. split; reflexivity.
  - left. exact H.
Qed.

Lemma pos_tok_free t n : shaped t = false -> free_or_delim (fst (pos_tok t n)) (snd (pos_tok t n)).
Proof. intros H. unfold pos_tok. destruct (0 <? n); cbn [fst snd]; [left; exact H|right; split; reflexivity]. Qed.

Lemma numeric_free l r : consume_numeric l = Some r -> is_err (fst r) = true \/ shaped (fst r) = false.
Proof. destruct r as [t n]. intros H. destruct (consume_numeric_ty _ _ _ H) as [->|[->|[->| ->]]]; cbn; auto. Qed.

Lemma string_free l r : consume_string l = Some r -> is_err (fst r) = true \/ shaped (fst r) = false.
Proof. destruct r as [t n]. intros H. destruct (consume_string_ty _ _ _ H) as [->| ->]; cbn; auto. Qed.

Lemma identlike_free l r : consume_identlike l = Some r -> is_err (fst r) = true \/ shaped (fst r) = false.
Proof. destruct r as [t n]. intros H. destruct (consume_identlike_ty _ _ _ H) as [(-> & _)|[->|[->|[->| ->]]]]; cbn; auto. Qed.

Lemma free_shape ty b : free_or_delim ty (len b) -> b <> [] -> shaped ty = true -> tok_shape ty b.
Proof.
  intros [H|(-> & H)] Hne Hs; [congruence|]. cbn [tok_shape].
  destruct b as [|c [|c1 b]]; [congruence|eauto|]. rewrite !len_cons in H. pose proof (len_nonneg b). lia.
Qed.

Lemma one_byte (c : Z) (b' : list Z) : len (c :: b') = 1 -> b' = [].
Proof. rewrite len_cons. destruct b' as [|x t]; [reflexivity|]. rewrite len_cons. pose proof (len_nonneg t). lia. Qed.

Ltac in_fixed := unfold fixed_tokens; cbn [In]; repeat (first [left; reflexivity | right]).

Lemma len0_nil (b : list Z) : len b = 0 -> b = [].
Proof. destruct b as [|x t]; [reflexivity|]. rewrite len_cons. pose proof (len_nonneg t). lia. Qed.

Lemma hd0_is (b : list Z) k : hd0 b = k -> k <> 0 -> exists t, b = k :: t.
Proof. destruct b as [|y t]; cbn [hd0]; intros H Hk; [congruence|]. exists t. congruence. Qed.

Lemma free_res (r : ttype * Z) ty n : Some r = Some (ty, n) -> free_or_delim (fst r) (snd r) -> free_or_delim ty n.
Proof. intros H. inversion H. subst r. cbn [fst snd]. auto. Qed.

Lemma delim_shape (c : Z) b' : 1 = len (c :: b') -> tok_shape TDelim (c :: b').
Proof. intros H. cbn [tok_shape]. rewrite (one_byte c b' (eq_sym H)). eauto. Qed.

(* result (t, n) is the scan of the whole of b *)
Ltac res H Hn := apply Some_pair_inj in H; destruct H as [<- Hn].
Ltac nil_of b Hn := assert (b = []) by (apply len0_nil; rewrite ?len_cons in Hn; pose proof (len_nonneg b); lia); subst b.
Ltac free_case H := apply free_shape; [apply (free_res _ _ _ H)|assumption|assumption].

(* C07 (converse, for the shaped types): the scan of a token on its own bytes determines its shape *)
Lemma scan_shape b ty : css_scan (b ++ [0]) = Some (ty, len b) -> b <> [] -> shaped ty = true -> tok_shape ty b.
Proof.
  intros H Hne Hs. destruct b as [|c b']; [congruence|]. cbn [app] in H.
  unfold css_scan in H. rewrite peekz_0 in H. cbn [option_bind] in H.
  (* whitespace *)
  destruct (is_ws c) eqn:Ews.
  { bind_inv H. res H Hn. cbn [tl] in E. rewrite len_cons in Hn. assert (x = len b') by lia. subst x.
    destruct (scan_while_spec _ _ _ E) as (_ & Hall & _). rewrite firstz_len_app in Hall.
    cbn [tok_shape]. split; [discriminate|]. constructor; assumption. }
  (* single-byte punctuation *)
  destruct (c =? 58) eqn:E58; [res H Hn; rewrite (one_byte _ _ (eq_sym Hn)); assert (c = 58) by lia; subst; cbn; in_fixed|].
  destruct (c =? 59) eqn:E59; [res H Hn; rewrite (one_byte _ _ (eq_sym Hn)); assert (c = 59) by lia; subst; cbn; in_fixed|].
  destruct (c =? 44) eqn:E44; [res H Hn; rewrite (one_byte _ _ (eq_sym Hn)); assert (c = 44) by lia; subst; cbn; in_fixed|].
  (* brackets *)
  destruct ((c =? 40) || (c =? 41) || (c =? 91) || (c =? 93) || (c =? 123) || (c =? 125)) eqn:Ebr.
  { bind_inv H. unfold consume_bracket in E. rewrite peekz_0 in E. cbn [option_bind] in E.
    inv_all E; apply Some_inj in E; subst x; unfold or_delim in H; cbn [fst is_err] in H; res H Hn;
      try (rewrite (one_byte _ _ (eq_sym Hn)); match goal with X : (c =? ?k) = true |- _ => assert (c = k) by lia; subst c end; cbn; in_fixed).
    lia. }
  (* hash *)
  destruct (c =? 35) eqn:E35.
  { bind_inv H. free_case H. apply pos_tok_free. reflexivity. }
  (* strings *)
  destruct ((c =? 34) || (c =? 39)) eqn:Eq.
  { bind_inv H. free_case H. apply or_delim_free, (string_free _ _ E). }
  (* '.' and '+' *)
  destruct ((c =? 46) || (c =? 43)) eqn:Edp.
  { bind_inv H. free_case H. apply or_delim_free, (numeric_free _ _ E). }
  (* '-' *)
  destruct (c =? 45) eqn:E45.
  { bind_inv H. destruct (0 <? x) eqn:Ecdc.
    - res H Hn. unfold consume_cdc in E. rewrite peekz_0 in E. cbn [option_bind] in E. rewrite E45 in E. cbn [negb] in E.
      rewrite peekz_1, peekz_sent_0 in E. cbn [option_bind] in E.
      destruct (negb (hd0 b' =? 45)) eqn:E1; [apply Some_inj in E; lia|]. apply negb_false_iff in E1.
      destruct (hd0_is b' 45) as (b1 & ->); [lia|lia|].
      cbn [app] in E. rewrite peekz_2, peekz_1, peekz_sent_0 in E. cbn [option_bind] in E. apply Some_inj in E.
      destruct (hd0 b1 =? 62) eqn:E2; [|lia]. destruct (hd0_is b1 62) as (b2 & ->); [lia|lia|].
      subst x. nil_of b2 Hn. assert (c = 45) by lia. subst c. cbn. in_fixed.
    - bind_inv H. destruct (0 <? x0) eqn:Ecv; [res H Hn; discriminate Hs|].
      bind_inv H. destruct (negb (is_err (fst x1))) eqn:Eil.
      + free_case H. destruct (identlike_free _ _ E1) as [Hx|Hx]; [apply negb_true_iff in Eil; congruence|left; exact Hx].
      + bind_inv H. free_case H. apply or_delim_free, (numeric_free _ _ E2). }
  (* '@' *)
  destruct (c =? 64) eqn:E64.
  { bind_inv H. free_case H. apply pos_tok_free. reflexivity. }
  (* '$' '*' '^' '~' *)
  destruct ((c =? 36) || (c =? 42) || (c =? 94) || (c =? 126)) eqn:Em.
  { bind_inv H. unfold consume_match in E. rewrite peekz_1, peekz_sent_0, peekz_0 in E. cbn [option_bind] in E.
    destruct (hd0 b' =? 61) eqn:E61.
    - destruct (hd0_is b' 61) as (b2 & ->); [lia|lia|].
      inv_all E; apply Some_inj in E; subst x; unfold or_delim in H; cbn [fst is_err] in H; res H Hn;
        try (nil_of b2 Hn; match goal with X : (c =? ?k) = true |- _ => assert (c = k) by lia; subst c end; cbn; in_fixed).
      rewrite !len_cons in Hn. pose proof (len_nonneg b2). lia.
    - apply Some_inj in E. subst x. unfold or_delim in H. cbn [fst is_err] in H. res H Hn. apply delim_shape, Hn. }
  (* '/' : comment or delimiter *)
  destruct (c =? 47) eqn:E47.
  { bind_inv H. unfold consume_comment in E. rewrite peekz_0, peekz_1, peekz_sent_0 in E. cbn [option_bind] in E.
    rewrite E47 in E. cbn [negb] in E.
    destruct (negb (hd0 b' =? 42)) eqn:E42.
    - apply Some_inj in E. subst x. unfold pos_tok in H. cbn [Z.ltb Z.compare] in H. res H Hn. apply delim_shape, Hn.
    - apply negb_false_iff in E42. destruct (hd0_is b' 42) as (rest & ->); [lia|lia|].
      bind_inv E. apply Some_inj in E. subst x. cbn [app] in E0. rewrite skipz_2 in E0.
      destruct (comment_loop_ok rest) as (m & Hm & Hb). rewrite E0 in Hm. apply Some_inj in Hm. subst m.
      unfold pos_tok in H. replace (0 <? 2 + x0) with true in H by lia. res H Hn.
      rewrite !len_cons in Hn. assert (x0 = len rest) by lia. subst x0.
      destruct (comment_loop_inv rest E0) as (body & Hnc & Hr). assert (c = 47) by lia. subst c.
      cbn [tok_shape]. exists body. split; [exact Hnc|]. destruct Hr as [-> | ->]; [left|right]; reflexivity. }
  (* '<' *)
  destruct (c =? 60) eqn:E60.
  { bind_inv H. unfold consume_cdo in E. rewrite peekz_0 in E. cbn [option_bind] in E. rewrite E60 in E. cbn [negb] in E.
    assert (Hd : x = 0 \/ (x = 4 /\ exists b4, b' = 33 :: 45 :: 45 :: b4)).
    { rewrite peekz_1, peekz_sent_0 in E. cbn [option_bind] in E.
      destruct (negb (hd0 b' =? 33)) eqn:E1; [apply Some_inj in E; auto|]. apply negb_false_iff in E1.
      destruct (hd0_is b' 33) as (b1 & ->); [lia|lia|].
      cbn [app] in E. rewrite peekz_2, peekz_1, peekz_sent_0 in E. cbn [option_bind] in E.
      destruct (negb (hd0 b1 =? 45)) eqn:E2; [apply Some_inj in E; auto|]. apply negb_false_iff in E2.
      destruct (hd0_is b1 45) as (b2 & ->); [lia|lia|].
      cbn [app] in E. rewrite peekz_3, peekz_2, peekz_1, peekz_sent_0 in E. cbn [option_bind] in E. apply Some_inj in E.
      destruct (hd0 b2 =? 45) eqn:E3; [|auto]. destruct (hd0_is b2 45) as (b3 & ->); [lia|lia|].
      right. split; [auto|]. exists b3. reflexivity. }
    destruct Hd as [-> |(-> & b4 & ->)]; unfold pos_tok in H; cbn [Z.ltb Z.compare] in H; res H Hn.
    - apply delim_shape, Hn.
    - nil_of b4 Hn. assert (c = 60) by lia. subst c. cbn. in_fixed. }
  (* '\' *)
  destruct (c =? 92) eqn:E92.
  { bind_inv H. free_case H. apply or_delim_free, (identlike_free _ _ E). }
  (* 'u' 'U' *)
  destruct ((c =? 117) || (c =? 85)) eqn:Eu.
  { bind_inv H. destruct (0 <? x); [res H Hn; discriminate Hs|].
    bind_inv H. free_case H. apply or_delim_free, (identlike_free _ _ E0). }
  (* '|' *)
  destruct (c =? 124) eqn:E124.
  { bind_inv H. unfold consume_match in E. rewrite peekz_1, peekz_sent_0, peekz_0 in E. cbn [option_bind] in E.
    assert (c = 124) by lia. subst c.
    destruct (hd0 b' =? 61) eqn:E61.
    - cbn [Z.eqb Pos.eqb] in E. apply Some_inj in E. subst x. cbn [fst is_err negb] in H. res H Hn.
      destruct (hd0_is b' 61) as (b2 & ->); [lia|lia|]. nil_of b2 Hn. cbn. in_fixed.
    - apply Some_inj in E. subst x. cbn [fst is_err negb] in H. bind_inv H.
      unfold consume_column in E. rewrite peekz_0, peekz_1, peekz_sent_0 in E. cbn [option_bind Z.eqb Pos.eqb negb] in E.
      apply Some_inj in E. subst x.
      destruct (hd0 b' =? 124) eqn:Ec; unfold pos_tok in H; cbn [Z.ltb Z.compare] in H; res H Hn.
      + destruct (hd0_is b' 124) as (b2 & ->); [lia|lia|]. nil_of b2 Hn. cbn. in_fixed.
      + apply delim_shape, Hn. }
  (* NUL inside the input *)
  destruct (c =? 0) eqn:E0.
  { rewrite eofb_cons_sent in H. res H Hn. apply delim_shape, Hn. }
  (* anything else: a number or a name *)
  bind_inv H. destruct (negb (is_err (fst x))) eqn:En.
  - free_case H. destruct (numeric_free _ _ E) as [Hx|Hx]; [apply negb_true_iff in En; congruence|left; exact Hx].
  - bind_inv H. free_case H. apply or_delim_free, (identlike_free _ _ E1).
Qed.

(* C07 (converse, for the shaped types): every token the lexer returns of one of these types has the shape of its type *)
Lemma css_tokens_shaped_proof : forall d toks ty b, css_lex d = LexDone toks -> In (ty, b) toks -> shaped ty = true -> tok_shape ty b.
Proof.
  intros d toks ty b Hl Hin Hs. destruct (tok_scan d toks ty b Hl Hin) as (Hsc & _ & Hne). apply scan_shape; assumption.
Qed.
