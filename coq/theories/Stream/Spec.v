(* Stream/Spec.v — what the documentation promises about StreamLexer: a cursor over the completely
   read input, plus the contract the caller has to keep.  Definitions only. *)
From Verif Require Import Common.Base Stream.Model.
From Verif Require Cursor.Model.

(* the bytes a schedule delivers: everything up to and including the first event that carries an error *)
Fixpoint delivered (sch : list event) : list Z :=
  match sch with
  | [] => []
  | (bs, e) :: rest => if e =? 0 then bs ++ delivered rest else bs
  end.

(* the error that ends the stream: the first non-nil error of the schedule, io.EOF when exhausted *)
Fixpoint final_err (sch : list event) : Z :=
  match sch with
  | [] => 1
  | (_, e) :: rest => if e =? 0 then final_err rest else e
  end.

(* abstract cursor with the high-water mark of what has been peeked: the contract allows moving only
   over bytes that Peek has returned (DESIGN C13: "never move past a 0 that Peek returned at the end"
   generalised to streams, where unpeeked bytes may not have been read yet) *)
Record scur := mkSC { cdat : list Z; cst : Z; cps : Z; chw : Z; cprev : Z; cfreed : Z }.

Definition sc_init (d : list Z) : scur := mkSC d 0 0 0 0 0.

Definition byte_at (d : list Z) (i : Z) : Z := if i <? len d then getz d i else 0.

(* peeking up to (not including) absolute offset q raises the high-water mark *)
Definition hwup (c : scur) (q : Z) : scur :=
  mkSC (cdat c) (cst c) (cps c) (Z.max (chw c) (Z.min q (len (cdat c)))) (cprev c) (cfreed c).

Definition sspec_step (c : scur) (o : sop) : option (scur * list Z) :=
  let n := len (cdat c) in
  match o with
  | SPeek i =>
      if cst c <=? cps c + i then
        Some (mkSC (cdat c) (cst c) (cps c) (Z.max (chw c) (Z.min (cps c + i + 1) n)) (cprev c) (cfreed c),
              [byte_at (cdat c) (cps c + i)])
      else None
  | SPeekRune i =>
      (* specified on valid UTF-8 only (RFC 3629 decoder of Cursor/Model.v); (0,1) at or past the end *)
      if cst c <=? cps c + i then
        if n <=? cps c + i then Some (hwup c (cps c + i + 1), [0; 1])
        else match Cursor.Model.utf8_decode (skipz (cps c + i) (cdat c)) with
             | Some (r, k) => Some (hwup c (cps c + i + k), [r; k])
             | None => None
             end
      else None
  | SMove k => let p := cps c + k in
               if (cst c <=? p) && (p <=? chw c) then Some (mkSC (cdat c) (cst c) p (chw c) (cprev c) (cfreed c), []) else None
  | SRewind m => let p := cst c + m in
                 if (0 <=? m) && (p <=? chw c) then Some (mkSC (cdat c) (cst c) p (chw c) (cprev c) (cfreed c), []) else None
  | SSkip => Some (mkSC (cdat c) (cps c) (cps c) (chw c) (cprev c) (cfreed c), [])
  | SShift => Some (mkSC (cdat c) (cps c) (cps c) (chw c) (cprev c) (cfreed c),
                    (cps c - cst c) :: slice (cdat c) (cst c) (cps c))
  | SLexeme => Some (c, (cps c - cst c) :: slice (cdat c) (cst c) (cps c))
  | SPos => Some (c, [cps c - cst c])
  | SErr => None             (* specified separately (err_spec) *)
  | SFree k => if (0 <=? k) && (cfreed c + k <=? cst c)
               then Some (mkSC (cdat c) (cst c) (cps c) (chw c) (cprev c) (cfreed c + k), []) else None
  | SShiftLen => Some (mkSC (cdat c) (cst c) (cps c) (chw c) (cst c) (cfreed c), [cst c - cprev c])
  end.

Fixpoint sspec_run (c : scur) (ops : list sop) : option (scur * list (list Z)) :=
  match ops with
  | [] => Some (c, [])
  | o :: rest =>
      r <- sspec_step c o ;;
      r' <- sspec_run (fst r) rest ;;
      Some (fst r', snd r :: snd r')
  end.

(* the implementation run, observations only *)
Fixpoint srun (s : stream) (ops : list sop) : option (stream * list (list Z)) :=
  match ops with
  | [] => Some (s, [])
  | o :: rest =>
      r <- sstep s o ;;
      let '(s1, obs, _) := r in
      r' <- srun s1 rest ;;
      Some (fst r', obs :: snd r')
  end.

(* ---- slices handed to the caller ------------------------------------------------------------ *)
(* run implementation and specification side by side and remember, for every slice handed out,
   the slice, its bytes at that moment, the absolute offset of its end and whether it came from Shift *)
Record handed := mkH { hu : uslice; hbytes : list Z; hend : Z; hshift : bool }.

Fixpoint srun2 (s : stream) (c : scur) (outs : list handed) (ops : list sop) : option (stream * scur * list handed) :=
  match ops with
  | [] => Some (s, c, outs)
  | o :: rest =>
      r <- sstep s o ;;
      let '(s1, _, u) := r in
      rc <- sspec_step c o ;;
      let outs1 := match u with
                   | Some x => outs ++ [mkH x (uslice_bytes (sheap s1) x) (cps c) (match o with SShift => true | _ => false end)]
                   | None => outs
                   end in
      srun2 s1 (fst rc) outs1 rest
  end.

(* a slice is intact as long as fewer bytes have been released than had been shifted up to its end *)
Definition intact (s : stream) (c : scur) (h : handed) : Prop :=
  cfreed c < hend h -> uslice_bytes (sheap s) (hu h) = hbytes h.
