(* Stream/Model.v — executable model of buffer.StreamLexer and its bufferPool
   (/repo/buffer/streamlexer.go), statement by statement.  Definitions only.
   Arrays live in a heap so that aliasing between the current buffer, pooled blocks and
   slices handed to the caller is explicit. *)
From Verif Require Import Common.Base.

(* ---- heap of byte arrays: array id = index, the list length is the capacity ---------- *)
Definition heap := list (list Z).

Definition harr (h : heap) (id : nat) : list Z := nth id h [].
Definition hcap (h : heap) (id : nat) : Z := len (harr h id).

Fixpoint hset (h : heap) (id : nat) (a : list Z) : heap :=
  match h, id with
  | [], _ => []
  | _ :: t, O => a :: t
  | x :: t, S k => x :: hset t k a
  end.

(* write bytes [src] into array [a] starting at offset [off] (copy semantics: as many as fit) *)
Fixpoint write_at (a : list Z) (off : nat) (src : list Z) : list Z :=
  match a, off with
  | [], _ => []
  | x :: t, S k => x :: write_at t k src
  | x :: t, O => match src with [] => x :: t | s :: ss => s :: write_at t O ss end
  end.

Definition zeros (n : Z) : list Z := repeat 0 (Z.to_nat n).

(* a slice with offset 0 into an array: (id, length) *)
Record sl0 := mkSl { sid : nat; slen : Z }.

Record block := mkBlock { bbuf : sl0; bnext : Z; bactive : bool }.

Record pool := mkPool { blocks : list block; phead : Z; ptail : Z; ppos : Z }.

Definition nthb (bs : list block) (i : Z) : block := nth (Z.to_nat i) bs (mkBlock (mkSl O 0) 0 false).

Fixpoint setb (bs : list block) (i : nat) (b : block) : list block :=
  match bs, i with
  | [], _ => []
  | _ :: t, O => b :: t
  | x :: t, S k => x :: setb t k b
  end.

(* first inactive block whose capacity suffices *)
Fixpoint find_free (h : heap) (bs : list block) (size : Z) (i : Z) : option Z :=
  match bs with
  | [] => None
  | b :: t => if negb (bactive b) && (size <=? hcap h (sid (bbuf b))) then Some i else find_free h t size (i + 1)
  end.

(* bufferPool.swap(oldBuf, size): returns the new buffer (length 0) *)
Definition pool_swap (h : heap) (p : pool) (old : sl0) (size : Z) : heap * pool * sl0 :=
  let put (h' : heap) (bs : list block) (sw : Z) :=
    let newb := bbuf (nthb bs sw) in
    let bs1 := setb bs (Z.to_nat sw) (mkBlock old 0 true) in
    let bs2 := if phead p =? 0 then bs1
               else let hb := nthb bs1 (phead p - 1) in
                    setb bs1 (Z.to_nat (phead p - 1)) (mkBlock (bbuf hb) (sw + 1) (bactive hb)) in
    (h', mkPool bs2 (sw + 1) (if ptail p =? 0 then sw + 1 else ptail p) (ppos p), mkSl (sid newb) 0) in
  match find_free h (blocks p) size 0 with
  | Some sw => put h (blocks p) sw
  | None =>
      if (ptail p =? 0) && (slen old <=? ppos p) && (size <=? hcap h (sid old))
      then (h, mkPool (blocks p) (phead p) (ptail p) (ppos p - slen old), mkSl (sid old) 0)   (* reuse in place *)
      else
        let nid := length h in
        let h' := h ++ [zeros size] in
        let bs := blocks p ++ [mkBlock (mkSl nid 0) 0 true] in
        put h' bs (len (blocks p))
  end.

(* bufferPool.free(n); fuel bounds the walk along the next-chain *)
Fixpoint pool_free_loop (fuel : nat) (bs : list block) (tail pos : Z) : list block * Z * Z :=
  match fuel with
  | O => (bs, tail, pos)
  | S k =>
      if negb (tail =? 0) && (slen (bbuf (nthb bs (tail - 1))) <=? pos) then
        let b := nthb bs (tail - 1) in
        pool_free_loop k (setb bs (Z.to_nat (tail - 1)) (mkBlock (bbuf b) (bnext b) false)) (bnext b) (pos - slen (bbuf b))
      else (bs, tail, pos)
  end.

Definition pool_free (p : pool) (n : Z) : pool :=
  let '(bs, tail, pos) := pool_free_loop (S (length (blocks p))) (blocks p) (ptail p) (ppos p + n) in
  mkPool bs (if tail =? 0 then 0 else phead p) tail pos.

(* ---- the reader: a schedule of Read results ------------------------------------------ *)
(* each event: bytes the reader would deliver in one call and the error returned with them
   (0 = nil, 1 = io.EOF, other = failure).  When the caller's slice is shorter, the rest is
   delivered by the following call(s), the error with the last part.  An exhausted schedule
   returns (0, io.EOF). *)
Definition event := (list Z * Z)%type.

Definition reader_read (sch : list event) (room : Z) : list Z * Z * list event :=
  match sch with
  | [] => ([], 1, [])
  | (bs, e) :: rest =>
      if len bs <=? room then (bs, e, rest)
      else (firstz room bs, 0, (skipz room bs, e) :: rest)
  end.

(* ---- StreamLexer ------------------------------------------------------------------------ *)
Record stream := mkStream {
  sheap : heap; ssch : list event; serr : Z;
  spool : pool; sbuf : sl0; sstart : Z; spos : Z; sprev : Z; sfree : Z
}.

Definition new_stream (sch : list event) (size : Z) : stream :=
  mkStream [zeros size] sch 0 (mkPool [] 0 0 0) (mkSl O 0) 0 0 0 0.

(* reader implementing Bytes(): everything in memory, err = io.EOF from the start *)
Definition new_stream_bytes (d : list Z) : stream :=
  mkStream [d] [] 1 (mkPool [] 0 0 0) (mkSl O (len d)) 0 0 0 0.

Definition buf_bytes (s : stream) : list Z := firstz (slen (sbuf s)) (harr (sheap s) (sid (sbuf s))).

(* the refill loop: for pos-start >= d && err == nil { n, err = Read(buf[d:cap]); d += n }
   None = fuel exhausted, i.e. the Go loop would not terminate (a reader that keeps returning
   0 bytes and no error, or an empty slice offered to the reader); the theorems exclude it. *)
Fixpoint fill (fuel : nat) (a : list Z) (d need : Z) (sch : list event) (e : Z) : option (list Z * Z * list event * Z) :=
  if (d <=? need) && (e =? 0) then
    match fuel with
    | O => None
    | S k =>
        let '(bs, e', sch') := reader_read sch (len a - d) in
        fill k (write_at a (Z.to_nat d) bs) (d + len bs) need sch' e'
    end
  else Some (a, d, sch, e).

(* read(pos): pos is the absolute index in the current buffer.  Returns the byte and the new state;
   None where Go would panic (slice bounds). *)
Definition stream_read (s : stream) (p : Z) : option (Z * stream) :=
  if negb (serr s =? 0) then Some (0, s) else
  let pl := pool_free (spool s) (sfree s) in
  let c0 := hcap (sheap s) (sid (sbuf s)) in
  let need := p - sstart s + 1 in
  let c := if c0 <? 2 * need then 2 * c0 + need else c0 in
  let d := slen (sbuf s) - sstart s in
  if negb (slice_ok 0 (sstart s) c0) then None else
  let '(h1, pl1, nb) := pool_swap (sheap s) pl (mkSl (sid (sbuf s)) (sstart s)) c in
  if negb (slice_ok (sstart s) (slen (sbuf s)) c0) || (hcap h1 (sid nb) <? d) then None else
  let src := slice (harr (sheap s) (sid (sbuf s))) (sstart s) (slen (sbuf s)) in
  let a1 := write_at (harr h1 (sid nb)) O src in
  (* every Read delivers >= 0 bytes; the schedule is finite, so length sch + 1 calls suffice *)
  r <- fill (S (length (ssch s) + Z.to_nat (len a1))) a1 d (p - sstart s) (ssch s) 0 ;;
  let '(a2, d2, sch2, e2) := r in
  let h2 := hset h1 (sid nb) a2 in
  let p' := p - sstart s in
  let s' := mkStream h2 sch2 e2 pl1 (mkSl (sid nb) d2) 0 (spos s - sstart s) (sprev s - sstart s) 0 in
  if d2 <=? p' then Some (0, s') else
  match peekz a2 p' with Some b => Some (b, s') | None => None end.

Definition stream_peek (s : stream) (i : Z) : option (Z * stream) :=
  let p := spos s + i in
  if (0 <=? p) && (p <? slen (sbuf s)) then
    match peekz (harr (sheap s) (sid (sbuf s))) p with Some b => Some (b, s) | None => None end
  else stream_read s p.

Definition stream_err (s : stream) : Z :=
  if (serr s =? 1) && (spos s <? slen (sbuf s)) then 0 else serr s.

Definition srune2 (c c1 : Z) : Z := Z.lor (Z.shiftl (Z.land c 31) 6) (Z.land c1 63).
Definition srune3 (c c1 c2 : Z) : Z :=
  Z.lor (Z.lor (Z.shiftl (Z.land c 15) 12) (Z.shiftl (Z.land c1 63) 6)) (Z.land c2 63).
Definition srune4 (c c1 c2 c3 : Z) : Z :=
  Z.lor (Z.lor (Z.lor (Z.shiftl (Z.land c 7) 18) (Z.shiftl (Z.land c1 63) 12))
               (Z.shiftl (Z.land c2 63) 6)) (Z.land c3 63).

Definition stream_peek_rune (s : stream) (i : Z) : option (Z * Z * stream) :=
  r0 <- stream_peek s i ;;
  let '(c, s0) := r0 in
  if c <? 192 then Some (c, 1, s0) else
  r1 <- stream_peek s0 (i + 1) ;;
  let '(c1, s1) := r1 in
  if c <? 224 then Some (srune2 c c1, 2, s1) else
  r2 <- stream_peek s1 (i + 2) ;;
  let '(c2, s2) := r2 in
  if c <? 240 then Some (srune3 c c1 c2, 3, s2) else
  r3 <- stream_peek s2 (i + 3) ;;
  let '(c3, s3) := r3 in
  Some (srune4 c c1 c2 c3, 4, s3).

(* a slice handed to the caller: array, offset, length *)
Record uslice := mkU { uid : nat; uoff : Z; ulen : Z }.

Definition uslice_bytes (h : heap) (u : uslice) : list Z := slice (harr h (uid u)) (uoff u) (uoff u + ulen u).

Definition with_pos (s : stream) (p : Z) : stream :=
  mkStream (sheap s) (ssch s) (serr s) (spool s) (sbuf s) (sstart s) p (sprev s) (sfree s).

(* Lexeme(): buf[start:pos]  (two-index: pos may not exceed cap) *)
Definition stream_lexeme (s : stream) : option uslice :=
  if slice_ok (sstart s) (spos s) (hcap (sheap s) (sid (sbuf s)))
  then Some (mkU (sid (sbuf s)) (sstart s) (spos s - sstart s)) else None.

Definition stream_shift (s : stream) : option (uslice * stream) :=
  s1 <- (if slen (sbuf s) <? spos s then r <- stream_read s (spos s - 1) ;; Some (snd r) else Some s) ;;
  u <- stream_lexeme s1 ;;
  Some (u, mkStream (sheap s1) (ssch s1) (serr s1) (spool s1) (sbuf s1) (spos s1) (spos s1) (sprev s1) (sfree s1)).

Inductive sop :=
| SPeek (i : Z) | SPeekRune (i : Z) | SMove (n : Z) | SRewind (m : Z) | SSkip | SShift | SLexeme
| SPos | SErr | SFree (n : Z) | SShiftLen.

(* observation of one operation: a list of integers; returned slices are reported by their bytes
   and remembered in [outstanding] so that their later contents can be observed *)
Definition sstep (s : stream) (o : sop) : option (stream * list Z * option uslice) :=
  match o with
  | SPeek i => r <- stream_peek s i ;; Some (snd r, [fst r], None)
  | SPeekRune i => r <- stream_peek_rune s i ;; let '(rn, n, s') := r in Some (s', [rn; n], None)
  | SMove n => Some (with_pos s (spos s + n), [], None)
  | SRewind m => Some (with_pos s (sstart s + m), [], None)
  | SSkip => Some (mkStream (sheap s) (ssch s) (serr s) (spool s) (sbuf s) (spos s) (spos s) (sprev s) (sfree s), [], None)
  | SShift => r <- stream_shift s ;; let '(u, s') := r in Some (s', ulen u :: uslice_bytes (sheap s') u, Some u)
  | SLexeme => u <- stream_lexeme s ;; Some (s, ulen u :: uslice_bytes (sheap s) u, Some u)
  | SPos => Some (s, [spos s - sstart s], None)
  | SErr => Some (s, [stream_err s], None)
  | SFree n => Some (mkStream (sheap s) (ssch s) (serr s) (spool s) (sbuf s) (sstart s) (spos s) (sprev s) (sfree s + n), [], None)
  | SShiftLen => Some (mkStream (sheap s) (ssch s) (serr s) (spool s) (sbuf s) (sstart s) (spos s) (sstart s) (sfree s),
                       [sstart s - sprev s], None)
  end.
