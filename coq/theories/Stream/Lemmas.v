(* Stream/Lemmas.v — list/heap lemmas used by the StreamLexer proofs. *)
From Verif Require Import Common.Base Common.Tactics Stream.Model Stream.Spec.
From Coq Require Import ZifyBool.

(* ---- firstz / skipz / slice ------------------------------------------------------------ *)
Lemma firstz_skipz {A} n (l : list A) : firstz n l ++ skipz n l = l.
Proof. unfold firstz, skipz. apply firstn_skipn. Qed.

Lemma firstz_firstz {A} a b (l : list A) : 0 <= a <= b -> firstz a (firstz b l) = firstz a l.
Proof. intros H. unfold firstz. rewrite firstn_firstn. f_equal. lia. Qed.

Lemma firstz_app_len {A} (a b : list A) : firstz (len a) (a ++ b) = a.
Proof.
  unfold firstz, len. rewrite Nat2Z.id. rewrite firstn_app, Nat.sub_diag, firstn_all. cbn. apply app_nil_r.
Qed.

Lemma skipz_app_len {A} (a b : list A) : skipz (len a) (a ++ b) = b.
Proof.
  unfold skipz, len. rewrite Nat2Z.id. rewrite skipn_app, Nat.sub_diag, skipn_all. reflexivity.
Qed.

Lemma slice_0 {A} (l : list A) n : slice l 0 n = firstz n l.
Proof. unfold slice, skipz. cbn. f_equal. lia. Qed.

Lemma slice_nil {A} (l : list A) a : slice l a a = [].
Proof. unfold slice, firstz. replace (a - a) with 0 by lia. reflexivity. Qed.

Lemma skipz_skipz {A} a b (l : list A) : 0 <= a -> 0 <= b -> skipz a (skipz b l) = skipz (b + a) l.
Proof.
  intros Ha Hb. unfold skipz. replace (Z.to_nat (b + a)) with (Z.to_nat a + Z.to_nat b)%nat by lia.
  generalize (Z.to_nat a) as x. generalize (Z.to_nat b) as y. clear. intros y x. revert l.
  induction y as [|y IH]; intros l.
  - rewrite Nat.add_0_r. reflexivity.
  - destruct l as [|h t].
    + rewrite !skipn_nil. reflexivity.
    + replace (x + S y)%nat with (S (x + y)) by lia. cbn [skipn]. apply IH.
Qed.

Lemma slice_slice {A} (l : list A) a b x y :
  0 <= a -> 0 <= x <= y -> a + y <= b -> slice (slice l a b) x y = slice l (a + x) (a + y).
Proof.
  intros Ha Hx Hy. unfold slice. unfold firstz at 2.
  unfold skipz at 1. rewrite skipn_firstn_comm. fold (skipz x (skipz a l)).
  rewrite skipz_skipz by lia. unfold firstz. rewrite firstn_firstn. f_equal. lia.
Qed.

Lemma firstz_slice {A} (l : list A) a b k : 0 <= a -> 0 <= k -> a + k <= b -> firstz k (slice l a b) = slice l a (a + k).
Proof.
  intros Ha Hk Hb. rewrite <- slice_0. rewrite slice_slice by lia. f_equal. lia.
Qed.

Lemma firstn_plus {A} a b (l : list A) : firstn (a + b) l = firstn a l ++ firstn b (skipn a l).
Proof.
  revert l. induction a as [|a IH]; intros l; [reflexivity|].
  destruct l as [|x t]; [cbn; rewrite firstn_nil; reflexivity|]. cbn. f_equal. apply IH.
Qed.

Lemma slice_app_mid {A} (l : list A) a b c : 0 <= a <= b -> b <= c -> slice l a b ++ slice l b c = slice l a c.
Proof.
  intros H1 H2. unfold slice.
  replace (skipz b l) with (skipz (b - a) (skipz a l)) by (rewrite skipz_skipz by lia; f_equal; lia).
  set (m := skipz a l). unfold firstz, skipz.
  replace (Z.to_nat (c - a)) with (Z.to_nat (b - a) + Z.to_nat (c - b))%nat by lia.
  rewrite firstn_plus. reflexivity.
Qed.

Lemma slice_full_skip {A} (l : list A) a : 0 <= a -> slice l a (len l) = skipz a l.
Proof.
  intros Ha. unfold slice, firstz. apply firstn_all2. unfold skipz, len. rewrite skipn_length. lia.
Qed.

Lemma len_slice_le {A} (l : list A) a b : 0 <= a <= b -> b <= len l -> len (slice l a b) = b - a.
Proof. intros; apply len_slice; lia. Qed.

Lemma nth_error_firstn' {A} (l : list A) n i : (i < n)%nat -> nth_error (firstn n l) i = nth_error l i.
Proof.
  revert l i. induction n as [|n IH]; intros l i H; [lia|].
  destruct l as [|x t]; [reflexivity|]. destruct i; [reflexivity|]. cbn. apply IH. lia.
Qed.

Lemma nth_error_skipn' {A} (l : list A) n i : nth_error (skipn n l) i = nth_error l (n + i).
Proof.
  revert l. induction n as [|n IH]; intros l; [reflexivity|].
  destruct l as [|x t]; [destruct i; reflexivity|]. cbn. apply IH.
Qed.

Lemma peekz_firstz l k i : 0 <= i < k -> k <= len l -> peekz (firstz k l) i = peekz l i.
Proof.
  intros H1 H2. unfold peekz. rewrite len_firstz by lia. zb. cbn.
  unfold firstz. rewrite nth_error_firstn' by lia. reflexivity.
Qed.

Lemma getz_slice l a b i : 0 <= a -> 0 <= i -> a + i < b -> b <= len l -> peekz (slice l a b) i = Some (getz l (a + i)).
Proof.
  intros Ha Hi Hb Hl. unfold getz.
  destruct (peekz_in_range l (a + i)) as [c Hc]; [lia|]. rewrite Hc.
  unfold peekz in *. rewrite len_slice by lia.
  replace (0 <=? a + i) with true in Hc by (symmetry; apply Z.leb_le; lia).
  replace (a + i <? len l) with true in Hc by (symmetry; apply Z.ltb_lt; lia). cbn in Hc.
  zb. cbn. unfold slice, firstz, skipz.
  rewrite nth_error_firstn' by lia. rewrite nth_error_skipn'.
  replace (Z.to_nat a + Z.to_nat i)%nat with (Z.to_nat (a + i)) by lia. exact Hc.
Qed.

(* ---- write_at ------------------------------------------------------------------------------ *)
Lemma write_at_length a off src : length (write_at a off src) = length a.
Proof.
  revert off src. induction a as [|x t IH]; intros off src; [destruct off; reflexivity|].
  destruct off as [|k]; cbn [write_at].
  - destruct src as [|s ss]; [reflexivity|]. cbn [length]. rewrite IH. reflexivity.
  - cbn [length]. rewrite IH. reflexivity.
Qed.

Lemma len_write_at a off src : len (write_at a off src) = len a.
Proof. unfold len. rewrite write_at_length. reflexivity. Qed.

Lemma write_at_firstn a off src :
  (off + length src <= length a)%nat ->
  firstn (off + length src) (write_at a off src) = firstn off a ++ src.
Proof.
  revert off src. induction a as [|x t IH]; intros off src H.
  - cbn in H. assert (off = 0%nat) by lia. assert (src = []) by (destruct src; [reflexivity|cbn in H; lia]). subst. reflexivity.
  - destruct off as [|k].
    + destruct src as [|s ss]; [reflexivity|].
      cbn [write_at length Nat.add firstn app]. f_equal.
      specialize (IH O ss). cbn [Nat.add firstn app] in IH. apply IH. cbn in H. lia.
    + cbn [write_at Nat.add firstn app]. f_equal. apply IH. cbn in H. lia.
Qed.

Lemma write_at_firstz a d src :
  0 <= d -> d + len src <= len a ->
  firstz (d + len src) (write_at a (Z.to_nat d) src) = firstz d a ++ src.
Proof.
  intros Hd H. unfold firstz, len in *.
  replace (Z.to_nat (d + Z.of_nat (length src))) with (Z.to_nat d + length src)%nat by lia.
  apply write_at_firstn. lia.
Qed.

(* ---- heap ------------------------------------------------------------------------------------ *)
Lemma hset_length h id a : length (hset h id a) = length h.
Proof. revert id. induction h as [|x t IH]; intros id; [reflexivity|]. destruct id; cbn; [reflexivity|]. rewrite IH. reflexivity. Qed.

Lemma harr_hset_same h id a : (id < length h)%nat -> harr (hset h id a) id = a.
Proof.
  unfold harr. revert id. induction h as [|x t IH]; intros id H; [cbn in H; lia|].
  destruct id; cbn; [reflexivity|]. apply IH. cbn in H. lia.
Qed.

Lemma harr_hset_other h id id' a : id <> id' -> harr (hset h id a) id' = harr h id'.
Proof.
  unfold harr. revert id id'. induction h as [|x t IH]; intros id id' H; [reflexivity|].
  destruct id, id'; cbn; try reflexivity; [congruence|]. apply IH. congruence.
Qed.

Lemma harr_app_l h x id : (id < length h)%nat -> harr (h ++ x) id = harr h id.
Proof. intros H. unfold harr. apply app_nth1. exact H. Qed.

Lemma harr_app_new h a : harr (h ++ [a]) (length h) = a.
Proof. unfold harr. rewrite app_nth2 by lia. rewrite Nat.sub_diag. reflexivity. Qed.

Lemma len_zeros n : 0 <= n -> len (zeros n) = n.
Proof. intros H. unfold len, zeros. rewrite repeat_length. lia. Qed.

(* ---- reader --------------------------------------------------------------------------------- *)
Lemma reader_read_spec sch room bs e sch' :
  0 <= room -> reader_read sch room = (bs, e, sch') ->
  len bs <= room /\
  delivered sch = bs ++ (if e =? 0 then delivered sch' else []) /\
  ((length sch' < length sch)%nat \/ (sch = [] /\ e = 1 /\ sch' = []) \/ (length sch' = length sch /\ len bs = room /\ e = 0)).
Proof.
  intros Hr H. destruct sch as [|[b0 e0] rest]; cbn [reader_read] in H.
  - inversion H; subst. cbn. split; [change (len (@nil Z)) with 0; lia|]. split; [reflexivity|]. right. left. auto.
  - destruct (len b0 <=? room) eqn:L.
    + inversion H; subst. b2p. split; [exact L|]. split.
      * cbn [delivered]. destruct (e =? 0); [reflexivity|rewrite app_nil_r; reflexivity].
      * left. cbn. lia.
    + inversion H; subst. b2p. split; [rewrite len_firstz by lia; lia|]. split.
      * cbn [delivered Z.eqb]. destruct (e0 =? 0).
        -- rewrite app_assoc. rewrite firstz_skipz. reflexivity.
        -- rewrite firstz_skipz. reflexivity.
      * right. right. cbn. split; [reflexivity|]. split; [apply len_firstz; lia|reflexivity].
Qed.
