(* Stream/Harness.v — correspondence driver for the StreamLexer model (C13). *)
From Verif Require Import Common.Base Common.Codec Stream.Model.

Definition decode_sop (code arg : Z) : sop :=
  if code =? 0 then SPeek arg else if code =? 1 then SPeekRune arg else if code =? 2 then SMove arg
  else if code =? 3 then SRewind arg else if code =? 4 then SSkip else if code =? 5 then SShift
  else if code =? 6 then SLexeme else if code =? 7 then SPos else if code =? 8 then SErr
  else if code =? 9 then SFree arg else SShiftLen.

Fixpoint decode_sops (l : list Z) : list sop :=
  match l with
  | code :: arg :: t => decode_sop code arg :: decode_sops t
  | _ => []
  end.

(* events: n then n times (err, |bytes|, bytes) *)
Fixpoint decode_events (n : nat) (l : list Z) : list event * list Z :=
  match n with
  | O => ([], l)
  | S k =>
      match l with
      | e :: rest =>
          let '(bs, r1) := take_list rest in
          let '(evs, r2) := decode_events k r1 in
          ((bs, e) :: evs, r2)
      | [] => ([], [])
      end
  end.

Definition list_eqb (a b : list Z) : bool :=
  (len a =? len b) && forallb (fun p => fst p =? snd p) (combine a b).

(* number of outstanding slices whose bytes differ from what they were when handed out *)
Definition changed (h : heap) (outs : list (uslice * list Z)) : Z :=
  len (filter (fun p => negb (list_eqb (uslice_bytes h (fst p)) (snd p))) outs).

(* per op: observation length, observation, number of changed outstanding slices; -1 at a panic;
   at the end -2, then the capacities of the pool blocks and of the current buffer *)
Fixpoint run_stream_enc (s : stream) (outs : list (uslice * list Z)) (ops : list sop) : list Z :=
  match ops with
  | [] => -2 :: hcap (sheap s) (sid (sbuf s)) :: map (fun b => hcap (sheap s) (sid (bbuf b))) (blocks (spool s))
  | o :: rest =>
      match sstep s o with
      | None => [-1]
      | Some (s', obs, u) =>
          let outs' := match u with Some x => outs ++ [(x, uslice_bytes (sheap s') x)] | None => outs end in
          len obs :: obs ++ changed (sheap s') outs' :: run_stream_enc s' outs' rest
      end
  end.

(* case: ctor size nev events ops...   ctor 0 = reader with schedule, 1 = reader implementing Bytes() *)
Definition run_stream (l : list Z) : list Z :=
  let ctor := hdz l in
  let size := hdz (tlz l) in
  let nev := hdz (tlz (tlz l)) in
  let '(evs, r) := decode_events (Z.to_nat nev) (tlz (tlz (tlz l))) in
  let s := if ctor =? 0 then new_stream evs size else new_stream_bytes (concat (map fst evs)) in
  run_stream_enc s [] (decode_sops r).
