(* Stream/Proofs.v — StreamLexer refines a cursor over the completely read input (C13). *)
From Verif Require Import Common.Base Common.Tactics Stream.Model Stream.Spec Stream.Lemmas.
From Verif Require Cursor.Model Cursor.Proofs.
From Coq Require Import ZifyBool.

(* ---- the pool only matters through: ids stay inside the heap, swap returns enough room ---- *)
Definition ids_ok (h : heap) (bs : list block) : Prop := Forall (fun b => (sid (bbuf b) < length h)%nat) bs.

Lemma ids_ok_setb h bs i b : ids_ok h bs -> (sid (bbuf b) < length h)%nat -> ids_ok h (setb bs i b).
Proof.
  unfold ids_ok. revert i. induction bs as [|x t IH]; intros i Hf Hb; [constructor|].
  inversion Hf; subst. destruct i; cbn; constructor; auto.
Qed.

Lemma ids_ok_nthb h bs i : ids_ok h bs -> (0 < length h)%nat -> (sid (bbuf (nthb bs i)) < length h)%nat.
Proof.
  unfold ids_ok, nthb. intros Hf Hh. rewrite Forall_forall in Hf.
  destruct (Nat.lt_ge_cases (Z.to_nat i) (length bs)) as [L|G].
  - apply Hf. apply nth_In. exact L.
  - rewrite nth_overflow by exact G. cbn. exact Hh.
Qed.

Lemma ids_ok_mono h h' bs : ids_ok h bs -> (length h <= length h')%nat -> ids_ok h' bs.
Proof. unfold ids_ok. intros Hf Hl. eapply Forall_impl; [|exact Hf]. cbn. intros b Hb. lia. Qed.

Lemma free_loop_ids h fuel : forall bs tail pos bs' tail' pos',
  (0 < length h)%nat ->
  ids_ok h bs -> pool_free_loop fuel bs tail pos = (bs', tail', pos') -> ids_ok h bs'.
Proof.
  induction fuel as [|k IH]; intros bs tail pos bs' tail' pos' Hh Hok H; cbn [pool_free_loop] in H.
  - inversion H; subst. exact Hok.
  - destruct (negb (tail =? 0) && (slen (bbuf (nthb bs (tail - 1))) <=? pos)) eqn:C.
    + eapply IH; [exact Hh| |exact H]. apply ids_ok_setb; [exact Hok|]. cbn [bbuf].
      apply ids_ok_nthb; assumption.
    + inversion H; subst. exact Hok.
Qed.

Lemma pool_free_ids h p n : (0 < length h)%nat -> ids_ok h (blocks p) -> ids_ok h (blocks (pool_free p n)).
Proof.
  intros Hh Hok. unfold pool_free.
  destruct (pool_free_loop (S (length (blocks p))) (blocks p) (ptail p) (ppos p + n)) as [[bs tail] pos] eqn:E.
  cbn [blocks]. eapply free_loop_ids; eauto.
Qed.

(* find_free returns an index inside the pool whose buffer has room *)
Lemma find_free_spec h bs size i0 sw :
  find_free h bs size i0 = Some sw ->
  i0 <= sw < i0 + len bs /\ size <= hcap h (sid (bbuf (nthb bs (sw - i0)))).
Proof.
  revert i0. induction bs as [|b t IH]; intros i0 H; cbn [find_free] in H; [discriminate|].
  rewrite len_cons. pose proof (len_nonneg t).
  destruct (negb (bactive b) && (size <=? hcap h (sid (bbuf b)))) eqn:C.
  - inversion H; subst. b2p. split; [lia|]. replace (sw - sw) with 0 by lia. exact H2.
  - destruct (IH (i0 + 1) H) as [R1 R2]. split; [lia|].
    unfold nthb in *. replace (Z.to_nat (sw - i0)) with (S (Z.to_nat (sw - (i0 + 1)))) by lia. exact R2.
Qed.

Lemma ids_ok_app h bs b : ids_ok h bs -> (sid (bbuf b) < length h)%nat -> ids_ok h (bs ++ [b]).
Proof. unfold ids_ok. intros H Hb. apply Forall_app. split; [exact H|constructor; [exact Hb|constructor]]. Qed.

Lemma nthb_app_last bs b : nthb (bs ++ [b]) (len bs) = b.
Proof. unfold nthb, len. rewrite Nat2Z.id. rewrite app_nth2 by lia. rewrite Nat.sub_diag. reflexivity. Qed.

(* all that the refinement proof needs to know about swap *)
Lemma pool_swap_spec h p old size h1 p1 nb :
  (0 < length h)%nat -> ids_ok h (blocks p) -> (sid old < length h)%nat -> 0 <= size ->
  pool_swap h p old size = (h1, p1, nb) ->
  (sid nb < length h1)%nat /\ size <= hcap h1 (sid nb) /\ slen nb = 0 /\
  (length h <= length h1)%nat /\ (forall id, (id < length h)%nat -> harr h1 id = harr h id) /\
  ids_ok h1 (blocks p1).
Proof.
  intros Hh Hok Hold Hsz H. unfold pool_swap in H.
  (* the common tail [put] *)
  assert (PUT : forall h' bs sw,
    (length h <= length h')%nat -> (forall id, (id < length h)%nat -> harr h' id = harr h id) ->
    ids_ok h' bs -> size <= hcap h' (sid (bbuf (nthb bs sw))) ->
    forall r, r = (h', mkPool
       (if phead p =? 0 then setb bs (Z.to_nat sw) (mkBlock old 0 true)
        else setb (setb bs (Z.to_nat sw) (mkBlock old 0 true)) (Z.to_nat (phead p - 1))
               (mkBlock (bbuf (nthb (setb bs (Z.to_nat sw) (mkBlock old 0 true)) (phead p - 1))) (sw + 1)
                        (bactive (nthb (setb bs (Z.to_nat sw) (mkBlock old 0 true)) (phead p - 1)))))
       (sw + 1) (if ptail p =? 0 then sw + 1 else ptail p) (ppos p), mkSl (sid (bbuf (nthb bs sw))) 0) ->
    r = (h1, p1, nb) ->
    (sid nb < length h1)%nat /\ size <= hcap h1 (sid nb) /\ slen nb = 0 /\
    (length h <= length h1)%nat /\ (forall id, (id < length h)%nat -> harr h1 id = harr h id) /\
    ids_ok h1 (blocks p1)).
  { intros h' bs sw Hl Hsame Hok' Hcap r Hr E. rewrite Hr in E. injection E as E1 E2 E3. subst h1 p1 nb. cbn [sid slen blocks].
    assert (Hh' : (0 < length h')%nat) by lia.
    split; [apply ids_ok_nthb; assumption|]. split; [exact Hcap|]. split; [reflexivity|]. split; [exact Hl|].
    split; [exact Hsame|].
    assert (O1 : ids_ok h' (setb bs (Z.to_nat sw) (mkBlock old 0 true))) by (apply ids_ok_setb; [exact Hok'|cbn; lia]).
    destruct (phead p =? 0); [exact O1|].
    apply ids_ok_setb; [exact O1|]. cbn [bbuf]. apply ids_ok_nthb; assumption. }
  destruct (find_free h (blocks p) size 0) as [sw|] eqn:F.
  - destruct (find_free_spec _ _ _ _ _ F) as [R1 R2]. replace (sw - 0) with sw in R2 by lia.
    eapply (PUT h (blocks p) sw); eauto.
  - destruct ((ptail p =? 0) && (slen old <=? ppos p) && (size <=? hcap h (sid old))) eqn:C.
    + inversion H; subst. b2p. cbn [sid slen blocks]. repeat split; auto.
    + eapply (PUT (h ++ [zeros size]) (blocks p ++ [mkBlock (mkSl (length h) 0) 0 true]) (len (blocks p))); eauto.
      * rewrite app_length. cbn. lia.
      * intros id Hid. apply harr_app_l. exact Hid.
      * apply ids_ok_app; [eapply ids_ok_mono; [exact Hok|rewrite app_length; cbn; lia]|]. cbn. rewrite app_length. cbn. lia.
      * rewrite nthb_app_last. cbn [bbuf sid]. unfold hcap. rewrite harr_app_new. rewrite len_zeros by exact Hsz. lia.
Qed.

(* ---- the refill loop ---------------------------------------------------------------------- *)
(* F: the array holds data[base..base+d) in its first d cells and the schedule delivers the rest *)
Definition fill_inv (data : list Z) (base capN : Z) (a : list Z) (d : Z) (sch : list event) (e : Z) : Prop :=
  len a = capN /\ 0 <= d <= capN /\ base + d <= len data /\
  firstz d a = slice data base (base + d) /\
  (e = 0 -> skipz (base + d) data = delivered sch) /\
  (e <> 0 -> base + d = len data).

Lemma fill_spec data base capN need : 0 <= base -> need + 1 <= capN ->
  forall fuel a d sch e,
  fill_inv data base capN a d sch e ->
  (length sch + Z.to_nat (capN - d) < fuel)%nat \/ ~ (d <= need /\ e = 0) ->
  exists a2 d2 sch2 e2,
    fill fuel a d need sch e = Some (a2, d2, sch2, e2) /\
    fill_inv data base capN a2 d2 sch2 e2 /\ d <= d2 /\ ~ (d2 <= need /\ e2 = 0).
Proof.
  intros Hb Hcap. induction fuel as [|k IH]; intros a d sch e HF Hm.
  - cbn [fill]. destruct ((d <=? need) && (e =? 0)) eqn:C.
    + b2p. destruct Hm as [Hm|Hm]; [lia|tauto].
    + exists a, d, sch, e. split; [reflexivity|]. split; [exact HF|]. split; [lia|].
      intros [X Y]. apply andb_false_iff in C. destruct C as [C|C]; b2p; lia.
  - cbn [fill]. destruct ((d <=? need) && (e =? 0)) eqn:C.
    2:{ exists a, d, sch, e. split; [reflexivity|]. split; [exact HF|]. split; [lia|].
        intros [X Y]. apply andb_false_iff in C. destruct C as [C|C]; b2p; lia. }
    b2p. destruct HF as (La & Hd & Hin & Hfirst & Hrest & Hend).
    destruct (reader_read sch (len a - d)) as [[bs e'] sch'] eqn:RR.
    destruct (reader_read_spec sch (len a - d) bs e' sch' ltac:(lia) RR) as (Lbs & Hdel & Hprog).
    assert (HF' : fill_inv data base capN (write_at a (Z.to_nat d) bs) (d + len bs) sch' e').
    { pose proof (len_nonneg bs) as Nbs.
      specialize (Hrest H0). rewrite Hdel in Hrest.
      assert (Hlen_rest : len (skipz (base + d) data) = len data - (base + d)) by (apply len_skipz; lia).
      assert (Hbs_in : base + d + len bs <= len data).
      { rewrite Hrest in Hlen_rest. rewrite len_app in Hlen_rest.
        pose proof (len_nonneg (if e' =? 0 then delivered sch' else [])). lia. }
      split; [rewrite len_write_at; exact La|]. split; [lia|]. split; [lia|]. split.
      - rewrite write_at_firstz by lia. rewrite Hfirst.
        assert (Hbs : bs = slice data (base + d) (base + d + len bs)).
        { unfold slice. replace (base + d + len bs - (base + d)) with (len bs) by lia.
          rewrite Hrest. symmetry. apply firstz_app_len. }
        rewrite Hbs at 1. replace (base + (d + len bs)) with (base + d + len bs) by lia.
        apply slice_app_mid; lia.
      - split.
        + intros E0. subst e'. cbn [Z.eqb] in Hrest.
          replace (base + (d + len bs)) with (base + d + len bs) by lia.
          rewrite <- skipz_skipz by lia. rewrite Hrest. apply skipz_app_len.
        + intros En. replace (e' =? 0) with false in Hrest by (symmetry; apply Z.eqb_neq; exact En).
          rewrite app_nil_r in Hrest. rewrite Hrest in Hlen_rest. lia. }
    assert (Hm' : (length sch' + Z.to_nat (capN - (d + len bs)) < k)%nat \/ ~ (d + len bs <= need /\ e' = 0)).
    { destruct Hprog as [P|[(P1 & P2 & P3)|(P1 & P2 & P3)]].
      - destruct Hm as [Hm|Hm]; [|exfalso; apply Hm; lia]. left. pose proof (len_nonneg bs). lia.
      - right. intros [_ X]. lia.
      - right. intros [X _]. lia. }
    destruct (IH _ _ _ _ HF' Hm') as (a2 & d2 & sch2 & e2 & E & F2 & Dle & Stop).
    exists a2, d2, sch2, e2. split; [exact E|]. split; [exact F2|]. split; [pose proof (len_nonneg bs); lia|exact Stop].
Qed.

(* ---- the state invariant ------------------------------------------------------------------- *)
(* base = absolute offset of buf[0] in the stream; the buffer holds data[base .. base+len) *)
Record inv (data : list Z) (base : Z) (s : stream) : Prop := mkInv {
  i_heap : (0 < length (sheap s))%nat;
  i_id : (sid (sbuf s) < length (sheap s))%nat;
  i_len : 0 <= slen (sbuf s) <= hcap (sheap s) (sid (sbuf s));
  i_base : 0 <= base;
  i_in : base + slen (sbuf s) <= len data;
  i_buf : buf_bytes s = slice data base (base + slen (sbuf s));
  i_rest : serr s = 0 -> skipz (base + slen (sbuf s)) data = delivered (ssch s);
  i_end : serr s <> 0 -> base + slen (sbuf s) = len data;
  i_pool : ids_ok (sheap s) (blocks (spool s))
}.

Lemma byte_at_in data i : 0 <= i < len data -> byte_at data i = getz data i.
Proof. intros H. unfold byte_at. zb. reflexivity. Qed.

Lemma byte_at_out data i : len data <= i -> byte_at data i = 0.
Proof. intros H. unfold byte_at. zb. reflexivity. Qed.

(* a byte inside the current buffer *)
Lemma inv_peek_in data base s p :
  inv data base s -> 0 <= p < slen (sbuf s) ->
  peekz (harr (sheap s) (sid (sbuf s))) p = Some (byte_at data (base + p)).
Proof.
  intros I Hp. destruct I.
  rewrite <- (peekz_firstz _ (slen (sbuf s))) by (unfold hcap in *; lia).
  fold (buf_bytes s). rewrite i_buf0. rewrite getz_slice by lia. rewrite byte_at_in by lia. reflexivity.
Qed.

(* read(p): the refill delivers the byte the whole-input cursor sees and re-establishes the invariant *)
Lemma read_ok data base s p :
  inv data base s -> serr s = 0 -> 0 <= sstart s <= slen (sbuf s) -> slen (sbuf s) <= p ->
  exists s',
    stream_read s p = Some (byte_at data (base + p), s') /\
    inv data (base + sstart s) s' /\
    sstart s' = 0 /\ spos s' = spos s - sstart s /\ sprev s' = sprev s - sstart s /\
    Z.min (base + p + 1) (len data) <= base + sstart s + slen (sbuf s') /\
    slen (sbuf s) <= sstart s + slen (sbuf s').
Proof.
  intros I He Hst Hp. destruct I.
  unfold stream_read. rewrite He. cbn [Z.eqb negb].
  set (pl := pool_free (spool s) (sfree s)).
  set (c0 := hcap (sheap s) (sid (sbuf s))).
  set (need := p - sstart s + 1).
  set (c := if c0 <? 2 * need then 2 * c0 + need else c0).
  assert (Hc : need <= c /\ c0 <= c /\ 0 <= c).
  { unfold c. destruct (c0 <? 2 * need) eqn:E; b2p; unfold need in *; lia. }
  assert (S1 : slice_ok 0 (sstart s) c0 = true) by (unfold slice_ok, c0; apply andb_true_iff; split; [apply andb_true_iff; split|]; apply Z.leb_le; lia).
  rewrite S1. cbn [negb].
  destruct (pool_swap (sheap s) pl (mkSl (sid (sbuf s)) (sstart s)) c) as [[h1 pl1] nb] eqn:SW.
  destruct (pool_swap_spec (sheap s) pl (mkSl (sid (sbuf s)) (sstart s)) c h1 pl1 nb i_heap0
              (pool_free_ids _ _ _ i_heap0 i_pool0) i_id0 ltac:(lia) SW)
    as (Nid & Ncap & Nlen & Hgrow & Hsame & Npool).
  assert (S2 : slice_ok (sstart s) (slen (sbuf s)) c0 = true) by (unfold slice_ok, c0; apply andb_true_iff; split; [apply andb_true_iff; split|]; apply Z.leb_le; lia).
  rewrite S2. cbn [negb orb].
  set (d := slen (sbuf s) - sstart s).
  replace (hcap h1 (sid nb) <? d) with false by (symmetry; apply Z.ltb_ge; unfold d, c0 in *; lia).
  set (src := slice (harr (sheap s) (sid (sbuf s))) (sstart s) (slen (sbuf s))).
  set (a1 := write_at (harr h1 (sid nb)) 0 src).
  set (capN := hcap h1 (sid nb)).
  assert (Hsrc : src = slice data (base + sstart s) (base + slen (sbuf s))).
  { unfold src. rewrite <- (firstz_skipz (slen (sbuf s)) (harr (sheap s) (sid (sbuf s)))).
    unfold slice at 1. unfold skipz at 1. rewrite skipn_app.
    fold (buf_bytes s).
    assert (Lb : length (buf_bytes s) = Z.to_nat (slen (sbuf s))).
    { unfold buf_bytes, firstz. rewrite firstn_length. unfold hcap, len in *. lia. }
    rewrite Lb. replace (Z.to_nat (sstart s) - Z.to_nat (slen (sbuf s)))%nat with 0%nat by lia.
    cbn [skipn]. unfold firstz at 1. rewrite firstn_app.
    rewrite skipn_length, Lb.
    replace (Z.to_nat (slen (sbuf s) - sstart s) - (Z.to_nat (slen (sbuf s)) - Z.to_nat (sstart s)))%nat with 0%nat by lia.
    cbn [firstn]. rewrite app_nil_r.
    fold (skipz (sstart s) (buf_bytes s)). fold (firstz (slen (sbuf s) - sstart s) (skipz (sstart s) (buf_bytes s))).
    fold (slice (buf_bytes s) (sstart s) (slen (sbuf s))). rewrite i_buf0.
    rewrite slice_slice by lia. reflexivity. }
  assert (Lsrc : len src = d) by (rewrite Hsrc; rewrite len_slice by lia; unfold d; lia).
  assert (F1 : fill_inv data (base + sstart s) capN a1 d (ssch s) 0).
  { unfold fill_inv. split; [unfold a1; rewrite len_write_at; reflexivity|].
    split; [unfold capN, d, c0 in *; lia|]. split; [unfold d; lia|]. split.
    - unfold a1.
      assert (W := write_at_firstz (harr h1 (sid nb)) 0 src ltac:(lia) ltac:(unfold hcap, capN, d, c0 in *; lia)).
      replace (0 + len src) with d in W by lia. change (Z.to_nat 0) with O in W. rewrite W.
      change (firstz 0 (harr h1 (sid nb))) with (@nil Z). cbn [app]. rewrite Hsrc. f_equal. unfold d. lia.
    - split; [intros _; replace (base + sstart s + d) with (base + slen (sbuf s)) by (unfold d; lia); apply i_rest0; exact He|congruence]. }
  destruct (fill_spec data (base + sstart s) capN (p - sstart s) ltac:(lia) ltac:(unfold capN, need in *; lia)
              (S (length (ssch s) + Z.to_nat (len a1))) a1 d (ssch s) 0 F1)
    as (a2 & d2 & sch2 & e2 & EF & F2 & Dle & Stop).
  { left. destruct F1 as (La & _). rewrite La. lia. }
  rewrite EF. cbn [option_bind].
  destruct F2 as (La2 & Hd2 & Hin2 & Hfirst2 & Hrest2 & Hend2).
  set (s' := mkStream (hset h1 (sid nb) a2) sch2 e2 pl1 (mkSl (sid nb) d2) 0 (spos s - sstart s) (sprev s - sstart s) 0).
  assert (I' : inv data (base + sstart s) s').
  { constructor; cbn [sheap sbuf sid slen serr ssch spool s'].
    - rewrite hset_length. lia.
    - rewrite hset_length. exact Nid.
    - unfold hcap. rewrite harr_hset_same by exact Nid. lia.
    - lia.
    - exact Hin2.
    - unfold buf_bytes. cbn [sheap sbuf sid slen s']. rewrite harr_hset_same by exact Nid. exact Hfirst2.
    - exact Hrest2.
    - exact Hend2.
    - eapply ids_ok_mono; [exact Npool|rewrite hset_length; lia]. }
  destruct (d2 <=? p - sstart s) eqn:Cmp.
  - b2p. assert (E2 : e2 <> 0) by (intros X; apply Stop; split; [lia|exact X]).
    specialize (Hend2 E2).
    exists s'. split; [rewrite byte_at_out by lia; reflexivity|]. split; [exact I'|].
    cbn [sstart spos sprev sbuf slen s']. unfold d in Dle. repeat split; lia.
  - b2p. rewrite <- (peekz_firstz a2 d2) by lia. rewrite Hfirst2.
    rewrite getz_slice by lia.
    exists s'. split; [rewrite byte_at_in by lia; do 3 f_equal; lia|]. split; [exact I'|].
    cbn [sstart spos sprev sbuf slen s']. unfold d in Dle. repeat split; lia.
Qed.

(* ---- refinement of the whole-input cursor ----------------------------------------------------- *)
Definition Rel (data : list Z) (s : stream) (c : scur) : Prop :=
  exists base, inv data base s /\ cdat c = data /\
    cst c = base + sstart s /\ cps c = base + spos s /\ cprev c = base + sprev s /\
    0 <= sstart s /\ cst c <= cps c /\ cps c <= chw c /\ chw c <= base + slen (sbuf s).

Lemma slice_firstz {A} (l : list A) n a b : 0 <= a <= b -> b <= n -> slice (firstz n l) a b = slice l a b.
Proof.
  intros H1 H2. unfold slice, firstz, skipz. rewrite skipn_firstn_comm. rewrite firstn_firstn. f_equal. lia.
Qed.

Lemma inv_slice data base s a b :
  inv data base s -> 0 <= a <= b -> b <= slen (sbuf s) ->
  slice (harr (sheap s) (sid (sbuf s))) a b = slice data (base + a) (base + b).
Proof.
  intros I H1 H2. destruct I.
  rewrite <- (slice_firstz _ (slen (sbuf s))) by lia. fold (buf_bytes s). rewrite i_buf0.
  apply slice_slice; lia.
Qed.

Lemma Rel_intro data s c base :
  inv data base s -> cdat c = data ->
  cst c = base + sstart s -> cps c = base + spos s -> cprev c = base + sprev s ->
  0 <= sstart s -> cst c <= cps c -> cps c <= chw c -> chw c <= base + slen (sbuf s) ->
  Rel data s c.
Proof. intros. exists base. tauto. Qed.

(* the invariant only looks at heap, schedule, error, pool and buffer *)
Lemma inv_ext data base s s' :
  inv data base s -> sheap s' = sheap s -> ssch s' = ssch s -> serr s' = serr s ->
  spool s' = spool s -> sbuf s' = sbuf s -> inv data base s'.
Proof.
  intros I E1 E2 E3 E4 E5. destruct I. constructor; unfold buf_bytes in *; rewrite ?E1, ?E2, ?E3, ?E4, ?E5; assumption.
Qed.

(* one Peek, as used by Peek and by PeekRune *)
Lemma peek_refines data s c i :
  Rel data s c -> cst c <= cps c + i ->
  exists s1, stream_peek s i = Some (byte_at data (cps c + i), s1) /\ Rel data s1 (hwup c (cps c + i + 1)).
Proof.
  intros (base & I & Hd & Hst & Hps & Hpv & S0 & B1 & B2 & B3) G.
  pose proof (i_len _ _ _ I) as Ilen. pose proof (i_in _ _ _ I) as Iin. pose proof (i_base _ _ _ I) as Ibase.
  unfold stream_peek.
  destruct ((0 <=? spos s + i) && (spos s + i <? slen (sbuf s))) eqn:InB.
  - b2p. rewrite (inv_peek_in data base s (spos s + i) I) by lia.
    exists s. split; [do 3 f_equal; rewrite Hps; lia|].
    apply (Rel_intro data s _ base); unfold hwup; cbn [cdat cst cps chw cprev]; auto; try lia.
  - assert (Hp : slen (sbuf s) <= spos s + i).
    { apply andb_false_iff in InB. destruct InB; b2p; lia. }
    destruct (Z.eq_dec (serr s) 0) as [E0|En].
    + destruct (read_ok data base s (spos s + i) I E0 ltac:(lia) Hp)
        as (s' & ER & I' & N1 & N2 & N3 & N4 & N5).
      rewrite ER. exists s'. split; [do 3 f_equal; rewrite Hps; lia|].
      apply (Rel_intro data s' _ (base + sstart s)); unfold hwup; cbn [cdat cst cps chw cprev]; rewrite ?N1, ?N2, ?N3; auto; try lia.
      rewrite Hd. lia.
    + unfold stream_read. replace (serr s =? 0) with false by (symmetry; apply Z.eqb_neq; exact En).
      cbn [negb]. pose proof (i_end _ _ _ I En) as Hend.
      exists s. split.
      * do 3 f_equal. rewrite byte_at_out; [reflexivity|]. lia.
      * apply (Rel_intro data s _ base); unfold hwup; cbn [cdat cst cps chw cprev]; auto; try lia. rewrite Hd. lia.
Qed.

Lemma hwup_hwup c a b : a <= b -> hwup (hwup c a) b = hwup c b.
Proof. intros H. unfold hwup. cbn [cdat cst cps chw cprev cfreed]. f_equal. lia. Qed.

Lemma byte_at_of_peekz data q x : 0 <= q -> peekz data q = Some x -> byte_at data q = x.
Proof.
  intros Hq H. pose proof (peekz_some _ _ _ H) as R. rewrite byte_at_in by lia. unfold getz. rewrite H. reflexivity.
Qed.

(* PeekRune on a valid UTF-8 sequence (or at the end): the RFC 3629 code point and length *)
Lemma peekrune_refines data s c i c1 obs :
  Rel data s c -> sspec_step c (SPeekRune i) = Some (c1, obs) ->
  exists r k s1, stream_peek_rune s i = Some (r, k, s1) /\ obs = [r; k] /\ Rel data s1 c1.
Proof.
  intros HR Hs. cbn [sspec_step] in Hs.
  assert (Hd : cdat c = data) by (destruct HR as (b0 & _ & H & _); exact H).
  destruct (cst c <=? cps c + i) eqn:G; [|discriminate]. b2p.
  set (q := cps c + i) in *.
  destruct (peek_refines data s c i HR G) as (s0 & P0 & R0). fold q in P0, R0.
  unfold stream_peek_rune. rewrite P0. cbn [option_bind].
  destruct (len (cdat c) <=? q) eqn:End.
  { b2p. inversion Hs; subst c1 obs. rewrite byte_at_out by (rewrite <- Hd; lia).
    change (0 <? 192) with true. cbv iota. exists 0, 1, s0. auto. }
  b2p. rewrite Hd in *.
  destruct (Cursor.Model.utf8_decode (skipz q data)) as [[r k]|] eqn:Dec; [|discriminate].
  inversion Hs; subst c1 obs. clear Hs.
  assert (Hq0 : 0 <= q). { destruct HR as (b0 & I & _ & E1 & _ & _ & S0 & _). pose proof (i_base _ _ _ I). lia. }
  unfold Cursor.Model.utf8_decode in Dec.
  destruct (skipz q data) as [|c0 t] eqn:E0; [discriminate|].
  destruct (Cursor.Proofs.skipz_cons_peek data q c0 t Hq0 E0) as (K0 & E1 & L0).
  rewrite (byte_at_of_peekz data q c0 Hq0 K0).
  destruct ((0 <=? c0) && (c0 <=? 127)) eqn:A1.
  { inversion Dec; subst. b2p. replace (r <? 192) with true by (symmetry; apply Z.ltb_lt; lia). cbv iota.
    exists r, 1, s0. auto. }
  destruct t as [|c1' t1]; [discriminate|].
  destruct (Cursor.Proofs.skipz_cons_peek data (q + 1) c1' t1 ltac:(lia) E1) as (K1 & E2 & L1).
  assert (G1 : cst (hwup c (q + 1)) <= cps (hwup c (q + 1)) + (i + 1)) by (unfold hwup; cbn; lia).
  destruct (peek_refines data s0 (hwup c (q + 1)) (i + 1) R0 G1) as (s1 & P1 & R1).
  replace (cps (hwup c (q + 1)) + (i + 1)) with (q + 1) in P1, R1 by (unfold hwup, q; cbn; lia).
  rewrite (byte_at_of_peekz data (q + 1) c1' ltac:(lia) K1) in P1.
  rewrite hwup_hwup in R1 by lia.
  destruct ((194 <=? c0) && (c0 <=? 223) && Cursor.Model.cont c1') eqn:A2.
  { inversion Dec; subst. b2p.
    replace (c0 <? 192) with false by (symmetry; apply Z.ltb_ge; lia). cbv iota.
    rewrite P1. cbn [option_bind].
    replace (c0 <? 224) with true by (symmetry; apply Z.ltb_lt; lia). cbv iota.
    exists ((c0 - 192) * 64 + (c1' - 128)), 2, s1. split; [|split; [reflexivity|]].
    - do 3 f_equal. change (srune2 c0 c1') with (Cursor.Model.rune2 c0 c1'). apply Cursor.Proofs.rune2_arith; [lia|assumption].
    - replace (q + 2) with (q + 1 + 1) by lia. exact R1. }
  destruct t1 as [|c2 t2]; [discriminate|].
  destruct (Cursor.Proofs.skipz_cons_peek data (q + 1 + 1) c2 t2 ltac:(lia) E2) as (K2 & E3 & L2).
  assert (G2 : cst (hwup c (q + 1 + 1)) <= cps (hwup c (q + 1 + 1)) + (i + 2)) by (unfold hwup; cbn; lia).
  destruct (peek_refines data s1 (hwup c (q + 1 + 1)) (i + 2) R1 G2) as (s2 & P2 & R2).
  replace (cps (hwup c (q + 1 + 1)) + (i + 2)) with (q + 1 + 1) in P2, R2 by (unfold hwup, q; cbn; lia).
  rewrite (byte_at_of_peekz data (q + 1 + 1) c2 ltac:(lia) K2) in P2.
  rewrite hwup_hwup in R2 by lia.
  match type of Dec with (if ?b then _ else _) = _ => destruct b eqn:A3 end.
  { inversion Dec; subst. b2p.
    replace (c0 <? 192) with false by (symmetry; apply Z.ltb_ge; lia). cbv iota.
    rewrite P1. cbn [option_bind].
    replace (c0 <? 224) with false by (symmetry; apply Z.ltb_ge; lia). cbv iota.
    rewrite P2. cbn [option_bind].
    replace (c0 <? 240) with true by (symmetry; apply Z.ltb_lt; lia). cbv iota.
    eexists _, 3, s2. split; [|split; [reflexivity|]].
    - do 3 f_equal. change (srune3 c0 c1' c2) with (Cursor.Model.rune3 c0 c1' c2). apply Cursor.Proofs.rune3_arith; [lia|assumption|assumption].
    - replace (q + 3) with (q + 1 + 1 + 1) by lia. exact R2. }
  destruct t2 as [|c3 t3]; [discriminate|].
  destruct (Cursor.Proofs.skipz_cons_peek data (q + 1 + 1 + 1) c3 t3 ltac:(lia) E3) as (K3 & E4 & L3).
  assert (G3 : cst (hwup c (q + 1 + 1 + 1)) <= cps (hwup c (q + 1 + 1 + 1)) + (i + 3)) by (unfold hwup; cbn; lia).
  destruct (peek_refines data s2 (hwup c (q + 1 + 1 + 1)) (i + 3) R2 G3) as (s3 & P3 & R3).
  replace (cps (hwup c (q + 1 + 1 + 1)) + (i + 3)) with (q + 1 + 1 + 1) in P3, R3 by (unfold hwup, q; cbn; lia).
  rewrite (byte_at_of_peekz data (q + 1 + 1 + 1) c3 ltac:(lia) K3) in P3.
  rewrite hwup_hwup in R3 by lia.
  match type of Dec with (if ?b then _ else _) = _ => destruct b eqn:A4 end; [|discriminate].
  inversion Dec; subst. b2p.
  replace (c0 <? 192) with false by (symmetry; apply Z.ltb_ge; lia). cbv iota.
  rewrite P1. cbn [option_bind].
  replace (c0 <? 224) with false by (symmetry; apply Z.ltb_ge; lia). cbv iota.
  rewrite P2. cbn [option_bind].
  replace (c0 <? 240) with false by (symmetry; apply Z.ltb_ge; lia). cbv iota.
  rewrite P3. cbn [option_bind].
  eexists _, 4, s3. split; [|split; [reflexivity|]].
  - do 3 f_equal. change (srune4 c0 c1' c2 c3) with (Cursor.Model.rune4 c0 c1' c2 c3). apply Cursor.Proofs.rune4_arith; [lia|assumption|assumption|assumption].
  - replace (q + 4) with (q + 1 + 1 + 1 + 1) by lia. exact R3.
Qed.

Lemma sstep_refines data s c o c1 obs :
  Rel data s c -> sspec_step c o = Some (c1, obs) ->
  exists s1 u, sstep s o = Some (s1, obs, u) /\ Rel data s1 c1.
Proof.
  intros (base & I & Hd & Hst & Hps & Hpv & S0 & B1 & B2 & B3) Hs.
  pose proof (i_len _ _ _ I) as Ilen. pose proof (i_in _ _ _ I) as Iin. pose proof (i_base _ _ _ I) as Ibase.
  destruct o; cbn [sspec_step] in Hs; try discriminate.
  - (* Peek *)
    destruct (cst c <=? cps c + i) eqn:G; [|discriminate]. b2p. inversion Hs; subst c1 obs. clear Hs.
    cbn [sstep]. unfold stream_peek.
    destruct ((0 <=? spos s + i) && (spos s + i <? slen (sbuf s))) eqn:InB.
    + b2p. rewrite (inv_peek_in data base s (spos s + i) I) by lia. cbn [option_bind fst snd].
      eexists s, None. split; [do 4 f_equal; rewrite Hd, Hps; f_equal; lia|].
      apply (Rel_intro data s _ base); cbn [cdat cst cps chw cprev]; auto; try lia.
    + assert (Hp : slen (sbuf s) <= spos s + i).
      { apply andb_false_iff in InB. destruct InB; b2p; lia. }
      destruct (Z.eq_dec (serr s) 0) as [E0|En].
      * destruct (read_ok data base s (spos s + i) I E0 ltac:(lia) Hp)
          as (s' & ER & I' & N1 & N2 & N3 & N4 & N5).
        rewrite ER. cbn [option_bind fst snd].
        eexists s', None. split; [do 4 f_equal; rewrite Hd, Hps; f_equal; lia|].
        apply (Rel_intro data s' _ (base + sstart s)); cbn [cdat cst cps chw cprev]; rewrite ?N1, ?N2, ?N3; auto; try lia.
        rewrite Hd. lia.
      * unfold stream_read. replace (serr s =? 0) with false by (symmetry; apply Z.eqb_neq; exact En).
        cbn [negb option_bind fst snd].
        pose proof (i_end _ _ _ I En) as Hend.
        eexists s, None. split.
        -- do 4 f_equal. rewrite byte_at_out; [reflexivity|]. rewrite Hd. lia.
        -- apply (Rel_intro data s _ base); cbn [cdat cst cps chw cprev]; auto; try lia. rewrite Hd. lia.
  - (* PeekRune *)
    destruct (peekrune_refines data s c i c1 obs (ex_intro _ base (conj I (conj Hd (conj Hst (conj Hps (conj Hpv (conj S0 (conj B1 (conj B2 B3))))))))) Hs)
      as (r & k & s1 & E & Eo & R1).
    cbn [sstep]. rewrite E. cbn [option_bind]. subst obs. eexists s1, None. split; [reflexivity|exact R1].
  - (* Move *)
    destruct ((cst c <=? cps c + n) && (cps c + n <=? chw c)) eqn:G; [|discriminate]. b2p.
    inversion Hs; subst c1 obs. cbn [sstep]. eexists _, None. split; [reflexivity|].
    apply (Rel_intro data _ _ base); [eapply inv_ext; [exact I|..]; reflexivity|..]; cbn; auto; lia.
  - (* Rewind *)
    destruct ((0 <=? m) && (cst c + m <=? chw c)) eqn:G; [|discriminate]. b2p.
    inversion Hs; subst c1 obs. cbn [sstep]. eexists _, None. split; [reflexivity|].
    apply (Rel_intro data _ _ base); [eapply inv_ext; [exact I|..]; reflexivity|..]; cbn; auto; lia.
  - (* Skip *)
    inversion Hs; subst c1 obs. cbn [sstep]. eexists _, None. split; [reflexivity|].
    apply (Rel_intro data _ _ base); [eapply inv_ext; [exact I|..]; reflexivity|..]; cbn; auto; lia.
  - (* Shift *)
    inversion Hs; subst c1 obs. clear Hs. cbn [sstep]. unfold stream_shift.
    replace (slen (sbuf s) <? spos s) with false by (symmetry; apply Z.ltb_ge; lia).
    cbn [option_bind]. unfold stream_lexeme.
    assert (SO : slice_ok (sstart s) (spos s) (hcap (sheap s) (sid (sbuf s))) = true).
    { unfold slice_ok. apply andb_true_iff; split; [apply andb_true_iff; split|]; apply Z.leb_le; lia. }
    rewrite SO. cbn [option_bind].
    eexists _, _. split.
    + cbn [sheap ulen]. unfold uslice_bytes. cbn [uid uoff ulen].
      replace (sstart s + (spos s - sstart s)) with (spos s) by lia.
      rewrite (inv_slice data base s (sstart s) (spos s) I) by lia.
      rewrite Hd, Hst, Hps. replace (base + spos s - (base + sstart s)) with (spos s - sstart s) by lia. reflexivity.
    + apply (Rel_intro data _ _ base); [eapply inv_ext; [exact I|..]; reflexivity|..]; cbn; auto; lia.
  - (* Lexeme *)
    inversion Hs; subst c1 obs. clear Hs. cbn [sstep]. unfold stream_lexeme.
    assert (SO : slice_ok (sstart s) (spos s) (hcap (sheap s) (sid (sbuf s))) = true).
    { unfold slice_ok. apply andb_true_iff; split; [apply andb_true_iff; split|]; apply Z.leb_le; lia. }
    rewrite SO. cbn [option_bind].
    eexists _, _. split.
    + cbn [ulen]. unfold uslice_bytes. cbn [uid uoff ulen].
      replace (sstart s + (spos s - sstart s)) with (spos s) by lia.
      rewrite (inv_slice data base s (sstart s) (spos s) I) by lia.
      rewrite Hd, Hst, Hps. replace (base + spos s - (base + sstart s)) with (spos s - sstart s) by lia. reflexivity.
    + apply (Rel_intro data _ _ base); auto.
  - (* Pos *)
    inversion Hs; subst c1 obs. cbn [sstep]. eexists _, None. split; [do 4 f_equal; lia|].
    apply (Rel_intro data _ _ base); auto.
  - (* Free *)
    destruct ((0 <=? n) && (cfreed c + n <=? cst c)) eqn:G; [|discriminate].
    inversion Hs; subst c1 obs. cbn [sstep]. eexists _, None. split; [reflexivity|].
    apply (Rel_intro data _ _ base); [eapply inv_ext; [exact I|..]; reflexivity|..]; cbn; auto; lia.
  - (* ShiftLen *)
    inversion Hs; subst c1 obs. cbn [sstep]. eexists _, None. split; [do 4 f_equal; lia|].
    apply (Rel_intro data _ _ base); [eapply inv_ext; [exact I|..]; reflexivity|..]; cbn; auto; lia.
Qed.

Theorem srun_refines data ops : forall s c c' outs,
  Rel data s c -> sspec_run c ops = Some (c', outs) ->
  exists s', srun s ops = Some (s', outs) /\ Rel data s' c'.
Proof.
  induction ops as [|o ops IH]; intros s c c' outs HR Hs.
  - cbn in *. inversion Hs; subst. eauto.
  - cbn [sspec_run] in Hs.
    destruct (sspec_step c o) as [[c1 obs]|] eqn:S1; [|discriminate]. cbn [option_bind fst snd] in Hs.
    destruct (sspec_run c1 ops) as [[c2 outs2]|] eqn:S2; [|discriminate]. cbn [option_bind fst snd] in Hs.
    inversion Hs; subst.
    destruct (sstep_refines data s c o c1 obs HR S1) as (s1 & u & E1 & R1).
    destruct (IH s1 c1 c' outs2 R1 S2) as (s2 & E2 & R2).
    exists s2. cbn [srun]. rewrite E1. cbn [option_bind]. rewrite E2. cbn. auto.
Qed.

Lemma new_stream_inv sch size : 0 <= size -> inv (delivered sch) 0 (new_stream sch size).
Proof.
  intros Hs. unfold new_stream.
  constructor; cbn [sheap sbuf sid slen serr ssch spool blocks].
  - cbn. lia.
  - cbn. lia.
  - unfold hcap, harr. cbn [nth]. rewrite len_zeros by exact Hs. lia.
  - lia.
  - pose proof (len_nonneg (delivered sch)). lia.
  - unfold buf_bytes. cbn [sheap sbuf sid slen]. replace (0 + 0) with 0 by lia. rewrite slice_nil. reflexivity.
  - intros _. reflexivity.
  - intros X. congruence.
  - constructor.
Qed.

Lemma new_stream_Rel sch size : 0 <= size -> Rel (delivered sch) (new_stream sch size) (sc_init (delivered sch)).
Proof.
  intros Hs. apply (Rel_intro _ _ _ 0); [apply new_stream_inv; exact Hs|..]; cbn; try reflexivity; lia.
Qed.

Theorem stream_refines_cursor_proof :
  forall (sch : list event) (size : Z) (ops : list sop) c' outs,
    0 <= size ->
    sspec_run (sc_init (delivered sch)) ops = Some (c', outs) ->
    exists s', srun (new_stream sch size) ops = Some (s', outs).
Proof.
  intros sch size ops c' outs Hs H.
  destruct (srun_refines (delivered sch) ops _ _ c' outs (new_stream_Rel sch size Hs) H) as (s' & E & _).
  eauto.
Qed.

(* ---- Err() ------------------------------------------------------------------------------------- *)
(* the error the lexer has seen is the one that ends the schedule *)
Definition errinv (sch0 : list event) (s : stream) : Prop :=
  (serr s = 0 /\ final_err (ssch s) = final_err sch0) \/ (serr s <> 0 /\ serr s = final_err sch0).

Lemma reader_read_err sch room bs e sch' :
  reader_read sch room = (bs, e, sch') -> final_err sch = (if e =? 0 then final_err sch' else e).
Proof.
  intros H. destruct sch as [|[b0 e0] rest]; cbn [reader_read] in H.
  - inversion H; subst. reflexivity.
  - destruct (len b0 <=? room); inversion H; subst; cbn [final_err Z.eqb]; reflexivity.
Qed.

Lemma fill_err fuel : forall a d need sch e a2 d2 sch2 e2,
  fill fuel a d need sch e = Some (a2, d2, sch2, e2) ->
  (if e =? 0 then final_err sch else e) = (if e2 =? 0 then final_err sch2 else e2).
Proof.
  induction fuel as [|k IH]; intros a d need sch e a2 d2 sch2 e2 H; cbn [fill] in H.
  - destruct ((d <=? need) && (e =? 0)); [discriminate|]. inversion H; subst. reflexivity.
  - destruct ((d <=? need) && (e =? 0)) eqn:C; [|inversion H; subst; reflexivity].
    b2p. destruct (reader_read sch (len a - d)) as [[bs e'] sch'] eqn:RR.
    rewrite <- (IH _ _ _ _ _ _ _ _ _ H). subst e. cbn [Z.eqb]. apply (reader_read_err _ _ _ _ _ RR).
Qed.

Lemma stream_read_errinv sch0 s p b s' : errinv sch0 s -> stream_read s p = Some (b, s') -> errinv sch0 s'.
Proof.
  intros E H. unfold stream_read in H.
  destruct (serr s =? 0) eqn:E0; cbn [negb] in H; [|inversion H; subst; exact E].
  destruct (negb (slice_ok 0 (sstart s) (hcap (sheap s) (sid (sbuf s))))); [discriminate|].
  destruct (pool_swap _ _ _ _) as [[h1 pl1] nb].
  match type of H with (if ?c then _ else _) = _ => destruct c end; [discriminate|].
  match type of H with (_ <- ?f ;; _) = _ => destruct f as [[[[a2 d2] sch2] e2]|] eqn:F end; [|discriminate].
  cbn [option_bind] in H. apply fill_err in F. cbn [Z.eqb] in F.
  assert (Es' : errinv sch0 (mkStream (hset h1 (sid nb) a2) sch2 e2 pl1 (mkSl (sid nb) d2) 0 (spos s - sstart s) (sprev s - sstart s) 0)).
  { unfold errinv. cbn [serr ssch]. b2p. destruct E as [[_ Ef]|[En _]]; [|congruence].
    destruct (e2 =? 0) eqn:X; b2p; [left|right]; split; congruence. }
  destruct (d2 <=? p - sstart s); [inversion H; subst; exact Es'|].
  destruct (peekz a2 (p - sstart s)); inversion H; subst; exact Es'.
Qed.

Lemma sstep_errinv sch0 s o s1 obs u : errinv sch0 s -> sstep s o = Some (s1, obs, u) -> errinv sch0 s1.
Proof.
  intros E H.
  assert (PK : forall s i b s', errinv sch0 s -> stream_peek s i = Some (b, s') -> errinv sch0 s').
  { intros t i b t' Et Hp. unfold stream_peek in Hp.
    destruct ((0 <=? spos t + i) && (spos t + i <? slen (sbuf t))).
    - destruct (peekz _ _); inversion Hp; subst; exact Et.
    - eapply stream_read_errinv; eauto. }
  destruct o; cbn [sstep] in H.
  - destruct (stream_peek s i) as [[b t]|] eqn:P; [|discriminate]. inversion H; subst. eapply PK; eauto.
  - unfold stream_peek_rune in H.
    destruct (stream_peek s i) as [[c0 s0]|] eqn:P0; [|discriminate]. cbn [option_bind] in H.
    pose proof (PK _ _ _ _ E P0) as E0.
    destruct (c0 <? 192); [inversion H; subst; exact E0|].
    destruct (stream_peek s0 (i + 1)) as [[c1 t1]|] eqn:P1; [|discriminate]. cbn [option_bind] in H.
    pose proof (PK _ _ _ _ E0 P1) as E1.
    destruct (c0 <? 224); [inversion H; subst; exact E1|].
    destruct (stream_peek t1 (i + 2)) as [[c2 t2]|] eqn:P2; [|discriminate]. cbn [option_bind] in H.
    pose proof (PK _ _ _ _ E1 P2) as E2.
    destruct (c0 <? 240); [inversion H; subst; exact E2|].
    destruct (stream_peek t2 (i + 3)) as [[c3 t3]|] eqn:P3; [|discriminate]. cbn [option_bind] in H.
    pose proof (PK _ _ _ _ E2 P3) as E3. inversion H; subst; exact E3.
  - inversion H; subst. exact E.
  - inversion H; subst. exact E.
  - inversion H; subst. exact E.
  - unfold stream_shift in H.
    destruct (slen (sbuf s) <? spos s).
    + destruct (stream_read s (spos s - 1)) as [[b t]|] eqn:RD; [|discriminate]. cbn [option_bind snd] in H.
      pose proof (stream_read_errinv _ _ _ _ _ E RD) as Et.
      destruct (stream_lexeme t); [|discriminate]. cbn [option_bind] in H. inversion H; subst. exact Et.
    + cbn [option_bind] in H. destruct (stream_lexeme s); [|discriminate]. cbn [option_bind] in H. inversion H; subst. exact E.
  - destruct (stream_lexeme s); [|discriminate]. cbn [option_bind] in H. inversion H; subst. exact E.
  - inversion H; subst. exact E.
  - inversion H; subst. exact E.
  - inversion H; subst. exact E.
  - inversion H; subst. exact E.
Qed.

Lemma srun_errinv sch0 ops : forall s s' outs, errinv sch0 s -> srun s ops = Some (s', outs) -> errinv sch0 s'.
Proof.
  induction ops as [|o ops IH]; intros s s' outs E H; cbn [srun] in H.
  - inversion H; subst. exact E.
  - destruct (sstep s o) as [[[s1 obs] u]|] eqn:S1; [|discriminate]. cbn [option_bind] in H.
    destruct (srun s1 ops) as [[s2 o2]|] eqn:S2; [|discriminate]. cbn [option_bind fst snd] in H.
    inversion H; subst. eapply IH; [|exact S2]. eapply sstep_errinv; eauto.
Qed.

(* Err(): nil while unread data remain and the reader has not failed; io.EOF only at or after the end;
   a failure is the reader's own error. *)
Theorem err_spec_proof :
  forall (sch : list event) (size : Z) (ops : list sop) c' outs s',
    0 <= size ->
    sspec_run (sc_init (delivered sch)) ops = Some (c', outs) ->
    srun (new_stream sch size) ops = Some (s', outs) ->
    (final_err sch = 1 -> cps c' < len (delivered sch) -> stream_err s' = 0) /\
    (stream_err s' = 1 -> len (delivered sch) <= cps c') /\
    (stream_err s' <> 0 -> stream_err s' = final_err sch).
Proof.
  intros sch size ops c' outs s' Hs Hspec Hrun.
  destruct (srun_refines (delivered sch) ops _ _ c' outs (new_stream_Rel sch size Hs) Hspec) as (s2 & E2 & R).
  rewrite Hrun in E2. inversion E2; subst s2. clear E2.
  assert (EI : errinv sch s').
  { eapply srun_errinv; [|exact Hrun]. left. split; reflexivity. }
  destruct R as (base & I & Hd & Hst & Hps & Hpv & S0 & B1 & B2 & B3).
  unfold stream_err. split; [|split].
  - intros Hf Hlt. destruct EI as [[E0 _]|[En Ee]].
    + rewrite E0. cbn. reflexivity.
    + rewrite Ee, Hf. cbn [Z.eqb andb]. pose proof (i_end _ _ _ I En) as Hend.
      replace (spos s' <? slen (sbuf s')) with true by (symmetry; apply Z.ltb_lt; lia). reflexivity.
  - intros H1. destruct ((serr s' =? 1) && (spos s' <? slen (sbuf s'))) eqn:C; [discriminate|].
    assert (En : serr s' <> 0) by lia. pose proof (i_end _ _ _ I En) as Hend.
    rewrite H1 in C. cbn [Z.eqb andb] in C. b2p. lia.
  - intros Hn. destruct ((serr s' =? 1) && (spos s' <? slen (sbuf s'))) eqn:C; [congruence|].
    destruct EI as [[E0 _]|[En Ee]]; [congruence|exact Ee].
Qed.

(* ---- Lexeme() slices are NOT stable (current tree): witness ---------------------------------- *)
Definition d7_sch : list event := [([97;98;99;100;101;102], 0); ([103;104;105;106;107;108], 0); ([109;110;111;112;113;114], 0)].
Definition d7_ops : list sop := [SPeek 0; SPeek 1; SMove 2; SShift; SFree 2; SPeek 3; SMove 4; SLexeme; SPeek 0].

Theorem lexeme_slice_stable_refuted_proof :
  exists sch size ops s c outs h,
    srun2 (new_stream sch size) (sc_init (delivered sch)) [] ops = Some (s, c, outs) /\
    In h outs /\ hshift h = false /\ cfreed c < hend h /\ uslice_bytes (sheap s) (hu h) <> hbytes h.
Proof.
  exists d7_sch, 16, d7_ops.
  destruct (srun2 (new_stream d7_sch 16) (sc_init (delivered d7_sch)) [] d7_ops) as [[[s c] outs]|] eqn:E;
    [|vm_compute in E; discriminate].
  exists s, c, outs.
  vm_compute in E. inversion E; subst. clear E.
  eexists. split; [reflexivity|]. split; [right; left; reflexivity|]. cbn. split; [reflexivity|]. split; [lia|]. vm_compute. discriminate.
Qed.

(* ---- non-vacuity ------------------------------------------------------------------------------- *)
Example refines_nonvacuous :
  exists c' outs,
    sspec_run (sc_init (delivered d7_sch))
      [SPeek 0; SPeek 5; SMove 6; SPeek 0; SMove 1; SShift; SShiftLen; SFree 7; SPeek 4; SMove 5; SLexeme; SSkip; SShiftLen; SPeek 20] = Some (c', outs)
    /\ outs = [[97]; [102]; []; [103]; []; [7; 97; 98; 99; 100; 101; 102; 103]; [7]; []; [108]; []; [5; 104; 105; 106; 107; 108]; []; [5]; [0]].
Proof. eexists _, _. split; vm_compute; reflexivity. Qed.
