(* Stream/Memory.v — memory held by the StreamLexer (C13, last clause).
   (a) whatever the Free discipline, no array is ever larger than max(size, 5*(L+1)), L = the longest distance a
       Peek looks ahead of the token start;
   (b) when every shifted token is freed before the next refill, no refill allocates unless the buffer has to grow,
       each growth more than doubles the capacity, and so the capacities of all arrays ever allocated sum to less
       than twice that bound: the memory does not grow with the stream. *)
From Verif Require Import Common.Base Common.Tactics Stream.Model Stream.Spec Stream.Lemmas Stream.Proofs Stream.Pool Stream.Stable.
From Coq Require Import ZifyBool.

(* ---- what a refill does to the heap ---------------------------------------------------------- *)
Lemma fill_length fuel : forall a d need sch e a2 d2 sch2 e2,
  fill fuel a d need sch e = Some (a2, d2, sch2, e2) -> len a2 = len a.
Proof.
  induction fuel as [|k IH]; intros a d need sch e a2 d2 sch2 e2 H; cbn [fill] in H.
  - destruct ((d <=? need) && (e =? 0)); [discriminate|]. inversion H; subst. reflexivity.
  - destruct ((d <=? need) && (e =? 0)); [|inversion H; subst; reflexivity].
    destruct (reader_read sch (len a - d)) as [[bs e'] sch'].
    rewrite (IH _ _ _ _ _ _ _ _ _ H). apply len_write_at.
Qed.

Definition grow (c0 need : Z) : Z := if c0 <? 2 * need then 2 * c0 + need else c0.

Lemma stream_read_shape s p b s' :
  serr s = 0 -> stream_read s p = Some (b, s') ->
  exists h1 pl1 nb a2 d2 sch2 e2,
    let c0 := hcap (sheap s) (sid (sbuf s)) in
    let c := grow c0 (p - sstart s + 1) in
    pool_swap (sheap s) (pool_free (spool s) (sfree s)) (mkSl (sid (sbuf s)) (sstart s)) c = (h1, pl1, nb) /\
    0 <= c /\ len a2 = hcap h1 (sid nb) /\
    s' = mkStream (hset h1 (sid nb) a2) sch2 e2 pl1 (mkSl (sid nb) d2) 0 (spos s - sstart s) (sprev s - sstart s) 0.
Proof.
  intros He H. unfold stream_read in H. rewrite He in H. cbn [Z.eqb negb] in H.
  match type of H with (if negb ?x then _ else _) = _ => destruct x eqn:S1 end; cbn [negb] in H; [|discriminate].
  match type of H with context [pool_swap ?a ?b ?c ?d] => destruct (pool_swap a b c d) as [[h1 pl1] nb] eqn:SW end.
  match type of H with (if ?x then _ else _) = _ => destruct x eqn:S2 end; [discriminate|].
  match type of H with (_ <- ?f ;; _) = _ => destruct f as [[[[a2 d2] sch2] e2]|] eqn:F end; [|discriminate].
  cbn [option_bind] in H.
  exists h1, pl1, nb, a2, d2, sch2, e2. cbv zeta. split; [exact SW|]. split; [|split].
  - assert (0 <= hcap (sheap s) (sid (sbuf s))) by (unfold hcap; apply len_nonneg).
    unfold grow. destruct (hcap (sheap s) (sid (sbuf s)) <? 2 * (p - sstart s + 1)) eqn:E; b2p; lia.
  - rewrite (fill_length _ _ _ _ _ _ _ _ _ _ F). rewrite len_write_at. reflexivity.
  - destruct (d2 <=? p - sstart s); [inversion H; reflexivity|].
    destruct (peekz a2 (p - sstart s)); inversion H; reflexivity.
Qed.

Lemma pool_swap_heap h p old size h1 p1 nb :
  pool_swap h p old size = (h1, p1, nb) -> h1 = h \/ (h1 = h ++ [zeros size] /\ sid nb = length h).
Proof.
  unfold pool_swap. intros H.
  destruct (find_free h (blocks p) size 0); [inversion H; left; reflexivity|].
  destruct ((ptail p =? 0) && (slen old <=? ppos p) && (size <=? hcap h (sid old))); [inversion H; left; reflexivity|].
  inversion H; subst. right. split; [reflexivity|]. cbn [sid].
  unfold nthb, len. rewrite Nat2Z.id. rewrite app_nth2 by lia. rewrite Nat.sub_diag. reflexivity.
Qed.

Lemma Forall_hset (P : list Z -> Prop) h id a : Forall P h -> P a -> Forall P (hset h id a).
Proof.
  revert id. induction h as [|x t IH]; intros id Hf Ha; [constructor|].
  inversion Hf; subst. destruct id; cbn; constructor; auto.
Qed.

Lemma hcap_le_of_Forall B h id : 0 <= B -> Forall (fun a => len a <= B) h -> hcap h id <= B.
Proof.
  intros HB Hf. unfold hcap, harr. destruct (Nat.lt_ge_cases id (length h)) as [L|G].
  - rewrite Forall_forall in Hf. apply Hf. apply nth_In. exact L.
  - rewrite nth_overflow by exact G. cbn. exact HB.
Qed.

(* ---- (a) no array is larger than max(size, 5*(L+1)) ----------------------------------------------- *)
Definition caps_le (B : Z) (s : stream) : Prop := Forall (fun a => len a <= B) (sheap s).

Lemma read_caps B L s p b s' :
  0 <= B -> 5 * (L + 1) <= B -> serr s = 0 -> p - sstart s <= L -> caps_le B s ->
  stream_read s p = Some (b, s') -> caps_le B s'.
Proof.
  intros HB HL He Hp Hc H.
  destruct (stream_read_shape s p b s' He H) as (h1 & pl1 & nb & a2 & d2 & sch2 & e2 & SW & Hc0 & La2 & Es').
  set (c0 := hcap (sheap s) (sid (sbuf s))) in *.
  assert (Hc0B : c0 <= B) by (apply hcap_le_of_Forall; assumption).
  assert (HcB : grow c0 (p - sstart s + 1) <= B).
  { unfold grow. destruct (c0 <? 2 * (p - sstart s + 1)) eqn:E; b2p; lia. }
  assert (H1 : Forall (fun a => len a <= B) h1).
  { destruct (pool_swap_heap _ _ _ _ _ _ _ SW) as [E|[E _]]; rewrite E; [exact Hc|].
    apply Forall_app. split; [exact Hc|]. constructor; [|constructor]. rewrite len_zeros by exact Hc0. exact HcB. }
  unfold caps_le. rewrite Es'. cbn [sheap]. apply Forall_hset; [exact H1|].
  rewrite La2. apply hcap_le_of_Forall; assumption.
Qed.

Lemma peek_caps B L s i b t :
  0 <= B -> 5 * (L + 1) <= B -> spos s + i - sstart s <= L -> caps_le B s ->
  stream_peek s i = Some (b, t) -> caps_le B t.
Proof.
  intros HB HL Hp Hc P. unfold stream_peek in P.
  destruct ((0 <=? spos s + i) && (spos s + i <? slen (sbuf s))).
  - destruct (peekz _ _); inversion P; subst; exact Hc.
  - destruct (Z.eq_dec (serr s) 0) as [E0|En].
    + eapply read_caps; eauto.
    + unfold stream_read in P. replace (serr s =? 0) with false in P by (symmetry; apply Z.eqb_neq; exact En).
      cbn [negb] in P. inversion P; subst. exact Hc.
Qed.

Lemma stream_read_offsets s p b s' : stream_read s p = Some (b, s') -> spos s' - sstart s' = spos s - sstart s.
Proof.
  intros H. destruct (Z.eq_dec (serr s) 0) as [E0|En].
  - destruct (stream_read_shape s p b s' E0 H) as (h1 & pl1 & nb & a2 & d2 & sch2 & e2 & _ & _ & _ & Es').
    rewrite Es'. cbn. lia.
  - unfold stream_read in H. replace (serr s =? 0) with false in H by (symmetry; apply Z.eqb_neq; exact En).
    cbn [negb] in H. inversion H; subst. reflexivity.
Qed.

Lemma stream_peek_offsets s i b t : stream_peek s i = Some (b, t) -> spos t - sstart t = spos s - sstart s.
Proof.
  unfold stream_peek. destruct ((0 <=? spos s + i) && (spos s + i <? slen (sbuf s))).
  - destruct (peekz _ _); intros H; inversion H; subst; reflexivity.
  - apply stream_read_offsets.
Qed.

(* how far ahead of the token start an operation looks *)
Definition look_ok (L : Z) (c : scur) (o : sop) : Prop :=
  match o with
  | SPeek i => cps c + i - cst c <= L
  | SPeekRune i => cps c + i + 3 - cst c <= L
  | _ => True
  end.

Lemma caps_step B L data s c outs o s1 obs u c1 obs' :
  0 <= B -> 5 * (L + 1) <= B ->
  K data s c outs -> caps_le B s -> look_ok L c o ->
  sstep s o = Some (s1, obs, u) -> sspec_step c o = Some (c1, obs') -> caps_le B s1.
Proof.
  intros HB HL (base & chain & T & Kv) Hc Hl Hi Hs.
  assert (Hrel : cps c - cst c = spos s - sstart s) by (destruct Kv; lia).
  destruct o; cbn [sstep] in Hi; cbn [look_ok] in Hl.
  - destruct (stream_peek s i) as [[b t]|] eqn:P; [|discriminate]. cbn [option_bind] in Hi. inversion Hi; subst.
    eapply (peek_caps B L); eauto. lia.
  - unfold stream_peek_rune in Hi.
    destruct (stream_peek s i) as [[c0 s0]|] eqn:P0; [|discriminate]. cbn [option_bind] in Hi.
    pose proof (peek_caps B L s i c0 s0 HB HL ltac:(lia) Hc P0) as C0. pose proof (stream_peek_offsets _ _ _ _ P0) as O0.
    destruct (c0 <? 192); [inversion Hi; subst; exact C0|].
    destruct (stream_peek s0 (i + 1)) as [[c1' t1]|] eqn:P1; [|discriminate]. cbn [option_bind] in Hi.
    pose proof (peek_caps B L s0 (i + 1) c1' t1 HB HL ltac:(lia) C0 P1) as C1. pose proof (stream_peek_offsets _ _ _ _ P1) as O1.
    destruct (c0 <? 224); [inversion Hi; subst; exact C1|].
    destruct (stream_peek t1 (i + 2)) as [[c2 t2]|] eqn:P2; [|discriminate]. cbn [option_bind] in Hi.
    pose proof (peek_caps B L t1 (i + 2) c2 t2 HB HL ltac:(lia) C1 P2) as C2. pose proof (stream_peek_offsets _ _ _ _ P2) as O2.
    destruct (c0 <? 240); [inversion Hi; subst; exact C2|].
    destruct (stream_peek t2 (i + 3)) as [[c3 t3]|] eqn:P3; [|discriminate]. cbn [option_bind] in Hi.
    pose proof (peek_caps B L t2 (i + 3) c3 t3 HB HL ltac:(lia) C2 P3) as C3.
    inversion Hi; subst; exact C3.
  - inversion Hi; subst. exact Hc.
  - inversion Hi; subst. exact Hc.
  - inversion Hi; subst. exact Hc.
  - unfold stream_shift in Hi.
    replace (slen (sbuf s) <? spos s) with false in Hi by (symmetry; apply Z.ltb_ge; destruct Kv; lia).
    cbn [option_bind] in Hi. destruct (stream_lexeme s); [|discriminate]. cbn [option_bind] in Hi.
    inversion Hi; subst. exact Hc.
  - destruct (stream_lexeme s); [|discriminate]. cbn [option_bind] in Hi. inversion Hi; subst. exact Hc.
  - inversion Hi; subst. exact Hc.
  - inversion Hi; subst. exact Hc.
  - inversion Hi; subst. exact Hc.
  - inversion Hi; subst. exact Hc.
Qed.

(* a run in which every step satisfies a condition on the specification state *)
Fixpoint all_steps (Q : scur -> sop -> Prop) (c : scur) (ops : list sop) : Prop :=
  match ops with
  | [] => True
  | o :: rest => Q c o /\ match sspec_step c o with Some (c1, _) => all_steps Q c1 rest | None => True end
  end.

Lemma caps_run B L data ops : 0 <= B -> 5 * (L + 1) <= B -> forall s c outs s' c' outs',
  K data s c outs -> caps_le B s -> all_steps (look_ok L) c ops ->
  srun2 s c outs ops = Some (s', c', outs') -> caps_le B s'.
Proof.
  intros HB HL. induction ops as [|o ops IH]; intros s c outs s' c' outs' Kv Hc Ha H; cbn [srun2] in H.
  - inversion H; subst. exact Hc.
  - destruct (sstep s o) as [[[s1 obs] u]|] eqn:S1; [|discriminate]. cbn [option_bind] in H.
    destruct (sspec_step c o) as [[c1 obs']|] eqn:S2; [|discriminate]. cbn [option_bind fst] in H.
    cbn [all_steps] in Ha. rewrite S2 in Ha. destruct Ha as [Ha1 Ha2].
    eapply IH; [| |exact Ha2|exact H].
    + pose proof (K_step data s c outs o s1 obs u c1 obs' Kv S1 S2) as K1.
      unfold outs_after in K1. destruct u; [|exact K1]. destruct o; exact K1.
    + eapply caps_step; eauto.
Qed.

Theorem capacity_bound_proof :
  forall (sch : list event) (size L : Z) (ops : list sop) s c outs,
    0 <= size -> 0 <= L ->
    all_steps (look_ok L) (sc_init (delivered sch)) ops ->
    srun2 (new_stream sch size) (sc_init (delivered sch)) [] ops = Some (s, c, outs) ->
    Forall (fun a => len a <= Z.max size (5 * (L + 1))) (sheap s).
Proof.
  intros sch size L ops s c outs Hs HL Ha Hrun.
  apply (caps_run (Z.max size (5 * (L + 1))) L (delivered sch) ops ltac:(lia) ltac:(lia) (new_stream sch size) (sc_init (delivered sch)) [] s c outs (K_init sch size Hs)); [|exact Ha|exact Hrun].
  unfold caps_le, new_stream. cbn [sheap]. constructor; [|constructor]. rewrite len_zeros by exact Hs. lia.
Qed.

(* ---- (b) every shifted token freed before the next refill: memory does not grow with the stream ---- *)
(* capacities of the arrays ever allocated, in allocation order: each more than twice the previous one *)
Fixpoint dbl (l : list Z) : Prop :=
  match l with
  | x :: t => match t with y :: _ => 2 * x < y /\ dbl t | [] => True end
  | [] => True
  end.

Lemma dbl_sum l : l <> [] -> (forall x, In x l -> 0 <= x) -> dbl l -> sumz l <= 2 * last l 0 - hd 0 l.
Proof.
  induction l as [|x t IH]; intros Hne Hpos Hd; [congruence|].
  destruct t as [|y t'].
  - unfold sumz. cbn [fold_right last hd]. pose proof (Hpos x (or_introl eq_refl)). lia.
  - cbn [dbl] in Hd. destruct Hd as [H1 H2].
    specialize (IH ltac:(discriminate) (fun z Hz => Hpos z (or_intror Hz)) H2).
    change (last (x :: y :: t') 0) with (last (y :: t') 0). cbn [hd] in *.
    unfold sumz in *. cbn [fold_right] in *. lia.
Qed.

Lemma dbl_snoc l c : l <> [] -> dbl l -> 2 * last l 0 < c -> dbl (l ++ [c]).
Proof.
  induction l as [|x t IH]; intros Hne Hd Hc; [congruence|].
  destruct t as [|y t'].
  - cbn in *. lia.
  - cbn [dbl] in Hd. destruct Hd as [H1 H2]. cbn [app]. cbn [dbl]. split; [exact H1|].
    apply IH; [discriminate|exact H2|exact Hc].
Qed.

Lemma dbl_lt_last l i : dbl l -> (forall x, In x l -> 0 <= x) -> (S i < length l)%nat -> nth i l 0 < last l 0 \/ (nth i l 0 = 0 /\ 0 <= last l 0).
Proof.
  revert i. induction l as [|x t IH]; intros i Hd Hpos Hi; [cbn in Hi; lia|].
  destruct t as [|y t']; [cbn in Hi; lia|].
  cbn [dbl] in Hd. destruct Hd as [H1 H2].
  change (last (x :: y :: t') 0) with (last (y :: t') 0).
  assert (Hy : y <= last (y :: t') 0).
  { clear -H2 Hpos. assert (Hp : forall z, In z (y :: t') -> 0 <= z) by (intros z Hz; apply Hpos; right; exact Hz).
    clear Hpos. revert y H2 Hp. induction t' as [|z t'' IH2]; intros y H2 Hp; [cbn; lia|].
    cbn [dbl] in H2. destruct H2 as [A B]. change (last (y :: z :: t'') 0) with (last (z :: t'') 0).
    specialize (IH2 z B (fun w Hw => Hp w (or_intror Hw))). pose proof (Hp y (or_introl eq_refl)). lia. }
  pose proof (Hpos x (or_introl eq_refl)) as Hx.
  destruct i as [|i].
  - cbn [nth]. left. lia.
  - cbn [nth]. apply IH; [exact H2|intros z Hz; apply Hpos; right; exact Hz|cbn [length] in *; lia].
Qed.

Definition caps (h : heap) : list Z := map (fun a => len a) h.

(* the memory invariant: doubling capacities, the current buffer is the newest array *)
Definition minv (s : stream) : Prop :=
  dbl (caps (sheap s)) /\ S (sid (sbuf s)) = length (sheap s).

Lemma caps_hset h id a : len a = hcap h id -> caps (hset h id a) = caps h.
Proof.
  unfold caps, hcap, harr. revert id. induction h as [|x t IH]; intros id H; [reflexivity|].
  destruct id; cbn [hset map nth] in *; [rewrite H; reflexivity|]. f_equal. apply IH. exact H.
Qed.

Lemma last_caps h : h <> [] -> last (caps h) 0 = hcap h (length h - 1).
Proof.
  intros Hne. unfold caps, hcap, harr. induction h as [|x t IH]; [congruence|].
  destruct t as [|y t']; [reflexivity|]. specialize (IH ltac:(discriminate)).
  change (last (map (fun a => len a) (x :: y :: t')) 0) with (last (map (fun a => len a) (y :: t')) 0). rewrite IH.
  cbn [length]. replace (S (S (length t')) - 1)%nat with (S (S (length t') - 1)) by lia. reflexivity.
Qed.

(* everything shifted so far has been released: the pool is empty after free and the buffer can be reused *)
Lemma after_free_all data base chain T s c outs :
  kinv data base chain T s c outs -> cfreed c = cst c ->
  ptail (pool_free (spool s) (sfree s)) = 0 /\ sstart s <= ppos (pool_free (spool s) (sfree s)).
Proof.
  intros Kv Hf.
  pose proof (k_prep _ _ _ _ _ _ _ Kv) as k_prep0. pose proof (k_base _ _ _ _ _ _ _ Kv) as k_base0.
  pose proof (k_freed _ _ _ _ _ _ _ Kv) as k_freed0. pose proof (k_ppos _ _ _ _ _ _ _ Kv) as k_ppos0.
  pose proof (k_sfree _ _ _ _ _ _ _ Kv) as k_sfree0. pose proof (k_st _ _ _ _ _ _ _ Kv) as k_st0.
  pose proof (k_start _ _ _ _ _ _ _ Kv) as k_start0.
  destruct (pool_free_prep (spool s) chain (sfree s) k_prep0 ltac:(lia)) as (k & Hk & P' & Bl & Pp & Pp0 & Hstop).
  set (SS := sumz (clens (blocks (spool s)) (firstn k chain))) in *.
  pose proof (sumz_clens_split (blocks (spool s)) chain k) as Hsplit. fold SS in Hsplit.
  assert (Hrest : 0 <= sumz (clens (blocks (spool s)) (skipn k chain))).
  { apply sumz_clens_nonneg. intros j Hj. apply (pr_lens _ _ k_prep0). apply (pr_range _ _ k_prep0). eapply skipn_In_sub. exact Hj. }
  destruct (skipn k chain) as [|i r] eqn:Sk.
  - pose proof (pr_ends _ _ P') as En. cbn in En. destruct En as [Et _]. split; [exact Et|]. cbn in Hsplit. lia.
  - exfalso.
    assert (Hi : slen (bbuf (blk (blocks (spool s)) i)) <= sumz (clens (blocks (spool s)) (i :: r))).
    { unfold sumz, clens. cbn [map fold_right].
      assert (0 <= sumz (clens (blocks (spool s)) r)).
      { apply sumz_clens_nonneg. intros j Hj. apply (pr_lens _ _ k_prep0). apply (pr_range _ _ k_prep0).
        eapply skipn_In_sub. rewrite Sk. right. exact Hj. }
      unfold sumz, clens in *. lia. }
    lia.
Qed.

Lemma read_minv data base chain T s c outs p b s' :
  kinv data base chain T s c outs -> cfreed c = cst c -> serr s = 0 -> sstart s <= p ->
  minv s -> stream_read s p = Some (b, s') -> minv s'.
Proof.
  intros Kv Hf He Hp [Hd Hlast] H.
  destruct (stream_read_shape s p b s' He H) as (h1 & pl1 & nb & a2 & d2 & sch2 & e2 & SW & Hc0 & La2 & Es').
  destruct (after_free_all _ _ _ _ _ _ _ Kv Hf) as [Htail Hppos].
  destruct (kinv_after_free _ _ _ _ _ _ _ Kv) as (chainF & TF & KF).
  pose proof (k_prep _ _ _ _ _ _ _ KF) as PF. cbn [after_free spool] in PF.
  set (c0 := hcap (sheap s) (sid (sbuf s))) in *.
  set (cc := grow c0 (p - sstart s + 1)) in *.
  assert (Hne : sheap s <> []) by (intros E; rewrite E in Hlast; cbn in Hlast; lia).
  assert (Hlc : last (caps (sheap s)) 0 = c0).
  { rewrite last_caps by exact Hne. unfold c0. f_equal. lia. }
  assert (Hpos : forall x, In x (caps (sheap s)) -> 0 <= x).
  { intros x Hx. unfold caps in Hx. apply in_map_iff in Hx. destruct Hx as (a & E & _). subst. apply len_nonneg. }
  assert (Hc0n : 0 <= c0) by (unfold c0, hcap; apply len_nonneg).
  assert (Hge : c0 <= cc) by (unfold cc, grow; destruct (c0 <? 2 * (p - sstart s + 1)) eqn:E; b2p; lia).
  destruct (pool_swap_cases _ _ chainF _ _ _ _ _ PF SW) as [(A1 & A2 & A3 & A4 & A5 & A6)|[(sw & B1 & B2 & B3 & B4 & B5 & B6)|(C1 & C2 & C3 & C4)]].
  - (* in place *)
    subst h1 nb. rewrite Es'. unfold minv. cbn [sheap sbuf sid].
    rewrite caps_hset by exact La2. rewrite hset_length. split; assumption.
  - (* reuse of an older array: impossible, they are all smaller than the current one *)
    exfalso. subst h1.
    pose proof (k_ids _ _ _ _ _ _ _ KF) as [I1 _]. cbn [after_free spool sbuf] in I1.
    pose proof (k_inv _ _ _ _ _ _ _ KF) as IF.
    pose proof (i_pool _ _ _ IF) as Io. cbn [after_free sheap spool] in Io. unfold ids_ok in Io. rewrite Forall_forall in Io.
    set (bsF := blocks (pool_free (spool s) (sfree s))) in *.
    set (id := sid (bbuf (blk bsF sw))) in *.
    assert (Hid : (id < length (sheap s))%nat) by (apply Io; apply nth_In; exact B1).
    assert (Hne2 : id <> sid (sbuf s)) by (apply I1; exact B1).
    assert (Hsm : (S id < length (sheap s))%nat) by lia.
    destruct (dbl_lt_last (caps (sheap s)) id Hd Hpos ltac:(unfold caps; rewrite map_length; exact Hsm)) as [Hlt|[Hz Hl]].
    + rewrite Hlc in Hlt. unfold caps in Hlt. rewrite (nth_indep _ 0 (len (@nil Z))) in Hlt by (rewrite map_length; lia).
      rewrite map_nth in Hlt. fold (harr (sheap s) id) in Hlt. fold (hcap (sheap s) id) in Hlt. lia.
    + (* the older array has capacity 0: then cc <= 0, i.e. cc = c0 = 0, but a read needs room *)
      unfold caps in Hz. rewrite (nth_indep _ 0 (len (@nil Z))) in Hz by (rewrite map_length; lia).
      rewrite map_nth in Hz. fold (harr (sheap s) id) in Hz. fold (hcap (sheap s) id) in Hz.
      assert (cc <= 0) by lia.
      unfold cc, grow in H0. destruct (c0 <? 2 * (p - sstart s + 1)) eqn:E; b2p; lia.
  - (* a fresh array: only when the buffer has to grow, and then it more than doubles *)
    subst h1 nb. rewrite Es'. unfold minv. cbn [sheap sbuf sid].
    rewrite caps_hset by exact La2. rewrite hset_length, app_length. cbn [length]. split; [|lia].
    unfold caps. rewrite map_app. cbn [map]. rewrite len_zeros by exact Hc0. fold (caps (sheap s)).
    apply dbl_snoc.
    + unfold caps. destruct (sheap s); [congruence|discriminate].
    + exact Hd.
    + rewrite Hlc.
      assert (Hgt : c0 < cc).
      { destruct (Z_lt_le_dec c0 cc) as [G|G]; [exact G|]. exfalso. apply C4. cbn [sid slen]. fold c0. lia. }
      unfold cc, grow in *. destruct (c0 <? 2 * (p - sstart s + 1)) eqn:E; b2p; [|lia].
      assert (0 <= c0) by (unfold c0, hcap; apply len_nonneg). lia.
Qed.

Definition freed_all (c : scur) (o : sop) : Prop :=
  match o with
  | SPeek _ | SPeekRune _ => cfreed c = cst c
  | _ => True
  end.

Lemma peek_minv data s c outs i b t :
  K data s c outs -> cfreed c = cst c -> cst c <= cps c + i -> minv s -> stream_peek s i = Some (b, t) -> minv t.
Proof.
  intros (base & chain & T & Kv) Hf G Hm P. unfold stream_peek in P.
  destruct ((0 <=? spos s + i) && (spos s + i <? slen (sbuf s))).
  - destruct (peekz _ _); inversion P; subst; exact Hm.
  - destruct (Z.eq_dec (serr s) 0) as [E0|En].
    + eapply (read_minv data base chain T s c outs); eauto.
      pose proof (k_st _ _ _ _ _ _ _ Kv). pose proof (k_ps _ _ _ _ _ _ _ Kv). lia.
    + unfold stream_read in P. replace (serr s =? 0) with false in P by (symmetry; apply Z.eqb_neq; exact En).
      cbn [negb] in P. inversion P; subst. exact Hm.
Qed.

Lemma minv_step data s c outs o s1 obs u c1 obs' :
  K data s c outs -> minv s -> freed_all c o ->
  sstep s o = Some (s1, obs, u) -> sspec_step c o = Some (c1, obs') -> minv s1.
Proof.
  intros K0 Hm Hf Hi Hs.
  destruct o; cbn [sstep] in Hi; cbn [freed_all] in Hf; cbn [sspec_step] in Hs.
  - destruct (cst c <=? cps c + i) eqn:G; [|discriminate]. b2p.
    destruct (stream_peek s i) as [[b t]|] eqn:P; [|discriminate]. cbn [option_bind] in Hi. inversion Hi; subst.
    eapply peek_minv; eauto.
  - destruct (cst c <=? cps c + i) eqn:G; [|discriminate]. b2p.
    unfold stream_peek_rune in Hi.
    destruct (stream_peek s i) as [[c0 s0]|] eqn:P0; [|discriminate]. cbn [option_bind] in Hi.
    pose proof (peek_minv _ _ _ _ _ _ _ K0 Hf G Hm P0) as M0.
    pose proof (K_peek _ _ _ _ _ _ _ K0 G P0) as K1.
    destruct (c0 <? 192); [inversion Hi; subst; exact M0|].
    destruct (stream_peek s0 (i + 1)) as [[c1' t1]|] eqn:P1; [|discriminate]. cbn [option_bind] in Hi.
    assert (G1 : cst (hwup c (cps c + i + 1)) <= cps (hwup c (cps c + i + 1)) + (i + 1)) by (unfold hwup; cbn; lia).
    pose proof (peek_minv _ _ _ _ _ _ _ K1 Hf G1 M0 P1) as M1.
    pose proof (K_peek _ _ _ _ _ _ _ K1 G1 P1) as K2.
    destruct (c0 <? 224); [inversion Hi; subst; exact M1|].
    destruct (stream_peek t1 (i + 2)) as [[c2 t2]|] eqn:P2; [|discriminate]. cbn [option_bind] in Hi.
    set (cA := hwup (hwup c (cps c + i + 1)) (cps (hwup c (cps c + i + 1)) + (i + 1) + 1)) in *.
    assert (G2 : cst cA <= cps cA + (i + 2)) by (unfold cA, hwup; cbn; lia).
    assert (Hf2 : cfreed cA = cst cA) by (unfold cA, hwup; cbn; exact Hf).
    pose proof (peek_minv _ _ _ _ _ _ _ K2 Hf2 G2 M1 P2) as M2.
    pose proof (K_peek _ _ _ _ _ _ _ K2 G2 P2) as K3.
    destruct (c0 <? 240); [inversion Hi; subst; exact M2|].
    destruct (stream_peek t2 (i + 3)) as [[c3 t3]|] eqn:P3; [|discriminate]. cbn [option_bind] in Hi.
    set (cB := hwup cA (cps cA + (i + 2) + 1)) in *.
    assert (G3 : cst cB <= cps cB + (i + 3)) by (unfold cB, cA, hwup; cbn; lia).
    assert (Hf3 : cfreed cB = cst cB) by (unfold cB, cA, hwup; cbn; exact Hf).
    pose proof (peek_minv _ _ _ _ _ _ _ K3 Hf3 G3 M2 P3) as M3.
    inversion Hi; subst; exact M3.
  - inversion Hi; subst. exact Hm.
  - inversion Hi; subst. exact Hm.
  - inversion Hi; subst. exact Hm.
  - unfold stream_shift in Hi. destruct K0 as (base & chain & T & Kv).
    replace (slen (sbuf s) <? spos s) with false in Hi
      by (symmetry; apply Z.ltb_ge; pose proof (k_ps _ _ _ _ _ _ _ Kv); pose proof (k_b2 _ _ _ _ _ _ _ Kv); pose proof (k_b3 _ _ _ _ _ _ _ Kv); lia).
    cbn [option_bind] in Hi. destruct (stream_lexeme s); [|discriminate]. cbn [option_bind] in Hi.
    inversion Hi; subst. exact Hm.
  - destruct (stream_lexeme s); [|discriminate]. cbn [option_bind] in Hi. inversion Hi; subst. exact Hm.
  - inversion Hi; subst. exact Hm.
  - discriminate.
  - inversion Hi; subst. exact Hm.
  - inversion Hi; subst. exact Hm.
Qed.

Lemma minv_run data ops : forall s c outs s' c' outs',
  K data s c outs -> minv s -> all_steps freed_all c ops ->
  srun2 s c outs ops = Some (s', c', outs') -> minv s'.
Proof.
  induction ops as [|o ops IH]; intros s c outs s' c' outs' Kv Hm Ha H; cbn [srun2] in H.
  - inversion H; subst. exact Hm.
  - destruct (sstep s o) as [[[s1 obs] u]|] eqn:S1; [|discriminate]. cbn [option_bind] in H.
    destruct (sspec_step c o) as [[c1 obs']|] eqn:S2; [|discriminate]. cbn [option_bind fst] in H.
    cbn [all_steps] in Ha. rewrite S2 in Ha. destruct Ha as [Ha1 Ha2].
    eapply IH; [| |exact Ha2|exact H].
    + pose proof (K_step data s c outs o s1 obs u c1 obs' Kv S1 S2) as K1.
      unfold outs_after in K1. destruct u; [|exact K1]. destruct o; exact K1.
    + eapply minv_step; eauto.
Qed.

(* When every shifted token has been freed before the lexer has to refill, the capacities of ALL arrays ever
   allocated (current buffer and pool together) sum to at most twice max(size, 5*(L+1)): bounded by the buffer
   size and the longest token (with its look-ahead), independent of the length of the stream. *)
Theorem memory_bound_proof :
  forall (sch : list event) (size L : Z) (ops : list sop) s c outs,
    0 <= size -> 0 <= L ->
    all_steps (look_ok L) (sc_init (delivered sch)) ops ->
    all_steps freed_all (sc_init (delivered sch)) ops ->
    srun2 (new_stream sch size) (sc_init (delivered sch)) [] ops = Some (s, c, outs) ->
    sumz (caps (sheap s)) <= 2 * Z.max size (5 * (L + 1)).
Proof.
  intros sch size L ops s c outs Hs HL Ha Hf Hrun.
  pose proof (capacity_bound_proof sch size L ops s c outs Hs HL Ha Hrun) as Hcap.
  assert (Hm : minv s).
  { apply (minv_run (delivered sch) ops (new_stream sch size) (sc_init (delivered sch)) [] s c outs (K_init sch size Hs)); [|exact Hf|exact Hrun].
    unfold minv, new_stream. cbn. auto. }
  destruct Hm as [Hd Hlast].
  assert (Hne : caps (sheap s) <> []) by (unfold caps; destruct (sheap s); [cbn in Hlast; lia|discriminate]).
  assert (Hpos : forall x, In x (caps (sheap s)) -> 0 <= x).
  { intros x Hx. unfold caps in Hx. apply in_map_iff in Hx. destruct Hx as (a & E & _). subst. apply len_nonneg. }
  pose proof (dbl_sum _ Hne Hpos Hd) as Hsum.
  assert (Hlast_le : last (caps (sheap s)) 0 <= Z.max size (5 * (L + 1))).
  { rewrite Forall_forall in Hcap.
    assert (Hin : In (last (caps (sheap s)) 0) (caps (sheap s))).
    { clear -Hne. induction (caps (sheap s)) as [|x t IH]; [congruence|]. destruct t; [left; reflexivity|right; apply IH; discriminate]. }
    unfold caps in Hin. apply in_map_iff in Hin. destruct Hin as (a & E & Ia). fold (caps (sheap s)) in E. rewrite <- E. apply Hcap. exact Ia. }
  assert (Hhd : 0 <= hd 0 (caps (sheap s))).
  { destruct (caps (sheap s)) as [|x t]; [congruence|]. cbn. apply Hpos. left. reflexivity. }
  lia.
Qed.

(* non-vacuity: a tokenizer-like history that frees each token at once satisfies both hypotheses *)
Example memory_bound_nonvacuous :
  let ops := [SPeek 0; SPeek 1; SMove 2; SShift; SFree 2; SPeek 0; SPeekRune 0; SMove 1; SShift; SFree 1; SPeek 3; SMove 4; SSkip; SFree 4; SPeek 0] in
  all_steps (look_ok 3) (sc_init (delivered d7_sch)) ops /\
  all_steps freed_all (sc_init (delivered d7_sch)) ops /\
  exists s c outs, srun2 (new_stream d7_sch 2) (sc_init (delivered d7_sch)) [] ops = Some (s, c, outs) /\
                   caps (sheap s) = [2; 8].
Proof.
  cbv zeta. split; [|split].
  - vm_compute. repeat split; discriminate.
  - vm_compute. repeat split; reflexivity.
  - eexists _, _, _. split; vm_compute; reflexivity.
Qed.
