(* Stream/Stable.v — a slice returned by Shift stays unchanged until at least as many bytes have been
   released with Free as had been shifted up to its end (C13). *)
From Verif Require Import Common.Base Common.Tactics Stream.Model Stream.Spec Stream.Lemmas Stream.Proofs Stream.Pool.
From Verif Require Cursor.Model.
From Coq Require Import ZifyBool.

(* where a handed-out slice lives: in the shifted part of the current buffer, or in a block of the chain *)
Definition located (bufid : nat) (start base : Z) (bs : list block) (chain : list nat) (T : Z) (h : handed) : Prop :=
  let u := hu h in
  (uid u = bufid /\ 0 <= uoff u /\ uoff u + ulen u <= start /\ base + uoff u + ulen u = hend h) \/
  (exists k i, nth_error chain k = Some i /\ uid u = sid (bbuf (blk bs i)) /\ 0 <= uoff u /\
               uoff u + ulen u <= slen (bbuf (blk bs i)) /\
               T + sumz (clens bs (firstn k chain)) + uoff u + ulen u = hend h).

Definition ids_distinct (bufid : nat) (bs : list block) : Prop :=
  (forall i, (i < length bs)%nat -> sid (bbuf (blk bs i)) <> bufid) /\
  (forall i j, (i < length bs)%nat -> (j < length bs)%nat -> i <> j -> sid (bbuf (blk bs i)) <> sid (bbuf (blk bs j))).

Record kinv (data : list Z) (base : Z) (chain : list nat) (T : Z) (s : stream) (c : scur) (outs : list handed) : Prop := mkK {
  k_inv : inv data base s;
  k_dat : cdat c = data;
  k_st : cst c = base + sstart s;
  k_ps : cps c = base + spos s;
  k_pv : cprev c = base + sprev s;
  k_start : 0 <= sstart s;
  k_b1 : cst c <= cps c;
  k_b2 : cps c <= chw c;
  k_b3 : chw c <= base + slen (sbuf s);
  k_prep : prep (spool s) chain;
  k_base : base = T + sumz (clens (blocks (spool s)) chain);
  k_freed : cfreed c = T + ppos (spool s) + sfree s;
  k_ppos : 0 <= ppos (spool s);
  k_sfree : 0 <= sfree s;
  k_ids : ids_distinct (sid (sbuf s)) (blocks (spool s));
  k_outs : forall h, In h outs -> hshift h = true -> cfreed c < hend h -> 0 < ulen (hu h) ->
             located (sid (sbuf s)) (sstart s) base (blocks (spool s)) chain T h /\
             uslice_bytes (sheap s) (hu h) = hbytes h;
  k_empty : forall h, In h outs -> ulen (hu h) <= 0 -> hbytes h = []
}.

Definition K (data : list Z) (s : stream) (c : scur) (outs : list handed) : Prop :=
  exists base chain T, kinv data base chain T s c outs.

(* changes that leave heap, pool and buffer alone *)
Lemma kinv_update data base chain T s c outs s1 c1 :
  kinv data base chain T s c outs ->
  sheap s1 = sheap s -> ssch s1 = ssch s -> serr s1 = serr s -> spool s1 = spool s -> sbuf s1 = sbuf s ->
  sstart s <= sstart s1 -> cdat c1 = cdat c ->
  cst c1 = base + sstart s1 -> cps c1 = base + spos s1 -> cprev c1 = base + sprev s1 -> cst c1 <= cps c1 -> cps c1 <= chw c1 ->
  chw c1 <= base + slen (sbuf s) ->
  cfreed c1 = T + ppos (spool s) + sfree s1 -> 0 <= sfree s1 -> cfreed c <= cfreed c1 ->
  kinv data base chain T s1 c1 outs.
Proof.
  intros Kv E1 E2 E3 E4 E5 Hst Hd H1 H2 Hpv H3 H4 H5 H6 H7 H8. destruct Kv.
  constructor; rewrite ?E1, ?E4, ?E5; try assumption; try lia.
  - eapply inv_ext; [exact k_inv0|..]; assumption.
  - congruence.
  - intros h Hin Hs Hlt Hlen. destruct (k_outs0 h Hin Hs ltac:(lia) Hlen) as [Hloc Hb]. split; [|exact Hb].
    destruct Hloc as [(A1 & A2 & A3 & A4)|Hb2]; [left; repeat split; try assumption; lia|right; exact Hb2].
Qed.

Lemma kinv_add data base chain T s c outs h0 :
  kinv data base chain T s c outs ->
  (hshift h0 = true -> cfreed c < hend h0 -> 0 < ulen (hu h0) ->
     located (sid (sbuf s)) (sstart s) base (blocks (spool s)) chain T h0 /\ uslice_bytes (sheap s) (hu h0) = hbytes h0) ->
  (ulen (hu h0) <= 0 -> hbytes h0 = []) ->
  kinv data base chain T s c (outs ++ [h0]).
Proof.
  intros Kv H0 H1. destruct Kv. constructor; try assumption.
  - intros h Hin. apply in_app_or in Hin. destruct Hin as [Hin|[E|[]]]; [apply k_outs0; exact Hin|subst h; exact H0].
  - intros h Hin. apply in_app_or in Hin. destruct Hin as [Hin|[E|[]]]; [apply k_empty0; exact Hin|subst h; exact H1].
Qed.

Lemma uslice_bytes_empty h u : ulen u <= 0 -> uslice_bytes h u = [].
Proof.
  intros H. unfold uslice_bytes, slice, firstz. replace (Z.to_nat (uoff u + ulen u - uoff u)) with O by lia. reflexivity.
Qed.

(* ---- the refill ------------------------------------------------------------------------------- *)
(* what stream_read did, as data *)
Lemma stream_read_inversion s p b s' :
  serr s = 0 -> stream_read s p = Some (b, s') ->
  exists c h1 pl1 nb a2 d2 sch2 e2,
    pool_swap (sheap s) (pool_free (spool s) (sfree s)) (mkSl (sid (sbuf s)) (sstart s)) c = (h1, pl1, nb) /\
    0 <= c /\
    s' = mkStream (hset h1 (sid nb) a2) sch2 e2 pl1 (mkSl (sid nb) d2) 0 (spos s - sstart s) (sprev s - sstart s) 0.
Proof.
  intros He H. unfold stream_read in H. rewrite He in H. cbn [Z.eqb negb] in H.
  match type of H with (if negb ?x then _ else _) = _ => destruct x eqn:S1 end; cbn [negb] in H; [|discriminate].
  match type of H with context [pool_swap ?a ?b ?c ?d] => destruct (pool_swap a b c d) as [[h1 pl1] nb] eqn:SW end.
  match type of H with (if ?x then _ else _) = _ => destruct x eqn:S2 end; [discriminate|].
  match type of H with (_ <- ?f ;; _) = _ => destruct f as [[[[a2 d2] sch2] e2]|] eqn:F end; [|discriminate].
  cbn [option_bind] in H.
  eexists _, h1, pl1, nb, a2, d2, sch2, e2. split; [exact SW|]. split.
  - assert (0 <= hcap (sheap s) (sid (sbuf s))) by (unfold hcap; apply len_nonneg).
    destruct (hcap (sheap s) (sid (sbuf s)) <? 2 * (p - sstart s + 1)) eqn:E; b2p; lia.
  - destruct (d2 <=? p - sstart s); [inversion H; reflexivity|].
    destruct (peekz a2 (p - sstart s)); inversion H; reflexivity.
Qed.

(* freeing: the intermediate state after pool.free(z.free); z.free = 0 *)
Definition after_free (s : stream) : stream :=
  mkStream (sheap s) (ssch s) (serr s) (pool_free (spool s) (sfree s)) (sbuf s) (sstart s) (spos s) (sprev s) 0.

Lemma sumz_clens_split bs chain k :
  sumz (clens bs chain) = sumz (clens bs (firstn k chain)) + sumz (clens bs (skipn k chain)).
Proof. rewrite <- (firstn_skipn k chain) at 1. unfold clens. rewrite map_app, sumz_app. reflexivity. Qed.

Lemma ids_ok_deact h bs is : NoDup is -> (forall j, In j is -> (j < length bs)%nat) -> ids_ok h bs -> ids_ok h (deact bs is).
Proof.
  intros ND R H. unfold ids_ok in *. rewrite Forall_forall in *. intros b Hb.
  apply In_nth with (d := dblk) in Hb. destruct Hb as (i & Hi & E). rewrite deact_length in Hi.
  fold (blk (deact bs is) i) in E. subst b. rewrite deact_bbuf by assumption. apply H. apply nth_In. exact Hi.
Qed.

Lemma nth_error_skipn_shift {A} (l : list A) k j : nth_error (skipn k l) j = nth_error l (k + j).
Proof. apply nth_error_skipn'. Qed.

Lemma firstn_skipn_sum bs chain k j :
  sumz (clens bs (firstn (k + j) chain)) = sumz (clens bs (firstn k chain)) + sumz (clens bs (firstn j (skipn k chain))).
Proof.
  rewrite firstn_plus. unfold clens. rewrite map_app, sumz_app. reflexivity.
Qed.

Lemma sumz_clens_nonneg bs chain : (forall i, In i chain -> 0 <= slen (bbuf (blk bs i))) -> 0 <= sumz (clens bs chain).
Proof.
  induction chain as [|i r IH]; intros H; [cbn; lia|]. unfold sumz, clens in *. cbn [map fold_right].
  pose proof (H i (or_introl eq_refl)). specialize (IH (fun j Hj => H j (or_intror Hj))). lia.
Qed.

Lemma kinv_after_free data base chain T s c outs :
  kinv data base chain T s c outs ->
  exists chain' T', kinv data base chain' T' (after_free s) c outs.
Proof.
  intros Kv. destruct Kv.
  destruct (pool_free_prep (spool s) chain (sfree s) k_prep0 ltac:(lia)) as (k & Hk & P' & Bl & Pp & Pp0 & _).
  set (SS := sumz (clens (blocks (spool s)) (firstn k chain))) in *.
  assert (NDf : NoDup (firstn k chain)).
  { pose proof (pr_nodup _ _ k_prep0) as ND. rewrite <- (firstn_skipn k chain) in ND. apply NoDup_app_remove_r in ND. exact ND. }
  assert (Rf : forall j, In j (firstn k chain) -> (j < length (blocks (spool s)))%nat).
  { intros j Hj. apply (pr_range _ _ k_prep0). eapply firstn_In_sub. exact Hj. }
  assert (Hbb : forall i, bbuf (blk (blocks (pool_free (spool s) (sfree s))) i) = bbuf (blk (blocks (spool s)) i)).
  { intros i. rewrite Bl. apply deact_bbuf; assumption. }
  assert (Hcl : forall l, clens (blocks (pool_free (spool s) (sfree s))) l = clens (blocks (spool s)) l).
  { intros l. apply clens_ext. intros i _. apply Hbb. }
  assert (Hlen : length (blocks (pool_free (spool s) (sfree s))) = length (blocks (spool s))) by (rewrite Bl; apply deact_length).
  exists (skipn k chain), (T + SS). unfold after_free.
  constructor; cbn [sheap ssch serr spool sbuf sstart spos sprev sfree].
  - destruct k_inv0. constructor; cbn [sheap ssch serr spool sbuf]; try assumption.
    rewrite Bl. apply ids_ok_deact; assumption.
  - assumption.
  - assumption.
  - assumption.
  - assumption.
  - assumption.
  - assumption.
  - assumption.
  - assumption.
  - exact P'.
  - rewrite Hcl. rewrite k_base0. rewrite (sumz_clens_split _ chain k). fold SS. lia.
  - rewrite Pp. fold SS. lia.
  - exact Pp0.
  - lia.
  - destruct k_ids0 as [I1 I2]. split.
    + intros i Hi. rewrite Hlen in Hi. rewrite Hbb. apply I1. exact Hi.
    + intros i j Hi Hj Hij. rewrite Hlen in Hi, Hj. rewrite !Hbb. apply I2; assumption.
  - intros h Hin Hs Hlt Hl. destruct (k_outs0 h Hin Hs Hlt Hl) as [Hloc Hb]. split; [|exact Hb].
    destruct Hloc as [Ha|(k0 & i & Hn & U1 & U2 & U3 & U4)]; [left; exact Ha|right].
    (* the block is not among the freed ones: otherwise everything up to the slice's end was freed *)
    destruct (Nat.lt_ge_cases k0 k) as [Lt|Ge].
    + exfalso.
      assert (Hsub : sumz (clens (blocks (spool s)) (firstn (S k0) chain)) <= SS).
      { unfold SS. replace k with (S k0 + (k - S k0))%nat by lia. rewrite firstn_skipn_sum.
        assert (0 <= sumz (clens (blocks (spool s)) (firstn (k - S k0) (skipn (S k0) chain)))).
        { apply sumz_clens_nonneg. intros j Hj. apply (pr_lens _ _ k_prep0). apply (pr_range _ _ k_prep0).
          eapply skipn_In_sub. eapply firstn_In_sub. exact Hj. }
        lia. }
      assert (Hone : sumz (clens (blocks (spool s)) (firstn (S k0) chain)) =
                     sumz (clens (blocks (spool s)) (firstn k0 chain)) + slen (bbuf (blk (blocks (spool s)) i))).
      { replace (S k0) with (k0 + 1)%nat by lia. rewrite firstn_skipn_sum. f_equal.
        assert (Hsk : skipn k0 chain = i :: skipn (S k0) chain).
        { clear -Hn. revert chain Hn. induction k0 as [|k0 IH]; intros chain Hn; destruct chain as [|x t]; try discriminate.
          - cbn in Hn. inversion Hn. reflexivity.
          - cbn in Hn. cbn [skipn]. apply IH. exact Hn. }
        rewrite Hsk. cbn. unfold sumz. cbn. lia. }
      lia.
    + exists (k0 - k)%nat, i. rewrite nth_error_skipn_shift. replace (k + (k0 - k))%nat with k0 by lia.
      rewrite Hbb, Hcl. repeat split; try assumption.
      replace k0 with (k + (k0 - k))%nat in U4 at 1 by lia. rewrite firstn_skipn_sum in U4. fold SS in U4. lia.
  - assumption.
Qed.

Lemma prep_ppos p chain x : prep p chain -> prep (mkPool (blocks p) (phead p) (ptail p) x) chain.
Proof. intros P. destruct P. constructor; assumption. Qed.

Lemma blk_app_l bs x i : (i < length bs)%nat -> blk (bs ++ [x]) i = blk bs i.
Proof. intros H. unfold blk. apply app_nth1. exact H. Qed.

Lemma blk_app_new bs x : blk (bs ++ [x]) (length bs) = x.
Proof. unfold blk. rewrite app_nth2 by lia. rewrite Nat.sub_diag. reflexivity. Qed.

Lemma nth_error_app_l {A} (l : list A) x k v : nth_error l k = Some v -> nth_error (l ++ [x]) k = Some v.
Proof. intros H. rewrite nth_error_app1; [exact H|]. apply nth_error_Some. congruence. Qed.

Lemma firstn_app_le {A} (l : list A) x k : (k <= length l)%nat -> firstn k (l ++ [x]) = firstn k l.
Proof. intros H. rewrite firstn_app. replace (k - length l)%nat with O by lia. cbn. apply app_nil_r. Qed.

Lemma uslice_bytes_hset_other h X a u : uid u <> X -> uslice_bytes (hset h X a) u = uslice_bytes h u.
Proof. intros H. unfold uslice_bytes. rewrite harr_hset_other by congruence. reflexivity. Qed.

(* the old buffer goes into slot sw of the (possibly extended) block list bsX; the new buffer is array X *)
Lemma kinv_put data base chainF TF sF c c1 outs bsX sw h1 a2 d2 sch2 e2 sprev' :
  kinv data base chainF TF sF c outs -> sfree sF = 0 ->
  (length (blocks (spool sF)) <= length bsX)%nat ->
  (forall i, (i < length (blocks (spool sF)))%nat -> blk bsX i = blk (blocks (spool sF)) i) ->
  (sw < length bsX)%nat -> ~ In sw chainF ->
  (forall i, (i < length bsX)%nat -> i <> sw -> (i < length (blocks (spool sF)))%nat) ->
  let X := sid (bbuf (blk bsX sw)) in
  X <> sid (sbuf sF) ->
  (forall i, (i < length bsX)%nat -> i <> sw -> sid (bbuf (blk bsX i)) <> X) ->
  (forall id, id <> X -> harr h1 id = harr (sheap sF) id \/ (length (sheap sF) <= id)%nat) ->
  (forall id, (id < length (sheap sF))%nat -> harr h1 id = harr (sheap sF) id) ->
  let s' := mkStream (hset h1 X a2) sch2 e2 (put_pool (spool sF) bsX sw (mkSl (sid (sbuf sF)) (sstart sF)))
                     (mkSl X d2) 0 (spos sF - sstart sF) sprev' 0 in
  inv data (base + sstart sF) s' ->
  cdat c1 = cdat c -> cst c1 = cst c -> cps c1 = cps c -> cfreed c1 = cfreed c ->
  cprev c1 = base + sstart sF + sprev' ->
  cps c1 <= chw c1 -> chw c1 <= base + sstart sF + d2 ->
  kinv data (base + sstart sF) (chainF ++ [sw]) TF s' c1 outs.
Proof.
  intros Kv Hsf Hlen Hsame Hsw Hni Hidx X HX1 HX2 Hh1 Hh1b s' Inv' Hd Hst Hps Hfr Hpv Hb2 Hb3.
  destruct Kv.
  set (old := mkSl (sid (sbuf sF)) (sstart sF)).
  set (bsF := blocks (spool sF)) in *.
  destruct k_prep0 as [ND Rg Act Lk En Ln].
  destruct (put_pool_prep (spool sF) bsX chainF sw old ND) as (P1 & L1 & Bo & Bs & Pp).
  { intros i Hi. specialize (Rg i Hi). fold bsF in Rg. lia. }
  { intros i Hi Hne. rewrite Hsame by (apply Hidx; assumption). apply Act. apply Hidx; assumption. }
  { apply (linked_ext bsF); [|exact Lk]. intros i Hi. apply Hsame. apply Rg. exact Hi. }
  { exact En. }
  { exact Hsw. }
  { exact Hni. }
  { intros i Hi Hne. rewrite Hsame by (apply Hidx; assumption). apply Ln. apply Hidx; assumption. }
  { cbn. exact k_start0. }
  remember (put_pool (spool sF) bsX sw old) as p1 eqn:Ep1.
  assert (Hs' : s' = mkStream (hset h1 X a2) sch2 e2 p1 (mkSl X d2) 0 (spos sF - sstart sF) sprev' 0) by (subst p1; reflexivity).
  clearbody s'. subst s'.
  assert (Hcl : clens (blocks p1) chainF = clens bsF chainF).
  { apply clens_ext. intros i Hi. rewrite Bo by (intros E; subst; contradiction). rewrite Hsame by (apply Rg; exact Hi). reflexivity. }
  constructor; cbn [sheap ssch serr spool sbuf sstart spos sprev sfree sid slen].
  - exact Inv'.
  - congruence.
  - lia.
  - lia.
  - exact Hpv.
  - lia.
  - lia.
  - exact Hb2.
  - lia.
  - exact P1.
  - unfold clens. rewrite map_app, sumz_app. fold (clens (blocks p1) chainF). rewrite Hcl.
    cbn [map sumz fold_right]. rewrite Bs. unfold old. cbn [slen]. lia.
  - rewrite Pp. lia.
  - rewrite Pp. exact k_ppos0.
  - lia.
  - split.
    + intros i Hi. rewrite L1 in Hi. destruct (Nat.eq_dec i sw) as [E|E].
      * subst i. rewrite Bs. unfold old. cbn [sid]. congruence.
      * rewrite Bo by exact E. apply HX2; assumption.
    + intros i j Hi Hj Hij. rewrite L1 in Hi, Hj. destruct k_ids0 as [I1 I2].
      destruct (Nat.eq_dec i sw) as [Ei|Ei]; destruct (Nat.eq_dec j sw) as [Ej|Ej]; try (subst; congruence).
      * subst i. rewrite Bs, (Bo j Ej). unfold old. cbn [sid]. rewrite Hsame by (apply Hidx; assumption).
        intros E. apply (I1 j (Hidx j Hj Ej)). symmetry. exact E.
      * subst j. rewrite Bs, (Bo i Ei). unfold old. cbn [sid]. rewrite Hsame by (apply Hidx; assumption).
        apply (I1 i (Hidx i Hi Ei)).
      * rewrite (Bo i Ei), (Bo j Ej). rewrite !Hsame by (apply Hidx; assumption). apply I2; try (apply Hidx; assumption). exact Hij.
  - intros h Hin Hs Hlt Hl. rewrite Hfr in Hlt. destruct (k_outs0 h Hin Hs Hlt Hl) as [Hloc Hb].
    assert (Huid : uid (hu h) <> X /\ (uid (hu h) < length (sheap sF))%nat).
    { destruct Hloc as [(A1 & _)|(k0 & i & Hn & U1 & _)].
      - rewrite A1. split; [congruence|]. apply (i_id _ _ _ k_inv0).
      - assert (Hi : In i chainF) by (eapply nth_error_In; exact Hn).
        pose proof (Rg i Hi) as Hr. fold bsF in Hr. rewrite U1. split.
        + rewrite <- (Hsame i Hr). apply HX2; [lia|]. intros E; subst; contradiction.
        + pose proof (i_pool _ _ _ k_inv0) as Io. unfold ids_ok in Io. rewrite Forall_forall in Io.
          apply Io. apply nth_In. exact Hr. }
    destruct Huid as [Hu1 Hu2]. split.
    + right. destruct Hloc as [(A1 & A2 & A3 & A4)|(k0 & i & Hn & U1 & U2 & U3 & U4)].
      * exists (length chainF), sw. rewrite nth_error_app2 by lia. rewrite Nat.sub_diag. cbn [nth_error].
        rewrite Bs. unfold old. cbn [sid slen]. rewrite firstn_app_le by lia. rewrite firstn_all. rewrite Hcl.
        repeat split; try assumption; lia.
      * assert (Hi : In i chainF) by (eapply nth_error_In; exact Hn).
        assert (Hk0 : (k0 < length chainF)%nat) by (apply nth_error_Some; congruence).
        exists k0, i. rewrite (nth_error_app_l _ _ _ _ Hn). rewrite Bo by (intros E; subst; contradiction).
        rewrite Hsame by (apply Rg; exact Hi). rewrite firstn_app_le by lia.
        assert (Hcl2 : clens (blocks p1) (firstn k0 chainF) = clens bsF (firstn k0 chainF)).
        { apply clens_ext. intros j Hj. apply firstn_In_sub in Hj. rewrite Bo by (intros E; subst; contradiction). rewrite Hsame by (apply Rg; exact Hj). reflexivity. }
        rewrite Hcl2. repeat split; assumption.
    + rewrite uslice_bytes_hset_other by exact Hu1. unfold uslice_bytes. rewrite Hh1b by exact Hu2. exact Hb.
  - assumption.
Qed.

Lemma kinv_read data base chain T s c outs p b s' c1 :
  kinv data base chain T s c outs -> serr s = 0 -> slen (sbuf s) <= p ->
  stream_read s p = Some (b, s') ->
  cdat c1 = cdat c -> cst c1 = cst c -> cps c1 = cps c -> cfreed c1 = cfreed c -> cprev c1 = cprev c -> cps c1 <= chw c1 ->
  chw c1 <= Z.max (chw c) (Z.min (base + p + 1) (len data)) ->
  exists chain' T', kinv data (base + sstart s) chain' T' s' c1 outs.
Proof.
  intros Kv He Hp H Hd Hst Hps Hfr Hpv Hb2 Hb3.
  assert (Hss : 0 <= sstart s <= slen (sbuf s)).
  { destruct Kv. lia. }
  destruct (read_ok data base s p (k_inv _ _ _ _ _ _ _ Kv) He Hss Hp) as (s'' & ER & I' & N1 & N2 & N3 & N4 & N5).
  rewrite H in ER. inversion ER; subst s''. clear ER.
  destruct (kinv_after_free _ _ _ _ _ _ _ Kv) as (chainF & TF & KF).
  destruct (stream_read_inversion s p b s' He H) as (cc & h1 & pl1 & nb & a2 & d2 & sch2 & e2 & SW & Hc & Es').
  assert (Hd2 : slen (sbuf s') = d2) by (rewrite Es'; reflexivity).
  assert (Hchw : chw c1 <= base + sstart s + d2).
  { rewrite <- Hd2. destruct Kv. lia. }
  change (pool_free (spool s) (sfree s)) with (spool (after_free s)) in SW.
  change (sheap s) with (sheap (after_free s)) in SW.
  pose proof (k_prep _ _ _ _ _ _ _ KF) as PF.
  destruct (pool_swap_cases _ _ chainF _ _ _ _ _ PF SW) as [(A1 & A2 & A3 & A4 & A5 & A6)|[(sw & B1 & B2 & B3 & B4 & B5 & B6)|(C1 & C2 & C3 & _)]].
  - (* in place: everything shifted so far had been released *)
    subst chainF h1 pl1 nb. exists [], (base + sstart s).
    destruct KF. cbn [after_free sheap ssch serr spool sbuf sstart spos sprev sfree sid slen] in *.
    rewrite Es' in I' |- *.
    constructor; cbn [sheap ssch serr spool sbuf sstart spos sprev sfree sid slen blocks ppos].
    + exact I'.
    + congruence.
    + lia.
    + destruct Kv. lia.
    + destruct Kv. lia.
    + lia.
    + destruct Kv. lia.
    + exact Hb2.
    + lia.
    + apply prep_ppos. exact k_prep0.
    + cbn. lia.
    + cbn in k_base0. lia.
    + lia.
    + lia.
    + exact k_ids0.
    + intros h Hin Hs Hlt Hl. exfalso. rewrite Hfr in Hlt.
      destruct (k_outs0 h Hin Hs Hlt Hl) as [[(U1 & U2 & U3 & U4)|(k0 & i & Hn & _)] _].
      * cbn in k_base0. lia.
      * destruct k0; discriminate.
    + assumption.
  - (* an inactive block's array is reused *)
    subst h1 pl1 nb. exists (chainF ++ [sw]), TF. rewrite Es'.
    apply (kinv_put data base chainF TF (after_free s) c c1 outs (blocks (spool (after_free s))) sw (sheap s) a2 d2 sch2 e2 (sprev s - sstart s) KF);
      try reflexivity; try assumption; try lia.
    + destruct (k_ids _ _ _ _ _ _ _ KF) as [I1 _]. apply I1. exact B1.
    + intros i Hi Hne. destruct (k_ids _ _ _ _ _ _ _ KF) as [_ I2]. apply I2; assumption.
    + intros id _. left. reflexivity.
    + rewrite Es' in I'. exact I'.
    + destruct Kv. cbn [after_free sstart]. lia.
  - (* a fresh array *)
    subst h1 pl1 nb. change (sheap (after_free s)) with (sheap s) in *.
    exists (chainF ++ [length (blocks (spool (after_free s)))]), TF.
    set (bsF := blocks (spool (after_free s))) in *.
    set (bsE := bsF ++ [mkBlock (mkSl (length (sheap s)) 0) 0 true]) in *.
    assert (HX : sid (bbuf (blk bsE (length bsF))) = length (sheap s)).
    { unfold bsE. rewrite blk_app_new. reflexivity. }
    rewrite Es'. rewrite <- HX.
    pose proof (k_inv _ _ _ _ _ _ _ KF) as IF.
    assert (Hids : forall i, (i < length bsF)%nat -> (sid (bbuf (blk bsF i)) < length (sheap s))%nat).
    { intros i Hi. pose proof (i_pool _ _ _ IF) as Io. unfold ids_ok in Io. rewrite Forall_forall in Io. apply Io. apply nth_In. exact Hi. }
    apply (kinv_put data base chainF TF (after_free s) c c1 outs bsE (length bsF) (sheap s ++ [zeros cc]) a2 d2 sch2 e2 (sprev s - sstart s) KF);
      try reflexivity; try assumption; try lia;
      change (blocks (spool (after_free s))) with bsF; change (sheap (after_free s)) with (sheap s).
    + unfold bsE. rewrite app_length. cbn. lia.
    + intros i Hi. unfold bsE. apply blk_app_l. exact Hi.
    + unfold bsE. rewrite app_length. cbn. lia.
    + intros Hin. pose proof (pr_range _ _ PF _ Hin) as R. fold bsF in R. lia.
    + intros i Hi Hne. unfold bsE in Hi. rewrite app_length in Hi. cbn in Hi. lia.
    + rewrite HX. pose proof (i_id _ _ _ IF) as Hid. change (sheap (after_free s)) with (sheap s) in Hid. change (sbuf (after_free s)) with (sbuf s) in *. lia.
    + intros i Hi Hne. rewrite HX. unfold bsE in Hi. rewrite app_length in Hi. cbn in Hi.
      assert (Hi' : (i < length bsF)%nat) by lia. unfold bsE. rewrite blk_app_l by exact Hi'. specialize (Hids i Hi'). lia.
    + intros id _. destruct (Nat.lt_ge_cases id (length (sheap s))) as [L|G]; [left; apply harr_app_l; exact L|right; exact G].
    + intros id Hid. apply harr_app_l. exact Hid.
    + rewrite HX. rewrite Es' in I'. exact I'.
    + destruct Kv. cbn [after_free sstart]. lia.
Qed.

Definition is_shift (o : sop) : bool := match o with SShift => true | _ => false end.

Definition outs_after (outs : list handed) (s1 : stream) (c : scur) (o : sop) (u : option uslice) : list handed :=
  match u with
  | Some x => outs ++ [mkH x (uslice_bytes (sheap s1) x) (cps c) (is_shift o)]
  | None => outs
  end.

Lemma kinv_Rel data base chain T s c outs : kinv data base chain T s c outs -> Rel data s c.
Proof. intros Kv. destruct Kv. apply (Rel_intro data s c base); assumption. Qed.

(* one Peek (possibly a refill) keeps the invariant and raises the high-water mark *)
Lemma K_peek data s c outs i b t :
  K data s c outs -> cst c <= cps c + i -> stream_peek s i = Some (b, t) ->
  K data t (hwup c (cps c + i + 1)) outs.
Proof.
  intros (base & chain & T & Kv) G P.
  pose proof Kv as Kv0. destruct Kv0.
  pose proof (i_len _ _ _ k_inv0) as Ilen. pose proof (i_in _ _ _ k_inv0) as Iin.
  unfold stream_peek in P.
  destruct ((0 <=? spos s + i) && (spos s + i <? slen (sbuf s))) eqn:InB.
  - b2p. destruct (peekz _ _); [|discriminate]. inversion P; subst t.
    exists base, chain, T. apply (kinv_update _ _ _ _ s c); try reflexivity; try assumption; unfold hwup; cbn [cdat cst cps chw cprev cfreed]; try lia.
  - assert (Hp : slen (sbuf s) <= spos s + i) by (apply andb_false_iff in InB; destruct InB; b2p; lia).
    destruct (Z.eq_dec (serr s) 0) as [E0|En].
    + destruct (kinv_read data base chain T s c outs (spos s + i) b t (hwup c (cps c + i + 1)) Kv E0 Hp P)
        as (chain' & T' & K'); unfold hwup; cbn [cdat cst cps chw cprev cfreed]; try reflexivity; try lia.
      { rewrite k_dat0. lia. }
      exists (base + sstart s), chain', T'. exact K'.
    + unfold stream_read in P. replace (serr s =? 0) with false in P by (symmetry; apply Z.eqb_neq; exact En).
      cbn [negb] in P. inversion P; subst t.
      pose proof (i_end _ _ _ k_inv0 En) as Hend.
      exists base, chain, T. apply (kinv_update _ _ _ _ s c); try reflexivity; try assumption; unfold hwup; cbn [cdat cst cps chw cprev cfreed]; try lia.
      rewrite k_dat0. lia.
Qed.

Lemma hwup_fields c q : cst (hwup c q) = cst c /\ cps (hwup c q) = cps c.
Proof. split; reflexivity. Qed.

(* PeekRune: as many Peeks as the length it reports *)
Lemma K_peekrune data s c outs i rn m s1 :
  K data s c outs -> cst c <= cps c + i -> stream_peek_rune s i = Some (rn, m, s1) ->
  K data s1 (hwup c (cps c + i + m)) outs.
Proof.
  intros K0 G H. unfold stream_peek_rune in H.
  destruct (stream_peek s i) as [[c0 s0]|] eqn:P0; [|discriminate]. cbn [option_bind] in H.
  pose proof (K_peek _ _ _ _ _ _ _ K0 G P0) as K1.
  destruct (c0 <? 192); [inversion H; subst; exact K1|].
  destruct (stream_peek s0 (i + 1)) as [[c1 t1]|] eqn:P1; [|discriminate]. cbn [option_bind] in H.
  assert (G1 : cst (hwup c (cps c + i + 1)) <= cps (hwup c (cps c + i + 1)) + (i + 1)) by (unfold hwup; cbn; lia).
  pose proof (K_peek _ _ _ _ _ _ _ K1 G1 P1) as K2.
  rewrite hwup_hwup in K2 by (unfold hwup; cbn; lia).
  replace (cps (hwup c (cps c + i + 1)) + (i + 1) + 1) with (cps c + i + 2) in K2 by (unfold hwup; cbn; lia).
  destruct (c0 <? 224); [inversion H; subst; exact K2|].
  destruct (stream_peek t1 (i + 2)) as [[c2 t2]|] eqn:P2; [|discriminate]. cbn [option_bind] in H.
  assert (G2 : cst (hwup c (cps c + i + 2)) <= cps (hwup c (cps c + i + 2)) + (i + 2)) by (unfold hwup; cbn; lia).
  pose proof (K_peek _ _ _ _ _ _ _ K2 G2 P2) as K3.
  rewrite hwup_hwup in K3 by (unfold hwup; cbn; lia).
  replace (cps (hwup c (cps c + i + 2)) + (i + 2) + 1) with (cps c + i + 3) in K3 by (unfold hwup; cbn; lia).
  destruct (c0 <? 240); [inversion H; subst; exact K3|].
  destruct (stream_peek t2 (i + 3)) as [[c3 t3]|] eqn:P3; [|discriminate]. cbn [option_bind] in H.
  assert (G3 : cst (hwup c (cps c + i + 3)) <= cps (hwup c (cps c + i + 3)) + (i + 3)) by (unfold hwup; cbn; lia).
  pose proof (K_peek _ _ _ _ _ _ _ K3 G3 P3) as K4.
  rewrite hwup_hwup in K4 by (unfold hwup; cbn; lia).
  replace (cps (hwup c (cps c + i + 3)) + (i + 3) + 1) with (cps c + i + 4) in K4 by (unfold hwup; cbn; lia).
  inversion H; subst; exact K4.
Qed.

Lemma K_step data s c outs o s1 obs u c1 obs' :
  K data s c outs -> sstep s o = Some (s1, obs, u) -> sspec_step c o = Some (c1, obs') ->
  K data s1 c1 (outs_after outs s1 c o u).
Proof.
  intros K0 Hi Hs. pose proof K0 as (base & chain & T & Kv).
  pose proof Kv as Kv0. destruct Kv0.
  pose proof (i_len _ _ _ k_inv0) as Ilen. pose proof (i_in _ _ _ k_inv0) as Iin.
  destruct o; cbn [sspec_step] in Hs; try discriminate; cbn [sstep] in Hi.
  - (* Peek *)
    destruct (cst c <=? cps c + i) eqn:G; [|discriminate]. b2p. inversion Hs; subst c1 obs'. clear Hs.
    destruct (stream_peek s i) as [[b t]|] eqn:P; [|discriminate]. cbn [option_bind fst snd] in Hi.
    inversion Hi; subst s1 obs u. clear Hi. cbn [outs_after].
    exact (K_peek _ _ _ _ _ _ _ K0 G P).
  - (* PeekRune *)
    destruct (stream_peek_rune s i) as [[[rn m] t]|] eqn:P; [|discriminate]. cbn [option_bind] in Hi.
    inversion Hi; subst s1 obs u. clear Hi. cbn [outs_after].
    (* the specification's length is the implementation's *)
    destruct (peekrune_refines data s c i c1 obs' (kinv_Rel _ _ _ _ _ _ _ Kv)) as (r & k & t' & E & Eo & _).
    { cbn [sspec_step]. exact Hs. }
    rewrite P in E. inversion E; subst r k t'. clear E.
    destruct (cst c <=? cps c + i) eqn:G; [|discriminate]. b2p.
    assert (Hc1 : c1 = hwup c (cps c + i + m)).
    { destruct (len (cdat c) <=? cps c + i).
      - inversion Hs as [[Hc Ho]]. rewrite Eo in Ho. inversion Ho; subst m. reflexivity.
      - destruct (Cursor.Model.utf8_decode _) as [[r k]|]; [|discriminate]. inversion Hs as [[Hc Ho]]. rewrite Eo in Ho. inversion Ho; subst. reflexivity. }
    rewrite Hc1. exact (K_peekrune _ _ _ _ _ _ _ _ K0 G P).
  - (* Move *)
    destruct ((cst c <=? cps c + n) && (cps c + n <=? chw c)) eqn:G; [|discriminate]. b2p.
    inversion Hs; subst c1 obs'. inversion Hi; subst s1 obs u. cbn [outs_after].
    exists base, chain, T. apply (kinv_update _ _ _ _ s c); try reflexivity; try assumption; cbn; try lia.
  - (* Rewind *)
    destruct ((0 <=? m) && (cst c + m <=? chw c)) eqn:G; [|discriminate]. b2p.
    inversion Hs; subst c1 obs'. inversion Hi; subst s1 obs u. cbn [outs_after].
    exists base, chain, T. apply (kinv_update _ _ _ _ s c); try reflexivity; try assumption; cbn; try lia.
  - (* Skip *)
    inversion Hs; subst c1 obs'. inversion Hi; subst s1 obs u. cbn [outs_after].
    exists base, chain, T. apply (kinv_update _ _ _ _ s c); try reflexivity; try assumption; cbn; try lia.
  - (* Shift *)
    inversion Hs; subst c1 obs'. clear Hs.
    unfold stream_shift in Hi.
    replace (slen (sbuf s) <? spos s) with false in Hi by (symmetry; apply Z.ltb_ge; lia).
    cbn [option_bind] in Hi. unfold stream_lexeme in Hi.
    destruct (slice_ok (sstart s) (spos s) (hcap (sheap s) (sid (sbuf s)))); [|discriminate].
    cbn [option_bind] in Hi. inversion Hi; subst s1 obs u. clear Hi. cbn [outs_after is_shift sheap].
    exists base, chain, T. apply kinv_add.
    + apply (kinv_update _ _ _ _ s c); try reflexivity; try assumption; cbn; try lia.
    + intros _ _ _. cbn [hu hbytes hend uid uoff ulen sbuf sstart spool sheap]. split; [|reflexivity].
      unfold located. cbn [hu hend uid uoff ulen]. left. repeat split; lia.
    + cbn [hu hbytes]. apply uslice_bytes_empty.
  - (* Lexeme *)
    inversion Hs; subst c1 obs'. clear Hs. unfold stream_lexeme in Hi.
    destruct (slice_ok (sstart s) (spos s) (hcap (sheap s) (sid (sbuf s)))); [|discriminate].
    cbn [option_bind] in Hi. inversion Hi; subst s1 obs u. clear Hi. cbn [outs_after is_shift].
    exists base, chain, T. apply kinv_add; [exact Kv| |]; [cbn [hshift]; intros X; discriminate|cbn [hu hbytes]; apply uslice_bytes_empty].
  - (* Pos *)
    inversion Hs; subst c1 obs'. inversion Hi; subst s1 obs u. cbn [outs_after]. exists base, chain, T. exact Kv.
  - (* Free *)
    destruct ((0 <=? n) && (cfreed c + n <=? cst c)) eqn:G; [|discriminate]. b2p.
    inversion Hs; subst c1 obs'. inversion Hi; subst s1 obs u. cbn [outs_after].
    exists base, chain, T. apply (kinv_update _ _ _ _ s c); try reflexivity; try assumption; cbn; try lia.
  - (* ShiftLen *)
    inversion Hs; subst c1 obs'. inversion Hi; subst s1 obs u. cbn [outs_after].
    exists base, chain, T. apply (kinv_update _ _ _ _ s c); try reflexivity; try assumption; cbn; try lia.
Qed.

Lemma K_run data ops : forall s c outs s' c' outs',
  K data s c outs -> srun2 s c outs ops = Some (s', c', outs') -> K data s' c' outs'.
Proof.
  induction ops as [|o ops IH]; intros s c outs s' c' outs' Kv H; cbn [srun2] in H.
  - inversion H; subst. exact Kv.
  - destruct (sstep s o) as [[[s1 obs] u]|] eqn:S1; [|discriminate]. cbn [option_bind] in H.
    destruct (sspec_step c o) as [[c1 obs']|] eqn:S2; [|discriminate]. cbn [option_bind fst] in H.
    eapply IH; [|exact H].
    pose proof (K_step data s c outs o s1 obs u c1 obs' Kv S1 S2) as K1.
    unfold outs_after in K1. destruct u; [|exact K1].
    destruct o; exact K1.
Qed.

Lemma K_init sch size : 0 <= size -> K (delivered sch) (new_stream sch size) (sc_init (delivered sch)) [].
Proof.
  intros Hs. exists 0, [], 0. constructor; cbn [new_stream sc_init cdat cst cps chw cprev cfreed sheap ssch serr spool sbuf sstart spos sprev sfree blocks ppos sid slen]; try lia; try reflexivity.
  - apply new_stream_inv. exact Hs.
  - constructor; cbn; try (intros; lia); try tauto. constructor.
  - split; cbn; intros; lia.
  - intros h [].
  - intros h [].
Qed.

(* A slice returned by Shift stays unchanged until at least as many bytes have been released with Free as
   had been shifted up to its end. *)
Theorem shift_slice_stable_proof :
  forall (sch : list event) (size : Z) (ops : list sop) s c outs h,
    0 <= size ->
    srun2 (new_stream sch size) (sc_init (delivered sch)) [] ops = Some (s, c, outs) ->
    In h outs -> hshift h = true -> intact s c h.
Proof.
  intros sch size ops s c outs h Hs Hrun Hin Hsh Hlt.
  destruct (K_run _ _ _ _ _ _ _ _ (K_init sch size Hs) Hrun) as (base & chain & T & Kv).
  destruct (Z_lt_le_dec 0 (ulen (hu h))) as [Hl|Hl].
  - destruct (k_outs _ _ _ _ _ _ _ Kv h Hin Hsh Hlt Hl) as [_ Hb]. exact Hb.
  - (* an empty slice has no bytes *)
    rewrite (k_empty _ _ _ _ _ _ _ Kv h Hin Hl). apply uslice_bytes_empty. exact Hl.
Qed.
