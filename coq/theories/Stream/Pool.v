(* Stream/Pool.v — the buffer pool as a queue: representation invariant of the index-linked list
   (head/tail/next are "index plus one", 0 = none) and what free and swap do to it. *)
From Verif Require Import Common.Base Common.Tactics Stream.Model Stream.Lemmas.
From Coq Require Import ZifyBool.

Definition dblk : block := mkBlock (mkSl O 0) 0 false.
Definition blk (bs : list block) (i : nat) : block := nth i bs dblk.

Lemma nthb_blk bs i : 0 <= i -> nthb bs i = blk bs (Z.to_nat i).
Proof. intros _. reflexivity. Qed.

Lemma nthb_of_nat bs i : nthb bs (Z.of_nat i) = blk bs i.
Proof. unfold nthb, blk, dblk. rewrite Nat2Z.id. reflexivity. Qed.

Lemma blk_setb_same bs i b : (i < length bs)%nat -> blk (setb bs i b) i = b.
Proof.
  unfold blk. revert i. induction bs as [|x t IH]; intros i H; [cbn in H; lia|].
  destruct i; cbn; [reflexivity|]. apply IH. cbn in H. lia.
Qed.

Lemma blk_setb_other bs i j b : i <> j -> blk (setb bs i b) j = blk bs j.
Proof.
  unfold blk. revert i j. induction bs as [|x t IH]; intros i j H; [destruct i; reflexivity|].
  destruct i, j; cbn; try reflexivity; [congruence|]. apply IH. congruence.
Qed.

Lemma setb_length bs i b : length (setb bs i b) = length bs.
Proof. revert i. induction bs as [|x t IH]; intros i; [destruct i; reflexivity|]. destruct i; cbn; [reflexivity|]. rewrite IH. reflexivity. Qed.

(* the chain of active blocks, tail (oldest) first, as indices into [blocks] *)
Fixpoint linked (bs : list block) (chain : list nat) : Prop :=
  match chain with
  | [] => True
  | i :: rest =>
      match rest with
      | [] => bnext (blk bs i) = 0
      | j :: _ => bnext (blk bs i) = Z.of_nat j + 1 /\ linked bs rest
      end
  end.

Definition ends (p : pool) (chain : list nat) : Prop :=
  match chain with
  | [] => ptail p = 0 /\ phead p = 0
  | i :: _ => ptail p = Z.of_nat i + 1 /\ phead p = Z.of_nat (last chain O) + 1
  end.

Record prep (p : pool) (chain : list nat) : Prop := mkPrep {
  pr_nodup : NoDup chain;
  pr_range : forall i, In i chain -> (i < length (blocks p))%nat;
  pr_active : forall i, (i < length (blocks p))%nat -> (bactive (blk (blocks p) i) = true <-> In i chain);
  pr_linked : linked (blocks p) chain;
  pr_ends : ends p chain;
  pr_lens : forall i, (i < length (blocks p))%nat -> 0 <= slen (bbuf (blk (blocks p) i))
}.

Definition sumz (l : list Z) : Z := fold_right Z.add 0 l.
Definition clens (bs : list block) (chain : list nat) : list Z := map (fun i => slen (bbuf (blk bs i))) chain.

Lemma sumz_app a b : sumz (a ++ b) = sumz a + sumz b.
Proof. induction a as [|x t IH]; [reflexivity|]. unfold sumz in *. cbn [app fold_right]. rewrite IH. lia. Qed.

Lemma linked_ext bs bs' chain :
  (forall i, In i chain -> blk bs' i = blk bs i) -> linked bs chain -> linked bs' chain.
Proof.
  revert bs bs'. induction chain as [|i rest IH]; intros bs bs' H L; [exact I|].
  cbn [linked] in *. destruct rest as [|j rest'].
  - rewrite H by (left; reflexivity). exact L.
  - destruct L as [L1 L2]. split; [rewrite H by (left; reflexivity); exact L1|].
    apply (IH bs bs'); [intros k Hk; apply H; right; exact Hk|exact L2].
Qed.

Lemma linked_tail bs i rest : linked bs (i :: rest) -> linked bs rest.
Proof. cbn [linked]. destruct rest; [intros; exact I|intros [_ H]; exact H]. Qed.

(* ---- free --------------------------------------------------------------------------------- *)
(* deactivate the first k blocks of the chain *)
Fixpoint deact (bs : list block) (is : list nat) : list block :=
  match is with
  | [] => bs
  | i :: rest => deact (setb bs i (mkBlock (bbuf (blk bs i)) (bnext (blk bs i)) false)) rest
  end.

Lemma deact_length bs is : length (deact bs is) = length bs.
Proof. revert bs. induction is as [|i r IH]; intros bs; [reflexivity|]. cbn. rewrite IH, setb_length. reflexivity. Qed.

Lemma deact_other bs is j : ~ In j is -> blk (deact bs is) j = blk bs j.
Proof.
  revert bs. induction is as [|i r IH]; intros bs H; [reflexivity|]. cbn [deact].
  rewrite IH by (intros X; apply H; right; exact X). apply blk_setb_other. intros E; apply H; left; exact E.
Qed.

Lemma deact_in bs is j : NoDup is -> In j is -> (j < length bs)%nat ->
  blk (deact bs is) j = mkBlock (bbuf (blk bs j)) (bnext (blk bs j)) false.
Proof.
  revert bs. induction is as [|i r IH]; intros bs ND H L; [destruct H|]. cbn [deact].
  inversion ND as [|? ? Hn ND']; subst.
  destruct H as [E|H].
  - subst j. rewrite deact_other by exact Hn. apply blk_setb_same. exact L.
  - rewrite IH by (try assumption; rewrite setb_length; exact L).
    rewrite blk_setb_other by (intros E; subst; contradiction). reflexivity.
Qed.

Lemma firstn_In_sub {A} (l : list A) n x : In x (firstn n l) -> In x l.
Proof.
  revert l. induction n as [|n IH]; intros l H; [destruct H|]. destruct l as [|y t]; [destruct H|].
  cbn in H. destruct H as [E|H]; [left; exact E|right; apply IH; exact H].
Qed.

Lemma skipn_In_sub {A} (l : list A) n x : In x (skipn n l) -> In x l.
Proof.
  revert l. induction n as [|n IH]; intros l H; [exact H|]. destruct l as [|y t]; [destruct H|].
  cbn in H. right. apply IH. exact H.
Qed.

Definition tl_of (chain : list nat) : Z := match chain with [] => 0 | i :: _ => Z.of_nat i + 1 end.

Lemma clens_ext bs bs' chain : (forall i, In i chain -> bbuf (blk bs' i) = bbuf (blk bs i)) -> clens bs' chain = clens bs chain.
Proof.
  intros H. unfold clens. apply map_ext_in. intros i Hi. rewrite H by exact Hi. reflexivity.
Qed.

(* the loop removes a prefix of the chain: the blocks that the freed bytes cover *)
Lemma free_loop_spec fuel : forall bs chain pos,
  NoDup chain -> (forall i, In i chain -> (i < length bs)%nat) -> linked bs chain ->
  (forall i, In i chain -> 0 <= slen (bbuf (blk bs i))) ->
  (length chain < fuel)%nat -> 0 <= pos ->
  exists k,
    (k <= length chain)%nat /\
    pool_free_loop fuel bs (tl_of chain) pos =
      (deact bs (firstn k chain), tl_of (skipn k chain), pos - sumz (clens bs (firstn k chain))) /\
    0 <= pos - sumz (clens bs (firstn k chain)) /\
    (* the loop stops at a block that the freed bytes do not cover *)
    (match skipn k chain with [] => True | i :: _ => pos - sumz (clens bs (firstn k chain)) < slen (bbuf (blk bs i)) end).
Proof.
  induction fuel as [|f IH]; intros bs chain pos ND Rg Lk Ln Fu Hp; [lia|].
  destruct chain as [|i rest].
  - exists O. cbn. split; [lia|]. split; [f_equal; lia|split; [lia|exact I]].
  - cbn [pool_free_loop tl_of].
    replace (Z.of_nat i + 1 =? 0) with false by (symmetry; apply Z.eqb_neq; lia). cbn [negb andb].
    replace (Z.of_nat i + 1 - 1) with (Z.of_nat i) by lia.
    rewrite !nthb_of_nat.
    destruct (slen (bbuf (blk bs i)) <=? pos) eqn:C.
    + b2p. inversion ND as [|? ? Hni ND']; subst. rewrite Nat2Z.id.
      set (bs' := setb bs i (mkBlock (bbuf (blk bs i)) (bnext (blk bs i)) false)).
      assert (Hother : forall j, In j rest -> blk bs' j = blk bs j).
      { intros j Hj. unfold bs'. apply blk_setb_other. intros E; subst; contradiction. }
      assert (Htl : bnext (blk bs i) = tl_of rest).
      { cbn [linked] in Lk. destruct rest as [|j r]; [exact Lk|destruct Lk as [L1 _]; exact L1]. }
      rewrite Htl.
      destruct (IH bs' rest (pos - slen (bbuf (blk bs i))) ND') as (k & Hk & E & Hpos & Hstop).
      * intros j Hj. unfold bs'. rewrite setb_length. apply Rg. right. exact Hj.
      * apply (linked_ext bs bs'); [exact Hother|]. eapply linked_tail; exact Lk.
      * intros j Hj. rewrite Hother by exact Hj. apply Ln. right. exact Hj.
      * cbn [length] in Fu. lia.
      * pose proof (Ln i (or_introl eq_refl)). lia.
      * exists (S k). split; [cbn [length]; lia|].
        assert (Hc : clens bs' (firstn k rest) = clens bs (firstn k rest)).
        { apply clens_ext. intros j Hj. rewrite Hother; [reflexivity|]. eapply firstn_In_sub. exact Hj. }
        rewrite Hc in E, Hpos, Hstop. split; [|split].
        -- rewrite E. cbn [firstn deact skipn clens map sumz fold_right]. fold bs'.
           f_equal. unfold sumz, clens. lia.
        -- cbn [firstn clens map sumz fold_right]. unfold sumz, clens in *. lia.
        -- cbn [firstn skipn clens map sumz fold_right]. destruct (skipn k rest) as [|j r'] eqn:Sk; [exact I|].
           assert (Hj : In j rest) by (eapply skipn_In_sub; rewrite Sk; left; reflexivity).
           rewrite (Hother j Hj) in Hstop. unfold sumz, clens in *. lia.
    + exists O. cbn [firstn deact skipn clens map sumz fold_right tl_of]. b2p. split; [lia|]. split; [f_equal; lia|split; lia].
Qed.

(* ---- list facts about a NoDup chain split into a prefix and the rest ------------------------- *)
Lemma NoDup_app_remove_l {A} (a b : list A) : NoDup (a ++ b) -> NoDup b.
Proof. induction a as [|x t IH]; intros H; [exact H|]. cbn in H. inversion H; subst. apply IH. assumption. Qed.

Lemma NoDup_app_intro_snoc {A} (l : list A) x : NoDup l -> ~ In x l -> NoDup (l ++ [x]).
Proof.
  induction l as [|y t IH]; intros ND H; [constructor; [intros []|constructor]|].
  inversion ND as [|? ? Hn ND']; subst. cbn. constructor.
  - intros X. apply in_app_or in X. destruct X as [X|[X|[]]]; [contradiction|subst; apply H; left; reflexivity].
  - apply IH; [exact ND'|intros X; apply H; right; exact X].
Qed.

Lemma NoDup_app_remove_r {A} (a b : list A) : NoDup (a ++ b) -> NoDup a.
Proof.
  induction a as [|x t IH]; intros H; [constructor|]. cbn in H. inversion H as [|? ? Hn H']; subst.
  constructor; [intros X; apply Hn; apply in_or_app; left; exact X|apply IH; exact H'].
Qed.

Lemma NoDup_split_disjoint {A} (l : list A) k x : NoDup l -> In x (firstn k l) -> In x (skipn k l) -> False.
Proof.
  intros ND H1 H2. rewrite <- (firstn_skipn k l) in ND. apply NoDup_app_remove_l in ND as ND2.
  revert H1 H2 ND. generalize (firstn k l) as a, (skipn k l) as b. intros a b H1 H2 ND.
  induction a as [|y t IH]; [destruct H1|]. cbn in ND. inversion ND as [|? ? Hn ND']; subst.
  destruct H1 as [E|H1]; [subst; apply Hn; apply in_or_app; right; exact H2|apply IH; assumption].
Qed.

Lemma NoDup_skipn {A} (l : list A) k : NoDup l -> NoDup (skipn k l).
Proof. intros ND. rewrite <- (firstn_skipn k l) in ND. apply NoDup_app_remove_l in ND. exact ND. Qed.

Lemma in_split_fs {A} (l : list A) k x : In x l -> In x (firstn k l) \/ In x (skipn k l).
Proof. intros H. rewrite <- (firstn_skipn k l) in H. apply in_app_or in H. exact H. Qed.

Lemma linked_skipn bs chain k : linked bs chain -> linked bs (skipn k chain).
Proof.
  revert chain. induction k as [|k IH]; intros chain L; [exact L|].
  destruct chain as [|i rest]; [exact I|]. cbn [skipn]. apply IH. eapply linked_tail; exact L.
Qed.

Lemma last_skipn (l : list nat) k i r : skipn k l = i :: r -> last (i :: r) O = last l O.
Proof.
  revert l. induction k as [|k IH]; intros l H; [cbn in H; subst; reflexivity|].
  destruct l as [|y t]; [discriminate|]. cbn [skipn] in H. rewrite (IH t H).
  destruct t; [cbn in H; destruct k; discriminate|reflexivity].
Qed.

Lemma chain_length_bound (chain : list nat) n : NoDup chain -> (forall i, In i chain -> (i < n)%nat) -> (length chain <= n)%nat.
Proof.
  intros ND H. rewrite <- (seq_length n 0). apply NoDup_incl_length; [exact ND|].
  intros i Hi. apply in_seq. specialize (H i Hi). lia.
Qed.

Lemma deact_bbuf bs is i : NoDup is -> (forall j, In j is -> (j < length bs)%nat) -> bbuf (blk (deact bs is) i) = bbuf (blk bs i).
Proof.
  intros ND R. destruct (in_dec Nat.eq_dec i is) as [H|H].
  - rewrite deact_in by (auto). reflexivity.
  - rewrite deact_other by exact H. reflexivity.
Qed.

(* ---- bufferPool.free ------------------------------------------------------------------------- *)
Lemma pool_free_prep p chain n : prep p chain -> 0 <= ppos p + n ->
  exists k, (k <= length chain)%nat /\
    prep (pool_free p n) (skipn k chain) /\
    blocks (pool_free p n) = deact (blocks p) (firstn k chain) /\
    ppos (pool_free p n) = ppos p + n - sumz (clens (blocks p) (firstn k chain)) /\
    0 <= ppos (pool_free p n) /\
    (match skipn k chain with [] => True | i :: _ => ppos (pool_free p n) < slen (bbuf (blk (blocks p) i)) end).
Proof.
  intros P Hp. destruct P as [ND Rg Act Lk En Ln].
  assert (Hlen : (length chain <= length (blocks p))%nat) by (apply chain_length_bound; assumption).
  assert (Htl : ptail p = tl_of chain) by (destruct chain; cbn in En; destruct En; assumption).
  destruct (free_loop_spec (S (length (blocks p))) (blocks p) chain (ppos p + n) ND Rg Lk
              (fun i Hi => Ln i (Rg i Hi)) ltac:(lia) Hp) as (k & Hk & E & Hpos & Hstop).
  exists k. split; [exact Hk|]. unfold pool_free. rewrite Htl, E. cbn [blocks ppos].
  split; [|split; [reflexivity|split; [reflexivity|split; [exact Hpos|exact Hstop]]]].
  assert (NDf : NoDup (firstn k chain)).
  { rewrite <- (firstn_skipn k chain) in ND. apply NoDup_app_remove_r in ND. exact ND. }
  assert (Rf : forall j, In j (firstn k chain) -> (j < length (blocks p))%nat) by (intros j Hj; apply Rg; eapply firstn_In_sub; exact Hj).
  constructor; cbn [blocks phead ptail ppos].
  - apply NoDup_skipn. exact ND.
  - intros i Hi. rewrite deact_length. apply Rg. eapply skipn_In_sub. exact Hi.
  - intros i Hi. rewrite deact_length in Hi. split.
    + intros Ha. destruct (in_dec Nat.eq_dec i (firstn k chain)) as [Hf|Hf].
      * rewrite deact_in in Ha by assumption. discriminate.
      * rewrite deact_other in Ha by exact Hf. apply Act in Ha; [|exact Hi].
        destruct (in_split_fs chain k i Ha); [contradiction|assumption].
    + intros Hs. assert (Hf : ~ In i (firstn k chain)) by (intros Hf; exact (NoDup_split_disjoint chain k i ND Hf Hs)).
      rewrite deact_other by exact Hf. apply Act; [exact Hi|]. eapply skipn_In_sub. exact Hs.
  - apply (linked_ext (blocks p)); [|apply linked_skipn; exact Lk].
    intros i Hi. apply deact_other. intros Hf. exact (NoDup_split_disjoint chain k i ND Hf Hi).
  - unfold ends. cbn [ptail phead]. destruct (skipn k chain) as [|i r] eqn:Sk.
    + cbn [tl_of]. split; reflexivity.
    + cbn [tl_of]. replace (Z.of_nat i + 1 =? 0) with false by (symmetry; apply Z.eqb_neq; lia).
      split; [reflexivity|]. rewrite (last_skipn chain k i r Sk).
      destruct chain as [|c0 cr]; [destruct k; discriminate|]. cbn in En. destruct En as [_ En]. exact En.
  - intros i Hi. rewrite deact_length in Hi. rewrite deact_bbuf by assumption. apply Ln. exact Hi.
Qed.

(* ---- bufferPool.swap --------------------------------------------------------------------------- *)
(* the pool after the common tail of swap: slot sw receives the old buffer and is linked behind the head *)
Definition put_pool (p : pool) (bs : list block) (sw : nat) (old : sl0) : pool :=
  let bs1 := setb bs sw (mkBlock old 0 true) in
  let bs2 := if phead p =? 0 then bs1
             else let hb := nthb bs1 (phead p - 1) in
                  setb bs1 (Z.to_nat (phead p - 1)) (mkBlock (bbuf hb) (Z.of_nat sw + 1) (bactive hb)) in
  mkPool bs2 (Z.of_nat sw + 1) (if ptail p =? 0 then Z.of_nat sw + 1 else ptail p) (ppos p).

Lemma last_snoc (l : list nat) x : last (l ++ [x]) O = x.
Proof. apply last_last. Qed.

Lemma last_In (l : list nat) : l <> [] -> In (last l O) l.
Proof.
  induction l as [|y t IH]; [congruence|]. intros _. destruct t as [|z t']; [left; reflexivity|].
  right. apply IH. discriminate.
Qed.

(* links of the extended chain *)
Lemma linked_snoc bs bs' chain sw :
  NoDup chain -> ~ In sw chain -> linked bs chain ->
  (forall i, In i chain -> i <> last chain O -> blk bs' i = blk bs i) ->
  (chain <> [] -> bnext (blk bs' (last chain O)) = Z.of_nat sw + 1) ->
  bnext (blk bs' sw) = 0 ->
  linked bs' (chain ++ [sw]).
Proof.
  intros ND Hsw L Hsame Hlast Hnew. induction chain as [|i rest IH]; [exact Hnew|].
  cbn [app linked]. destruct rest as [|j rest'].
  - cbn [app]. split; [|exact Hnew]. apply Hlast. discriminate.
  - cbn [app]. cbn [linked] in L. destruct L as [L1 L2].
    inversion ND as [|? ? Hni ND']; subst.
    assert (Hi : i <> last (i :: j :: rest') O).
    { intros E. apply Hni. change (last (i :: j :: rest') O) with (last (j :: rest') O) in E. rewrite E. apply last_In. discriminate. }
    split; [rewrite Hsame by (auto; left; reflexivity); exact L1|].
    apply IH; auto.
    + intros X. apply Hsw. right. exact X.
    + intros k Hk Hkl. apply Hsame; [right; exact Hk|exact Hkl].
    + intros _. apply Hlast. discriminate.
Qed.

Lemma put_pool_prep p bs chain sw old :
  NoDup chain -> (forall i, In i chain -> (i < length bs)%nat) ->
  (forall i, (i < length bs)%nat -> i <> sw -> (bactive (blk bs i) = true <-> In i chain)) ->
  linked bs chain -> ends p chain ->
  (sw < length bs)%nat -> ~ In sw chain ->
  (forall i, (i < length bs)%nat -> i <> sw -> 0 <= slen (bbuf (blk bs i))) -> 0 <= slen old ->
  prep (put_pool p bs sw old) (chain ++ [sw]) /\
  length (blocks (put_pool p bs sw old)) = length bs /\
  (forall i, i <> sw -> bbuf (blk (blocks (put_pool p bs sw old)) i) = bbuf (blk bs i)) /\
  bbuf (blk (blocks (put_pool p bs sw old)) sw) = old /\
  ppos (put_pool p bs sw old) = ppos p.
Proof.
  intros ND Rg Act Lk En Hsw Hni Ln Hold.
  set (bs1 := setb bs sw (mkBlock old 0 true)).
  assert (L1 : length bs1 = length bs) by (unfold bs1; apply setb_length).
  assert (B1s : blk bs1 sw = mkBlock old 0 true) by (unfold bs1; apply blk_setb_same; exact Hsw).
  assert (B1o : forall i, i <> sw -> blk bs1 i = blk bs i) by (intros i Hi; unfold bs1; apply blk_setb_other; congruence).
  destruct chain as [|c0 cr].
  - (* empty chain: head = tail = 0 *)
    cbn in En. destruct En as [Et Eh]. unfold put_pool. rewrite Eh, Et. cbn [Z.eqb]. fold bs1. cbn [app].
    split; [|split; [exact L1|split; [intros i Hi; cbn [blocks]; rewrite B1o by exact Hi; reflexivity|split; [cbn [blocks]; rewrite B1s; reflexivity|reflexivity]]]].
    constructor; cbn [blocks phead ptail].
    + constructor; [intros []|constructor].
    + intros i [E|[]]. subst. rewrite L1. exact Hsw.
    + intros i Hi. rewrite L1 in Hi. destruct (Nat.eq_dec i sw) as [E|E].
      * subst. rewrite B1s. cbn. split; [intros _; left; reflexivity|reflexivity].
      * rewrite B1o by exact E. rewrite (Act i Hi E). split; [intros []|intros [X|[]]; congruence].
    + cbn [linked]. rewrite B1s. reflexivity.
    + cbn. split; reflexivity.
    + intros i Hi. rewrite L1 in Hi. destruct (Nat.eq_dec i sw) as [E|E]; [subst; rewrite B1s; exact Hold|rewrite B1o by exact E; apply Ln; assumption].
  - (* non-empty chain: the head block gets its next pointer *)
    change (ptail p = Z.of_nat c0 + 1 /\ phead p = Z.of_nat (last (c0 :: cr) O) + 1) in En.
    set (chain := c0 :: cr) in *.
    destruct En as [Et Eh].
    set (hd := last chain O) in *.
    assert (Hhd_in : In hd chain) by (apply last_In; discriminate).
    assert (Hhd_sw : hd <> sw) by (intros E; apply Hni; rewrite <- E; exact Hhd_in).
    assert (Hhd_lt : (hd < length bs)%nat) by (apply Rg; exact Hhd_in).
    unfold put_pool. rewrite Eh, Et.
    replace (Z.of_nat hd + 1 =? 0) with false by (symmetry; apply Z.eqb_neq; lia).
    replace (Z.of_nat c0 + 1 =? 0) with false by (symmetry; apply Z.eqb_neq; lia).
    fold bs1. replace (Z.of_nat hd + 1 - 1) with (Z.of_nat hd) by lia. rewrite nthb_of_nat, Nat2Z.id.
    rewrite (B1o hd Hhd_sw).
    set (bs2 := setb bs1 hd (mkBlock (bbuf (blk bs hd)) (Z.of_nat sw + 1) (bactive (blk bs hd)))).
    assert (L2 : length bs2 = length bs) by (unfold bs2; rewrite setb_length; exact L1).
    assert (B2h : blk bs2 hd = mkBlock (bbuf (blk bs hd)) (Z.of_nat sw + 1) (bactive (blk bs hd))) by (unfold bs2; apply blk_setb_same; lia).
    assert (B2o : forall i, i <> hd -> blk bs2 i = blk bs1 i) by (intros i Hi; unfold bs2; apply blk_setb_other; congruence).
    cbn [blocks ppos].
    split; [|split; [exact L2|split; [|split; [rewrite (B2o sw) by congruence; rewrite B1s; reflexivity|reflexivity]]]].
    2:{ intros i Hi. destruct (Nat.eq_dec i hd) as [E|E]; [subst i; rewrite B2h; reflexivity|rewrite B2o by exact E; rewrite B1o by exact Hi; reflexivity]. }
    constructor; cbn [blocks phead ptail].
    + apply NoDup_app_intro_snoc; assumption.
    + intros i Hi. rewrite L2. apply in_app_or in Hi. destruct Hi as [Hi|[E|[]]]; [apply Rg; exact Hi|subst; exact Hsw].
    + intros i Hi. rewrite L2 in Hi. destruct (Nat.eq_dec i sw) as [E|E].
      * subst i. rewrite (B2o sw) by congruence. rewrite B1s. cbn [bactive]. split; [intros _; apply in_or_app; right; left; reflexivity|reflexivity].
      * assert (Hact : bactive (blk bs2 i) = bactive (blk bs i)).
        { destruct (Nat.eq_dec i hd) as [E2|E2]; [subst i; rewrite B2h; reflexivity|rewrite B2o by exact E2; rewrite B1o by exact E; reflexivity]. }
        rewrite Hact, (Act i Hi E). split; [intros X; apply in_or_app; left; exact X|intros X; apply in_app_or in X; destruct X as [X|[X|[]]]; [exact X|congruence]].
    + apply (linked_snoc bs bs2 chain sw ND Hni Lk).
      * intros i Hi Hil. fold hd in Hil. rewrite B2o by exact Hil. apply B1o. intros E; subst; contradiction.
      * intros _. fold hd. rewrite B2h. reflexivity.
      * rewrite (B2o sw) by congruence. rewrite B1s. reflexivity.
    + unfold ends. cbn [app]. fold chain. destruct (chain ++ [sw]) as [|x xs] eqn:E; [destruct chain; discriminate|].
      assert (x = c0) by (unfold chain in E; cbn in E; congruence). subst x.
      cbn [ptail phead]. split; [reflexivity|]. rewrite <- E. rewrite last_snoc. reflexivity.
    + intros i Hi. rewrite L2 in Hi. destruct (Nat.eq_dec i sw) as [E|E].
      * subst i. rewrite (B2o sw) by congruence. rewrite B1s. exact Hold.
      * destruct (Nat.eq_dec i hd) as [E2|E2]; [subst i; rewrite B2h; cbn; apply Ln; assumption|rewrite B2o by exact E2; rewrite B1o by exact E; apply Ln; assumption].
Qed.

Lemma find_free_inactive h bs size i0 sw :
  find_free h bs size i0 = Some sw ->
  i0 <= sw < i0 + len bs /\ bactive (blk bs (Z.to_nat (sw - i0))) = false /\ size <= hcap h (sid (bbuf (blk bs (Z.to_nat (sw - i0))))).
Proof.
  revert i0. induction bs as [|b t IH]; intros i0 H; cbn [find_free] in H; [discriminate|].
  rewrite len_cons. pose proof (len_nonneg t).
  destruct (negb (bactive b) && (size <=? hcap h (sid (bbuf b)))) eqn:C.
  - assert (sw = i0) by congruence. subst sw. b2p. replace (i0 - i0) with 0 by lia. split; [lia|]. change (blk (b :: t) (Z.to_nat 0)) with b. split; assumption.
  - destruct (IH (i0 + 1) H) as (R1 & R2 & R3). split; [lia|].
    replace (Z.to_nat (sw - i0)) with (S (Z.to_nat (sw - (i0 + 1)))) by lia. unfold blk in *. cbn [nth]. split; assumption.
Qed.

Lemma put_pool_eq p bs sw old :
  (let bs1 := setb bs (Z.to_nat (Z.of_nat sw)) (mkBlock old 0 true) in
   let bs2 := if phead p =? 0 then bs1
              else let hb := nthb bs1 (phead p - 1) in
                   setb bs1 (Z.to_nat (phead p - 1)) (mkBlock (bbuf hb) (Z.of_nat sw + 1) (bactive hb)) in
   mkPool bs2 (Z.of_nat sw + 1) (if ptail p =? 0 then Z.of_nat sw + 1 else ptail p) (ppos p)) = put_pool p bs sw old.
Proof. unfold put_pool. rewrite Nat2Z.id. reflexivity. Qed.

Inductive swap_kind := SInPlace | SReuse (sw : nat) | SFresh.

Lemma pool_swap_cases h p chain old size h1 p1 nb :
  prep p chain -> pool_swap h p old size = (h1, p1, nb) ->
  (chain = [] /\ slen old <= ppos p /\ size <= hcap h (sid old) /\ h1 = h /\
   p1 = mkPool (blocks p) (phead p) (ptail p) (ppos p - slen old) /\ nb = mkSl (sid old) 0) \/
  (exists sw, (sw < length (blocks p))%nat /\ ~ In sw chain /\ h1 = h /\
     size <= hcap h (sid (bbuf (blk (blocks p) sw))) /\
     p1 = put_pool p (blocks p) sw old /\ nb = mkSl (sid (bbuf (blk (blocks p) sw))) 0) \/
  (h1 = h ++ [zeros size] /\
     p1 = put_pool p (blocks p ++ [mkBlock (mkSl (length h) 0) 0 true]) (length (blocks p)) old /\
     nb = mkSl (length h) 0 /\
     ~ (ptail p = 0 /\ slen old <= ppos p /\ size <= hcap h (sid old))).
Proof.
  intros P H. unfold pool_swap in H.
  destruct (find_free h (blocks p) size 0) as [sw|] eqn:F.
  - destruct (find_free_inactive _ _ _ _ _ F) as (R1 & R2 & R3). replace (sw - 0) with sw in * by lia.
    right. left. exists (Z.to_nat sw).
    assert (Hlt : (Z.to_nat sw < length (blocks p))%nat) by (unfold len in R1; lia).
    split; [exact Hlt|]. split.
    + intros Hin. apply (pr_active _ _ P _ Hlt) in Hin. congruence.
    + replace sw with (Z.of_nat (Z.to_nat sw)) in H by lia.
      rewrite nthb_of_nat in H. rewrite put_pool_eq in H. inversion H; subst. auto.
  - destruct ((ptail p =? 0) && (slen old <=? ppos p) && (size <=? hcap h (sid old))) eqn:C.
    + left. b2p. inversion H; subst.
      assert (chain = []).
      { destruct chain as [|i r]; [reflexivity|]. pose proof (pr_ends _ _ P) as E. cbn in E. destruct E as [E _]. lia. }
      auto 10.
    + right. right. unfold len in H. rewrite nthb_of_nat in H. rewrite put_pool_eq in H.
      unfold blk in H. rewrite app_nth2 in H by lia. rewrite Nat.sub_diag in H. cbn [nth bbuf sid] in H.
      inversion H; subst. split; [reflexivity|]. split; [reflexivity|]. split; [reflexivity|].
      intros (X1 & X2 & X3). rewrite X1 in C. cbn [Z.eqb andb] in C.
      apply andb_false_iff in C. destruct C as [C|C]; b2p; lia.
Qed.
