(* JsExpr/Harness.v — correspondence drivers for the Pratt model (C03). *)
From Verif Require Import Common.Base Common.Codec Gen.PrattTable JsExpr.Syntax JsExpr.Pratt.

(* tokens: ty lt |data| data ... *)
Fixpoint decode_toks (n : nat) (l : list Z) : list token :=
  match n with
  | O => []
  | S m =>
      match l with
      | t :: f :: r => let '(d, r') := take_list r in mkTok t (negb (f =? 0)) d :: decode_toks m r'
      | _ => []
      end
  end.

Definition enc_bytes (b : list Z) : list Z := len b :: b.

Fixpoint enc_expr (e : expr) : list Z :=
  match e with
  | EVar n => 1 :: enc_bytes n
  | ELit t d => 2 :: t :: enc_bytes d
  | EGroup x => 3 :: enc_expr x
  | EUnary op x => 4 :: op :: enc_expr x
  | EBinary op x y => 5 :: op :: enc_expr x ++ enc_expr y
  | ECond c x y => 6 :: enc_expr c ++ enc_expr x ++ enc_expr y
  | EDot x n => 7 :: enc_bytes n ++ enc_expr x
  | EIndex x y => 8 :: enc_expr x ++ enc_expr y
  | ECall x args => 9 :: len args :: enc_expr x ++ concat (map enc_expr args)
  | EComma l => 10 :: len l :: concat (map enc_expr l)
  end.

Fixpoint enc_stmt (s : stmt) : list Z :=
  match s with
  | SExpr e => 20 :: enc_expr e
  | SEmpty => [21]
  | SLabel n s => 22 :: enc_bytes n ++ enc_stmt s
  end.

Definition enc_res {A} (f : A -> list Z) (r : res A) : list Z :=
  match r with
  | Ok a => 0 :: f a
  | Fail => [1]
  | OutFrag => [3]
  | NoFuel => [4]
  end.

Definition enc_program (l : list stmt) : list Z :=
  len l :: concat (map (fun s => enc_bytes (show_stmt s) ++ enc_stmt s) l).

(* case: mode opts ntok tokens...   (opts: the js.Options bits; the model does not depend on them)
   mode 0: the tokens are a whole program (expression statements);
   mode 1: the tokens are the initialiser of `for ( <tokens> ;;);` (In flag off): the observation is the
           tree when the whole token list is one expression, error otherwise. *)
Definition run_pratt (l : list Z) : list Z :=
  let mode := hdz l in
  let n := hdz (tlz (tlz l)) in
  let ts := decode_toks (Z.to_nat n) (tlz (tlz (tlz l))) in
  if mode =? 0 then enc_res enc_program (parse_program ts)
  else
    match ts with
    | [] => [0; 0]
    | _ =>
      match parse false prec_OpExpr ts with
      | Ok (e, []) => 0 :: 1 :: enc_bytes (show e) ++ enc_expr e
      | Ok (_, _ :: _) => [1]
      | Fail => [1]
      | OutFrag => [3]
      | NoFuel => [4]
      end
    end.

(* ---- the statement model (StmtModel.v) ------------------------------------------------------------------------------- *)
From Verif Require Import JsExpr.StmtModel.

(* case: mode(=0) opts ntok tokens...  ->  0 n (|String()| String())*  for the statements of the program, or the error code;
   opts bit 0 is Options.WhileToFor *)
Definition run_xstmt (l : list Z) : list Z :=
  let opts := hdz (tlz l) in
  let n := hdz (tlz (tlz l)) in
  let ts := decode_toks (Z.to_nat n) (tlz (tlz (tlz l))) in
  enc_res (fun p => len p :: concat (map (fun s => enc_bytes (show_xstmt s)) p)) (parse_xprogram (Z.odd opts) ts).
