(* JsExpr/Grammar.v — the expression productions of ECMA-262 (ES2022, clause 13) for the operator fragment,
   as a derivation relation [derives inf N ts t]: the token list ts is derived from nonterminal N (with the
   [In] parameter inf) and t is the tree the production structure prescribes.

   Written from the standard: nonterminals, productions, associativity.  Nothing here refers to the
   precedence numbers of js/table.go; the only link to the code is the numbering of token types (the tt_ constants),
   i.e. how the lexer names the operator tokens.  The correspondence between the standard's nonterminals and
   the code's OpPrec levels is [code_level], used by table_matches_standard.

   Left out (not in the fragment): new, super, import, templates, optional chains, spread, object/array/
   function/class/regexp-literal primaries that need their own sub-grammars, arrow functions, yield, await,
   async.  MemberExpression/CallExpression are therefore PrimaryExpression followed by . [ ] ( ) suffixes. *)
From Verif Require Import Common.Base Gen.PrattTable JsExpr.Syntax.

Inductive nt :=
| Expression | Assignment | Conditional | ShortCircuit | LogicalOR | Coalesce | CoalesceHead | LogicalAND
| BitOR | BitXOR | BitAND | Equality | Relational | Shift | Additive | Multiplicative | Exponentiation
| Unary | Update | LHS | Call | Member | Primary.

(* A : B *)
Definition chain_prods : list (nt * nt) :=
  [ (Expression, Assignment); (Assignment, Conditional); (Conditional, ShortCircuit);
    (ShortCircuit, LogicalOR); (ShortCircuit, Coalesce);
    (CoalesceHead, Coalesce); (CoalesceHead, BitOR);
    (LogicalOR, LogicalAND); (LogicalAND, BitOR); (BitOR, BitXOR); (BitXOR, BitAND); (BitAND, Equality);
    (Equality, Relational); (Relational, Shift); (Shift, Additive); (Additive, Multiplicative);
    (Multiplicative, Exponentiation); (Exponentiation, Unary); (Unary, Update); (Update, LHS);
    (LHS, Call); (LHS, Member) (* NewExpression : MemberExpression *); (Member, Primary) ].

Definition assign_ops : list Z :=
  [ tt_EqToken; tt_MulEqToken; tt_DivEqToken; tt_ModEqToken; tt_ExpEqToken; tt_AddEqToken; tt_SubEqToken;
    tt_LtLtEqToken; tt_GtGtEqToken; tt_GtGtGtEqToken; tt_BitAndEqToken; tt_BitXorEqToken; tt_BitOrEqToken;
    tt_AndEqToken; tt_OrEqToken; tt_NullishEqToken ].

Definition rel_ops : list Z := [ tt_LtToken; tt_LtEqToken; tt_GtToken; tt_GtEqToken; tt_InstanceofToken ].

(* A : B op C   (left-associative where A = B, right-associative where A = C) *)
Definition binary_prods : list (nt * nt * list Z * nt) :=
  [ (Assignment, LHS, assign_ops, Assignment);
    (LogicalOR, LogicalOR, [tt_OrToken], LogicalAND);
    (LogicalAND, LogicalAND, [tt_AndToken], BitOR);
    (BitOR, BitOR, [tt_BitOrToken], BitXOR);
    (BitXOR, BitXOR, [tt_BitXorToken], BitAND);
    (BitAND, BitAND, [tt_BitAndToken], Equality);
    (Equality, Equality, [tt_EqEqToken; tt_NotEqToken; tt_EqEqEqToken; tt_NotEqEqToken], Relational);
    (Relational, Relational, rel_ops, Shift);
    (Shift, Shift, [tt_LtLtToken; tt_GtGtToken; tt_GtGtGtToken], Additive);
    (Additive, Additive, [tt_AddToken; tt_SubToken], Multiplicative);
    (Multiplicative, Multiplicative, [tt_MulToken; tt_DivToken; tt_ModToken], Exponentiation);
    (Exponentiation, Update, [tt_ExpToken], Exponentiation) ].

(* UnaryExpression : op UnaryExpression   — (token, operator recorded in the UnaryExpr node) *)
Definition unary_prods : list (Z * Z) :=
  [ (tt_DeleteToken, tt_DeleteToken); (tt_VoidToken, tt_VoidToken); (tt_TypeofToken, tt_TypeofToken);
    (tt_AddToken, tt_PosToken); (tt_SubToken, tt_NegToken); (tt_BitNotToken, tt_BitNotToken); (tt_NotToken, tt_NotToken) ].
(* UpdateExpression : ++ UnaryExpression | -- UnaryExpression *)
Definition prefix_update_prods : list (Z * Z) := [ (tt_IncrToken, tt_PreIncrToken); (tt_DecrToken, tt_PreDecrToken) ].
(* UpdateExpression : LeftHandSideExpression [no LineTerminator here] ++ | -- *)
Definition postfix_update_prods : list (Z * Z) := [ (tt_IncrToken, tt_PostIncrToken); (tt_DecrToken, tt_PostDecrToken) ].

(* IdentifierReference: an identifier token that is not a reserved word (`async` starts other productions and
   is left out).  Literal: this, null, true, false, numeric, string, regular expression.  Token types are
   disjoint bit ranges in tokentype.go; [ty] is an unconstrained integer here, hence the first conjunct. *)
Definition ident_tok (k : token) : Prop := is_identifier (ty k) = true /\ ty k <> tt_AsyncToken.
Definition literal_kinds : list Z := [ tt_StringToken; tt_ThisToken; tt_NullToken; tt_TrueToken; tt_FalseToken; tt_RegExpToken ].
Definition literal_tok (k : token) : Prop :=
  is_identifier (ty k) = false /\ (is_numeric (ty k) = true \/ In (ty k) literal_kinds).

Inductive derives : bool -> nt -> list token -> expr -> Prop :=
| D_chain inf a b ts t :
    In (a, b) chain_prods -> derives inf b ts t -> derives inf a ts t
| D_ident inf k :
    ident_tok k -> derives inf Primary [k] (EVar (data k))
| D_literal inf k :
    literal_tok k -> derives inf Primary [k] (ELit (ty k) (data k))
(* ParenthesizedExpression : ( Expression[+In] ) *)
| D_paren inf ko kc ts t :
    ty ko = tt_OpenParenToken -> ty kc = tt_CloseParenToken ->
    derives true Expression ts t -> derives inf Primary (ko :: ts ++ [kc]) (EGroup t)
(* MemberExpression : MemberExpression [ Expression[+In] ] | MemberExpression . IdentifierName *)
| D_member_index inf xs x ko ys y kc :
    derives inf Member xs x -> ty ko = tt_OpenBracketToken -> derives true Expression ys y -> ty kc = tt_CloseBracketToken ->
    derives inf Member (xs ++ ko :: ys ++ [kc]) (EIndex x y)
| D_member_dot inf xs x kd n :
    derives inf Member xs x -> ty kd = tt_DotToken -> is_identifier_name (ty n) = true ->
    derives inf Member (xs ++ [kd; n]) (EDot x (data n))
(* CallExpression : MemberExpression Arguments | CallExpression Arguments | CallExpression [ Expression ] | CallExpression . IdentifierName *)
| D_call_member inf xs x ko ats args :
    derives inf Member xs x -> ty ko = tt_OpenParenToken -> arguments ats args ->
    derives inf Call (xs ++ ko :: ats) (ECall x args)
| D_call_call inf xs x ko ats args :
    derives inf Call xs x -> ty ko = tt_OpenParenToken -> arguments ats args ->
    derives inf Call (xs ++ ko :: ats) (ECall x args)
| D_call_index inf xs x ko ys y kc :
    derives inf Call xs x -> ty ko = tt_OpenBracketToken -> derives true Expression ys y -> ty kc = tt_CloseBracketToken ->
    derives inf Call (xs ++ ko :: ys ++ [kc]) (EIndex x y)
| D_call_dot inf xs x kd n :
    derives inf Call xs x -> ty kd = tt_DotToken -> is_identifier_name (ty n) = true ->
    derives inf Call (xs ++ [kd; n]) (EDot x (data n))
(* UpdateExpression *)
| D_postfix inf xs x k op :
    derives inf LHS xs x -> In (ty k, op) postfix_update_prods -> lt k = false ->
    derives inf Update (xs ++ [k]) (EUnary op x)
| D_prefix_update inf k op xs x :
    In (ty k, op) prefix_update_prods -> derives inf Unary xs x ->
    derives inf Update (k :: xs) (EUnary op x)
(* UnaryExpression *)
| D_unary inf k op xs x :
    In (ty k, op) unary_prods -> derives inf Unary xs x ->
    derives inf Unary (k :: xs) (EUnary op x)
(* the binary productions; the [In] parameter is handed to both operands (it is vacuous for ShiftExpression and
   tighter nonterminals, which have no such parameter in the standard: lemma derives_in_vacuous) *)
| D_binary inf a l ops r xs x k ys y :
    In (a, l, ops, r) binary_prods -> In (ty k) ops ->
    derives inf l xs x -> derives inf r ys y ->
    derives inf a (xs ++ k :: ys) (EBinary (ty k) x y)
(* RelationalExpression[+In] : RelationalExpression[+In] in ShiftExpression *)
| D_in xs x k ys y :
    derives true Relational xs x -> ty k = tt_InToken -> derives true Shift ys y ->
    derives true Relational (xs ++ k :: ys) (EBinary (ty k) x y)
(* CoalesceExpression : CoalesceExpressionHead ?? BitwiseORExpression *)
| D_coalesce inf xs x k ys y :
    derives inf CoalesceHead xs x -> ty k = tt_NullishToken -> derives inf BitOR ys y ->
    derives inf Coalesce (xs ++ k :: ys) (EBinary (ty k) x y)
(* ConditionalExpression[In] : ShortCircuitExpression[?In] ? AssignmentExpression[+In] : AssignmentExpression[?In] *)
| D_cond inf cs c kq xs x kc ys y :
    derives inf ShortCircuit cs c -> ty kq = tt_QuestionToken -> derives true Assignment xs x ->
    ty kc = tt_ColonToken -> derives inf Assignment ys y ->
    derives inf Conditional (cs ++ kq :: xs ++ kc :: ys) (ECond c x y)
(* Expression : Expression , AssignmentExpression   (one flat CommaExpr node) *)
| D_comma inf xs x k ys y :
    derives inf Expression xs x -> ty k = tt_CommaToken -> derives inf Assignment ys y ->
    derives inf Expression (xs ++ k :: ys) (comma_snoc x y)
(* Arguments : ( ) | ( ArgumentList ) | ( ArgumentList , )   — the token list starts after the '(' *)
with arguments : list token -> list expr -> Prop :=
| A_end kc :
    ty kc = tt_CloseParenToken -> arguments [kc] []
| A_last ts a kc :
    derives true Assignment ts a -> ty kc = tt_CloseParenToken -> arguments (ts ++ [kc]) [a]
| A_cons ts a k rest l :
    derives true Assignment ts a -> ty k = tt_CommaToken -> arguments rest l ->
    arguments (ts ++ k :: rest) (a :: l).

Scheme derives_mind := Induction for derives Sort Prop
  with arguments_mind := Induction for arguments Sort Prop.
Combined Scheme derives_arguments_ind from derives_mind, arguments_mind.

(* ---- the level table of the standard, in the shape of Gen/PrattTable.v ------------------------------- *)

(* which OpPrec constant of js/table.go stands for which nonterminal (by name) *)
Definition code_level (n : nt) : Z :=
  match n with
  | Expression => prec_OpExpr
  | Assignment | Conditional => prec_OpAssign        (* a?b:c and a=b share OpAssign *)
  | ShortCircuit | Coalesce | CoalesceHead => prec_OpCoalesce
  | LogicalOR => prec_OpOr
  | LogicalAND => prec_OpAnd
  | BitOR => prec_OpBitOr
  | BitXOR => prec_OpBitXor
  | BitAND => prec_OpBitAnd
  | Equality => prec_OpEquals
  | Relational => prec_OpCompare
  | Shift => prec_OpShift
  | Additive => prec_OpAdd
  | Multiplicative => prec_OpMul
  | Exponentiation => prec_OpExp
  | Unary => prec_OpUnary
  | Update => prec_OpUpdate
  | LHS => prec_OpLHS
  | Call => prec_OpCall
  | Member => prec_OpMember
  | Primary => prec_OpPrimary
  end.

(* a table entry: (0 suffix | 1 prefix, token, shape, parameters) *)
Definition entry := (Z * Z * Z * list Z)%type.

Definition entries_of (kind : Z) (rows : list (Z * list Z * list Z)) : list entry :=
  concat (map (fun r => match r with (sh, toks, ps) =>
                 if sh =? 0 then [] else map (fun t => (kind, t, sh, ps)) toks end) rows).

Definition entry_le (a b : entry) : bool :=
  match a, b with
  | (k1, t1, _, _), (k2, t2, _, _) => (k1 <? k2) || ((k1 =? k2) && (t1 <=? t2))
  end.
Fixpoint insert_entry (e : entry) (l : list entry) : list entry :=
  match l with
  | [] => [e]
  | h :: t => if entry_le e h then e :: l else h :: insert_entry e t
  end.
Definition sort_entries (l : list entry) : list entry := fold_right insert_entry [] l.

(* what translator T3 read off js/parse.go *)
Definition pratt_rows_of_code : list entry :=
  sort_entries (entries_of 0 pratt_suffix_rows ++ entries_of 1 pratt_prefix_rows).

(* the same table computed from the productions above.  [upd] is the level recorded for `++x` / `--x`:
   the standard makes them UpdateExpressions. *)
Definition lv := code_level.
Definition std_rows (upd : nt) : list entry :=
  sort_entries (
    (* A : B op C  —  L = A, R = B, S = C, N = A *)
    concat (map (fun p => match p with (a, l, ops, r) =>
              if (lv a =? lv Relational) then []
              else map (fun t => (0, t, 1, [lv a; lv l; lv r; lv a])) ops end) binary_prods)
    (* relational operators, `in` subject to [In] *)
    ++ map (fun t => (0, t, 2, [lv Relational; lv Relational; lv Shift; lv Relational; tt_InToken])) (rel_ops ++ [tt_InToken])
    (* Coalesce : (Coalesce | BitOR) ?? BitOR *)
    ++ [(0, tt_NullishToken, 3, [lv Coalesce; lv BitOR; lv Coalesce; lv BitOR; lv Coalesce])]
    (* member access needs a LeftHandSideExpression on the left; a MemberExpression stays one *)
    ++ [(0, tt_DotToken, 4, [lv LHS; lv Member]);
        (0, tt_OpenBracketToken, 5, [lv LHS; lv Member; lv Expression]);
        (0, tt_OpenParenToken, 6, [lv Call; lv LHS; lv Call])]
    ++ map (fun p => (0, fst p, 7, [lv Update; lv LHS; snd p; lv Update])) postfix_update_prods
    ++ [(0, tt_QuestionToken, 8, [lv Conditional; lv ShortCircuit; lv Assignment; lv Assignment; lv Conditional]);
        (0, tt_CommaToken, 9, [lv Expression; lv Assignment; lv Expression])]
    (* prefix position *)
    ++ map (fun t => (1, t, 2, [])) literal_kinds
    ++ [(1, tt_OpenParenToken, 3, [lv Assignment; lv Expression])]   (* an arrow head can only stand where an AssignmentExpression can *)
    ++ map (fun p => (1, fst p, 1, [lv Unary; (if fst p =? snd p then -1 else snd p); lv Unary; lv Unary])) unary_prods
    ++ map (fun p => (1, fst p, 1, [lv Update; snd p; lv Unary; lv upd])) prefix_update_prods).

Definition pratt_rows_of_ecma262 : list entry := std_rows Update.
