(* JsExpr/Pratt.v — executable model of js/parse.go: parseExpression, parseExpressionSuffix, parseArguments,
   parseParenthesizedExpression (the non-async, non-arrow part) and the expression-statement part of
   parseModule/parseStmt.  The operator arms are not written here: they are the rows of Gen/PrattTable.v,
   which translator T3 regenerates from the Go source on every run; this file is the driver loop.

   Not modelled (results are [OutFrag] where the code would go there): array/object literals, templates,
   new/import/super/yield/await/async/class/function, optional chaining, arrow functions, spread, regular
   expressions (the re-lex at '/' is modelled only where it must fail: end of line or end of input follows),
   the nesting limit NestedExprLimit (C01), scopes (C04).  Definitions only. *)
From Verif Require Import Common.Base Gen.PrattTable JsExpr.Syntax.

Definition row := (Z * list Z * list Z)%type.

(* a Go switch takes the first case that lists the value *)
Fixpoint find_row (k : Z) (rows : list row) : option (Z * list Z) :=
  match rows with
  | [] => None
  | (sh, toks, ps) :: r => if existsb (Z.eqb k) toks then Some (sh, ps) else find_row k r
  end.

Definition suffix_arm (k : Z) := find_row k pratt_suffix_rows.
Definition prefix_arm (k : Z) := find_row k pratt_prefix_rows.

Definition primary := pratt_primary_level.

(* `else if pC < precLeft { precLeft = pC }` *)
Definition cap (c pl : Z) : Z := if c <? pl then c else pl.

(* p.l.RegExp() at a '/' or '/=' token fails when a line terminator or the end of input comes before any
   closing '/'; with tokens separated only by white space that is: the next token is on a new line, or
   there is none.  Every other continuation is a regular expression literal (outside the fragment). *)
Definition regexp_fails (rest : list token) : bool :=
  match rest with [] => true | k :: _ => lt k end.

Definition expect (t : Z) (ts : list token) : res (list token) :=
  match ts with
  | k :: r => if ty k =? t then Ok r else Fail
  | [] => Fail
  end.

Fixpoint parse_expr (fuel : nat) (inf : bool) (prec : Z) (ts : list token) {struct fuel} : res (expr * list token) :=
  match fuel with
  | O => NoFuel
  | S f =>
    match ts with
    | [] => Fail                                     (* ErrorToken: default arm *)
    | k :: rest =>
      if (ty k =? tt_DivToken) || (ty k =? tt_DivEqToken) then
        if regexp_fails rest then Fail else OutFrag
      else if is_identifier (ty k) && negb (ty k =? tt_AsyncToken) then
        parse_suffix f inf (EVar (data k)) prec primary rest
      else if is_numeric (ty k) then
        parse_suffix f inf (ELit (ty k) (data k)) prec primary rest
      else
        match prefix_arm (ty k) with
        | None => Fail
        | Some (sh, ps) =>
          if sh =? 2 then parse_suffix f inf (ELit (ty k) (data k)) prec primary rest
          else if sh =? 1 then
            match ps with
            | [pG; pO; pS; pN] =>
                if pG <? prec then Fail
                else '(x, r) <~ parse_expr f inf pS rest ;;
                     parse_suffix f inf (EUnary (if pO =? -1 then ty k else pO) x) prec pN r
            | _ => OutFrag
            end
          else if sh =? 3 then
            match ps with
            | [pG; pS] =>
                if pG <? prec then
                  (* must be a parenthesized expression *)
                  '(x, r) <~ parse_expr f true pS rest ;;
                  r' <~ expect tt_CloseParenToken r ;;
                  parse_suffix f inf (EGroup x) prec primary r'
                else
                  (* parseParenthesizedExpression(prec, nil) *)
                  '(args, tc, r) <~ parse_cover f rest [] false ;;
                  if (match r with a :: _ => ty a =? tt_ArrowToken | [] => false end) then OutFrag   (* arrow function *)
                  else
                    match args with
                    | [] => Fail                         (* "expected =>" *)
                    | _ =>
                      if tc then Fail                    (* `!isAsync && (0 < rests || trailingComma)` *)
                      else
                        match args with
                        | [x] => parse_suffix f inf (EGroup x) prec primary r
                        | _ => parse_suffix f inf (EGroup (EComma args)) prec primary r
                        end
                    end
            | _ => OutFrag
            end
          else OutFrag
        end
    end
  end

with parse_suffix (fuel : nat) (inf : bool) (left : expr) (prec pl : Z) (ts : list token) {struct fuel} : res (expr * list token) :=
  match fuel with
  | O => NoFuel
  | S f =>
    match ts with
    | [] => Ok (left, [])
    | k :: rest =>
      match suffix_arm (ty k) with
      | None => Ok (left, ts)
      | Some (sh, ps) =>
        if sh =? 1 then
          match ps with
          | [pL; pR; pS; pN] =>
              if pL <? prec then Ok (left, ts)
              else if pl <? pR then Fail
              else '(y, r) <~ parse_expr f inf pS rest ;;
                   parse_suffix f inf (EBinary (ty k) left y) prec pN r
          | _ => OutFrag
          end
        else if sh =? 2 then
          match ps with
          | [pL; pR; pS; pN; pT] =>
              if (pL <? prec) || (negb inf && (ty k =? pT)) then Ok (left, ts)
              else if pl <? pR then Fail
              else '(y, r) <~ parse_expr f inf pS rest ;;
                   parse_suffix f inf (EBinary (ty k) left y) prec pN r
          | _ => OutFrag
          end
        else if sh =? 3 then
          match ps with
          | [pL; pR; pX; pS; pN] =>
              if pL <? prec then Ok (left, ts)
              else if (pl <? pR) && negb (pl =? pX) then Fail
              else '(y, r) <~ parse_expr f inf pS rest ;;
                   parse_suffix f inf (EBinary (ty k) left y) prec pN r
          | _ => OutFrag
          end
        else if sh =? 4 then
          match ps with
          | [pR; pC] =>
              if pl <? pR then Fail
              else match rest with
                   | n :: r =>
                       if ty n =? tt_PrivateIdentifierToken then OutFrag
                       else if is_identifier_name (ty n) then parse_suffix f inf (EDot left (data n)) prec (cap pC pl) r
                       else Fail
                   | [] => Fail
                   end
          | _ => OutFrag
          end
        else if sh =? 5 then
          match ps with
          | [pR; pC; pS] =>
              if pl <? pR then Fail
              else '(y, r) <~ parse_expr f true pS rest ;;
                   r' <~ expect tt_CloseBracketToken r ;;
                   parse_suffix f inf (EIndex left y) prec (cap pC pl) r'
          | _ => OutFrag
          end
        else if sh =? 6 then
          match ps with
          | [pL; pR; pC] =>
              if pL <? prec then Ok (left, ts)
              else if pl <? pR then Fail
              else '(args, r) <~ parse_args f rest [] ;;
                   parse_suffix f inf (ECall left args) prec (cap pC pl) r
          | _ => OutFrag
          end
        else if sh =? 7 then
          match ps with
          | [pL; pR; pO; pN] =>
              if lt k || (pL <? prec) then Ok (left, ts)
              else if pl <? pR then Fail
              else parse_suffix f inf (EUnary pO left) prec pN rest
          | _ => OutFrag
          end
        else if sh =? 8 then
          match ps with
          | [pL; pR; pS; pE; pN] =>
              if pL <? prec then Ok (left, ts)
              else if pl <? pR then Fail
              else '(x, r) <~ parse_expr f true pS rest ;;
                   r' <~ expect tt_ColonToken r ;;
                   '(y, r'') <~ parse_expr f inf pE r' ;;
                   parse_suffix f inf (ECond left x y) prec pN r''
          | _ => OutFrag
          end
        else if sh =? 9 then
          match ps with
          | [pL; pS; pN] =>
              if pL <? prec then Ok (left, ts)
              else '(y, r) <~ parse_expr f inf pS rest ;;
                   parse_suffix f inf (comma_snoc left y) prec pN r
          | _ => OutFrag
          end
        else OutFrag
      end
    end
  end

(* parseArguments after its '(' : acc holds the arguments so far, reversed *)
with parse_args (fuel : nat) (ts : list token) (acc : list expr) {struct fuel} : res (list expr * list token) :=
  match fuel with
  | O => NoFuel
  | S f =>
    match ts with
    | [] => Fail
    | k :: r =>
      if ty k =? tt_CloseParenToken then Ok (rev acc, r)
      else if ty k =? tt_EllipsisToken then OutFrag
      else '(a, r1) <~ parse_expr f true pratt_args_level ts ;;
           match r1 with
           | [] => Fail
           | c :: r2 =>
               if ty c =? tt_CloseParenToken then Ok (rev (a :: acc), r2)
               else if ty c =? tt_CommaToken then parse_args f r2 (a :: acc)
               else Fail
           end
    end
  end

(* the argument loop of parseParenthesizedExpression after its '(' up to and including ')'; tc is the trailingComma
   flag (`trailingComma = p.tt == CloseParenToken` after each consumed comma).
   parseAssignExprOrParam: with assumeArrowFunc set, an identifier is declared as a parameter and continued by
   parseExpressionSuffix(left, OpAssign, OpPrimary); otherwise parseExpression(OpAssign) — which for an
   identifier builds the same Var and enters the same loop, so both are [parse_expr OpAssign] here. *)
with parse_cover (fuel : nat) (ts : list token) (acc : list expr) (tc : bool) {struct fuel} : res (list expr * bool * list token) :=
  match fuel with
  | O => NoFuel
  | S f =>
    match ts with
    | [] => Fail
    | k :: r =>
      if ty k =? tt_CloseParenToken then Ok (rev acc, tc, r)
      else if ty k =? tt_EllipsisToken then OutFrag
      else '(a, r1) <~ parse_expr f true prec_OpAssign ts ;;
           match r1 with
           | [] => Fail
           | c :: r2 =>
               if ty c =? tt_CommaToken then
                 parse_cover f r2 (a :: acc) (match r2 with k2 :: _ => ty k2 =? tt_CloseParenToken | [] => false end)
               else if ty c =? tt_CloseParenToken then Ok (rev (a :: acc), false, r2)
               else Fail
           end
    end
  end.

Definition fuel_for (ts : list token) : nat := 2 * length ts + 2.

Definition parse (inf : bool) (prec : Z) (ts : list token) : res (expr * list token) :=
  parse_expr (fuel_for ts) inf prec ts.

(* ---- statements: the part of parseModule / parseStmt reached by expression statements ---------------- *)

(* the tail of parseStmt:
     `if p.tt == SemicolonToken { if !p.prevLT { p.next() } else { switch stmt.(type) { case ..., *ExprStmt, ...: p.next() } } }`
   [always]: the statement is of a kind that is terminated by a semicolon (here: ExprStmt), so the ';' is taken on a
   next line as well; an EmptyStmt or LabelledStmt takes a following ';' on the same line only. *)
Definition skip_semi (always : bool) (ts : list token) : list token :=
  match ts with
  | c :: r => if (always || negb (lt c)) && (ty c =? tt_SemicolonToken) then r else ts
  | [] => ts
  end.

(* `if !p.prevLT && p.tt != SemicolonToken && p.tt != CloseBraceToken && p.tt != ErrorToken { fail }` *)
Definition stmt_end_ok (ts : list token) : bool :=
  match ts with
  | c :: _ => lt c || (ty c =? tt_SemicolonToken) || (ty c =? tt_CloseBraceToken)
  | [] => true
  end.

(* token types whose parseStmt/parseModule arm is not the expression arm *)
Definition stmt_keyword (t : Z) : bool :=
  existsb (Z.eqb t)
    [tt_OpenBraceToken; tt_ConstToken; tt_VarToken; tt_IfToken; tt_ContinueToken; tt_BreakToken;
     tt_WithToken; tt_DoToken; tt_WhileToken; tt_ForToken; tt_SwitchToken; tt_FunctionToken; tt_AsyncToken;
     tt_ClassToken; tt_ThrowToken; tt_TryToken; tt_DebuggerToken; tt_ImportToken; tt_ExportToken;
     tt_ReturnToken; tt_YieldToken; tt_AwaitToken].

Fixpoint parse_stmt (n : nat) (ts : list token) {struct n} : res (stmt * list token) :=
  match n with
  | O => NoFuel
  | S m =>
    match ts with
    | [] => Ok (SEmpty, [])                            (* case ErrorToken *)
    | k :: rest =>
      if ty k =? tt_SemicolonToken then Ok (SEmpty, skip_semi false rest)
      else if stmt_keyword (ty k) then OutFrag
      else if ty k =? tt_LetToken then
        (* case LetToken: a declaration when an identifier, yield, await, '[' or '{' follows; else the identifier `let` *)
        match rest with
        | c :: _ =>
            if is_identifier (ty c) || (ty c =? tt_YieldToken) || (ty c =? tt_AwaitToken)
               || (ty c =? tt_OpenBracketToken) || (ty c =? tt_OpenBraceToken) then OutFrag
            else
              '(e, r') <~ parse_suffix (fuel_for rest) true (EVar (data k)) prec_OpExpr primary rest ;;
              if stmt_end_ok r' then Ok (SExpr e, skip_semi true r') else Fail
        | [] => Ok (SExpr (EVar (data k)), [])
        end
      else if is_identifier (ty k) then
        match rest with
        | c :: r =>
            if ty c =? tt_ColonToken then
              '(s, r') <~ parse_stmt m r ;; Ok (SLabel (data k) s, skip_semi false r')
            else
              '(e, r') <~ parse_suffix (fuel_for rest) true (EVar (data k)) prec_OpExpr primary rest ;;
              if stmt_end_ok r' then Ok (SExpr e, skip_semi true r') else Fail
        | [] => Ok (SExpr (EVar (data k)), [])
        end
      else
        '(e, r') <~ parse_expr (fuel_for ts) true prec_OpExpr ts ;;
        if stmt_end_ok r' then Ok (SExpr e, skip_semi true r') else Fail
    end
  end.

Fixpoint parse_module (n : nat) (ts : list token) (acc : list stmt) {struct n} : res (list stmt) :=
  match n with
  | O => NoFuel
  | S m =>
    match ts with
    | [] => Ok (rev acc)
    | _ => '(s, r) <~ parse_stmt (S (length ts)) ts ;; parse_module m r (s :: acc)
    end
  end.

Definition parse_program (ts : list token) : res (list stmt) := parse_module (S (length ts)) ts [].
