(* JsExpr/Syntax.v — tokens and trees of the JS operator fragment (C03/C05).
   A token is what Parser.next() leaves in (p.tt, p.data, p.prevLT); white space, line terminators and
   comments are already folded into the [lt] flag, exactly as next() does.  Definitions only. *)
From Verif Require Import Common.Base Gen.Tables Gen.PrattTable.

Record token := mkTok { ty : Z; lt : bool; data : list Z }.

(* js/ast.go: Var, LiteralExpr, GroupExpr, UnaryExpr, BinaryExpr, CondExpr, DotExpr, IndexExpr, CallExpr
   (Args without spread), CommaExpr.  The Prec/Optional fields of DotExpr/IndexExpr/CallExpr are not
   observable through String() or JS() and are not recorded. *)
Inductive expr :=
| EVar (name : list Z)
| ELit (t : Z) (d : list Z)
| EGroup (x : expr)
| EUnary (op : Z) (x : expr)
| EBinary (op : Z) (x y : expr)
| ECond (c x y : expr)
| EDot (x : expr) (name : list Z)
| EIndex (x y : expr)
| ECall (x : expr) (args : list expr)
| EComma (l : list expr).

(* the CommaExpr arm of parseExpressionSuffix: append to an existing CommaExpr, else start one
   (`Expression : Expression , AssignmentExpression` builds one flat list node) *)
Definition comma_snoc (left y : expr) : expr :=
  match left with
  | EComma l => EComma (l ++ [y])
  | _ => EComma [left; y]
  end.

(* ExprStmt, EmptyStmt, LabelledStmt *)
Inductive stmt :=
| SExpr (e : expr)
| SEmpty
| SLabel (name : list Z) (s : stmt).

Inductive res (A : Type) :=
| Ok (a : A)
| Fail            (* p.fail / p.failMessage: Parse returns an error *)
| OutFrag         (* the code takes a path that is outside the modelled fragment *)
| NoFuel.
Arguments Ok {A} a.
Arguments Fail {A}.
Arguments OutFrag {A}.
Arguments NoFuel {A}.

Definition rbind {A B} (r : res A) (f : A -> res B) : res B :=
  match r with Ok a => f a | Fail => Fail | OutFrag => OutFrag | NoFuel => NoFuel end.
Notation "x <~ e ;; k" := (rbind e (fun x => k)) (at level 61, e at next level, right associativity).
Notation "' p <~ e ;; k" := (rbind e (fun x => match x with p => k end))
  (at level 61, p pattern, e at next level, right associativity).

(* tokentype.go predicates (bit tests on the uint16 token type) *)
Definition is_numeric (t : Z) : bool := negb (Z.land t 256 =? 0).
Definition is_identifier (t : Z) : bool := negb (Z.land t 4096 =? 0).
Definition is_identifier_name (t : Z) : bool := negb (Z.land t 6144 =? 0).

(* TokenType.Bytes(): canonical bytes of an operator / reserved word (Gen/Tables.v, dumped from the code) *)
Fixpoint assoc_bytes (t : Z) (l : list (Z * list Z)) : list Z :=
  match l with
  | [] => []
  | (k, b) :: r => if k =? t then b else assoc_bytes t r
  end.
Definition tok_bytes (t : Z) : list Z := assoc_bytes t js_token_bytes.

Definition ch_lp := 40. Definition ch_rp := 41. Definition ch_sp := 32. Definition ch_comma := 44.

Fixpoint join_with (sep : list Z) (l : list (list Z)) : list Z :=
  match l with
  | [] => []
  | [a] => a
  | a :: r => a ++ sep ++ join_with sep r
  end.

(* the String() methods of js/ast.go *)
Fixpoint show (e : expr) : list Z :=
  match e with
  | EVar n => n
  | ELit _ d => d
  | EGroup x => [ch_lp] ++ show x ++ [ch_rp]
  | EUnary op x =>
      if (op =? tt_PostIncrToken) || (op =? tt_PostDecrToken) then [ch_lp] ++ show x ++ tok_bytes op ++ [ch_rp]
      else if is_identifier_name op then [ch_lp] ++ tok_bytes op ++ [ch_sp] ++ show x ++ [ch_rp]
      else [ch_lp] ++ tok_bytes op ++ show x ++ [ch_rp]
  | EBinary op x y =>
      if is_identifier_name op then [ch_lp] ++ show x ++ [ch_sp] ++ tok_bytes op ++ [ch_sp] ++ show y ++ [ch_rp]
      else [ch_lp] ++ show x ++ tok_bytes op ++ show y ++ [ch_rp]
  | ECond c x y => [ch_lp] ++ show c ++ [32; 63; 32] ++ show x ++ [32; 58; 32] ++ show y ++ [ch_rp]
  | EDot x n => [ch_lp] ++ show x ++ [46] ++ n ++ [ch_rp]
  | EIndex x y => [ch_lp] ++ show x ++ [91] ++ show y ++ [93; ch_rp]
  | ECall x args => [ch_lp] ++ show x ++ [ch_lp] ++ join_with [ch_comma; ch_sp] (map show args) ++ [ch_rp; ch_rp]
  | EComma l => [ch_lp] ++ join_with [ch_comma] (map show l) ++ [ch_rp]
  end.

Definition lastz (l : list Z) : Z := last l 0.

(* "Stmt" = 83 116 109 116 *)
Fixpoint show_stmt (s : stmt) : list Z :=
  match s with
  | SExpr e =>
      let v := show e in
      if (match v with c :: _ => c | [] => 0 end =? ch_lp) && (lastz v =? ch_rp) then [83; 116; 109; 116] ++ v
      else [83; 116; 109; 116; ch_lp] ++ v ++ [ch_rp]
  | SEmpty => [83; 116; 109; 116; ch_lp; ch_rp]
  | SLabel n s => [83; 116; 109; 116; ch_lp] ++ n ++ [32; 58; 32] ++ show_stmt s ++ [ch_rp]
  end.
