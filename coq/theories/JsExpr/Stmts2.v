(* JsExpr/Stmts2.v — the statement model (StmtModel.v) against a grammar of the statement fragment: every statement list
   built from expression statements, empty statements, labelled statements, blocks, if / else, while and do-while (each with
   the tree the grammar prescribes, automatic semicolon insertion included) is parsed to exactly that list. *)
From Coq Require Import ZifyBool.
From Verif Require Import Common.Base Common.Tactics Gen.PrattTable JsExpr.Syntax JsExpr.Pratt JsExpr.Grammar
  JsExpr.Spec JsExpr.TableFacts JsExpr.Fuel JsExpr.Sound JsExpr.Complete JsExpr.Equiv JsExpr.Proofs JsExpr.Stmts JsExpr.StmtModel.

Definition inj (s : stmt) : xstmt :=
  match s with SExpr e => XExpr e | SEmpty => XEmpty | SLabel n _ => XLabel n XEmpty end.

(* ---- one step of parse_xstmt per form -------------------------------------------------------------------------------- *)

Lemma xstep_block m w ad k rest : ty k = tt_OpenBraceToken ->
  parse_xstmt (S m) w ad (k :: rest) = ('(l, r) <~ parse_xlist m w rest [] ;; Ok (XBlock l, skip_semi false r)).
Proof. intros E. cbn [parse_xstmt]. rewrite E. reflexivity. Qed.

Lemma xstep_if m w ad k rest : ty k = tt_IfToken ->
  parse_xstmt (S m) w ad (k :: rest) =
  (r1 <~ expect tt_OpenParenToken rest ;;
   '(c, r2) <~ parse true prec_OpExpr r1 ;;
   r3 <~ expect tt_CloseParenToken r2 ;;
   '(s, r4) <~ parse_xstmt m w false r3 ;;
   match r4 with
   | e :: r5 =>
       if ty e =? tt_ElseToken then '(s2, r6) <~ parse_xstmt m w false r5 ;; Ok (XIf c s (Some s2), skip_semi false r6)
       else Ok (XIf c s None, skip_semi false r4)
   | [] => Ok (XIf c s None, [])
   end).
Proof. intros E. cbn [parse_xstmt]. rewrite E. reflexivity. Qed.

Lemma xstep_while m w ad k rest : ty k = tt_WhileToken ->
  parse_xstmt (S m) w ad (k :: rest) =
  (r1 <~ expect tt_OpenParenToken rest ;;
   '(c, r2) <~ parse true prec_OpExpr r1 ;;
   r3 <~ expect tt_CloseParenToken r2 ;;
   '(s, r4) <~ parse_xstmt m w false r3 ;;
   if w then Ok (XFor FNone (Some c) None (match s with XBlock l => l | _ => [s] end), skip_semi false r4)
   else Ok (XWhile c s, skip_semi false r4)).
Proof. intros E. cbn [parse_xstmt]. rewrite E. reflexivity. Qed.

Lemma xstep_throw m w ad k c rest : ty k = tt_ThrowToken -> lt c = false ->
  parse_xstmt (S m) w ad (k :: c :: rest) = ('(e, r) <~ parse true prec_OpExpr (c :: rest) ;; Ok (XThrow e, skip_semi true r)).
Proof. intros E Hl. cbn [parse_xstmt]. rewrite E. change (tt_ThrowToken =? tt_OpenBraceToken) with false. cbn. rewrite Hl. reflexivity. Qed.

Lemma xstep_var m w ad k rest : ty k = tt_VarToken ->
  parse_xstmt (S m) w ad (k :: rest) =
  ('(l, r) <~ parse_xvar (S (length rest)) true rest [] ;; if stmt_end_ok r then Ok (XVar l, skip_semi true r) else Fail).
Proof. intros E. cbn [parse_xstmt]. rewrite E. reflexivity. Qed.

Lemma xstep_const m w k rest : ty k = tt_ConstToken ->
  parse_xstmt (S m) w true (k :: rest) =
  ('(l, r) <~ parse_xvar (S (length rest)) true rest [] ;;
   if negb (forallb (fun b : list Z * option expr => match snd b with Some _ => true | None => false end) l) then Fail
   else if stmt_end_ok r then Ok (XLex tt_ConstToken l, skip_semi true r) else Fail).
Proof. intros E. cbn [parse_xstmt]. rewrite E. reflexivity. Qed.

Lemma xstep_branch m w ad k rest : ty k = tt_BreakToken \/ ty k = tt_ContinueToken ->
  parse_xstmt (S m) w ad (k :: rest) =
  match rest with
  | c :: r =>
      if negb (lt c) && is_identifier (ty c) then Ok (XBranch (ty k) (Some (data c)), skip_semi true r)
      else if negb (lt c) && ((ty c =? tt_YieldToken) || (ty c =? tt_AwaitToken)) then OutFrag
      else Ok (XBranch (ty k) None, skip_semi true rest)
  | [] => Ok (XBranch (ty k) None, [])
  end.
Proof. intros [E|E]; cbn [parse_xstmt]; rewrite E; reflexivity. Qed.

Lemma xstep_do m w ad k rest : ty k = tt_DoToken ->
  parse_xstmt (S m) w ad (k :: rest) =
  ('(s, r1) <~ parse_xstmt m w false rest ;;
   r2 <~ expect tt_WhileToken r1 ;;
   r3 <~ expect tt_OpenParenToken r2 ;;
   '(c, r4) <~ parse true prec_OpExpr r3 ;;
   r5 <~ expect tt_CloseParenToken r4 ;;
   Ok (XDo s c, skip_semi true r5)).
Proof. intros E. cbn [parse_xstmt]. rewrite E. reflexivity. Qed.

Lemma xstep_label m w ad k c rest : label_tok k -> ty c = tt_ColonToken ->
  parse_xstmt (S m) w ad (k :: c :: rest) = ('(s, r') <~ parse_xstmt m w true rest ;; Ok (XLabel (data k) s, skip_semi false r')).
Proof.
  intros [Hi [Hl Hk]] Ec. cbn [parse_xstmt].
  assert (K : forall t, In t [tt_OpenBraceToken; tt_VarToken; tt_ConstToken; tt_IfToken; tt_WhileToken; tt_ForToken; tt_DoToken; tt_DebuggerToken; tt_WithToken; tt_TryToken; tt_SwitchToken; tt_ThrowToken; tt_BreakToken; tt_ContinueToken] ->
              (ty k =? t) = false).
  { intros t Hin. apply Z.eqb_neq. intros E. rewrite E in Hk. cbn [In] in Hin.
    repeat (destruct Hin as [Hin|Hin]; [subst t; vm_compute in Hk; discriminate|]). contradiction. }
  apply Z.eqb_neq in Hl. rewrite Hl. cbn [andb].
  rewrite !K by (cbn; tauto). cbn [orb]. rewrite Hk, Hi, Ec, Z.eqb_refl. cbn [negb andb tl]. reflexivity.
Qed.

(* the statements of Pratt.v pass through *)
Lemma xstep_base m w ad ts s rest : ts <> [] ->
  parse_stmt (S (length ts)) ts = Ok (s, rest) -> (forall n v, s <> SLabel n v) ->
  parse_xstmt (S m) w ad ts = Ok (inj s, rest).
Proof.
  intros Hne Hs Hnl. destruct ts as [|k r]; [contradiction|].
  assert (K : forall t, In t [tt_OpenBraceToken; tt_VarToken; tt_ConstToken; tt_IfToken; tt_WhileToken; tt_ForToken; tt_DoToken; tt_DebuggerToken; tt_WithToken; tt_TryToken; tt_SwitchToken; tt_ThrowToken; tt_BreakToken; tt_ContinueToken] ->
              (ty k =? t) = false).
  { intros t Hin. apply Z.eqb_neq. intros E. cbn [parse_stmt] in Hs. rewrite E in Hs. cbn [In] in Hin.
    repeat (destruct Hin as [Hin|Hin]; [subst t; vm_compute in Hs; discriminate|]). contradiction. }
  assert (L : (ty k =? tt_LetToken) && ad &&
              match r with c :: _ => is_identifier (ty c) || (ty c =? tt_YieldToken) || (ty c =? tt_AwaitToken)
                                     || (ty c =? tt_OpenBracketToken) || (ty c =? tt_OpenBraceToken) | [] => false end = false).
  { destruct (ty k =? tt_LetToken) eqn:Elet; [|reflexivity]. destruct ad; [|reflexivity]. cbn [andb].
    destruct r as [|c r']; [reflexivity|].
    destruct (is_identifier (ty c) || (ty c =? tt_YieldToken) || (ty c =? tt_AwaitToken) || (ty c =? tt_OpenBracketToken) || (ty c =? tt_OpenBraceToken)) eqn:Eb; [|reflexivity].
    exfalso. cbn [parse_stmt] in Hs. apply Z.eqb_eq in Elet. rewrite Elet in Hs.
    change (tt_LetToken =? tt_SemicolonToken) with false in Hs. change (stmt_keyword tt_LetToken) with false in Hs.
    change (tt_LetToken =? tt_LetToken) with true in Hs. cbv iota in Hs. rewrite Eb in Hs. discriminate. }
  assert (L2 : (ty k =? tt_LetToken) && negb ad &&
              match r with c :: _ => is_identifier (ty c) || (ty c =? tt_YieldToken) || (ty c =? tt_AwaitToken)
                                     || (ty c =? tt_OpenBracketToken) || (ty c =? tt_OpenBraceToken) | [] => false end = false).
  { destruct (ty k =? tt_LetToken) eqn:Elet; [|reflexivity]. destruct ad; [reflexivity|]. cbn [andb negb].
    destruct r as [|c r']; [reflexivity|].
    destruct (is_identifier (ty c) || (ty c =? tt_YieldToken) || (ty c =? tt_AwaitToken) || (ty c =? tt_OpenBracketToken) || (ty c =? tt_OpenBraceToken)) eqn:Eb; [|reflexivity].
    exfalso. cbn [parse_stmt] in Hs. apply Z.eqb_eq in Elet. rewrite Elet in Hs.
    change (tt_LetToken =? tt_SemicolonToken) with false in Hs. change (stmt_keyword tt_LetToken) with false in Hs.
    change (tt_LetToken =? tt_LetToken) with true in Hs. cbv iota in Hs. rewrite Eb in Hs. discriminate. }
  cbn [parse_xstmt]. rewrite L, L2. rewrite !K by (cbn; tauto). cbn [orb].
  destruct (negb (stmt_keyword (ty k)) && negb (ty k =? tt_LetToken) && is_identifier (ty k) &&
            match r with c :: _ => ty c =? tt_ColonToken | [] => false end) eqn:El.
  - exfalso. apply andb_true_iff in El. destruct El as [El Ec]. apply andb_true_iff in El. destruct El as [El Ei].
    apply andb_true_iff in El. destruct El as [Ek Elet]. apply negb_true_iff in Ek. apply negb_true_iff in Elet.
    destruct r as [|c r']; [discriminate|].
    cbn [parse_stmt] in Hs. rewrite Ek, Elet, Ei, Ec in Hs.
    destruct (ty k =? tt_SemicolonToken) eqn:Es.
    { apply Z.eqb_eq in Es. rewrite Es in Ei. vm_compute in Ei. discriminate. }
    apply rbind_ok in Hs. destruct Hs as [[s0 r0] [_ Hs]]. inversion Hs; subst. eapply Hnl; reflexivity.
  - rewrite Hs. cbn [rbind]. destruct s; cbn [xwrap rbind inj]; try reflexivity. exfalso. eapply Hnl; reflexivity.
Qed.

Lemma xstep_debugger m w ad k rest : ty k = tt_DebuggerToken -> parse_xstmt (S m) w ad (k :: rest) = Ok (XDebugger, skip_semi true rest).
Proof. intros E. cbn [parse_xstmt]. rewrite E. reflexivity. Qed.

Lemma xstep_with m w ad k rest : ty k = tt_WithToken ->
  parse_xstmt (S m) w ad (k :: rest) =
  (r1 <~ expect tt_OpenParenToken rest ;;
   '(c, r2) <~ parse true prec_OpExpr r1 ;;
   r3 <~ expect tt_CloseParenToken r2 ;;
   '(s, r4) <~ parse_xstmt m w false r3 ;;
   Ok (XWith c s, skip_semi false r4)).
Proof. intros E. cbn [parse_xstmt]. rewrite E. reflexivity. Qed.

Lemma xstep_try m w ad k rest : ty k = tt_TryToken ->
  parse_xstmt (S m) w ad (k :: rest) = try_arm (fun ts' => parse_xlist m w ts' []) rest.
Proof. intros E. cbn [parse_xstmt]. rewrite E. reflexivity. Qed.

Lemma xstep_switch m w ad k rest : ty k = tt_SwitchToken ->
  parse_xstmt (S m) w ad (k :: rest) = switch_arm (fun ts' => parse_xclauses m w ts' []) rest.
Proof. intros E. cbn [parse_xstmt]. rewrite E. reflexivity. Qed.

Lemma xstep_cstmts_end m w ts acc : ends_clause ts = true -> parse_xcstmts (S m) w ts acc = Ok (rev acc, ts).
Proof. intros E. cbn [parse_xcstmts]. rewrite E. reflexivity. Qed.

Lemma xstep_cstmts_cons m w ts acc : ends_clause ts = false ->
  parse_xcstmts (S m) w ts acc = ('(s, r) <~ parse_xstmt m w true ts ;; parse_xcstmts m w r (s :: acc)).
Proof. intros E. cbn [parse_xcstmts]. rewrite E. reflexivity. Qed.

Lemma xstep_clauses_end m w k r acc : ty k = tt_CloseBraceToken -> parse_xclauses (S m) w (k :: r) acc = Ok (rev acc, r).
Proof. intros E. cbn [parse_xclauses]. rewrite E. reflexivity. Qed.

Lemma xstep_clauses_case m w k r acc : ty k = tt_CaseToken ->
  parse_xclauses (S m) w (k :: r) acc =
  ('(e, r1) <~ parse true prec_OpExpr r ;; r2 <~ expect tt_ColonToken r1 ;; '(l, r3) <~ parse_xcstmts m w r2 [] ;;
   parse_xclauses m w r3 ((Some e, l) :: acc)).
Proof. intros E. cbn [parse_xclauses]. rewrite E. reflexivity. Qed.

Lemma xstep_clauses_default m w k r acc : ty k = tt_DefaultToken ->
  parse_xclauses (S m) w (k :: r) acc =
  (r2 <~ expect tt_ColonToken r ;; '(l, r3) <~ parse_xcstmts m w r2 [] ;; parse_xclauses m w r3 ((None, l) :: acc)).
Proof. intros E. cbn [parse_xclauses]. rewrite E. reflexivity. Qed.

Lemma xstep_for m w ad k rest : ty k = tt_ForToken ->
  parse_xstmt (S m) w ad (k :: rest) = for_arm (parse_xstmt m w false) (fun ts' => parse_xlist m w ts' []) rest.
Proof. intros E. cbn [parse_xstmt]. rewrite E. reflexivity. Qed.

(* ---- the grammar of the statement fragment ------------------------------------------------------------------------------ *)

(* after a statement that is not terminated by ';': no ';' on the same line (the code would drop that EmptyStatement:
   KNOWN_FINDINGS c03-tree:empty-statement-same-line) *)
Definition no_same_line_semi (rest : list token) : Prop := same_line_semi rest = false.

Definition first_is (t : Z) (ts : list token) : bool := match ts with k :: _ => ty k =? t | [] => false end.

(* where automatic semicolon insertion applies: the end of the input, a line break, or '}' *)
Definition asi_ok (rest : list token) : Prop :=
  match rest with [] => True | c :: _ => lt c = true \/ ty c = tt_CloseBraceToken end.

(* the terminator of a statement that ';' terminates: a ';' on any line (consumed), or none where automatic semicolon
   insertion applies.  ex: the statement ends with an expression, which the next token must not continue *)
Inductive term (ex : bool) : list token -> list token -> Prop :=
| T_semi sc rest : ty sc = tt_SemicolonToken -> term ex (sc :: rest) rest
| T_asi rest : first_is tt_SemicolonToken rest = false -> asi_ok rest ->
    (ex = true -> ncont true prec_OpExpr rest = true) -> term ex rest rest.

(* var bindings: identifier [= AssignmentExpression] , ... *)
Inductive xvars (inf : bool) : list token -> list (list Z * option expr) -> list token -> Prop :=
| V_one c rest : is_identifier (ty c) = true -> first_is tt_EqToken rest = false -> first_is tt_CommaToken rest = false ->
    xvars inf (c :: rest) [(data c, None)] rest
| V_one_init c e xs x rest : is_identifier (ty c) = true -> ty e = tt_EqToken -> derives inf Assignment xs x ->
    ncont inf prec_OpAssign rest = true -> first_is tt_CommaToken rest = false ->
    xvars inf (c :: e :: xs ++ rest) [(data c, Some x)] rest
| V_more c cm ts l rest : is_identifier (ty c) = true -> ty cm = tt_CommaToken -> xvars inf ts l rest ->
    xvars inf (c :: cm :: ts) ((data c, None) :: l) rest
| V_more_init c e xs x cm ts l rest : is_identifier (ty c) = true -> ty e = tt_EqToken -> derives inf Assignment xs x ->
    ty cm = tt_CommaToken -> xvars inf ts l rest ->
    xvars inf (c :: e :: xs ++ cm :: ts) ((data c, Some x) :: l) rest.

(* the initialiser of a for statement (In flag off), in front of its ';' *)
Inductive finit : list token -> xfinit -> list token -> Prop :=
| FI_none r : first_is tt_SemicolonToken r = true -> finit r FNone r
| FI_expr xs x r : derives false Expression xs x -> first_is tt_LetToken xs = false -> first_is tt_SemicolonToken r = true ->
    finit (xs ++ r) (FExpr x) r
| FI_var v ts l r : ty v = tt_VarToken -> xvars false ts l r -> first_is tt_SemicolonToken r = true -> finit (v :: ts) (FVar l) r.

(* an optional expression in front of the token t *)
Inductive fopt (t : Z) : list token -> option expr -> list token -> Prop :=
| FO_none r : first_is t r = true -> fopt t r None r
| FO_some xs x r : derives true Expression xs x -> first_is t r = true -> fopt t (xs ++ r) (Some x) r.

(* a lexical declaration: allowed in statement lists only, not as the body of if / while / do / for / with *)
Definition is_decl (s : xstmt) : bool := match s with XLex _ _ => true | _ => false end.
Definition has_init (b : list Z * option expr) : bool := match snd b with Some _ => true | None => false end.

Inductive xone : list token -> xstmt -> list token -> Prop :=
| XO_base ts s rest : one ts s rest -> (forall n v, s <> SLabel n v) -> xone ts (inj s) rest
  (* an expression statement before the '}' of a block *)
| XO_brace xs x c rest : estmt xs x (c :: rest) -> ty c = tt_CloseBraceToken -> xone (xs ++ c :: rest) (XExpr x) (c :: rest)
| XO_label k c ts s rest :
    label_tok k -> ty c = tt_ColonToken -> xone ts s rest -> no_same_line_semi rest ->
    xone (k :: c :: ts) (XLabel (data k) s) rest
| XO_block ko ts l rest :
    ty ko = tt_OpenBraceToken -> xlist ts l rest -> no_same_line_semi rest ->
    xone (ko :: ts) (XBlock l) rest
  (* if ( Expression ) Statement [else Statement] *)
| XO_if k lp cs c rp ts s rest :
    ty k = tt_IfToken -> ty lp = tt_OpenParenToken -> derives true Expression cs c -> ty rp = tt_CloseParenToken ->
    xone ts s rest -> first_is tt_ElseToken rest = false -> no_same_line_semi rest -> is_decl s = false ->
    xone (k :: lp :: cs ++ rp :: ts) (XIf c s None) rest
| XO_if_else k lp cs c rp ts s e ts2 s2 rest :
    ty k = tt_IfToken -> ty lp = tt_OpenParenToken -> derives true Expression cs c -> ty rp = tt_CloseParenToken ->
    xone ts s (e :: ts2) -> ty e = tt_ElseToken -> xone ts2 s2 rest -> no_same_line_semi rest ->
    is_decl s = false -> is_decl s2 = false ->
    xone (k :: lp :: cs ++ rp :: ts) (XIf c s (Some s2)) rest
  (* while ( Expression ) Statement *)
| XO_while k lp cs c rp ts s rest :
    ty k = tt_WhileToken -> ty lp = tt_OpenParenToken -> derives true Expression cs c -> ty rp = tt_CloseParenToken ->
    xone ts s rest -> no_same_line_semi rest -> is_decl s = false ->
    xone (k :: lp :: cs ++ rp :: ts) (XWhile c s) rest
  (* do Statement while ( Expression ) ;   — the ';' on any line, or left out (automatic semicolon insertion after the ')') *)
| XO_do_semi k ts s w lp cs c rp sc rest :
    ty k = tt_DoToken -> xone ts s (w :: lp :: cs ++ rp :: sc :: rest) -> ty w = tt_WhileToken -> ty lp = tt_OpenParenToken ->
    derives true Expression cs c -> ty rp = tt_CloseParenToken -> ty sc = tt_SemicolonToken -> is_decl s = false ->
    xone (k :: ts) (XDo s c) rest
| XO_do_asi k ts s w lp cs c rp rest :
    ty k = tt_DoToken -> xone ts s (w :: lp :: cs ++ rp :: rest) -> ty w = tt_WhileToken -> ty lp = tt_OpenParenToken ->
    derives true Expression cs c -> ty rp = tt_CloseParenToken -> first_is tt_SemicolonToken rest = false -> is_decl s = false ->
    xone (k :: ts) (XDo s c) rest
  (* throw [no LineTerminator here] Expression ; *)
| XO_throw k xs x r rest :
    ty k = tt_ThrowToken -> derives true Expression xs x -> (forall c xs', xs = c :: xs' -> lt c = false) ->
    term true r rest -> xone (k :: xs ++ r) (XThrow x) rest
  (* break / continue [no LineTerminator here] LabelIdentifier ; *)
| XO_branch k r rest :
    ty k = tt_BreakToken \/ ty k = tt_ContinueToken ->
    (forall c r', r = c :: r' -> lt c = true \/ (is_identifier (ty c) = false /\ ty c <> tt_YieldToken /\ ty c <> tt_AwaitToken)) ->
    term false r rest -> xone (k :: r) (XBranch (ty k) None) rest
| XO_branch_label k c r rest :
    ty k = tt_BreakToken \/ ty k = tt_ContinueToken -> lt c = false -> is_identifier (ty c) = true ->
    term false r rest -> xone (k :: c :: r) (XBranch (ty k) (Some (data c))) rest
  (* var BindingIdentifier [= AssignmentExpression] , ... ; *)
| XO_var k ts l r rest :
    ty k = tt_VarToken -> xvars true ts l r -> term false r rest ->
    xone (k :: ts) (XVar l) rest
  (* for ( [Expression | var ...] ; [Expression] ; [Expression] ) Statement — the body is stored as a block *)
| XO_for_block k lp ti i s1 tc c s2 tp p rp ko tb l rest :
    ty k = tt_ForToken -> ty lp = tt_OpenParenToken -> finit ti i (s1 :: tc) -> fopt tt_SemicolonToken tc c (s2 :: tp) ->
    fopt tt_CloseParenToken tp p (rp :: ko :: tb) -> ty ko = tt_OpenBraceToken -> xlist tb l rest -> no_same_line_semi rest ->
    xone (k :: lp :: ti) (XFor i c p l) rest
| XO_for_empty k lp ti i s1 tc c s2 tp p rp sc rest :
    ty k = tt_ForToken -> ty lp = tt_OpenParenToken -> finit ti i (s1 :: tc) -> fopt tt_SemicolonToken tc c (s2 :: tp) ->
    fopt tt_CloseParenToken tp p (rp :: sc :: rest) -> ty sc = tt_SemicolonToken -> no_same_line_semi rest ->
    xone (k :: lp :: ti) (XFor i c p []) rest
| XO_for_stmt k lp ti i s1 tc c s2 tp p rp tb s rest :
    ty k = tt_ForToken -> ty lp = tt_OpenParenToken -> finit ti i (s1 :: tc) -> fopt tt_SemicolonToken tc c (s2 :: tp) ->
    fopt tt_CloseParenToken tp p (rp :: tb) -> first_is tt_OpenBraceToken tb = false -> first_is tt_SemicolonToken tb = false ->
    xone tb s rest -> no_same_line_semi rest -> is_decl s = false ->
    xone (k :: lp :: ti) (XFor i c p [s]) rest
  (* let / const BindingIdentifier [= AssignmentExpression] , ... ;   (const: every binding initialised) *)
| XO_let k ts l r rest :
    ty k = tt_LetToken -> xvars true ts l r -> term false r rest -> xone (k :: ts) (XLex tt_LetToken l) rest
| XO_const k ts l r rest :
    ty k = tt_ConstToken -> xvars true ts l r -> forallb has_init l = true -> term false r rest ->
    xone (k :: ts) (XLex tt_ConstToken l) rest
  (* debugger ; *)
| XO_debugger k r rest : ty k = tt_DebuggerToken -> term false r rest -> xone (k :: r) XDebugger rest
  (* with ( Expression ) Statement *)
| XO_with k lp cs c rp ts s rest :
    ty k = tt_WithToken -> ty lp = tt_OpenParenToken -> derives true Expression cs c -> ty rp = tt_CloseParenToken ->
    xone ts s rest -> no_same_line_semi rest -> is_decl s = false ->
    xone (k :: lp :: cs ++ rp :: ts) (XWith c s) rest
  (* try Block Catch | try Block Finally | try Block Catch Finally;  Catch : catch [ ( BindingIdentifier ) ] Block *)
| XO_try k ko tb b r2 c r3 f rest :
    ty k = tt_TryToken -> ty ko = tt_OpenBraceToken -> xlist tb b r2 -> xcatch r2 c r3 -> xfin r3 f rest ->
    (c <> None \/ f <> None) -> no_same_line_semi rest ->
    xone (k :: ko :: tb) (XTry b c f) rest
  (* switch ( Expression ) { CaseClause ... [DefaultClause] CaseClause ... } *)
| XO_switch k lp cs c rp ko ts cl rest :
    ty k = tt_SwitchToken -> ty lp = tt_OpenParenToken -> derives true Expression cs c -> ty rp = tt_CloseParenToken ->
    ty ko = tt_OpenBraceToken -> xclauses ts cl rest -> no_same_line_semi rest ->
    xone (k :: lp :: cs ++ rp :: ko :: ts) (XSwitch c cl) rest
(* StatementList up to the '}' of a block *)
with xlist : list token -> list xstmt -> list token -> Prop :=
| XL_end kc rest : ty kc = tt_CloseBraceToken -> xlist (kc :: rest) [] rest
| XL_cons ts s r l rest : first_is tt_CloseBraceToken ts = false -> xone ts s r -> xlist r l rest -> xlist ts (s :: l) rest
with xcatch : list token -> option (option (list Z) * list xstmt) -> list token -> Prop :=
| XC_none r : first_is tt_CatchToken r = false -> xcatch r None r
| XC_plain kc ko tb l rest : ty kc = tt_CatchToken -> ty ko = tt_OpenBraceToken -> xlist tb l rest ->
    xcatch (kc :: ko :: tb) (Some (None, l)) rest
| XC_param kc lp n rp ko tb l rest :
    ty kc = tt_CatchToken -> ty lp = tt_OpenParenToken -> is_identifier (ty n) = true -> ty rp = tt_CloseParenToken ->
    ty ko = tt_OpenBraceToken -> xlist tb l rest ->
    xcatch (kc :: lp :: n :: rp :: ko :: tb) (Some (Some (data n), l)) rest
with xfin : list token -> option (list xstmt) -> list token -> Prop :=
| XF_none r : first_is tt_FinallyToken r = false -> xfin r None r
| XF_some kf ko tb l rest : ty kf = tt_FinallyToken -> ty ko = tt_OpenBraceToken -> xlist tb l rest ->
    xfin (kf :: ko :: tb) (Some l) rest
(* the clauses of a switch statement up to its '}'; at most one default clause *)
with xclauses : list token -> list (option expr * list xstmt) -> list token -> Prop :=
| XK_end kc rest : ty kc = tt_CloseBraceToken -> xclauses (kc :: rest) [] rest
| XK_case k xs x c ts l r cl rest :
    ty k = tt_CaseToken -> derives true Expression xs x -> ty c = tt_ColonToken -> xcstmts ts l r -> xclauses r cl rest ->
    xclauses (k :: xs ++ c :: ts) ((Some x, l) :: cl) rest
| XK_default k c ts l r cl rest :
    ty k = tt_DefaultToken -> ty c = tt_ColonToken -> xcstmts ts l r -> xclauses r cl rest ->
    forallb (fun p : option expr * list xstmt => match fst p with Some _ => true | None => false end) cl = true ->
    xclauses (k :: c :: ts) ((None, l) :: cl) rest
(* the StatementList of a clause: up to the next case, default or '}' *)
with xcstmts : list token -> list xstmt -> list token -> Prop :=
| XS_end r : r <> [] -> ends_clause r = true -> xcstmts r [] r
| XS_cons ts s r l rest : ends_clause ts = false -> xone ts s r -> xcstmts r l rest -> xcstmts ts (s :: l) rest.

Scheme xone_mind := Induction for xone Sort Prop
  with xlist_mind := Induction for xlist Sort Prop
  with xcatch_mind := Induction for xcatch Sort Prop
  with xfin_mind := Induction for xfin Sort Prop
  with xclauses_mind := Induction for xclauses Sort Prop
  with xcstmts_mind := Induction for xcstmts Sort Prop.
Combined Scheme x_both_ind from xone_mind, xlist_mind, xcatch_mind, xfin_mind, xclauses_mind, xcstmts_mind.

Inductive xprog : list token -> list xstmt -> Prop :=
| XP_nil : xprog [] []
| XP_cons ts s rest l : xone ts s rest -> xprog rest l -> xprog ts (s :: l).

(* the tree under Options.WhileToFor: every while statement is a for statement whose body is a block *)
Fixpoint tw (w : bool) (s : xstmt) : xstmt :=
  match s with
  | XLabel n v => XLabel n (tw w v)
  | XBlock l => XBlock (map (tw w) l)
  | XIf c v e => XIf c (tw w v) (option_map (tw w) e)
  | XWhile c v => if w then XFor FNone (Some c) None (match tw w v with XBlock l => l | x => [x] end) else XWhile c (tw w v)
  | XFor i c p l => XFor i c p (map (tw w) l)
  | XDo v c => XDo (tw w v) c
  | XWith c v => XWith c (tw w v)
  | XTry b c f => XTry (map (tw w) b) (option_map (fun p => (fst p, map (tw w) (snd p))) c) (option_map (map (tw w)) f)
  | XSwitch e cl => XSwitch e (map (fun p => (fst p, map (tw w) (snd p))) cl)
  | _ => s
  end.

(* ---- pieces --------------------------------------------------------------------------------------------------------------- *)

Lemma sview_closebrace inf : sview inf tt_CloseBraceToken = ANone.
Proof. destruct inf; vm_compute; reflexivity. Qed.

Lemma stmt_ends_at_brace m xs x c rest :
  derives true Expression xs x -> let_decl_start (xs ++ c :: rest) = false -> ty c = tt_CloseBraceToken ->
  parse_stmt (S m) (xs ++ c :: rest) = Ok (SExpr x, c :: rest).
Proof.
  intros d Hlet Hc.
  assert (Hn : ncont true prec_OpExpr (c :: rest) = true) by (cbn [ncont]; rewrite Hc, sview_closebrace; reflexivity).
  destruct (expression_then _ _ _ _ d Hn) as [Hp [k0 [xs' [E Hst]]]]. subst xs. cbn [app] in *.
  rewrite (stmt_expr_arm m k0 (xs' ++ c :: rest) x (c :: rest) Hst Hp Hlet).
  - cbn [stmt_end_ok skip_semi]. rewrite Hc.
    change (tt_CloseBraceToken =? tt_SemicolonToken) with false. change (tt_CloseBraceToken =? tt_CloseBraceToken) with true.
    rewrite orb_true_r, andb_false_r. reflexivity.
  - destruct xs' as [|a xs'']; [right|left; apply tail_shorter; discriminate].
    cbn [app]. intros c' r E. inversion E; subst. rewrite Hc. vm_compute. discriminate.
Qed.

Lemma expect_ok_tok t k r : ty k = t -> expect t (k :: r) = Ok r.
Proof. intros E. cbn [expect]. rewrite E, Z.eqb_refl. reflexivity. Qed.

Lemma cond_parse cs c rp rest : derives true Expression cs c -> ty rp = tt_CloseParenToken ->
  parse true prec_OpExpr (cs ++ rp :: rest) = Ok (c, rp :: rest).
Proof.
  intros d Hrp. apply (expression_then true cs c (rp :: rest) d). apply ncont_close. left. exact Hrp.
Qed.

Lemma skip_true_semi sc rest : ty sc = tt_SemicolonToken -> skip_semi true (sc :: rest) = rest.
Proof. intros E. cbn [skip_semi]. rewrite E, Z.eqb_refl. reflexivity. Qed.

Lemma skip_true_none rest : first_is tt_SemicolonToken rest = false -> skip_semi true rest = rest.
Proof. destruct rest as [|k r]; [reflexivity|]. cbn [first_is skip_semi]. intros E. rewrite E, andb_false_r. reflexivity. Qed.

Lemma ncont_semi inf p k r : ty k = tt_SemicolonToken -> ncont inf p (k :: r) = true.
Proof. intros E. cbn [ncont]. rewrite E, sview_semicolon. reflexivity. Qed.

Lemma term_ok ex r rest : term ex r rest ->
  skip_semi true r = rest /\ stmt_end_ok r = true /\ (ex = true -> ncont true prec_OpExpr r = true) /\ (length rest <= length r)%nat.
Proof.
  destruct 1 as [sc rest Hsc|rest Hf Ha Hn].
  - split; [apply skip_true_semi; exact Hsc|]. split; [cbn [stmt_end_ok]; rewrite Hsc, Z.eqb_refl, orb_true_r; reflexivity|].
    split; [intros _; apply ncont_semi; exact Hsc|cbn [length]; lia].
  - split; [apply skip_true_none; exact Hf|]. split; [|split; [exact Hn|lia]].
    destruct rest as [|c r]; [reflexivity|]. cbn [stmt_end_ok asi_ok] in *. destruct Ha as [Ha|Ha]; rewrite Ha; [reflexivity|].
    change (tt_CloseBraceToken =? tt_CloseBraceToken) with true. apply orb_true_r.
Qed.

Lemma assign_parse inf xs x rest : derives inf Assignment xs x -> ncont inf prec_OpAssign rest = true ->
  parse inf prec_OpAssign (xs ++ rest) = Ok (x, rest).
Proof.
  intros d Hn. destruct (derives_spells _ _ _ _ d) as [Hs Hi]. cbn [inv code_level] in Hi.
  apply parse_complete_rest; auto. pose proof prec_order. lia.
Qed.

Lemma ident_not_pat t : is_identifier t = true ->
  (t =? tt_OpenBracketToken) || (t =? tt_OpenBraceToken) || (t =? tt_YieldToken) || (t =? tt_AwaitToken) = false.
Proof.
  intros H. repeat (apply orb_false_iff; split); apply Z.eqb_neq; intros E; rewrite E in H; vm_compute in H; discriminate.
Qed.

Lemma xvar_step m inf c r acc : is_identifier (ty c) = true ->
  parse_xvar (S m) inf (c :: r) acc =
  let k (b : list Z * option expr) (r' : list token) :=
    match r' with
    | d :: r'' => if ty d =? tt_CommaToken then parse_xvar m inf r'' (b :: acc) else Ok (rev (b :: acc), r')
    | [] => Ok (rev (b :: acc), [])
    end in
  match r with
  | e :: r2 => if ty e =? tt_EqToken then '(x, r3) <~ parse inf prec_OpAssign r2 ;; k (data c, Some x) r3 else k (data c, None) r
  | [] => k (data c, None) r
  end.
Proof. intros H. cbn [parse_xvar]. rewrite (ident_not_pat _ H), H. reflexivity. Qed.

Lemma xvars_ok inf ts l rest : xvars inf ts l rest ->
  (length rest < length ts)%nat /\
  forall n acc, (length ts - length rest <= n)%nat -> parse_xvar (S n) inf ts acc = Ok (rev acc ++ l, rest).
Proof.
  induction 1 as [c rest Hi He Hc|c e xs x rest Hi He d Hn Hc|c cm ts l rest Hi Hcm Hv [IHl IH]|c e xs x cm ts l rest Hi He d Hcm Hv [IHl IH]].
  - split; [cbn [length]; lia|]. intros n acc _. rewrite (xvar_step _ _ _ _ _ Hi). cbv zeta.
    destruct rest as [|a r]; [reflexivity|]. cbn [first_is] in He, Hc. rewrite He, Hc. reflexivity.
  - split; [cbn [length]; rewrite app_length; lia|]. intros n acc _. rewrite (xvar_step _ _ _ _ _ Hi). cbv zeta.
    rewrite He, Z.eqb_refl. rewrite (assign_parse _ _ _ _ d Hn). cbn [rbind].
    destruct rest as [|a r]; [reflexivity|]. cbn [first_is] in Hc. rewrite Hc. reflexivity.
  - split; [cbn [length]; lia|]. intros n acc Hm. rewrite (xvar_step _ _ _ _ _ Hi). cbv zeta.
    assert (E1 : (ty cm =? tt_EqToken) = false) by (rewrite Hcm; reflexivity).
    assert (E2 : (ty cm =? tt_CommaToken) = true) by (rewrite Hcm; reflexivity).
    rewrite E1, E2.
    cbn [length] in Hm. destruct n as [|n']; [lia|]. rewrite IH by lia. cbn [rev]. rewrite <- app_assoc. reflexivity.
  - split; [cbn [length]; rewrite app_length; cbn [length]; lia|]. intros n acc Hm. rewrite (xvar_step _ _ _ _ _ Hi). cbv zeta.
    rewrite He, Z.eqb_refl.
    rewrite (assign_parse inf xs x (cm :: ts) d) by (apply ncont_comma; [exact Hcm|lia]). cbn [rbind].
    assert (E2 : (ty cm =? tt_CommaToken) = true) by (rewrite Hcm; reflexivity). rewrite E2.
    cbn [length] in Hm. rewrite app_length in Hm. cbn [length] in Hm. destruct n as [|n']; [lia|].
    rewrite IH by lia. cbn [rev]. rewrite <- app_assoc. reflexivity.
Qed.

Lemma xstep_let m w k ts l r : ty k = tt_LetToken -> xvars true ts l r ->
  parse_xstmt (S m) w true (k :: ts) =
  ('(l, r) <~ parse_xvar (S (length ts)) true ts [] ;; if stmt_end_ok r then Ok (XLex tt_LetToken l, skip_semi true r) else Fail).
Proof.
  intros E Hv. assert (H : exists c ts', ts = c :: ts' /\ is_identifier (ty c) = true) by (inversion Hv; eauto).
  destruct H as [c [ts' [Et Hi]]]. subst ts. cbn [parse_xstmt]. rewrite E, Hi. reflexivity.
Qed.

Lemma first_is_true t r : first_is t r = true -> exists k r', r = k :: r' /\ ty k = t.
Proof. destruct r as [|k r']; [discriminate|]. cbn [first_is]. intros H. apply Z.eqb_eq in H. eauto. Qed.

Lemma fopt_ok t ts o r : t = tt_SemicolonToken \/ t = tt_CloseParenToken -> fopt t ts o r ->
  for_opt t ts = Ok (o, r) /\ (length r <= length ts)%nat.
Proof.
  intros Ht [r0 Hf|xs x r0 d Hf].
  - split; [|lia]. destruct (first_is_true _ _ Hf) as [k [r' [E Hk]]]. subst r0. cbn [for_opt]. rewrite Hk, Z.eqb_refl. reflexivity.
  - split; [|rewrite app_length; lia].
    destruct (first_is_true _ _ Hf) as [k [r' [E Hk]]]. subst r0.
    assert (Hn : ncont true prec_OpExpr (k :: r') = true).
    { destruct Ht as [Ht|Ht]; subst t; [apply ncont_semi; exact Hk|apply ncont_close; left; exact Hk]. }
    destruct (expression_then _ _ _ _ d Hn) as [Hp [k0 [xs' [E Hst]]]]. subst xs. cbn [app for_opt] in *.
    assert (Hne : (ty k0 =? t) = false).
    { destruct Ht as [Ht|Ht]; subst t; [apply (starts_not_stmt _ Hst)|apply Z.eqb_neq; apply (starts_not_close _ Hst)]. }
    rewrite Hne, Hp. reflexivity.
Qed.

Lemma finit_ok ti i r : finit ti i r -> for_init ti = Ok (i, r) /\ (length r <= length ti)%nat.
Proof.
  destruct 1 as [r Hf|xs x r d Hlet Hf|v ts l r Hv Hx Hf].
  - split; [|lia]. destruct (first_is_true _ _ Hf) as [k [r' [E Hk]]]. subst r. cbn [for_init]. rewrite Hk, Z.eqb_refl. reflexivity.
  - split; [|rewrite app_length; lia].
    destruct (first_is_true _ _ Hf) as [k [r' [E Hk]]]. subst r.
    assert (Hn : ncont false prec_OpExpr (k :: r') = true) by (apply ncont_semi; exact Hk).
    destruct (expression_then _ _ _ _ d Hn) as [Hp [k0 [xs' [E Hst]]]]. subst xs. cbn [app for_init first_is] in *.
    destruct (starts_not_stmt _ Hst) as [Hkw Hsemi]. rewrite Hsemi, Hlet.
    assert (K : forall t, In t [tt_ConstToken; tt_VarToken] -> (ty k0 =? t) = false).
    { intros t Hin. apply Z.eqb_neq. intros E. rewrite E in Hkw. cbn [In] in Hin.
      repeat (destruct Hin as [Hin|Hin]; [subst t; vm_compute in Hkw; discriminate|]). contradiction. }
    rewrite !K by (cbn; tauto). cbn [orb]. rewrite Hp. cbn [rbind]. rewrite Hk, Z.eqb_refl. reflexivity.
  - destruct (xvars_ok _ _ _ _ Hx) as [Hl Hp]. split; [|cbn [length]; lia].
    destruct (first_is_true _ _ Hf) as [k [r' [E Hk]]]. subst r. cbn [for_init]. rewrite Hv.
    change (tt_VarToken =? tt_SemicolonToken) with false. change ((tt_VarToken =? tt_LetToken) || (tt_VarToken =? tt_ConstToken)) with false.
    rewrite Z.eqb_refl. rewrite (Hp (length ts) []) by lia. cbn [rbind rev app]. rewrite Hk, Z.eqb_refl. reflexivity.
Qed.

(* ---- the model parses the grammar --------------------------------------------------------------------------------------- *)

Lemma finit_semi ti i k r : finit ti i (k :: r) -> ty k = tt_SemicolonToken.
Proof.
  intros H. inversion H as [r0 Hf E1 E2|xs x r0 d Hlet Hf E1 E2|v ts l r0 Hv Hx Hf E1 E2]; subst;
    match goal with Hf : first_is _ _ = true |- _ => cbn [first_is] in Hf; apply Z.eqb_eq in Hf; exact Hf end.
Qed.

Lemma fopt_first t ts o k r : fopt t ts o (k :: r) -> ty k = t.
Proof.
  intros H. inversion H; subst; match goal with Hf : first_is _ _ = true |- _ => cbn [first_is] in Hf; apply Z.eqb_eq in Hf; exact Hf end.
Qed.

Lemma tw_inj w s : (forall n v, s <> SLabel n v) -> tw w (inj s) = inj s.
Proof. intros _. destruct s; reflexivity. Qed.

Ltac for_head Hk Hlp Hfi Hc Hp :=
  let Ei := fresh "Ei" in let Li := fresh "Li" in let Ec := fresh "Ec" in let Lc := fresh "Lc" in let Ep := fresh "Ep" in let Lp := fresh "Lp" in
  destruct (finit_ok _ _ _ Hfi) as [Ei Li];
  destruct (fopt_ok _ _ _ _ (or_introl eq_refl) Hc) as [Ec Lc];
  destruct (fopt_ok _ _ _ _ (or_intror eq_refl) Hp) as [Ep Lp];
  cbn [length] in Li, Lc, Lp.

Lemma expression_then_colon xs x c rest : derives true Expression xs x -> ty c = tt_ColonToken ->
  parse true prec_OpExpr (xs ++ c :: rest) = Ok (x, c :: rest).
Proof. intros d Hc. apply (expression_then true xs x (c :: rest) d). apply ncont_close. right. right. exact Hc. Qed.

Lemma xcatch_none r r3 : xcatch r None r3 -> r3 = r.
Proof. intros H. inversion H; subst. reflexivity. Qed.

Lemma xfin_some r f rest : xfin r f rest -> f <> None -> first_is tt_FinallyToken r = true.
Proof. intros H Hn. inversion H; subst; [contradiction|]. cbn [first_is]. apply Z.eqb_eq. assumption. Qed.

Definition PX w ts s rest := (length rest < length ts)%nat /\
  forall m ad, (length ts - length rest <= m)%nat -> (is_decl s = true -> ad = true) -> parse_xstmt (S m) w ad ts = Ok (tw w s, rest).
Definition PL w ts l rest := (length rest < length ts)%nat /\
  forall m acc, (length ts - length rest <= m)%nat -> parse_xlist (S m) w ts acc = Ok (rev acc ++ map (tw w) l, rest).
Definition PC w ts (c : option (option (list Z) * list xstmt)) rest := (length rest <= length ts)%nat /\
  forall m, (length ts - length rest <= m)%nat -> (c = None -> first_is tt_FinallyToken ts = true) ->
    try_catch (fun ts' => parse_xlist (S m) w ts' []) ts = Ok (option_map (fun p : option (list Z) * list xstmt => (fst p, map (tw w) (snd p))) c, rest).
Definition PF w ts (f : option (list xstmt)) rest := (length rest <= length ts)%nat /\
  forall m, (length ts - length rest <= m)%nat ->
    try_fin (fun ts' => parse_xlist (S m) w ts' []) ts = Ok (option_map (map (tw w)) f, rest).

Definition twc w (p : option expr * list xstmt) : option expr * list xstmt := (fst p, map (tw w) (snd p)).
Definition PK w ts (cl : list (option expr * list xstmt)) rest := (length rest < length ts)%nat /\
  forall m acc, (length ts - length rest <= m)%nat -> parse_xclauses (S (S m)) w ts acc = Ok (rev acc ++ map (twc w) cl, rest).
Definition PS w ts (l : list xstmt) rest := (length rest <= length ts)%nat /\
  forall m acc, (length ts - length rest <= m)%nat -> parse_xcstmts (S (S m)) w ts acc = Ok (rev acc ++ map (tw w) l, rest).

Lemma x_all w :
  (forall ts s rest (x : xone ts s rest), PX w ts s rest) /\
  (forall ts l rest (x : xlist ts l rest), PL w ts l rest) /\
  (forall ts c rest (x : xcatch ts c rest), PC w ts c rest) /\
  (forall ts f rest (x : xfin ts f rest), PF w ts f rest) /\
  (forall ts cl rest (x : xclauses ts cl rest), PK w ts cl rest) /\
  (forall ts l rest (x : xcstmts ts l rest), PS w ts l rest).
Proof.
  apply (x_both_ind (fun ts s rest _ => PX w ts s rest) (fun ts l rest _ => PL w ts l rest)
           (fun ts c rest _ => PC w ts c rest) (fun ts f rest _ => PF w ts f rest)
           (fun ts cl rest _ => PK w ts cl rest) (fun ts l rest _ => PS w ts l rest)); unfold PX, PL, PC, PF, PK, PS.
  - (* base *)
    intros ts s rest Ho Hnl. destruct (one_stmt _ _ _ Ho) as [Hl Hs]. split; [exact Hl|]. intros m ad _ Had.
    rewrite (tw_inj _ _ Hnl).
    apply xstep_base; [destruct ts; [cbn in Hl; lia|discriminate]|apply Hs; lia|exact Hnl].
  - (* expression statement before '}' *)
    intros xs x c rest [d Hlet] Hc. pose proof (derives_nonempty _ _ _ _ d) as Hl.
    split; [rewrite app_length; cbn [length]; lia|]. intros m ad _ Had.
    apply (xstep_base m w ad (xs ++ c :: rest) (SExpr x) (c :: rest)).
    + destruct xs; [cbn in Hl; lia|discriminate].
    + apply stmt_ends_at_brace; assumption.
    + intros; discriminate.
  - (* label *)
    intros k c ts s rest Hk Hc Hone [IHl IH] Hsl. split; [cbn [length]; lia|]. intros m ad Hm Had.
    rewrite (xstep_label _ _ _ _ _ _ Hk Hc). cbn [length] in Hm. destruct m as [|m']; [lia|].
    rewrite (IH _ true); [|lia|intros _; reflexivity]. cbn [rbind tw]. rewrite (skip_same_line _ Hsl). reflexivity.
  - (* block *)
    intros ko ts l rest Hko Hlist [IHl IH] Hsl. split; [cbn [length]; lia|]. intros m ad Hm Had.
    rewrite (xstep_block _ _ _ _ _ Hko). cbn [length] in Hm. destruct m as [|m']; [lia|].
    rewrite (IH m' []) by lia. cbn [rbind rev app tw]. rewrite (skip_same_line _ Hsl). reflexivity.
  - (* if *)
    intros k lp cs c rp ts s rest Hk Hlp d Hrp Hone [IHl IH] Helse Hsl Hns.
    split; [cbn [length]; rewrite app_length; cbn [length]; lia|]. intros m ad Hm Had.
    rewrite (xstep_if _ _ _ _ _ Hk). rewrite (expect_ok_tok _ _ _ Hlp). cbn [rbind].
    rewrite (cond_parse _ _ _ _ d Hrp). cbn [rbind]. rewrite (expect_ok_tok _ _ _ Hrp). cbn [rbind].
    cbn [length] in Hm. rewrite app_length in Hm. cbn [length] in Hm. destruct m as [|m']; [lia|].
    rewrite (IH _ false); [|lia|intros Hd; rewrite Hns in Hd; discriminate]. cbn [rbind tw option_map].
    destruct rest as [|e r5]; [reflexivity|]. cbn [first_is] in Helse. rewrite Helse. rewrite (skip_same_line _ Hsl). reflexivity.
  - (* if else *)
    intros k lp cs c rp ts s e ts2 s2 rest Hk Hlp d Hrp Hone [IHl IH] He Hone2 [IHl2 IH2] Hsl Hns Hns2.
    cbn [length] in IHl.
    split; [cbn [length]; rewrite app_length; cbn [length]; lia|]. intros m ad Hm Had.
    rewrite (xstep_if _ _ _ _ _ Hk). rewrite (expect_ok_tok _ _ _ Hlp). cbn [rbind].
    rewrite (cond_parse _ _ _ _ d Hrp). cbn [rbind]. rewrite (expect_ok_tok _ _ _ Hrp). cbn [rbind].
    cbn [length] in Hm. rewrite app_length in Hm. cbn [length] in Hm. destruct m as [|m']; [lia|].
    rewrite (IH _ false); [|cbn [length]; lia|intros Hd; rewrite Hns in Hd; discriminate]. cbn [rbind]. rewrite He, Z.eqb_refl.
    rewrite (IH2 _ false); [|lia|intros Hd; rewrite Hns2 in Hd; discriminate]. cbn [rbind tw option_map]. rewrite (skip_same_line _ Hsl). reflexivity.
  - (* while *)
    intros k lp cs c rp ts s rest Hk Hlp d Hrp Hone [IHl IH] Hsl Hns.
    split; [cbn [length]; rewrite app_length; cbn [length]; lia|]. intros m ad Hm Had.
    rewrite (xstep_while _ _ _ _ _ Hk). rewrite (expect_ok_tok _ _ _ Hlp). cbn [rbind].
    rewrite (cond_parse _ _ _ _ d Hrp). cbn [rbind]. rewrite (expect_ok_tok _ _ _ Hrp). cbn [rbind].
    cbn [length] in Hm. rewrite app_length in Hm. cbn [length] in Hm. destruct m as [|m']; [lia|].
    rewrite (IH _ false); [|lia|intros Hd; rewrite Hns in Hd; discriminate]. cbn [rbind tw]. rewrite (skip_same_line _ Hsl). destruct w; [|reflexivity]. destruct (tw true s); reflexivity.
  - (* do ... while ( ) ; *)
    intros k ts s wk lp cs c rp sc rest Hk Hone [IHl IH] Hw Hlp d Hrp Hsc Hns.
    cbn [length] in IHl. rewrite app_length in IHl. cbn [length] in IHl.
    split; [cbn [length]; lia|]. intros m ad Hm Had.
    rewrite (xstep_do _ _ _ _ _ Hk). cbn [length] in Hm. destruct m as [|m']; [lia|].
    rewrite (IH _ false); [|cbn [length]; rewrite app_length; cbn [length]; lia|intros Hd; rewrite Hns in Hd; discriminate]. cbn [rbind].
    rewrite (expect_ok_tok _ _ _ Hw). cbn [rbind]. rewrite (expect_ok_tok _ _ _ Hlp). cbn [rbind].
    rewrite (cond_parse _ _ _ _ d Hrp). cbn [rbind]. rewrite (expect_ok_tok _ _ _ Hrp). cbn [rbind tw].
    rewrite (skip_true_semi _ _ Hsc). reflexivity.
  - (* do ... while ( )  without ';' *)
    intros k ts s wk lp cs c rp rest Hk Hone [IHl IH] Hw Hlp d Hrp Hnsm Hns.
    cbn [length] in IHl. rewrite app_length in IHl. cbn [length] in IHl.
    split; [cbn [length]; lia|]. intros m ad Hm Had.
    rewrite (xstep_do _ _ _ _ _ Hk). cbn [length] in Hm. destruct m as [|m']; [lia|].
    rewrite (IH _ false); [|cbn [length]; rewrite app_length; cbn [length]; lia|intros Hd; rewrite Hns in Hd; discriminate]. cbn [rbind].
    rewrite (expect_ok_tok _ _ _ Hw). cbn [rbind]. rewrite (expect_ok_tok _ _ _ Hlp). cbn [rbind].
    rewrite (cond_parse _ _ _ _ d Hrp). cbn [rbind]. rewrite (expect_ok_tok _ _ _ Hrp). cbn [rbind tw].
    rewrite (skip_true_none _ Hnsm). reflexivity.
  - (* throw *)
    intros k xs x r rest Hk d Hlt Ht. destruct (term_ok _ _ _ Ht) as [Hsk [_ [Hn Hl]]].
    destruct (expression_then _ _ _ _ d (Hn eq_refl)) as [Hp [k0 [xs' [E _]]]]. subst xs.
    split; [cbn [length app]; rewrite app_length; lia|]. intros m ad _ Had. cbn [app] in *.
    rewrite (xstep_throw _ _ _ _ _ _ Hk (Hlt _ _ eq_refl)). rewrite Hp. cbn [rbind tw]. rewrite Hsk. reflexivity.
  - (* break / continue *)
    intros k r rest Hk Hnl Ht. destruct (term_ok _ _ _ Ht) as [Hsk [_ [_ Hl]]].
    split; [cbn [length]; lia|]. intros m ad _ Had. rewrite (xstep_branch _ _ _ _ _ Hk). cbn [tw].
    destruct r as [|c r']; [inversion Ht; reflexivity|].
    destruct (Hnl c r' eq_refl) as [H|[H1 [H2 H3]]].
    + rewrite H. cbn [negb andb]. rewrite Hsk. reflexivity.
    + rewrite H1. apply Z.eqb_neq in H2. apply Z.eqb_neq in H3. rewrite H2, H3. rewrite !andb_false_r. rewrite Hsk. reflexivity.
  - (* break / continue label *)
    intros k c r rest Hk Hlt Hi Ht. destruct (term_ok _ _ _ Ht) as [Hsk [_ [_ Hl]]].
    split; [cbn [length]; lia|]. intros m ad _ Had. rewrite (xstep_branch _ _ _ _ _ Hk). cbn [tw].
    rewrite Hlt, Hi. cbn [negb andb]. rewrite Hsk. reflexivity.
  - (* var *)
    intros k ts l r rest Hk Hv Ht. destruct (term_ok _ _ _ Ht) as [Hsk [Hend [_ Hl]]].
    destruct (xvars_ok _ _ _ _ Hv) as [Hlv Hp].
    split; [cbn [length]; lia|]. intros m ad _ Had. rewrite (xstep_var _ _ _ _ _ Hk).
    rewrite (Hp (length ts) []) by lia. cbn [rbind rev app tw]. rewrite Hend, Hsk. reflexivity.
  - (* for ... { } *)
    intros k lp ti i s1 tc c s2 tp p rp ko tb l rest Hk Hlp Hfi Hc Hp Hko Hlist [IHl IH] Hsl.
    for_head Hk Hlp Hfi Hc Hp. cbn [length] in *.
    split; [lia|]. intros m ad Hm Had.
    rewrite (xstep_for _ _ _ _ _ Hk). unfold for_arm. rewrite (expect_ok_tok _ _ _ Hlp). cbn [rbind].
    rewrite Ei. cbn [rbind].
    pose proof (finit_semi _ _ _ _ Hfi) as Hs1.
    pose proof (fopt_first _ _ _ _ _ Hc) as Hs2.
    pose proof (fopt_first _ _ _ _ _ Hp) as Hrp.
    rewrite (expect_ok_tok _ _ _ Hs1). cbn [rbind]. rewrite Ec. cbn [rbind]. rewrite (expect_ok_tok _ _ _ Hs2). cbn [rbind].
    rewrite Ep. cbn [rbind]. rewrite (expect_ok_tok _ _ _ Hrp). cbn [rbind]. rewrite Hko, Z.eqb_refl.
    destruct m as [|m']; [lia|]. rewrite (IH m' []) by lia. cbn [rbind rev app tw]. rewrite (skip_same_line _ Hsl). reflexivity.
  - (* for ... ; *)
    intros k lp ti i s1 tc c s2 tp p rp sc rest Hk Hlp Hfi Hc Hp Hsc Hsl.
    for_head Hk Hlp Hfi Hc Hp. cbn [length] in *.
    split; [lia|]. intros m ad Hm Had.
    rewrite (xstep_for _ _ _ _ _ Hk). unfold for_arm. rewrite (expect_ok_tok _ _ _ Hlp). cbn [rbind].
    rewrite Ei. cbn [rbind].
    pose proof (finit_semi _ _ _ _ Hfi) as Hs1.
    pose proof (fopt_first _ _ _ _ _ Hc) as Hs2.
    pose proof (fopt_first _ _ _ _ _ Hp) as Hrp.
    rewrite (expect_ok_tok _ _ _ Hs1). cbn [rbind]. rewrite Ec. cbn [rbind]. rewrite (expect_ok_tok _ _ _ Hs2). cbn [rbind].
    rewrite Ep. cbn [rbind]. rewrite (expect_ok_tok _ _ _ Hrp). cbn [rbind]. rewrite Hsc.
    change (tt_SemicolonToken =? tt_OpenBraceToken) with false. rewrite Z.eqb_refl. cbn [rbind tw map]. rewrite (skip_same_line _ Hsl). reflexivity.
  - (* for ... statement *)
    intros k lp ti i s1 tc c s2 tp p rp tb s rest Hk Hlp Hfi Hc Hp Hnb Hnsc Hone [IHl IH] Hsl Hns.
    for_head Hk Hlp Hfi Hc Hp. cbn [length] in *.
    split; [lia|]. intros m ad Hm Had.
    rewrite (xstep_for _ _ _ _ _ Hk). unfold for_arm. rewrite (expect_ok_tok _ _ _ Hlp). cbn [rbind].
    rewrite Ei. cbn [rbind].
    pose proof (finit_semi _ _ _ _ Hfi) as Hs1.
    pose proof (fopt_first _ _ _ _ _ Hc) as Hs2.
    pose proof (fopt_first _ _ _ _ _ Hp) as Hrp.
    rewrite (expect_ok_tok _ _ _ Hs1). cbn [rbind]. rewrite Ec. cbn [rbind]. rewrite (expect_ok_tok _ _ _ Hs2). cbn [rbind].
    rewrite Ep. cbn [rbind]. rewrite (expect_ok_tok _ _ _ Hrp). cbn [rbind].
    destruct m as [|m']; [lia|].
    destruct tb as [|a ra]; [cbn [length] in IHl; lia|]. cbn [first_is] in Hnb, Hnsc. rewrite Hnb, Hnsc.
    rewrite (IH _ false); [|lia|intros Hd; rewrite Hns in Hd; discriminate]. cbn [rbind tw map]. rewrite (skip_same_line _ Hsl). reflexivity.
  - (* let *)
    intros k ts l r rest Hk Hv Ht. destruct (term_ok _ _ _ Ht) as [Hsk [Hend [_ Hl]]].
    destruct (xvars_ok _ _ _ _ Hv) as [Hlv Hp].
    split; [cbn [length]; lia|]. intros m ad _ Had. rewrite (Had eq_refl). rewrite (xstep_let _ _ _ _ _ _ Hk Hv).
    rewrite (Hp (length ts) []) by lia. cbn [rbind rev app tw]. rewrite Hend, Hsk. reflexivity.
  - (* const *)
    intros k ts l r rest Hk Hv Hin Ht. destruct (term_ok _ _ _ Ht) as [Hsk [Hend [_ Hl]]].
    destruct (xvars_ok _ _ _ _ Hv) as [Hlv Hp].
    split; [cbn [length]; lia|]. intros m ad _ Had. rewrite (Had eq_refl). rewrite (xstep_const _ _ _ _ Hk).
    rewrite (Hp (length ts) []) by lia. cbn [rbind rev app tw]. unfold has_init in Hin. rewrite Hin. cbn [negb]. rewrite Hend, Hsk. reflexivity.
  - (* debugger *)
    intros k r rest Hk Ht. destruct (term_ok _ _ _ Ht) as [Hsk [_ [_ Hl]]].
    split; [cbn [length]; lia|]. intros m ad _ Had. rewrite (xstep_debugger _ _ _ _ _ Hk). cbn [tw]. rewrite Hsk. reflexivity.
  - (* with *)
    intros k lp cs c rp ts s rest Hk Hlp d Hrp Hone [IHl IH] Hsl Hns.
    split; [cbn [length]; rewrite app_length; cbn [length]; lia|]. intros m ad Hm Had.
    rewrite (xstep_with _ _ _ _ _ Hk). rewrite (expect_ok_tok _ _ _ Hlp). cbn [rbind].
    rewrite (cond_parse _ _ _ _ d Hrp). cbn [rbind]. rewrite (expect_ok_tok _ _ _ Hrp). cbn [rbind].
    cbn [length] in Hm. rewrite app_length in Hm. cbn [length] in Hm. destruct m as [|m']; [lia|].
    rewrite (IH _ false); [|lia|intros Hd; rewrite Hns in Hd; discriminate]. cbn [rbind tw]. rewrite (skip_same_line _ Hsl). reflexivity.
  - (* try *)
    intros k ko tb b r2 c r3 f rest Hk Hko Hlb [IHlb IHb] Hc [IHlc IHc] Hf [IHlf IHf] Hne Hsl.
    split; [cbn [length]; lia|]. intros m ad Hm Had. cbn [length] in Hm.
    rewrite (xstep_try _ _ _ _ _ Hk). unfold try_arm. rewrite (expect_ok_tok _ _ _ Hko). cbn [rbind]. cbv beta.
    destruct m as [|m']; [lia|]. rewrite (IHb m' []) by lia. cbn [rbind rev app].
    rewrite IHc; [|lia|].
    + cbn [rbind]. rewrite IHf by lia. cbn [rbind tw]. rewrite (skip_same_line _ Hsl). reflexivity.
    + intros Ec. subst c. rewrite (xcatch_none _ _ Hc) in Hf. apply (xfin_some _ _ _ Hf). destruct Hne as [H|H]; [contradiction|exact H].
  - (* switch *)
    intros k lp cs c rp ko ts cl rest Hk Hlp d Hrp Hko Hcl [IHl IH] Hsl.
    split; [cbn [length]; rewrite app_length; cbn [length]; lia|]. intros m ad Hm Had.
    rewrite (xstep_switch _ _ _ _ _ Hk). unfold switch_arm. rewrite (expect_ok_tok _ _ _ Hlp). cbn [rbind].
    rewrite (cond_parse _ _ _ _ d Hrp). cbn [rbind]. rewrite (expect_ok_tok _ _ _ Hrp). cbn [rbind].
    rewrite (expect_ok_tok _ _ _ Hko). cbn [rbind]. cbv beta.
    cbn [length] in Hm. rewrite app_length in Hm. cbn [length] in Hm.
    destruct m as [|[|m']]; [lia|lia|]. rewrite (IH m' []) by lia. cbn [rbind rev app tw]. rewrite (skip_same_line _ Hsl). reflexivity.
  - (* end of the list *)
    intros kc rest Hkc. split; [cbn [length]; lia|]. intros m acc _. cbn [parse_xlist]. rewrite Hkc, Z.eqb_refl.
    cbn [map]. rewrite app_nil_r. reflexivity.
  - (* one more statement *)
    intros ts s r l rest Hf Hone [IHl IH] Hlist [IHll IHL]. split; [lia|]. intros m acc Hm.
    destruct ts as [|k ts']; [cbn [length] in IHl; lia|]. cbn [first_is] in Hf.
    cbn [parse_xlist]. rewrite Hf. destruct m as [|m']; [lia|].
    rewrite (IH _ true); [|lia|intros _; reflexivity]. cbn [rbind]. rewrite IHL by lia. cbn [rev map]. rewrite <- app_assoc. reflexivity.
  - (* no catch *)
    intros r Hf. split; [lia|]. intros m _ Hn. specialize (Hn eq_refl).
    destruct (first_is_true _ _ Hn) as [kf [r' [E Hk]]]. subst r. cbn [first_is] in Hf. cbn [try_catch]. rewrite Hf.
    assert (E2 : (ty kf =? tt_FinallyToken) = true) by (rewrite Hk; reflexivity). rewrite E2. reflexivity.
  - (* catch { } *)
    intros kc ko tb l rest Hkc Hko Hl [IHl IH]. split; [cbn [length]; lia|]. intros m Hm _. cbn [length] in Hm.
    destruct tb as [|t1 tb']; [cbn [length] in IHl; lia|].
    cbn [try_catch]. rewrite Hkc, Z.eqb_refl.
    assert (E1 : (ty ko =? tt_OpenParenToken) = false) by (rewrite Hko; reflexivity). rewrite E1. cbn [rbind].
    rewrite (expect_ok_tok _ _ _ Hko). cbn [rbind]. cbv beta. rewrite (IH m []) by (cbn [length] in *; lia). reflexivity.
  - (* catch ( e ) { } *)
    intros kc lp n rp ko tb l rest Hkc Hlp Hn Hrp Hko Hl [IHl IH]. split; [cbn [length]; lia|]. intros m Hm _. cbn [length] in Hm.
    cbn [try_catch]. rewrite Hkc, Z.eqb_refl. rewrite Hlp, Z.eqb_refl. rewrite (ident_not_pat _ Hn), Hn. cbn [negb].
    rewrite (expect_ok_tok _ _ _ Hrp). cbn [rbind]. rewrite (expect_ok_tok _ _ _ Hko). cbn [rbind]. cbv beta.
    rewrite (IH m []) by lia. reflexivity.
  - (* no finally *)
    intros r Hf. split; [lia|]. intros m _. destruct r as [|a ra]; [reflexivity|]. cbn [first_is] in Hf. cbn [try_fin]. rewrite Hf. reflexivity.
  - (* finally { } *)
    intros kf ko tb l rest Hkf Hko Hl [IHl IH]. split; [cbn [length]; lia|]. intros m Hm. cbn [length] in Hm.
    cbn [try_fin]. rewrite Hkf, Z.eqb_refl. rewrite (expect_ok_tok _ _ _ Hko). cbn [rbind]. cbv beta. rewrite (IH m []) by lia. reflexivity.  - (* end of the clauses *)
    intros kc rest Hkc. split; [cbn [length]; lia|]. intros m acc _. rewrite (xstep_clauses_end _ _ _ _ _ Hkc).
    cbn [map]. rewrite app_nil_r. reflexivity.
  - (* case *)
    intros k xs x c ts l r cl rest Hk d Hc Hcs [IHls IHs] Hcl [IHlc IHc].
    split; [cbn [length]; rewrite app_length; cbn [length]; lia|]. intros m acc Hm.
    cbn [length] in Hm. rewrite app_length in Hm. cbn [length] in Hm.
    rewrite (xstep_clauses_case _ _ _ _ _ Hk).
    rewrite (expression_then_colon _ _ _ _ d Hc). cbn [rbind]. rewrite (expect_ok_tok _ _ _ Hc). cbn [rbind].
    destruct m as [|m']; [lia|]. rewrite (IHs m' []) by lia. cbn [rbind rev app].
    rewrite IHc by lia. cbn [rev map twc fst snd]. rewrite <- app_assoc. reflexivity.
  - (* default *)
    intros k c ts l r cl rest Hk Hc Hcs [IHls IHs] Hcl [IHlc IHc] _.
    split; [cbn [length]; lia|]. intros m acc Hm. cbn [length] in Hm.
    rewrite (xstep_clauses_default _ _ _ _ _ Hk). rewrite (expect_ok_tok _ _ _ Hc). cbn [rbind].
    destruct m as [|m']; [lia|]. rewrite (IHs m' []) by lia. cbn [rbind rev app].
    rewrite IHc by lia. cbn [rev map twc fst snd]. rewrite <- app_assoc. reflexivity.
  - (* end of the clause *)
    intros r Hne He. split; [lia|]. intros m acc _. rewrite (xstep_cstmts_end _ _ _ _ He). cbn [map]. rewrite app_nil_r. reflexivity.
  - (* one more statement of the clause *)
    intros ts s r l rest He Hone [IHl IH] Hcs [IHll IHL]. split; [lia|]. intros m acc Hm.
    rewrite (xstep_cstmts_cons _ _ _ _ He). rewrite (IH _ true); [|lia|intros _; reflexivity]. cbn [rbind].
    destruct m as [|m']; [lia|]. rewrite IHL by lia. cbn [rev map]. rewrite <- app_assoc. reflexivity.
Qed.

Lemma xprog_module w ts l : xprog ts l ->
  forall m acc, (length ts <= m)%nat -> parse_xmodule (S m) w ts acc = Ok (rev acc ++ map (tw w) l).
Proof.
  induction 1 as [|ts s rest l Hone Hp IH]; intros m acc Hm.
  - cbn. rewrite app_nil_r. reflexivity.
  - destruct (proj1 (x_all w) _ _ _ Hone) as [Hl Hs].
    destruct ts as [|k ts']; [cbn [length] in Hl; lia|].
    cbn [parse_xmodule]. rewrite (Hs (length (k :: ts')) true); [|lia|intros _; reflexivity]. cbn [rbind].
    destruct m as [|m']; [cbn [length] in Hm; lia|].
    rewrite IH by lia. cbn [rev map]. rewrite <- app_assoc. reflexivity.
Qed.

Fixpoint tw_false (s : xstmt) : tw false s = s.
Proof.
  destruct s; cbn [tw]; try reflexivity.
  - f_equal. apply tw_false.
  - f_equal. induction l as [|a l IH]; [reflexivity|]. cbn [map]. rewrite (tw_false a), IH. reflexivity.
  - rewrite (tw_false s). destruct e as [x|]; cbn [option_map]; [rewrite (tw_false x)|]; reflexivity.
  - f_equal. apply tw_false.
  - f_equal. induction l as [|a l IH]; [reflexivity|]. cbn [map]. rewrite (tw_false a), IH. reflexivity.
  - f_equal. apply tw_false.
  - f_equal. apply tw_false.
  - f_equal.
    + induction b as [|a l IH]; [reflexivity|]. cbn [map]. rewrite (tw_false a), IH. reflexivity.
    + destruct c as [[n l]|]; [|reflexivity]. cbn [option_map fst snd]. f_equal. f_equal.
      induction l as [|a l IH]; [reflexivity|]. cbn [map]. rewrite (tw_false a), IH. reflexivity.
    + destruct f as [l|]; [|reflexivity]. cbn [option_map]. f_equal.
      induction l as [|a l IH]; [reflexivity|]. cbn [map]. rewrite (tw_false a), IH. reflexivity.
  - f_equal. induction cl as [|[o l] cl IH]; [reflexivity|]. cbn [map fst snd]. rewrite IH. f_equal. f_equal.
    induction l as [|a l IHl]; [reflexivity|]. cbn [map]. rewrite (tw_false a), IHl. reflexivity.
Qed.

Lemma map_tw_false l : map (tw false) l = l.
Proof. induction l as [|a l IH]; [reflexivity|]. cbn [map]. rewrite tw_false, IH. reflexivity. Qed.

(* Every program of the statement fragment is parsed to exactly the statement list the grammar prescribes ... *)
Theorem program_of_statement_fragment_proof : forall ts l, xprog ts l -> parse_xprogram false ts = Ok l.
Proof.
  intros ts l H. unfold parse_xprogram. rewrite (xprog_module false _ _ H) by lia. cbn [rev app]. rewrite map_tw_false. reflexivity.
Qed.

(* ... and under Options.WhileToFor to that list with every while statement rewritten to `for ( ; c ; ) { body }` *)
Theorem program_of_statement_fragment_w2f_proof : forall ts l, xprog ts l -> parse_xprogram true ts = Ok (map (tw true) l).
Proof. intros ts l H. unfold parse_xprogram. rewrite (xprog_module true _ _ H) by lia. reflexivity. Qed.

(* ---- non-vacuity: a program of the fragment, its derivation and its tree --------------------------------------------------
     var i = a , b ;
     for ( i = a ; i ; i ++ ) { if ( b ) break ; else continue l ; }
     do a ; while ( b )
     l : while ( a ) throw b ; { } debugger ; with ( a ) b ; try { } catch ( e ) { } finally { }
     switch ( a ) { case b : a ; default : break ; } let c = a ; const b = a ; a = b                                                                                     *)

Definition kw (t : Z) : token := mkTok t false (tok_bytes t).
Definition idi : token := idt 105.
Definition idl0 : token := idt 108.
Definition sm : token := semi false.

Definition x_s1 : list token := [kw tt_VarToken; idi; kw tt_EqToken; ida; kw tt_CommaToken; idb; sm].
Definition x_s2 : list token :=
  [kw tt_ForToken; kw tt_OpenParenToken; idi; kw tt_EqToken; ida; sm; idi; sm; idi; kw tt_IncrToken; kw tt_CloseParenToken; kw tt_OpenBraceToken;
   kw tt_IfToken; kw tt_OpenParenToken; idb; kw tt_CloseParenToken; kw tt_BreakToken; sm; kw tt_ElseToken; kw tt_ContinueToken; idl0; sm;
   kw tt_CloseBraceToken].
Definition x_s3 : list token := [kw tt_DoToken; ida; sm; kw tt_WhileToken; kw tt_OpenParenToken; idb; kw tt_CloseParenToken].
Definition x_s4 : list token :=
  [mkTok tt_IdentifierToken true [108]; colon; kw tt_WhileToken; kw tt_OpenParenToken; ida; kw tt_CloseParenToken; kw tt_ThrowToken; idb; sm].
Definition x_s5 : list token := [kw tt_OpenBraceToken; kw tt_CloseBraceToken].
Definition x_s7 : list token := [kw tt_DebuggerToken; sm].
Definition x_s8 : list token := [kw tt_WithToken; kw tt_OpenParenToken; ida; kw tt_CloseParenToken; idb; sm].
Definition x_s9 : list token :=
  [kw tt_TryToken; kw tt_OpenBraceToken; kw tt_CloseBraceToken; kw tt_CatchToken; kw tt_OpenParenToken; idt 101; kw tt_CloseParenToken;
   kw tt_OpenBraceToken; kw tt_CloseBraceToken; kw tt_FinallyToken; kw tt_OpenBraceToken; kw tt_CloseBraceToken].
Definition x_s10 : list token :=
  [kw tt_SwitchToken; kw tt_OpenParenToken; ida; kw tt_CloseParenToken; kw tt_OpenBraceToken; kw tt_CaseToken; idb; colon; ida; sm;
   kw tt_DefaultToken; colon; kw tt_BreakToken; sm; kw tt_CloseBraceToken].
Definition x_s11 : list token := [kw tt_LetToken; idc; kw tt_EqToken; ida; sm].
Definition x_s12 : list token := [kw tt_ConstToken; idb; kw tt_EqToken; ida; sm].
Definition x_s6 : list token := [ida; kw tt_EqToken; idb].
Definition x_tokens : list token := x_s1 ++ x_s2 ++ x_s3 ++ x_s4 ++ x_s5 ++ x_s7 ++ x_s8 ++ x_s9 ++ x_s10 ++ x_s11 ++ x_s12 ++ x_s6.

Definition vi : expr := EVar [105].
Definition x_stmts : list xstmt :=
  [ XVar [([105], Some va); ([98], None)];
    XFor (FExpr (EBinary tt_EqToken vi va)) (Some vi) (Some (EUnary tt_PostIncrToken vi))
      [XIf vb (XBranch tt_BreakToken None) (Some (XBranch tt_ContinueToken (Some [108])))];
    XDo (XExpr va) vb;
    XLabel [108] (XWhile va (XThrow vb));
    XBlock [];
    XDebugger;
    XWith va (XExpr vb);
    XTry [] (Some (Some [101], [])) (Some []);
    XSwitch va [(Some vb, [XExpr va]); (None, [XBranch tt_BreakToken None])];
    XLex tt_LetToken [([99], Some va)];
    XLex tt_ConstToken [([98], Some va)];
    XExpr (EBinary tt_EqToken va vb) ].

Example x_example : parse_xprogram false x_tokens = Ok x_stmts.
Proof. vm_compute. reflexivity. Qed.

Lemma dE inf ts t : parse inf prec_OpExpr ts = Ok (t, []) -> derives inf Expression ts t.
Proof. apply pratt_sound_proof. Qed.

Lemma dA_ident inf c l : derives inf Assignment [mkTok tt_IdentifierToken l [c]] (EVar [c]).
Proof.
  eapply derives_chain_star; [apply (reachb_sound 22 Assignment Primary); lazy; reflexivity|].
  apply (D_ident inf (mkTok tt_IdentifierToken l [c])). split; [reflexivity|vm_compute; discriminate].
Qed.

Example x_example_derivable : xprog x_tokens x_stmts.
Proof.
  unfold x_tokens, x_stmts.
  (* var i = a , b ; *)
  apply (XP_cons _ _ (x_s2 ++ x_s3 ++ x_s4 ++ x_s5 ++ x_s7 ++ x_s8 ++ x_s9 ++ x_s10 ++ x_s11 ++ x_s12 ++ x_s6)).
  { apply (XO_var (kw tt_VarToken) _ _ (sm :: x_s2 ++ x_s3 ++ x_s4 ++ x_s5 ++ x_s7 ++ x_s8 ++ x_s9 ++ x_s10 ++ x_s11 ++ x_s12 ++ x_s6)); [reflexivity| |apply T_semi; reflexivity].
    apply (V_more_init true idi (kw tt_EqToken) [ida] va (kw tt_CommaToken)); [reflexivity|reflexivity|apply dA_ident|reflexivity|].
    apply V_one; reflexivity. }
  (* for ( i = a ; i ; i ++ ) { if ( b ) break ; else continue l ; } *)
  apply (XP_cons _ _ (x_s3 ++ x_s4 ++ x_s5 ++ x_s7 ++ x_s8 ++ x_s9 ++ x_s10 ++ x_s11 ++ x_s12 ++ x_s6)).
  { eapply (XO_for_block (kw tt_ForToken) (kw tt_OpenParenToken) _ _ sm _ _ sm _ _ (kw tt_CloseParenToken) (kw tt_OpenBraceToken)); try reflexivity.
    - apply (FI_expr [idi; kw tt_EqToken; ida] _ (sm :: _)); [apply dE; vm_compute; reflexivity|reflexivity|reflexivity].
    - apply (FO_some tt_SemicolonToken [idi] _ (sm :: _)); [apply dE; vm_compute; reflexivity|reflexivity].
    - apply (FO_some tt_CloseParenToken [idi; kw tt_IncrToken] _ (kw tt_CloseParenToken :: _)); [apply dE; vm_compute; reflexivity|reflexivity].
    - apply (XL_cons _ _ (kw tt_CloseBraceToken :: x_s3 ++ x_s4 ++ x_s5 ++ x_s7 ++ x_s8 ++ x_s9 ++ x_s10 ++ x_s11 ++ x_s12 ++ x_s6)); [reflexivity| |apply XL_end; reflexivity].
      eapply (XO_if_else (kw tt_IfToken) (kw tt_OpenParenToken) [idb] vb (kw tt_CloseParenToken) _ _ (kw tt_ElseToken)); try reflexivity.
      + apply dE. vm_compute. reflexivity.
      + apply (XO_branch (kw tt_BreakToken) (sm :: _)); [left; reflexivity| |apply T_semi; reflexivity].
        intros c r' E. inversion E; subst. right. repeat split; vm_compute; discriminate.
      + apply (XO_branch_label (kw tt_ContinueToken) idl0 (sm :: _)); [right; reflexivity|reflexivity|reflexivity|apply T_semi; reflexivity]. }
  (* do a ; while ( b )   — no ';': the next statement starts a new line *)
  apply (XP_cons _ _ (x_s4 ++ x_s5 ++ x_s7 ++ x_s8 ++ x_s9 ++ x_s10 ++ x_s11 ++ x_s12 ++ x_s6)).
  { eapply (XO_do_asi (kw tt_DoToken) _ _ (kw tt_WhileToken) (kw tt_OpenParenToken) [idb] vb (kw tt_CloseParenToken)); try reflexivity.
    - apply (XO_base _ (SExpr va)); [|intros; discriminate].
      apply (O_semi [ida] va sm); [split; [apply dE; vm_compute; reflexivity|reflexivity]|reflexivity].
    - apply dE. vm_compute. reflexivity. }
  (* l : while ( a ) throw b ; *)
  apply (XP_cons _ _ (x_s5 ++ x_s7 ++ x_s8 ++ x_s9 ++ x_s10 ++ x_s11 ++ x_s12 ++ x_s6)).
  { apply XO_label; [repeat split; try reflexivity; vm_compute; discriminate|reflexivity| |reflexivity].
    eapply (XO_while (kw tt_WhileToken) (kw tt_OpenParenToken) [ida] va (kw tt_CloseParenToken)); try reflexivity.
    - apply dE. vm_compute. reflexivity.
    - apply (XO_throw (kw tt_ThrowToken) [idb] vb (sm :: _)); [reflexivity|apply dE; vm_compute; reflexivity| |apply T_semi; reflexivity].
      intros c xs' E. inversion E; subst. reflexivity. }
  (* { } *)
  apply (XP_cons _ _ (x_s7 ++ x_s8 ++ x_s9 ++ x_s10 ++ x_s11 ++ x_s12 ++ x_s6)).
  { apply XO_block; [reflexivity|apply XL_end; reflexivity|reflexivity]. }
  (* debugger ; *)
  apply (XP_cons _ _ (x_s8 ++ x_s9 ++ x_s10 ++ x_s11 ++ x_s12 ++ x_s6)).
  { apply (XO_debugger (kw tt_DebuggerToken) (sm :: _)); [reflexivity|apply T_semi; reflexivity]. }
  (* with ( a ) b ; *)
  apply (XP_cons _ _ (x_s9 ++ x_s10 ++ x_s11 ++ x_s12 ++ x_s6)).
  { eapply (XO_with (kw tt_WithToken) (kw tt_OpenParenToken) [ida] va (kw tt_CloseParenToken)); try reflexivity.
    - apply dE. vm_compute. reflexivity.
    - apply (XO_base _ (SExpr vb)); [|intros; discriminate].
      apply (O_semi [idb] vb sm); [split; [apply dE; vm_compute; reflexivity|reflexivity]|reflexivity]. }
  (* try { } catch ( e ) { } finally { } *)
  apply (XP_cons _ _ (x_s10 ++ x_s11 ++ x_s12 ++ x_s6)).
  { eapply (XO_try (kw tt_TryToken) (kw tt_OpenBraceToken)); try reflexivity.
    - apply XL_end. reflexivity.
    - apply (XC_param (kw tt_CatchToken) (kw tt_OpenParenToken) (idt 101) (kw tt_CloseParenToken) (kw tt_OpenBraceToken)); try reflexivity.
      apply XL_end. reflexivity.
    - apply (XF_some (kw tt_FinallyToken) (kw tt_OpenBraceToken)); try reflexivity. apply XL_end. reflexivity.
    - left. discriminate. }
  (* switch ( a ) { case b : a ; default : break ; } *)
  apply (XP_cons _ _ (x_s11 ++ x_s12 ++ x_s6)).
  { eapply (XO_switch (kw tt_SwitchToken) (kw tt_OpenParenToken) [ida] va (kw tt_CloseParenToken) (kw tt_OpenBraceToken)); try reflexivity.
    - apply dE. vm_compute. reflexivity.
    - apply (XK_case (kw tt_CaseToken) [idb] vb colon _ _ (kw tt_DefaultToken :: colon :: kw tt_BreakToken :: sm :: kw tt_CloseBraceToken :: x_s11 ++ x_s12 ++ x_s6));
        [reflexivity|apply dE; vm_compute; reflexivity|reflexivity| |].
      + apply (XS_cons _ (XExpr va) (kw tt_DefaultToken :: colon :: kw tt_BreakToken :: sm :: kw tt_CloseBraceToken :: x_s11 ++ x_s12 ++ x_s6)); [reflexivity| |apply XS_end; [discriminate|reflexivity]].
        apply (XO_base _ (SExpr va)); [|intros; discriminate].
        apply (O_semi [ida] va sm); [split; [apply dE; vm_compute; reflexivity|reflexivity]|reflexivity].
      + apply (XK_default (kw tt_DefaultToken) colon _ _ (kw tt_CloseBraceToken :: x_s11 ++ x_s12 ++ x_s6)); [reflexivity|reflexivity| |apply XK_end; reflexivity|reflexivity].
        apply (XS_cons _ (XBranch tt_BreakToken None) (kw tt_CloseBraceToken :: x_s11 ++ x_s12 ++ x_s6)); [reflexivity| |apply XS_end; [discriminate|reflexivity]].
        apply (XO_branch (kw tt_BreakToken) (sm :: _)); [left; reflexivity| |apply T_semi; reflexivity].
        intros c r' E. inversion E; subst. right. repeat split; vm_compute; discriminate. }
  (* let c = a ; const b = a ; *)
  apply (XP_cons _ _ (x_s12 ++ x_s6)).
  { apply (XO_let (kw tt_LetToken) _ _ (sm :: x_s12 ++ x_s6)); [reflexivity| |apply T_semi; reflexivity].
    apply (V_one_init true idc (kw tt_EqToken) [ida] va); [reflexivity|reflexivity|apply dA_ident|reflexivity|reflexivity]. }
  apply (XP_cons _ _ x_s6).
  { apply (XO_const (kw tt_ConstToken) _ _ (sm :: x_s6)); [reflexivity| |reflexivity|apply T_semi; reflexivity].
    apply (V_one_init true idb (kw tt_EqToken) [ida] va); [reflexivity|reflexivity|apply dA_ident|reflexivity|reflexivity]. }
  (* a = b *)
  apply (XP_cons _ _ []); [|apply XP_nil].
  apply (XO_base x_s6 (SExpr (EBinary tt_EqToken va vb))); [|intros; discriminate].
  apply O_eof. split; [apply dE; vm_compute; reflexivity|reflexivity].
Qed.
