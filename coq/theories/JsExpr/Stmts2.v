(* JsExpr/Stmts2.v — the statement model (StmtModel.v) against a grammar of the statement fragment: every statement list
   built from expression statements, empty statements, labelled statements, blocks, if / else, while and do-while (each with
   the tree the grammar prescribes, automatic semicolon insertion included) is parsed to exactly that list. *)
From Coq Require Import ZifyBool.
From Verif Require Import Common.Base Common.Tactics Gen.PrattTable JsExpr.Syntax JsExpr.Pratt JsExpr.Grammar
  JsExpr.Spec JsExpr.TableFacts JsExpr.Fuel JsExpr.Sound JsExpr.Complete JsExpr.Equiv JsExpr.Proofs JsExpr.Stmts JsExpr.StmtModel.

Definition inj (s : stmt) : xstmt :=
  match s with SExpr e => XExpr e | SEmpty => XEmpty | SLabel n _ => XLabel n XEmpty end.

(* ---- one step of parse_xstmt per form -------------------------------------------------------------------------------- *)

Lemma xstep_block m w k rest : ty k = tt_OpenBraceToken ->
  parse_xstmt (S m) w (k :: rest) = ('(l, r) <~ parse_xlist m w rest [] ;; Ok (XBlock l, skip_semi false r)).
Proof. intros E. cbn [parse_xstmt]. rewrite E. reflexivity. Qed.

Lemma xstep_if m w k rest : ty k = tt_IfToken ->
  parse_xstmt (S m) w (k :: rest) =
  (r1 <~ expect tt_OpenParenToken rest ;;
   '(c, r2) <~ parse true prec_OpExpr r1 ;;
   r3 <~ expect tt_CloseParenToken r2 ;;
   '(s, r4) <~ parse_xstmt m w r3 ;;
   match r4 with
   | e :: r5 =>
       if ty e =? tt_ElseToken then '(s2, r6) <~ parse_xstmt m w r5 ;; Ok (XIf c s (Some s2), skip_semi false r6)
       else Ok (XIf c s None, skip_semi false r4)
   | [] => Ok (XIf c s None, [])
   end).
Proof. intros E. cbn [parse_xstmt]. rewrite E. reflexivity. Qed.

Lemma xstep_while m k rest : ty k = tt_WhileToken ->
  parse_xstmt (S m) false (k :: rest) =
  (r1 <~ expect tt_OpenParenToken rest ;;
   '(c, r2) <~ parse true prec_OpExpr r1 ;;
   r3 <~ expect tt_CloseParenToken r2 ;;
   '(s, r4) <~ parse_xstmt m false r3 ;;
   Ok (XWhile c s, skip_semi false r4)).
Proof. intros E. cbn [parse_xstmt]. rewrite E. reflexivity. Qed.

Lemma xstep_do m w k rest : ty k = tt_DoToken ->
  parse_xstmt (S m) w (k :: rest) =
  ('(s, r1) <~ parse_xstmt m w rest ;;
   r2 <~ expect tt_WhileToken r1 ;;
   r3 <~ expect tt_OpenParenToken r2 ;;
   '(c, r4) <~ parse true prec_OpExpr r3 ;;
   r5 <~ expect tt_CloseParenToken r4 ;;
   Ok (XDo s c, skip_semi true r5)).
Proof. intros E. cbn [parse_xstmt]. rewrite E. reflexivity. Qed.

Lemma xstep_label m w k c rest : label_tok k -> ty c = tt_ColonToken ->
  parse_xstmt (S m) w (k :: c :: rest) = ('(s, r') <~ parse_xstmt m w rest ;; Ok (XLabel (data k) s, skip_semi false r')).
Proof.
  intros [Hi [Hl Hk]] Ec. cbn [parse_xstmt].
  assert (K : forall t, In t [tt_OpenBraceToken; tt_VarToken; tt_IfToken; tt_WhileToken; tt_ForToken; tt_DoToken; tt_ThrowToken; tt_BreakToken; tt_ContinueToken] ->
              (ty k =? t) = false).
  { intros t Hin. apply Z.eqb_neq. intros E. rewrite E in Hk. cbn [In] in Hin.
    repeat (destruct Hin as [Hin|Hin]; [subst t; vm_compute in Hk; discriminate|]). contradiction. }
  rewrite !K by (cbn; tauto). cbn [orb]. rewrite Hk, Hi. apply Z.eqb_neq in Hl. rewrite Hl, Ec, Z.eqb_refl. cbn [negb andb tl]. reflexivity.
Qed.

(* the statements of Pratt.v pass through *)
Lemma xstep_base m w ts s rest : ts <> [] ->
  parse_stmt (S (length ts)) ts = Ok (s, rest) -> (forall n v, s <> SLabel n v) ->
  parse_xstmt (S m) w ts = Ok (inj s, rest).
Proof.
  intros Hne Hs Hnl. destruct ts as [|k r]; [contradiction|].
  assert (K : forall t, In t [tt_OpenBraceToken; tt_VarToken; tt_IfToken; tt_WhileToken; tt_ForToken; tt_DoToken; tt_ThrowToken; tt_BreakToken; tt_ContinueToken] ->
              (ty k =? t) = false).
  { intros t Hin. apply Z.eqb_neq. intros E. cbn [parse_stmt] in Hs. rewrite E in Hs. cbn [In] in Hin.
    repeat (destruct Hin as [Hin|Hin]; [subst t; vm_compute in Hs; discriminate|]). contradiction. }
  cbn [parse_xstmt]. rewrite !K by (cbn; tauto). cbn [orb].
  destruct (negb (stmt_keyword (ty k)) && negb (ty k =? tt_LetToken) && is_identifier (ty k) &&
            match r with c :: _ => ty c =? tt_ColonToken | [] => false end) eqn:El.
  - exfalso. apply andb_true_iff in El. destruct El as [El Ec]. apply andb_true_iff in El. destruct El as [El Ei].
    apply andb_true_iff in El. destruct El as [Ek Elet]. apply negb_true_iff in Ek. apply negb_true_iff in Elet.
    destruct r as [|c r']; [discriminate|].
    cbn [parse_stmt] in Hs. rewrite Ek, Elet, Ei, Ec in Hs.
    destruct (ty k =? tt_SemicolonToken) eqn:Es.
    { apply Z.eqb_eq in Es. rewrite Es in Ei. vm_compute in Ei. discriminate. }
    apply rbind_ok in Hs. destruct Hs as [[s0 r0] [_ Hs]]. inversion Hs; subst. eapply Hnl; reflexivity.
  - rewrite Hs. cbn [rbind]. destruct s; cbn [xwrap rbind inj]; try reflexivity. exfalso. eapply Hnl; reflexivity.
Qed.

(* ---- the grammar of the statement fragment ------------------------------------------------------------------------------ *)

(* after a statement that is not terminated by ';': no ';' on the same line (the code would drop that EmptyStatement:
   KNOWN_FINDINGS c03-tree:empty-statement-same-line) *)
Definition no_same_line_semi (rest : list token) : Prop := same_line_semi rest = false.

Definition first_is (t : Z) (ts : list token) : bool := match ts with k :: _ => ty k =? t | [] => false end.

Inductive xone : list token -> xstmt -> list token -> Prop :=
| XO_base ts s rest : one ts s rest -> (forall n v, s <> SLabel n v) -> xone ts (inj s) rest
  (* an expression statement before the '}' of a block *)
| XO_brace xs x c rest : estmt xs x (c :: rest) -> ty c = tt_CloseBraceToken -> xone (xs ++ c :: rest) (XExpr x) (c :: rest)
| XO_label k c ts s rest :
    label_tok k -> ty c = tt_ColonToken -> xone ts s rest -> no_same_line_semi rest ->
    xone (k :: c :: ts) (XLabel (data k) s) rest
| XO_block ko ts l rest :
    ty ko = tt_OpenBraceToken -> xlist ts l rest -> no_same_line_semi rest ->
    xone (ko :: ts) (XBlock l) rest
  (* if ( Expression ) Statement [else Statement] *)
| XO_if k lp cs c rp ts s rest :
    ty k = tt_IfToken -> ty lp = tt_OpenParenToken -> derives true Expression cs c -> ty rp = tt_CloseParenToken ->
    xone ts s rest -> first_is tt_ElseToken rest = false -> no_same_line_semi rest ->
    xone (k :: lp :: cs ++ rp :: ts) (XIf c s None) rest
| XO_if_else k lp cs c rp ts s e ts2 s2 rest :
    ty k = tt_IfToken -> ty lp = tt_OpenParenToken -> derives true Expression cs c -> ty rp = tt_CloseParenToken ->
    xone ts s (e :: ts2) -> ty e = tt_ElseToken -> xone ts2 s2 rest -> no_same_line_semi rest ->
    xone (k :: lp :: cs ++ rp :: ts) (XIf c s (Some s2)) rest
  (* while ( Expression ) Statement *)
| XO_while k lp cs c rp ts s rest :
    ty k = tt_WhileToken -> ty lp = tt_OpenParenToken -> derives true Expression cs c -> ty rp = tt_CloseParenToken ->
    xone ts s rest -> no_same_line_semi rest ->
    xone (k :: lp :: cs ++ rp :: ts) (XWhile c s) rest
  (* do Statement while ( Expression ) ;   — the ';' on any line, or left out (automatic semicolon insertion after the ')') *)
| XO_do_semi k ts s w lp cs c rp sc rest :
    ty k = tt_DoToken -> xone ts s (w :: lp :: cs ++ rp :: sc :: rest) -> ty w = tt_WhileToken -> ty lp = tt_OpenParenToken ->
    derives true Expression cs c -> ty rp = tt_CloseParenToken -> ty sc = tt_SemicolonToken ->
    xone (k :: ts) (XDo s c) rest
| XO_do_asi k ts s w lp cs c rp rest :
    ty k = tt_DoToken -> xone ts s (w :: lp :: cs ++ rp :: rest) -> ty w = tt_WhileToken -> ty lp = tt_OpenParenToken ->
    derives true Expression cs c -> ty rp = tt_CloseParenToken -> first_is tt_SemicolonToken rest = false ->
    xone (k :: ts) (XDo s c) rest
(* StatementList up to the '}' of a block *)
with xlist : list token -> list xstmt -> list token -> Prop :=
| XL_end kc rest : ty kc = tt_CloseBraceToken -> xlist (kc :: rest) [] rest
| XL_cons ts s r l rest : first_is tt_CloseBraceToken ts = false -> xone ts s r -> xlist r l rest -> xlist ts (s :: l) rest.

Scheme xone_mind := Induction for xone Sort Prop
  with xlist_mind := Induction for xlist Sort Prop.
Combined Scheme x_both_ind from xone_mind, xlist_mind.

Inductive xprog : list token -> list xstmt -> Prop :=
| XP_nil : xprog [] []
| XP_cons ts s rest l : xone ts s rest -> xprog rest l -> xprog ts (s :: l).

(* ---- the model parses the grammar --------------------------------------------------------------------------------------- *)

Lemma sview_closebrace inf : sview inf tt_CloseBraceToken = ANone.
Proof. destruct inf; vm_compute; reflexivity. Qed.

Lemma stmt_ends_at_brace m xs x c rest :
  derives true Expression xs x -> let_decl_start (xs ++ c :: rest) = false -> ty c = tt_CloseBraceToken ->
  parse_stmt (S m) (xs ++ c :: rest) = Ok (SExpr x, c :: rest).
Proof.
  intros d Hlet Hc.
  assert (Hn : ncont true prec_OpExpr (c :: rest) = true) by (cbn [ncont]; rewrite Hc, sview_closebrace; reflexivity).
  destruct (expression_then _ _ _ _ d Hn) as [Hp [k0 [xs' [E Hst]]]]. subst xs. cbn [app] in *.
  rewrite (stmt_expr_arm m k0 (xs' ++ c :: rest) x (c :: rest) Hst Hp Hlet).
  - cbn [stmt_end_ok skip_semi]. rewrite Hc.
    change (tt_CloseBraceToken =? tt_SemicolonToken) with false. change (tt_CloseBraceToken =? tt_CloseBraceToken) with true.
    rewrite orb_true_r, andb_false_r. reflexivity.
  - destruct xs' as [|a xs'']; [right|left; apply tail_shorter; discriminate].
    cbn [app]. intros c' r E. inversion E; subst. rewrite Hc. vm_compute. discriminate.
Qed.

Lemma expect_ok_tok t k r : ty k = t -> expect t (k :: r) = Ok r.
Proof. intros E. cbn [expect]. rewrite E, Z.eqb_refl. reflexivity. Qed.

Lemma cond_parse cs c rp rest : derives true Expression cs c -> ty rp = tt_CloseParenToken ->
  parse true prec_OpExpr (cs ++ rp :: rest) = Ok (c, rp :: rest).
Proof.
  intros d Hrp. apply (expression_then true cs c (rp :: rest) d). apply ncont_close. left. exact Hrp.
Qed.

Lemma skip_true_semi sc rest : ty sc = tt_SemicolonToken -> skip_semi true (sc :: rest) = rest.
Proof. intros E. cbn [skip_semi]. rewrite E, Z.eqb_refl. reflexivity. Qed.

Lemma skip_true_none rest : first_is tt_SemicolonToken rest = false -> skip_semi true rest = rest.
Proof. destruct rest as [|k r]; [reflexivity|]. cbn [first_is skip_semi]. intros E. rewrite E, andb_false_r. reflexivity. Qed.

Lemma x_all :
  (forall ts s rest (x : xone ts s rest),
     (length rest < length ts)%nat /\ forall m, (length ts - length rest <= m)%nat -> parse_xstmt (S m) false ts = Ok (s, rest)) /\
  (forall ts l rest (x : xlist ts l rest),
     (length rest < length ts)%nat /\ forall m acc, (length ts - length rest <= m)%nat -> parse_xlist (S m) false ts acc = Ok (rev acc ++ l, rest)).
Proof.
  apply (x_both_ind
    (fun ts s rest _ => (length rest < length ts)%nat /\ forall m, (length ts - length rest <= m)%nat -> parse_xstmt (S m) false ts = Ok (s, rest))
    (fun ts l rest _ => (length rest < length ts)%nat /\ forall m acc, (length ts - length rest <= m)%nat -> parse_xlist (S m) false ts acc = Ok (rev acc ++ l, rest))).
  - (* base *)
    intros ts s rest Ho Hnl. destruct (one_stmt _ _ _ Ho) as [Hl Hs]. split; [exact Hl|]. intros m _.
    apply xstep_base; [destruct ts; [cbn in Hl; lia|discriminate]|apply Hs; lia|exact Hnl].
  - (* expression statement before '}' *)
    intros xs x c rest [d Hlet] Hc. pose proof (derives_nonempty _ _ _ _ d) as Hl.
    split; [rewrite app_length; cbn [length]; lia|]. intros m _.
    apply (xstep_base m false (xs ++ c :: rest) (SExpr x) (c :: rest)).
    + destruct xs; [cbn in Hl; lia|discriminate].
    + apply stmt_ends_at_brace; assumption.
    + intros; discriminate.
  - (* label *)
    intros k c ts s rest Hk Hc Hone [IHl IH] Hsl. split; [cbn [length]; lia|]. intros m Hm.
    rewrite (xstep_label _ _ _ _ _ Hk Hc). cbn [length] in Hm. destruct m as [|m']; [lia|].
    rewrite IH by lia. cbn [rbind]. rewrite (skip_same_line _ Hsl). reflexivity.
  - (* block *)
    intros ko ts l rest Hko Hlist [IHl IH] Hsl. split; [cbn [length]; lia|]. intros m Hm.
    rewrite (xstep_block _ _ _ _ Hko). cbn [length] in Hm. destruct m as [|m']; [lia|].
    rewrite (IH m' []) by lia. cbn [rbind rev app]. rewrite (skip_same_line _ Hsl). reflexivity.
  - (* if *)
    intros k lp cs c rp ts s rest Hk Hlp d Hrp Hone [IHl IH] Helse Hsl.
    split; [cbn [length]; rewrite app_length; cbn [length]; lia|]. intros m Hm.
    rewrite (xstep_if _ _ _ _ Hk). rewrite (expect_ok_tok _ _ _ Hlp). cbn [rbind].
    rewrite (cond_parse _ _ _ _ d Hrp). cbn [rbind]. rewrite (expect_ok_tok _ _ _ Hrp). cbn [rbind].
    cbn [length] in Hm. rewrite app_length in Hm. cbn [length] in Hm. destruct m as [|m']; [lia|].
    rewrite IH by lia. cbn [rbind].
    destruct rest as [|e r5]; [reflexivity|]. cbn [first_is] in Helse. rewrite Helse. rewrite (skip_same_line _ Hsl). reflexivity.
  - (* if else *)
    intros k lp cs c rp ts s e ts2 s2 rest Hk Hlp d Hrp Hone [IHl IH] He Hone2 [IHl2 IH2] Hsl.
    cbn [length] in IHl.
    split; [cbn [length]; rewrite app_length; cbn [length]; lia|]. intros m Hm.
    rewrite (xstep_if _ _ _ _ Hk). rewrite (expect_ok_tok _ _ _ Hlp). cbn [rbind].
    rewrite (cond_parse _ _ _ _ d Hrp). cbn [rbind]. rewrite (expect_ok_tok _ _ _ Hrp). cbn [rbind].
    cbn [length] in Hm. rewrite app_length in Hm. cbn [length] in Hm. destruct m as [|m']; [lia|].
    rewrite IH by (cbn [length]; lia). cbn [rbind]. rewrite He, Z.eqb_refl.
    rewrite IH2 by lia. cbn [rbind]. rewrite (skip_same_line _ Hsl). reflexivity.
  - (* while *)
    intros k lp cs c rp ts s rest Hk Hlp d Hrp Hone [IHl IH] Hsl.
    split; [cbn [length]; rewrite app_length; cbn [length]; lia|]. intros m Hm.
    rewrite (xstep_while _ _ _ Hk). rewrite (expect_ok_tok _ _ _ Hlp). cbn [rbind].
    rewrite (cond_parse _ _ _ _ d Hrp). cbn [rbind]. rewrite (expect_ok_tok _ _ _ Hrp). cbn [rbind].
    cbn [length] in Hm. rewrite app_length in Hm. cbn [length] in Hm. destruct m as [|m']; [lia|].
    rewrite IH by lia. cbn [rbind]. rewrite (skip_same_line _ Hsl). reflexivity.
  - (* do ... while ( ) ; *)
    intros k ts s w lp cs c rp sc rest Hk Hone [IHl IH] Hw Hlp d Hrp Hsc.
    cbn [length] in IHl. rewrite app_length in IHl. cbn [length] in IHl.
    split; [cbn [length]; lia|]. intros m Hm.
    rewrite (xstep_do _ _ _ _ Hk). cbn [length] in Hm. destruct m as [|m']; [lia|].
    rewrite IH by (cbn [length]; rewrite app_length; cbn [length]; lia). cbn [rbind].
    rewrite (expect_ok_tok _ _ _ Hw). cbn [rbind]. rewrite (expect_ok_tok _ _ _ Hlp). cbn [rbind].
    rewrite (cond_parse _ _ _ _ d Hrp). cbn [rbind]. rewrite (expect_ok_tok _ _ _ Hrp). cbn [rbind].
    rewrite (skip_true_semi _ _ Hsc). reflexivity.
  - (* do ... while ( )  without ';' *)
    intros k ts s w lp cs c rp rest Hk Hone [IHl IH] Hw Hlp d Hrp Hns.
    cbn [length] in IHl. rewrite app_length in IHl. cbn [length] in IHl.
    split; [cbn [length]; lia|]. intros m Hm.
    rewrite (xstep_do _ _ _ _ Hk). cbn [length] in Hm. destruct m as [|m']; [lia|].
    rewrite IH by (cbn [length]; rewrite app_length; cbn [length]; lia). cbn [rbind].
    rewrite (expect_ok_tok _ _ _ Hw). cbn [rbind]. rewrite (expect_ok_tok _ _ _ Hlp). cbn [rbind].
    rewrite (cond_parse _ _ _ _ d Hrp). cbn [rbind]. rewrite (expect_ok_tok _ _ _ Hrp). cbn [rbind].
    rewrite (skip_true_none _ Hns). reflexivity.
  - (* end of the list *)
    intros kc rest Hkc. split; [cbn [length]; lia|]. intros m acc _. cbn [parse_xlist]. rewrite Hkc, Z.eqb_refl.
    rewrite app_nil_r. reflexivity.
  - (* one more statement *)
    intros ts s r l rest Hf Hone [IHl IH] Hlist [IHll IHL]. split; [lia|]. intros m acc Hm.
    destruct ts as [|k ts']; [cbn [length] in IHl; lia|]. cbn [first_is] in Hf.
    cbn [parse_xlist]. rewrite Hf. destruct m as [|m']; [lia|].
    rewrite IH by lia. cbn [rbind]. rewrite IHL by lia. cbn [rev]. rewrite <- app_assoc. reflexivity.
Qed.

Lemma xprog_module ts l : xprog ts l ->
  forall m acc, (length ts <= m)%nat -> parse_xmodule (S m) false ts acc = Ok (rev acc ++ l).
Proof.
  induction 1 as [|ts s rest l Hone Hp IH]; intros m acc Hm.
  - cbn. rewrite app_nil_r. reflexivity.
  - destruct (proj1 x_all _ _ _ Hone) as [Hl Hs].
    destruct ts as [|k ts']; [cbn [length] in Hl; lia|].
    cbn [parse_xmodule]. rewrite (Hs (length (k :: ts'))) by lia. cbn [rbind].
    destruct m as [|m']; [cbn [length] in Hm; lia|].
    rewrite IH by lia. cbn [rev]. rewrite <- app_assoc. reflexivity.
Qed.

(* Every program of the statement fragment is parsed to exactly the statement list the grammar prescribes. *)
Theorem program_of_statement_fragment_proof : forall ts l, xprog ts l -> parse_xprogram false ts = Ok l.
Proof. intros ts l H. unfold parse_xprogram. rewrite (xprog_module _ _ H) by lia. reflexivity. Qed.

(* ---- non-vacuity: `if ( a ) { b <newline> } else do c ; while ( a ) <newline> l : while ( b ) ;` ------------------------ *)

Definition kw (t : Z) : token := mkTok t false (tok_bytes t).
Definition x_tokens : list token :=
  [kw tt_IfToken; kw tt_OpenParenToken; ida; kw tt_CloseParenToken; kw tt_OpenBraceToken; idb; kw tt_CloseBraceToken; kw tt_ElseToken;
   kw tt_DoToken; idc; semi false; kw tt_WhileToken; kw tt_OpenParenToken; ida; kw tt_CloseParenToken;
   mkTok tt_IdentifierToken true [108]; colon; kw tt_WhileToken; kw tt_OpenParenToken; idb; kw tt_CloseParenToken; semi false].
Definition x_stmts : list xstmt :=
  [XIf va (XBlock [XExpr vb]) (Some (XDo (XExpr vc) va)); XLabel [108] (XWhile vb XEmpty)].

Example x_example : parse_xprogram false x_tokens = Ok x_stmts.
Proof. vm_compute. reflexivity. Qed.
