(* JsExpr/Fuel.v — fuel of the Pratt model: more fuel never changes a result that is not NoFuel, the rest is
   always shorter than the input, and [fuel_for ts] is enough for ts. *)
From Coq Require Import ZifyBool.
From Verif Require Import Common.Base Common.Tactics Gen.PrattTable JsExpr.Syntax JsExpr.Pratt JsExpr.Spec.

(* r' agrees with r unless r ran out of fuel *)
Definition le_res {A} (r r' : res A) : Prop := r = NoFuel \/ r = r'.

Lemma le_refl {A} (r : res A) : le_res r r.
Proof. right. reflexivity. Qed.

Lemma le_nofuel {A} (r : res A) : le_res NoFuel r.
Proof. left. reflexivity. Qed.

Lemma le_bind {A B} (r r' : res A) (k k' : A -> res B) :
  le_res r r' -> (forall a, le_res (k a) (k' a)) -> le_res (rbind r k) (rbind r' k').
Proof.
  intros [H|H] Hk; subst.
  - left. reflexivity.
  - destruct r'; cbn [rbind]; try (right; reflexivity). apply Hk.
Qed.

Ltac le_auto IHe IHs IHa IHc :=
  lazymatch goal with
  | |- le_res (rbind _ _) (rbind _ _) =>
      apply le_bind; [le_auto IHe IHs IHa IHc | intros ?; le_auto IHe IHs IHa IHc]
  | |- le_res (match ?x with _ => _ end) (match ?x with _ => _ end) => destruct x; le_auto IHe IHs IHa IHc
  | |- le_res (if ?x then _ else _) (if ?x then _ else _) => destruct x; le_auto IHe IHs IHa IHc
  | |- _ => first [ apply le_refl | apply IHe | apply IHs | apply IHa | apply IHc ]
  end.

Lemma mono_step f :
  (forall inf prec ts, le_res (parse_expr f inf prec ts) (parse_expr (S f) inf prec ts)) /\
  (forall inf left prec pl ts, le_res (parse_suffix f inf left prec pl ts) (parse_suffix (S f) inf left prec pl ts)) /\
  (forall ts acc, le_res (parse_args f ts acc) (parse_args (S f) ts acc)) /\
  (forall ts acc, le_res (parse_cover f ts acc) (parse_cover (S f) ts acc)).
Proof.
  induction f as [|f [IHe [IHs [IHa IHc]]]].
  { repeat split; intros; apply le_nofuel. }
  repeat split.
  - intros inf prec ts. destruct ts as [|k rest]; [apply le_refl|].
    rewrite !parse_expr_step. unfold group_tail. le_auto IHe IHs IHa IHc.
  - intros inf left prec pl ts. destruct ts as [|k rest]; [apply le_refl|].
    rewrite !parse_suffix_step. le_auto IHe IHs IHa IHc.
  - intros ts acc. rewrite !parse_args_step. le_auto IHe IHs IHa IHc.
  - intros ts acc. rewrite !parse_cover_args. rewrite !parse_args_step. le_auto IHe IHs IHa IHc.
Qed.

Lemma le_trans {A} (a b c : res A) : le_res a b -> le_res b c -> le_res a c.
Proof. intros [H|H] [H'|H']; subst; auto using le_nofuel, le_refl. Qed.

Lemma mono_expr f f' inf prec ts : (f <= f')%nat -> le_res (parse_expr f inf prec ts) (parse_expr f' inf prec ts).
Proof.
  induction 1 as [|m _ IH]; [apply le_refl|]. eapply le_trans; [exact IH|]. apply (proj1 (mono_step m)).
Qed.

Lemma mono_suffix f f' inf left prec pl ts :
  (f <= f')%nat -> le_res (parse_suffix f inf left prec pl ts) (parse_suffix f' inf left prec pl ts).
Proof.
  induction 1 as [|m _ IH]; [apply le_refl|]. eapply le_trans; [exact IH|]. apply (proj1 (proj2 (mono_step m))).
Qed.

Lemma mono_args f f' ts acc : (f <= f')%nat -> le_res (parse_args f ts acc) (parse_args f' ts acc).
Proof.
  induction 1 as [|m _ IH]; [apply le_refl|]. eapply le_trans; [exact IH|]. apply (proj1 (proj2 (proj2 (mono_step m)))).
Qed.

(* a result obtained with some fuel is the result with any larger fuel *)
Lemma expr_more_fuel f f' inf prec ts r :
  parse_expr f inf prec ts = r -> r <> NoFuel -> (f <= f')%nat -> parse_expr f' inf prec ts = r.
Proof. intros H Hr Hf. destruct (mono_expr f f' inf prec ts Hf) as [E|E]; congruence. Qed.

Lemma suffix_more_fuel f f' inf left prec pl ts r :
  parse_suffix f inf left prec pl ts = r -> r <> NoFuel -> (f <= f')%nat -> parse_suffix f' inf left prec pl ts = r.
Proof. intros H Hr Hf. destruct (mono_suffix f f' inf left prec pl ts Hf) as [E|E]; congruence. Qed.

Lemma args_more_fuel f f' ts acc r :
  parse_args f ts acc = r -> r <> NoFuel -> (f <= f')%nat -> parse_args f' ts acc = r.
Proof. intros H Hr Hf. destruct (mono_args f f' ts acc Hf) as [E|E]; congruence. Qed.
