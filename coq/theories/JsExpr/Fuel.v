(* JsExpr/Fuel.v — fuel of the Pratt model: more fuel never changes a result that is not NoFuel, the rest is
   always shorter than the input, and [fuel_for ts] is enough for ts. *)
From Coq Require Import ZifyBool.
From Verif Require Import Common.Base Common.Tactics Gen.PrattTable JsExpr.Syntax JsExpr.Pratt JsExpr.Spec.

(* r' agrees with r unless r ran out of fuel *)
Definition le_res {A} (r r' : res A) : Prop := r = NoFuel \/ r = r'.

Lemma le_refl {A} (r : res A) : le_res r r.
Proof. right. reflexivity. Qed.

Lemma le_nofuel {A} (r : res A) : le_res NoFuel r.
Proof. left. reflexivity. Qed.

Lemma le_bind {A B} (r r' : res A) (k k' : A -> res B) :
  le_res r r' -> (forall a, le_res (k a) (k' a)) -> le_res (rbind r k) (rbind r' k').
Proof.
  intros [H|H] Hk; subst.
  - left. reflexivity.
  - destruct r'; cbn [rbind]; try (right; reflexivity). apply Hk.
Qed.

Ltac le_auto IHe IHs IHa IHc :=
  lazymatch goal with
  | |- le_res (rbind _ _) (rbind _ _) =>
      apply le_bind; [le_auto IHe IHs IHa IHc | intros ?; le_auto IHe IHs IHa IHc]
  | |- le_res (match ?x with _ => _ end) (match ?x with _ => _ end) => destruct x; le_auto IHe IHs IHa IHc
  | |- le_res (if ?x then _ else _) (if ?x then _ else _) => destruct x; le_auto IHe IHs IHa IHc
  | |- _ => first [ apply le_refl | apply IHe | apply IHs | apply IHa | apply IHc ]
  end.

Lemma mono_step f :
  (forall inf prec ts, le_res (parse_expr f inf prec ts) (parse_expr (S f) inf prec ts)) /\
  (forall inf left prec pl ts, le_res (parse_suffix f inf left prec pl ts) (parse_suffix (S f) inf left prec pl ts)) /\
  (forall ts acc, le_res (parse_args f ts acc) (parse_args (S f) ts acc)) /\
  (forall ts acc tc, le_res (parse_cover f ts acc tc) (parse_cover (S f) ts acc tc)).
Proof.
  induction f as [|f [IHe [IHs [IHa IHc]]]].
  { repeat split; intros; apply le_nofuel. }
  repeat split.
  - intros inf prec ts. destruct ts as [|k rest]; [apply le_refl|].
    rewrite !parse_expr_step. unfold group_tail. le_auto IHe IHs IHa IHc.
  - intros inf left prec pl ts. destruct ts as [|k rest]; [apply le_refl|].
    rewrite !parse_suffix_step. le_auto IHe IHs IHa IHc.
  - intros ts acc. rewrite !parse_args_step. le_auto IHe IHs IHa IHc.
  - intros ts acc tc. rewrite !parse_cover_step. le_auto IHe IHs IHa IHc.
Qed.

Lemma le_trans {A} (a b c : res A) : le_res a b -> le_res b c -> le_res a c.
Proof. intros [H|H] [H'|H']; subst; auto using le_nofuel, le_refl. Qed.

Lemma mono_expr f f' inf prec ts : (f <= f')%nat -> le_res (parse_expr f inf prec ts) (parse_expr f' inf prec ts).
Proof.
  induction 1 as [|m _ IH]; [apply le_refl|]. eapply le_trans; [exact IH|]. apply (proj1 (mono_step m)).
Qed.

Lemma mono_suffix f f' inf left prec pl ts :
  (f <= f')%nat -> le_res (parse_suffix f inf left prec pl ts) (parse_suffix f' inf left prec pl ts).
Proof.
  induction 1 as [|m _ IH]; [apply le_refl|]. eapply le_trans; [exact IH|]. apply (proj1 (proj2 (mono_step m))).
Qed.

Lemma mono_args f f' ts acc : (f <= f')%nat -> le_res (parse_args f ts acc) (parse_args f' ts acc).
Proof.
  induction 1 as [|m _ IH]; [apply le_refl|]. eapply le_trans; [exact IH|]. apply (proj1 (proj2 (proj2 (mono_step m)))).
Qed.

Lemma mono_cover f f' ts acc tc : (f <= f')%nat -> le_res (parse_cover f ts acc tc) (parse_cover f' ts acc tc).
Proof.
  induction 1 as [|m _ IH]; [apply le_refl|]. eapply le_trans; [exact IH|]. apply (proj2 (proj2 (proj2 (mono_step m)))).
Qed.

Lemma cover_more_fuel f f' ts acc tc r :
  parse_cover f ts acc tc = r -> r <> NoFuel -> (f <= f')%nat -> parse_cover f' ts acc tc = r.
Proof. intros H Hr Hf. destruct (mono_cover f f' ts acc tc Hf) as [E|E]; congruence. Qed.

(* a result obtained with some fuel is the result with any larger fuel *)
Lemma expr_more_fuel f f' inf prec ts r :
  parse_expr f inf prec ts = r -> r <> NoFuel -> (f <= f')%nat -> parse_expr f' inf prec ts = r.
Proof. intros H Hr Hf. destruct (mono_expr f f' inf prec ts Hf) as [E|E]; congruence. Qed.

Lemma suffix_more_fuel f f' inf left prec pl ts r :
  parse_suffix f inf left prec pl ts = r -> r <> NoFuel -> (f <= f')%nat -> parse_suffix f' inf left prec pl ts = r.
Proof. intros H Hr Hf. destruct (mono_suffix f f' inf left prec pl ts Hf) as [E|E]; congruence. Qed.

Lemma args_more_fuel f f' ts acc r :
  parse_args f ts acc = r -> r <> NoFuel -> (f <= f')%nat -> parse_args f' ts acc = r.
Proof. intros H Hr Hf. destruct (mono_args f f' ts acc Hf) as [E|E]; congruence. Qed.

(* ---- the rest is shorter than the input ------------------------------------------------------------------------ *)

Lemma rbind_ok' {A B} (r : res A) (k : A -> res B) b :
  rbind r k = Ok b -> exists a, r = Ok a /\ k a = Ok b.
Proof. destruct r; cbn [rbind]; try discriminate. eauto. Qed.

Lemma expect_ok' t ts r : expect t ts = Ok r -> exists k, ts = k :: r.
Proof.
  destruct ts as [|k r0]; cbn [expect]; [discriminate|].
  destruct (ty k =? t); [|discriminate]. intros H. inversion H. subst. eauto.
Qed.

Definition len_expr (f : nat) : Prop :=
  forall inf prec ts t rest, parse_expr f inf prec ts = Ok (t, rest) -> (length rest < length ts)%nat.
Definition len_suffix (f : nat) : Prop :=
  forall inf left prec pl ts t rest, parse_suffix f inf left prec pl ts = Ok (t, rest) -> (length rest <= length ts)%nat.
Definition len_args (f : nat) : Prop :=
  forall ts acc l rest, parse_args f ts acc = Ok (l, rest) -> (length rest < length ts)%nat.
Definition len_cover (f : nat) : Prop :=
  forall ts acc tc l tc' rest, parse_cover f ts acc tc = Ok (l, tc', rest) -> (length rest < length ts)%nat.

Ltac len_crunch IHe IHs IHa IHc :=
  repeat match goal with
  | H : Ok _ = Ok _ |- _ => inversion H; subst; clear H
  | H : Fail = Ok _ |- _ => discriminate H
  | H : OutFrag = Ok _ |- _ => discriminate H
  | H : NoFuel = Ok _ |- _ => discriminate H
  | H : rbind _ _ = Ok _ |- _ => apply rbind_ok' in H; destruct H as [? [? H]]
  | H : expect _ _ = Ok _ |- _ => apply expect_ok' in H; destruct H as [? H]; subst
  | H : parse_expr _ _ _ _ = Ok (_, _) |- _ => apply IHe in H
  | H : parse_suffix _ _ _ _ _ _ = Ok (_, _) |- _ => apply IHs in H
  | H : parse_args _ _ _ = Ok (_, _) |- _ => apply IHa in H
  | H : parse_cover _ _ _ _ = Ok (_, _, _) |- _ => apply IHc in H
  | H : (let '(_, _) := ?x in _) = Ok _ |- _ => destruct x
  | H : (if ?c then _ else _) = Ok _ |- _ => destruct c
  | H : match ?x with _ => _ end = Ok _ |- _ => destruct x
  end.

Lemma len_all f : len_expr f /\ len_suffix f /\ len_args f /\ len_cover f.
Proof.
  induction f as [|f [IHe [IHs [IHa IHc]]]].
  { repeat split; intros *; cbn; discriminate. }
  repeat split.
  - intros inf prec ts t rest H. destruct ts as [|k rest0]; [discriminate|].
    rewrite parse_expr_step in H. unfold group_tail in H.
    len_crunch IHe IHs IHa IHc; cbn [length] in *; lia.
  - intros inf left prec pl ts t rest H. destruct ts as [|k rest0]; [cbn in H; inversion H; subst; cbn; lia|].
    rewrite parse_suffix_step in H.
    len_crunch IHe IHs IHa IHc; cbn [length] in *; lia.
  - intros ts acc l rest H. rewrite parse_args_step in H.
    len_crunch IHe IHs IHa IHc; cbn [length] in *; lia.
  - intros ts acc tc l tc' rest H. rewrite parse_cover_step in H.
    len_crunch IHe IHs IHa IHc; cbn [length] in *; lia.
Qed.

(* ---- fuel_for is enough ----------------------------------------------------------------------------------------- *)

Lemma nf_bind {A B} (r : res A) (k : A -> res B) :
  r <> NoFuel -> (forall a, r = Ok a -> k a <> NoFuel) -> rbind r k <> NoFuel.
Proof. destruct r; cbn [rbind]; intros H1 H2; try discriminate; auto. Qed.

Lemma expect_nf t ts : expect t ts <> NoFuel.
Proof. destruct ts as [|k r]; cbn [expect]; [discriminate|]. destruct (ty k =? t); discriminate. Qed.

Definition suff_expr (f : nat) : Prop :=
  forall inf prec ts, (2 * length ts + 1 <= f)%nat -> parse_expr f inf prec ts <> NoFuel.
Definition suff_suffix (f : nat) : Prop :=
  forall inf left prec pl ts, (2 * length ts + 1 <= f)%nat -> parse_suffix f inf left prec pl ts <> NoFuel.
Definition suff_args (f : nat) : Prop :=
  forall ts acc, (2 * length ts + 2 <= f)%nat -> parse_args f ts acc <> NoFuel.
Definition suff_cover (f : nat) : Prop :=
  forall ts acc tc, (2 * length ts + 2 <= f)%nat -> parse_cover f ts acc tc <> NoFuel.

Ltac nf_crunch IHe IHs IHa IHc :=
  repeat match goal with
  | |- Ok _ <> NoFuel => discriminate
  | |- Fail <> NoFuel => discriminate
  | |- OutFrag <> NoFuel => discriminate
  | |- expect _ _ <> NoFuel => apply expect_nf
  | |- rbind _ _ <> NoFuel => apply nf_bind; [|let a := fresh "a" in let E := fresh "E" in intros a E]
  | E : expect _ _ = Ok _ |- _ => apply expect_ok' in E; destruct E as [? E]; subst
  | E : parse_expr _ _ _ _ = Ok (_, _) |- _ => apply (proj1 (len_all _)) in E
  | E : parse_suffix _ _ _ _ _ _ = Ok (_, _) |- _ => apply (proj1 (proj2 (len_all _))) in E
  | E : parse_args _ _ _ = Ok (_, _) |- _ => apply (proj1 (proj2 (proj2 (len_all _)))) in E
  | E : parse_cover _ _ _ _ = Ok (_, _, _) |- _ => apply (proj2 (proj2 (proj2 (len_all _)))) in E
  | |- (let '(_, _) := ?x in _) <> NoFuel => destruct x
  | |- (if ?c then _ else _) <> NoFuel => destruct c
  | |- match ?x with _ => _ end <> NoFuel => destruct x
  | |- parse_expr _ _ _ _ <> NoFuel => apply IHe; cbn [length] in *; lia
  | |- parse_suffix _ _ _ _ _ _ <> NoFuel => apply IHs; cbn [length] in *; lia
  | |- parse_args _ _ _ <> NoFuel => apply IHa; cbn [length] in *; lia
  | |- parse_cover _ _ _ _ <> NoFuel => apply IHc; cbn [length] in *; lia
  end.

Lemma suff_all f : suff_expr f /\ suff_suffix f /\ suff_args f /\ suff_cover f.
Proof.
  induction f as [|f [IHe [IHs [IHa IHc]]]].
  { unfold suff_expr, suff_suffix, suff_args, suff_cover. repeat split; intros; exfalso; lia. }
  repeat split.
  - intros inf prec ts Hf. destruct ts as [|k rest0]; [cbn; discriminate|]. cbn [length] in Hf.
    rewrite parse_expr_step. unfold group_tail. nf_crunch IHe IHs IHa IHc.
  - intros inf left prec pl ts Hf. destruct ts as [|k rest0]; [cbn; discriminate|]. cbn [length] in Hf.
    rewrite parse_suffix_step. nf_crunch IHe IHs IHa IHc.
  - intros ts acc Hf. rewrite parse_args_step. destruct ts as [|k r]; [discriminate|]. cbn [length] in Hf.
    nf_crunch IHe IHs IHa IHc.
  - intros ts acc tc Hf. rewrite parse_cover_step. destruct ts as [|k r]; [discriminate|]. cbn [length] in Hf.
    nf_crunch IHe IHs IHa IHc.
Qed.

Lemma parse_has_fuel inf prec ts : parse inf prec ts <> NoFuel.
Proof. apply (proj1 (suff_all _)). unfold fuel_for. lia. Qed.

(* any fuel that gives a result gives the result of [parse] *)
Lemma parse_of_fuel f inf prec ts r : parse_expr f inf prec ts = r -> r <> NoFuel -> parse inf prec ts = r.
Proof.
  intros H Hr. unfold parse. destruct (Nat.le_ge_cases f (fuel_for ts)) as [Hle|Hge].
  - eapply expr_more_fuel; eauto.
  - destruct (mono_expr (fuel_for ts) f inf prec ts Hge) as [E|E].
    + exfalso. exact (parse_has_fuel inf prec ts E).
    + congruence.
Qed.
