(* JsExpr/Balance.v — every spelling has as many '(' as ')' and as many '[' as ']'. *)
From Coq Require Import ZifyBool.
From Verif Require Import Common.Base Common.Tactics Gen.PrattTable JsExpr.Syntax JsExpr.Pratt JsExpr.Spec JsExpr.TableFacts.

Definition cnt (b : Z) (ts : list token) : nat := length (filter (fun k => ty k =? b) ts).

Lemma cnt_app b x y : cnt b (x ++ y) = (cnt b x + cnt b y)%nat.
Proof. unfold cnt. rewrite filter_app, app_length. reflexivity. Qed.

Lemma cnt_cons b k ts : cnt b (k :: ts) = ((if (ty k =? b)%Z then 1 else 0) + cnt b ts)%nat.
Proof. unfold cnt. cbn [filter]. destruct (ty k =? b); reflexivity. Qed.

Lemma cnt_nil b : cnt b [] = 0%nat.
Proof. reflexivity. Qed.

Definition brackets : list Z := [tt_OpenParenToken; tt_CloseParenToken; tt_OpenBracketToken; tt_CloseBracketToken].

Definition not_bracket (t : Z) : Prop :=
  (t =? tt_OpenParenToken) = false /\ (t =? tt_CloseParenToken) = false /\
  (t =? tt_OpenBracketToken) = false /\ (t =? tt_CloseBracketToken) = false.

Definition not_bracketb (t : Z) : bool := negb (existsb (Z.eqb t) brackets).

Lemma not_bracketb_ok t : not_bracketb t = true -> not_bracket t.
Proof.
  unfold not_bracketb, brackets. cbn [existsb]. intros H. apply negb_true_iff in H.
  repeat (apply orb_false_iff in H; destruct H as [? H]). unfold not_bracket. auto.
Qed.

(* which tokens the arms are attached to *)
Lemma sview_tok inf t :
  match sview inf t with
  | ABin _ _ _ _ _ | APost _ _ _ _ | ACond _ _ _ _ _ | AComma _ _ _ | ADot _ _ => not_bracketb t = true
  | AIndex _ _ _ => t = tt_OpenBracketToken
  | ACall _ _ _ => t = tt_OpenParenToken
  | _ => True
  end.
Proof.
  pose proof (sview_sweep_t (fun t v => match v with
     | ABin _ _ _ _ _ | APost _ _ _ _ | ACond _ _ _ _ _ | AComma _ _ _ | ADot _ _ => not_bracketb t
     | AIndex _ _ _ => t =? tt_OpenBracketToken
     | ACall _ _ _ => t =? tt_OpenParenToken
     | _ => true end)) as S.
  specialize (S (fun _ => eq_refl) ltac:(vm_compute; reflexivity) inf t).
  destruct (sview inf t); try exact I; try exact S; apply Z.eqb_eq; exact S.
Qed.

Lemma pview_tok k :
  match pview k with
  | PLeaf _ | PUnary _ _ _ _ => not_bracket (ty k)
  | PGroup _ _ => ty k = tt_OpenParenToken
  | _ => True
  end.
Proof.
  destruct (pview k) eqn:E; try exact I.
  - (* leaf: none of the four bracket tokens is a leaf *)
    unfold not_bracket. repeat split; apply Z.eqb_neq; intros Hk; unfold pview in E; rewrite Hk in E; vm_compute in E; discriminate.
  - unfold not_bracket. repeat split; apply Z.eqb_neq; intros Hk; unfold pview in E; rewrite Hk in E; vm_compute in E; discriminate.
  - destruct (Z.eqb_spec (ty k) tt_OpenParenToken) as [Hk|Hk]; [exact Hk|].
    exfalso. pose proof (pview_bare k) as Hb. rewrite E in Hb. destruct Hb as [[Hb Hin]|Hb]; [|discriminate].
    assert (S : forallb (fun t => match pview (bare t) with PGroup _ _ => t =? tt_OpenParenToken | _ => true end)
                  (tt_DivToken :: tt_DivEqToken :: prefix_tokens) = true) by (vm_compute; reflexivity).
    rewrite forallb_forall in S. specialize (S _ Hin). rewrite Hb in S. apply Z.eqb_eq in S. contradiction.
Qed.

Lemma name_tok n : is_identifier_name (ty n) = true -> not_bracket (ty n).
Proof.
  intros H. unfold not_bracket. repeat split; apply Z.eqb_neq; intros E; rewrite E in H; vm_compute in H; discriminate.
Qed.

Definition balanced (ts : list token) : Prop :=
  cnt tt_OpenParenToken ts = cnt tt_CloseParenToken ts /\ cnt tt_OpenBracketToken ts = cnt tt_CloseBracketToken ts.

(* an argument list (after its '(') has one more ')' than '(' *)
Definition balanced_args (ts : list token) : Prop :=
  S (cnt tt_OpenParenToken ts) = cnt tt_CloseParenToken ts /\ cnt tt_OpenBracketToken ts = cnt tt_CloseBracketToken ts.

Ltac cnt_simpl :=
  unfold balanced, balanced_args in *; repeat rewrite ?cnt_app, ?cnt_cons, ?cnt_nil in *.

Ltac use_eq H := rewrite ?H; repeat match goal with
  | |- context [?a =? ?b] => let c := eval vm_compute in (a =? b) in change (a =? b) with c
  end.

Lemma spells_balanced :
  (forall inf ts t (s : spells inf ts t), balanced ts) /\
  (forall ats args (s : spells_args ats args), balanced_args ats).
Proof.
  apply (spells_both_ind (fun _ ts _ _ => balanced ts) (fun ats _ _ => balanced_args ats)).
  - intros inf k e Hv. pose proof (pview_tok k) as T. rewrite Hv in T. destruct T as [T1 [T2 [T3 T4]]].
    cnt_simpl. rewrite T1, T2, T3, T4. auto.
  - intros inf ko pG pS ts t kc Hv Ht [B1 B2] Hl Hkc. pose proof (pview_tok ko) as T. rewrite Hv in T.
    cnt_simpl. rewrite T, Hkc. cbn. lia.
  - intros inf k pG pO pS pN ts x Hv Hx [B1 B2] Hl. pose proof (pview_tok k) as T. rewrite Hv in T. destruct T as [T1 [T2 [T3 T4]]].
    cnt_simpl. rewrite T1, T2, T3, T4. cbn. lia.
  - intros inf k pL pR pO pN xs x Hv Hlt Hx [B1 B2] Hl. pose proof (sview_tok inf (ty k)) as T. rewrite Hv in T.
    apply not_bracketb_ok in T. destruct T as [T1 [T2 [T3 T4]]]. cnt_simpl. rewrite T1, T2, T3, T4. cbn. lia.
  - intros inf k pL pR pX pS pN xs x ys y Hv Hx [B1 B2] Hok Hy [B3 B4] Hl. pose proof (sview_tok inf (ty k)) as T. rewrite Hv in T.
    apply not_bracketb_ok in T. destruct T as [T1 [T2 [T3 T4]]]. cnt_simpl. rewrite T1, T2, T3, T4. cbn. lia.
  - intros inf kd pR pC xs x n Hv Hx [B1 B2] Hl Hn Hp. pose proof (sview_tok inf (ty kd)) as T. rewrite Hv in T.
    apply not_bracketb_ok in T. destruct T as [T1 [T2 [T3 T4]]]. destruct (name_tok _ Hn) as [N1 [N2 [N3 N4]]].
    cnt_simpl. rewrite T1, T2, T3, T4, N1, N2, N3, N4. cbn. lia.
  - intros inf ko pR pC pS xs x ys y kc Hv Hx [B1 B2] Hl Hy [B3 B4] Hly Hkc. pose proof (sview_tok inf (ty ko)) as T. rewrite Hv in T.
    cnt_simpl. rewrite T, Hkc. cbn. lia.
  - intros inf ko pL pR pC xs x ats args Hv Hx [B1 B2] Hl Ha [B3 B4]. pose proof (sview_tok inf (ty ko)) as T. rewrite Hv in T.
    cnt_simpl. rewrite T. cbn. lia.
  - intros inf kq pL pR pS pE pN cs c xs x kc ys y Hv Hc [B1 B2] Hlc Hx [B3 B4] Hlx Hkc Hy [B5 B6] Hly.
    pose proof (sview_tok inf (ty kq)) as T. rewrite Hv in T.
    apply not_bracketb_ok in T. destruct T as [T1 [T2 [T3 T4]]]. cnt_simpl. rewrite T1, T2, T3, T4, Hkc. cbn. lia.
  - intros inf k pL pS pN xs x ys y Hv Hx [B1 B2] Hy [B3 B4] Hl. pose proof (sview_tok inf (ty k)) as T. rewrite Hv in T.
    apply not_bracketb_ok in T. destruct T as [T1 [T2 [T3 T4]]]. cnt_simpl. rewrite T1, T2, T3, T4. cbn. lia.
  - intros kc Hkc. cnt_simpl. rewrite Hkc. cbn. lia.
  - intros ts a kc Ha [B1 B2] Hl Hkc. cnt_simpl. rewrite Hkc. cbn. lia.
  - intros ts a km rest l Ha [B1 B2] Hl Hkm Hr [B3 B4]. cnt_simpl. rewrite Hkm. cbn. lia.
Qed.
