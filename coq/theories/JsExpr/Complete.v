(* JsExpr/Complete.v — every spelling ([spells]) of a tree is parsed back to that tree.
   The proof is in continuation style: if the suffix loop started with the finished tree t (at its level)
   produces r on the remaining tokens, then parsing the spelling of t followed by those tokens produces r. *)
From Coq Require Import ZifyBool.
From Verif Require Import Common.Base Common.Tactics Gen.PrattTable JsExpr.Syntax JsExpr.Pratt JsExpr.Spec
  JsExpr.TableFacts JsExpr.Fuel JsExpr.Sound.

(* results with some amount of fuel *)
Definition PE inf prec ts (r : res (expr * list token)) : Prop := r <> NoFuel /\ exists f, parse_expr f inf prec ts = r.
Definition PS inf left prec pl ts (r : res (expr * list token)) : Prop := r <> NoFuel /\ exists f, parse_suffix f inf left prec pl ts = r.
Definition PA ts acc (r : res (list expr * list token)) : Prop := r <> NoFuel /\ exists f, parse_args f ts acc = r.
Definition PC ts acc tc (r : res (list expr * bool * list token)) : Prop := r <> NoFuel /\ exists f, parse_cover f ts acc tc = r.

Lemma ok_nf {A} (a : A) : Ok a <> NoFuel. Proof. discriminate. Qed.
Lemma fail_nf {A} : @Fail A <> NoFuel. Proof. discriminate. Qed.
Global Hint Resolve ok_nf fail_nf : core.

Ltac fuel2 f1 f2 := exists (S (Nat.max f1 f2)).
Ltac use_e H := erewrite (expr_more_fuel _ _ _ _ _ _ H); [|auto|lia].
Ltac use_s H := erewrite (suffix_more_fuel _ _ _ _ _ _ _ _ H); [|auto|lia].
Ltac use_a H := erewrite (args_more_fuel _ _ _ _ _ H); [|auto|lia].
Ltac use_c H := erewrite (cover_more_fuel _ _ _ _ _ _ H); [|auto|lia].

(* ---- one step of parseExpression -------------------------------------------------------------------------------- *)

Lemma PE_leaf inf prec k e rest r :
  pview k = PLeaf e -> PS inf e prec primary rest r -> PE inf prec (k :: rest) r.
Proof.
  intros Hv [Hr [f Hf]]. split; [exact Hr|]. exists (S f). rewrite parse_expr_step, Hv. exact Hf.
Qed.

Lemma PE_unary inf prec k pG pO pS pN rest x r1 r :
  pview k = PUnary pG pO pS pN -> (pG <? prec) = false ->
  PE inf pS rest (Ok (x, r1)) -> PS inf (EUnary pO x) prec pN r1 r -> PE inf prec (k :: rest) r.
Proof.
  intros Hv Hg [_ [f1 H1]] [Hr [f2 H2]]. split; [exact Hr|]. fuel2 f1 f2.
  rewrite parse_expr_step, Hv, Hg. use_e H1. cbn [rbind]. use_s H2. reflexivity.
Qed.

Lemma PE_group inf prec k pG pS rest x kc r1 r :
  pview k = PGroup pG pS -> (pG <? prec) = true ->
  PE true pS rest (Ok (x, kc :: r1)) -> ty kc = tt_CloseParenToken ->
  PS inf (EGroup x) prec primary r1 r -> PE inf prec (k :: rest) r.
Proof.
  intros Hv Hg [_ [f1 H1]] Hkc [Hr [f2 H2]]. split; [exact Hr|]. fuel2 f1 f2.
  rewrite parse_expr_step, Hv. unfold group_tail. rewrite Hg. use_e H1. cbn [rbind expect]. rewrite Hkc, Z.eqb_refl.
  cbn [rbind]. use_s H2. reflexivity.
Qed.

Lemma sview_arrow inf : sview inf tt_ArrowToken = ABad.
Proof. destruct inf; vm_compute; reflexivity. Qed.

Lemma PE_cover inf prec k pG pS rest args r1 r :
  pview k = PGroup pG pS -> (pG <? prec) = false ->
  PC rest [] false (Ok (args, false, r1)) -> args <> [] ->
  PS inf (EGroup (group_body args)) prec primary r1 r -> PE inf prec (k :: rest) r.
Proof.
  intros Hv Hg [_ [f1 H1]] Hne [Hr [f2 H2]]. split; [exact Hr|]. fuel2 f1 f2.
  rewrite parse_expr_step, Hv. unfold group_tail. rewrite Hg. use_c H1. cbn [rbind].
  assert (Hbody : match args with
                  | [] => Fail
                  | _ => if false then Fail else
                         match args with
                         | [x] => parse_suffix (Nat.max f1 f2) inf (EGroup x) prec primary r1
                         | _ => parse_suffix (Nat.max f1 f2) inf (EGroup (EComma args)) prec primary r1
                         end
                  end = r).
  { destruct args as [|x [|y l]]; [contradiction| |]; cbn [group_body] in H2; use_s H2; reflexivity. }
  destruct r1 as [|a r0]; [exact Hbody|].
  destruct (ty a =? tt_ArrowToken) eqn:Ea; [|exact Hbody].
  (* an arrow follows: the suffix loop is outside the fragment as well *)
  apply Z.eqb_eq in Ea. destruct f2 as [|f2]; [cbn in H2; congruence|].
  rewrite parse_suffix_step, Ea, sview_arrow in H2. congruence.
Qed.

(* a trailing comma and no arrow: "unexpected ... in expression" *)
Lemma PE_cover_fail inf prec k pG pS rest args r1 :
  pview k = PGroup pG pS -> (pG <? prec) = false ->
  PC rest [] false (Ok (args, true, r1)) -> args <> [] ->
  (forall a r, r1 = a :: r -> ty a <> tt_ArrowToken) ->
  PE inf prec (k :: rest) Fail.
Proof.
  intros Hv Hg [_ [f1 H1]] Hne Hna. split; [auto|]. exists (S f1).
  rewrite parse_expr_step, Hv. unfold group_tail. rewrite Hg, H1. cbn [rbind].
  destruct r1 as [|a r0].
  - destruct args; [contradiction|reflexivity].
  - specialize (Hna a r0 eq_refl). apply Z.eqb_neq in Hna. rewrite Hna. destruct args; [contradiction|reflexivity].
Qed.

(* ---- one step of parseExpressionSuffix ------------------------------------------------------------------------ *)

Lemma PS_stop inf left prec pl rest :
  ncont inf prec rest = true -> PS inf left prec pl rest (Ok (left, rest)).
Proof. intros H. split; [auto|]. exists 1%nat. apply suffix_stops. exact H. Qed.

Lemma PS_bin inf left prec pl k rest pL pR pX pS pN y r1 r :
  sview inf (ty k) = ABin pL pR pX pS pN -> (pL <? prec) = false -> okl_of pR pX pl = true ->
  PE inf pS rest (Ok (y, r1)) -> PS inf (EBinary (ty k) left y) prec pN r1 r ->
  PS inf left prec pl (k :: rest) r.
Proof.
  intros Hv Hl Hok [_ [f1 H1]] [Hr [f2 H2]]. split; [exact Hr|]. fuel2 f1 f2.
  rewrite parse_suffix_step, Hv, Hl, Hok. cbn [negb]. use_e H1. cbn [rbind]. use_s H2. reflexivity.
Qed.

Lemma PS_bin_fail inf left prec pl k rest pL pR pX pS pN :
  sview inf (ty k) = ABin pL pR pX pS pN -> (pL <? prec) = false -> okl_of pR pX pl = false ->
  PS inf left prec pl (k :: rest) Fail.
Proof.
  intros Hv Hl Hok. split; [auto|]. exists 1%nat. rewrite parse_suffix_step, Hv, Hl, Hok. reflexivity.
Qed.

Lemma PS_dot inf left prec pl k n rest pR pC r :
  sview inf (ty k) = ADot pR pC -> (pl <? pR) = false ->
  is_identifier_name (ty n) = true -> ty n <> tt_PrivateIdentifierToken ->
  PS inf (EDot left (data n)) prec (cap pC pl) rest r ->
  PS inf left prec pl (k :: n :: rest) r.
Proof.
  intros Hv Hl Hn Hp [Hr [f2 H2]]. split; [exact Hr|]. exists (S f2).
  rewrite parse_suffix_step, Hv, Hl, Hn. apply Z.eqb_neq in Hp. rewrite Hp. exact H2.
Qed.

Lemma PS_index inf left prec pl k rest pR pC pS y kc r1 r :
  sview inf (ty k) = AIndex pR pC pS -> (pl <? pR) = false ->
  PE true pS rest (Ok (y, kc :: r1)) -> ty kc = tt_CloseBracketToken ->
  PS inf (EIndex left y) prec (cap pC pl) r1 r ->
  PS inf left prec pl (k :: rest) r.
Proof.
  intros Hv Hl [_ [f1 H1]] Hkc [Hr [f2 H2]]. split; [exact Hr|]. fuel2 f1 f2.
  rewrite parse_suffix_step, Hv, Hl. use_e H1. cbn [rbind expect]. rewrite Hkc, Z.eqb_refl. cbn [rbind].
  use_s H2. reflexivity.
Qed.

Lemma PS_call inf left prec pl k rest pL pR pC args r1 r :
  sview inf (ty k) = ACall pL pR pC -> (pL <? prec) = false -> (pl <? pR) = false ->
  PA rest [] (Ok (args, r1)) ->
  PS inf (ECall left args) prec (cap pC pl) r1 r ->
  PS inf left prec pl (k :: rest) r.
Proof.
  intros Hv Hl Hr0 [_ [f1 H1]] [Hr [f2 H2]]. split; [exact Hr|]. fuel2 f1 f2.
  rewrite parse_suffix_step, Hv, Hl, Hr0. use_a H1. cbn [rbind]. use_s H2. reflexivity.
Qed.

Lemma PS_post inf left prec pl k rest pL pR pO pN r :
  sview inf (ty k) = APost pL pR pO pN -> lt k = false -> (pL <? prec) = false -> (pl <? pR) = false ->
  PS inf (EUnary pO left) prec pN rest r ->
  PS inf left prec pl (k :: rest) r.
Proof.
  intros Hv Hlt Hl Hr0 [Hr [f2 H2]]. split; [exact Hr|]. exists (S f2).
  rewrite parse_suffix_step, Hv, Hlt, Hl, Hr0. exact H2.
Qed.

Lemma PS_cond inf left prec pl k rest pL pR pS pE pN x kc r1 y r2 r :
  sview inf (ty k) = ACond pL pR pS pE pN -> (pL <? prec) = false -> (pl <? pR) = false ->
  PE true pS rest (Ok (x, kc :: r1)) -> ty kc = tt_ColonToken ->
  PE inf pE r1 (Ok (y, r2)) ->
  PS inf (ECond left x y) prec pN r2 r ->
  PS inf left prec pl (k :: rest) r.
Proof.
  intros Hv Hl Hr0 [_ [f1 H1]] Hkc [_ [f3 H3]] [Hr [f2 H2]]. split; [exact Hr|]. exists (S (Nat.max f1 (Nat.max f2 f3))).
  rewrite parse_suffix_step, Hv, Hl, Hr0. use_e H1. cbn [rbind expect]. rewrite Hkc, Z.eqb_refl. cbn [rbind].
  use_e H3. cbn [rbind]. use_s H2. reflexivity.
Qed.

Lemma PS_comma inf left prec pl k rest pL pS pN y r1 r :
  sview inf (ty k) = AComma pL pS pN -> (pL <? prec) = false ->
  PE inf pS rest (Ok (y, r1)) -> PS inf (comma_snoc left y) prec pN r1 r ->
  PS inf left prec pl (k :: rest) r.
Proof.
  intros Hv Hl [_ [f1 H1]] [Hr [f2 H2]]. split; [exact Hr|]. fuel2 f1 f2.
  rewrite parse_suffix_step, Hv, Hl. use_e H1. cbn [rbind]. use_s H2. reflexivity.
Qed.

(* ---- parseArguments ----------------------------------------------------------------------------------------------- *)

(* what the loop does after an argument, in front of token c *)
Definition PAcont (c : token) (r2 : list token) (acc' : list expr) (res : res (list expr * list token)) : Prop :=
  (ty c = tt_CloseParenToken /\ res = Ok (rev acc', r2)) \/ (ty c = tt_CommaToken /\ PA r2 acc' res).

Lemma PA_end k r acc : ty k = tt_CloseParenToken -> PA (k :: r) acc (Ok (rev acc, r)).
Proof. intros H. split; [auto|]. exists 1%nat. rewrite parse_args_step, H, Z.eqb_refl. reflexivity. Qed.

Lemma PA_arg k ts acc a c r2 res :
  ty k <> tt_CloseParenToken -> ty k <> tt_EllipsisToken ->
  PE true pratt_args_level (k :: ts) (Ok (a, c :: r2)) -> PAcont c r2 (a :: acc) res -> res <> NoFuel ->
  PA (k :: ts) acc res.
Proof.
  intros Hk1 Hk2 [_ [f1 H1]] Hc Hres. split; [exact Hres|].
  apply Z.eqb_neq in Hk1. apply Z.eqb_neq in Hk2.
  destruct Hc as [[Hc E]|[Hc [_ [f2 H2]]]].
  - exists (S f1). rewrite parse_args_step, Hk1, Hk2, H1. cbn [rbind]. rewrite Hc, Z.eqb_refl. congruence.
  - fuel2 f1 f2. rewrite parse_args_step, Hk1, Hk2. use_e H1. cbn [rbind].
    replace (ty c =? tt_CloseParenToken) with false by (rewrite Hc; vm_compute; reflexivity).
    rewrite Hc, Z.eqb_refl. use_a H2. reflexivity.
Qed.

(* ---- the cover list of a parenthesis --------------------------------------------------------------------------- *)

Definition PCcont (c : token) (r2 : list token) (acc' : list expr) (res : res (list expr * bool * list token)) : Prop :=
  (ty c = tt_CloseParenToken /\ res = Ok (rev acc', false, r2)) \/
  (ty c = tt_CommaToken /\ PC r2 acc' (next_close r2) res).

Lemma PC_end k r acc tc : ty k = tt_CloseParenToken -> PC (k :: r) acc tc (Ok (rev acc, tc, r)).
Proof. intros H. split; [auto|]. exists 1%nat. rewrite parse_cover_step, H, Z.eqb_refl. reflexivity. Qed.

Lemma PC_arg k ts acc tc a c r2 res :
  ty k <> tt_CloseParenToken -> ty k <> tt_EllipsisToken ->
  PE true prec_OpAssign (k :: ts) (Ok (a, c :: r2)) -> PCcont c r2 (a :: acc) res -> res <> NoFuel ->
  PC (k :: ts) acc tc res.
Proof.
  intros Hk1 Hk2 [_ [f1 H1]] Hc Hres. split; [exact Hres|].
  apply Z.eqb_neq in Hk1. apply Z.eqb_neq in Hk2.
  destruct Hc as [[Hc E]|[Hc [_ [f2 H2]]]].
  - exists (S f1). rewrite parse_cover_step, Hk1, Hk2, H1. cbn [rbind].
    replace (ty c =? tt_CommaToken) with false by (rewrite Hc; vm_compute; reflexivity).
    rewrite Hc, Z.eqb_refl. congruence.
  - fuel2 f1 f2. rewrite parse_cover_step, Hk1, Hk2. use_e H1. cbn [rbind].
    rewrite Hc, Z.eqb_refl. unfold next_close in H2. use_c H2. reflexivity.
Qed.

(* ---- structure of spellings -------------------------------------------------------------------------------------- *)

Definition elems (t : expr) : list expr := match t with EComma l => l | _ => [t] end.

Lemma elems_snoc x y : is_comma y = false -> elems (comma_snoc x y) = elems x ++ [y].
Proof. intros _. destruct x; reflexivity. Qed.

Lemma spells_lvl inf ts t : spells inf ts t ->
  prec_OpExpr <= lvl t /\ (is_comma t = false -> prec_OpAssign <= lvl t).
Proof.
  pose proof prec_order as PO.
  destruct 1 as [inf k e Hv|inf ko pG pS ts t kc Hv Ht Hl Hkc
    |inf k pG pO pS pN ts x Hv Hx Hl|inf k pL pR pO pN xs x Hv Hlt Hx Hl|inf k pL pR pX pS pN xs x ys y Hv Hx Hok Hy Hl
    |inf kd pR pC xs x n Hv Hx Hl Hn Hp|inf ko pR pC pS xs x ys y kc Hv Hx Hl Hy Hly Hkc
    |inf ko pL pR pC xs x ats args Hv Hx Hl Ha|inf kq pL pR pS pE pN cs c xs x kc ys y Hv Hc Hlc Hx Hlx Hkc Hy Hly
    |inf k pL pS pN xs x ys y Hv Hx Hy Hl].
  - destruct (pview_leaf_lvl _ _ Hv) as [E _]. rewrite E. split; intros; lia.
  - cbn [lvl]. split; intros; lia.
  - cbn [lvl]. destruct (is_update_op pO); split; intros; lia.
  - cbn [lvl]. destruct (is_update_op pO); split; intros; lia.
  - cbn [lvl]. rewrite (bin_level_of _ _ _ _ _ _ _ Hv).
    pose proof (sfact_all inf (ty k)) as SF. rewrite Hv in SF. cbn [sfact] in SF. b2p. split; intros; lia.
  - pose proof (sfact_all inf (ty kd)) as SF. rewrite Hv in SF. cbn [sfact] in SF. b2p.
    cbn [lvl]. unfold cap. destruct (prec_OpMember <? lvl x); split; intros; lia.
  - pose proof (sfact_all inf (ty ko)) as SF. rewrite Hv in SF. cbn [sfact] in SF. b2p.
    cbn [lvl]. unfold cap. destruct (prec_OpMember <? lvl x); split; intros; lia.
  - pose proof (sfact_all inf (ty ko)) as SF. rewrite Hv in SF. cbn [sfact] in SF. b2p.
    cbn [lvl]. unfold cap. destruct (prec_OpCall <? lvl x); split; intros; lia.
  - cbn [lvl]. split; intros; lia.
  - destruct x; cbn [comma_snoc lvl]; split; intros; try lia; discriminate.
Qed.

Lemma spells_comma_len inf ts t : spells inf ts t -> forall l, t = EComma l -> (2 <= length l)%nat.
Proof.
  induction 1; intros l0 E; try discriminate.
  - (* leaf *) destruct (pview_leaf_lvl _ _ H) as [Hl _]. subst e. cbn [lvl] in Hl. pose proof prec_order. lia.
  - (* comma *)
    destruct x; cbn [comma_snoc] in E; inversion E; subst; cbn [length]; try lia.
    rewrite app_length. cbn [length]. specialize (IHspells1 _ eq_refl). lia.
Qed.

Lemma group_body_elems inf ts t : spells inf ts t -> group_body (elems t) = t.
Proof.
  intros H. destruct t; try reflexivity. cbn [elems].
  pose proof (spells_comma_len _ _ _ H l eq_refl) as Hl.
  destruct l as [|a [|b l]]; cbn [length] in Hl; try lia. reflexivity.
Qed.

Lemma elems_nonempty inf ts t : spells inf ts t -> elems t <> [].
Proof.
  intros H. destruct t; try discriminate. cbn [elems].
  pose proof (spells_comma_len _ _ _ H l eq_refl) as Hl. destruct l; cbn [length] in Hl; [lia|discriminate].
Qed.

(* a spelling starts with a token that starts an expression *)
Definition starts_expr (k : token) : Prop :=
  match pview k with PLeaf _ | PUnary _ _ _ _ | PGroup _ _ => True | _ => False end.

Lemma spells_first inf ts t : spells inf ts t -> exists k ts', ts = k :: ts' /\ starts_expr k.
Proof.
  unfold starts_expr.
  induction 1; try (destruct IHspells1 as [k0 [ts' [E Hs]]]; subst; cbn [app]; eauto; fail).
  - exists k, []. rewrite H. auto.
  - exists ko, (ts ++ [kc]). rewrite H. auto.
  - exists k, ts. rewrite H. auto.
  - destruct IHspells as [k0 [ts' [E Hs]]]; subst; cbn [app]; eauto.
  - destruct IHspells as [k0 [ts' [E Hs]]]; subst; cbn [app]; eauto.
  - destruct IHspells as [k0 [ts' [E Hs]]]; subst; cbn [app]; eauto.
Qed.

Lemma starts_not_close k : starts_expr k -> ty k <> tt_CloseParenToken /\ ty k <> tt_EllipsisToken.
Proof.
  unfold starts_expr. intros H.
  split; intros E; unfold pview in H; rewrite E in H; vm_compute in H; exact H.
Qed.

(* ---- the main induction ------------------------------------------------------------------------------------------- *)

Definition cA (inf : bool) (ts : list token) (t : expr) : Prop :=
  forall prec rest r, prec <= prec_OpUnary -> prec <= lvl t -> rcond inf t rest ->
    PS inf t prec (lvl t) rest r -> PE inf prec (ts ++ rest) r.

Definition cB (ts : list token) (t : expr) : Prop :=
  forall acc c r2 res, PAcont c r2 (rev (elems t) ++ acc) res -> PA (ts ++ c :: r2) acc res.

Definition cC (ts : list token) (t : expr) : Prop :=
  forall acc tc c r2 res, PCcont c r2 (rev (elems t) ++ acc) res -> PC (ts ++ c :: r2) acc tc res.

Definition cArgs (ats : list token) (args : list expr) : Prop :=
  forall rest acc, PA (ats ++ rest) acc (Ok (rev acc ++ args, rest)).

Lemma PAcont_nf c r2 acc res : PAcont c r2 acc res -> res <> NoFuel.
Proof. intros [[_ E]|[_ [H _]]]; [subst; auto|exact H]. Qed.

Lemma PCcont_nf c r2 acc res : PCcont c r2 acc res -> res <> NoFuel.
Proof. intros [[_ E]|[_ [H _]]]; [subst; auto|exact H]. Qed.

Lemma ncont_close inf p c r : ty c = tt_CloseParenToken \/ ty c = tt_CloseBracketToken \/ ty c = tt_ColonToken ->
  ncont inf p (c :: r) = true.
Proof.
  intros H. cbn [ncont]. rewrite sview_close; [reflexivity|]. cbn [In]. destruct H as [H|[H|H]]; rewrite H; auto.
Qed.

Lemma ncont_comma inf p c r : ty c = tt_CommaToken -> prec_OpAssign <= p -> ncont inf p (c :: r) = true.
Proof.
  intros H Hp. cbn [ncont]. destruct (sview_comma inf) as [pL [pS [pN E]]]. rewrite H, E.
  pose proof (sfact_all inf tt_CommaToken) as SF. rewrite E in SF. cbn [sfact] in SF. b2p. cbn [ret_view].
  pose proof prec_order. lia.
Qed.

Lemma rcond_sep inf t c r : ty c = tt_CloseParenToken \/ ty c = tt_CloseBracketToken \/ ty c = tt_ColonToken \/ ty c = tt_CommaToken ->
  rcond inf t (c :: r).
Proof.
  intros H. unfold rcond. destruct (rlevel t) as [p|] eqn:E; [|exact I].
  destruct H as [H|[H|[H|H]]]; try (apply ncont_close; tauto).
  apply ncont_comma; [exact H|]. eapply rlevel_ge_assign. exact E.
Qed.

(* parsing a complete operand t at level p in front of a separator *)
Lemma operand_done inf ts t p c r :
  cA inf ts t -> p <= prec_OpUnary -> p <= lvl t ->
  (ty c = tt_CloseParenToken \/ ty c = tt_CloseBracketToken \/ ty c = tt_ColonToken \/ (ty c = tt_CommaToken /\ prec_OpAssign <= p)) ->
  PE inf p (ts ++ c :: r) (Ok (t, c :: r)).
Proof.
  intros HA Hp Hl Hc. apply HA; auto.
  - apply rcond_sep. tauto.
  - apply PS_stop. destruct Hc as [H|[H|[H|[H H']]]]; try (apply ncont_close; tauto). apply ncont_comma; assumption.
Qed.

Lemma B_from_A ts t : spells true ts t -> cA true ts t -> is_comma t = false -> cB ts t.
Proof.
  intros Hsp HA Hnc acc c r2 res Hc.
  pose proof prec_order as PO.
  destruct (spells_first _ _ _ Hsp) as [k [ts' [E Hst]]]. subst ts.
  destruct (starts_not_close _ Hst) as [N1 N2].
  assert (Hel : elems t = [t]) by (destruct t; try reflexivity; discriminate).
  rewrite Hel in Hc. cbn [rev app] in Hc.
  assert (Hty : ty c = tt_CloseParenToken \/ ty c = tt_CommaToken) by (destruct Hc as [[H _]|[H _]]; tauto).
  cbn [app]. eapply PA_arg; eauto.
  - change (k :: ts' ++ c :: r2) with ((k :: ts') ++ c :: r2). apply operand_done; auto.
    + lia.
    + destruct (spells_lvl _ _ _ Hsp) as [_ H]. specialize (H Hnc). lia.
    + destruct Hty as [H|H]; [tauto|]. right. right. right. split; [exact H|]. lia.
  - eapply PAcont_nf. exact Hc.
Qed.

Lemma C_from_A ts t : spells true ts t -> cA true ts t -> is_comma t = false -> cC ts t.
Proof.
  intros Hsp HA Hnc acc tc c r2 res Hc.
  pose proof prec_order as PO.
  destruct (spells_first _ _ _ Hsp) as [k [ts' [E Hst]]]. subst ts.
  destruct (starts_not_close _ Hst) as [N1 N2].
  assert (Hel : elems t = [t]) by (destruct t; try reflexivity; discriminate).
  rewrite Hel in Hc. cbn [rev app] in Hc.
  assert (Hty : ty c = tt_CloseParenToken \/ ty c = tt_CommaToken) by (destruct Hc as [[H _]|[H _]]; tauto).
  cbn [app]. eapply PC_arg; eauto.
  - change (k :: ts' ++ c :: r2) with ((k :: ts') ++ c :: r2). apply operand_done; auto.
    + lia.
    + destruct (spells_lvl _ _ _ Hsp) as [_ H]. specialize (H Hnc). lia.
    + destruct Hty as [H|H]; [tauto|]. right. right. right. split; [exact H|]. lia.
  - eapply PCcont_nf. exact Hc.
Qed.

Lemma BC_from_A ts t : spells true ts t -> cA true ts t -> is_comma t = false -> cB ts t /\ cC ts t.
Proof. intros. split; [apply B_from_A|apply C_from_A]; assumption. Qed.

Lemma rcond_ncont inf t rest pS : rlevel t = Some pS -> rcond inf t rest -> ncont inf pS rest = true.
Proof. intros Ht Hr. unfold rcond in Hr. rewrite Ht in Hr. exact Hr. Qed.

(* a finished right operand y at level pS, when the enclosing node is closed off by rest *)
Lemma right_operand inf ys y pS rest :
  cA inf ys y -> pS <= prec_OpUnary -> pS <= lvl y -> ncont inf pS rest = true ->
  PE inf pS (ys ++ rest) (Ok (y, rest)).
Proof.
  intros HA Hp Hl Hn. apply HA; auto.
  - unfold rcond. destruct (rlevel y) as [p|] eqn:Ey; [|exact I].
    eapply ncont_mono; [exact Hn|]. pose proof (rlevel_ge_lvl _ _ Ey). lia.
  - apply PS_stop. exact Hn.
Qed.

Ltac view_facts inf k Hv :=
  let SF := fresh "SF" in
  pose proof (sfact_all inf (ty k)) as SF; rewrite Hv in SF; cbn [sfact] in SF; b2p.

Ltac zfalse := apply Z.ltb_ge; lia.
(* close a PS goal with a PS hypothesis whose level argument is equal by arithmetic *)
Ltac exact_ps HS :=
  match goal with
  | |- PS _ _ _ ?a _ _ => match type of HS with PS _ _ _ ?b _ _ => replace a with b by (first [lia | f_equal; lia]); exact HS end
  end.

Lemma complete_all :
  (forall inf ts t (s : spells inf ts t), cA inf ts t /\ (inf = true -> cB ts t /\ cC ts t)) /\
  (forall ats args (s : spells_args ats args), cArgs ats args).
Proof.
  pose proof prec_order as PO.
  apply (spells_both_ind
           (fun inf ts t _ => cA inf ts t /\ (inf = true -> cB ts t /\ cC ts t))
           (fun ats args _ => cArgs ats args)).
  - (* leaf *)
    intros inf k e Hv.
    assert (HA : cA inf [k] e).
    { intros prec rest r Hp Hl Hrc HS. destruct (pview_leaf_lvl _ _ Hv) as [El _]. rewrite El in HS.
      cbn [app]. eapply PE_leaf; eauto. }
    split; [exact HA|]. intros Ei. subst inf. apply BC_from_A; auto.
    + apply SP_leaf. exact Hv.
    + apply lvl_not_comma. destruct (pview_leaf_lvl _ _ Hv) as [El _]. rewrite El. lia.
  - (* parenthesis *)
    intros inf ko pG pS ts t kc Hv Ht [IHA IHB] Hl Hkc.
    pose proof (pfact_all ko) as PF. rewrite Hv in PF. cbn [pfact] in PF. b2p.
    assert (HA : cA inf (ko :: ts ++ [kc]) (EGroup t)).
    { intros prec rest r Hp Hlv Hrc HS. cbn [lvl] in HS.
      replace ((ko :: ts ++ [kc]) ++ rest) with (ko :: ts ++ kc :: rest) by (cbn [app]; rewrite <- app_assoc; reflexivity).
      destruct (pG <? prec) eqn:EG.
      - eapply PE_group; eauto. apply operand_done; auto; lia.
      - eapply PE_cover; eauto.
        + apply (proj2 (IHB eq_refl)). left. split; [exact Hkc|]. rewrite app_nil_r, rev_involutive. reflexivity.
        + eapply elems_nonempty. exact Ht.
        + rewrite (group_body_elems _ _ _ Ht). exact HS. }
    split; [exact HA|]. intros Ei. subst inf. apply BC_from_A; [eapply SP_group; eauto|exact HA|reflexivity].
  - (* prefix operator *)
    intros inf k pG pO pS pN ts x Hv Hx [IHA IHB] Hl.
    pose proof (pfact_all k) as PF. rewrite Hv in PF. cbn [pfact] in PF. b2p.
    assert (Hnp : is_postfix_op pO = false) by (destruct (is_postfix_op pO); [discriminate|reflexivity]).
    assert (HA : cA inf (k :: ts) (EUnary pO x)).
    { intros prec rest r Hp Hlv Hrc HS. cbn [lvl] in HS, Hlv.
      assert (Hn : ncont inf pS rest = true).
      { eapply ncont_mono; [eapply (rcond_ncont inf (EUnary pO x)); [cbn [rlevel]; rewrite Hnp; reflexivity|exact Hrc]|lia]. }
      cbn [app]. eapply PE_unary; eauto.
      - zfalse.
      - apply (right_operand inf ts x pS rest IHA); [lia|lia|exact Hn].
      - exact_ps HS. }
    split; [exact HA|]. intros Ei. subst inf. apply BC_from_A; [eapply SP_prefix; eauto|exact HA|reflexivity].
  - (* postfix operator *)
    intros inf k pL pR pO pN xs x Hv Hlt Hx [IHA IHB] Hl.
    view_facts inf k Hv.
    assert (HA : cA inf (xs ++ [k]) (EUnary pO x)).
    { intros prec rest r Hp Hlv Hrc HS. cbn [lvl] in HS, Hlv. rewrite (postfix_is_update _ H1) in HS, Hlv.
      rewrite <- app_assoc. cbn [app]. apply IHA; auto.
      - lia.
      - apply rcond_left. rewrite Hv. cbn [left_ok]. apply Z.leb_le. exact Hl.
      - eapply PS_post; eauto; try zfalse. exact_ps HS. }
    split; [exact HA|]. intros Ei. subst inf. apply BC_from_A; [eapply SP_postfix; eauto|exact HA|reflexivity].
  - (* binary operator *)
    intros inf k pL pR pX pS pN xs x ys y Hv Hx [IHAx IHBx] Hok Hy [IHAy IHBy] Hl.
    view_facts inf k Hv.
    assert (Elv : lvl (EBinary (ty k) x y) = pN) by (cbn [lvl]; eapply bin_level_of; exact Hv).
    assert (HA : cA inf (xs ++ k :: ys) (EBinary (ty k) x y)).
    { intros prec rest r Hp Hlv Hrc HS. rewrite Elv in HS, Hlv.
      rewrite <- app_assoc. cbn [app]. apply IHAx; auto.
      - (* prec <= lvl x *)
        unfold okl_of in Hok. apply negb_true_iff in Hok. apply andb_false_iff in Hok.
        destruct Hok as [Hok|Hok]; [apply Z.ltb_ge in Hok; lia|].
        apply negb_false_iff in Hok. apply Z.eqb_eq in Hok. lia.
      - apply rcond_left. rewrite Hv. exact Hok.
      - eapply PS_bin; eauto; try zfalse.
        apply right_operand; auto; try lia.
        eapply (rcond_ncont inf (EBinary (ty k) x y)); [eapply rlevel_bin; exact Hv|exact Hrc]. }
    split; [exact HA|]. intros Ei. subst inf. apply BC_from_A; [eapply SP_binary; eauto|exact HA|reflexivity].
  - (* dot *)
    intros inf kd pR pC xs x n Hv Hx [IHA IHB] Hl Hn Hp.
    view_facts inf kd Hv.
    assert (HA : cA inf (xs ++ [kd; n]) (EDot x (data n))).
    { intros prec rest r Hpr Hlv Hrc HS. cbn [lvl] in HS.
      rewrite <- app_assoc. cbn [app]. apply IHA; auto.
      - lia.
      - apply rcond_left. rewrite Hv. cbn [left_ok]. apply Z.leb_le. exact Hl.
      - eapply PS_dot; eauto; try zfalse. exact_ps HS. }
    split; [exact HA|]. intros Ei. subst inf. apply BC_from_A; [eapply SP_dot; eauto|exact HA|reflexivity].
  - (* index *)
    intros inf ko pR pC pS xs x ys y kc Hv Hx [IHAx IHBx] Hl Hy [IHAy IHBy] Hly Hkc.
    view_facts inf ko Hv.
    assert (HA : cA inf (xs ++ ko :: ys ++ [kc]) (EIndex x y)).
    { intros prec rest r Hpr Hlv Hrc HS. cbn [lvl] in HS.
      replace ((xs ++ ko :: ys ++ [kc]) ++ rest) with (xs ++ ko :: ys ++ kc :: rest)
        by (repeat (rewrite <- app_assoc; cbn [app]); reflexivity).
      apply IHAx; auto.
      - lia.
      - apply rcond_left. rewrite Hv. cbn [left_ok]. apply Z.leb_le. exact Hl.
      - eapply PS_index; eauto; try zfalse.
        + apply (operand_done true ys y pS kc rest IHAy); [lia|lia|tauto].
        + exact_ps HS. }
    split; [exact HA|]. intros Ei. subst inf. apply BC_from_A; [eapply SP_index; eauto|exact HA|reflexivity].
  - (* call *)
    intros inf ko pL pR pC xs x ats args Hv Hx [IHA IHB] Hl Ha IHargs.
    view_facts inf ko Hv.
    assert (HA : cA inf (xs ++ ko :: ats) (ECall x args)).
    { intros prec rest r Hpr Hlv Hrc HS. cbn [lvl] in HS.
      rewrite <- app_assoc. cbn [app]. apply IHA; auto.
      - lia.
      - apply rcond_left. rewrite Hv. cbn [left_ok]. apply Z.leb_le. exact Hl.
      - apply (PS_call inf x prec (lvl x) ko (ats ++ rest) pL pR pC args rest r Hv); [zfalse|zfalse|exact (IHargs rest [])|exact_ps HS]. }
    split; [exact HA|]. intros Ei. subst inf. apply BC_from_A; [eapply SP_call; eauto|exact HA|reflexivity].
  - (* conditional *)
    intros inf kq pL pR pS pE pN cs c xs x kc ys y Hv Hc [IHAc IHBc] Hlc Hx [IHAx IHBx] Hlx Hkc Hy [IHAy IHBy] Hly.
    view_facts inf kq Hv.
    assert (HA : cA inf (cs ++ kq :: xs ++ kc :: ys) (ECond c x y)).
    { intros prec rest r Hpr Hlv Hrc HS. cbn [lvl] in HS, Hlv.
      replace ((cs ++ kq :: xs ++ kc :: ys) ++ rest) with (cs ++ kq :: xs ++ kc :: ys ++ rest)
        by (repeat (rewrite <- app_assoc; cbn [app]); reflexivity).
      apply IHAc; auto.
      - lia.
      - apply rcond_left. rewrite Hv. cbn [left_ok]. apply Z.leb_le. exact Hlc.
      - apply (PS_cond inf c prec (lvl c) kq (xs ++ kc :: ys ++ rest) pL pR pS pE pN x kc (ys ++ rest) y rest r Hv).
        + zfalse.
        + zfalse.
        + apply (operand_done true xs x pS kc (ys ++ rest) IHAx); [lia|lia|tauto].
        + exact Hkc.
        + apply (right_operand inf ys y pE rest IHAy); [lia|lia|].
          replace pE with prec_OpAssign by lia. eapply (rcond_ncont inf (ECond c x y)); [reflexivity|exact Hrc].
        + exact_ps HS. }
    split; [exact HA|]. intros Ei. subst inf. apply BC_from_A; [eapply SP_cond; eauto|exact HA|reflexivity].
  - (* comma *)
    intros inf k pL pS pN xs x ys y Hv Hx [IHAx IHBx] Hy [IHAy IHBy] Hl.
    view_facts inf k Hv.
    assert (Elv : lvl (comma_snoc x y) = prec_OpExpr) by (destruct x; reflexivity).
    assert (Erl : rlevel (comma_snoc x y) = Some prec_OpAssign) by (destruct x; reflexivity).
    assert (Hyc : is_comma y = false) by (apply lvl_not_comma; lia).
    split.
    + intros prec rest r Hpr Hlv Hrc HS. rewrite Elv in HS, Hlv.
      rewrite <- app_assoc. cbn [app]. apply IHAx; auto.
      * destruct (spells_lvl _ _ _ Hx) as [H3 _]. lia.
      * apply rcond_left. rewrite Hv. reflexivity.
      * apply (PS_comma inf x prec (lvl x) k (ys ++ rest) pL pS pN y rest r Hv).
        -- zfalse.
        -- apply (right_operand inf ys y pS rest IHAy); [lia|lia|].
           replace pS with prec_OpAssign by lia. eapply rcond_ncont; eauto.
        -- exact_ps HS.
    + intros Ei. subst inf.
      assert (Ey : elems y = [y]) by (destruct y; try reflexivity; discriminate).
      split.
      * intros acc c r2 res Hc.
        rewrite <- app_assoc. cbn [app]. apply (proj1 (IHBx eq_refl)).
        right. split; [eapply sview_comma_tok; exact Hv|].
        apply (proj1 (IHBy eq_refl)). rewrite elems_snoc in Hc by exact Hyc.
        rewrite Ey. cbn [rev app]. rewrite rev_app_distr in Hc. cbn [rev app] in Hc. exact Hc.
      * intros acc tc c r2 res Hc.
        rewrite <- app_assoc. cbn [app]. apply (proj2 (IHBx eq_refl)).
        right. split; [eapply sview_comma_tok; exact Hv|].
        apply (proj2 (IHBy eq_refl)). rewrite elems_snoc in Hc by exact Hyc.
        rewrite Ey. cbn [rev app]. rewrite rev_app_distr in Hc. cbn [rev app] in Hc. exact Hc.
  - (* arguments: () *)
    intros kc Hkc rest acc. cbn [app]. rewrite app_nil_r. apply PA_end. exact Hkc.
  - (* arguments: last *)
    intros ts a kc Ha [IHA IHB] Hl Hkc rest acc.
    rewrite <- app_assoc. cbn [app]. apply (proj1 (IHB eq_refl)).
    assert (Ey : elems a = [a]).
    { assert (is_comma a = false) by (apply lvl_not_comma; lia). destruct a; try reflexivity; discriminate. }
    left. split; [exact Hkc|]. rewrite Ey. reflexivity.
  - (* arguments: one more *)
    intros ts a km rest0 l Ha [IHA IHB] Hl Hkm Hrest IHrest rest acc.
    rewrite <- app_assoc. cbn [app]. apply (proj1 (IHB eq_refl)).
    assert (Ey : elems a = [a]).
    { assert (is_comma a = false) by (apply lvl_not_comma; lia). destruct a; try reflexivity; discriminate. }
    right. split; [exact Hkm|]. rewrite Ey. cbn [rev app].
    specialize (IHrest rest (a :: acc)). cbn [rev] in IHrest. rewrite <- app_assoc in IHrest. exact IHrest.
Qed.

Theorem parse_complete_rest inf ts t prec rest :
  spells inf ts t -> prec <= prec_OpUnary -> prec <= lvl t -> ncont inf prec rest = true ->
  parse inf prec (ts ++ rest) = Ok (t, rest).
Proof.
  intros Hs Hp Hl Hn. destruct (proj1 complete_all inf ts t Hs) as [HA _].
  destruct (HA prec rest (Ok (t, rest)) Hp Hl) as [_ [f Hf]].
  - unfold rcond. destruct (rlevel t) as [p|] eqn:E; [|exact I].
    eapply ncont_mono; [exact Hn|]. pose proof (rlevel_ge_lvl _ _ E). lia.
  - apply PS_stop. exact Hn.
  - eapply parse_of_fuel; eauto.
Qed.

Theorem parse_complete inf ts t prec :
  spells inf ts t -> prec <= prec_OpUnary -> prec <= lvl t -> parse inf prec ts = Ok (t, []).
Proof.
  intros Hs Hp Hl. rewrite <- (app_nil_r ts) at 1. apply parse_complete_rest; auto.
Qed.
