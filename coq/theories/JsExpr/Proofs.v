(* JsExpr/Proofs.v — theorems of C03 about the Pratt model (statements collected in Props/C03.v). *)
From Coq Require Import ZifyBool.
From Verif Require Import Common.Base Common.Tactics Gen.PrattTable JsExpr.Syntax JsExpr.Pratt JsExpr.Grammar.

(* ---- the generated operator table against the standard's level table ---------------------------------- *)

(* Every row T3 extracts from parseExpressionSuffix / parseExpression equals the row computed from the
   productions of Grammar.v. *)
Lemma table_matches_standard_proof : pratt_rows_of_code = pratt_rows_of_ecma262.
Proof. vm_compute. reflexivity. Qed.

(* ---- tokens used in witnesses and examples ------------------------------------------------------------ *)

Definition op (t : Z) : token := mkTok t false [].
Definition idt (c : Z) : token := mkTok tt_IdentifierToken false [c].
Definition ida := idt 97. Definition idb := idt 98. Definition idc := idt 99.
Definition va := EVar [97]. Definition vb := EVar [98]. Definition vc := EVar [99].

Definition parse_all (ts : list token) : res expr :=
  match parse true prec_OpExpr ts with
  | Ok (t, []) => Ok t
  | Ok (_, _ :: _) => Fail
  | Fail => Fail | OutFrag => OutFrag | NoFuel => NoFuel
  end.

Example parse_example_precedence :
  parse_all [ida; op tt_AddToken; idb; op tt_MulToken; idc] = Ok (EBinary tt_AddToken va (EBinary tt_MulToken vb vc)).
Proof. vm_compute. reflexivity. Qed.

Example parse_example_shift_add :
  parse_all [ida; op tt_LtLtToken; idb; op tt_AddToken; idc] = Ok (EBinary tt_LtLtToken va (EBinary tt_AddToken vb vc)).
Proof. vm_compute. reflexivity. Qed.

(* ---- the listed rejections, for all identifier names, line-break flags and operators of the class ------- *)

Definition is_ident_tok (k : token) : Prop := ty k = tt_IdentifierToken.

Lemma reject_unary_exp_small_proof :
  forall u a b e, In (ty u) [tt_SubToken; tt_AddToken; tt_NotToken; tt_BitNotToken; tt_TypeofToken; tt_VoidToken; tt_DeleteToken] ->
    is_ident_tok a -> is_ident_tok b -> ty e = tt_ExpToken ->
    parse_all [u; a; e; b] = Fail.
Proof.
  intros [tu lu du] [ta la da] [tb lb db] [te le de] Hu Ha Hb He.
  unfold is_ident_tok in *; cbn [ty] in *; subst ta tb te.
  cbn [In] in Hu.
  repeat (destruct Hu as [Hu|Hu]; [subst tu; vm_compute; reflexivity|]); contradiction.
Qed.

Lemma reject_mixed_coalesce_small_proof :
  forall a b c q o, is_ident_tok a -> is_ident_tok b -> is_ident_tok c -> ty q = tt_NullishToken ->
    In (ty o) [tt_OrToken; tt_AndToken] ->
    parse_all [a; q; b; o; c] = Fail /\ parse_all [a; o; b; q; c] = Fail.
Proof.
  intros [ta la da] [tb lb db] [tc lc dc] [tq lq dq] [to lo do] Ha Hb Hc Hq Ho.
  unfold is_ident_tok in *; cbn [ty] in *; subst ta tb tc tq.
  cbn [In] in Ho.
  repeat (destruct Ho as [Ho|Ho]; [subst to; split; vm_compute; reflexivity|]); contradiction.
Qed.

Definition binary_op_tokens : list Z :=
  [tt_MulToken; tt_DivToken; tt_ModToken; tt_AddToken; tt_SubToken; tt_LtLtToken; tt_GtGtToken; tt_GtGtGtToken;
   tt_LtToken; tt_LtEqToken; tt_GtToken; tt_GtEqToken; tt_InToken; tt_InstanceofToken;
   tt_EqEqToken; tt_NotEqToken; tt_EqEqEqToken; tt_NotEqEqToken; tt_BitAndToken; tt_BitXorToken; tt_BitOrToken;
   tt_AndToken; tt_OrToken; tt_NullishToken; tt_ExpToken].

Lemma reject_assign_to_binary_small_proof :
  forall a b c o e, is_ident_tok a -> is_ident_tok b -> is_ident_tok c ->
    In (ty o) binary_op_tokens -> In (ty e) assign_ops ->
    parse_all [a; o; b; e; c] = Fail.
Proof.
  intros [ta la da] [tb lb db] [tc lc dc] [to lo do] [te le de] Ha Hb Hc Ho He.
  unfold is_ident_tok in *; cbn [ty] in *; subst ta tb tc.
  assert (forallb (fun o => forallb (fun e =>
            match parse_all [mkTok tt_IdentifierToken la da; mkTok o lo do; mkTok tt_IdentifierToken lb db; mkTok e le de; mkTok tt_IdentifierToken lc dc] with Fail => true | _ => false end)
            assign_ops) binary_op_tokens = true) as H by (vm_compute; reflexivity).
  rewrite forallb_forall in H. specialize (H _ Ho). rewrite forallb_forall in H. specialize (H _ He).
  destruct (parse_all _); congruence.
Qed.

(* ====================================================================================================================== *)
(* soundness and completeness of the model against the standard's productions                                              *)

From Verif Require Import JsExpr.Spec JsExpr.TableFacts JsExpr.Fuel JsExpr.Sound JsExpr.Complete JsExpr.Equiv.

(* every derivation of an Expression is parsed to exactly that tree *)
Lemma pratt_complete_proof :
  forall inf ts t, derives inf Expression ts t -> parse inf prec_OpExpr ts = Ok (t, []).
Proof.
  intros inf ts t d. destruct (derives_spells _ _ _ _ d) as [Hs Hi]. cbn [inv code_level] in Hi.
  apply parse_complete; auto. pose proof prec_order. lia.
Qed.

(* `++a ** b` (UpdateExpression ** ExponentiationExpression; rejected before efda118) *)
Definition w_pue : list token := [op tt_IncrToken; ida; op tt_ExpToken; idb].
Definition t_pue : expr := EBinary tt_ExpToken (EUnary tt_PreIncrToken va) vb.

Lemma ident_ok c : ident_tok (idt c).
Proof. split; [reflexivity|vm_compute; discriminate]. Qed.

Lemma derives_ident inf n c : In n [Primary; Member; LHS; Update; Unary; Exponentiation] -> derives inf n [idt c] (EVar [c]).
Proof.
  assert (P : derives inf Primary [idt c] (EVar [c])) by (apply (D_ident inf (idt c)); apply ident_ok).
  assert (M : derives inf Member [idt c] (EVar [c])) by (eapply D_chain; [|exact P]; cbn; tauto).
  assert (L : derives inf LHS [idt c] (EVar [c])) by (eapply D_chain; [|exact M]; cbn; tauto).
  assert (U : derives inf Update [idt c] (EVar [c])) by (eapply D_chain; [|exact L]; cbn; tauto).
  assert (Y : derives inf Unary [idt c] (EVar [c])) by (eapply D_chain; [|exact U]; cbn; tauto).
  assert (X : derives inf Exponentiation [idt c] (EVar [c])) by (eapply D_chain; [|exact Y]; cbn; tauto).
  cbn [In]. intros [H|[H|[H|[H|[H|[H|[]]]]]]]; subst; assumption.
Qed.

Lemma up_to_expression inf ts t : derives inf Exponentiation ts t -> derives inf Expression ts t.
Proof.
  intros d. eapply derives_chain_star; [|exact d].
  apply (reachb_sound 22). lazy. reflexivity.
Qed.

Lemma w_pue_derivable : derives true Expression w_pue t_pue.
Proof.
  apply up_to_expression.
  apply (D_binary true Exponentiation Update [tt_ExpToken] Exponentiation [op tt_IncrToken; ida] (EUnary tt_PreIncrToken va) (op tt_ExpToken) [idb] vb).
  - cbn. tauto.
  - cbn. tauto.
  - apply (D_prefix_update true (op tt_IncrToken) tt_PreIncrToken [ida] va); [cbn; tauto|].
    apply derives_ident. cbn. tauto.
  - apply derives_ident. cbn. tauto.
Qed.

Example prefix_update_exp_base_example :
  derives true Expression w_pue t_pue /\ parse true prec_OpExpr w_pue = Ok (t_pue, []).
Proof. split; [exact w_pue_derivable|vm_compute; reflexivity]. Qed.

(* whatever the model accepts is a derivation of the returned tree from exactly the accepted token list *)
Lemma pratt_sound_proof :
  forall inf ts t, parse inf prec_OpExpr ts = Ok (t, []) -> derives inf Expression ts t.
Proof.
  intros inf ts t H. destruct (parse_sound _ _ _ _ _ H) as [pre [E [Hs _]]].
  { pose proof prec_order. lia. }
  rewrite app_nil_r in E. subst pre. apply spells_derives_expression. exact Hs.
Qed.

(* `(a,)` (accepted as `(a)` before a1df361) and `x=(a,b,)` *)
Definition w_trailing : list token := [op tt_OpenParenToken; ida; op tt_CommaToken; op tt_CloseParenToken].

Example paren_trailing_comma_example :
  parse true prec_OpExpr w_trailing = Fail /\
  parse true prec_OpExpr [idc; op tt_EqToken; op tt_OpenParenToken; ida; op tt_CommaToken; idb; op tt_CommaToken; op tt_CloseParenToken] = Fail /\
  parse true prec_OpExpr [idc; op tt_OpenParenToken; ida; op tt_CommaToken; op tt_CloseParenToken] = Ok (ECall vc [va], []).
Proof. repeat split; vm_compute; reflexivity. Qed.

(* ====================================================================================================================== *)
(* the listed rejections, for arbitrary operands                                                                            *)

Lemma PE_parse inf prec ts r : PE inf prec ts r -> parse inf prec ts = r.
Proof. intros [Hr [f Hf]]. eapply parse_of_fuel; eauto. Qed.

Lemma view_exp inf : sview inf tt_ExpToken = ABin prec_OpExp prec_OpUpdate prec_OpUpdate prec_OpExp prec_OpExp.
Proof. destruct inf; vm_compute; reflexivity. Qed.

(* a unary operator applied to the base of ** : `u x ** ...` is rejected whatever follows the ** *)
Lemma reject_unary_exp_proof :
  forall inf u o xs x e rest,
    In (ty u, o) unary_prods ->
    derives inf Unary xs x -> ty e = tt_ExpToken ->
    parse inf prec_OpExpr (u :: xs ++ e :: rest) = Fail.
Proof.
  intros inf u o xs x e rest Hu d He. pose proof prec_order as PO.
  destruct (derives_spells _ _ _ _ d) as [Hs Hi]. cbn [inv code_level] in Hi.
  destruct (proj1 complete_all inf xs x Hs) as [HA _].
  pose proof (pview_unary _ _ Hu) as Hv.
  assert (Hne : ncont inf prec_OpUnary (e :: rest) = true).
  { cbn [ncont]. rewrite He, view_exp. cbn [ret_view]. apply Z.ltb_lt. lia. }
  apply PE_parse.
  apply (PE_unary inf prec_OpExpr u prec_OpUnary o prec_OpUnary prec_OpUnary (xs ++ e :: rest) x (e :: rest) Fail Hv).
  - apply Z.ltb_ge. lia.
  - apply (right_operand inf xs x prec_OpUnary (e :: rest) HA); [lia|exact Hi|exact Hne].
  - eapply PS_bin_fail.
    + rewrite He. apply view_exp.
    + apply Z.ltb_ge. lia.
    + unfold okl_of. destruct (Z.ltb_spec prec_OpUnary prec_OpUpdate); [|lia].
      destruct (Z.eqb_spec prec_OpUnary prec_OpUpdate); [lia|reflexivity].
Qed.

Lemma view_or inf : sview inf tt_OrToken = ABin prec_OpOr prec_OpOr prec_OpOr prec_OpAnd prec_OpOr.
Proof. destruct inf; vm_compute; reflexivity. Qed.
Lemma view_and inf : sview inf tt_AndToken = ABin prec_OpAnd prec_OpAnd prec_OpAnd prec_OpBitOr prec_OpAnd.
Proof. destruct inf; vm_compute; reflexivity. Qed.

Lemma okl_false r x p : p < r -> p <> x -> okl_of r x p = false.
Proof.
  intros H1 H2. unfold okl_of. destruct (Z.ltb_spec p r); [|lia]. destruct (Z.eqb_spec p x); [lia|reflexivity].
Qed.

Lemma okl_true r x p : r <= p -> okl_of r x p = true.
Proof. intros H. unfold okl_of. destruct (Z.ltb_spec p r); [lia|reflexivity]. Qed.

(* ?? next to || or && without parentheses, in either order *)
Lemma reject_mixed_coalesce_proof :
  forall inf xs x q ys y o rest,
    derives inf BitOR xs x -> derives inf BitOR ys y ->
    ty q = tt_NullishToken -> ty o = tt_OrToken \/ ty o = tt_AndToken ->
    parse inf prec_OpExpr (xs ++ q :: ys ++ o :: rest) = Fail /\
    parse inf prec_OpExpr (xs ++ o :: ys ++ q :: rest) = Fail.
Proof.
  intros inf xs x q ys y o rest dx dy Hq Ho. pose proof prec_order as PO.
  destruct (derives_spells _ _ _ _ dx) as [Hsx Hix]. destruct (derives_spells _ _ _ _ dy) as [Hsy Hiy].
  cbn [inv code_level] in Hix, Hiy.
  destruct (proj1 complete_all inf xs x Hsx) as [HAx _]. destruct (proj1 complete_all inf ys y Hsy) as [HAy _].
  assert (Hvq : sview inf (ty q) = ABin prec_OpCoalesce prec_OpBitOr prec_OpCoalesce prec_OpBitOr prec_OpCoalesce)
    by (rewrite Hq; apply view_nullish).
  assert (Hvo : exists n s, sview inf (ty o) = ABin n n n s n /\ prec_OpOr <= n /\ n < prec_OpBitOr /\ n < s /\ s <= prec_OpBitOr).
  { destruct Ho as [Ho|Ho]; rewrite Ho; [exists prec_OpOr, prec_OpAnd; rewrite view_or|exists prec_OpAnd, prec_OpBitOr; rewrite view_and];
      repeat split; lia. }
  destruct Hvo as [n [s [Hvo [Hn1 [Hn2 [Hn3 Hn4]]]]]].
  split; apply PE_parse.
  - (* x ?? y || ... *)
    apply HAx; try lia.
    + apply rcond_left. rewrite Hvq. cbn [left_ok]. apply okl_true. lia.
    + apply (PS_bin inf x prec_OpExpr (lvl x) q (ys ++ o :: rest) _ _ _ _ _ y (o :: rest) Fail Hvq).
      * apply Z.ltb_ge. lia.
      * apply okl_true. lia.
      * apply (right_operand inf ys y prec_OpBitOr (o :: rest) HAy); [lia|lia|].
        cbn [ncont]. rewrite Hvo. cbn [ret_view]. apply Z.ltb_lt. lia.
      * apply (PS_bin_fail inf _ prec_OpExpr prec_OpCoalesce o rest _ _ _ _ _ Hvo); [apply Z.ltb_ge; lia|apply okl_false; lia].
  - (* x || y ?? ... *)
    apply HAx; try lia.
    + apply rcond_left. rewrite Hvo. cbn [left_ok]. apply okl_true. lia.
    + apply (PS_bin inf x prec_OpExpr (lvl x) o (ys ++ q :: rest) _ _ _ _ _ y (q :: rest) Fail Hvo).
      * apply Z.ltb_ge. lia.
      * apply okl_true. lia.
      * apply (right_operand inf ys y s (q :: rest) HAy); [lia|lia|].
        cbn [ncont]. rewrite Hvq. cbn [ret_view]. apply Z.ltb_lt. lia.
      * apply (PS_bin_fail inf _ prec_OpExpr n q rest _ _ _ _ _ Hvq); [apply Z.ltb_ge; lia|apply okl_false; lia].
Qed.

Lemma view_assign inf t : In t assign_ops -> sview inf t = ABin prec_OpAssign prec_OpLHS prec_OpLHS prec_OpAssign prec_OpAssign.
Proof.
  intros H. apply (bin_view_of_prod Assignment LHS assign_ops Assignment t inf); [cbn; tauto|exact H].
Qed.

(* an assignment whose target is a binary expression: `x op y = ...` *)
Lemma reject_assign_to_binary_proof :
  forall inf a l ops r xs x k ys y e rest,
    In (a, l, ops, r) binary_prods -> a <> Assignment -> In (ty k) ops ->
    derives inf l xs x -> derives inf r ys y ->
    In (ty e) assign_ops ->
    parse inf prec_OpExpr (xs ++ k :: ys ++ e :: rest) = Fail.
Proof.
  intros inf a l ops r xs x k ys y e rest Hp Ha Hk dx dy He. pose proof prec_order as PO.
  destruct (derives_spells _ _ _ _ dx) as [Hsx Hix]. destruct (derives_spells _ _ _ _ dy) as [Hsy Hiy].
  destruct (proj1 complete_all inf xs x Hsx) as [HAx _]. destruct (proj1 complete_all inf ys y Hsy) as [HAy _].
  pose proof (bin_view_of_prod _ _ _ _ _ inf Hp Hk) as Hv.
  assert (F : lv l <= lvl x /\ lv r <= lvl y /\ prec_OpAssign < lv r /\ lv r <= prec_OpUnary /\ prec_OpAssign < lv a /\ lv a < prec_OpLHS /\ prec_OpExpr <= lv l).
  { unfold binary_prods in Hp. cbn [In] in Hp.
    repeat (destruct Hp as [Hp|Hp]; [inversion Hp; subst; try congruence; cbn [inv code_level lv] in *; try lia|]); try contradiction. }
  destruct F as [F1 [F2 [F3 [F4 [F5 [F6 F7]]]]]].
  apply PE_parse. apply HAx; try lia.
  - apply rcond_left. rewrite Hv. cbn [left_ok]. apply okl_true. lia.
  - apply (PS_bin inf x prec_OpExpr (lvl x) k (ys ++ e :: rest) _ _ _ _ _ y (e :: rest) Fail Hv).
    + apply Z.ltb_ge. lia.
    + apply okl_true. lia.
    + apply (right_operand inf ys y (lv r) (e :: rest) HAy); [lia|lia|].
      cbn [ncont]. rewrite (view_assign inf _ He). cbn [ret_view]. apply Z.ltb_lt. lia.
    + apply (PS_bin_fail inf _ prec_OpExpr (lv a) e rest _ _ _ _ _ (view_assign inf _ He)); [apply Z.ltb_ge; lia|apply okl_false; lia].
Qed.

(* `( Expression , )` without `=>`: the trailing comma of the arrow cover grammar is not a ParenthesizedExpression *)
Lemma reject_paren_trailing_comma_proof :
  forall inf ko xs x km kc rest,
    ty ko = tt_OpenParenToken -> derives true Expression xs x ->
    ty km = tt_CommaToken -> ty kc = tt_CloseParenToken ->
    (forall a r, rest = a :: r -> ty a <> tt_ArrowToken) ->
    parse inf prec_OpExpr (ko :: xs ++ km :: kc :: rest) = Fail.
Proof.
  intros inf ko xs x km kc rest Hko d Hkm Hkc Hna. pose proof prec_order as PO.
  destruct (derives_spells _ _ _ _ d) as [Hs _].
  destruct (proj1 complete_all true xs x Hs) as [_ HBC]. destruct (HBC eq_refl) as [_ HC].
  apply PE_parse.
  apply (PE_cover_fail inf prec_OpExpr ko prec_OpAssign prec_OpExpr (xs ++ km :: kc :: rest) (elems x) rest (pview_lp _ Hko)).
  - apply Z.ltb_ge. lia.
  - apply (HC [] false km (kc :: rest)). right. split; [exact Hkm|].
    unfold next_close. rewrite Hkc, Z.eqb_refl. rewrite app_nil_r.
    pose proof (PC_end kc rest (rev (elems x)) true Hkc) as P. rewrite rev_involutive in P. exact P.
  - eapply elems_nonempty; exact Hs.
  - exact Hna.
Qed.

Example ex_reject_paren_trailing_comma :
  parse true prec_OpExpr (op tt_OpenParenToken :: [ida; op tt_CommaToken; idb] ++ op tt_CommaToken :: op tt_CloseParenToken :: [op tt_AddToken; idc]) = Fail.
Proof. vm_compute. reflexivity. Qed.

(* ---- brackets -------------------------------------------------------------------------------------------------------- *)

From Verif Require Import JsExpr.Balance.

Lemma parse_balanced_proof inf ts t : parse inf prec_OpExpr ts = Ok (t, []) -> balanced ts.
Proof.
  intros H. destruct (parse_sound _ _ _ _ _ H) as [pre [E [Hs _]]]; [pose proof prec_order; lia|].
  rewrite app_nil_r in E. subst pre. exact (proj1 spells_balanced _ _ _ Hs).
Qed.

(* one bracket token added to (or, read the other way, deleted from) an accepted token list: never accepted *)
Lemma reject_unbalanced_proof :
  forall inf a b k t, In (ty k) brackets -> parse inf prec_OpExpr (a ++ b) = Ok (t, []) ->
    forall t', parse inf prec_OpExpr (a ++ k :: b) <> Ok (t', []).
Proof.
  intros inf a b k t Hk H t' H'. apply parse_balanced_proof in H. apply parse_balanced_proof in H'.
  unfold balanced in *. rewrite !cnt_app, !cnt_cons in *.
  unfold brackets in Hk. cbn [In] in Hk.
  destruct Hk as [Hk|[Hk|[Hk|[Hk|[]]]]]; rewrite <- Hk in H';
    repeat match type of H' with
    | context [(?a =? ?b)%Z] => let c := eval vm_compute in (a =? b)%Z in change (a =? b)%Z with c in H'
    end; cbv iota in H'; lia.
Qed.

(* ---- non-vacuity ------------------------------------------------------------------------------------------------------ *)

Definition ex_tokens : list token :=
  [ida; op tt_AddToken; idb; op tt_MulToken; op tt_OpenParenToken; idc; op tt_CommaToken; ida; op tt_CloseParenToken].
Definition ex_tree : expr :=
  EBinary tt_AddToken va (EBinary tt_MulToken vb (EGroup (EComma [vc; va]))).

Example ex_parse : parse true prec_OpExpr ex_tokens = Ok (ex_tree, []).
Proof. vm_compute. reflexivity. Qed.

Example ex_derives : derives true Expression ex_tokens ex_tree.
Proof. apply pratt_sound_proof. exact ex_parse. Qed.

Example ex_reject_unary_exp :
  In (ty (op tt_SubToken), tt_NegToken) unary_prods /\ derives true Unary [ida] va /\
  parse true prec_OpExpr (op tt_SubToken :: [ida] ++ op tt_ExpToken :: [idb]) = Fail.
Proof.
  split; [cbn; tauto|]. split; [apply derives_ident; cbn; tauto|].
  apply (reject_unary_exp_proof true (op tt_SubToken) tt_NegToken [ida] va (op tt_ExpToken) [idb]); auto.
  - cbn. tauto.
  - apply derives_ident. cbn. tauto.
Qed.

Example ex_unbalanced :
  parse true prec_OpExpr ([op tt_OpenParenToken; ida] ++ [op tt_CloseParenToken]) = Ok (EGroup va, []) /\
  parse_all ([op tt_OpenParenToken; ida] ++ op tt_CloseParenToken :: [op tt_CloseParenToken]) = Fail.
Proof. split; vm_compute; reflexivity. Qed.

(* ====================================================================================================================== *)
(* the entry point that is diffed against js.Parse: a whole program consisting of one expression statement                *)

Lemma spells_starts inf ts t : spells inf ts t -> exists k r, ts = k :: r /\ starts_expr k.
Proof. intros H. destruct (spells_first _ _ _ H) as [k [r [E S]]]. eauto. Qed.

Lemma starts_not_stmt k : starts_expr k -> stmt_keyword (ty k) = false /\ (ty k =? tt_SemicolonToken) = false.
Proof.
  unfold starts_expr. intros H. pose proof (pview_bare k) as Hb.
  assert (S : forallb (fun t => match pview (bare t) with PLeaf _ | PUnary _ _ _ _ | PGroup _ _ => false | _ => true end)
                (tt_SemicolonToken :: [tt_OpenBraceToken; tt_ConstToken; tt_VarToken; tt_IfToken; tt_ContinueToken; tt_BreakToken;
                 tt_WithToken; tt_DoToken; tt_WhileToken; tt_ForToken; tt_SwitchToken; tt_FunctionToken; tt_AsyncToken;
                 tt_ClassToken; tt_ThrowToken; tt_TryToken; tt_DebuggerToken; tt_ImportToken; tt_ExportToken;
                 tt_ReturnToken; tt_YieldToken; tt_AwaitToken]) = true) by (vm_compute; reflexivity).
  rewrite forallb_forall in S.
  assert (G : forall t, In t (tt_SemicolonToken :: [tt_OpenBraceToken; tt_ConstToken; tt_VarToken; tt_IfToken; tt_ContinueToken; tt_BreakToken;
                 tt_WithToken; tt_DoToken; tt_WhileToken; tt_ForToken; tt_SwitchToken; tt_FunctionToken; tt_AsyncToken;
                 tt_ClassToken; tt_ThrowToken; tt_TryToken; tt_DebuggerToken; tt_ImportToken; tt_ExportToken;
                 tt_ReturnToken; tt_YieldToken; tt_AwaitToken]) -> ty k <> t).
  { intros t Hin E. specialize (S _ Hin). rewrite <- E in S.
    (* the class of pview depends on the token type only *)
    unfold pview, bare in *. cbn [ty data] in *.
    destruct ((ty k =? tt_DivToken) || (ty k =? tt_DivEqToken)); [contradiction|].
    destruct (is_identifier (ty k) && negb (ty k =? tt_AsyncToken)); [discriminate|].
    destruct (is_numeric (ty k)); [discriminate|].
    destruct (prefix_arm (ty k)) as [[sh ps]|]; [|contradiction].
    destruct (sh =? 2); [discriminate|].
    destruct (sh =? 1); [destruct ps as [|a [|b [|c [|d [|g ps]]]]]; try contradiction; discriminate|].
    destruct (sh =? 3); [destruct ps as [|a [|b [|c ps]]]; try contradiction; discriminate|contradiction]. }
  split.
  - unfold stmt_keyword. apply not_true_is_false. intros E. apply existsb_exists in E. destruct E as [t [Hin Ht]].
    apply Z.eqb_eq in Ht. apply (G t); [right; exact Hin|exact Ht].
  - apply Z.eqb_neq. apply G. left. reflexivity.
Qed.

Lemma suffix_has_fuel inf left prec pl ts : parse_suffix (fuel_for ts) inf left prec pl ts <> NoFuel.
Proof. apply (proj1 (proj2 (suff_all _))). unfold fuel_for. lia. Qed.

(* (the theorems about parse_stmt / parse_program are in JsExpr/Stmts.v) *)

Example program_of_expression_example :
  parse_program ex_tokens = Ok [SExpr ex_tree] /\ show_stmt (SExpr ex_tree) =
  [83; 116; 109; 116; 40; 97; 43; 40; 98; 42; 40; 40; 99; 44; 97; 41; 41; 41; 41].
Proof. split; vm_compute; reflexivity. Qed.
