(* JsExpr/Proofs.v — theorems of C03 about the Pratt model (statements collected in Props/C03.v). *)
From Coq Require Import ZifyBool.
From Verif Require Import Common.Base Common.Tactics Gen.PrattTable JsExpr.Syntax JsExpr.Pratt JsExpr.Grammar.

(* ---- the generated operator table against the standard's level table ---------------------------------- *)

(* Every row T3 extracts from parseExpressionSuffix / parseExpression equals the row computed from the
   productions of Grammar.v, except for one parameter: the level recorded after a prefix ++/-- . *)
Lemma table_matches_standard_partial_proof : pratt_rows_of_code = std_rows Unary.
Proof. vm_compute. reflexivity. Qed.

Lemma table_matches_standard_refuted_proof : pratt_rows_of_code <> pratt_rows_of_ecma262.
Proof. vm_compute. discriminate. Qed.

(* ---- tokens used in witnesses and examples ------------------------------------------------------------ *)

Definition op (t : Z) : token := mkTok t false [].
Definition idt (c : Z) : token := mkTok tt_IdentifierToken false [c].
Definition ida := idt 97. Definition idb := idt 98. Definition idc := idt 99.
Definition va := EVar [97]. Definition vb := EVar [98]. Definition vc := EVar [99].

Definition parse_all (ts : list token) : res expr :=
  match parse true prec_OpExpr ts with
  | Ok (t, []) => Ok t
  | Ok (_, _ :: _) => Fail
  | Fail => Fail | OutFrag => OutFrag | NoFuel => NoFuel
  end.

Example parse_example_precedence :
  parse_all [ida; op tt_AddToken; idb; op tt_MulToken; idc] = Ok (EBinary tt_AddToken va (EBinary tt_MulToken vb vc)).
Proof. vm_compute. reflexivity. Qed.

Example parse_example_shift_add :
  parse_all [ida; op tt_LtLtToken; idb; op tt_AddToken; idc] = Ok (EBinary tt_LtLtToken va (EBinary tt_AddToken vb vc)).
Proof. vm_compute. reflexivity. Qed.

(* ---- the listed rejections, for all identifier names, line-break flags and operators of the class ------- *)

Definition is_ident_tok (k : token) : Prop := ty k = tt_IdentifierToken.

Lemma reject_unary_exp_small_proof :
  forall u a b e, In (ty u) [tt_SubToken; tt_AddToken; tt_NotToken; tt_BitNotToken; tt_TypeofToken; tt_VoidToken; tt_DeleteToken; tt_IncrToken; tt_DecrToken] ->
    is_ident_tok a -> is_ident_tok b -> ty e = tt_ExpToken ->
    parse_all [u; a; e; b] = Fail.
Proof.
  intros [tu lu du] [ta la da] [tb lb db] [te le de] Hu Ha Hb He.
  unfold is_ident_tok in *; cbn [ty] in *; subst ta tb te.
  cbn [In] in Hu.
  repeat (destruct Hu as [Hu|Hu]; [subst tu; vm_compute; reflexivity|]); contradiction.
Qed.

Lemma reject_mixed_coalesce_small_proof :
  forall a b c q o, is_ident_tok a -> is_ident_tok b -> is_ident_tok c -> ty q = tt_NullishToken ->
    In (ty o) [tt_OrToken; tt_AndToken] ->
    parse_all [a; q; b; o; c] = Fail /\ parse_all [a; o; b; q; c] = Fail.
Proof.
  intros [ta la da] [tb lb db] [tc lc dc] [tq lq dq] [to lo do] Ha Hb Hc Hq Ho.
  unfold is_ident_tok in *; cbn [ty] in *; subst ta tb tc tq.
  cbn [In] in Ho.
  repeat (destruct Ho as [Ho|Ho]; [subst to; split; vm_compute; reflexivity|]); contradiction.
Qed.

Definition binary_op_tokens : list Z :=
  [tt_MulToken; tt_DivToken; tt_ModToken; tt_AddToken; tt_SubToken; tt_LtLtToken; tt_GtGtToken; tt_GtGtGtToken;
   tt_LtToken; tt_LtEqToken; tt_GtToken; tt_GtEqToken; tt_InToken; tt_InstanceofToken;
   tt_EqEqToken; tt_NotEqToken; tt_EqEqEqToken; tt_NotEqEqToken; tt_BitAndToken; tt_BitXorToken; tt_BitOrToken;
   tt_AndToken; tt_OrToken; tt_NullishToken; tt_ExpToken].

Lemma reject_assign_to_binary_small_proof :
  forall a b c o e, is_ident_tok a -> is_ident_tok b -> is_ident_tok c ->
    In (ty o) binary_op_tokens -> In (ty e) assign_ops ->
    parse_all [a; o; b; e; c] = Fail.
Proof.
  intros [ta la da] [tb lb db] [tc lc dc] [to lo do] [te le de] Ha Hb Hc Ho He.
  unfold is_ident_tok in *; cbn [ty] in *; subst ta tb tc.
  assert (forallb (fun o => forallb (fun e =>
            match parse_all [mkTok tt_IdentifierToken la da; mkTok o lo do; mkTok tt_IdentifierToken lb db; mkTok e le de; mkTok tt_IdentifierToken lc dc] with Fail => true | _ => false end)
            assign_ops) binary_op_tokens = true) as H by (vm_compute; reflexivity).
  rewrite forallb_forall in H. specialize (H _ Ho). rewrite forallb_forall in H. specialize (H _ He).
  destruct (parse_all _); congruence.
Qed.
