(* JsExpr/Equiv.v — the standard's productions (Grammar.v) against the spellings the parser accepts (Spec.v).
     derives_spells : a derivation is a spelling;
     spells_derives : a spelling is a derivation. *)
From Coq Require Import ZifyBool.
From Verif Require Import Common.Base Common.Tactics Gen.PrattTable JsExpr.Syntax JsExpr.Pratt JsExpr.Grammar
  JsExpr.Spec JsExpr.TableFacts JsExpr.Sound.

Definition is_prefix_update (t : expr) : bool :=
  match t with EUnary op _ => (op =? tt_PreIncrToken) || (op =? tt_PreDecrToken) | _ => false end.

(* ---- what a derivation at nonterminal N says about the level of its tree --------------------------------------- *)

Definition inv (n : nt) (t : expr) : Prop :=
  match n with
  | Coalesce => lvl t = prec_OpCoalesce
  | CoalesceHead => lvl t = prec_OpCoalesce \/ prec_OpBitOr <= lvl t
  | _ => code_level n <= lvl t
  end.

Lemma prefix_update_lvl t : is_prefix_update t = true -> lvl t = prec_OpUpdate.
Proof.
  destruct t; cbn [is_prefix_update]; try discriminate. intros H. cbn [lvl].
  apply orb_true_iff in H. destruct H as [H|H]; apply Z.eqb_eq in H; subst op; reflexivity.
Qed.

Lemma inv_chain a b t : In (a, b) chain_prods -> inv b t -> inv a t.
Proof.
  pose proof prec_order as PO. unfold chain_prods. cbn [In]. intros H.
  repeat (destruct H as [H|H]; [inversion H; subst; cbn [inv code_level]; intros Hb; try lia|]); try contradiction.
Qed.

(* ---- the arms of the generated table, read through the productions ----------------------------------------------- *)

Definition is_bin (v : sarm) (pL pR pX pS pN : Z) : bool :=
  match v with
  | ABin a b c d e => (a =? pL) && (b =? pR) && (c =? pX) && (d =? pS) && (e =? pN)
  | _ => false
  end.

Lemma is_bin_eq v pL pR pX pS pN : is_bin v pL pR pX pS pN = true -> v = ABin pL pR pX pS pN.
Proof. destruct v; cbn [is_bin]; try discriminate. intros H. b2p. subst. reflexivity. Qed.

Lemma bin_view_of_prod a l ops r t inf :
  In (a, l, ops, r) binary_prods -> In t ops ->
  sview inf t = ABin (lv a) (lv l) (lv l) (lv r) (lv a).
Proof.
  intros Hp Ht. apply is_bin_eq.
  assert (H : forallb (fun p => match p with (a, l, ops, r) =>
              forallb (fun t => is_bin (sview true t) (lv a) (lv l) (lv l) (lv r) (lv a) &&
                                is_bin (sview false t) (lv a) (lv l) (lv l) (lv r) (lv a)) ops end) binary_prods = true)
    by (vm_compute; reflexivity).
  rewrite forallb_forall in H. specialize (H _ Hp). cbn beta iota in H. rewrite forallb_forall in H.
  specialize (H _ Ht). apply andb_true_iff in H. destruct H. destruct inf; assumption.
Qed.

Lemma view_in : sview true tt_InToken = ABin prec_OpCompare prec_OpCompare prec_OpCompare prec_OpShift prec_OpCompare.
Proof. vm_compute. reflexivity. Qed.
Lemma view_nullish inf : sview inf tt_NullishToken = ABin prec_OpCoalesce prec_OpBitOr prec_OpCoalesce prec_OpBitOr prec_OpCoalesce.
Proof. destruct inf; vm_compute; reflexivity. Qed.
Lemma view_question inf : sview inf tt_QuestionToken = ACond prec_OpAssign prec_OpCoalesce prec_OpAssign prec_OpAssign prec_OpAssign.
Proof. destruct inf; vm_compute; reflexivity. Qed.
Lemma view_comma inf : sview inf tt_CommaToken = AComma prec_OpExpr prec_OpAssign prec_OpExpr.
Proof. destruct inf; vm_compute; reflexivity. Qed.
Lemma view_dot inf : sview inf tt_DotToken = ADot prec_OpLHS prec_OpMember.
Proof. destruct inf; vm_compute; reflexivity. Qed.
Lemma view_lb inf : sview inf tt_OpenBracketToken = AIndex prec_OpLHS prec_OpMember prec_OpExpr.
Proof. destruct inf; vm_compute; reflexivity. Qed.
Lemma view_lp inf : sview inf tt_OpenParenToken = ACall prec_OpCall prec_OpLHS prec_OpCall.
Proof. destruct inf; vm_compute; reflexivity. Qed.
Lemma view_postfix inf t op : In (t, op) postfix_update_prods -> sview inf t = APost prec_OpUpdate prec_OpLHS op prec_OpUpdate.
Proof. cbn [In postfix_update_prods]. intros [H|[H|[]]]; inversion H; subst; destruct inf; vm_compute; reflexivity. Qed.

Lemma pview_lp k : ty k = tt_OpenParenToken -> pview k = PGroup prec_OpAssign prec_OpExpr.
Proof. intros E. unfold pview. rewrite E. reflexivity. Qed.

Lemma pview_unary k op : In (ty k, op) unary_prods -> pview k = PUnary prec_OpUnary op prec_OpUnary prec_OpUnary.
Proof.
  cbn [In unary_prods]. intros H.
  repeat (destruct H as [H|H]; [inversion H as [[E1 E2]]; unfold pview; rewrite <- E1; reflexivity|]). contradiction.
Qed.

Lemma pview_prefix_update k op : In (ty k, op) prefix_update_prods -> pview k = PUnary prec_OpUpdate op prec_OpUnary prec_OpUpdate.
Proof.
  cbn [In prefix_update_prods]. intros H.
  repeat (destruct H as [H|H]; [inversion H as [[E1 E2]]; unfold pview; rewrite <- E1; reflexivity|]). contradiction.
Qed.

Lemma pview_ident k : ident_tok k -> pview k = PLeaf (EVar (data k)).
Proof.
  intros [H1 H2]. unfold pview.
  assert (Hd : (ty k =? tt_DivToken) || (ty k =? tt_DivEqToken) = false).
  { apply orb_false_iff. split; apply Z.eqb_neq; intros E; rewrite E in H1; vm_compute in H1; discriminate. }
  rewrite Hd, H1. apply Z.eqb_neq in H2. rewrite H2. reflexivity.
Qed.

Lemma pview_literal k : literal_tok k -> pview k = PLeaf (ELit (ty k) (data k)).
Proof.
  intros [H1 H2]. unfold pview. rewrite H1. cbn [andb].
  destruct H2 as [H2|H2].
  - assert (Hd : (ty k =? tt_DivToken) || (ty k =? tt_DivEqToken) = false).
    { apply orb_false_iff. split; apply Z.eqb_neq; intros E; rewrite E in H2; vm_compute in H2; discriminate. }
    rewrite Hd, H2. reflexivity.
  - cbn [In literal_kinds] in H2.
    repeat (destruct H2 as [H2|H2]; [rewrite <- H2; reflexivity|]). contradiction.
Qed.

Lemma name_not_private n : is_identifier_name (ty n) = true -> ty n <> tt_PrivateIdentifierToken.
Proof. intros H E. rewrite E in H. vm_compute in H. discriminate. Qed.

Lemma cap_ge c p : c <= p -> cap c p = c.
Proof. intros H. unfold cap. destruct (Z.ltb_spec c p); lia. Qed.
Lemma cap_le c p : p <= c -> cap c p = p.
Proof. intros H. unfold cap. destruct (Z.ltb_spec c p); lia. Qed.

Lemma okl_same r p : r <= p -> okl_of r r p = true.
Proof.
  intros H. unfold okl_of. destruct (Z.ltb_spec p r); [lia|reflexivity].
Qed.

(* ---- derivations are spellings ------------------------------------------------------------------------------ *)

Lemma derives_spells_all :
  (forall inf n ts t (d : derives inf n ts t), spells inf ts t /\ inv n t) /\
  (forall ats args (d : arguments ats args), spells_args ats args).
Proof.
  pose proof prec_order as PO.
  apply (derives_arguments_ind
           (fun inf n ts t _ => spells inf ts t /\ inv n t)
           (fun ats args _ => spells_args ats args)).
  - (* chain *)
    intros inf a b ts t Hc d IH. destruct IH as [Hs Hi]. split; [exact Hs|]. eapply inv_chain; eauto.
  - (* identifier *)
    intros inf k Hk. split; [apply SP_leaf; apply pview_ident; exact Hk|]. cbn [inv code_level lvl]. lia.
  - (* literal *)
    intros inf k Hk. split; [apply SP_leaf; apply pview_literal; exact Hk|]. cbn [inv code_level lvl]. lia.
  - (* parenthesis *)
    intros inf ko kc ts t Hko Hkc d IH. destruct IH as [Hs Hi]. cbn [inv code_level] in Hi.
    split; [|cbn [inv code_level lvl]; lia].
    apply (SP_group inf ko prec_OpAssign prec_OpExpr ts t kc); [apply pview_lp; exact Hko|exact Hs|lia|exact Hkc].
  - (* member [ ] *)
    intros inf xs x ko ys y kc dx IHx Hko dy IHy Hkc.
    destruct IHx as [Hsx Hix]. destruct IHy as [Hsy Hiy]. cbn [inv code_level] in Hix, Hiy.
    split; [|cbn [inv code_level lvl]; rewrite cap_ge by lia; lia].
    apply (SP_index inf ko prec_OpLHS prec_OpMember prec_OpExpr xs x ys y kc);
      [rewrite Hko; apply view_lb|exact Hsx|lia|exact Hsy|lia|exact Hkc].
  - (* member . *)
    intros inf xs x kd n dx IHx Hkd Hname.
    destruct IHx as [Hsx Hix]. cbn [inv code_level] in Hix.
    split; [|cbn [inv code_level lvl]; rewrite cap_ge by lia; lia].
    apply (SP_dot inf kd prec_OpLHS prec_OpMember xs x n);
      [rewrite Hkd; apply view_dot|exact Hsx|lia|exact Hname|apply name_not_private; exact Hname].
  - (* call: member arguments *)
    intros inf xs x ko ats args dx IHx Hko da IHa.
    destruct IHx as [Hsx Hix]. cbn [inv code_level] in Hix.
    split; [|cbn [inv code_level lvl]; rewrite cap_ge by lia; lia].
    apply (SP_call inf ko prec_OpCall prec_OpLHS prec_OpCall xs x ats args);
      [rewrite Hko; apply view_lp|exact Hsx|lia|exact IHa].
  - (* call: call arguments *)
    intros inf xs x ko ats args dx IHx Hko da IHa.
    destruct IHx as [Hsx Hix]. cbn [inv code_level] in Hix.
    split; [|cbn [inv code_level lvl]; rewrite cap_ge by lia; lia].
    apply (SP_call inf ko prec_OpCall prec_OpLHS prec_OpCall xs x ats args);
      [rewrite Hko; apply view_lp|exact Hsx|lia|exact IHa].
  - (* call [ ] *)
    intros inf xs x ko ys y kc dx IHx Hko dy IHy Hkc.
    destruct IHx as [Hsx Hix]. destruct IHy as [Hsy Hiy]. cbn [inv code_level] in Hix, Hiy.
    split; [|cbn [inv code_level lvl]; unfold cap; destruct (Z.ltb_spec prec_OpMember (lvl x)); lia].
    apply (SP_index inf ko prec_OpLHS prec_OpMember prec_OpExpr xs x ys y kc);
      [rewrite Hko; apply view_lb|exact Hsx|lia|exact Hsy|lia|exact Hkc].
  - (* call . *)
    intros inf xs x kd n dx IHx Hkd Hname.
    destruct IHx as [Hsx Hix]. cbn [inv code_level] in Hix.
    split; [|cbn [inv code_level lvl]; unfold cap; destruct (Z.ltb_spec prec_OpMember (lvl x)); lia].
    apply (SP_dot inf kd prec_OpLHS prec_OpMember xs x n);
      [rewrite Hkd; apply view_dot|exact Hsx|lia|exact Hname|apply name_not_private; exact Hname].
  - (* postfix *)
    intros inf xs x k op dx IHx Hop Hlt.
    destruct IHx as [Hsx Hix]. cbn [inv code_level] in Hix.
    assert (Hpo : is_postfix_op op = true).
    { cbn [In postfix_update_prods] in Hop. destruct Hop as [H|[H|[]]]; inversion H; reflexivity. }
    split; [|cbn [inv code_level lvl]; rewrite (postfix_is_update _ Hpo); lia].
    apply (SP_postfix inf k prec_OpUpdate prec_OpLHS op prec_OpUpdate xs x);
      [apply view_postfix; exact Hop|exact Hlt|exact Hsx|lia].
  - (* prefix update *)
    intros inf k op xs x Hop dx IHx.
    destruct IHx as [Hsx Hix]. cbn [inv code_level] in Hix.
    split.
    + apply (SP_prefix inf k prec_OpUpdate op prec_OpUnary prec_OpUpdate xs x);
        [apply pview_prefix_update; exact Hop|exact Hsx|lia].
    + cbn [inv code_level lvl]. cbn [In prefix_update_prods] in Hop. destruct Hop as [H|[H|[]]]; inversion H; cbn; lia.
  - (* unary *)
    intros inf k op xs x Hop dx IHx.
    destruct IHx as [Hsx Hix]. cbn [inv code_level] in Hix.
    split.
    + apply (SP_prefix inf k prec_OpUnary op prec_OpUnary prec_OpUnary xs x);
        [apply pview_unary; exact Hop|exact Hsx|lia].
    + cbn [inv code_level lvl]. cbn [In unary_prods] in Hop.
      repeat (destruct Hop as [Hop|Hop]; [inversion Hop; cbn; lia|]). contradiction.
  - (* binary productions *)
    intros inf a l ops r xs x k ys y Hp Hop dx IHx dy IHy.
    destruct IHx as [Hsx Hix]. destruct IHy as [Hsy Hiy].
    pose proof (bin_view_of_prod _ _ _ _ _ inf Hp Hop) as Hv.
    assert (Hl : lv l <= lvl x /\ lv r <= lvl y /\ code_level a = lv a /\ inv a (EBinary (ty k) x y)).
    { assert (El : lvl (EBinary (ty k) x y) = lv a) by (cbn [lvl]; eapply bin_level_of; exact Hv).
      unfold binary_prods in Hp. cbn [In] in Hp.
      repeat (destruct Hp as [Hp|Hp]; [inversion Hp; subst; cbn [inv code_level lv] in *; rewrite ?El; try lia|]); try contradiction. }
    destruct Hl as [Hlx [Hly [_ Hia]]].
    split; [|exact Hia].
    apply (SP_binary inf k _ _ _ _ _ xs x ys y Hv); [exact Hsx|apply okl_same; exact Hlx|exact Hsy|exact Hly].
  - (* in *)
    intros xs x k ys y dx IHx Hk dy IHy.
    destruct IHx as [Hsx Hix]. destruct IHy as [Hsy Hiy]. cbn [inv code_level] in Hix, Hiy.
    assert (Hv : sview true (ty k) = ABin prec_OpCompare prec_OpCompare prec_OpCompare prec_OpShift prec_OpCompare)
      by (rewrite Hk; exact view_in).
    split; [|cbn [inv code_level lvl]; rewrite (bin_level_of _ _ _ _ _ _ _ Hv); lia].
    apply (SP_binary true k _ _ _ _ _ xs x ys y Hv); [exact Hsx|apply okl_same; exact Hix|exact Hsy|exact Hiy].
  - (* ?? *)
    intros inf xs x k ys y dx IHx Hk dy IHy.
    destruct IHx as [Hsx Hix]. destruct IHy as [Hsy Hiy]. cbn [inv code_level] in Hix, Hiy.
    assert (Hv : sview inf (ty k) = ABin prec_OpCoalesce prec_OpBitOr prec_OpCoalesce prec_OpBitOr prec_OpCoalesce)
      by (rewrite Hk; apply view_nullish).
    split; [|cbn [inv lvl]; rewrite (bin_level_of _ _ _ _ _ _ _ Hv); reflexivity].
    apply (SP_binary inf k _ _ _ _ _ xs x ys y Hv); [exact Hsx| |exact Hsy|exact Hiy].
    unfold okl_of. destruct Hix as [Hix|Hix].
    + rewrite Hix, Z.eqb_refl. cbn [negb]. rewrite andb_false_r. reflexivity.
    + destruct (Z.ltb_spec (lvl x) prec_OpBitOr); [lia|reflexivity].
  - (* ?: *)
    intros inf cs c kq xs x kc ys y dc IHc Hkq dx IHx Hkc dy IHy.
    destruct IHc as [Hsc Hic]. destruct IHx as [Hsx Hix]. destruct IHy as [Hsy Hiy].
    cbn [inv code_level] in Hic, Hix, Hiy.
    split; [|cbn [inv code_level lvl]; lia].
    apply (SP_cond inf kq prec_OpAssign prec_OpCoalesce prec_OpAssign prec_OpAssign prec_OpAssign cs c xs x kc ys y);
      [rewrite Hkq; apply view_question|exact Hsc|lia|exact Hsx|lia|exact Hkc|exact Hsy|lia].
  - (* , *)
    intros inf xs x k ys y dx IHx Hk dy IHy.
    destruct IHx as [Hsx Hix]. destruct IHy as [Hsy Hiy]. cbn [inv code_level] in Hix, Hiy.
    split; [|cbn [inv code_level]; destruct x; cbn [comma_snoc lvl]; lia].
    apply (SP_comma inf k prec_OpExpr prec_OpAssign prec_OpExpr xs x ys y);
      [rewrite Hk; apply view_comma|exact Hsx|exact Hsy|lia].
  - (* arguments *)
    intros kc Hkc. apply SA_end. exact Hkc.
  - intros ts a kc d IH Hkc.
    destruct IH as [Hs Hi]. cbn [inv code_level] in Hi. apply SA_last; auto; unfold pratt_args_level; lia.
  - intros ts a k rest l d IH Hk da IHa.
    destruct IH as [Hs Hi]. cbn [inv code_level] in Hi. apply SA_more; auto; unfold pratt_args_level; lia.
Qed.

Theorem derives_spells inf n ts t :
  derives inf n ts t -> spells inf ts t /\ inv n t.
Proof. intros d. exact (proj1 derives_spells_all inf n ts t d). Qed.

(* ================================================================================================================== *)
(* spellings are derivations *)

Scheme Equality for nt.

Definition nt_of (p : Z) : nt :=
  if p =? prec_OpExpr then Expression else if p =? prec_OpAssign then Assignment
  else if p =? prec_OpCoalesce then Coalesce else if p =? prec_OpOr then LogicalOR
  else if p =? prec_OpAnd then LogicalAND else if p =? prec_OpBitOr then BitOR
  else if p =? prec_OpBitXor then BitXOR else if p =? prec_OpBitAnd then BitAND
  else if p =? prec_OpEquals then Equality else if p =? prec_OpCompare then Relational
  else if p =? prec_OpShift then Shift else if p =? prec_OpAdd then Additive
  else if p =? prec_OpMul then Multiplicative else if p =? prec_OpExp then Exponentiation
  else if p =? prec_OpUnary then Unary else if p =? prec_OpUpdate then Update
  else if p =? prec_OpCall then Call else if p =? prec_OpMember then Member
  else Primary.

(* the levels a tree built by the parser can have *)
Definition lvl_values : list Z :=
  [ prec_OpExpr; prec_OpAssign; prec_OpCoalesce; prec_OpOr; prec_OpAnd; prec_OpBitOr; prec_OpBitXor; prec_OpBitAnd;
    prec_OpEquals; prec_OpCompare; prec_OpShift; prec_OpAdd; prec_OpMul; prec_OpExp; prec_OpUnary; prec_OpUpdate;
    prec_OpCall; prec_OpMember; prec_OpPrimary ].

(* reachability through chain productions *)
Inductive chain_star : nt -> nt -> Prop :=
| CS_refl a : chain_star a a
| CS_step a b c : In (a, b) chain_prods -> chain_star b c -> chain_star a c.

Lemma derives_chain_star inf a b ts t : chain_star a b -> derives inf b ts t -> derives inf a ts t.
Proof. induction 1; intros d; [exact d|]. eapply D_chain; eauto. Qed.

Fixpoint reachb (fuel : nat) (a c : nt) : bool :=
  nt_beq a c ||
  match fuel with
  | O => false
  | S f => existsb (fun p => nt_beq (fst p) a && reachb f (snd p) c) chain_prods
  end.

Lemma reachb_sound fuel : forall a c, reachb fuel a c = true -> chain_star a c.
Proof.
  induction fuel as [|f IH]; intros a c H; cbn [reachb] in H; apply orb_true_iff in H; destruct H as [H|H].
  - apply internal_nt_dec_bl in H. subst. apply CS_refl.
  - discriminate.
  - apply internal_nt_dec_bl in H. subst. apply CS_refl.
  - apply existsb_exists in H. destruct H as [[x y] [Hin Hx]]. cbn [fst snd] in Hx.
    apply andb_true_iff in Hx. destruct Hx as [H1 H2]. apply internal_nt_dec_bl in H1. subst x.
    eapply CS_step; eauto.
Qed.

Definition reach (a : nt) (p : Z) : bool := reachb 24 a (nt_of p).

Lemma lift_to inf a xs x (cond : Z -> bool) :
  forallb (fun p => implb (cond p) (reach a p)) lvl_values = true ->
  In (lvl x) lvl_values -> cond (lvl x) = true ->
  derives inf (nt_of (lvl x)) xs x -> derives inf a xs x.
Proof.
  intros H Hin Hc d. rewrite forallb_forall in H. specialize (H _ Hin). rewrite Hc in H. cbn [implb] in H.
  eapply derives_chain_star; [apply (reachb_sound _ _ _ H)|exact d].
Qed.

(* ---- facts about levels and arms ------------------------------------------------------------------------------------- *)

Ltac view_facts0 inf k Hv :=
  let SF := fresh "SF" in
  pose proof (sfact_all inf (ty k)) as SF; rewrite Hv in SF; cbn [sfact] in SF; b2p.

Lemma bin_level_in inf t pL pR pX pS pN : sview inf t = ABin pL pR pX pS pN -> In pN lvl_values.
Proof.
  intros H.
  pose proof (sview_sweep (fun v => match v with ABin _ _ _ _ n => existsb (Z.eqb n) lvl_values | _ => true end)) as S.
  specialize (S eq_refl ltac:(vm_compute; reflexivity) inf t). rewrite H in S. apply existsb_eqb_in. exact S.
Qed.

Lemma lhs_levels p : In p lvl_values -> prec_OpLHS <= p -> p = prec_OpCall \/ p = prec_OpMember \/ p = prec_OpPrimary.
Proof.
  pose proof prec_order as PO. unfold lvl_values. cbn [In]. intros H Hp.
  repeat (destruct H as [H|H]; [subst p; try lia; auto|]). contradiction.
Qed.

Lemma spells_lvl_in inf ts t : spells inf ts t -> In (lvl t) lvl_values.
Proof.
  pose proof prec_order as PO.
  induction 1.
  - destruct (pview_leaf_lvl _ _ H) as [E _]. rewrite E. cbn. tauto.
  - cbn. tauto.
  - cbn [lvl]. destruct (is_update_op pO); cbn; tauto.
  - cbn [lvl]. destruct (is_update_op pO); cbn; tauto.
  - cbn [lvl]. rewrite (bin_level_of _ _ _ _ _ _ _ H). eapply bin_level_in; eauto.
  - view_facts0 inf kd H. cbn [lvl]. destruct (lhs_levels _ IHspells ltac:(lia)) as [E|[E|E]]; rewrite E; unfold cap;
      repeat match goal with |- context [?a <? ?b] => destruct (Z.ltb_spec a b) end; cbn; tauto.
  - view_facts0 inf ko H. cbn [lvl]. destruct (lhs_levels _ IHspells1 ltac:(lia)) as [E|[E|E]]; rewrite E; unfold cap;
      repeat match goal with |- context [?a <? ?b] => destruct (Z.ltb_spec a b) end; cbn; tauto.
  - view_facts0 inf ko H. cbn [lvl]. destruct (lhs_levels _ IHspells ltac:(lia)) as [E|[E|E]]; rewrite E; unfold cap;
      repeat match goal with |- context [?a <? ?b] => destruct (Z.ltb_spec a b) end; cbn; tauto.
  - cbn. tauto.
  - destruct x; cbn; tauto.
Qed.

(* the production of a binary operator token *)
Definition prod_for (t : Z) : option (nt * nt * list Z * nt) :=
  find (fun p => match p with (_, _, ops, _) => existsb (Z.eqb t) ops end) binary_prods.

Definition bin_ok (inf : bool) (t : Z) : bool :=
  match sview inf t with
  | ABin pL pR pX pS pN =>
      if t =? tt_NullishToken then true
      else if t =? tt_InToken then inf
      else match prod_for t with
           | Some (a, l, ops, r) =>
               nt_beq (nt_of pN) a &&
               forallb (fun p => implb (okl_of pR pX p) (reach l p) && implb (pS <=? p) (reach r p)) lvl_values
           | None => false
           end
  | _ => true
  end.

Lemma bin_ok_all inf t : bin_ok inf t = true.
Proof.
  destruct (sview_none_or_in inf t) as [E|Hin]; [unfold bin_ok; rewrite E; reflexivity|].
  assert (H : forallb (fun t => bin_ok true t && bin_ok false t) suffix_tokens = true) by (lazy; reflexivity).
  rewrite forallb_forall in H. specialize (H _ Hin). apply andb_true_iff in H. destruct H. destruct inf; assumption.
Qed.

Lemma prod_for_in t a l ops r : prod_for t = Some (a, l, ops, r) -> In (a, l, ops, r) binary_prods /\ In t ops.
Proof.
  unfold prod_for. intros H. apply find_some in H. destruct H as [H1 H2]. split; [exact H1|].
  apply existsb_eqb_in. exact H2.
Qed.

Definition lift_fact (a : nt) (cond : Z -> bool) : Prop :=
  forallb (fun p => implb (cond p) (reach a p)) lvl_values = true.

Lemma lf_expression : lift_fact Expression (fun _ => true). Proof. lazy. reflexivity. Qed.
Lemma lf_assignment : lift_fact Assignment (fun p => prec_OpAssign <=? p). Proof. lazy. reflexivity. Qed.
Lemma lf_shortcircuit : lift_fact ShortCircuit (fun p => prec_OpCoalesce <=? p). Proof. lazy. reflexivity. Qed.
Lemma lf_unary : lift_fact Unary (fun p => prec_OpUnary <=? p). Proof. lazy. reflexivity. Qed.
Lemma lf_lhs : lift_fact LHS (fun p => prec_OpLHS <=? p). Proof. lazy. reflexivity. Qed.
Lemma lf_member : lift_fact Member (fun p => prec_OpMember <=? p). Proof. lazy. reflexivity. Qed.
Lemma lf_relational : lift_fact Relational (okl_of prec_OpCompare prec_OpCompare). Proof. lazy. reflexivity. Qed.
Lemma lf_shift : lift_fact Shift (fun p => prec_OpShift <=? p). Proof. lazy. reflexivity. Qed.
Lemma lf_coalescehead : lift_fact CoalesceHead (okl_of prec_OpBitOr prec_OpCoalesce). Proof. lazy. reflexivity. Qed.
Lemma lf_bitor : lift_fact BitOR (fun p => prec_OpBitOr <=? p). Proof. lazy. reflexivity. Qed.

Lemma post_prod inf t pL pR pO pN : sview inf t = APost pL pR pO pN -> In (t, pO) postfix_update_prods.
Proof.
  intros H.
  pose proof (sview_sweep_t (fun t v => match v with
     | APost _ _ o _ => existsb (fun p => (fst p =? t) && (snd p =? o)) postfix_update_prods | _ => true end)) as S.
  specialize (S (fun _ => eq_refl) ltac:(vm_compute; reflexivity) inf t). rewrite H in S.
  apply existsb_exists in S. destruct S as [[a b] [Hin Hx]]. cbn [fst snd] in Hx. b2p. subst. exact Hin.
Qed.

Lemma unary_prod k pG pO pS pN : pview k = PUnary pG pO pS pN ->
  In (ty k, pO) unary_prods \/ In (ty k, pO) prefix_update_prods.
Proof.
  intros H. pose proof (pview_bare k) as Hb. rewrite H in Hb. destruct Hb as [[Hb Hin]|Hb]; [|discriminate].
  assert (S : forallb (fun t => match pview (bare t) with
                | PUnary _ o _ _ => existsb (fun p => (fst p =? t) && (snd p =? o)) (unary_prods ++ prefix_update_prods)
                | _ => true end) (tt_DivToken :: tt_DivEqToken :: prefix_tokens) = true) by (vm_compute; reflexivity).
  rewrite forallb_forall in S. specialize (S _ Hin). rewrite Hb in S.
  apply existsb_exists in S. destruct S as [[a b] [Hi Hx]]. cbn [fst snd] in Hx. b2p. subst.
  apply in_app_or in Hi. exact Hi.
Qed.

Lemma leaf_tok k e : pview k = PLeaf e ->
  (ident_tok k /\ e = EVar (data k)) \/ (literal_tok k /\ e = ELit (ty k) (data k)).
Proof.
  unfold pview.
  destruct ((ty k =? tt_DivToken) || (ty k =? tt_DivEqToken)); [discriminate|].
  destruct (is_identifier (ty k) && negb (ty k =? tt_AsyncToken)) eqn:Ei.
  { intros H. inversion H. left. apply andb_true_iff in Ei. destruct Ei as [E1 E2].
    apply negb_true_iff in E2. apply Z.eqb_neq in E2. split; [split; assumption|reflexivity]. }
  destruct (is_numeric (ty k)) eqn:En.
  { intros H. inversion H. right. split; [|reflexivity]. split; [|left; exact En].
    apply andb_false_iff in Ei. destruct Ei as [Ei|Ei]; [exact Ei|].
    apply negb_false_iff in Ei. apply Z.eqb_eq in Ei. rewrite Ei in En. vm_compute in En. discriminate. }
  destruct (prefix_arm (ty k)) as [[sh ps]|] eqn:Ea; [|discriminate].
  destruct (sh =? 2) eqn:E2.
  2:{ destruct (sh =? 1); [destruct ps as [|a [|b [|c [|d [|g ps]]]]]; discriminate|].
      destruct (sh =? 3); [destruct ps as [|a [|b [|c ps]]]; discriminate|discriminate]. }
  intros H. inversion H. right. split; [|reflexivity].
  assert (Hin : In (ty k) prefix_tokens) by (eapply find_row_in; exact Ea).
  assert (S : forallb (fun t => match prefix_arm t with
               | Some (sh, _) => if sh =? 2 then existsb (Z.eqb t) literal_kinds && negb (is_identifier t) else true
               | None => true end) prefix_tokens = true) by (vm_compute; reflexivity).
  rewrite forallb_forall in S. specialize (S _ Hin). rewrite Ea, E2 in S. apply andb_true_iff in S. destruct S as [S1 S2].
  split; [apply negb_true_iff in S2; exact S2|]. right. apply existsb_eqb_in. exact S1.
Qed.

(* ---- the main induction ------------------------------------------------------------------------------------------- *)

Lemma zleb_true a b : a <= b -> (a <=? b) = true.
Proof. intros H. apply Z.leb_le. exact H. Qed.

Lemma nt_of_vals :
  nt_of prec_OpPrimary = Primary /\ nt_of prec_OpMember = Member /\ nt_of prec_OpCall = Call /\
  nt_of prec_OpUpdate = Update /\ nt_of prec_OpUnary = Unary /\ nt_of prec_OpAssign = Assignment /\
  nt_of prec_OpExpr = Expression /\ nt_of prec_OpCoalesce = Coalesce /\ nt_of prec_OpCompare = Relational.
Proof. vm_compute. repeat split. Qed.

Lemma chain1 inf a b ts t : In (a, b) chain_prods -> derives inf b ts t -> derives inf a ts t.
Proof. intros. eapply D_chain; eauto. Qed.

Lemma spells_derives_all :
  (forall inf ts t (s : spells inf ts t), derives inf (nt_of (lvl t)) ts t) /\
  (forall ats args (s : spells_args ats args), arguments ats args).
Proof.
  pose proof prec_order as PO.
  destruct nt_of_vals as [NP [NM [NC [NU [NY [NA [NE [NO NR]]]]]]]].
  apply (spells_both_ind
           (fun inf ts t _ => derives inf (nt_of (lvl t)) ts t)
           (fun ats args _ => arguments ats args)).
  - (* leaf *)
    intros inf k e Hv.
    destruct (pview_leaf_lvl _ _ Hv) as [El _]. rewrite El. replace primary with prec_OpPrimary by lia. rewrite NP.
    destruct (leaf_tok _ _ Hv) as [[Hk E]|[Hk E]]; subst e; [apply D_ident|apply D_literal]; exact Hk.
  - (* parenthesis *)
    intros inf ko pG pS ts t kc Hv Ht Hder Hl Hkc.
    cbn [lvl]. replace primary with prec_OpPrimary by lia. rewrite NP.
    apply D_paren; auto.
    + pose proof (pview_bare ko) as Hb. rewrite Hv in Hb. unfold pview in Hv.
      destruct (ty ko =? tt_OpenParenToken) eqn:E; [apply Z.eqb_eq in E; exact E|].
      exfalso. destruct Hb as [[Hb Hin]|Hb]; [|discriminate].
      assert (S : forallb (fun t => match pview (bare t) with PGroup _ _ => t =? tt_OpenParenToken | _ => true end)
                    (tt_DivToken :: tt_DivEqToken :: prefix_tokens) = true) by (vm_compute; reflexivity).
      rewrite forallb_forall in S. specialize (S _ Hin). rewrite Hb in S. congruence.
    + eapply (lift_to true Expression ts t (fun _ => true)); [exact lf_expression|eapply spells_lvl_in; exact Ht|reflexivity|exact Hder].
  - (* prefix operator *)
    intros inf k pG pO pS pN ts x Hv Hx Hder Hl.
    pose proof (pfact_all k) as PF. rewrite Hv in PF. cbn [pfact] in PF. b2p.
    cbn [lvl].
    assert (Hux : derives inf Unary ts x).
    { eapply (lift_to inf Unary ts x (fun p => prec_OpUnary <=? p)); [exact lf_unary|eapply spells_lvl_in; exact Hx|apply zleb_true; lia|exact Hder]. }
    destruct (unary_prod _ _ _ _ _ Hv) as [Hp|Hp].
    + replace (is_update_op pO) with false.
      * rewrite NY. eapply D_unary; eauto.
      * cbn [In unary_prods] in Hp. repeat (destruct Hp as [Hp|Hp]; [inversion Hp; reflexivity|]). contradiction.
    + replace (is_update_op pO) with true.
      * rewrite NU. eapply D_prefix_update; eauto.
      * cbn [In prefix_update_prods] in Hp. repeat (destruct Hp as [Hp|Hp]; [inversion Hp; reflexivity|]). contradiction.
  - (* postfix operator *)
    intros inf k pL pR pO pN xs x Hv Hlt Hx Hder Hl.
    view_facts0 inf k Hv.
    cbn [lvl]. rewrite (postfix_is_update _ H1), NU.
    eapply D_postfix; eauto using post_prod.
    eapply (lift_to inf LHS xs x (fun p => prec_OpLHS <=? p)); [exact lf_lhs|eapply spells_lvl_in; exact Hx|apply zleb_true; lia|exact Hder].
  - (* binary operator *)
    intros inf k pL pR pX pS pN xs x ys y Hv Hx Hderx Hok Hy Hdery Hl.
    cbn [lvl]. rewrite (bin_level_of _ _ _ _ _ _ _ Hv).
    pose proof (bin_ok_all inf (ty k)) as BO. unfold bin_ok in BO. rewrite Hv in BO.
    pose proof (spells_lvl_in _ _ _ Hx) as Hinx. pose proof (spells_lvl_in _ _ _ Hy) as Hiny.
    destruct (ty k =? tt_NullishToken) eqn:En.
    { apply Z.eqb_eq in En. rewrite En, view_nullish in Hv. inversion Hv; subst. rewrite NO.
      apply D_coalesce; auto.
      - eapply (lift_to inf CoalesceHead xs x _ lf_coalescehead); eauto.
      - eapply (lift_to inf BitOR ys y _ lf_bitor); eauto. apply zleb_true. exact Hl. }
    destruct (ty k =? tt_InToken) eqn:Ei.
    { apply Z.eqb_eq in Ei. subst inf. rewrite Ei, view_in in Hv. inversion Hv; subst. rewrite NR.
      apply D_in; auto.
      - eapply (lift_to true Relational xs x _ lf_relational); eauto.
      - eapply (lift_to true Shift ys y _ lf_shift); eauto. apply zleb_true. exact Hl. }
    destruct (prod_for (ty k)) as [[[[a l] ops] r]|] eqn:Ep; [|discriminate].
    apply andb_true_iff in BO. destruct BO as [B1 B2]. apply internal_nt_dec_bl in B1. rewrite B1.
    destruct (prod_for_in _ _ _ _ _ Ep) as [Hp Hop].
    rewrite forallb_forall in B2.
    pose proof (B2 _ Hinx) as Bx. pose proof (B2 _ Hiny) as By.
    apply andb_true_iff in Bx. destruct Bx as [Bx _]. apply andb_true_iff in By. destruct By as [_ By].
    rewrite Hok in Bx. rewrite (zleb_true _ _ Hl) in By. cbn [implb] in Bx, By.
    eapply D_binary; eauto.
    + eapply derives_chain_star; [apply (reachb_sound _ _ _ Bx)|exact Hderx].
    + eapply derives_chain_star; [apply (reachb_sound _ _ _ By)|exact Hdery].
  - (* dot *)
    intros inf kd pR pC xs x n Hv Hx Hder Hl Hn Hp.
    view_facts0 inf kd Hv.
    assert (Hkd : ty kd = tt_DotToken).
    { pose proof (sview_sweep_t (fun t v => match v with ADot _ _ => t =? tt_DotToken | _ => true end)) as S.
      specialize (S (fun _ => eq_refl) ltac:(vm_compute; reflexivity) inf (ty kd)). rewrite Hv in S. apply Z.eqb_eq in S. exact S. }
    pose proof (spells_lvl_in _ _ _ Hx) as Hin.
    cbn [lvl]. destruct (lhs_levels _ Hin ltac:(lia)) as [E|[E|E]]; rewrite E in *.
    + rewrite cap_le by lia. rewrite NC in *. apply D_call_dot; auto.
    + rewrite cap_ge by lia. rewrite NM in *. apply D_member_dot; auto.
    + rewrite cap_ge by lia. rewrite NM. apply D_member_dot; auto. rewrite NP in Hder. eapply chain1; [|exact Hder]. cbn. tauto.
  - (* index *)
    intros inf ko pR pC pS xs x ys y kc Hv Hx Hderx Hl Hy Hdery Hly Hkc.
    view_facts0 inf ko Hv.
    assert (Hko : ty ko = tt_OpenBracketToken).
    { pose proof (sview_sweep_t (fun t v => match v with AIndex _ _ _ => t =? tt_OpenBracketToken | _ => true end)) as S.
      specialize (S (fun _ => eq_refl) ltac:(vm_compute; reflexivity) inf (ty ko)). rewrite Hv in S. apply Z.eqb_eq in S. exact S. }
    assert (Hey : derives true Expression ys y).
    { eapply (lift_to true Expression ys y (fun _ => true)); [exact lf_expression|eapply spells_lvl_in; exact Hy|reflexivity|exact Hdery]. }
    pose proof (spells_lvl_in _ _ _ Hx) as Hin.
    cbn [lvl]. destruct (lhs_levels _ Hin ltac:(lia)) as [E|[E|E]]; rewrite E in *.
    + rewrite cap_le by lia. rewrite NC in *. apply D_call_index; auto.
    + rewrite cap_ge by lia. rewrite NM in *. apply D_member_index; auto.
    + rewrite cap_ge by lia. rewrite NM. apply D_member_index; auto. rewrite NP in Hderx. eapply chain1; [|exact Hderx]. cbn. tauto.
  - (* call *)
    intros inf ko pL pR pC xs x ats args Hv Hx Hderx Hl Ha Hargs.
    view_facts0 inf ko Hv.
    assert (Hko : ty ko = tt_OpenParenToken).
    { pose proof (sview_sweep_t (fun t v => match v with ACall _ _ _ => t =? tt_OpenParenToken | _ => true end)) as S.
      specialize (S (fun _ => eq_refl) ltac:(vm_compute; reflexivity) inf (ty ko)). rewrite Hv in S. apply Z.eqb_eq in S. exact S. }
    pose proof (spells_lvl_in _ _ _ Hx) as Hin.
    cbn [lvl]. destruct (lhs_levels _ Hin ltac:(lia)) as [E|[E|E]]; rewrite E in *.
    + rewrite cap_ge by lia. rewrite NC in *. apply D_call_call; auto.
    + rewrite cap_ge by lia. rewrite NC. rewrite NM in Hderx. apply D_call_member; auto.
    + rewrite cap_ge by lia. rewrite NC. apply D_call_member; auto. rewrite NP in Hderx. eapply chain1; [|exact Hderx]. cbn. tauto.
  - (* conditional *)
    intros inf kq pL pR pS pE pN cs c xs x kc ys y Hv Hc Hderc Hlc Hx Hderx Hlx Hkc Hy Hdery Hly.
    view_facts0 inf kq Hv.
    assert (Hkq : ty kq = tt_QuestionToken).
    { pose proof (sview_sweep_t (fun t v => match v with ACond _ _ _ _ _ => t =? tt_QuestionToken | _ => true end)) as S.
      specialize (S (fun _ => eq_refl) ltac:(vm_compute; reflexivity) inf (ty kq)). rewrite Hv in S. apply Z.eqb_eq in S. exact S. }
    cbn [lvl]. rewrite NA. eapply chain1; [cbn; tauto|].
    apply D_cond; auto.
    + eapply (lift_to inf ShortCircuit cs c (fun p => prec_OpCoalesce <=? p)); [exact lf_shortcircuit|eapply spells_lvl_in; exact Hc|apply zleb_true; lia|exact Hderc].
    + eapply (lift_to true Assignment xs x (fun p => prec_OpAssign <=? p)); [exact lf_assignment|eapply spells_lvl_in; exact Hx|apply zleb_true; lia|exact Hderx].
    + eapply (lift_to inf Assignment ys y (fun p => prec_OpAssign <=? p)); [exact lf_assignment|eapply spells_lvl_in; exact Hy|apply zleb_true; lia|exact Hdery].
  - (* comma *)
    intros inf k pL pS pN xs x ys y Hv Hx Hderx Hy Hdery Hl.
    view_facts0 inf k Hv.
    replace (lvl (comma_snoc x y)) with prec_OpExpr by (destruct x; reflexivity). rewrite NE.
    apply D_comma.
    + eapply (lift_to inf Expression xs x (fun _ => true)); [exact lf_expression|eapply spells_lvl_in; exact Hx|reflexivity|exact Hderx].
    + eapply sview_comma_tok; exact Hv.
    + eapply (lift_to inf Assignment ys y (fun p => prec_OpAssign <=? p)); [exact lf_assignment|eapply spells_lvl_in; exact Hy|apply zleb_true; lia|exact Hdery].
  - (* arguments *)
    intros kc Hkc. apply A_end; exact Hkc.
  - intros ts a kc Ha Hder Hl Hkc.
    apply A_last; auto.
    eapply (lift_to true Assignment ts a (fun p => prec_OpAssign <=? p)); [exact lf_assignment|eapply spells_lvl_in; exact Ha|apply zleb_true; lia|exact Hder].
  - intros ts a km rest l Ha Hder Hl Hkm Hr Hargs.
    apply A_cons; auto.
    eapply (lift_to true Assignment ts a (fun p => prec_OpAssign <=? p)); [exact lf_assignment|eapply spells_lvl_in; exact Ha|apply zleb_true; lia|exact Hder].
Qed.

Theorem spells_derives inf ts t : spells inf ts t -> derives inf (nt_of (lvl t)) ts t.
Proof. intros s. exact (proj1 spells_derives_all inf ts t s). Qed.

(* at the top: an Expression *)
Theorem spells_derives_expression inf ts t : spells inf ts t -> derives inf Expression ts t.
Proof.
  intros s. pose proof (spells_derives _ _ _ s) as Hder.
  eapply (lift_to inf Expression ts t (fun _ => true)); [exact lf_expression|eapply spells_lvl_in; exact s|reflexivity|exact Hder].
Qed.

(* ---- the [In] parameter is vacuous below RelationalExpression ------------------------------------------------------ *)

(* nonterminals that have no [In] parameter in the standard *)
Definition tight (n : nt) : bool :=
  match n with
  | Shift | Additive | Multiplicative | Exponentiation | Unary | Update | LHS | Call | Member | Primary => true
  | _ => false
  end.

Lemma derives_in_mono :
  (forall inf n ts t (d : derives inf n ts t), derives true n ts t) /\
  (forall ats args (d : arguments ats args), arguments ats args).
Proof.
  apply (derives_arguments_ind (fun _ n ts t _ => derives true n ts t) (fun ats args _ => arguments ats args));
    intros; eauto using derives, arguments.
Qed.

Lemma derives_in_vacuous_all :
  (forall inf n ts t (d : derives inf n ts t), tight n = true -> forall inf', derives inf' n ts t) /\
  (forall ats args (d : arguments ats args), True).
Proof.
  apply (derives_arguments_ind (fun _ n ts t _ => tight n = true -> forall inf', derives inf' n ts t) (fun _ _ _ => True));
    intros; try exact I; try discriminate.
  - (* chain *)
    assert (Hb : tight b = true).
    { unfold chain_prods in i. cbn [In] in i.
      repeat (destruct i as [i|i]; [inversion i; subst; try discriminate; reflexivity|]). contradiction. }
    eapply D_chain; eauto.
  - apply D_ident; assumption.
  - apply D_literal; assumption.
  - apply D_paren; assumption.
  - apply D_member_index; auto.
  - apply D_member_dot; auto.
  - eapply D_call_member; eauto.
  - eapply D_call_call; eauto.
  - apply D_call_index; auto.
  - apply D_call_dot; auto.
  - eapply D_postfix; eauto.
  - eapply D_prefix_update; eauto.
  - eapply D_unary; eauto.
  - (* binary productions of tight nonterminals have tight operands *)
    assert (Hlr : tight l = true /\ tight r = true).
    { unfold binary_prods in i. cbn [In] in i.
      repeat (destruct i as [i|i]; [inversion i; subst; try discriminate; split; reflexivity|]). contradiction. }
    destruct Hlr as [Hl Hr]. eapply D_binary; eauto.
Qed.

(* ShiftExpression and tighter nonterminals derive the same with and without [In] *)
Theorem derives_in_vacuous inf inf' n ts t : tight n = true -> derives inf n ts t -> derives inf' n ts t.
Proof. intros Ht d. exact (proj1 derives_in_vacuous_all inf n ts t d Ht inf'). Qed.
