(* JsExpr/StmtModel.v — executable model of the statement forms of parseStmt that are thin wrappers around
   parseExpression: block, var (identifier bindings), if / else, while (also rewritten to for with Options.WhileToFor),
   do-while, for ( ; ; ) with an expression or var initialiser, throw, break / continue, debugger, with, try / catch / finally, switch, let / const declarations (identifier bindings), labelled statements; expression and empty statements are those of Pratt.v
   ([parse_stmt]).  Every form ends with the tail of parseStmt ([skip_semi]): a ';' is taken on the same line, and after
   a line break when the statement is one that a ';' terminates (var, expression, do-while, break / continue, throw).
   Not modelled ([OutFrag]): for-in / for-of / for await, return (only inside functions), function / class declarations, import / export, binding patterns, yield / await as names; scopes (C04); the statement nesting
   limit (C01).  Definitions only. *)
From Verif Require Import Common.Base Gen.PrattTable JsExpr.Syntax JsExpr.Pratt.

(* the initialiser of a for statement *)
Inductive xfinit := FNone | FExpr (e : expr) | FVar (l : list (list Z * option expr)).

Inductive xstmt :=
| XExpr (e : expr)
| XEmpty
| XLabel (n : list Z) (s : xstmt)
| XBlock (l : list xstmt)
| XIf (c : expr) (s : xstmt) (e : option xstmt)
| XWhile (c : expr) (s : xstmt)
| XFor (i : xfinit) (c p : option expr) (l : list xstmt)   (* for ( i ; c ; p ) { l } — also `while` under Options.WhileToFor *)
| XDo (s : xstmt) (c : expr)
| XThrow (e : expr)
| XBranch (t : Z) (label : option (list Z))  (* t: BreakToken or ContinueToken *)
| XVar (l : list (list Z * option expr))
| XDebugger
| XWith (c : expr) (s : xstmt)
| XTry (b : list xstmt) (c : option (option (list Z) * list xstmt)) (f : option (list xstmt))    (* try b [catch [(n)] c] [finally f] *)
| XSwitch (e : expr) (cl : list (option expr * list xstmt))                                      (* switch (e) { case x: l ... default: l } *)
| XLex (t : Z) (l : list (list Z * option expr)).          (* let / const declaration (t: LetToken or ConstToken) *)                                     (* switch (e) { case x: l ... default: l } *)

(* var a [= e] , b [= e] ...   after the `var`; bindings other than identifiers are outside the fragment *)
Fixpoint parse_xvar (n : nat) (inf : bool) (ts : list token) (acc : list (list Z * option expr)) {struct n}
  : res (list (list Z * option expr) * list token) :=
  match n with
  | O => NoFuel
  | S m =>
    match ts with
    | [] => Fail
    | c :: r =>
      if (ty c =? tt_OpenBracketToken) || (ty c =? tt_OpenBraceToken) || (ty c =? tt_YieldToken) || (ty c =? tt_AwaitToken) then OutFrag
      else if negb (is_identifier (ty c)) then Fail
      else
        let k (b : list Z * option expr) (r' : list token) :=
          match r' with
          | d :: r'' => if ty d =? tt_CommaToken then parse_xvar m inf r'' (b :: acc) else Ok (rev (b :: acc), r')
          | [] => Ok (rev (b :: acc), [])
          end in
        match r with
        | e :: r2 =>
            if ty e =? tt_EqToken then '(x, r3) <~ parse inf prec_OpAssign r2 ;; k (data c, Some x) r3
            else k (data c, None) r
        | [] => k (data c, None) r
        end
    end
  end.

Definition xwrap (s : stmt) : res xstmt :=
  match s with
  | SExpr e => Ok (XExpr e)
  | SEmpty => Ok XEmpty
  | SLabel _ _ => OutFrag
  end.

(* the try arm of parseStmt after the `try`; plist: parseStmtList after its '{' *)
Definition try_catch (plist : list token -> res (list xstmt * list token)) (r2 : list token)
  : res (option (option (list Z) * list xstmt) * list token) :=
  match r2 with
  | a :: ra =>
      if ty a =? tt_CatchToken then
        '(n, rb) <~ match ra with
                   | p :: n :: rp =>
                       if ty p =? tt_OpenParenToken then
                         if (ty n =? tt_OpenBracketToken) || (ty n =? tt_OpenBraceToken) || (ty n =? tt_YieldToken) || (ty n =? tt_AwaitToken) then OutFrag
                         else if negb (is_identifier (ty n)) then Fail
                         else rq <~ expect tt_CloseParenToken rp ;; Ok (Some (data n), rq)
                       else Ok (None, ra)
                   | [p] => if ty p =? tt_OpenParenToken then Fail else Ok (None, ra)
                   | [] => Ok (None, ra)
                   end ;;
        rc <~ expect tt_OpenBraceToken rb ;;
        '(l, rd) <~ plist rc ;;
        Ok (Some (n, l), rd)
      else if ty a =? tt_FinallyToken then Ok (None, r2)
      else Fail
  | [] => Fail
  end.

Definition try_fin (plist : list token -> res (list xstmt * list token)) (r3 : list token)
  : res (option (list xstmt) * list token) :=
  match r3 with
  | a :: ra =>
      if ty a =? tt_FinallyToken then rb <~ expect tt_OpenBraceToken ra ;; '(l, rc) <~ plist rb ;; Ok (Some l, rc)
      else Ok (None, r3)
  | [] => Ok (None, r3)
  end.

Definition try_arm (plist : list token -> res (list xstmt * list token)) (rest : list token) : res (xstmt * list token) :=
  r1 <~ expect tt_OpenBraceToken rest ;;
  '(b, r2) <~ plist r1 ;;
  '(c, r3) <~ try_catch plist r2 ;;
  '(f, r4) <~ try_fin plist r3 ;;
  Ok (XTry b c f, skip_semi false r4).

(* the initialiser of a for statement (In flag off), up to its ';' *)
Definition for_init (r1 : list token) : res (xfinit * list token) :=
  match r1 with
  | [] => Fail
  | a :: ra =>
      if ty a =? tt_SemicolonToken then Ok (FNone, r1)
      else if (ty a =? tt_LetToken) || (ty a =? tt_ConstToken) then OutFrag
      else if ty a =? tt_VarToken then
        '(l, r) <~ parse_xvar (S (length ra)) false ra [] ;;
        match r with
        | b :: _ =>
            if ty b =? tt_SemicolonToken then Ok (FVar l, r)
            else if ((ty b =? tt_InToken) || (ty b =? tt_OfToken)) &&
                    match l with [(_, None)] => true | _ => false end then OutFrag
            else Fail
        | [] => Fail
        end
      else
        '(e, r) <~ parse false prec_OpExpr r1 ;;
        match r with
        | b :: _ =>
            if ty b =? tt_SemicolonToken then Ok (FExpr e, r)
            else if (ty b =? tt_InToken) || (ty b =? tt_OfToken) then OutFrag
            else Fail
        | [] => Fail
        end
  end.

(* an optional expression in front of the token t *)
Definition for_opt (t : Z) (r : list token) : res (option expr * list token) :=
  match r with
  | a :: _ => if ty a =? t then Ok (None, r) else '(e, r') <~ parse true prec_OpExpr r ;; Ok (Some e, r')
  | [] => Fail
  end.

(* the for arm of parseStmt after the `for`; pstmt / plist: parseStmt and parseStmtList (after its '{') *)
Definition for_arm (pstmt : list token -> res (xstmt * list token)) (plist : list token -> res (list xstmt * list token))
  (rest : list token) : res (xstmt * list token) :=
  r1 <~ expect tt_OpenParenToken rest ;;
  '(i, r2) <~ for_init r1 ;;
  r3 <~ expect tt_SemicolonToken r2 ;;
  '(c, r4) <~ for_opt tt_SemicolonToken r3 ;;
  r5 <~ expect tt_SemicolonToken r4 ;;
  '(p, r6) <~ for_opt tt_CloseParenToken r5 ;;
  r7 <~ expect tt_CloseParenToken r6 ;;
  '(l, r8) <~ match r7 with
             | a :: ra =>
                 if ty a =? tt_OpenBraceToken then plist ra
                 else if ty a =? tt_SemicolonToken then Ok ([], ra)
                 else '(s, r) <~ pstmt r7 ;; Ok ([s], r)
             | [] => '(s, r) <~ pstmt r7 ;; Ok ([s], r)
             end ;;
  Ok (XFor i c p l, skip_semi false r8).

(* the switch arm of parseStmt after the `switch`; pcl: the loop over the clauses after the '{' *)
Definition switch_arm (pcl : list token -> res (list (option expr * list xstmt) * list token)) (rest : list token)
  : res (xstmt * list token) :=
  r1 <~ expect tt_OpenParenToken rest ;;
  '(e, r2) <~ parse true prec_OpExpr r1 ;;
  r3 <~ expect tt_CloseParenToken r2 ;;
  r4 <~ expect tt_OpenBraceToken r3 ;;
  '(cl, r5) <~ pcl r4 ;;
  Ok (XSwitch e cl, skip_semi false r5).

Definition ends_clause (ts : list token) : bool :=
  match ts with
  | k :: _ => (ty k =? tt_CaseToken) || (ty k =? tt_DefaultToken) || (ty k =? tt_CloseBraceToken)
  | [] => true
  end.

Fixpoint parse_xstmt (n : nat) (w2f : bool) (ad : bool) (ts : list token) {struct n} : res (xstmt * list token) :=
  match n with
  | O => NoFuel
  | S m =>
    match ts with
    | [] => Ok (XEmpty, [])
    | k :: rest =>
      if ty k =? tt_OpenBraceToken then
        '(l, r) <~ parse_xlist m w2f rest [] ;; Ok (XBlock l, skip_semi false r)
      else if ty k =? tt_VarToken then
        '(l, r) <~ parse_xvar (S (length rest)) true rest [] ;;
        if stmt_end_ok r then Ok (XVar l, skip_semi true r) else Fail
      else if ty k =? tt_ConstToken then
        (* a const declaration: where declarations are allowed, every binding with an initialiser *)
        if negb ad then Fail
        else
          '(l, r) <~ parse_xvar (S (length rest)) true rest [] ;;
          if negb (forallb (fun b : list Z * option expr => match snd b with Some _ => true | None => false end) l) then Fail
          else if stmt_end_ok r then Ok (XLex tt_ConstToken l, skip_semi true r) else Fail
      else if (ty k =? tt_LetToken) && ad &&
              match rest with c :: _ => is_identifier (ty c) || (ty c =? tt_YieldToken) || (ty c =? tt_AwaitToken)
                                       || (ty c =? tt_OpenBracketToken) || (ty c =? tt_OpenBraceToken) | [] => false end then
        (* a let declaration *)
        '(l, r) <~ parse_xvar (S (length rest)) true rest [] ;;
        if stmt_end_ok r then Ok (XLex tt_LetToken l, skip_semi true r) else Fail
      else if (ty k =? tt_LetToken) && negb ad &&
              match rest with c :: _ => is_identifier (ty c) || (ty c =? tt_YieldToken) || (ty c =? tt_AwaitToken)
                                       || (ty c =? tt_OpenBracketToken) || (ty c =? tt_OpenBraceToken) | [] => false end then
        (* `let` before a binding start where no declaration is allowed (the body of if / while / do / for / with):
           `let [` is an error ("unexpected let [ in single-statement context"); otherwise the identifier `let` starts an
           expression statement, which then has to end in front of that token *)
        match rest with
        | c :: _ =>
            if ty c =? tt_OpenBracketToken then Fail
            else
              '(e, r') <~ parse_suffix (fuel_for rest) true (EVar (data k)) prec_OpExpr primary rest ;;
              if stmt_end_ok r' then Ok (XExpr e, skip_semi true r') else Fail
        | [] => Fail
        end
      else if ty k =? tt_IfToken then
        r1 <~ expect tt_OpenParenToken rest ;;
        '(c, r2) <~ parse true prec_OpExpr r1 ;;
        r3 <~ expect tt_CloseParenToken r2 ;;
        '(s, r4) <~ parse_xstmt m w2f false r3 ;;
        match r4 with
        | e :: r5 =>
            if ty e =? tt_ElseToken then '(s2, r6) <~ parse_xstmt m w2f false r5 ;; Ok (XIf c s (Some s2), skip_semi false r6)
            else Ok (XIf c s None, skip_semi false r4)
        | [] => Ok (XIf c s None, [])
        end
      else if ty k =? tt_WhileToken then
        r1 <~ expect tt_OpenParenToken rest ;;
        '(c, r2) <~ parse true prec_OpExpr r1 ;;
        r3 <~ expect tt_CloseParenToken r2 ;;
        '(s, r4) <~ parse_xstmt m w2f false r3 ;;
        if w2f then Ok (XFor FNone (Some c) None (match s with XBlock l => l | _ => [s] end), skip_semi false r4)
        else Ok (XWhile c s, skip_semi false r4)
      else if ty k =? tt_ForToken then for_arm (parse_xstmt m w2f false) (fun ts' => parse_xlist m w2f ts' []) rest
      else if ty k =? tt_DoToken then
        '(s, r1) <~ parse_xstmt m w2f false rest ;;
        r2 <~ expect tt_WhileToken r1 ;;
        r3 <~ expect tt_OpenParenToken r2 ;;
        '(c, r4) <~ parse true prec_OpExpr r3 ;;
        r5 <~ expect tt_CloseParenToken r4 ;;
        Ok (XDo s c, skip_semi true r5)
      else if ty k =? tt_DebuggerToken then Ok (XDebugger, skip_semi true rest)
      else if ty k =? tt_WithToken then
        r1 <~ expect tt_OpenParenToken rest ;;
        '(c, r2) <~ parse true prec_OpExpr r1 ;;
        r3 <~ expect tt_CloseParenToken r2 ;;
        '(s, r4) <~ parse_xstmt m w2f false r3 ;;
        Ok (XWith c s, skip_semi false r4)
      else if ty k =? tt_TryToken then try_arm (fun ts' => parse_xlist m w2f ts' []) rest
      else if ty k =? tt_SwitchToken then switch_arm (fun ts' => parse_xclauses m w2f ts' []) rest
      else if ty k =? tt_ThrowToken then
        match rest with
        | c :: _ => if lt c then Fail else '(e, r) <~ parse true prec_OpExpr rest ;; Ok (XThrow e, skip_semi true r)
        | [] => Fail
        end
      else if (ty k =? tt_BreakToken) || (ty k =? tt_ContinueToken) then
        match rest with
        | c :: r =>
            if negb (lt c) && is_identifier (ty c) then Ok (XBranch (ty k) (Some (data c)), skip_semi true r)
            else if negb (lt c) && ((ty c =? tt_YieldToken) || (ty c =? tt_AwaitToken)) then OutFrag
            else Ok (XBranch (ty k) None, skip_semi true rest)
        | [] => Ok (XBranch (ty k) None, [])
        end
      else if negb (stmt_keyword (ty k)) && negb (ty k =? tt_LetToken) && is_identifier (ty k) &&
              match rest with c :: _ => ty c =? tt_ColonToken | [] => false end then
        '(s, r') <~ parse_xstmt m w2f true (tl rest) ;; Ok (XLabel (data k) s, skip_semi false r')
      else
        '(s, r) <~ parse_stmt (S (length ts)) ts ;; x <~ xwrap s ;; Ok (x, r)
    end
  end
(* parseStmtList after its '{' *)
with parse_xlist (n : nat) (w2f : bool) (ts : list token) (acc : list xstmt) {struct n} : res (list xstmt * list token) :=
  match n with
  | O => NoFuel
  | S m =>
    match ts with
    | [] => Fail
    | k :: r =>
      if ty k =? tt_CloseBraceToken then Ok (rev acc, r)
      else '(s, r') <~ parse_xstmt m w2f true ts ;; parse_xlist m w2f r' (s :: acc)
    end
  end
(* the clauses of a switch statement after its '{' *)
with parse_xclauses (n : nat) (w2f : bool) (ts : list token) (acc : list (option expr * list xstmt)) {struct n}
  : res (list (option expr * list xstmt) * list token) :=
  match n with
  | O => NoFuel
  | S m =>
    match ts with
    | [] => Fail
    | k :: r =>
      if ty k =? tt_CloseBraceToken then Ok (rev acc, r)
      else if ty k =? tt_CaseToken then
        '(e, r1) <~ parse true prec_OpExpr r ;;
        r2 <~ expect tt_ColonToken r1 ;;
        '(l, r3) <~ parse_xcstmts m w2f r2 [] ;;
        parse_xclauses m w2f r3 ((Some e, l) :: acc)
      else if ty k =? tt_DefaultToken then
        r2 <~ expect tt_ColonToken r ;;
        '(l, r3) <~ parse_xcstmts m w2f r2 [] ;;
        parse_xclauses m w2f r3 ((None, l) :: acc)
      else Fail
    end
  end
(* the statements of a clause: up to the next case / default / '}' *)
with parse_xcstmts (n : nat) (w2f : bool) (ts : list token) (acc : list xstmt) {struct n} : res (list xstmt * list token) :=
  match n with
  | O => NoFuel
  | S m =>
    if ends_clause ts then Ok (rev acc, ts)
    else '(s, r) <~ parse_xstmt m w2f true ts ;; parse_xcstmts m w2f r (s :: acc)
  end.

Fixpoint parse_xmodule (n : nat) (w2f : bool) (ts : list token) (acc : list xstmt) {struct n} : res (list xstmt) :=
  match n with
  | O => NoFuel
  | S m =>
    match ts with
    | [] => Ok (rev acc)
    | _ => '(s, r) <~ parse_xstmt (S (length ts)) w2f true ts ;; parse_xmodule m w2f r (s :: acc)
    end
  end.

Definition parse_xprogram (w2f : bool) (ts : list token) : res (list xstmt) := parse_xmodule (S (length ts)) w2f ts [].

(* ---- String() ------------------------------------------------------------------------------------------------------- *)

Definition s_stmt : list Z := [83; 116; 109; 116].      (* "Stmt" *)
Definition join_sp (l : list (list Z)) : list Z := concat (map (fun x => 32 :: x) l).   (* " a b c" *)

Definition show_binding (b : list Z * option expr) : list Z :=
  [66; 105; 110; 100; 105; 110; 103; 40] ++ fst b ++
  match snd b with Some x => [32; 61; 32] ++ show x | None => [] end ++ [41].          (* Binding(a = x) *)

Fixpoint show_xstmt (s : xstmt) : list Z :=
  let block (l : list xstmt) := s_stmt ++ [40; 123] ++ join_sp (map show_xstmt l) ++ [32; 125; 41] in   (* Stmt({ ... }) *)
  match s with
  | XExpr e => show_stmt (SExpr e)
  | XEmpty => show_stmt SEmpty
  | XLabel n v => s_stmt ++ [40] ++ n ++ [32; 58; 32] ++ show_xstmt v ++ [41]
  | XBlock l => block l
  | XIf c v None => s_stmt ++ [40; 105; 102; 32] ++ show c ++ [32] ++ show_xstmt v ++ [41]
  | XIf c v (Some w) => s_stmt ++ [40; 105; 102; 32] ++ show c ++ [32] ++ show_xstmt v ++ [32; 101; 108; 115; 101; 32] ++ show_xstmt w ++ [41]
  | XWhile c v => s_stmt ++ [40; 119; 104; 105; 108; 101; 32] ++ show c ++ [32] ++ show_xstmt v ++ [41]
  | XFor i c p l =>
      s_stmt ++ [40; 102; 111; 114] ++
      match i with
      | FNone => []
      | FExpr e => 32 :: show e
      | FVar bs => 32 :: [68; 101; 99; 108; 40; 118; 97; 114] ++ join_sp (map show_binding bs) ++ [41]
      end ++ [32; 59] ++
      match c with Some e => 32 :: show e | None => [] end ++ [32; 59] ++
      match p with Some e => 32 :: show e | None => [] end ++ [32] ++ block l ++ [41]
  | XDo v c => s_stmt ++ [40; 100; 111; 32] ++ show_xstmt v ++ [32; 119; 104; 105; 108; 101; 32] ++ show c ++ [41]
  | XThrow e => s_stmt ++ [40; 116; 104; 114; 111; 119; 32] ++ show e ++ [41]
  | XBranch t lab => s_stmt ++ [40] ++ tok_bytes t ++ match lab with Some n => 32 :: n | None => [] end ++ [41]
  | XVar l => [68; 101; 99; 108; 40; 118; 97; 114] ++ join_sp (map show_binding l) ++ [41]          (* Decl(var Binding(a) ...) *)
  | XLex t l => [68; 101; 99; 108; 40] ++ tok_bytes t ++ join_sp (map show_binding l) ++ [41]      (* Decl(let Binding(a) ...) *)
  | XDebugger => s_stmt ++ [40; 100; 101; 98; 117; 103; 103; 101; 114; 41]
  | XWith c v => s_stmt ++ [40; 119; 105; 116; 104; 32] ++ show c ++ [32] ++ show_xstmt v ++ [41]
  | XTry b c f =>
      s_stmt ++ [40; 116; 114; 121; 32] ++ block b ++
      match c with
      | Some (n, l) => [32; 99; 97; 116; 99; 104] ++
                       match n with Some x => [32; 66; 105; 110; 100; 105; 110; 103; 40] ++ x ++ [41] | None => [] end ++ [32] ++ block l
      | None => []
      end ++
      match f with Some l => [32; 102; 105; 110; 97; 108; 108; 121; 32] ++ block l | None => [] end ++ [41]
  | XSwitch e cl =>
      s_stmt ++ [40; 115; 119; 105; 116; 99; 104; 32] ++ show e ++
      concat (map (fun c : option expr * list xstmt =>
                     [32; 67; 108; 97; 117; 115; 101; 40] ++
                     match fst c with Some x => [99; 97; 115; 101; 32] ++ show x | None => [100; 101; 102; 97; 117; 108; 116] end ++
                     join_sp (map show_xstmt (snd c)) ++ [41]) cl) ++ [41]
  end.
