(* JsExpr/Sound.v — whatever the Pratt model accepts is a spelling of the returned tree ([spells]),
   the consumed tokens are a prefix of the input, and the tree has at least the requested level. *)
From Coq Require Import ZifyBool.
From Verif Require Import Common.Base Common.Tactics Gen.PrattTable JsExpr.Syntax JsExpr.Pratt JsExpr.Spec JsExpr.TableFacts.

Lemma rbind_ok {A B} (r : res A) (k : A -> res B) b :
  rbind r k = Ok b -> exists a, r = Ok a /\ k a = Ok b.
Proof. destruct r; cbn [rbind]; try discriminate. eauto. Qed.

Lemma expect_ok t ts r : expect t ts = Ok r -> exists k, ts = k :: r /\ ty k = t.
Proof.
  destruct ts as [|k r0]; cbn [expect]; [discriminate|].
  destruct (ty k =? t) eqn:E; [|discriminate]. intros H. inversion H. subst. apply Z.eqb_eq in E. eauto.
Qed.

(* ---- comma lists ------------------------------------------------------------------------------------------- *)

Definition is_comma (t : expr) : bool := match t with EComma _ => true | _ => false end.

Lemma fold_comma_list l l0 : fold_left comma_snoc l (EComma l0) = EComma (l0 ++ l).
Proof.
  revert l0. induction l as [|a l IH]; intros l0; cbn [fold_left].
  - rewrite app_nil_r. reflexivity.
  - cbn [comma_snoc]. rewrite IH. rewrite <- app_assoc. reflexivity.
Qed.

Lemma fold_comma_start a b l : is_comma a = false -> fold_left comma_snoc (b :: l) a = EComma (a :: b :: l).
Proof.
  intros H. cbn [fold_left]. replace (comma_snoc a b) with (EComma [a; b]) by (destruct a; try reflexivity; discriminate).
  rewrite fold_comma_list. reflexivity.
Qed.

Lemma lvl_not_comma t : prec_OpAssign <= lvl t -> is_comma t = false.
Proof. destruct t; try reflexivity. cbn [lvl]. vm_compute. intros H. exfalso. apply H. reflexivity. Qed.

(* the body of a parenthesised list of arguments *)
Definition group_body (l : list expr) : expr :=
  match l with
  | [x] => x
  | _ => EComma l
  end.

(* ---- the cover grammar without '=>': a non-empty list without a trailing comma -------------------------------- *)

Inductive spells_cover : list token -> list expr -> Prop :=
| SC_last ts a kc :
    spells true ts a -> prec_OpAssign <= lvl a -> ty kc = tt_CloseParenToken ->
    spells_cover (ts ++ [kc]) [a]
| SC_more ts a km rest l :
    spells true ts a -> prec_OpAssign <= lvl a -> ty km = tt_CommaToken ->
    spells_cover rest l ->
    spells_cover (ts ++ km :: rest) (a :: l).

Lemma cover_extend : forall ats l, spells_cover ats l ->
  forall xs x km0, spells true xs x -> ty km0 = tt_CommaToken ->
  exists ts kc, ats = ts ++ [kc] /\ ty kc = tt_CloseParenToken /\
                spells true (xs ++ km0 :: ts) (fold_left comma_snoc l x).
Proof.
  induction 1 as [ts a kc Ha Hl Hkc|ts a km rest l Ha Hl Hkm Hrest IH]; intros xs x km0 Hx Hk0.
  - exists ts, kc. split; [reflexivity|]. split; [exact Hkc|]. cbn [fold_left].
    destruct (sview_comma true) as [pL [pS [pN Ev]]]. rewrite <- Hk0 in Ev.
    pose proof (sfact_all true (ty km0)) as HF. rewrite Ev in HF. cbn [sfact] in HF. b2p.
    eapply SP_comma; eauto. lia.
  - destruct (sview_comma true) as [pL [pS [pN Ev]]]. rewrite <- Hk0 in Ev.
    pose proof (sfact_all true (ty km0)) as HF. rewrite Ev in HF. cbn [sfact] in HF. b2p.
    assert (Hxa : spells true (xs ++ km0 :: ts) (comma_snoc x a)).
    { eapply SP_comma; eauto. lia. }
    destruct (IH (xs ++ km0 :: ts) (comma_snoc x a) km Hxa Hkm) as [ts2 [kc [Hsh [Hkc Hsp]]]].
    exists (ts ++ km :: ts2), kc. split; [rewrite Hsh; rewrite <- app_assoc; reflexivity|].
    split; [exact Hkc|]. cbn [fold_left]. replace (xs ++ km0 :: ts ++ km :: ts2) with ((xs ++ km0 :: ts) ++ km :: ts2)
      by (rewrite <- app_assoc; reflexivity). exact Hsp.
Qed.

Lemma cover_group ats l : spells_cover ats l ->
  exists ts kc, ats = ts ++ [kc] /\ ty kc = tt_CloseParenToken /\
                spells true ts (group_body l) /\ prec_OpExpr <= lvl (group_body l).
Proof.
  intros H. inversion H as [ts a kc Ha Hl Hkc|ts a km rest l' Ha Hl Hkm Hrest]; subst.
  - exists ts, kc. split; [reflexivity|]. split; [exact Hkc|]. split; [exact Ha|].
    cbn [group_body]. pose proof prec_order. lia.
  - destruct (cover_extend _ _ Hrest ts a km Ha Hkm) as [ts2 [kc [Hsh [Hkc Hsp]]]].
    exists (ts ++ km :: ts2), kc. split; [rewrite Hsh; rewrite <- app_assoc; reflexivity|].
    split; [exact Hkc|].
    destruct l' as [|b l']; [inversion Hrest|].
    rewrite fold_comma_start in Hsp.
    + split; [exact Hsp|]. cbn [group_body lvl]. lia.
    + apply lvl_not_comma. exact Hl.
Qed.

(* ---- the main induction ------------------------------------------------------------------------------------- *)

Definition sound_expr (f : nat) : Prop :=
  forall inf prec ts t rest,
    parse_expr f inf prec ts = Ok (t, rest) -> prec <= prec_OpUnary ->
    exists pre, ts = pre ++ rest /\ spells inf pre t /\ prec <= lvl t.

Definition sound_suffix (f : nat) : Prop :=
  forall inf left prec ts t rest pre0,
    parse_suffix f inf left prec (lvl left) ts = Ok (t, rest) -> prec <= prec_OpUnary -> prec <= lvl left ->
    spells inf pre0 left ->
    exists pre, ts = pre ++ rest /\ spells inf (pre0 ++ pre) t /\ prec <= lvl t.

Definition next_close (ts : list token) : bool :=
  match ts with k :: _ => ty k =? tt_CloseParenToken | [] => false end.

Definition sound_cover (f : nat) : Prop :=
  forall ts acc tc l rest,
    parse_cover f ts acc tc = Ok (l, false, rest) ->
    exists pre l', ts = pre ++ rest /\ l = rev acc ++ l' /\
      ((l' = [] /\ tc = false /\ exists kc, pre = [kc] /\ ty kc = tt_CloseParenToken) \/ spells_cover pre l').

Definition sound_args (f : nat) : Prop :=
  forall ts acc l rest,
    parse_args f ts acc = Ok (l, rest) ->
    exists pre l', ts = pre ++ rest /\ l = rev acc ++ l' /\ spells_args pre l'.

Lemma app_assoc4 {A} (a : list A) b c d : (a ++ b :: c) ++ d = a ++ b :: c ++ d.
Proof. rewrite <- app_assoc. reflexivity. Qed.

Ltac list_eq := repeat first [rewrite <- app_assoc | progress (cbn [app])]; reflexivity.
Ltac list_cast H :=
  match type of H with
  | spells _ ?a _ => match goal with |- spells _ ?b _ => replace b with a by list_eq; exact H end
  end.
Ltac finish H Hle := split; [list_eq|]; split; [list_cast H|exact Hle].

Ltac ret_left H := inversion H; subst; exists []; rewrite ?app_nil_r; repeat split; auto.

Lemma sound_all f : sound_expr f /\ sound_suffix f /\ sound_args f /\ sound_cover f.
Proof.
  induction f as [|f [IHe [IHs [IHa IHc]]]].
  { repeat split; intros *; cbn; discriminate. }
  pose proof prec_order as PO.
  assert (He : sound_expr (S f)).
  { intros inf prec ts t rest H Hp. destruct ts as [|k rest0]; [discriminate|].
    rewrite parse_expr_step in H.
    pose proof (pfact_all k) as PF. destruct (pview k) as [e|pG pO pS pN|pG pS| | |] eqn:EV; cbn [pfact] in PF; b2p.
    - (* leaf *)
      destruct (pview_leaf_lvl _ _ EV) as [Hl _].
      rewrite <- Hl in H. destruct (IHs inf e prec rest0 t rest [k] H Hp) as [pre [E [Hs Hle]]].
      + lia.
      + apply SP_leaf. exact EV.
      + exists (k :: pre). subst rest0. finish Hs Hle.
    - (* prefix operator *)
      destruct (pG <? prec); [discriminate|].
      apply rbind_ok in H. destruct H as [[x r] [Hx H]].
      destruct (IHe inf pS rest0 x r Hx) as [prx [E [Hsx Hlx]]]; [lia|].
      assert (Hlv : lvl (EUnary pO x) = pN).
      { cbn [lvl]. destruct (is_update_op pO); lia. }
      rewrite <- Hlv in H.
      destruct (IHs inf (EUnary pO x) prec r t rest (k :: prx) H Hp) as [pre [E2 [Hs Hle]]].
      + cbn [lvl]. destruct (is_update_op pO); lia.
      + eapply SP_prefix; eauto.
      + exists (k :: prx ++ pre). subst rest0 r. finish Hs Hle.
    - (* parenthesis *)
      unfold group_tail in H. destruct (pG <? prec) eqn:EG.
      + apply rbind_ok in H. destruct H as [[x r] [Hx H]].
        apply rbind_ok in H. destruct H as [r' [Hr H]]. apply expect_ok in Hr. destruct Hr as [kc [Er Hkc]].
        destruct (IHe true pS rest0 x r Hx) as [prx [E [Hsx Hlx]]]; [lia|].
        change primary with (lvl (EGroup x)) in H.
        destruct (IHs inf (EGroup x) prec r' t rest (k :: prx ++ [kc]) H Hp) as [pre [E2 [Hs Hle]]].
        * cbn [lvl]. lia.
        * eapply SP_group; eauto.
        * exists ((k :: prx ++ [kc]) ++ pre). subst rest0 r r'. finish Hs Hle.
      + apply rbind_ok in H. destruct H as [[[args tc] r] [Ha H]].
        assert (Hgo : args <> [] /\ tc = false /\ parse_suffix f inf (EGroup (group_body args)) prec primary r = Ok (t, rest)).
        { assert (Hb : match args with
                       | [] => Fail
                       | _ => if tc then Fail else
                              match args with
                              | [x] => parse_suffix f inf (EGroup x) prec primary r
                              | _ => parse_suffix f inf (EGroup (EComma args)) prec primary r
                              end
                       end = Ok (t, rest)).
          { destruct r as [|a r0]; [exact H|]. destruct (ty a =? tt_ArrowToken); [discriminate|exact H]. }
          destruct args as [|x [|y l]]; [discriminate| |]; destruct tc; try discriminate;
            (split; [discriminate|]); split; auto. }
        destruct Hgo as [Hne [Etc H']]. subst tc.
        destruct (IHc rest0 [] false args r Ha) as [pra [l' [E [El Hsa]]]]. cbn in El. subst l'.
        destruct Hsa as [[El _]|Hsa]; [contradiction|].
        destruct (cover_group pra args Hsa) as [ts0 [kc [Hsh [Hkc [Hsb Hlb]]]]].
        change primary with (lvl (EGroup (group_body args))) in H'.
        assert (Hg : spells inf (k :: pra) (EGroup (group_body args))).
        { rewrite Hsh. eapply SP_group; eauto. lia. }
        destruct (IHs inf (EGroup (group_body args)) prec r t rest (k :: pra) H' Hp) as [pre [E2 [Hs Hle]]].
        * cbn [lvl]. lia.
        * exact Hg.
        * exists ((k :: pra) ++ pre). subst rest0 r. finish Hs Hle.
    - destruct (regexp_fails rest0); discriminate.
    - discriminate.
    - discriminate. }
  assert (Hs : sound_suffix (S f)).
  { intros inf left prec ts t rest pre0 H Hp Hpl Hleft. destruct ts as [|k rest0].
    { rewrite parse_suffix_nil in H. ret_left H. }
    rewrite parse_suffix_step in H.
    pose proof (sfact_all inf (ty k)) as SF.
    destruct (sview inf (ty k)) as [pL pR pX pS pN|pR pC|pR pC pS|pL pR pC|pL pR pO pN|pL pR pS pE pN|pL pS pN| | |] eqn:EV;
      cbn [sfact] in SF; b2p.
    - (* binary *)
      destruct (pL <? prec) eqn:EL. { ret_left H. }
      destruct (okl_of pR pX (lvl left)) eqn:Eok; cbn [negb] in H; [|discriminate].
      apply rbind_ok in H. destruct H as [[y r] [Hy H]].
      destruct (IHe inf pS rest0 y r Hy) as [pry [E [Hsy Hly]]]; [lia|].
      assert (Hlv : lvl (EBinary (ty k) left y) = pN). { cbn [lvl]. eapply bin_level_of. exact EV. }
      rewrite <- Hlv in H.
      destruct (IHs inf (EBinary (ty k) left y) prec r t rest (pre0 ++ k :: pry) H Hp) as [pre [E2 [Hsp Hle]]].
      + lia.
      + eapply SP_binary; eauto.
      + exists (k :: pry ++ pre). subst rest0 r. finish Hsp Hle.
    - (* dot *)
      destruct (lvl left <? pR) eqn:ER; [discriminate|].
      destruct rest0 as [|n r]; [discriminate|].
      destruct (ty n =? tt_PrivateIdentifierToken) eqn:EP; [discriminate|].
      destruct (is_identifier_name (ty n)) eqn:EI; [|discriminate].
      replace (cap pC (lvl left)) with (lvl (EDot left (data n))) in H by (cbn [lvl]; congruence).
      destruct (IHs inf (EDot left (data n)) prec r t rest (pre0 ++ [k; n]) H Hp) as [pre [E2 [Hsp Hle]]].
      + cbn [lvl]. unfold cap. destruct (prec_OpMember <? lvl left); lia.
      + eapply SP_dot; eauto. lia. lia.
      + exists (k :: n :: pre). subst r. finish Hsp Hle.
    - (* index *)
      destruct (lvl left <? pR) eqn:ER; [discriminate|].
      apply rbind_ok in H. destruct H as [[y r] [Hy H]].
      apply rbind_ok in H. destruct H as [r' [Hr H]]. apply expect_ok in Hr. destruct Hr as [kc [Er Hkc]].
      destruct (IHe true pS rest0 y r Hy) as [pry [E [Hsy Hly]]]; [lia|].
      replace (cap pC (lvl left)) with (lvl (EIndex left y)) in H by (cbn [lvl]; congruence).
      destruct (IHs inf (EIndex left y) prec r' t rest (pre0 ++ k :: pry ++ [kc]) H Hp) as [pre [E2 [Hsp Hle]]].
      + cbn [lvl]. unfold cap. destruct (prec_OpMember <? lvl left); lia.
      + eapply SP_index; eauto. lia.
      + exists (k :: pry ++ kc :: pre). subst rest0 r r'. finish Hsp Hle.
    - (* call *)
      destruct (pL <? prec) eqn:EL. { ret_left H. }
      destruct (lvl left <? pR) eqn:ER; [discriminate|].
      apply rbind_ok in H. destruct H as [[args r] [Ha H]].
      destruct (IHa rest0 [] args r Ha) as [pra [l' [E [El Hsa]]]]. cbn in El. subst l'.
      replace (cap pC (lvl left)) with (lvl (ECall left args)) in H by (cbn [lvl]; congruence).
      destruct (IHs inf (ECall left args) prec r t rest (pre0 ++ k :: pra) H Hp) as [pre [E2 [Hsp Hle]]].
      + cbn [lvl]. unfold cap. destruct (prec_OpCall <? lvl left); lia.
      + eapply SP_call; eauto. lia.
      + exists (k :: pra ++ pre). subst rest0 r. finish Hsp Hle.
    - (* postfix *)
      destruct (lt k || (pL <? prec)) eqn:EL. { ret_left H. }
      apply orb_false_iff in EL. destruct EL as [Elt EL].
      destruct (lvl left <? pR) eqn:ER; [discriminate|].
      assert (Hlv : lvl (EUnary pO left) = pN). { cbn [lvl]. rewrite (postfix_is_update _ H2). lia. }
      rewrite <- Hlv in H.
      destruct (IHs inf (EUnary pO left) prec rest0 t rest (pre0 ++ [k]) H Hp) as [pre [E2 [Hsp Hle]]].
      + lia.
      + eapply SP_postfix; eauto. lia.
      + exists (k :: pre). subst rest0. finish Hsp Hle.
    - (* conditional *)
      destruct (pL <? prec) eqn:EL. { ret_left H. }
      destruct (lvl left <? pR) eqn:ER; [discriminate|].
      apply rbind_ok in H. destruct H as [[x r] [Hx H]].
      apply rbind_ok in H. destruct H as [r' [Hr H]]. apply expect_ok in Hr. destruct Hr as [kc [Er Hkc]].
      apply rbind_ok in H. destruct H as [[y r''] [Hy H]].
      destruct (IHe true pS rest0 x r Hx) as [prx [E [Hsx Hlx]]]; [lia|].
      destruct (IHe inf pE r' y r'' Hy) as [pry [E' [Hsy Hly]]]; [lia|].
      assert (Hlv : lvl (ECond left x y) = pN). { cbn [lvl]. lia. }
      rewrite <- Hlv in H.
      destruct (IHs inf (ECond left x y) prec r'' t rest (pre0 ++ k :: prx ++ kc :: pry) H Hp) as [pre [E2 [Hsp Hle]]].
      + lia.
      + eapply SP_cond; eauto. lia.
      + exists (k :: prx ++ kc :: pry ++ pre). subst rest0 r r' r''. finish Hsp Hle.
    - (* comma *)
      destruct (pL <? prec) eqn:EL. { ret_left H. }
      apply rbind_ok in H. destruct H as [[y r] [Hy H]].
      destruct (IHe inf pS rest0 y r Hy) as [pry [E [Hsy Hly]]]; [lia|].
      assert (Hlv : lvl (comma_snoc left y) = pN). { destruct left; cbn [comma_snoc lvl]; lia. }
      rewrite <- Hlv in H.
      destruct (IHs inf (comma_snoc left y) prec r t rest (pre0 ++ k :: pry) H Hp) as [pre [E2 [Hsp Hle]]].
      + lia.
      + eapply SP_comma; eauto.
      + exists (k :: pry ++ pre). subst rest0 r. finish Hsp Hle.
    - ret_left H.
    - ret_left H.
    - discriminate. }
  assert (Ha : sound_args (S f)).
  { intros ts acc l rest H. rewrite parse_args_step in H. destruct ts as [|k r]; [discriminate|].
    destruct (ty k =? tt_CloseParenToken) eqn:EC.
    { inversion H; subst. apply Z.eqb_eq in EC. exists [k], []. rewrite app_nil_r. split; [reflexivity|]. split; [reflexivity|].
      apply SA_end. exact EC. }
    destruct (ty k =? tt_EllipsisToken); [discriminate|].
    apply rbind_ok in H. destruct H as [[a r1] [Hx H]].
    destruct (IHe true pratt_args_level (k :: r) a r1 Hx) as [prx [E [Hsx Hlx]]]; [vm_compute; discriminate|].
    destruct r1 as [|c r2]; [discriminate|].
    destruct (ty c =? tt_CloseParenToken) eqn:EC2.
    { inversion H; subst. apply Z.eqb_eq in EC2. exists (prx ++ [c]), [a]. split; [rewrite E; list_eq|].
      split; [list_eq|]. apply SA_last; auto. }
    destruct (ty c =? tt_CommaToken) eqn:EM; [|discriminate]. apply Z.eqb_eq in EM.
    destruct (IHa r2 (a :: acc) l rest H) as [pra [l' [E2 [El Hsa]]]].
    exists (prx ++ c :: pra), (a :: l'). split; [rewrite E, E2; list_eq|].
    split; [rewrite El; cbn [rev]; list_eq|]. apply SA_more; auto. }
  assert (Hc : sound_cover (S f)).
  { intros ts acc tc l rest H. rewrite parse_cover_step in H. destruct ts as [|k r]; [discriminate|].
    destruct (ty k =? tt_CloseParenToken) eqn:EC.
    { inversion H; subst. apply Z.eqb_eq in EC. exists [k], []. rewrite app_nil_r. split; [reflexivity|]. split; [reflexivity|].
      left. split; [reflexivity|]. split; [reflexivity|]. exists k. auto. }
    destruct (ty k =? tt_EllipsisToken); [discriminate|].
    apply rbind_ok in H. destruct H as [[a r1] [Hx H]].
    destruct (IHe true prec_OpAssign (k :: r) a r1 Hx) as [prx [E [Hsx Hlx]]]; [lia|].
    destruct r1 as [|c r2]; [discriminate|].
    destruct (ty c =? tt_CommaToken) eqn:EM.
    { apply Z.eqb_eq in EM.
      destruct (IHc r2 (a :: acc) _ l rest H) as [pra [l' [E2 [El Hsa]]]].
      exists (prx ++ c :: pra), (a :: l'). split; [rewrite E, E2; list_eq|].
      split; [rewrite El; cbn [rev]; list_eq|]. right.
      destruct Hsa as [[_ [Etc [kc [Epre Hkc]]]]|Hsa].
      - exfalso. subst pra r2. cbn [app] in Etc. rewrite Hkc, Z.eqb_refl in Etc. discriminate.
      - apply SC_more; auto. }
    destruct (ty c =? tt_CloseParenToken) eqn:EC2; [|discriminate].
    inversion H; subst. apply Z.eqb_eq in EC2. exists (prx ++ [c]), [a]. split; [rewrite E; list_eq|].
    split; [list_eq|]. right. apply SC_last; auto. }
  auto.
Qed.

Theorem parse_sound inf prec ts t rest :
  parse inf prec ts = Ok (t, rest) -> prec <= prec_OpUnary ->
  exists pre, ts = pre ++ rest /\ spells inf pre t /\ prec <= lvl t.
Proof. intros H. exact (proj1 (sound_all _) _ _ _ _ _ H). Qed.
