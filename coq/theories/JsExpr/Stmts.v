(* JsExpr/Stmts.v — the statement layer of the model (parse_stmt / parse_module: the expression-statement,
   empty-statement and labelled-statement arms of parseStmt and the loop of parseModule) against the standard's
   rules for where an ExpressionStatement ends:
     ExpressionStatement : [lookahead ∉ { {, function, async function, class, let [ }] Expression ;
   with automatic semicolon insertion: the ';' may be left out before a token that is separated from the
   expression by a line terminator and cannot continue it, and at the end of the input.  *)
From Coq Require Import ZifyBool.
From Verif Require Import Common.Base Common.Tactics Gen.PrattTable JsExpr.Syntax JsExpr.Pratt JsExpr.Grammar
  JsExpr.Spec JsExpr.TableFacts JsExpr.Fuel JsExpr.Sound JsExpr.Complete JsExpr.Equiv JsExpr.Proofs.

(* `let` followed by a token that starts a binding (identifier, yield, await, '[', '{') begins a lexical declaration,
   not an expression statement; `let [` is the standard's lookahead restriction, the others are no expressions anyway *)
Definition binding_start (t : Z) : bool :=
  is_identifier t || (t =? tt_YieldToken) || (t =? tt_AwaitToken) || (t =? tt_OpenBracketToken) || (t =? tt_OpenBraceToken).

Definition let_decl_start (ts : list token) : bool :=
  match ts with
  | k :: c :: _ => (ty k =? tt_LetToken) && binding_start (ty c)
  | _ => false
  end.

(* ---- the first token ------------------------------------------------------------------------------------------------- *)

Lemma ident_leaf k : starts_expr k -> stmt_keyword (ty k) = false -> is_identifier (ty k) = true ->
  pview k = PLeaf (EVar (data k)).
Proof.
  intros Hst Hkw Ei. unfold starts_expr in Hst. unfold pview in *.
  destruct ((ty k =? tt_DivToken) || (ty k =? tt_DivEqToken)); [contradiction|].
  rewrite Ei in *. cbn [andb] in *.
  destruct (negb (ty k =? tt_AsyncToken)) eqn:Ea; [reflexivity|].
  apply negb_false_iff in Ea. apply Z.eqb_eq in Ea. rewrite Ea in Hkw. vm_compute in Hkw. discriminate.
Qed.

(* parseIdentifierExpression: after an identifier the statement arm enters the suffix loop directly *)
Lemma suffix_at_fuel k e rest t r' :
  pview k = PLeaf e -> parse true prec_OpExpr (k :: rest) = Ok (t, r') ->
  parse_suffix (fuel_for rest) true e prec_OpExpr primary rest = Ok (t, r').
Proof.
  intros Hpv Hp. unfold parse in Hp.
  assert (Hf : fuel_for (k :: rest) = S (S (fuel_for rest))) by (unfold fuel_for; cbn [length]; lia).
  rewrite Hf, parse_expr_step, Hpv in Hp.
  destruct (mono_suffix (fuel_for rest) (S (fuel_for rest)) true e prec_OpExpr primary rest ltac:(lia)) as [E|E].
  - exfalso. exact (suffix_has_fuel _ _ _ _ _ E).
  - rewrite E. exact Hp.
Qed.

Lemma colon_stops k e c r :
  pview k = PLeaf e -> ty c = tt_ColonToken -> parse true prec_OpExpr (k :: c :: r) = Ok (e, c :: r).
Proof.
  intros Hpv Ec. unfold parse.
  assert (Hf : fuel_for (k :: c :: r) = S (S (fuel_for (c :: r)))) by (unfold fuel_for; cbn [length]; lia).
  rewrite Hf, parse_expr_step, Hpv. rewrite parse_suffix_step, Ec.
  rewrite sview_close by (cbn; auto). reflexivity.
Qed.

Lemma single_leaf k e t r' : pview k = PLeaf e -> parse true prec_OpExpr [k] = Ok (t, r') -> t = e /\ r' = [].
Proof.
  intros Hpv Hp. apply (suffix_at_fuel _ _ _ _ _ Hpv) in Hp. cbn in Hp. inversion Hp. auto.
Qed.

(* ---- the expression arm of parseStmt -------------------------------------------------------------------------------- *)

(* If the expression parser reads t from a token list that starts an expression (and is not the start of a `let`
   declaration, nor a label), parseStmt builds the ExprStmt of t and then requires a terminator: ';', '}', the end
   of the input or a line break. *)
Lemma stmt_expr_arm m k rest t r' :
  starts_expr k -> parse true prec_OpExpr (k :: rest) = Ok (t, r') ->
  let_decl_start (k :: rest) = false ->
  ((length r' < length rest)%nat \/ forall c r, rest = c :: r -> ty c <> tt_ColonToken) ->
  parse_stmt (S m) (k :: rest) = (if stmt_end_ok r' then Ok (SExpr t, skip_semi true r') else Fail).
Proof.
  intros Hst Hp Hlet Hcol. destruct (starts_not_stmt _ Hst) as [Hkw Hsemi].
  cbn [parse_stmt]. rewrite Hsemi, Hkw.
  destruct (ty k =? tt_LetToken) eqn:El.
  - assert (Ei : is_identifier (ty k) = true) by (apply Z.eqb_eq in El; rewrite El; reflexivity).
    pose proof (ident_leaf _ Hst Hkw Ei) as Hpv.
    destruct rest as [|c r].
    + destruct (single_leaf _ _ _ _ Hpv Hp) as [Et Er]. subst. reflexivity.
    + cbn [let_decl_start] in Hlet. rewrite El in Hlet. cbn [andb] in Hlet. unfold binding_start in Hlet.
      rewrite Hlet. rewrite (suffix_at_fuel _ _ _ _ _ Hpv Hp). reflexivity.
  - destruct (is_identifier (ty k)) eqn:Ei.
    + pose proof (ident_leaf _ Hst Hkw Ei) as Hpv.
      destruct rest as [|c r].
      * destruct (single_leaf _ _ _ _ Hpv Hp) as [Et Er]. subst. reflexivity.
      * destruct (ty c =? tt_ColonToken) eqn:Ec.
        { exfalso. apply Z.eqb_eq in Ec. rewrite (colon_stops _ _ _ _ Hpv Ec) in Hp. inversion Hp; subst.
          destruct Hcol as [Hl|Hn]; [lia|exact (Hn c r eq_refl Ec)]. }
        rewrite (suffix_at_fuel _ _ _ _ _ Hpv Hp). reflexivity.
    + unfold parse in Hp. rewrite Hp. reflexivity.
Qed.

Lemma sview_semicolon inf : sview inf tt_SemicolonToken = ANone.
Proof. destruct inf; vm_compute; reflexivity. Qed.

Lemma expression_then inf xs x rest :
  derives inf Expression xs x -> ncont inf prec_OpExpr rest = true ->
  parse inf prec_OpExpr (xs ++ rest) = Ok (x, rest) /\ exists k xs', xs = k :: xs' /\ starts_expr k.
Proof.
  intros d Hn. destruct (derives_spells _ _ _ _ d) as [Hs Hi]. cbn [inv code_level] in Hi.
  split; [|exact (spells_first _ _ _ Hs)].
  apply parse_complete_rest; auto. pose proof prec_order. lia.
Qed.

Lemma tail_shorter {A} (xs' : list A) c rest : xs' <> [] -> (length (c :: rest) < length (xs' ++ c :: rest))%nat.
Proof. intros H. destruct xs'; [contradiction|]. rewrite app_length. cbn [length]. lia. Qed.

(* The statement ends at a ';' — on the same line or after a line break (the case repaired by 5e610dc). *)
Theorem stmt_ends_at_semicolon_proof :
  forall m xs x k rest, derives true Expression xs x -> let_decl_start (xs ++ k :: rest) = false ->
    ty k = tt_SemicolonToken ->
    parse_stmt (S m) (xs ++ k :: rest) = Ok (SExpr x, rest).
Proof.
  intros m xs x k rest d Hlet Hk.
  assert (Hn : ncont true prec_OpExpr (k :: rest) = true) by (cbn [ncont]; rewrite Hk, sview_semicolon; reflexivity).
  destruct (expression_then _ _ _ _ d Hn) as [Hp [k0 [xs' [E Hst]]]]. subst xs. cbn [app] in *.
  rewrite (stmt_expr_arm m k0 (xs' ++ k :: rest) x (k :: rest) Hst Hp Hlet).
  - cbn [stmt_end_ok skip_semi]. rewrite Hk, Z.eqb_refl. rewrite !orb_true_r. cbn [orb andb]. reflexivity.
  - destruct xs' as [|a xs'']; [right|left; apply tail_shorter; discriminate].
    cbn [app]. intros c r E. inversion E; subst. rewrite Hk. vm_compute. discriminate.
Qed.

(* The statement ends at a line break when the next token cannot continue the expression (it has no arm in the suffix
   loop, or it is a ++ / -- , which may not be separated from its operand by a line break). *)
Theorem stmt_ends_at_line_break_proof :
  forall m xs x c rest, derives true Expression xs x -> let_decl_start (xs ++ c :: rest) = false ->
    lt c = true -> ncont true prec_OpExpr (c :: rest) = true ->
    ty c <> tt_SemicolonToken -> ty c <> tt_ColonToken ->
    parse_stmt (S m) (xs ++ c :: rest) = Ok (SExpr x, c :: rest).
Proof.
  intros m xs x c rest d Hlet Hlt Hn Hns Hnc.
  destruct (expression_then _ _ _ _ d Hn) as [Hp [k0 [xs' [E Hst]]]]. subst xs. cbn [app] in *.
  rewrite (stmt_expr_arm m k0 (xs' ++ c :: rest) x (c :: rest) Hst Hp Hlet).
  - cbn [stmt_end_ok skip_semi]. rewrite Hlt. cbn [orb].
    apply Z.eqb_neq in Hns. rewrite Hns, andb_false_r. reflexivity.
  - destruct xs' as [|a xs'']; [right|left; apply tail_shorter; discriminate].
    cbn [app]. intros c' r E. inversion E; subst. exact Hnc.
Qed.

(* ... and at the end of the input. *)
Theorem stmt_ends_at_eof_proof :
  forall m xs x, derives true Expression xs x -> let_decl_start xs = false ->
    parse_stmt (S m) xs = Ok (SExpr x, []).
Proof.
  intros m xs x d Hlet.
  destruct (expression_then _ _ _ [] d eq_refl) as [Hp [k0 [xs' [E Hst]]]]. rewrite app_nil_r in Hp. subst xs.
  rewrite (stmt_expr_arm m k0 xs' x [] Hst Hp Hlet).
  - reflexivity.
  - destruct xs' as [|a xs'']; [right; intros; discriminate|left; cbn [length]; lia].
Qed.

(* Without a terminator there is no statement: a token on the same line that cannot continue the expression and is
   neither ';' nor '}' is an error. *)
Theorem stmt_needs_terminator_proof :
  forall m xs x c rest, derives true Expression xs x -> let_decl_start (xs ++ c :: rest) = false ->
    lt c = false -> ncont true prec_OpExpr (c :: rest) = true ->
    ty c <> tt_SemicolonToken -> ty c <> tt_CloseBraceToken -> ty c <> tt_ColonToken ->
    parse_stmt (S m) (xs ++ c :: rest) = Fail.
Proof.
  intros m xs x c rest d Hlet Hlt Hn Hns Hnb Hnc.
  destruct (expression_then _ _ _ _ d Hn) as [Hp [k0 [xs' [E Hst]]]]. subst xs. cbn [app] in *.
  rewrite (stmt_expr_arm m k0 (xs' ++ c :: rest) x (c :: rest) Hst Hp Hlet).
  - cbn [stmt_end_ok]. rewrite Hlt. apply Z.eqb_neq in Hns. apply Z.eqb_neq in Hnb. rewrite Hns, Hnb. reflexivity.
  - destruct xs' as [|a xs'']; [right|left; apply tail_shorter; discriminate].
    cbn [app]. intros c' r E. inversion E; subst. exact Hnc.
Qed.

(* ---- programs: lists of expression statements, empty statements and labelled statements ------------------------------ *)

(* an expression statement in front of [rest] *)
Definition estmt (xs : list token) (x : expr) (rest : list token) : Prop :=
  derives true Expression xs x /\ let_decl_start (xs ++ rest) = false.

(* a ';' on the line of the preceding token *)
Definition same_line_semi (ts : list token) : bool :=
  match ts with
  | c :: _ => negb (lt c) && (ty c =? tt_SemicolonToken)
  | [] => false
  end.

(* an identifier that can be a label: not `let`, not a word with a statement arm of its own (async) *)
Definition label_tok (k : token) : Prop :=
  is_identifier (ty k) = true /\ ty k <> tt_LetToken /\ stmt_keyword (ty k) = false.

(* [one ts s rest]: the statement s, spelled by the tokens of ts in front of rest.
     ExpressionStatement : Expression ;      with automatic semicolon insertion (O_asi, O_eof)
     EmptyStatement : ;
     LabelledStatement : LabelIdentifier : Statement
   O_empty and O_label leave out one shape: the statement directly followed by a ';' on the same line (`;;`, `l: x;;`),
   where the code drops that EmptyStatement (KNOWN_FINDINGS c03-tree:empty-statement-same-line). *)
Inductive one : list token -> stmt -> list token -> Prop :=
| O_eof xs x : estmt xs x [] -> one xs (SExpr x) []
| O_semi xs x k rest : estmt xs x (k :: rest) -> ty k = tt_SemicolonToken -> one (xs ++ k :: rest) (SExpr x) rest
| O_asi xs x c rest :
    estmt xs x (c :: rest) -> lt c = true -> ncont true prec_OpExpr (c :: rest) = true ->
    ty c <> tt_SemicolonToken -> ty c <> tt_ColonToken ->
    one (xs ++ c :: rest) (SExpr x) (c :: rest)
| O_empty k rest : ty k = tt_SemicolonToken -> same_line_semi rest = false -> one (k :: rest) SEmpty rest
| O_label k c ts s rest :
    label_tok k -> ty c = tt_ColonToken -> one ts s rest -> same_line_semi rest = false ->
    one (k :: c :: ts) (SLabel (data k) s) rest.

(* StatementList *)
Inductive prog : list token -> list stmt -> Prop :=
| PG_nil : prog [] []
| PG_cons ts s rest l : one ts s rest -> prog rest l -> prog ts (s :: l).

Lemma derives_nonempty inf n xs x : derives inf n xs x -> (1 <= length xs)%nat.
Proof.
  intros d. destruct (derives_spells _ _ _ _ d) as [Hs _]. destruct (spells_first _ _ _ Hs) as [k0 [xs' [E _]]].
  subst xs. cbn [length]. lia.
Qed.

Lemma skip_same_line rest : same_line_semi rest = false -> skip_semi false rest = rest.
Proof.
  intros Hsl. destruct rest as [|c r]; [reflexivity|]. cbn [skip_semi same_line_semi] in *. cbn [orb]. rewrite Hsl. reflexivity.
Qed.

Lemma identifier_not_semicolon t : is_identifier t = true -> (t =? tt_SemicolonToken) = false.
Proof. intros H. apply Z.eqb_neq. intros E. rewrite E in H. vm_compute in H. discriminate. Qed.

(* parseStmt reads exactly that statement and stops in front of rest *)
Lemma one_stmt ts s rest : one ts s rest ->
  (length rest < length ts)%nat /\ forall m, (length ts <= S m)%nat -> parse_stmt (S m) ts = Ok (s, rest).
Proof.
  induction 1 as [xs x [d Hlet]|xs x k rest [d Hlet] Hk|xs x c rest [d Hlet] Hlt Hn Hns Hnc|k rest Hk Hsl
                 |k c ts s rest [Hi [Hnl Hkw]] Hc Hone [IHl IH] Hsl].
  - pose proof (derives_nonempty _ _ _ _ d) as Hl. rewrite app_nil_r in Hlet.
    split; [cbn [length]; lia|]. intros m _. apply stmt_ends_at_eof_proof; assumption.
  - pose proof (derives_nonempty _ _ _ _ d) as Hl.
    split; [rewrite app_length; cbn [length]; lia|]. intros m _. apply stmt_ends_at_semicolon_proof; assumption.
  - pose proof (derives_nonempty _ _ _ _ d) as Hl.
    split; [rewrite app_length; cbn [length]; lia|]. intros m _. apply stmt_ends_at_line_break_proof; assumption.
  - split; [cbn [length]; lia|]. intros m _. cbn [parse_stmt]. rewrite Hk, Z.eqb_refl.
    rewrite (skip_same_line _ Hsl). reflexivity.
  - split; [cbn [length]; lia|]. intros m Hm. cbn [parse_stmt].
    rewrite (identifier_not_semicolon _ Hi), Hkw. apply Z.eqb_neq in Hnl. rewrite Hnl, Hi, Hc, Z.eqb_refl.
    cbn [length] in Hm. destruct m as [|m']; [lia|].
    rewrite IH by lia. cbn [rbind]. rewrite (skip_same_line _ Hsl). reflexivity.
Qed.

Lemma parse_module_cons m k ts acc :
  parse_module (S m) (k :: ts) acc = '(s, r) <~ parse_stmt (S (length (k :: ts))) (k :: ts) ;; parse_module m r (s :: acc).
Proof. reflexivity. Qed.

Lemma prog_module ts l : prog ts l ->
  forall m acc, (length ts <= m)%nat -> parse_module (S m) ts acc = Ok (rev acc ++ l).
Proof.
  induction 1 as [|ts s rest l Hone Hp IH]; intros m acc Hm.
  - cbn. rewrite app_nil_r. reflexivity.
  - destruct (one_stmt _ _ _ Hone) as [Hl Hs].
    destruct ts as [|k ts']; [cbn [length] in Hl; lia|].
    rewrite parse_module_cons, (Hs (length (k :: ts'))) by lia. cbn [rbind].
    destruct m as [|m']; [cbn [length] in Hm; lia|].
    rewrite IH by lia. cbn [rev]. rewrite <- app_assoc. reflexivity.
Qed.

(* Every program made of expression statements, empty statements and labelled statements, each ExpressionStatement
   ended by a ';' (on any line), by a line break before a token that cannot continue it, or by the end of the input,
   is parsed to exactly that statement list. *)
Theorem program_of_statements_proof : forall ts l, prog ts l -> parse_program ts = Ok l.
Proof.
  intros ts l H. unfold parse_program. rewrite (prog_module _ _ H) by lia. reflexivity.
Qed.

(* one expression as a whole program: ExpressionStatement with its lookahead restriction *)
Theorem program_of_expression_full_proof :
  forall ts t, derives true Expression ts t -> let_decl_start ts = false -> parse_program ts = Ok [SExpr t].
Proof.
  intros ts t d Hlet. apply program_of_statements_proof. apply (PG_cons ts (SExpr t) []); [|apply PG_nil].
  apply O_eof. split; [exact d|]. rewrite app_nil_r. exact Hlet.
Qed.

(* ---- non-vacuity ------------------------------------------------------------------------------------------------------ *)

Definition semi (l : bool) : token := mkTok tt_SemicolonToken l [59].
Definition idl (c : Z) : token := mkTok tt_IdentifierToken true [c].

Definition colon : token := mkTok tt_ColonToken false [58].

(* `a ; b <newline> ; <newline> ; a : a <newline> c` *)
Definition prog_ex_tokens : list token := [ida; semi false; idb; semi true; semi true; ida; colon; ida; idl 99].
Definition prog_ex_stmts : list stmt := [SExpr va; SExpr vb; SEmpty; SLabel [97] (SExpr va); SExpr vc].

Example prog_example : parse_program prog_ex_tokens = Ok prog_ex_stmts.
Proof. vm_compute. reflexivity. Qed.

Example prog_example_derivable : prog prog_ex_tokens prog_ex_stmts.
Proof.
  assert (D : forall c l, derives true Expression [mkTok tt_IdentifierToken l [c]] (EVar [c])).
  { intros c l. eapply derives_chain_star; [apply (reachb_sound 22 Expression Primary); lazy; reflexivity|].
    apply (D_ident true (mkTok tt_IdentifierToken l [c])). split; [reflexivity|vm_compute; discriminate]. }
  unfold prog_ex_tokens, prog_ex_stmts.
  eapply PG_cons; [apply (O_semi [ida] va (semi false)); [split; [apply D|reflexivity]|reflexivity]|].
  eapply PG_cons; [apply (O_semi [idb] vb (semi true)); [split; [apply D|reflexivity]|reflexivity]|].
  eapply PG_cons; [apply O_empty; reflexivity|].
  eapply PG_cons.
  { apply (O_label ida colon [ida; idl 99] (SExpr va) [idl 99]).
    - repeat split; try reflexivity. vm_compute. discriminate.
    - reflexivity.
    - apply (O_asi [ida] va (idl 99) []); [split; [apply D|reflexivity]|reflexivity|vm_compute; reflexivity|vm_compute; discriminate|vm_compute; discriminate].
    - reflexivity. }
  eapply PG_cons; [|apply PG_nil]. apply (O_eof [idl 99] vc). split; [apply D|reflexivity].
Qed.

(* `let` as an identifier at the start of a program: `let = a`, `let(a)`; `let [a]` is the start of a declaration *)
Example let_examples :
  parse_program [mkTok tt_LetToken false [108;101;116]; op tt_EqToken; ida] = Ok [SExpr (EBinary tt_EqToken (EVar [108;101;116]) va)] /\
  let_decl_start [mkTok tt_LetToken false [108;101;116]; op tt_OpenBracketToken; ida; op tt_CloseBracketToken] = true.
Proof. split; vm_compute; reflexivity. Qed.
