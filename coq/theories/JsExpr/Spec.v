(* JsExpr/Spec.v — a tree-directed description of what the Pratt model accepts:
     - views of the generated operator rows ([sview], [pview]) with one-step unfolding lemmas of the parser,
     - the level [lvl] of a tree (the precLeft the parser holds after building it),
     - [spells inf ts t]: ts is a spelling of t that the parser accepts,
     - finite facts about the generated table, each checked by vm_compute.
   The soundness/completeness proofs (Sound.v, Complete.v) are stated against [spells]; Equiv.v relates
   [spells] to the standard's productions (Grammar.v). *)
From Coq Require Import ZifyBool.
From Verif Require Import Common.Base Common.Tactics Gen.PrattTable JsExpr.Syntax JsExpr.Pratt.

(* ---- views of the rows ------------------------------------------------------------------------------------ *)

Inductive sarm :=
| ABin (pL pR pX pS pN : Z)   (* binary operator: returns when L < prec, fails when precLeft < R and precLeft <> X *)
| ADot (pR pC : Z)
| AIndex (pR pC pS : Z)
| ACall (pL pR pC : Z)
| APost (pL pR pO pN : Z)
| ACond (pL pR pS pE pN : Z)
| AComma (pL pS pN : Z)
| ARet        (* `in` with the In flag off: the arm returns left *)
| ANone       (* default arm: return left *)
| ABad.       (* arm outside the fragment *)

(* the precLeft test of a binary arm (X = R where the arm has no exception) *)
Definition okl_of (pR pX pl : Z) : bool := negb ((pl <? pR) && negb (pl =? pX)).

Definition sview_of (inf : bool) (t : Z) (a : option (Z * list Z)) : sarm :=
  match a with
  | None => ANone
  | Some (sh, ps) =>
    if sh =? 1 then match ps with [pL; pR; pS; pN] => ABin pL pR pR pS pN | _ => ABad end
    else if sh =? 2 then
      match ps with
      | [pL; pR; pS; pN; pT] => if negb inf && (t =? pT) then ARet else ABin pL pR pR pS pN
      | _ => ABad
      end
    else if sh =? 3 then
      match ps with [pL; pR; pX; pS; pN] => ABin pL pR pX pS pN | _ => ABad end
    else if sh =? 4 then match ps with [pR; pC] => ADot pR pC | _ => ABad end
    else if sh =? 5 then match ps with [pR; pC; pS] => AIndex pR pC pS | _ => ABad end
    else if sh =? 6 then match ps with [pL; pR; pC] => ACall pL pR pC | _ => ABad end
    else if sh =? 7 then match ps with [pL; pR; pO; pN] => APost pL pR pO pN | _ => ABad end
    else if sh =? 8 then match ps with [pL; pR; pS; pE; pN] => ACond pL pR pS pE pN | _ => ABad end
    else if sh =? 9 then match ps with [pL; pS; pN] => AComma pL pS pN | _ => ABad end
    else ABad
  end.

Definition sview (inf : bool) (t : Z) : sarm := sview_of inf t (suffix_arm t).

Inductive parm :=
| PLeaf (e : expr)
| PUnary (pG pO pS pN : Z)
| PGroup (pG pS : Z)
| PRegexp
| PFail
| PBad.

Definition pview (k : token) : parm :=
  if (ty k =? tt_DivToken) || (ty k =? tt_DivEqToken) then PRegexp
  else if is_identifier (ty k) && negb (ty k =? tt_AsyncToken) then PLeaf (EVar (data k))
  else if is_numeric (ty k) then PLeaf (ELit (ty k) (data k))
  else
    match prefix_arm (ty k) with
    | None => PFail
    | Some (sh, ps) =>
      if sh =? 2 then PLeaf (ELit (ty k) (data k))
      else if sh =? 1 then match ps with [pG; pO; pS; pN] => PUnary pG (if pO =? -1 then ty k else pO) pS pN | _ => PBad end
      else if sh =? 3 then match ps with [pG; pS] => PGroup pG pS | _ => PBad end
      else PBad
    end.

(* the group arm after its '(' *)
Definition group_tail (f : nat) (inf : bool) (prec pG pS : Z) (rest : list token) : res (expr * list token) :=
  if pG <? prec then
    '(x, r) <~ parse_expr f true pS rest ;;
    r' <~ expect tt_CloseParenToken r ;;
    parse_suffix f inf (EGroup x) prec primary r'
  else
    '(args, tc, r) <~ parse_cover f rest [] false ;;
    if (match r with a :: _ => ty a =? tt_ArrowToken | [] => false end) then OutFrag
    else
      match args with
      | [] => Fail
      | _ =>
        if tc then Fail
        else
          match args with
          | [x] => parse_suffix f inf (EGroup x) prec primary r
          | _ => parse_suffix f inf (EGroup (EComma args)) prec primary r
          end
      end.

Lemma parse_expr_step f inf prec k rest :
  parse_expr (S f) inf prec (k :: rest) =
  match pview k with
  | PRegexp => if regexp_fails rest then Fail else OutFrag
  | PLeaf e => parse_suffix f inf e prec primary rest
  | PUnary pG pO pS pN =>
      if pG <? prec then Fail
      else '(x, r) <~ parse_expr f inf pS rest ;; parse_suffix f inf (EUnary pO x) prec pN r
  | PGroup pG pS => group_tail f inf prec pG pS rest
  | PFail => Fail
  | PBad => OutFrag
  end.
Proof.
  unfold pview, group_tail. cbn [parse_expr].
  destruct ((ty k =? tt_DivToken) || (ty k =? tt_DivEqToken)); [reflexivity|].
  destruct (is_identifier (ty k) && negb (ty k =? tt_AsyncToken)); [reflexivity|].
  destruct (is_numeric (ty k)); [reflexivity|].
  destruct (prefix_arm (ty k)) as [[sh ps]|]; [|reflexivity].
  destruct (sh =? 2); [reflexivity|].
  destruct (sh =? 1).
  { destruct ps as [|a [|b [|c [|d [|e ps]]]]]; reflexivity. }
  destruct (sh =? 3); [|reflexivity].
  destruct ps as [|a [|b [|c ps]]]; reflexivity.
Qed.

Lemma parse_expr_nil f inf prec : parse_expr (S f) inf prec [] = Fail.
Proof. reflexivity. Qed.

Lemma parse_suffix_nil f inf left prec pl : parse_suffix (S f) inf left prec pl [] = Ok (left, []).
Proof. reflexivity. Qed.

Lemma parse_suffix_step f inf left prec pl k rest :
  parse_suffix (S f) inf left prec pl (k :: rest) =
  match sview inf (ty k) with
  | ANone | ARet => Ok (left, k :: rest)
  | ABad => OutFrag
  | ABin pL pR pX pS pN =>
      if pL <? prec then Ok (left, k :: rest)
      else if negb (okl_of pR pX pl) then Fail
      else '(y, r) <~ parse_expr f inf pS rest ;; parse_suffix f inf (EBinary (ty k) left y) prec pN r
  | ADot pR pC =>
      if pl <? pR then Fail
      else match rest with
           | n :: r =>
               if ty n =? tt_PrivateIdentifierToken then OutFrag
               else if is_identifier_name (ty n) then parse_suffix f inf (EDot left (data n)) prec (cap pC pl) r
               else Fail
           | [] => Fail
           end
  | AIndex pR pC pS =>
      if pl <? pR then Fail
      else '(y, r) <~ parse_expr f true pS rest ;;
           r' <~ expect tt_CloseBracketToken r ;;
           parse_suffix f inf (EIndex left y) prec (cap pC pl) r'
  | ACall pL pR pC =>
      if pL <? prec then Ok (left, k :: rest)
      else if pl <? pR then Fail
      else '(args, r) <~ parse_args f rest [] ;; parse_suffix f inf (ECall left args) prec (cap pC pl) r
  | APost pL pR pO pN =>
      if lt k || (pL <? prec) then Ok (left, k :: rest)
      else if pl <? pR then Fail
      else parse_suffix f inf (EUnary pO left) prec pN rest
  | ACond pL pR pS pE pN =>
      if pL <? prec then Ok (left, k :: rest)
      else if pl <? pR then Fail
      else '(x, r) <~ parse_expr f true pS rest ;;
           r' <~ expect tt_ColonToken r ;;
           '(y, r'') <~ parse_expr f inf pE r' ;;
           parse_suffix f inf (ECond left x y) prec pN r''
  | AComma pL pS pN =>
      if pL <? prec then Ok (left, k :: rest)
      else '(y, r) <~ parse_expr f inf pS rest ;; parse_suffix f inf (comma_snoc left y) prec pN r
  end.
Proof.
  assert (Hokl : forall a b, negb (okl_of b b a) = (a <? b)).
  { intros a b. unfold okl_of. rewrite negb_involutive.
    destruct (Z.ltb_spec a b); destruct (Z.eqb_spec a b); cbn; try reflexivity; lia. }
  unfold sview, sview_of. cbn [parse_suffix].
  destruct (suffix_arm (ty k)) as [[sh ps]|]; [|reflexivity].
  destruct (sh =? 1).
  { destruct ps as [|a [|b [|c [|d [|e ps]]]]]; try reflexivity.
    destruct (a <? prec); [reflexivity|]. rewrite Hokl. destruct (pl <? b); reflexivity. }
  destruct (sh =? 2).
  { destruct ps as [|a [|b [|c [|d [|e [|g ps]]]]]]; try reflexivity.
    destruct (negb inf && (ty k =? e)).
    - rewrite orb_true_r. reflexivity.
    - rewrite orb_false_r. destruct (a <? prec); [reflexivity|]. rewrite Hokl. destruct (pl <? b); reflexivity. }
  destruct (sh =? 3).
  { destruct ps as [|a [|b [|c [|d [|e [|g ps]]]]]]; try reflexivity.
    destruct (a <? prec); [reflexivity|]. unfold okl_of. rewrite negb_involutive. reflexivity. }
  destruct (sh =? 4).
  { destruct ps as [|a [|b [|c ps]]]; reflexivity. }
  destruct (sh =? 5).
  { destruct ps as [|a [|b [|c [|d ps]]]]; reflexivity. }
  destruct (sh =? 6).
  { destruct ps as [|a [|b [|c [|d ps]]]]; reflexivity. }
  destruct (sh =? 7).
  { destruct ps as [|a [|b [|c [|d [|e ps]]]]]; reflexivity. }
  destruct (sh =? 8).
  { destruct ps as [|a [|b [|c [|d [|e [|g ps]]]]]]; reflexivity. }
  destruct (sh =? 9).
  { destruct ps as [|a [|b [|c [|d ps]]]]; reflexivity. }
  reflexivity.
Qed.

Lemma parse_args_step f ts acc :
  parse_args (S f) ts acc =
  match ts with
  | [] => Fail
  | k :: r =>
      if ty k =? tt_CloseParenToken then Ok (rev acc, r)
      else if ty k =? tt_EllipsisToken then OutFrag
      else '(a, r1) <~ parse_expr f true pratt_args_level ts ;;
           match r1 with
           | [] => Fail
           | c :: r2 =>
               if ty c =? tt_CloseParenToken then Ok (rev (a :: acc), r2)
               else if ty c =? tt_CommaToken then parse_args f r2 (a :: acc)
               else Fail
           end
  end.
Proof. reflexivity. Qed.

Lemma parse_cover_step f ts acc tc :
  parse_cover (S f) ts acc tc =
  match ts with
  | [] => Fail
  | k :: r =>
      if ty k =? tt_CloseParenToken then Ok (rev acc, tc, r)
      else if ty k =? tt_EllipsisToken then OutFrag
      else '(a, r1) <~ parse_expr f true prec_OpAssign ts ;;
           match r1 with
           | [] => Fail
           | c :: r2 =>
               if ty c =? tt_CommaToken then
                 parse_cover f r2 (a :: acc) (match r2 with k2 :: _ => ty k2 =? tt_CloseParenToken | [] => false end)
               else if ty c =? tt_CloseParenToken then Ok (rev (a :: acc), false, r2)
               else Fail
           end
  end.
Proof. reflexivity. Qed.

(* ---- levels ------------------------------------------------------------------------------------------------- *)

Definition bin_level (op : Z) : Z :=
  match sview true op with ABin _ _ _ _ pN => pN | _ => -1 end.

Definition is_postfix_op (op : Z) : bool := (op =? tt_PostIncrToken) || (op =? tt_PostDecrToken).
(* the update operators: x++ x-- ++x --x *)
Definition is_update_op (op : Z) : bool :=
  is_postfix_op op || (op =? tt_PreIncrToken) || (op =? tt_PreDecrToken).

Lemma postfix_is_update op : is_postfix_op op = true -> is_update_op op = true.
Proof. unfold is_update_op. intros H. rewrite H. reflexivity. Qed.

Lemma lvl_postfix op : is_postfix_op op = true -> (if is_update_op op then prec_OpUpdate else prec_OpUnary) = prec_OpUpdate.
Proof. intros H. rewrite (postfix_is_update _ H). reflexivity. Qed.

(* the precLeft the parser holds after it has built the node *)
Fixpoint lvl (t : expr) : Z :=
  match t with
  | EVar _ | ELit _ _ | EGroup _ => primary
  | EUnary op _ => if is_update_op op then prec_OpUpdate else prec_OpUnary
  | EBinary op _ _ => bin_level op
  | ECond _ _ _ => prec_OpAssign
  | EDot x _ => cap prec_OpMember (lvl x)
  | EIndex x _ => cap prec_OpMember (lvl x)
  | ECall x _ => cap prec_OpCall (lvl x)
  | EComma _ => prec_OpExpr
  end.

(* the level at which the parser is still inside the rightmost operand of the node (None: the node is closed
   on the right) *)
Definition rlevel (t : expr) : option Z :=
  match t with
  | EBinary op _ _ => match sview true op with ABin _ _ _ pS _ => Some pS | _ => None end
  | EUnary op _ => if is_postfix_op op then None else Some prec_OpUnary
  | ECond _ _ _ => Some prec_OpAssign
  | EComma _ => Some prec_OpAssign
  | _ => None
  end.

(* the arm of token k returns left when called at level p *)
Definition ret_view (v : sarm) (ltk : bool) (p : Z) : bool :=
  match v with
  | ANone | ARet => true
  | ABin pL _ _ _ _ => pL <? p
  | ACall pL _ _ => pL <? p
  | ACond pL _ _ _ _ => pL <? p
  | AComma pL _ _ => pL <? p
  | APost pL _ _ _ => ltk || (pL <? p)
  | ADot _ _ | AIndex _ _ _ | ABad => false
  end.

(* the suffix loop at level p stops in front of rest *)
Definition ncont (inf : bool) (p : Z) (rest : list token) : bool :=
  match rest with
  | [] => true
  | k :: _ => ret_view (sview inf (ty k)) (lt k) p
  end.

(* the precLeft test of the arm of token k passes for a left operand of level pl *)
Definition left_ok (v : sarm) (pl : Z) : bool :=
  match v with
  | ABin _ pR pX _ _ => okl_of pR pX pl
  | ADot pR _ | AIndex pR _ _ | ACall _ pR _ | APost _ pR _ _ | ACond _ pR _ _ _ => pR <=? pl
  | AComma _ _ _ => true
  | ARet | ANone => true
  | ABad => false
  end.

Definition rcond (inf : bool) (t : expr) (rest : list token) : Prop :=
  match rlevel t with Some p => ncont inf p rest = true | None => True end.

Lemma suffix_stops f inf left prec pl rest :
  ncont inf prec rest = true -> parse_suffix (S f) inf left prec pl rest = Ok (left, rest).
Proof.
  destruct rest as [|k r]; [reflexivity|]. cbn [ncont]. intros H.
  rewrite parse_suffix_step. destruct (sview inf (ty k)); cbn [ret_view] in H; try reflexivity; try discriminate;
    try (rewrite H; reflexivity).
Qed.

Lemma ret_view_mono v l p p' : ret_view v l p = true -> p <= p' -> ret_view v l p' = true.
Proof.
  destruct v; cbn [ret_view]; intros H Hp; try assumption; try lia.
Qed.

Lemma ncont_mono inf p p' rest : ncont inf p rest = true -> p <= p' -> ncont inf p' rest = true.
Proof. destruct rest; [reflexivity|]. cbn [ncont]. apply ret_view_mono. Qed.

(* ---- spellings ---------------------------------------------------------------------------------------------- *)

Inductive spells : bool -> list token -> expr -> Prop :=
| SP_leaf inf k e :
    pview k = PLeaf e -> spells inf [k] e
| SP_group inf ko pG pS ts t kc :
    pview ko = PGroup pG pS -> spells true ts t -> pS <= lvl t -> ty kc = tt_CloseParenToken ->
    spells inf (ko :: ts ++ [kc]) (EGroup t)
| SP_prefix inf k pG pO pS pN ts x :
    pview k = PUnary pG pO pS pN -> spells inf ts x -> pS <= lvl x ->
    spells inf (k :: ts) (EUnary pO x)
| SP_postfix inf k pL pR pO pN xs x :
    sview inf (ty k) = APost pL pR pO pN -> lt k = false -> spells inf xs x -> pR <= lvl x ->
    spells inf (xs ++ [k]) (EUnary pO x)
| SP_binary inf k pL pR pX pS pN xs x ys y :
    sview inf (ty k) = ABin pL pR pX pS pN -> spells inf xs x -> okl_of pR pX (lvl x) = true ->
    spells inf ys y -> pS <= lvl y ->
    spells inf (xs ++ k :: ys) (EBinary (ty k) x y)
| SP_dot inf kd pR pC xs x n :
    sview inf (ty kd) = ADot pR pC -> spells inf xs x -> pR <= lvl x ->
    is_identifier_name (ty n) = true -> ty n <> tt_PrivateIdentifierToken ->
    spells inf (xs ++ [kd; n]) (EDot x (data n))
| SP_index inf ko pR pC pS xs x ys y kc :
    sview inf (ty ko) = AIndex pR pC pS -> spells inf xs x -> pR <= lvl x ->
    spells true ys y -> pS <= lvl y -> ty kc = tt_CloseBracketToken ->
    spells inf (xs ++ ko :: ys ++ [kc]) (EIndex x y)
| SP_call inf ko pL pR pC xs x ats args :
    sview inf (ty ko) = ACall pL pR pC -> spells inf xs x -> pR <= lvl x ->
    spells_args ats args ->
    spells inf (xs ++ ko :: ats) (ECall x args)
| SP_cond inf kq pL pR pS pE pN cs c xs x kc ys y :
    sview inf (ty kq) = ACond pL pR pS pE pN -> spells inf cs c -> pR <= lvl c ->
    spells true xs x -> pS <= lvl x -> ty kc = tt_ColonToken ->
    spells inf ys y -> pE <= lvl y ->
    spells inf (cs ++ kq :: xs ++ kc :: ys) (ECond c x y)
| SP_comma inf k pL pS pN xs x ys y :
    sview inf (ty k) = AComma pL pS pN -> spells inf xs x ->
    spells inf ys y -> pS <= lvl y ->
    spells inf (xs ++ k :: ys) (comma_snoc x y)
(* the tokens after the '(' of an argument list, up to and including its ')' *)
with spells_args : list token -> list expr -> Prop :=
| SA_end kc :
    ty kc = tt_CloseParenToken -> spells_args [kc] []
| SA_last ts a kc :
    spells true ts a -> pratt_args_level <= lvl a -> ty kc = tt_CloseParenToken ->
    spells_args (ts ++ [kc]) [a]
| SA_more ts a km rest l :
    spells true ts a -> pratt_args_level <= lvl a -> ty km = tt_CommaToken ->
    spells_args rest l ->
    spells_args (ts ++ km :: rest) (a :: l).

Scheme spells_mind := Induction for spells Sort Prop
  with spells_args_mind := Induction for spells_args Sort Prop.
Combined Scheme spells_both_ind from spells_mind, spells_args_mind.
