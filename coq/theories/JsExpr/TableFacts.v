(* JsExpr/TableFacts.v — finite facts about the generated operator table (Gen/PrattTable.v), each a boolean
   sweep over the tokens of the table checked by vm_compute and lifted to all token types. *)
From Coq Require Import ZifyBool.
From Verif Require Import Common.Base Common.Tactics Gen.PrattTable JsExpr.Syntax JsExpr.Pratt JsExpr.Spec.

Definition row_toks (rows : list row) : list Z := concat (map (fun r => snd (fst r)) rows).
Definition suffix_tokens : list Z := row_toks pratt_suffix_rows.
Definition prefix_tokens : list Z := row_toks pratt_prefix_rows.

Lemma existsb_eqb_in k l : existsb (Z.eqb k) l = true -> In k l.
Proof.
  intros H. apply existsb_exists in H. destruct H as [x [Hin Hx]]. apply Z.eqb_eq in Hx. subst. exact Hin.
Qed.

Lemma find_row_in t rows a : find_row t rows = Some a -> In t (row_toks rows).
Proof.
  induction rows as [|[[sh toks] ps] r IH]; cbn [find_row]; [discriminate|].
  unfold row_toks. cbn [map concat fst snd].
  destruct (existsb (Z.eqb t) toks) eqn:E; intros H.
  - apply in_or_app. left. apply existsb_eqb_in. exact E.
  - apply in_or_app. right. apply IH. exact H.
Qed.

Lemma sview_none_or_in inf t : sview inf t = ANone \/ In t suffix_tokens.
Proof.
  unfold sview. destruct (suffix_arm t) eqn:E.
  - right. eapply find_row_in. exact E.
  - left. reflexivity.
Qed.

(* lifting a boolean sweep over the suffix tokens to all token types *)
Lemma sview_sweep (chk : sarm -> bool) :
  chk ANone = true ->
  forallb (fun t => chk (sview true t) && chk (sview false t)) suffix_tokens = true ->
  forall inf t, chk (sview inf t) = true.
Proof.
  intros H0 H inf t. destruct (sview_none_or_in inf t) as [E|Hin]; [rewrite E; exact H0|].
  rewrite forallb_forall in H. specialize (H t Hin). apply andb_true_iff in H. destruct H as [H1 H2].
  destruct inf; assumption.
Qed.

(* ---- per-arm facts ------------------------------------------------------------------------------------------ *)

Definition sfact (v : sarm) : bool :=
  match v with
  | ABin pL pR pX pS pN =>
      (pL =? pN) && (pN <=? pS) && (pS <=? prec_OpUnary) && (pL <=? pR) && (pL <=? pX)
      && (prec_OpAssign <=? pN) && (pN <=? prec_OpExp) && (pR <=? primary) && (prec_OpAssign <=? pS)
  | ADot pR pC => (pC =? prec_OpMember) && (prec_OpLHS <=? pR)
  | AIndex pR pC pS => (pC =? prec_OpMember) && (prec_OpLHS <=? pR) && (pS =? prec_OpExpr)
  | ACall pL pR pC => (pC =? prec_OpCall) && (prec_OpLHS <=? pR) && (prec_OpUnary <=? pL) && (pL =? prec_OpCall)
  | APost pL pR pO pN => (pL =? pN) && (pN =? prec_OpUpdate) && is_postfix_op pO && (prec_OpLHS <=? pR)
  | ACond pL pR pS pE pN =>
      (pL =? pN) && (pN =? prec_OpAssign) && (pS =? prec_OpAssign) && (pE =? prec_OpAssign) && (pR =? prec_OpCoalesce)
  | AComma pL pS pN => (pL =? pN) && (pN =? prec_OpExpr) && (pS =? prec_OpAssign)
  | ARet | ANone | ABad => true
  end.

Lemma sfact_all inf t : sfact (sview inf t) = true.
Proof. apply sview_sweep; vm_compute; reflexivity. Qed.

(* the order of the OpPrec constants used below *)
Lemma prec_order :
  prec_OpExpr = 0 /\ prec_OpExpr < prec_OpAssign /\ prec_OpAssign < prec_OpCoalesce /\ prec_OpCoalesce < prec_OpOr /\
  prec_OpOr < prec_OpAnd /\ prec_OpAnd < prec_OpBitOr /\ prec_OpBitOr < prec_OpBitXor /\ prec_OpBitXor < prec_OpBitAnd /\
  prec_OpBitAnd < prec_OpEquals /\ prec_OpEquals < prec_OpCompare /\ prec_OpCompare < prec_OpShift /\
  prec_OpShift < prec_OpAdd /\ prec_OpAdd < prec_OpMul /\ prec_OpMul < prec_OpExp /\
  prec_OpExp < prec_OpUnary /\ prec_OpUnary < prec_OpUpdate /\ prec_OpUpdate < prec_OpLHS /\
  prec_OpLHS < prec_OpOpt /\ prec_OpOpt < prec_OpCall /\ prec_OpCall < prec_OpNew /\ prec_OpNew < prec_OpMember /\
  prec_OpMember < prec_OpPrimary /\ primary = prec_OpPrimary /\ pratt_args_level = prec_OpAssign.
Proof. vm_compute. repeat split; congruence. Qed.

(* a binary arm depends on the In flag only by disappearing *)
Lemma sview_bin_true inf t pL pR pX pS pN :
  sview inf t = ABin pL pR pX pS pN -> sview true t = ABin pL pR pX pS pN.
Proof.
  destruct inf; [trivial|]. unfold sview, sview_of. destruct (suffix_arm t) as [[sh ps]|]; [|trivial].
  destruct (sh =? 1); [trivial|]. destruct (sh =? 2); [|trivial].
  destruct ps as [|a [|b [|c [|d [|e [|g ps]]]]]]; trivial.
  cbn [negb andb]. destruct (t =? e); [discriminate|trivial].
Qed.

Lemma bin_level_of inf t pL pR pX pS pN : sview inf t = ABin pL pR pX pS pN -> bin_level t = pN.
Proof. intros H. apply sview_bin_true in H. unfold bin_level. rewrite H. reflexivity. Qed.

Lemma rlevel_bin inf t pL pR pX pS pN x y : sview inf t = ABin pL pR pX pS pN -> rlevel (EBinary t x y) = Some pS.
Proof. intros H. apply sview_bin_true in H. cbn [rlevel]. rewrite H. reflexivity. Qed.

(* ---- prefix arms -------------------------------------------------------------------------------------------- *)

Definition pfact (v : parm) : bool :=
  match v with
  | PUnary pG pO pS pN =>
      (pN =? (if is_update_op pO then prec_OpUpdate else prec_OpUnary)) && (pS =? prec_OpUnary) && negb (is_postfix_op pO) && (prec_OpUnary <=? pG)
  | PGroup pG pS => (pG =? prec_OpAssign) && (pS =? prec_OpExpr)
  | _ => true
  end.

Definition bare (t : Z) : token := mkTok t false [].

Lemma pview_bare k :
  match pview k with
  | PLeaf _ => True
  | v => pview (bare (ty k)) = v /\ In (ty k) (tt_DivToken :: tt_DivEqToken :: prefix_tokens) \/ v = PFail
  end.
Proof.
  unfold pview, bare. cbn [ty].
  destruct ((ty k =? tt_DivToken) || (ty k =? tt_DivEqToken)) eqn:Ed.
  { left. split; [reflexivity|]. apply orb_true_iff in Ed. destruct Ed as [E|E]; apply Z.eqb_eq in E; rewrite E; cbn; auto. }
  destruct (is_identifier (ty k) && negb (ty k =? tt_AsyncToken)); [exact I|].
  destruct (is_numeric (ty k)); [exact I|].
  destruct (prefix_arm (ty k)) as [[sh ps]|] eqn:E; [|right; reflexivity].
  assert (Hin : In (ty k) (tt_DivToken :: tt_DivEqToken :: prefix_tokens)).
  { right. right. eapply find_row_in. exact E. }
  destruct (sh =? 2); [exact I|].
  destruct (sh =? 1).
  { destruct ps as [|a [|b [|c [|d [|e ps]]]]]; left; split; auto. }
  destruct (sh =? 3); [|left; split; auto].
  destruct ps as [|a [|b [|c ps]]]; left; split; auto.
Qed.

Lemma pfact_all k : pfact (pview k) = true.
Proof.
  assert (H : forallb (fun t => pfact (pview (bare t))) (tt_DivToken :: tt_DivEqToken :: prefix_tokens) = true)
    by (vm_compute; reflexivity).
  rewrite forallb_forall in H.
  pose proof (pview_bare k) as Hb. destruct (pview k) eqn:E; try reflexivity;
    (destruct Hb as [[Hb Hin]|Hb]; [rewrite <- Hb; apply H; exact Hin|discriminate]).
Qed.

Lemma pview_leaf_lvl k e : pview k = PLeaf e -> lvl e = primary /\ rlevel e = None.
Proof.
  unfold pview.
  destruct ((ty k =? tt_DivToken) || (ty k =? tt_DivEqToken)); [discriminate|].
  destruct (is_identifier (ty k) && negb (ty k =? tt_AsyncToken)); [intros H; inversion H; split; reflexivity|].
  destruct (is_numeric (ty k)); [intros H; inversion H; split; reflexivity|].
  destruct (prefix_arm (ty k)) as [[sh ps]|]; [|discriminate].
  destruct (sh =? 2); [intros H; inversion H; split; reflexivity|].
  destruct (sh =? 1); [destruct ps as [|a [|b [|c [|d [|g ps]]]]]; discriminate|].
  destruct (sh =? 3); [destruct ps as [|a [|b [|c ps]]]; discriminate|discriminate].
Qed.

(* the comma token, by its number *)
Lemma sview_comma inf : exists pL pS pN, sview inf tt_CommaToken = AComma pL pS pN.
Proof. destruct inf; vm_compute; eauto. Qed.

Lemma sview_close inf t : In t [tt_CloseParenToken; tt_CloseBracketToken; tt_ColonToken] -> sview inf t = ANone.
Proof.
  cbn [In]. intros [H|[H|[H|[]]]]; subst t; destruct inf; vm_compute; reflexivity.
Qed.

(* ---- facts that mention the token itself, and facts about pairs of arms ------------------------------------------ *)

Lemma sview_sweep_t (chk : Z -> sarm -> bool) :
  (forall t, chk t ANone = true) ->
  forallb (fun t => chk t (sview true t) && chk t (sview false t)) suffix_tokens = true ->
  forall inf t, chk t (sview inf t) = true.
Proof.
  intros H0 H inf t. destruct (sview_none_or_in inf t) as [E|Hin]; [rewrite E; apply H0|].
  rewrite forallb_forall in H. specialize (H t Hin). apply andb_true_iff in H. destruct H as [H1 H2].
  destruct inf; assumption.
Qed.

Lemma sview_comma_tok inf t pL pS pN : sview inf t = AComma pL pS pN -> t = tt_CommaToken.
Proof.
  intros H.
  pose proof (sview_sweep_t (fun t v => match v with AComma _ _ _ => t =? tt_CommaToken | _ => true end)) as S.
  specialize (S (fun _ => eq_refl) ltac:(vm_compute; reflexivity) inf t). rewrite H in S. apply Z.eqb_eq in S. exact S.
Qed.

(* the right-open level of a tree whose top is the binary operator op, and its own level *)
Definition open_of (op : Z) : option (Z * Z) :=
  match sview true op with ABin _ _ _ pS pN => Some (pS, pN) | _ => None end.

(* if the arm of t accepts a left operand of level n, it returns when called at the right-open level s *)
Definition compat (s n : Z) (v : sarm) : bool := implb (left_ok v n) (ret_view v false s).

Lemma compat_binary :
  forall op inf t, match open_of op with Some (s, n) => compat s n (sview inf t) = true | None => True end.
Proof.
  intros op inf t. unfold open_of. destruct (sview_none_or_in true op) as [E|Hin].
  { rewrite E. exact I. }
  assert (H : forallb (fun op => forallb (fun t =>
              match open_of op with
              | Some (s, n) => compat s n (sview true t) && compat s n (sview false t)
              | None => true end) suffix_tokens) suffix_tokens = true) by (vm_compute; reflexivity).
  rewrite forallb_forall in H. specialize (H op Hin). rewrite forallb_forall in H.
  fold (open_of op). destruct (open_of op) as [[s n]|] eqn:Eo; [|exact I].
  destruct (sview_none_or_in inf t) as [E|Hin2].
  { rewrite E. unfold compat. cbn. reflexivity. }
  specialize (H t Hin2). apply andb_true_iff in H. destruct H as [H1 H2]. destruct inf; assumption.
Qed.

Lemma compat_fixed s n :
  forallb (fun t => compat s n (sview true t) && compat s n (sview false t)) suffix_tokens = true ->
  forall inf t, compat s n (sview inf t) = true.
Proof. intros H. apply (sview_sweep (compat s n)); [reflexivity|exact H]. Qed.

Lemma compat_unary : forall inf t, compat prec_OpUnary prec_OpUnary (sview inf t) = true.
Proof. apply compat_fixed. vm_compute. reflexivity. Qed.
Lemma compat_update : forall inf t, compat prec_OpUnary prec_OpUpdate (sview inf t) = true.
Proof. apply compat_fixed. vm_compute. reflexivity. Qed.
Lemma compat_cond : forall inf t, compat prec_OpAssign prec_OpAssign (sview inf t) = true.
Proof. apply compat_fixed. vm_compute. reflexivity. Qed.
Lemma compat_comma : forall inf t, compat prec_OpAssign prec_OpExpr (sview inf t) = true.
Proof. apply compat_fixed. vm_compute. reflexivity. Qed.

Lemma ret_view_lt v p : ret_view v false p = true -> forall l, ret_view v l p = true.
Proof. destruct v; cbn [ret_view]; intros H l; try assumption. cbn [orb] in H. rewrite H. apply orb_true_r. Qed.

(* a left operand accepted by the arm of k is closed off by k *)
Lemma rcond_left inf k x r : left_ok (sview inf (ty k)) (lvl x) = true -> rcond inf x (k :: r).
Proof.
  intros H. unfold rcond.
  assert (G : forall s n, rlevel x = Some s -> lvl x = n -> compat s n (sview inf (ty k)) = true ->
              ncont inf s (k :: r) = true).
  { intros s n _ En Hc. cbn [ncont]. apply ret_view_lt. unfold compat in Hc. rewrite <- En, H in Hc. exact Hc. }
  destruct x; cbn [rlevel]; try exact I.
  - (* unary *)
    destruct (is_postfix_op op) eqn:Ep; [exact I|].
    destruct (is_update_op op) eqn:Eu.
    + apply (G _ prec_OpUpdate); [cbn [rlevel]; rewrite Ep; reflexivity|cbn [lvl]; rewrite Eu; reflexivity|apply compat_update].
    + apply (G _ prec_OpUnary); [cbn [rlevel]; rewrite Ep; reflexivity|cbn [lvl]; rewrite Eu; reflexivity|apply compat_unary].
  - (* binary *)
    pose proof (compat_binary op inf (ty k)) as C. unfold open_of in C.
    destruct (sview true op) eqn:Ev; try exact I.
    apply (G _ pN); [cbn [rlevel]; rewrite Ev; reflexivity|cbn [lvl]; unfold bin_level; rewrite Ev; reflexivity|exact C].
  - apply (G _ prec_OpAssign); [reflexivity|reflexivity|apply compat_cond].
  - apply (G _ prec_OpExpr); [reflexivity|reflexivity|apply compat_comma].
Qed.

(* the right-open level is not below the level of the node, except for a prefix update (level Update, operand Unary) *)
Lemma rlevel_ge_lvl t p : rlevel t = Some p -> lvl t <= p \/ prec_OpUnary <= p.
Proof.
  pose proof prec_order as PO.
  destruct t; cbn [rlevel lvl]; try discriminate.
  - destruct (is_postfix_op op); [discriminate|]. intros HH; inversion HH. right. lia.
  - unfold bin_level. pose proof (sfact_all true op) as SF. destruct (sview true op); try discriminate.
    cbn [sfact] in SF. b2p. intros HH; inversion HH. left. lia.
  - intros HH; inversion HH. left. lia.
  - intros HH; inversion HH. left. lia.
Qed.

Lemma rlevel_ge_assign t p : rlevel t = Some p -> prec_OpAssign <= p.
Proof.
  pose proof prec_order as PO.
  destruct t; cbn [rlevel]; try discriminate.
  - destruct (is_postfix_op op); [discriminate|]. intros HH; inversion HH. lia.
  - pose proof (sfact_all true op) as SF. destruct (sview true op); try discriminate.
    cbn [sfact] in SF. b2p. intros HH; inversion HH. lia.
  - intros HH; inversion HH. lia.
  - intros HH; inversion HH. lia.
Qed.
