(* Walk/Lemmas.v — structural lemmas about the Walk model: induction on trees, unfolding of the
   closure-style fixpoints, naturality of the table-driven child selection. *)
From Coq Require Import List Arith Bool Lia Permutation.
From Verif Require Import Walk.Schema Walk.Model.
Import ListNotations.

(* ---- induction on trees ---------------------------------------------------------------------- *)
Section TreeInd.
  Variable P : tree -> Prop.
  Hypothesis HN : forall a kids, Forall (fun kv => Forall P (snd kv)) kids -> P (Node a kids).
  Fixpoint tree_ind' (t : tree) : P t :=
    match t with
    | Node a kids =>
        HN a kids
          ((fix go (ks : list (field * list tree)) : Forall (fun kv => Forall P (snd kv)) ks :=
              match ks with
              | [] => Forall_nil _
              | kv :: r =>
                  Forall_cons kv
                    ((fix go2 (ts : list tree) : Forall P ts :=
                        match ts with
                        | [] => Forall_nil _
                        | c :: r2 => Forall_cons c (tree_ind' c) (go2 r2)
                        end) (snd kv))
                    (go r)
              end) kids)
    end.
End TreeInd.

Definition mapkids {A B} (g : A -> B) (kids : list (field * list A)) : list (field * list B) :=
  map (fun kv => (fst kv, map g (snd kv))) kids.

Definition on2 {A B} (g : A -> B) (x : step * A * bool * flavour) : step * B * bool * flavour :=
  let '(st, a, asw, cfl) := x in (st, g a, asw, cfl).

Lemma kids_of_map {A B} (g : A -> B) f kids : kids_of f (mapkids g kids) = map g (kids_of f kids).
Proof.
  unfold kids_of, mapkids, field in *. induction kids as [|kv r IH]; cbn [map find]; [reflexivity|].
  cbn [fst]. destruct (Nat.eqb (fst kv) f); [reflexivity|]. exact IH.
Qed.

Lemma pick_alt_map {A B} (g : A -> B) alts kids : pick_alt alts (mapkids g kids) = pick_alt alts kids.
Proof.
  induction alts as [|a r IH]; [reflexivity|].
  cbn [pick_alt]. destruct r as [|b r']; [reflexivity|].
  rewrite kids_of_map. destruct (kids_of (snd a) kids); cbn [map]; [exact IH|reflexivity].
Qed.

Lemma tag_elems_map {A B} (g : A -> B) f asw cfl l i :
  tag_elems f asw cfl (map g l) i = map (on2 g) (tag_elems f asw cfl l i).
Proof. revert i. induction l as [|a r IH]; intros i; cbn; [reflexivity|]. now rewrite IH. Qed.

Section WithSpec.
Variable G : spec.

Lemma field_children_map {A B} (g : A -> B) t kids fl s f :
  field_children G t (mapkids g kids) fl s f = map (on2 g) (field_children G t kids fl s f).
Proof.
  unfold field_children. destruct (fdesc_of G t f); [|reflexivity].
  rewrite kids_of_map. apply tag_elems_map.
Qed.

Lemma visit_children_map {A B} (g : A -> B) t kids fl vi :
  visit_children G t (mapkids g kids) fl vi = map (on2 g) (visit_children G t kids fl vi).
Proof.
  destruct vi as [s f|alts]; cbn [visit_children].
  - apply field_children_map.
  - rewrite pick_alt_map. destruct (pick_alt alts kids); [apply field_children_map|reflexivity].
Qed.

Lemma vis_children_map {A B} (g : A -> B) t kids fl :
  vis_children G t (mapkids g kids) fl = map (on2 g) (vis_children G t kids fl).
Proof.
  unfold vis_children. induction (visits_of G t) as [|vi r IH]; [reflexivity|].
  cbn [flat_map]. rewrite map_app, visit_children_map, IH. reflexivity.
Qed.

(* ---- all_children / nodes_from ------------------------------------------------------------------ *)

Lemma elems_steps_map {A B} (g : A -> B) f l i :
  elems_steps f (map g l) i = map (fun sc => (fst sc, g (snd sc))) (elems_steps f l i).
Proof. revert i. induction l as [|a r IH]; intros i; cbn; [reflexivity|]. now rewrite IH. Qed.

Lemma all_children_map {A B} (g : A -> B) kids :
  all_children (mapkids g kids) = map (fun sc => (fst sc, g (snd sc))) (all_children kids).
Proof.
  unfold all_children, mapkids. induction kids as [|kv r IH]; [reflexivity|].
  cbn [map flat_map fst snd]. rewrite map_app, elems_steps_map, IH. reflexivity.
Qed.

Lemma nodes_from_unfold a kids p :
  nodes_from G (Node a kids) p =
  (if is_wrapper G a then [] else [p]) ++
  flat_map (fun sc => nodes_from G (snd sc) (p ++ [fst sc])) (all_children kids).
Proof.
  cbn [nodes_from]. f_equal.
  change (map (fun kv => (fst kv, map (nodes_from G) (snd kv))) kids) with (mapkids (nodes_from G) kids).
  rewrite all_children_map. rewrite flat_map_concat_map, map_map, <- flat_map_concat_map. reflexivity.
Qed.

Lemma wt_from_unfold a kids :
  wt_from G (Node a kids) =
  node_ok G a (mapkids tree_ty kids) && forallb (fun kv => forallb (wt_from G) (snd kv)) kids.
Proof. reflexivity. Qed.

Section WithVisitor.
Variable V : Type.
Variable enter : list (event V) -> V -> path -> ty -> flavour -> option V.

Notation pwalk := (pwalk G V enter).

(* the children of a node, walked in order *)
Fixpoint walk_cs (cs : list (step * tree * bool * flavour)) (h : list (event V)) (v : V) (p : path)
  : list (event V) :=
  match cs with
  | [] => []
  | c :: r =>
      let '(st, t, asw, cfl) := c in
      let e1 := pwalk t asw h v (p ++ [st]) cfl in
      e1 ++ walk_cs r (h ++ e1) v p
  end.

Lemma pwalk_children_map cs h v p :
  pwalk_children V (map (on2 pwalk) cs) h v p = walk_cs cs h v p.
Proof.
  revert h. induction cs as [|c r IH]; intros h; [reflexivity|].
  destruct c as [[[st t] asw] cfl]. cbn [map on2 pwalk_children walk_cs]. now rewrite IH.
Qed.

Definition own_fl (a : ty) (fl : flavour) : flavour := if by_value G a then ByVal else fl.

Lemma pwalk_unfold a kids asw h v p fl :
  pwalk (Node a kids) asw h v p fl =
  if asw then walk_cs (vis_children G a kids fl) h v p
  else
    let cs := vis_children G a kids (own_fl a fl) in
    let e := Ev KEnter v p a (own_fl a fl) in
    match enter h v p a (own_fl a fl) with
    | None => [e]
    | Some v' => e :: walk_cs cs (h ++ [e]) v' p ++ [Ev KExit v' p a (own_fl a fl)]
    end.
Proof.
  cbn [Model.pwalk]. unfold pnode_body, own_fl.
  change (map (fun kv => (fst kv, map pwalk (snd kv))) kids) with (mapkids pwalk kids).
  destruct asw.
  - rewrite vis_children_map, pwalk_children_map. reflexivity.
  - cbv zeta. rewrite vis_children_map.
    destruct (enter h v p a (if by_value G a then ByVal else fl)); [|reflexivity].
    rewrite pwalk_children_map. reflexivity.
Qed.

Lemma walk_cs_app cs1 cs2 h v p :
  walk_cs (cs1 ++ cs2) h v p = walk_cs cs1 h v p ++ walk_cs cs2 (h ++ walk_cs cs1 h v p) v p.
Proof.
  revert h. induction cs1 as [|c r IH]; intros h; cbn [app walk_cs].
  - now rewrite app_nil_r.
  - destruct c as [[[st t] asw] cfl]. rewrite IH, <- !app_assoc. reflexivity.
Qed.

End WithVisitor.
End WithSpec.
