(* Walk/Proofs.v — the C18 theorems, instantiated on the generated tables (Gen/WalkSchema.v). *)
From Coq Require Import List Arith Bool Lia Permutation.
From Verif Require Import Walk.Schema Walk.Model Walk.Lemmas Walk.Covers Walk.Trace Walk.NoPanic Walk.Visit
     Gen.WalkSchema Walk.Harness.
Import ListNotations.

(* The generated table covers the generated schema (finite check, re-done whenever T2's output changes). *)
Lemma gen_covers : covers gen_spec = true.
Proof. vm_compute. reflexivity. Qed.

Lemma gen_covers_fields :
  forallb (fun t => perm_eqb (visited gen_spec t) (node_fields gen_spec t)) (seq 0 (ntypes gen_spec)) = true.
Proof. vm_compute. reflexivity. Qed.

(* every pointer field is walked under a nil guard, every struct field by address, every arm exists *)
Lemma gen_arms_normal :
  forallb (fun t => forallb (visit_ok gen_spec t) (visits_of gen_spec t) &&
                    match arm_of gen_spec t with Some _ => true | None => match fields_of gen_spec t with [] => true | _ => false end end)
          (seq 0 (ntypes gen_spec)) = true.
Proof. vm_compute. reflexivity. Qed.

Section Gen.
Variable V : Type.
Variable enter : list (event V) -> V -> path -> ty -> flavour -> option V.

Lemma well_typed_parts t : well_typed gen_spec t = true ->
  wt_from gen_spec t = true /\ false = is_wrapper gen_spec (tree_ty t).
Proof.
  unfold well_typed. intros H. apply andb_true_iff in H. destruct H as [H W].
  apply andb_true_iff in H. destruct H as [H _]. apply negb_true_iff in H. now split.
Qed.

Lemma walk_no_panic_proof v0 t :
  walk_p gen_spec V enter v0 t = (walk gen_spec V enter v0 t, false).
Proof. apply walk_p_eq. exact gen_covers. Qed.

Lemma walk_visits_each_once_proof v0 t :
  (forall h v p a fl, enter h v p a fl <> None) ->
  well_typed gen_spec t = true ->
  Permutation (entered V (fst (walk_p gen_spec V enter v0 t))) (all_nodes gen_spec t) /\
  NoDup (all_nodes gen_spec t).
Proof.
  intros D WT. destruct (well_typed_parts t WT) as [W F]. rewrite walk_no_panic_proof. cbn [fst]. split.
  - now apply pwalk_entered_perm; [exact gen_covers|..].
  - apply nodes_from_NoDup; [exact gen_covers|exact W].
Qed.

Lemma walk_balanced_proof v0 t : bal V enter v0 [] (fst (walk_p gen_spec V enter v0 t)).
Proof. rewrite walk_no_panic_proof. apply pwalk_bal. Qed.

Lemma walk_nothing_else_proof v0 t e :
  well_typed gen_spec t = true ->
  In e (fst (walk_p gen_spec V enter v0 t)) -> In (e_path e) (all_nodes gen_spec t).
Proof.
  intros WT H. destruct (well_typed_parts t WT) as [W F]. rewrite walk_no_panic_proof in H.
  eapply pwalk_in_nodes; [exact gen_covers|exact W|exact F|exact H].
Qed.

End Gen.

(* ---- non-vacuity: a concrete well-typed tree with every kind of field ------------------------------------------ *)
(* class A { #p = x; m(){} }  as Go holds it: a ClassDecl with a name and two class elements *)
Definition leaf (t : ty) : tree := Node t [].
Definition ex_params : tree := Node T_Params [(F_Params_List, []); (F_Params_Rest, [])].
Definition ex_block : tree := Node T_BlockStmt [(F_BlockStmt_List, [leaf T_EmptyStmt])].
Definition ex_field : tree :=
  Node T_Field
    [(F_Field_Name, [Node T_ClassElementName [(F_ClassElementName_PropertyName, []);
                                              (F_ClassElementName_Private, [leaf T_Var])]]);
     (F_Field_Init, [leaf T_Var])].
Definition ex_method : tree :=
  Node T_MethodDecl
    [(F_MethodDecl_Name, [Node T_ClassElementName
        [(F_ClassElementName_PropertyName, [Node T_PropertyName [(F_PropertyName_Literal, [leaf T_LiteralExpr]);
                                                                 (F_PropertyName_Computed, [])]]);
         (F_ClassElementName_Private, [])]]);
     (F_MethodDecl_Params, [ex_params]); (F_MethodDecl_Body, [ex_block])].
Definition ex_class : tree :=
  Node T_ClassDecl
    [(F_ClassDecl_Name, [leaf T_Var]); (F_ClassDecl_Extends, []);
     (F_ClassDecl_List,
      [Node T_ClassElement [(F_ClassElement_StaticBlock, []); (F_ClassElement_Method, []);
                            (F_ClassElement_Field, [ex_field])];
       Node T_ClassElement [(F_ClassElement_StaticBlock, []); (F_ClassElement_Method, [ex_method]);
                            (F_ClassElement_Field, [])]])].

Definition descend_all : list (event nat) -> nat -> path -> ty -> flavour -> option nat :=
  fun _ v _ _ _ => Some (S v).

Example ex_class_well_typed : well_typed gen_spec ex_class = true.
Proof. vm_compute. reflexivity. Qed.

Example ex_class_nodes : length (all_nodes gen_spec ex_class) = 13.
Proof. vm_compute. reflexivity. Qed.

Example ex_class_descends : forall h v p a fl, descend_all h v p a fl <> None.
Proof. intros. discriminate. Qed.

Example ex_class_trace_length : length (fst (walk_p gen_spec nat descend_all 0 ex_class)) = 26.
Proof. vm_compute. reflexivity. Qed.
