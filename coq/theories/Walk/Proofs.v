(* Walk/Proofs.v — proofs about the Walk model (C18). *)
From Coq Require Import List Arith Bool Lia Permutation.
From Verif Require Import Walk.Schema Walk.Model Gen.WalkSchema Walk.Harness.
Import ListNotations.

(* The generated table covers the generated schema. *)
Lemma gen_covers : covers gen_spec = true.
Proof. vm_compute. reflexivity. Qed.

Lemma gen_covers_fields :
  forallb (fun t => perm_eqb (visited gen_spec t) (node_fields gen_spec t)) (seq 0 (ntypes gen_spec)) = true.
Proof. vm_compute. reflexivity. Qed.
