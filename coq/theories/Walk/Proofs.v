(* Walk/Proofs.v — the C18 theorems, instantiated on the generated tables (Gen/WalkSchema.v). *)
From Coq Require Import List Arith Bool Lia Permutation.
From Verif Require Import Walk.Schema Walk.Model Walk.Lemmas Walk.Covers Walk.Trace Walk.NoPanic Walk.Visit
     Walk.Order Walk.Identity Walk.Prune Gen.WalkSchema Walk.Harness.
Import ListNotations.

(* The generated table covers the generated schema (finite check, re-done whenever T2's output changes). *)
Lemma gen_covers : covers gen_spec = true.
Proof. vm_compute. reflexivity. Qed.

Lemma gen_covers_fields :
  forallb (fun t => perm_eqb (visited gen_spec t) (node_fields gen_spec t)) (seq 0 (ntypes gen_spec)) = true.
Proof. vm_compute. reflexivity. Qed.

(* no arm ranges over a wrapper list by value (that would hand the visitor addresses of copies) *)
Lemma gen_copy_free : copy_free gen_spec = true.
Proof. vm_compute. reflexivity. Qed.

(* every pointer field is walked under a nil guard, every struct field by address, every arm exists *)
Lemma gen_arms_normal :
  forallb (fun t => forallb (visit_ok gen_spec t) (visits_of gen_spec t) &&
                    match arm_of gen_spec t with Some _ => true | None => match fields_of gen_spec t with [] => true | _ => false end end)
          (seq 0 (ntypes gen_spec)) = true.
Proof. vm_compute. reflexivity. Qed.

Section Gen.
Variable V : Type.
Variable enter : list (event V) -> V -> path -> ty -> flavour -> option V.

Lemma well_typed_parts t : well_typed gen_spec t = true ->
  wt_from gen_spec t = true /\ false = is_wrapper gen_spec (tree_ty t).
Proof.
  unfold well_typed. intros H. apply andb_true_iff in H. destruct H as [H W].
  apply andb_true_iff in H. destruct H as [H _]. apply negb_true_iff in H. now split.
Qed.

Lemma walk_no_panic_proof v0 t :
  walk_p gen_spec V enter v0 t = (walk gen_spec V enter v0 t, false).
Proof. apply walk_p_eq. exact gen_covers. Qed.

Lemma walk_visits_each_once_proof v0 t :
  (forall h v p a fl, enter h v p a fl <> None) ->
  well_typed gen_spec t = true ->
  Permutation (entered V (fst (walk_p gen_spec V enter v0 t))) (all_nodes gen_spec t) /\
  NoDup (all_nodes gen_spec t).
Proof.
  intros D WT. destruct (well_typed_parts t WT) as [W F]. rewrite walk_no_panic_proof. cbn [fst]. split.
  - now apply pwalk_entered_perm; [exact gen_covers|..].
  - apply nodes_from_NoDup; [exact gen_covers|exact W].
Qed.

Lemma walk_balanced_proof v0 t : bal V enter v0 [] (fst (walk_p gen_spec V enter v0 t)).
Proof. rewrite walk_no_panic_proof. apply pwalk_bal. Qed.

Lemma walk_nothing_else_proof v0 t e :
  well_typed gen_spec t = true ->
  In e (fst (walk_p gen_spec V enter v0 t)) -> In (e_path e) (all_nodes gen_spec t).
Proof.
  intros WT H. destruct (well_typed_parts t WT) as [W F]. rewrite walk_no_panic_proof in H.
  eapply pwalk_in_nodes; [exact gen_covers|exact W|exact F|exact H].
Qed.

Lemma walk_parent_first_proof v0 t pre e post :
  well_typed gen_spec t = true ->
  fst (walk_p gen_spec V enter v0 t) = pre ++ e :: post -> e_k e = KEnter ->
  forall a, In a (all_nodes gen_spec t) -> sprefix a (e_path e) ->
    (exists e', In e' pre /\ e_k e' = KEnter /\ e_path e' = a) /\
    (forall e', In e' pre -> e_k e' = KExit -> e_path e' <> a).
Proof.
  intros WT E K a Ha SP. destruct (well_typed_parts t WT) as [W F]. rewrite walk_no_panic_proof in E.
  exact (pwalk_parent_first gen_spec gen_covers V enter t false [] v0 [] Orig W F pre e post E K a Ha SP).
Qed.

Lemma walk_prunes_exactly_proof v0 t :
  well_typed gen_spec t = true ->
  let evs := fst (walk_p gen_spec V enter v0 t) in
  NoDup (entered V evs) /\
  forall q, In q (entered V evs) <->
            In q (all_nodes gen_spec t) /\
            (forall a, In a (all_nodes gen_spec t) -> sprefix a q -> In a (exited V evs)).
Proof.
  intros WT evs. destruct (well_typed_parts t WT) as [W F]. unfold evs. rewrite walk_no_panic_proof. cbn [fst].
  split; [now apply pwalk_entered_NoDup; [exact gen_covers|..]|].
  intros q. split.
  - intros H. apply entered_In in H. destruct H as [e [He [K EQ]]]. split.
    + rewrite <- EQ. eapply pwalk_in_nodes; [exact gen_covers|exact W|exact F|exact He].
    + intros a Ha SP. rewrite <- EQ in SP.
      eapply pwalk_below_exited; [exact gen_covers|exact W|exact F|exact He|exact Ha|exact SP].
  - intros [Hq ANC]. eapply pwalk_reached; [exact gen_covers|exact W|exact F|exact Hq|exact ANC].
Qed.

Lemma walk_identity_proof v0 t e :
  In e (fst (walk_p gen_spec V enter v0 t)) ->
  exists c, subtree_at t (e_path e) = Some c /\ tree_ty c = e_ty e.
Proof.
  intros H. rewrite walk_no_panic_proof in H. cbn [fst] in H.
  apply pwalk_identity in H. destruct H as [q [c [E1 [E2 E3]]]]. cbn [app] in E1. rewrite E1. now exists c.
Qed.

Lemma walk_hands_over_tree_addresses_proof v0 t e :
  In e (fst (walk_p gen_spec V enter v0 t)) ->
  (by_value gen_spec (e_ty e) = false /\ e_fl e = Orig) \/
  (by_value gen_spec (e_ty e) = true /\ e_fl e = ByVal).
Proof.
  intros H. rewrite walk_no_panic_proof in H. cbn [fst] in H.
  eapply pwalk_orig; [exact gen_copy_free|exact H].
Qed.

End Gen.

Lemma all_nodes_spec_proof t q :
  well_typed gen_spec t = true ->
  (In q (all_nodes gen_spec t) <->
   exists c, subtree_at t q = Some c /\ is_wrapper gen_spec (tree_ty c) = false).
Proof.
  intros WT. destruct (well_typed_parts t WT) as [W _]. unfold all_nodes.
  rewrite (nodes_from_spec gen_spec gen_covers t [] q W). cbn [app]. split.
  - intros [r [c [-> H]]]. now exists c.
  - intros [c H]. now exists q, c.
Qed.

(* stop-set visitors: the entered nodes are exactly the nodes without a stopped proper ancestor *)
Definition nodes_not_below_stopped (stop : path -> bool) (t : tree) : list path :=
  filter (not_below_stopped stop (all_nodes gen_spec t)) (all_nodes gen_spec t).

Lemma walk_prunes_stop_set_proof (V : Type) (stop : path -> bool) (v0 : V) (t : tree) :
  well_typed gen_spec t = true ->
  Permutation (entered V (fst (walk_p gen_spec V (stop_enter V stop) v0 t))) (nodes_not_below_stopped stop t).
Proof.
  intros WT. destruct (well_typed_parts t WT) as [W F]. rewrite walk_no_panic_proof. cbn [fst].
  apply NoDup_Permutation.
  - now apply pwalk_entered_NoDup; [exact gen_covers|..].
  - apply NoDup_filter. apply nodes_from_NoDup; [exact gen_covers|exact W].
  - intros q. unfold nodes_not_below_stopped, walk. rewrite filter_In.
    apply (stop_walk_entered_iff gen_spec gen_covers V stop t v0 q W F).
Qed.

(* ---- non-vacuity: a concrete well-typed tree with every kind of field ------------------------------------------ *)
(* class A { #p = x; m(){} }  as Go holds it: a ClassDecl with a name and two class elements *)
Definition leaf (t : ty) : tree := Node t [].
Definition ex_params : tree := Node T_Params [(F_Params_List, []); (F_Params_Rest, [])].
Definition ex_block : tree := Node T_BlockStmt [(F_BlockStmt_List, [leaf T_EmptyStmt])].
Definition ex_field : tree :=
  Node T_Field
    [(F_Field_Name, [Node T_ClassElementName [(F_ClassElementName_PropertyName, []);
                                              (F_ClassElementName_Private, [leaf T_Var])]]);
     (F_Field_Init, [leaf T_Var])].
Definition ex_method : tree :=
  Node T_MethodDecl
    [(F_MethodDecl_Name, [Node T_ClassElementName
        [(F_ClassElementName_PropertyName, [Node T_PropertyName [(F_PropertyName_Literal, [leaf T_LiteralExpr]);
                                                                 (F_PropertyName_Computed, [])]]);
         (F_ClassElementName_Private, [])]]);
     (F_MethodDecl_Params, [ex_params]); (F_MethodDecl_Body, [ex_block])].
Definition ex_class : tree :=
  Node T_ClassDecl
    [(F_ClassDecl_Name, [leaf T_Var]); (F_ClassDecl_Extends, []);
     (F_ClassDecl_List,
      [Node T_ClassElement [(F_ClassElement_StaticBlock, []); (F_ClassElement_Method, []);
                            (F_ClassElement_Field, [ex_field])];
       Node T_ClassElement [(F_ClassElement_StaticBlock, []); (F_ClassElement_Method, [ex_method]);
                            (F_ClassElement_Field, [])]])].

Definition descend_all : list (event nat) -> nat -> path -> ty -> flavour -> option nat :=
  fun _ v _ _ _ => Some (S v).

Example ex_class_well_typed : well_typed gen_spec ex_class = true.
Proof. vm_compute. reflexivity. Qed.

Example ex_class_nodes : length (all_nodes gen_spec ex_class) = 13.
Proof. vm_compute. reflexivity. Qed.

Example ex_class_descends : forall h v p a fl, descend_all h v p a fl <> None.
Proof. intros. discriminate. Qed.

(* a visitor that returns nil at the first class element's field *)
Example ex_class_stop_prunes :
  length (nodes_not_below_stopped (fun p => match p with [(2, 0); (2, 0)] => true | _ => false end) ex_class) = 10.
Proof. vm_compute. reflexivity. Qed.

(* the Field of a class element is handed over by its address in the tree (it was a copy before fix 3931a8d) *)
Example ex_class_field_by_address :
  In (Ev KEnter 1 [(F_ClassDecl_List, 0); (F_ClassElement_Field, 0)] T_Field Orig)
     (fst (walk_p gen_spec nat descend_all 0 ex_class)).
Proof. vm_compute. right. right. right. now left. Qed.

(* the table of the code before that fix (by-value range over ClassDecl.List) is not copy free, and the
   same tree then yields the address of a copy: a revert is caught by gen_copy_free *)
Definition legacy_spec : spec :=
  mkSpec gen_schema gen_wrapper gen_alts
         (map (fun arm => match arm with
                          | Some vs => Some (map (fun vi => match vi with
                                                            | V1 SLoopWrapAddr f => V1 SLoopWrap f
                                                            | _ => vi end) vs)
                          | None => None end) gen_table).

Example legacy_not_copy_free : copy_free legacy_spec = false.
Proof. vm_compute. reflexivity. Qed.

Example legacy_hands_over_copy :
  In (Ev KEnter 1 [(F_ClassDecl_List, 0); (F_ClassElement_Field, 0)] T_Field Copy)
     (fst (walk_p legacy_spec nat descend_all 0 ex_class)).
Proof. vm_compute. right. right. right. now left. Qed.

Example ex_class_trace_length : length (fst (walk_p gen_spec nat descend_all 0 ex_class)) = 26.
Proof. vm_compute. reflexivity. Qed.
