(* Walk/Model.v — executable model of js.Walk (js/walk.go) over generic trees, parameterised by the
   generated tables (Gen/WalkSchema.v) and an arbitrary visitor.  Definitions only.

   func Walk(v IVisitor, n INode) {
     if n == nil { return }
     if v = v.Enter(n); v == nil { return }
     defer v.Exit(n)
     switch n := n.(type) { case *T: <visits of T> ... default: return }
   }

   A Go panic (nil dereference inside an arm that was reached through a typed-nil pointer) is the
   boolean of the result; the deferred Exit calls still run while the panic unwinds. *)
From Coq Require Import List Arith Bool.
From Verif Require Import Walk.Schema.
Import ListNotations.

Inductive tree := Node (t : ty) (kids : list (field * list tree)).

Definition tree_ty (t : tree) : ty := match t with Node a _ => a end.
Definition tree_kids (t : tree) : list (field * list tree) := match t with Node _ k => k end.

(* A node is identified by its path from the root: (field, index within the field) steps. *)
Definition step := (field * nat)%type.
Definition path := list step.

(* What exactly is handed to the visitor. *)
Inductive flavour :=
| Orig     (* the address of the node inside the tree *)
| Copy     (* the address of (a part of) a loop-variable copy of a wrapper element *)
| ByVal    (* a struct value *)
| NilPtr.  (* a typed nil pointer *)

Inductive evk := KEnter | KExit.

Section WithSpec.
Variable G : spec.

Definition ntypes : nat := length (sp_schema G).

(* js.Parse stores a few leaf nodes BY VALUE in interface fields (DotExpr.Y holds a LiteralExpr, not a
   *LiteralExpr).  Such a node has type number ntypes + T: it has the fields of T, Walk hands the
   visitor a struct value, and the type switch (which only has `case *T:` arms) ends in `default`. *)
Definition by_value (t : ty) : bool := Nat.leb ntypes t.
Definition base_ty (t : ty) : ty := if by_value t then t - ntypes else t.

Definition fields_of (t : ty) : list fdesc := nth (base_ty t) (sp_schema G) [].
Definition arm_of (t : ty) : option (list visit) := if by_value t then None else nth t (sp_table G) None.
Definition is_wrapper (t : ty) : bool := nth t (sp_wrapper G) false.
Definition alts_of (t : ty) : list (list field) := nth t (sp_alts G) [].
Definition visits_of (t : ty) : list visit := match arm_of t with Some vs => vs | None => [] end.
Definition fdesc_of (t : ty) (f : field) : option fdesc :=
  find (fun d => Nat.eqb (f_id d) f) (fields_of t).

Definition kids_of {A} (f : field) (kids : list (field * list A)) : list A :=
  match find (fun kv => Nat.eqb (fst kv) f) kids with Some kv => snd kv | None => [] end.

Definition is_listw (k : kind) : bool := match k with KListW => true | _ => false end.

(* flavour of a child: parts of a struct (KOne, reached by &n.F) share the flavour of the struct;
   the elements of a wrapper list walked by a by-value range are loop-variable copies; everything reached through a pointer,
   an interface or a slice is the tree's own memory again. *)
Definition child_fl (s : shape) (k : kind) (fl : flavour) : flavour :=
  match k with
  | KOne => fl
  | KListW => match s with SLoopWrap => Copy | _ => Orig end
  | _ => Orig
  end.

(* the alternative of an if/else-if/else chain that is walked *)
Fixpoint pick_alt {A} (alts : list (shape * field)) (kids : list (field * list A)) : option (shape * field) :=
  match alts with
  | [] => None
  | [a] => Some a
  | a :: r => match kids_of (snd a) kids with [] => pick_alt r kids | _ :: _ => Some a end
  end.

Section WithVisitor.
Variable V : Type.

Record event := Ev { e_k : evk; e_v : V; e_path : path; e_ty : ty; e_fl : flavour }.

(* The visitor: Enter may depend on everything the visitor has seen so far (the history of calls),
   on the visitor object receiving the call, and on the node; None = it returns nil. *)
Variable enter : list event -> V -> path -> ty -> flavour -> option V.

(* ---- the faithful walk, with typed-nil / by-value / panic behaviour ------------------------- *)

(* a subtree, already turned into a function: as-wrapper-element?, history, visitor, path, flavour *)
Definition walker := bool -> list event -> V -> path -> flavour -> list event * bool.
Definition kidw := (ty * walker)%type.

Fixpoint run_elems (ws : list kidw) (asw : bool) (h : list event) (v : V) (p : path) (f : field)
         (fl : flavour) (i : nat) : list event * bool :=
  match ws with
  | [] => ([], false)
  | w :: r =>
      let '(e1, pn) := snd w asw h v (p ++ [(f, i)]) fl in
      if pn then (e1, true)
      else let '(e2, pn2) := run_elems r asw (h ++ e1) v p f fl (S i) in (e1 ++ e2, pn2)
  end.

(* Walk(v, n.F[i]) with a struct value: Enter, and if it returns a visitor the switch finds no
   `case T:` (only `case *T:`), so `default: return` and the deferred Exit *)
Fixpoint run_byval (ws : list kidw) (h : list event) (v : V) (p : path) (f : field) (i : nat) : list event :=
  match ws with
  | [] => []
  | w :: r =>
      let q := p ++ [(f, i)] in
      let a := if by_value (fst w) then fst w else ntypes + fst w in
      let e := Ev KEnter v q a ByVal in
      let es := match enter h v q a ByVal with
                | None => [e]
                | Some v' => [e; Ev KExit v' q a ByVal]
                end in
      es ++ run_byval r (h ++ es) v p f (S i)
  end.

(* Walk(v, n.F) with n.F a nil *T: a non-nil interface holding a nil pointer; if Enter returns a
   visitor, the arm of T dereferences it (panic) unless the arm is empty *)
Definition run_nil (tgt : ty) (h : list event) (v : V) (p : path) (f : field) : list event * bool :=
  let q := p ++ [(f, 0)] in
  let e := Ev KEnter v q tgt NilPtr in
  match enter h v q tgt NilPtr with
  | None => ([e], false)
  | Some v' => ([e; Ev KExit v' q tgt NilPtr],
                match arm_of tgt with Some (_ :: _) => true | _ => false end)
  end.

Definition visit_field (t : ty) (kw : list (field * list kidw)) (s : shape) (f : field)
           (h : list event) (v : V) (p : path) (fl : flavour) : list event * bool :=
  match fdesc_of t f with
  | None => ([], false)
  | Some d =>
      let ws := kids_of f kw in
      match mode_of s (f_kind d) with
      | MNormal => run_elems ws (is_listw (f_kind d)) h v p f (child_fl s (f_kind d) fl) 0
      | MByValue => (run_byval ws h v p f 0, false)
      | MNilUnsafe =>
          match ws with
          | [] => run_nil (match f_target d with Some x => x | None => 0 end) h v p f
          | _ :: _ => run_elems ws false h v p f Orig 0
          end
      | MBad => ([], false)
      end
  end.

Definition run_visit (t : ty) (kw : list (field * list kidw)) (vi : visit)
           (h : list event) (v : V) (p : path) (fl : flavour) : list event * bool :=
  match vi with
  | V1 s f => visit_field t kw s f h v p fl
  | VAlt alts => match pick_alt alts kw with
                 | Some a => visit_field t kw (fst a) (snd a) h v p fl
                 | None => ([], false)
                 end
  end.

Fixpoint run_visits (vs : list visit) (t : ty) (kw : list (field * list kidw))
         (h : list event) (v : V) (p : path) (fl : flavour) : list event * bool :=
  match vs with
  | [] => ([], false)
  | vi :: r =>
      let '(e1, pn) := run_visit t kw vi h v p fl in
      if pn then (e1, true)
      else let '(e2, pn2) := run_visits r t kw (h ++ e1) v p fl in (e1 ++ e2, pn2)
  end.

Definition node_body (t : ty) (kw : list (field * list kidw)) : walker :=
  fun asw h v p fl =>
    if asw then run_visits (visits_of t) t kw h v p fl
    else
      let fl := if by_value t then ByVal else fl in
      let e := Ev KEnter v p t fl in
      match enter h v p t fl with
      | None => ([e], false)
      | Some v' =>
          let '(es, pn) := run_visits (visits_of t) t kw (h ++ [e]) v' p fl in
          (e :: es ++ [Ev KExit v' p t fl], pn)
      end.

Fixpoint walk_tree (t : tree) : walker :=
  match t with
  | Node a kids =>
      node_body a (map (fun kv => (fst kv, map (fun c => (tree_ty c, walk_tree c)) (snd kv))) kids)
  end.

(* Walk(v0, root) *)
Definition walk_p (v0 : V) (t : tree) : list event * bool := walk_tree t false [] v0 [] Orig.

(* ---- the walk without the abnormal modes (equal to the above when the table covers the schema) *)

(* the children an arm walks, in order: step, child, walked as wrapper element?, flavour *)
Fixpoint tag_elems {A} (f : field) (asw : bool) (cfl : flavour) (l : list A) (i : nat)
  : list (step * A * bool * flavour) :=
  match l with
  | [] => []
  | a :: r => ((f, i), a, asw, cfl) :: tag_elems f asw cfl r (S i)
  end.

Definition field_children {A} (t : ty) (kids : list (field * list A)) (fl : flavour) (s : shape) (f : field)
  : list (step * A * bool * flavour) :=
  match fdesc_of t f with
  | None => []
  | Some d => tag_elems f (is_listw (f_kind d)) (child_fl s (f_kind d) fl) (kids_of f kids) 0
  end.

Definition visit_children {A} (t : ty) (kids : list (field * list A)) (fl : flavour) (vi : visit)
  : list (step * A * bool * flavour) :=
  match vi with
  | V1 s f => field_children t kids fl s f
  | VAlt alts => match pick_alt alts kids with
                 | Some a => field_children t kids fl (fst a) (snd a)
                 | None => []
                 end
  end.

Definition vis_children {A} (t : ty) (kids : list (field * list A)) (fl : flavour)
  : list (step * A * bool * flavour) :=
  flat_map (visit_children t kids fl) (visits_of t).

Definition pwalker := bool -> list event -> V -> path -> flavour -> list event.

Fixpoint pwalk_children (cs : list (step * pwalker * bool * flavour)) (h : list event) (v : V) (p : path)
  : list event :=
  match cs with
  | [] => []
  | c :: r =>
      let '(st, w, asw, cfl) := c in
      let e1 := w asw h v (p ++ [st]) cfl in
      e1 ++ pwalk_children r (h ++ e1) v p
  end.

Definition pnode_body (t : ty) (kw : list (field * list pwalker)) : pwalker :=
  fun asw h v p fl =>
    if asw then pwalk_children (vis_children t kw fl) h v p
    else
      let fl := if by_value t then ByVal else fl in
      let e := Ev KEnter v p t fl in
      match enter h v p t fl with
      | None => [e]
      | Some v' => e :: pwalk_children (vis_children t kw fl) (h ++ [e]) v' p ++ [Ev KExit v' p t fl]
      end.

Fixpoint pwalk (t : tree) : pwalker :=
  match t with
  | Node a kids => pnode_body a (map (fun kv => (fst kv, map pwalk (snd kv))) kids)
  end.

Definition walk (v0 : V) (t : tree) : list event := pwalk t false [] v0 [] Orig.

(* projections of a trace *)
Definition is_enter (e : event) : bool := match e_k e with KEnter => true | KExit => false end.
Definition is_exit (e : event) : bool := match e_k e with KEnter => false | KExit => true end.
Definition entered (evs : list event) : list path := map e_path (filter is_enter evs).
Definition exited (evs : list event) : list path := map e_path (filter is_exit evs).

End WithVisitor.

(* ---- the specification side: what the tree contains, by the schema ---------------------------- *)

(* all children of a node, in the order of the tree *)
Fixpoint elems_steps {A} (f : field) (l : list A) (i : nat) : list (step * A) :=
  match l with [] => [] | a :: r => ((f, i), a) :: elems_steps f r (S i) end.

Definition all_children {A} (kids : list (field * list A)) : list (step * A) :=
  flat_map (fun kv => elems_steps (fst kv) (snd kv) 0) kids.

(* every node contained in the tree (wrapper elements are not nodes), by path *)
Fixpoint nodes_from (t : tree) : path -> list path :=
  match t with
  | Node a kids =>
      fun p =>
        (if is_wrapper a then [] else [p]) ++
        flat_map (fun sc => snd sc (p ++ [fst sc]))
                 (all_children (map (fun kv => (fst kv, map nodes_from (snd kv))) kids))
  end.

Definition all_nodes (t : tree) : list path := nodes_from t [].

Fixpoint subtree_at (t : tree) (p : path) : option tree :=
  match p with
  | [] => Some t
  | (f, i) :: r =>
      match nth_error (kids_of f (tree_kids t)) i with
      | Some c => subtree_at c r
      | None => None
      end
  end.

(* ---- well-typed trees ----------------------------------------------------------------------- *)

Definition in_alt (t : ty) (f : field) : bool :=
  existsb (fun g => existsb (Nat.eqb f) g) (alts_of t).

Definition nonempty {A} (l : list A) : bool := match l with [] => false | _ => true end.

(* one field: multiplicity and static type of the children (given by their types) *)
Definition field_ok (t : ty) (d : fdesc) (cts : list ty) : bool :=
  (match f_kind d with
   | KOne => if in_alt t (f_id d) then Nat.leb (length cts) 1 else Nat.eqb (length cts) 1
   | KOptI | KOptP => Nat.leb (length cts) 1
   | KListI | KListS | KListW => true
   end) &&
  (match f_target d with
   | Some x => forallb (Nat.eqb x) cts
   | None => forallb (fun c => if by_value c
                               then Nat.ltb c (2 * ntypes) && match fields_of c with [] => true | _ => false end
                               else negb (is_wrapper c)) cts
   end).

Fixpoint fields_ok (t : ty) (ds : list fdesc) (kids : list (field * list ty)) : bool :=
  match ds, kids with
  | [], [] => true
  | d :: ds', kv :: kids' => Nat.eqb (f_id d) (fst kv) && field_ok t d (snd kv) && fields_ok t ds' kids'
  | _, _ => false
  end.

Definition alt_ok (kids : list (field * list ty)) (g : list field) : bool :=
  Nat.leb (length (filter (fun f => nonempty (kids_of f kids)) g)) 1.

(* the node itself: its fields are exactly the schema's, in order, each within its multiplicity
   and static type, at most one member of every alternative group is set, and a node stored by
   value is a leaf (Walk cannot reach the children of a struct value) *)
Definition node_ok (t : ty) (kids : list (field * list ty)) : bool :=
  Nat.ltb t (2 * ntypes) &&
  (negb (by_value t) || match fields_of t with [] => true | _ => false end) &&
  fields_ok t (fields_of t) kids && forallb (alt_ok kids) (alts_of t).

Fixpoint wt_from (t : tree) : bool :=
  match t with
  | Node a kids =>
      node_ok a (map (fun kv => (fst kv, map tree_ty (snd kv))) kids) &&
      forallb (fun kv => forallb wt_from (snd kv)) kids
  end.

(* a whole tree: well-typed nodes, and the root is a real node (a pointer to a non-wrapper struct) *)
Definition well_typed (t : tree) : bool :=
  negb (is_wrapper (tree_ty t)) && negb (by_value (tree_ty t)) && wt_from t.

(* ---- "the table covers the schema" (checked on the generated file by vm_compute) ------------- *)

Definition visit_fields (vi : visit) : list field :=
  match vi with V1 _ f => [f] | VAlt alts => map snd alts end.

Definition visited (t : ty) : list field := flat_map visit_fields (visits_of t).
Definition node_fields (t : ty) : list field := map f_id (fields_of t).

Fixpoint nodupb (l : list nat) : bool :=
  match l with [] => true | x :: r => negb (existsb (Nat.eqb x) r) && nodupb r end.

Definition perm_eqb (a b : list nat) : bool :=
  nodupb a && nodupb b && Nat.eqb (length a) (length b) &&
  forallb (fun x => existsb (Nat.eqb x) b) a.

Definition shape_ok (t : ty) (sf : shape * field) : bool :=
  match fdesc_of t (snd sf) with
  | Some d => match mode_of (fst sf) (f_kind d) with MNormal => true | _ => false end
  | None => false
  end.

Fixpoint guards_ok (alts : list (shape * field)) : bool :=
  match alts with
  | [] => false
  | [_] => true
  | a :: r => (match fst a with SGuard => true | _ => false end) && guards_ok r
  end.

Definition list_eqb (a b : list nat) : bool :=
  Nat.eqb (length a) (length b) && forallb (fun xy => Nat.eqb (fst xy) (snd xy)) (combine a b).

Definition visit_ok (t : ty) (vi : visit) : bool :=
  match vi with
  | V1 s f => shape_ok t (s, f)
  | VAlt alts => forallb (shape_ok t) alts && guards_ok alts &&
                 existsb (list_eqb (map snd alts)) (alts_of t)
  end.

Definition target_ok (d : fdesc) : bool :=
  match f_kind d, f_target d with
  | KListW, Some x => Nat.ltb x ntypes && is_wrapper x
  | (KOne | KOptP | KListS), Some x => Nat.ltb x ntypes && negb (is_wrapper x)
  | (KOptI | KListI), None => true
  | _, _ => false
  end.

Definition type_covered (t : ty) : bool :=
  (match arm_of t with
   | Some _ => true
   | None => match fields_of t with [] => true | _ => false end
   end) &&
  perm_eqb (visited t) (node_fields t) &&
  forallb (visit_ok t) (visits_of t) &&
  forallb target_ok (fields_of t).

(* no arm walks a wrapper list through a by-value range: every node is handed over by its own address *)
Definition shape_copy_free (s : shape) : bool := match s with SLoopWrap => false | _ => true end.
Definition visit_copy_free (vi : visit) : bool :=
  match vi with V1 s _ => shape_copy_free s | VAlt alts => forallb (fun a => shape_copy_free (fst a)) alts end.
Definition copy_free : bool := forallb (fun t => forallb visit_copy_free (visits_of t)) (seq 0 ntypes).

Definition covers : bool :=
  Nat.eqb (length (sp_wrapper G)) ntypes && Nat.eqb (length (sp_alts G)) ntypes &&
  Nat.eqb (length (sp_table G)) ntypes &&
  forallb type_covered (seq 0 ntypes).

End WithSpec.

Arguments Ev {V}.
Arguments e_k {V}. Arguments e_v {V}. Arguments e_path {V}. Arguments e_ty {V}. Arguments e_fl {V}.
