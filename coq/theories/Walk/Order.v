(* Walk/Order.v — parent first and exact pruning, for well-typed trees and arbitrary visitors. *)
From Coq Require Import List Arith Bool Lia Permutation.
From Verif Require Import Walk.Schema Walk.Model Walk.Lemmas Walk.Covers Walk.Trace Walk.Visit.
Import ListNotations.

Section Walks.
Variable G : spec.
Hypothesis COV : covers G = true.
Variable V : Type.
Variable enter : list (event V) -> V -> path -> ty -> flavour -> option V.
Notation pwalk := (pwalk G V enter).
Notation walk_cs := (walk_cs G V enter).

(* an event inside the walk of a list of children lies inside the walk of one of them *)
Lemma walk_cs_split cs : forall h v p pre e post,
  walk_cs cs h v p = pre ++ e :: post ->
  exists cs1 x cs2 pre1 post1,
    cs = cs1 ++ x :: cs2 /\ pre = walk_cs cs1 h v p ++ pre1 /\
    pwalk (ch_node x) (ch_asw x) (h ++ walk_cs cs1 h v p) v (p ++ [ch_step x]) (ch_fl x) = pre1 ++ e :: post1.
Proof.
  induction cs as [|c r IH]; intros h v p pre e post H.
  - destruct pre; discriminate.
  - destruct c as [[[st t] asw] cfl]. cbn [Lemmas.walk_cs] in H.
    apply app_split in H. destruct H as [[post1 [E1 _]]|[pre2 [E1 E2]]].
    + exists [], (st, t, asw, cfl), r, pre, post1. split; [reflexivity|]. split; [reflexivity|].
      cbn. now rewrite app_nil_r.
    + apply IH in E2. destruct E2 as [cs1 [x [cs2 [pre1 [post1 [A [B C]]]]]]].
      exists ((st, t, asw, cfl) :: cs1), x, cs2, pre1, post1. split; [now rewrite A|].
      cbn [Lemmas.walk_cs]. split.
      * rewrite E1, B. now rewrite <- app_assoc.
      * now rewrite <- app_assoc in C.
Qed.

Lemma NoDup_steps_apart {A} (cs1 cs2 : list (step * A * bool * flavour)) x y :
  NoDup (map ch_step (cs1 ++ x :: cs2)) -> In y cs1 -> ch_step y <> ch_step x.
Proof.
  rewrite map_app. cbn [map]. intros ND Hy E. apply NoDup_remove_2 in ND. apply ND.
  apply in_or_app. left. rewrite <- E. now apply in_map.
Qed.

Lemma NoDup_steps_apart_r {A} (cs1 cs2 : list (step * A * bool * flavour)) x y :
  NoDup (map ch_step (cs1 ++ x :: cs2)) -> In y cs2 -> ch_step y <> ch_step x.
Proof.
  rewrite map_app. cbn [map]. intros ND Hy E. apply NoDup_remove_2 in ND. apply ND.
  apply in_or_app. right. rewrite <- E. now apply in_map.
Qed.

(* the child of a well-typed node below which a given node path lies *)
Lemma child_of_node a kids fl p q cs1 x cs2 :
  wt_from G (Node a kids) = true -> by_value G a = false ->
  vis_children G a kids fl = cs1 ++ x :: cs2 ->
  In q (flat_map (fun sc => nodes_from G (snd sc) (p ++ [fst sc])) (all_children kids)) ->
  prefix (p ++ [ch_step x]) q ->
  In q (nodes_from G (ch_node x) (p ++ [ch_step x])).
Proof.
  intros WT BV E Hq PX. apply nodes_from_child_sprefix in Hq. destruct Hq as [st [c [A [N P]]]].
  pose proof (prefix_step_inj _ _ _ _ P PX) as ->.
  assert (Hx : In x (vis_children G a kids fl)) by (rewrite E; apply in_elt).
  destruct (wt_vis_child G COV a kids fl x WT BV Hx) as [_ [_ A']].
  assert (c = ch_node x).
  { eapply NoDup_map_fst_inj; [apply (wt_all_children_NoDup G COV a); exact WT|exact A|exact A']. }
  now subst c.
Qed.

(* ---- parent first -------------------------------------------------------------------------------------------- *)

Definition parent_first_at (evs : list (event V)) (nodes : list path) : Prop :=
  forall pre e post, evs = pre ++ e :: post -> e_k e = KEnter ->
    forall a, In a nodes -> sprefix a (e_path e) ->
      (exists e', In e' pre /\ e_k e' = KEnter /\ e_path e' = a) /\
      (forall e', In e' pre -> e_k e' = KExit -> e_path e' <> a).

Lemma pwalk_parent_first t : forall asw h v p fl,
  wt_from G t = true -> asw = is_wrapper G (tree_ty t) ->
  parent_first_at (pwalk t asw h v p fl) (nodes_from G t p).
Proof.
  induction t as [a kids IH] using tree_ind_In. intros asw h v p fl WT FL.
  cbn [tree_ty] in FL. rewrite pwalk_unfold, nodes_from_unfold.
  destruct (by_value G a) eqn:BV.
  { (* a leaf stored by value: Enter [Exit] *)
    destruct (wt_by_value_leaf G COV a kids WT BV) as [-> NW]. rewrite NW in *. subst asw.
    unfold vis_children. rewrite (by_value_visits G a BV). cbn [flat_map Lemmas.walk_cs app all_children].
    cbv zeta. intros pre e post E K b Hb SP. destruct Hb as [<-|[]].
    exfalso. destruct (enter h v p a (own_fl G a fl)).
    - destruct pre as [|e0 pre]; cbn in E; inversion E; subst.
      + cbn in SP. now apply sprefix_neq in SP.
      + destruct pre as [|e1 pre]; cbn in H1; inversion H1; subst; [discriminate|destruct pre; discriminate].
    - destruct pre as [|e0 pre]; cbn in E; inversion E; subst.
      + cbn in SP. now apply sprefix_neq in SP.
      + destruct pre; discriminate. }
  set (KN := flat_map (fun sc => nodes_from G (snd sc) (p ++ [fst sc])) (all_children kids)).
  assert (CS : forall fl' h' v', parent_first_at (walk_cs (vis_children G a kids fl') h' v' p) KN).
  { intros fl' h' v' pre e post E K b Hb SP.
    apply walk_cs_split in E. destruct E as [cs1 [x [cs2 [pre1 [post1 [EC [EP EB]]]]]]].
    assert (Hx : In x (vis_children G a kids fl')) by (rewrite EC; apply in_elt).
    destruct (wt_vis_child G COV a kids fl' x WT BV Hx) as [W [F _]].
    destruct (vis_children_sub G a kids fl' x Hx) as [kv [K1 K2]].
    assert (PE : prefix (p ++ [ch_step x]) (e_path e)).
    { eapply pwalk_prefix with (e := e). rewrite EB. apply in_elt. }
    (* b lies below the same child *)
    assert (PB : prefix (p ++ [ch_step x]) b).
    { apply nodes_from_child_sprefix in Hb. destruct Hb as [st [c [_ [_ P]]]].
      assert (prefix (p ++ [st]) (e_path e)) by (eapply prefix_trans; [exact P|now apply sprefix_prefix]).
      now rewrite <- (prefix_step_inj _ _ _ _ H PE). }
    pose proof (child_of_node a kids fl' p b cs1 x cs2 WT BV EC Hb PB) as NB.
    destruct (IH kv _ K1 K2 _ _ _ _ _ W F pre1 e post1 EB K b NB SP) as [[e' [I1 [I2 I3]]] NX].
    split.
    - exists e'. split; [|now split]. rewrite EP. apply in_or_app. now right.
    - intros e2 He2 KX EQ. rewrite EP in He2. apply in_app_or in He2. destruct He2 as [He2|He2].
      + apply walk_cs_In_step in He2. destruct He2 as [y [Hy PY]]. rewrite EQ in PY.
        pose proof (prefix_step_inj _ _ _ _ PY PB) as ES.
        eapply NoDup_steps_apart; [|exact Hy|exact ES]. rewrite <- EC. now apply wt_vis_steps_NoDup.
      + now apply (NX e2). }
  subst asw. destruct (is_wrapper G a).
  { cbn [app]. apply CS. }
  cbv zeta. intros pre e post E K b Hb SP.
  cbn [app] in Hb.
  destruct (enter h v p a (own_fl G a fl)) as [v'|].
  - destruct pre as [|e0 pre']; cbn [app] in E; inversion E; subst.
    + (* e is the Enter of this node: nothing above it in this subtree *)
      exfalso. cbn in SP. destruct Hb as [<-|Hb]; [now apply sprefix_neq in SP|].
      apply nodes_from_child_sprefix in Hb. destruct Hb as [st [c [_ [_ P]]]].
      apply prefix_step_sprefix in P. apply sprefix_prefix in P. now apply (prefix_not_sprefix _ _ P).
    + apply app_split in H1. destruct H1 as [[post1 [E1 _]]|[pre2 [_ E2]]].
      2:{ destruct pre2; cbn in E2; inversion E2; subst; [discriminate|destruct pre2; discriminate]. }
      destruct Hb as [<-|Hb].
      * split.
        -- exists (Ev KEnter v p a (own_fl G a fl)). split; [now left|now split].
        -- intros e' [<-|He'] KX; [discriminate|]. apply sprefix_neq.
           eapply walk_cs_sprefix. rewrite E1. apply in_or_app. left. exact He'.
      * destruct (CS _ _ _ pre' e post1 E1 K b Hb SP) as [[e' [I1 [I2 I3]]] NX]. split.
        -- exists e'. split; [now right|now split].
        -- intros e'' [<-|He'] KX; [discriminate|]. now apply NX.
  - destruct pre as [|e0 pre']; cbn [app] in E; inversion E; subst; [|destruct pre'; discriminate].
    exfalso. cbn in SP. destruct Hb as [<-|Hb]; [now apply sprefix_neq in SP|].
    apply nodes_from_child_sprefix in Hb. destruct Hb as [st [c [_ [_ P]]]].
    apply prefix_step_sprefix in P. apply sprefix_prefix in P. now apply (prefix_not_sprefix _ _ P).
Qed.


(* ---- pruning -------------------------------------------------------------------------------------------------- *)

Lemma exited_app (a b : list (event V)) : exited V (a ++ b) = exited V a ++ exited V b.
Proof. unfold exited. now rewrite filter_app, map_app. Qed.

(* whatever happens strictly below a node happens between its Enter and its Exit: the node is exited *)
Lemma pwalk_below_exited t : forall asw h v p fl e b,
  wt_from G t = true -> asw = is_wrapper G (tree_ty t) ->
  In e (pwalk t asw h v p fl) -> In b (nodes_from G t p) -> sprefix b (e_path e) ->
  In b (exited V (pwalk t asw h v p fl)).
Proof.
  induction t as [a kids IH] using tree_ind_In. intros asw h v p fl e b WT FL He Hb SP.
  cbn [tree_ty] in FL. rewrite pwalk_unfold in *. rewrite nodes_from_unfold in Hb.
  destruct (by_value G a) eqn:BV.
  { exfalso. destruct (wt_by_value_leaf G COV a kids WT BV) as [-> NW]. rewrite NW in *. subst asw.
    unfold vis_children in He. rewrite (by_value_visits G a BV) in He.
    cbn [flat_map Lemmas.walk_cs app all_children] in He, Hb. cbv zeta in He.
    destruct Hb as [<-|[]].
    destruct (enter h v p a (own_fl G a fl)); [destruct He as [<-|[<-|[]]]|destruct He as [<-|[]]];
      cbn in SP; now apply sprefix_neq in SP. }
  set (KN := flat_map (fun sc => nodes_from G (snd sc) (p ++ [fst sc])) (all_children kids)) in *.
  assert (CS : forall fl' h' v', In e (walk_cs (vis_children G a kids fl') h' v' p) -> In b KN ->
            In b (exited V (walk_cs (vis_children G a kids fl') h' v' p))).
  { intros fl' h' v' He' Hb'.
    apply in_split in He'. destruct He' as [pre [post E]].
    pose proof E as E0. apply walk_cs_split in E. destruct E as [cs1 [x [cs2 [pre1 [post1 [EC [EP EB]]]]]]].
    assert (Hx : In x (vis_children G a kids fl')) by (rewrite EC; apply in_elt).
    destruct (wt_vis_child G COV a kids fl' x WT BV Hx) as [W [F _]].
    destruct (vis_children_sub G a kids fl' x Hx) as [kv [K1 K2]].
    assert (Ie : In e (pwalk (ch_node x) (ch_asw x) (h' ++ walk_cs cs1 h' v' p) v' (p ++ [ch_step x]) (ch_fl x)))
      by (rewrite EB; apply in_elt).
    assert (PE : prefix (p ++ [ch_step x]) (e_path e)) by (now apply pwalk_prefix in Ie).
    assert (PB : prefix (p ++ [ch_step x]) b).
    { apply nodes_from_child_sprefix in Hb'. destruct Hb' as [st [c [_ [_ P]]]].
      assert (prefix (p ++ [st]) (e_path e)) by (eapply prefix_trans; [exact P|now apply sprefix_prefix]).
      now rewrite <- (prefix_step_inj _ _ _ _ H PE). }
    pose proof (child_of_node a kids fl' p b cs1 x cs2 WT BV EC Hb' PB) as NB.
    pose proof (IH kv _ K1 K2 _ _ _ _ _ e b W F Ie NB SP) as EX.
    rewrite EC, walk_cs_app, exited_app. apply in_or_app. right.
    cbn [Lemmas.walk_cs]. destruct x as [[[st t] asw'] cfl]. rewrite exited_app. apply in_or_app. now left. }
  subst asw. destruct (is_wrapper G a).
  { cbn [app] in Hb. now apply CS. }
  cbv zeta in *. cbn [app] in Hb.
  destruct (enter h v p a (own_fl G a fl)) as [v'|].
  - change (Ev KEnter v p a (own_fl G a fl) :: walk_cs (vis_children G a kids (own_fl G a fl)) (h ++ [Ev KEnter v p a (own_fl G a fl)]) v' p ++ [Ev KExit v' p a (own_fl G a fl)])
      with ([Ev KEnter v p a (own_fl G a fl)] ++ walk_cs (vis_children G a kids (own_fl G a fl)) (h ++ [Ev KEnter v p a (own_fl G a fl)]) v' p ++ [Ev KExit v' p a (own_fl G a fl)]).
    rewrite !exited_app. apply in_or_app. right.
    destruct Hb as [<-|Hb].
    + apply in_or_app. right. now left.
    + apply in_or_app. left. apply CS; [|exact Hb].
      destruct He as [<-|He].
      * exfalso. cbn in SP. apply nodes_from_child_sprefix in Hb. destruct Hb as [st [c [_ [_ P]]]].
        apply prefix_step_sprefix in P. apply sprefix_prefix in P. now apply (prefix_not_sprefix _ _ P).
      * apply in_app_or in He. destruct He as [He|[<-|[]]]; [exact He|].
        exfalso. cbn in SP. apply nodes_from_child_sprefix in Hb. destruct Hb as [st [c [_ [_ P]]]].
        apply prefix_step_sprefix in P. apply sprefix_prefix in P. now apply (prefix_not_sprefix _ _ P).
  - exfalso. destruct He as [<-|[]]. cbn in SP. destruct Hb as [<-|Hb]; [now apply sprefix_neq in SP|].
    apply nodes_from_child_sprefix in Hb. destruct Hb as [st [c [_ [_ P]]]].
    apply prefix_step_sprefix in P. apply sprefix_prefix in P. now apply (prefix_not_sprefix _ _ P).
Qed.

(* a node all of whose ancestors were exited (i.e. descended into) is entered *)
Lemma pwalk_reached t : forall asw h v p fl q,
  wt_from G t = true -> asw = is_wrapper G (tree_ty t) ->
  In q (nodes_from G t p) ->
  (forall b, In b (nodes_from G t p) -> sprefix b q -> In b (exited V (pwalk t asw h v p fl))) ->
  In q (entered V (pwalk t asw h v p fl)).
Proof.
  induction t as [a kids IH] using tree_ind_In. intros asw h v p fl q WT FL Hq ANC.
  cbn [tree_ty] in FL. rewrite pwalk_unfold in *. rewrite nodes_from_unfold in *.
  destruct (by_value G a) eqn:BV.
  { destruct (wt_by_value_leaf G COV a kids WT BV) as [-> NW]. rewrite NW in *. subst asw.
    cbn [flat_map app all_children] in Hq. destruct Hq as [<-|[]]. cbv zeta.
    destruct (enter h v p a (own_fl G a fl)); unfold entered; cbn; now left. }
  set (KN := flat_map (fun sc => nodes_from G (snd sc) (p ++ [fst sc])) (all_children kids)) in *.
  assert (CS : forall fl' h' v' (rest : list (event V)),
            In q KN ->
            (forall b, In b KN -> sprefix b q ->
               In b (exited V (walk_cs (vis_children G a kids fl') h' v' p ++ rest))) ->
            (forall e, In e rest -> e_path e = p) ->
            In q (entered V (walk_cs (vis_children G a kids fl') h' v' p))).
  { intros fl' h' v' rest Hq' ANC' REST.
    apply nodes_from_child_sprefix in Hq'. destruct Hq' as [st [c [A [N P]]]].
    destruct (wt_all_child_vis G COV a kids fl' st c WT BV A) as [x [Hx [S1 S2]]].
    apply in_split in Hx. destruct Hx as [cs1 [cs2 EC]].
    assert (Hx : In x (vis_children G a kids fl')) by (rewrite EC; apply in_elt).
    destruct (wt_vis_child G COV a kids fl' x WT BV Hx) as [W [F _]].
    destruct (vis_children_sub G a kids fl' x Hx) as [kv [K1 K2]].
    pose proof (wt_vis_steps_NoDup G COV a kids fl' WT BV) as NDS. rewrite EC in NDS.
    subst st c. rewrite EC, walk_cs_app, entered_app. apply in_or_app. right.
    cbn [Lemmas.walk_cs]. destruct x as [[[st t] asw'] cfl]. cbn [ch_step ch_node ch_asw ch_fl] in *.
    rewrite entered_app. apply in_or_app. left.
    apply (IH kv _ K1 K2 _ _ _ _ _ q W F N).
    intros b Hb SB.
    assert (HbK : In b KN).
    { apply in_flat_map. exists (st, t). split; [exact A|exact Hb]. }
    specialize (ANC' b HbK SB). rewrite EC, walk_cs_app in ANC'. cbn [Lemmas.walk_cs] in ANC'.
    rewrite <- !app_assoc in ANC'. rewrite !exited_app in ANC'.
    pose proof (nodes_from_prefix G _ _ _ Hb) as PB.
    apply in_app_or in ANC'. destruct ANC' as [X|X].
    { exfalso. apply exited_In in X. destruct X as [e [He [_ EQ]]].
      apply walk_cs_In_step in He. destruct He as [y [Hy PY]]. rewrite EQ in PY.
      pose proof (prefix_step_inj _ _ _ _ PY PB) as ES.
      now apply (NoDup_steps_apart cs1 cs2 (st, t, asw', cfl) y NDS Hy). }
    apply in_app_or in X. destruct X as [X|X]; [exact X|].
    exfalso. apply in_app_or in X. destruct X as [X|X].
    - apply exited_In in X. destruct X as [e [He [_ EQ]]].
      apply walk_cs_In_step in He. destruct He as [y [Hy PY]]. rewrite EQ in PY.
      pose proof (prefix_step_inj _ _ _ _ PY PB) as ES.
      now apply (NoDup_steps_apart_r cs1 cs2 (st, t, asw', cfl) y NDS Hy).
    - apply exited_In in X. destruct X as [e [He [_ EQ]]]. apply REST in He. rewrite EQ in He. subst b.
      apply prefix_step_sprefix in PB. now apply sprefix_neq in PB. }
  subst asw. destruct (is_wrapper G a).
  { cbn [app] in *. apply (CS fl h v []); [exact Hq| |intros e []].
    intros b Hb SB. rewrite app_nil_r. now apply ANC. }
  cbv zeta in *. cbn [app] in Hq.
  destruct Hq as [<-|Hq].
  { destruct (enter h v p a (own_fl G a fl)); unfold entered; cbn; now left. }
  assert (SPQ : sprefix p q).
  { apply nodes_from_child_sprefix in Hq. destruct Hq as [st [c [_ [_ P]]]]. now apply prefix_step_sprefix in P. }
  pose proof (ANC p (or_introl eq_refl) SPQ) as PX.
  destruct (enter h v p a (own_fl G a fl)) as [v'|].
  - change (Ev KEnter v p a (own_fl G a fl) :: walk_cs (vis_children G a kids (own_fl G a fl)) (h ++ [Ev KEnter v p a (own_fl G a fl)]) v' p ++ [Ev KExit v' p a (own_fl G a fl)])
      with ([Ev KEnter v p a (own_fl G a fl)] ++ walk_cs (vis_children G a kids (own_fl G a fl)) (h ++ [Ev KEnter v p a (own_fl G a fl)]) v' p ++ [Ev KExit v' p a (own_fl G a fl)]) in *.
    rewrite !entered_app. apply in_or_app. right. apply in_or_app. left.
    apply (CS _ _ _ [Ev KExit v' p a (own_fl G a fl)]); [exact Hq| |intros e [<-|[]]; reflexivity].
    intros b Hb SB. specialize (ANC b (or_intror Hb) SB).
    rewrite exited_app in ANC. apply in_app_or in ANC. destruct ANC as [X|X]; [|exact X].
    unfold exited in X. cbn in X. destruct X.
  - exfalso. unfold exited in PX. cbn in PX. destruct PX.
Qed.

(* each node is entered at most once, whatever the visitor does *)
Lemma pwalk_entered_NoDup t : forall asw h v p fl,
  wt_from G t = true -> asw = is_wrapper G (tree_ty t) ->
  NoDup (entered V (pwalk t asw h v p fl)).
Proof.
  induction t as [a kids IH] using tree_ind_In. intros asw h v p fl WT FL.
  cbn [tree_ty] in FL. rewrite pwalk_unfold.
  destruct (by_value G a) eqn:BV.
  { destruct (wt_by_value_leaf G COV a kids WT BV) as [-> NW]. rewrite NW in *. subst asw.
    unfold vis_children. rewrite (by_value_visits G a BV). cbn [flat_map Lemmas.walk_cs app]. cbv zeta.
    destruct (enter h v p a (own_fl G a fl)); unfold entered; cbn; (constructor; [intros []|constructor]). }
  assert (CS : forall fl' h' v', NoDup (entered V (walk_cs (vis_children G a kids fl') h' v' p))).
  { intros fl' h' v'.
    pose proof (wt_vis_steps_NoDup G COV a kids fl' WT BV) as NDS.
    assert (SUB : forall x, In x (vis_children G a kids fl') ->
               forall h0 v0, NoDup (entered V (pwalk (ch_node x) (ch_asw x) h0 v0 (p ++ [ch_step x]) (ch_fl x)))).
    { intros x Hx h0 v0. destruct (wt_vis_child G COV a kids fl' x WT BV Hx) as [W [F _]].
      destruct (vis_children_sub G a kids fl' x Hx) as [kv [K1 K2]]. now apply (IH kv _ K1 K2). }
    revert h'. induction (vis_children G a kids fl') as [|x r IHr]; intros h'; [constructor|].
    cbn [map] in NDS. inversion NDS as [|? ? NX NR]; subst.
    destruct x as [[[st t] asw'] cfl]. cbn [Lemmas.walk_cs]. rewrite entered_app. apply NoDup_app'.
    - apply (SUB (st, t, asw', cfl) (or_introl eq_refl)).
    - apply IHr; [exact NR|]. intros y Hy. apply SUB. now right.
    - intros q Q1 Q2. apply entered_In in Q1. destruct Q1 as [e1 [I1 [_ E1]]].
      apply entered_In in Q2. destruct Q2 as [e2 [I2 [_ E2]]].
      apply pwalk_prefix in I1. destruct I1 as [P1 _]. cbn [ch_step] in P1.
      apply walk_cs_In_step in I2. destruct I2 as [y [Hy P2]].
      rewrite E1 in P1. rewrite E2 in P2. pose proof (prefix_step_inj _ _ _ _ P2 P1) as ES.
      apply NX. cbn [ch_step fst] in ES |- *. rewrite <- ES. now apply in_map. }
  subst asw. destruct (is_wrapper G a); [apply CS|]. cbv zeta.
  destruct (enter h v p a (own_fl G a fl)) as [v'|].
  - change (Ev KEnter v p a (own_fl G a fl) :: walk_cs (vis_children G a kids (own_fl G a fl)) (h ++ [Ev KEnter v p a (own_fl G a fl)]) v' p ++ [Ev KExit v' p a (own_fl G a fl)])
      with ([Ev KEnter v p a (own_fl G a fl)] ++ walk_cs (vis_children G a kids (own_fl G a fl)) (h ++ [Ev KEnter v p a (own_fl G a fl)]) v' p ++ [Ev KExit v' p a (own_fl G a fl)]).
    rewrite !entered_app. unfold entered at 1 3. cbn [filter is_enter e_k map e_path app]. rewrite app_nil_r.
    constructor; [|apply CS]. intros X. apply entered_In in X. destruct X as [e [He [_ EQ]]].
    apply walk_cs_sprefix in He. rewrite EQ in He. now apply sprefix_neq in He.
  - unfold entered. cbn. constructor; [intros []|constructor].
Qed.

End Walks.
