(* Walk/Prune.v — exact pruning.  General form (any visitor): a node is entered iff it is a node of the
   tree all of whose ancestors were descended into.  Stop-set form: with a visitor that returns nil
   exactly on a set of nodes, the entered nodes are the nodes without a stopped proper ancestor. *)
From Coq Require Import List Arith Bool Lia Permutation.
From Verif Require Import Walk.Schema Walk.Model Walk.Lemmas Walk.Covers Walk.Trace Walk.Visit Walk.Order.
Import ListNotations.

Definition step_eqb (x y : step) : bool := Nat.eqb (fst x) (fst y) && Nat.eqb (snd x) (snd y).

Fixpoint sprefixb (a q : path) : bool :=
  match a, q with
  | [], _ :: _ => true
  | x :: a', y :: q' => step_eqb x y && sprefixb a' q'
  | _, _ => false
  end.

Lemma step_eqb_eq x y : step_eqb x y = true <-> x = y.
Proof.
  unfold step_eqb. destruct x as [f i], y as [g j]. cbn. rewrite andb_true_iff, !Nat.eqb_eq.
  split; [intros [-> ->]; reflexivity|intros E; inversion E; now split].
Qed.

Lemma sprefixb_spec a q : sprefixb a q = true <-> sprefix a q.
Proof.
  revert q. induction a as [|x a IH]; intros q.
  - destruct q as [|y q]; cbn; split; try discriminate.
    + intros [st [r E]]. discriminate.
    + intros _. now exists y, q.
    + now intros _.
  - destruct q as [|y q]; cbn.
    + split; [discriminate|]. intros [st [r E]]. discriminate.
    + rewrite andb_true_iff, step_eqb_eq, IH. split.
      * intros [-> [st [r ->]]]. now exists st, r.
      * intros [st [r E]]. cbn in E. inversion E; subst. split; [reflexivity|]. now exists st, r.
Qed.

Section Stop.
Variable G : spec.
Hypothesis COV : covers G = true.
Variable V : Type.
Variable stop : path -> bool.

(* the visitor that returns nil exactly at the nodes of the stop set (and itself elsewhere) *)
Definition stop_enter : list (event V) -> V -> path -> ty -> flavour -> option V :=
  fun _ v p _ _ => if stop p then None else Some v.

Lemma bal_exit_not_stopped v h evs :
  bal V stop_enter v h evs -> forall a, In a (exited V evs) -> stop a = false.
Proof.
  induction 1 as [v h|v h e rest K Ev N R IH|v h e v' inner rest K Ev S I IHI F R IHR]; intros a Ha.
  - destruct Ha.
  - apply IH. apply exited_In in Ha. destruct Ha as [x [[<-|Hx] [KX EQ]]]; [congruence|].
    apply exited_In. now exists x.
  - unfold stop_enter in S. destruct (stop (e_path e)) eqn:ST; [discriminate|].
    apply exited_In in Ha. destruct Ha as [x [[<-|Hx] [KX EQ]]]; [congruence|].
    apply in_app_or in Hx. destruct Hx as [Hx|[<-|Hx]].
    + apply IHI. apply exited_In. now exists x.
    + cbn in EQ. now subst a.
    + apply IHR. apply exited_In. now exists x.
Qed.

Lemma bal_enter_exit v h evs :
  bal V stop_enter v h evs -> forall a, In a (entered V evs) -> stop a = false -> In a (exited V evs).
Proof.
  induction 1 as [v h|v h e rest K Ev N R IH|v h e v' inner rest K Ev S I IHI F R IHR]; intros a Ha ST.
  - destruct Ha.
  - unfold stop_enter in N. destruct (stop (e_path e)) eqn:SE; [|discriminate].
    apply entered_In in Ha. destruct Ha as [x [[<-|Hx] [KX EQ]]]; [congruence|].
    assert (In a (exited V rest)) by (apply IH; [apply entered_In; now exists x|exact ST]).
    apply exited_In in H. destruct H as [y [Hy [KY EY]]]. apply exited_In. exists y. split; [now right|now split].
  - apply entered_In in Ha. destruct Ha as [x [[<-|Hx] [KX EQ]]].
    + apply exited_In. exists (exit_of V v' e). split; [right; apply in_or_app; right; now left|now split].
    + apply in_app_or in Hx. destruct Hx as [Hx|[<-|Hx]].
      * assert (In a (exited V inner)) by (apply IHI; [apply entered_In; now exists x|exact ST]).
        apply exited_In in H. destruct H as [y [Hy [KY EY]]]. apply exited_In. exists y.
        split; [right; apply in_or_app; now left|now split].
      * discriminate.
      * assert (In a (exited V rest)) by (apply IHR; [apply entered_In; now exists x|exact ST]).
        apply exited_In in H. destruct H as [y [Hy [KY EY]]]. apply exited_In. exists y.
        split; [right; apply in_or_app; right; now right|now split].
Qed.

Definition not_below_stopped (nodes : list path) (q : path) : bool :=
  forallb (fun a => negb (sprefixb a q && stop a)) nodes.

Lemma not_below_stopped_spec nodes q :
  not_below_stopped nodes q = true <-> forall a, In a nodes -> sprefix a q -> stop a = false.
Proof.
  unfold not_below_stopped. rewrite forallb_forall. split.
  - intros H a Ha SP. specialize (H a Ha). apply negb_true_iff in H.
    apply sprefixb_spec in SP. rewrite SP in H. exact H.
  - intros H a Ha. apply negb_true_iff. destruct (sprefixb a q) eqn:SB; [|reflexivity].
    apply sprefixb_spec in SB. cbn. now apply H.
Qed.

Lemma sprefix_trans a b c : sprefix a b -> sprefix b c -> sprefix a c.
Proof. intros H1 H2. eapply sprefix_prefix_trans; [exact H1|now apply sprefix_prefix]. Qed.

Lemma sprefix_length a b : sprefix a b -> length a < length b.
Proof. intros [st [r ->]]. rewrite app_length. cbn. lia. Qed.

Lemma stop_walk_entered_iff t v0 q :
  wt_from G t = true -> false = is_wrapper G (tree_ty t) ->
  let evs := pwalk G V stop_enter t false [] v0 [] Orig in
  In q (entered V evs) <->
  In q (nodes_from G t []) /\ not_below_stopped (nodes_from G t []) q = true.
Proof.
  intros WT FL evs. rewrite not_below_stopped_spec.
  pose proof (pwalk_bal G V stop_enter t false [] v0 [] Orig) as BAL. fold evs in BAL.
  split.
  - intros H. apply entered_In in H. destruct H as [e [He [K EQ]]].
    split; [rewrite <- EQ; now apply (pwalk_in_nodes G COV V stop_enter t false [] v0 [] Orig e WT FL)|].
    intros a Ha SP. apply (bal_exit_not_stopped _ _ _ BAL).
    rewrite <- EQ in SP. now apply (pwalk_below_exited G COV V stop_enter t false [] v0 [] Orig e a WT FL).
  - intros [Hq NS].
    (* every ancestor of q is exited: by induction on its depth *)
    assert (ANC : forall n a, length a < n -> In a (nodes_from G t []) -> sprefix a q -> In a (exited V evs)).
    { induction n as [|n IHn]; intros a L Ha SP; [lia|].
      apply (bal_enter_exit _ _ _ BAL); [|now apply NS].
      apply (pwalk_reached G COV V stop_enter t false [] v0 [] Orig a WT FL Ha).
      intros b Hb SB. apply IHn; [apply sprefix_length in SB; lia|exact Hb|].
      eapply sprefix_trans; [exact SB|exact SP]. }
    apply (pwalk_reached G COV V stop_enter t false [] v0 [] Orig q WT FL Hq).
    intros b Hb SB. apply (ANC (S (length b))); [lia|exact Hb|exact SB].
Qed.

End Stop.
