(* Walk/Harness.v — correspondence driver for the Walk model (C18).
   case:  mode  nbits b_1..b_nbits  <tree>
     mode = 2: the first observation is 2 (shrunk cases: well-typedness not compared); otherwise the
     first observation is well_typed(tree) and the Go side answers with its expectation (1 for trees
     of js.Parse and for well-formed synthetic trees, 0 for deliberately ill-formed unions)
     tree := ty nfields (field nkids tree^nkids)^nfields
     the visitor returns nil at its k-th Enter call (k from 0) iff b_(k+1) = 1, otherwise it returns
     a fresh visitor labelled k+1 (the root visitor is labelled 0)
   observation:  well_typed  panicked  then per event:  kind(0 Enter,1 Exit) visitor ty flavour |path| (f i)* *)
From Verif Require Import Common.Base Common.Codec Walk.Schema Walk.Model Gen.WalkSchema.

Definition gen_spec : spec := mkSpec gen_schema gen_wrapper gen_alts gen_table.

Fixpoint dec_tree (fuel : nat) (l : list Z) : option (tree * list Z) :=
  match fuel with
  | O => None
  | S k =>
      match l with
      | a :: nf :: r =>
          match dec_fields k (Z.to_nat nf) r with
          | Some (kids, r') => Some (Node (Z.to_nat a) kids, r')
          | None => None
          end
      | _ => None
      end
  end
with dec_fields (fuel : nat) (n : nat) (l : list Z) : option (list (field * list tree) * list Z) :=
  match fuel with
  | O => None
  | S k =>
      match n with
      | O => Some ([], l)
      | S n' =>
          match l with
          | f :: nk :: r =>
              match dec_list k (Z.to_nat nk) r with
              | Some (ts, r') =>
                  match dec_fields k n' r' with
                  | Some (fs, r'') => Some ((Z.to_nat f, ts) :: fs, r'')
                  | None => None
                  end
              | None => None
              end
          | _ => None
          end
      end
  end
with dec_list (fuel : nat) (n : nat) (l : list Z) : option (list tree * list Z) :=
  match fuel with
  | O => None
  | S k =>
      match n with
      | O => Some ([], l)
      | S n' =>
          match dec_tree k l with
          | Some (t, r) =>
              match dec_list k n' r with
              | Some (ts, r') => Some (t :: ts, r')
              | None => None
              end
          | None => None
          end
      end
  end.

Definition bits_enter (bits : list bool) (h : list (event nat)) (v : nat) (p : path) (t : ty) (fl : flavour)
  : option nat :=
  let k := length (filter (is_enter nat) h) in
  if nth k bits false then None else Some (S k).

Definition enc_fl (fl : flavour) : Z :=
  match fl with Orig => 0 | Copy => 1 | ByVal => 2 | NilPtr => 3 end.

Definition enc_path (p : path) : list Z :=
  len p :: flat_map (fun st => [Z.of_nat (fst st); Z.of_nat (snd st)]) p.

Definition enc_event (e : event nat) : list Z :=
  (match e_k e with KEnter => 0 | KExit => 1 end) :: Z.of_nat (e_v e) :: Z.of_nat (e_ty e) ::
  enc_fl (e_fl e) :: enc_path (e_path e).

Definition run_walk (l : list Z) : list Z :=
  let mode := hdz l in
  let '(bs, r) := take_list (tlz l) in
  let bits := map (fun b => negb (b =? 0)) bs in
  match dec_tree (S (length r)) r with
  | None => [-1]
  | Some (t, _) =>
      let '(evs, pn) := walk_p gen_spec nat (bits_enter bits) 0%nat t in
      (if mode =? 2 then 2 else if well_typed gen_spec t then 1 else 0) :: (if pn then 1 else 0) :: flat_map enc_event evs
  end.
