(* Walk/Visit.v — theorems about well-typed trees when the table covers the schema:
   every node once, nothing else, parent first, exact pruning. *)
From Coq Require Import List Arith Bool Lia Permutation.
From Verif Require Import Walk.Schema Walk.Model Walk.Lemmas Walk.Covers Walk.Trace.
Import ListNotations.

(* ---- lists ------------------------------------------------------------------------------------------------ *)
Lemma app_split {A} (a b pre post : list A) e :
  a ++ b = pre ++ e :: post ->
  (exists post1, a = pre ++ e :: post1 /\ post = post1 ++ b) \/
  (exists pre2, pre = a ++ pre2 /\ b = pre2 ++ e :: post).
Proof.
  revert pre. induction a as [|x r IH]; intros pre H.
  - right. exists pre. now split.
  - destruct pre as [|y pre'].
    + left. cbn in H. inversion H; subst. exists r. now split.
    + cbn in H. inversion H; subst. destruct (IH pre' H2) as [[post1 [E1 E2]]|[pre2 [E1 E2]]].
      * left. exists post1. split; [now rewrite E1|exact E2].
      * right. exists pre2. split; [now rewrite E1|exact E2].
Qed.

Lemma NoDup_app' {A} (a b : list A) :
  NoDup a -> NoDup b -> (forall x, In x a -> ~ In x b) -> NoDup (a ++ b).
Proof.
  induction a as [|x r IH]; intros Na Nb D; [exact Nb|].
  inversion Na as [|? ? Hx Nr]; subst. cbn. constructor.
  - intros H. apply in_app_or in H. destruct H as [H|H]; [now apply Hx|]. apply (D x); [now left|exact H].
  - apply IH; [exact Nr|exact Nb|]. intros y Hy. apply D. now right.
Qed.

Lemma NoDup_flat_map {A B} (F : A -> list B) (l : list A) :
  NoDup l -> (forall x, In x l -> NoDup (F x)) ->
  (forall x y b, In x l -> In y l -> x <> y -> In b (F x) -> ~ In b (F y)) ->
  NoDup (flat_map F l).
Proof.
  induction l as [|x r IH]; intros ND N1 D; [constructor|].
  inversion ND as [|? ? Hx Nr]; subst. cbn. apply NoDup_app'.
  - apply N1. now left.
  - apply IH; [exact Nr| |].
    + intros y Hy. apply N1. now right.
    + intros y z b Hy Hz. apply D; now right.
  - intros b Hb Hin. apply in_flat_map in Hin. destruct Hin as [y [Hy Hb']].
    apply (D x y b); [now left|now right| |exact Hb|exact Hb']. intros ->. now apply Hx.
Qed.

Lemma NoDup_map_fst_inj {A B} (l : list (A * B)) s c1 c2 :
  NoDup (map fst l) -> In (s, c1) l -> In (s, c2) l -> c1 = c2.
Proof.
  induction l as [|x r IH]; intros ND H1 H2; [destruct H1|].
  cbn in ND. inversion ND as [|? ? Hx Nr]; subst.
  destruct H1 as [->|H1], H2 as [E|H2].
  - now inversion E.
  - exfalso. apply Hx. cbn. change s with (fst (s, c2)). now apply in_map.
  - exfalso. apply Hx. subst x. cbn. change s with (fst (s, c1)). now apply in_map.
  - now apply IH.
Qed.

Lemma NoDup_map_of_NoDup {A B} (f : A -> B) l : NoDup (map f l) -> NoDup l.
Proof.
  induction l as [|x r IH]; intros H; [constructor|]. cbn in H. inversion H as [|? ? Hx Nr]; subst.
  constructor; [|now apply IH]. intros Hin. apply Hx. now apply in_map.
Qed.

Lemma all_children_steps_NoDup {A} (kids : list (field * list A)) :
  NoDup (map fst kids) -> NoDup (map fst (all_children kids)).
Proof.
  unfold all_children. induction kids as [|kv r IH]; intros ND; [constructor|].
  cbn [map] in ND. inversion ND as [|? ? Hnot ND']; subst.
  cbn [flat_map]. rewrite map_app. apply NoDup_app'.
  - apply elems_steps_NoDup.
  - now apply IH.
  - intros st H1 H2. apply in_map_iff in H1. destruct H1 as [[st1 c1] [E1 H1]].
    apply in_map_iff in H2. destruct H2 as [[st2 c2] [E2 H2]]. cbn in E1, E2. subst st1 st2.
    apply elems_steps_In in H1. destruct H1 as [F1 _].
    apply in_flat_map in H2. destruct H2 as [kv' [K H2]]. apply elems_steps_In in H2. destruct H2 as [F2 _].
    apply Hnot. rewrite <- F1, F2. now apply in_map.
Qed.

Lemma prefix_not_sprefix p a : prefix p a -> sprefix a p -> False.
Proof.
  intros [r ->] [st [r' E]]. apply (f_equal (@length _)) in E. rewrite !app_length in E. cbn in E. lia.
Qed.

Section WithSpec.
Variable G : spec.
Hypothesis COV : covers G = true.

Lemma wt_children a kids kv c :
  wt_from G (Node a kids) = true -> In kv kids -> In c (snd kv) -> wt_from G c = true.
Proof.
  rewrite wt_from_unfold. intros H K1 K2. apply andb_true_iff in H. destruct H as [_ H].
  rewrite forallb_forall in H. specialize (H kv K1). rewrite forallb_forall in H. now apply H.
Qed.

Lemma wt_node_ok a kids : wt_from G (Node a kids) = true -> node_ok G a (mapkids tree_ty kids) = true.
Proof. rewrite wt_from_unfold. intros H. apply andb_true_iff in H. now destruct H. Qed.

Lemma not_by_value_lt a kids :
  node_ok G a (mapkids tree_ty kids) = true -> by_value G a = false -> a < ntypes G.
Proof. unfold by_value. intros _ H. now apply Nat.leb_gt in H. Qed.

(* everything one needs to know about a walked child of a well-typed node *)
Lemma wt_vis_child a kids fl x :
  wt_from G (Node a kids) = true -> by_value G a = false -> In x (vis_children G a kids fl) ->
  wt_from G (ch_node x) = true /\ ch_asw x = is_wrapper G (tree_ty (ch_node x)) /\
  In (ch_step x, ch_node x) (all_children kids).
Proof.
  intros WT BV Hx. pose proof (wt_node_ok _ _ WT) as OK. pose proof (not_by_value_lt _ _ OK BV) as LT.
  split; [|split].
  - destruct (vis_children_sub G a kids fl x Hx) as [kv [K1 K2]]. now apply (wt_children a kids kv).
  - now apply (vis_children_wrapper_flag G COV a kids fl x LT OK).
  - eapply Permutation_in; [apply (vis_children_perm G COV a kids fl LT OK)|].
    change (ch_step x, ch_node x) with (proj_sc x). now apply in_map.
Qed.

Lemma wt_vis_steps_NoDup a kids fl :
  wt_from G (Node a kids) = true -> by_value G a = false ->
  NoDup (map ch_step (vis_children G a kids fl)).
Proof.
  intros WT BV. pose proof (wt_node_ok _ _ WT) as OK. pose proof (not_by_value_lt _ _ OK BV) as LT.
  destruct (node_ok_keys G COV a kids LT OK) as [_ ND].
  assert (P : Permutation (map fst (map proj_sc (vis_children G a kids fl))) (map fst (all_children kids))).
  { apply Permutation_map. now apply vis_children_perm. }
  rewrite map_map in P. apply Permutation_sym in P.
  eapply Permutation_NoDup; [exact P|]. now apply all_children_steps_NoDup.
Qed.

Lemma wt_all_child_vis a kids fl st c :
  wt_from G (Node a kids) = true -> by_value G a = false -> In (st, c) (all_children kids) ->
  exists x, In x (vis_children G a kids fl) /\ ch_step x = st /\ ch_node x = c.
Proof.
  intros WT BV H. pose proof (wt_node_ok _ _ WT) as OK. pose proof (not_by_value_lt _ _ OK BV) as LT.
  apply (Permutation_in _ (Permutation_sym (vis_children_perm G COV a kids fl LT OK))) in H.
  apply in_map_iff in H. destruct H as [x [E Hx]]. exists x. split; [exact Hx|].
  unfold proj_sc in E. inversion E. now split.
Qed.

Lemma wt_by_value_leaf a kids :
  wt_from G (Node a kids) = true -> by_value G a = true -> kids = [] /\ is_wrapper G a = false.
Proof.
  intros WT BV. split; [|now apply by_value_not_wrapper].
  apply (by_value_no_kids G a kids BV). now apply wt_node_ok.
Qed.

Lemma wt_all_children_NoDup a kids :
  wt_from G (Node a kids) = true -> NoDup (map fst (all_children kids)).
Proof.
  intros WT. destruct (by_value G a) eqn:BV.
  - destruct (wt_by_value_leaf _ _ WT BV) as [-> _]. constructor.
  - pose proof (wt_node_ok _ _ WT) as OK. pose proof (not_by_value_lt _ _ OK BV) as LT.
    apply all_children_steps_NoDup. now destruct (node_ok_keys G COV a kids LT OK).
Qed.

(* ---- the nodes of a tree ------------------------------------------------------------------------------------- *)

Lemma all_children_sub {A} (kids : list (field * list A)) st c :
  In (st, c) (all_children kids) -> exists kv, In kv kids /\ In c (snd kv).
Proof.
  intros H. apply all_children_In in H. destruct H as [kv [K H]]. exists kv. split; [exact K|].
  apply elems_steps_In in H. destruct H as [_ [_ H]]. now apply nth_error_In in H.
Qed.

Lemma nodes_from_prefix t : forall p q, In q (nodes_from G t p) -> prefix p q.
Proof.
  induction t as [a kids IH] using tree_ind_In. intros p q H. rewrite nodes_from_unfold in H.
  apply in_app_or in H. destruct H as [H|H].
  - destruct (is_wrapper G a); [destruct H|]. destruct H as [<-|[]]. apply prefix_refl.
  - apply in_flat_map in H. destruct H as [[st c] [H1 H2]]. cbn in H2.
    destruct (all_children_sub kids st c H1) as [kv [K1 K2]].
    apply (IH kv c K1 K2) in H2. apply sprefix_prefix. now apply prefix_step_sprefix in H2.
Qed.

Lemma nodes_from_child_sprefix (kids : list (field * list tree)) p q :
  In q (flat_map (fun sc => nodes_from G (snd sc) (p ++ [fst sc])) (all_children kids)) ->
  exists st c, In (st, c) (all_children kids) /\ In q (nodes_from G c (p ++ [st])) /\ prefix (p ++ [st]) q.
Proof.
  intros H. apply in_flat_map in H. destruct H as [[st c] [H1 H2]]. cbn in H2.
  exists st, c. split; [exact H1|]. split; [exact H2|]. now apply nodes_from_prefix in H2.
Qed.

Lemma nodes_from_NoDup t : forall p, wt_from G t = true -> NoDup (nodes_from G t p).
Proof.
  induction t as [a kids IH] using tree_ind_In. intros p WT. rewrite nodes_from_unfold.
  apply NoDup_app'.
  - destruct (is_wrapper G a); constructor; [intros []|constructor].
  - apply NoDup_flat_map.
    + apply (NoDup_map_of_NoDup fst). apply (wt_all_children_NoDup a). exact WT.
    + intros [st c] H. cbn. destruct (all_children_sub kids st c H) as [kv [K1 K2]].
      apply (IH kv c K1 K2). now apply (wt_children a kids kv).
    + intros [s1 c1] [s2 c2] q H1 H2 NE Q1 Q2. cbn in Q1, Q2.
      apply nodes_from_prefix in Q1. apply nodes_from_prefix in Q2.
      pose proof (prefix_step_inj _ _ _ _ Q1 Q2) as ->.
      apply NE. f_equal. eapply NoDup_map_fst_inj; [apply (wt_all_children_NoDup a); exact WT|exact H1|exact H2].
  - intros q Hq Hin. destruct (is_wrapper G a); [destruct Hq|]. destruct Hq as [<-|[]].
    apply nodes_from_child_sprefix in Hin. destruct Hin as [st [c [_ [_ H]]]].
    apply prefix_step_sprefix in H. now apply sprefix_neq in H.
Qed.

End WithSpec.

Section Walks.
Variable G : spec.
Hypothesis COV : covers G = true.
Variable V : Type.
Variable enter : list (event V) -> V -> path -> ty -> flavour -> option V.
Notation pwalk := (pwalk G V enter).
Notation walk_cs := (walk_cs G V enter).

Lemma entered_In (evs : list (event V)) q :
  In q (entered V evs) <-> exists e, In e evs /\ e_k e = KEnter /\ e_path e = q.
Proof.
  unfold entered. rewrite in_map_iff. split.
  - intros [e [E H]]. apply filter_In in H. destruct H as [H1 H2]. exists e. split; [exact H1|].
    split; [|exact E]. unfold is_enter in H2. now destruct (e_k e).
  - intros [e [H1 [H2 E]]]. exists e. split; [exact E|]. apply filter_In. split; [exact H1|].
    unfold is_enter. now rewrite H2.
Qed.

Lemma exited_In (evs : list (event V)) q :
  In q (exited V evs) <-> exists e, In e evs /\ e_k e = KExit /\ e_path e = q.
Proof.
  unfold exited. rewrite in_map_iff. split.
  - intros [e [E H]]. apply filter_In in H. destruct H as [H1 H2]. exists e. split; [exact H1|].
    split; [|exact E]. unfold is_exit in H2. now destruct (e_k e).
  - intros [e [H1 [H2 E]]]. exists e. split; [exact E|]. apply filter_In. split; [exact H1|].
    unfold is_exit. now rewrite H2.
Qed.

Lemma entered_app (a b : list (event V)) : entered V (a ++ b) = entered V a ++ entered V b.
Proof. unfold entered. now rewrite filter_app, map_app. Qed.

(* ---- nothing else: every event is about a node of the tree ----------------------------------------------------- *)

Lemma pwalk_in_nodes t : forall asw h v p fl e,
  wt_from G t = true -> asw = is_wrapper G (tree_ty t) ->
  In e (pwalk t asw h v p fl) -> In (e_path e) (nodes_from G t p).
Proof.
  induction t as [a kids IH] using tree_ind_In. intros asw h v p fl e WT FL H.
  cbn [tree_ty] in FL. rewrite pwalk_unfold in H. rewrite nodes_from_unfold.
  assert (CS : forall fl' h' v', by_value G a = false ->
            In e (walk_cs (vis_children G a kids fl') h' v' p) ->
            In (e_path e) (flat_map (fun sc => nodes_from G (snd sc) (p ++ [fst sc])) (all_children kids))).
  { intros fl' h' v' BV H'. apply walk_cs_In in H'. destruct H' as [cs1 [x [cs2 [E H']]]].
    assert (Hx : In x (vis_children G a kids fl')) by (rewrite E; apply in_elt).
    destruct (wt_vis_child G COV a kids fl' x WT BV Hx) as [W [F A]].
    destruct (vis_children_sub G a kids fl' x Hx) as [kv [K1 K2]].
    apply (IH kv _ K1 K2 _ _ _ _ _ _ W F) in H'.
    apply in_flat_map. exists (ch_step x, ch_node x). split; [exact A|exact H']. }
  destruct (by_value G a) eqn:BV.
  - destruct (wt_by_value_leaf G COV a kids WT BV) as [-> NW]. rewrite NW in *. subst asw.
    unfold vis_children in H. rewrite (by_value_visits G a BV) in H. cbn [flat_map Lemmas.walk_cs app] in H.
    cbv zeta in H. apply in_or_app. left.
    destruct (enter h v p a (own_fl G a fl)); [destruct H as [<-|[<-|[]]]|destruct H as [<-|[]]]; now left.
  - specialize (fun fl' h' v' => CS fl' h' v' eq_refl). subst asw. destruct (is_wrapper G a).
    + cbn [app]. now apply CS in H.
    + cbv zeta in H. destruct (enter h v p a (own_fl G a fl)) as [v'|].
      * destruct H as [<-|H]; [now left|]. apply in_app_or in H. destruct H as [H|[<-|[]]]; [|now left].
        right. now apply CS in H.
      * destruct H as [<-|[]]. now left.
Qed.

(* ---- every node exactly once when the visitor descends everywhere ---------------------------------------------- *)

Hypothesis DESC : forall h v p a fl, enter h v p a fl <> None.

Lemma entered_walk_cs cs (N : step * tree -> list path) : forall h v p,
  (forall x, In x cs -> forall h v, Permutation (entered V (pwalk (ch_node x) (ch_asw x) h v (p ++ [ch_step x]) (ch_fl x)))
                                                 (N (ch_step x, ch_node x))) ->
  Permutation (entered V (walk_cs cs h v p)) (flat_map N (map proj_sc cs)).
Proof.
  induction cs as [|x r IH]; intros h v p HX; [constructor|].
  destruct x as [[[st t] asw] cfl]. cbn [Lemmas.walk_cs map flat_map]. rewrite entered_app.
  apply Permutation_app.
  - apply (HX (st, t, asw, cfl) (or_introl eq_refl)).
  - apply IH. intros y Hy. apply HX. now right.
Qed.

Lemma pwalk_entered_perm t : forall asw h v p fl,
  wt_from G t = true -> asw = is_wrapper G (tree_ty t) ->
  Permutation (entered V (pwalk t asw h v p fl)) (nodes_from G t p).
Proof.
  induction t as [a kids IH] using tree_ind_In. intros asw h v p fl WT FL.
  cbn [tree_ty] in FL. rewrite pwalk_unfold, nodes_from_unfold.
  destruct (by_value G a) eqn:BV.
  - destruct (wt_by_value_leaf G COV a kids WT BV) as [-> NW]. rewrite NW in *. subst asw.
    unfold vis_children. rewrite (by_value_visits G a BV). cbn [flat_map Lemmas.walk_cs app all_children].
    cbv zeta. destruct (enter h v p a (own_fl G a fl)) eqn:E; [|now apply DESC in E].
    cbn. apply Permutation_refl.
  - pose proof (wt_node_ok G _ _ WT) as OK. pose proof (not_by_value_lt G _ _ OK BV) as LT.
    assert (CS : forall fl' h' v',
              Permutation (entered V (walk_cs (vis_children G a kids fl') h' v' p))
                          (flat_map (fun sc => nodes_from G (snd sc) (p ++ [fst sc])) (all_children kids))).
    { intros fl' h' v'.
      eapply Permutation_trans.
      - apply (entered_walk_cs _ (fun sc => nodes_from G (snd sc) (p ++ [fst sc]))).
        intros x Hx h0 v0. cbn [fst snd].
        destruct (wt_vis_child G COV a kids fl' x WT BV Hx) as [W [F _]].
        destruct (vis_children_sub G a kids fl' x Hx) as [kv [K1 K2]].
        now apply (IH kv _ K1 K2).
      - apply Permutation_flat_map. now apply vis_children_perm. }
    subst asw. destruct (is_wrapper G a); [apply CS|].
    cbv zeta. destruct (enter h v p a (own_fl G a fl)) as [v'|] eqn:E; [|now apply DESC in E].
    cbn [app]. unfold entered at 1. cbn [filter is_enter e_k map e_path].
    constructor. fold (entered V (walk_cs (vis_children G a kids (own_fl G a fl)) (h ++ [Ev KEnter v p a (own_fl G a fl)]) v' p ++ [Ev KExit v' p a (own_fl G a fl)])).
    rewrite entered_app. unfold entered at 2. cbn [filter is_enter e_k map]. rewrite app_nil_r. apply CS.
Qed.

End Walks.
