(* Walk/Schema.v — the vocabulary of the generated file Gen/WalkSchema.v (translator T2):
   kinds of node-valued fields (from js/ast.go) and shapes of the visits in the switch arms of
   Walk (from js/walk.go).  Definitions only. *)
From Coq Require Import List Arith Bool.
Import ListNotations.

Definition ty := nat.      (* index of a node struct type of ast.go *)
Definition field := nat.   (* index of a node-valued field within its struct *)

(* How a node-valued field holds its children. *)
Inductive kind :=
| KOne     (* F T       struct value (named or embedded): always one child, address &n.F *)
| KOptI    (* F IExpr   interface value: nil or one child *)
| KOptP    (* F *T      pointer: nil or one child *)
| KListI   (* F []IStmt slice of interface values *)
| KListS   (* F []T     slice of node structs, element address &n.F[i] *)
| KListW.  (* F []W     slice of wrapper structs (ClassDecl.List): elements are never passed to Enter *)

(* The statement shapes translator T2 recognises in a switch arm. *)
Inductive shape :=
| SDirect       (* Walk(v, n.F) *)
| SAddr         (* Walk(v, &n.F) *)
| SGuard        (* if n.F != nil { Walk(v, n.F) } *)
| SLoopIdx      (* [if n.F != nil {] for i := 0; i < len(n.F); i++ { Walk(v, n.F[i]) } [}] *)
| SLoopIdxAddr  (* same with Walk(v, &n.F[i]) *)
| SLoopRange    (* for _, item := range n.F { Walk(v, item) } *)
| SLoopWrap     (* for _, item := range n.F { if item.A != nil {Walk(v, item.A)} else if ... else {Walk(v, &item.C)} }
                   : item is a COPY of the element, &item.C is not an address inside the tree *)
| SLoopWrapAddr. (* for i := range n.F { item := &n.F[i]; <the same chain> } *)

Record fdesc := mkf { f_id : field; f_kind : kind; f_target : option ty }.

(* One statement of an arm: a single visit, or an if / else-if / else chain of which the first
   alternative whose field is non-nil is walked (the final else, if any, unconditionally). *)
Inductive visit :=
| V1 (s : shape) (f : field)
| VAlt (alts : list (shape * field)).

(* What Go does for a visit of shape s on a field of kind k. *)
Inductive mode :=
| MNormal     (* the children are passed to Walk by address *)
| MByValue    (* a struct VALUE is passed: Enter/Exit happen, but no `case T:` arm exists, children are skipped *)
| MNilUnsafe  (* an unguarded pointer: a nil field is passed as a typed nil (non-nil interface) *)
| MBad.       (* does not compile in Go; the translator rejects it *)

Definition mode_of (s : shape) (k : kind) : mode :=
  match s, k with
  | SDirect, KOptI => MNormal
  | SDirect, KOptP => MNilUnsafe
  | SDirect, KOne => MByValue
  | SAddr, KOne => MNormal
  | SGuard, KOptI => MNormal
  | SGuard, KOptP => MNormal
  | SLoopIdx, KListI => MNormal
  | SLoopRange, KListI => MNormal
  | SLoopIdx, KListS => MByValue
  | SLoopRange, KListS => MByValue
  | SLoopIdxAddr, KListS => MNormal
  | SLoopWrap, KListW => MNormal
  | SLoopWrapAddr, KListW => MNormal
  | _, _ => MBad
  end.

(* The four generated tables, indexed by type. *)
Record spec := mkSpec {
  sp_schema  : list (list fdesc);            (* ast.go: node-valued fields *)
  sp_wrapper : list bool;                    (* wrapper types *)
  sp_alts    : list (list (list field));     (* alternative groups (at most one member set) *)
  sp_table   : list (option (list visit))    (* walk.go: the arm of each type *)
}.
