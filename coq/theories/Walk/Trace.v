(* Walk/Trace.v — the shape of every trace of the walk (all trees, all tables, all visitors):
   paths extend the path of the walked subtree; the trace is a well-nested sequence of
   Enter ... Exit blocks, threaded through the visitors that Enter returns. *)
From Coq Require Import List Arith Bool Lia Permutation.
From Verif Require Import Walk.Schema Walk.Model Walk.Lemmas Walk.Covers.
Import ListNotations.

Definition prefix (p q : path) : Prop := exists r, q = p ++ r.
Definition sprefix (p q : path) : Prop := exists st r, q = p ++ st :: r.

Lemma prefix_refl p : prefix p p.
Proof. exists []. now rewrite app_nil_r. Qed.

Lemma sprefix_prefix p q : sprefix p q -> prefix p q.
Proof. intros [st [r ->]]. now exists (st :: r). Qed.

Lemma prefix_step_sprefix p st q : prefix (p ++ [st]) q -> sprefix p q.
Proof. intros [r ->]. exists st, r. now rewrite <- app_assoc. Qed.

Lemma sprefix_neq p q : sprefix p q -> q <> p.
Proof.
  intros [st [r ->]] E. apply (f_equal (@length _)) in E. rewrite app_length in E. cbn in E. lia.
Qed.

Lemma prefix_trans p q r : prefix p q -> prefix q r -> prefix p r.
Proof. intros [a ->] [b ->]. exists (a ++ b). now rewrite app_assoc. Qed.

Lemma sprefix_prefix_trans p q r : sprefix p q -> prefix q r -> sprefix p r.
Proof. intros [st [a ->]] [b ->]. exists st, (a ++ b). now rewrite <- !app_assoc. Qed.

Lemma prefix_sprefix_trans p q r : prefix p q -> sprefix q r -> sprefix p r.
Proof.
  intros [a ->] [st [b ->]]. destruct a as [|s a'].
  - exists st, b. now rewrite app_nil_r.
  - exists s, (a' ++ st :: b). now rewrite <- !app_assoc.
Qed.

(* two extensions of p by different steps have nothing in common *)
Lemma prefix_step_inj p s1 s2 q : prefix (p ++ [s1]) q -> prefix (p ++ [s2]) q -> s1 = s2.
Proof.
  intros [a ->] [b E]. rewrite <- !app_assoc in E. apply app_inv_head in E. cbn in E. now inversion E.
Qed.

Lemma sprefix_irrefl_step p st q : prefix (p ++ [st]) q -> ~ prefix q p.
Proof.
  intros [a ->] [b E]. apply (f_equal (@length _)) in E. rewrite !app_length in E. cbn in E. lia.
Qed.

Section TreeIndIn.
  Variable P : tree -> Prop.
  Hypothesis HN : forall a kids, (forall kv c, In kv kids -> In c (snd kv) -> P c) -> P (Node a kids).
  Lemma tree_ind_In t : P t.
  Proof.
    induction t as [a kids IH] using tree_ind'. apply HN. intros kv c Hkv Hc.
    rewrite Forall_forall in IH. specialize (IH kv Hkv). rewrite Forall_forall in IH. now apply IH.
  Qed.
End TreeIndIn.

Definition ch_step {A} (x : step * A * bool * flavour) : step := fst (fst (fst x)).
Definition ch_node {A} (x : step * A * bool * flavour) : A := snd (fst (fst x)).
Definition ch_asw {A} (x : step * A * bool * flavour) : bool := snd (fst x).
Definition ch_fl {A} (x : step * A * bool * flavour) : flavour := snd x.

Section WithSpec.
Variable G : spec.

(* a walked child is a child *)
Lemma vis_children_sub a (kids : list (field * list tree)) fl x :
  In x (vis_children G a kids fl) -> exists kv, In kv kids /\ In (ch_node x) (snd kv).
Proof.
  intros H. apply vis_children_In in H. destruct H as [d [_ [_ [_ H]]]].
  apply kids_of_In in H. destruct H as [kv [H1 [_ H2]]]. now exists kv.
Qed.

Section WithVisitor.
Variable V : Type.
Variable enter : list (event V) -> V -> path -> ty -> flavour -> option V.
Notation pwalk := (pwalk G V enter).
Notation walk_cs := (walk_cs G V enter).

(* ---- where the events of a walk lie ------------------------------------------------------------------ *)

Lemma walk_cs_In cs h v p e :
  In e (walk_cs cs h v p) ->
  exists cs1 x cs2, cs = cs1 ++ x :: cs2 /\
    In e (pwalk (ch_node x) (ch_asw x) (h ++ walk_cs cs1 h v p) v (p ++ [ch_step x]) (ch_fl x)).
Proof.
  revert h. induction cs as [|c r IH]; intros h H; [destruct H|].
  destruct c as [[[st t] asw] cfl]. cbn [Lemmas.walk_cs] in H. apply in_app_or in H. destruct H as [H|H].
  - exists [], (st, t, asw, cfl), r. split; [reflexivity|]. cbn. now rewrite app_nil_r.
  - apply IH in H. destruct H as [cs1 [x [cs2 [E H]]]]. exists ((st, t, asw, cfl) :: cs1), x, cs2.
    split; [now rewrite E|]. cbn [Lemmas.walk_cs]. now rewrite <- app_assoc in H.
Qed.

Lemma pwalk_prefix t : forall asw h v p fl e,
  In e (pwalk t asw h v p fl) -> prefix p (e_path e) /\ (asw = true -> sprefix p (e_path e)).
Proof.
  induction t as [a kids IH] using tree_ind_In. intros asw h v p fl e H.
  rewrite pwalk_unfold in H.
  assert (CS : forall fl' h' v', In e (walk_cs (vis_children G a kids fl') h' v' p) -> sprefix p (e_path e)).
  { intros fl' h' v' H'. apply walk_cs_In in H'. destruct H' as [cs1 [x [cs2 [E H']]]].
    assert (Hx : In x (vis_children G a kids fl')) by (rewrite E; apply in_elt).
    apply vis_children_sub in Hx. destruct Hx as [kv [K1 K2]].
    apply (IH kv _ K1 K2) in H'. destruct H' as [H' _]. now apply prefix_step_sprefix in H'. }
  destruct asw.
  - apply CS in H. split; [now apply sprefix_prefix|now intros _].
  - split; [|discriminate]. cbv zeta in H.
    destruct (enter h v p a (own_fl G a fl)) as [v'|].
    + destruct H as [<-|H]; [apply prefix_refl|]. apply in_app_or in H. destruct H as [H|[<-|[]]].
      * apply sprefix_prefix. now apply CS in H.
      * apply prefix_refl.
    + destruct H as [<-|[]]. apply prefix_refl.
Qed.

Lemma walk_cs_sprefix cs h v p e : In e (walk_cs cs h v p) -> sprefix p (e_path e).
Proof.
  intros H. apply walk_cs_In in H. destruct H as [cs1 [x [cs2 [_ H]]]].
  apply pwalk_prefix in H. destruct H as [H _]. now apply prefix_step_sprefix in H.
Qed.

Lemma walk_cs_In_step cs h v p e :
  In e (walk_cs cs h v p) -> exists x, In x cs /\ prefix (p ++ [ch_step x]) (e_path e).
Proof.
  intros H. apply walk_cs_In in H. destruct H as [cs1 [x [cs2 [E H]]]].
  exists x. split; [rewrite E; apply in_elt|]. now apply pwalk_prefix in H.
Qed.

(* ---- well-nestedness ------------------------------------------------------------------------------------ *)

Definition exit_of (v' : V) (e : event V) : event V := Ev KExit v' (e_path e) (e_ty e) (e_fl e).

(* [bal v h evs]: after history h, evs is a sequence of complete blocks, each received by visitor v:
   an Enter for which the visitor returned nil, or Enter, the blocks of the children received by the
   visitor v' that this Enter returned, and the Exit of the same node delivered to v'. *)
Inductive bal : V -> list (event V) -> list (event V) -> Prop :=
| bal_nil v h : bal v h []
| bal_stop v h e rest :
    e_k e = KEnter -> e_v e = v ->
    enter h v (e_path e) (e_ty e) (e_fl e) = None ->
    bal v (h ++ [e]) rest -> bal v h (e :: rest)
| bal_node v h e v' inner rest :
    e_k e = KEnter -> e_v e = v ->
    enter h v (e_path e) (e_ty e) (e_fl e) = Some v' ->
    bal v' (h ++ [e]) inner ->
    Forall (fun x => sprefix (e_path e) (e_path x)) inner ->
    bal v (h ++ e :: inner ++ [exit_of v' e]) rest ->
    bal v h (e :: inner ++ exit_of v' e :: rest).

Lemma bal_app v h a b : bal v h a -> bal v (h ++ a) b -> bal v h (a ++ b).
Proof.
  intros Ha. revert b. induction Ha as [v h|v h e rest K Ev N R IH|v h e v' inner rest K Ev S I IHI F R IHR]; intros b Hb.
  - now rewrite app_nil_r in Hb.
  - cbn [app]. apply bal_stop; try assumption. apply IH. now rewrite <- app_assoc.
  - replace ((e :: inner ++ exit_of v' e :: rest) ++ b) with (e :: inner ++ exit_of v' e :: (rest ++ b)).
    2:{ cbn. f_equal. rewrite <- app_assoc. reflexivity. }
    apply bal_node; try assumption. apply IHR.
    replace ((h ++ e :: inner ++ [exit_of v' e]) ++ rest) with (h ++ e :: inner ++ exit_of v' e :: rest); [exact Hb|].
    rewrite <- !app_assoc. cbn. rewrite <- !app_assoc. reflexivity.
Qed.

Lemma pwalk_bal t : forall asw h v p fl, bal v h (pwalk t asw h v p fl).
Proof.
  induction t as [a kids IH] using tree_ind_In. intros asw h v p fl.
  rewrite pwalk_unfold.
  assert (CS : forall fl' h' v', bal v' h' (walk_cs (vis_children G a kids fl') h' v' p)).
  { intros fl' h' v'.
    assert (SUB : forall x, In x (vis_children G a kids fl') -> exists kv, In kv kids /\ In (ch_node x) (snd kv))
      by (intros x; apply vis_children_sub).
    revert h'. induction (vis_children G a kids fl') as [|x r IHr]; intros h'; [constructor|].
    destruct x as [[[st t] asw'] cfl]. cbn [Lemmas.walk_cs]. apply bal_app.
    - destruct (SUB _ (or_introl eq_refl)) as [kv [K1 K2]]. apply (IH kv _ K1 K2).
    - apply IHr. intros y Hy. apply SUB. now right. }
  destruct asw; [apply CS|]. cbv zeta.
  destruct (enter h v p a (own_fl G a fl)) as [v'|] eqn:E.
  - change (Ev KExit v' p a (own_fl G a fl)) with (exit_of v' (Ev KEnter v p a (own_fl G a fl))).
    replace (walk_cs (vis_children G a kids (own_fl G a fl)) (h ++ [Ev KEnter v p a (own_fl G a fl)]) v' p ++
             [exit_of v' (Ev KEnter v p a (own_fl G a fl))])
      with (walk_cs (vis_children G a kids (own_fl G a fl)) (h ++ [Ev KEnter v p a (own_fl G a fl)]) v' p ++
            exit_of v' (Ev KEnter v p a (own_fl G a fl)) :: []) by reflexivity.
    apply bal_node; try reflexivity; try exact E; [apply CS| |constructor].
    apply Forall_forall. intros x Hx. cbn. now apply walk_cs_sprefix in Hx.
  - apply bal_stop; try reflexivity; [exact E|constructor].
Qed.

End WithVisitor.
End WithSpec.
