(* Walk/NoPanic.v — when the table covers the schema, the faithful walk (typed-nil, by-value and
   panic behaviour included) never leaves the normal mode: it equals the plain walk and does not panic.
   For ALL trees (no well-typedness needed) and all visitors. *)
From Coq Require Import List Arith Bool Lia.
From Verif Require Import Walk.Schema Walk.Model Walk.Lemmas Walk.Covers Walk.Trace.
Import ListNotations.

Section WithSpec.
Variable G : spec.
Hypothesis COV : covers G = true.
Variable V : Type.
Variable enter : list (event V) -> V -> path -> ty -> flavour -> option V.
Notation pwalk := (pwalk G V enter).
Notation walk_tree := (walk_tree G V enter).

Definition close (c : tree) : kidw V := (tree_ty c, walk_tree c).

Lemma pwalk_children_app cs1 cs2 h v p :
  pwalk_children V (cs1 ++ cs2) h v p =
  pwalk_children V cs1 h v p ++ pwalk_children V cs2 (h ++ pwalk_children V cs1 h v p) v p.
Proof.
  revert h. induction cs1 as [|c r IH]; intros h; cbn [app pwalk_children].
  - now rewrite app_nil_r.
  - destruct c as [[[st w] asw] cfl]. rewrite IH, <- !app_assoc. reflexivity.
Qed.

Lemma run_elems_eq ts :
  (forall c, In c ts -> forall asw h v p fl, walk_tree c asw h v p fl = (pwalk c asw h v p fl, false)) ->
  forall asw h v p f fl i,
    run_elems V (map close ts) asw h v p f fl i =
    (pwalk_children V (tag_elems f asw fl (map pwalk ts) i) h v p, false).
Proof.
  induction ts as [|c r IH]; intros HC asw h v p f fl i; [reflexivity|].
  cbn [map run_elems tag_elems pwalk_children]. unfold close at 1. cbn [snd].
  rewrite (HC c (or_introl eq_refl)).
  rewrite IH; [reflexivity|]. intros c' Hc'. apply HC. now right.
Qed.

Lemma visit_field_eq a kids s f h v p fl :
  (forall kv c, In kv kids -> In c (snd kv) ->
     forall asw h v p fl, walk_tree c asw h v p fl = (pwalk c asw h v p fl, false)) ->
  shape_ok G a (s, f) = true ->
  visit_field G V enter a (mapkids close kids) s f h v p fl =
  (pwalk_children V (field_children G a (mapkids pwalk kids) fl s f) h v p, false).
Proof.
  intros HC OK. apply shape_ok_fdesc in OK. destruct OK as [d [D M]]. cbn [fst snd] in D, M.
  unfold visit_field, field_children. rewrite D, M, !kids_of_map.
  apply run_elems_eq. intros c Hc. apply kids_of_In in Hc. destruct Hc as [kv [K1 [_ K2]]].
  now apply (HC kv).
Qed.

Lemma pick_alt_In {A} alts (kids : list (field * list A)) x : pick_alt alts kids = Some x -> In x alts.
Proof.
  induction alts as [|a r IH]; [discriminate|]. cbn [pick_alt].
  destruct r as [|b r']; [intros H; inversion H; now left|].
  destruct (kids_of (snd a) kids); intros H; [right; now apply IH|inversion H; now left].
Qed.

Lemma run_visit_eq a kids vi h v p fl :
  (forall kv c, In kv kids -> In c (snd kv) ->
     forall asw h v p fl, walk_tree c asw h v p fl = (pwalk c asw h v p fl, false)) ->
  visit_ok G a vi = true ->
  run_visit G V enter a (mapkids close kids) vi h v p fl =
  (pwalk_children V (visit_children G a (mapkids pwalk kids) fl vi) h v p, false).
Proof.
  intros HC OK. destruct vi as [s f|alts]; cbn [run_visit visit_children visit_ok] in *.
  - now apply visit_field_eq.
  - rewrite !pick_alt_map. destruct (pick_alt alts kids) as [x|] eqn:P; [|reflexivity].
    apply andb_true_iff in OK. destruct OK as [OK _]. apply andb_true_iff in OK. destruct OK as [SH _].
    rewrite forallb_forall in SH. apply pick_alt_In in P. apply SH in P.
    destruct x as [s f]. now apply visit_field_eq.
Qed.

Lemma run_visits_eq a kids vs h v p fl :
  (forall kv c, In kv kids -> In c (snd kv) ->
     forall asw h v p fl, walk_tree c asw h v p fl = (pwalk c asw h v p fl, false)) ->
  forallb (visit_ok G a) vs = true ->
  run_visits G V enter vs a (mapkids close kids) h v p fl =
  (pwalk_children V (flat_map (visit_children G a (mapkids pwalk kids) fl) vs) h v p, false).
Proof.
  intros HC. revert h. induction vs as [|vi r IH]; intros h OK; [reflexivity|].
  cbn [forallb] in OK. apply andb_true_iff in OK. destruct OK as [O1 O2].
  cbn [run_visits flat_map]. rewrite (run_visit_eq a kids vi h v p fl HC O1), (IH _ O2), pwalk_children_app.
  reflexivity.
Qed.

Lemma visits_ok_all a : forallb (visit_ok G a) (visits_of G a) = true.
Proof.
  destruct (Nat.ltb a (ntypes G)) eqn:L.
  - apply Nat.ltb_lt in L. now apply cov_visits.
  - apply Nat.ltb_ge in L. rewrite by_value_visits; [reflexivity|]. unfold by_value. now apply Nat.leb_le.
Qed.

Theorem walk_tree_eq t : forall asw h v p fl,
  walk_tree t asw h v p fl = (pwalk t asw h v p fl, false).
Proof.
  induction t as [a kids IH] using tree_ind_In. intros asw h v p fl.
  cbn [Model.walk_tree Model.pwalk].
  change (map (fun kv => (fst kv, map (fun c => (tree_ty c, walk_tree c)) (snd kv))) kids)
    with (mapkids close kids).
  change (map (fun kv => (fst kv, map pwalk (snd kv))) kids) with (mapkids pwalk kids).
  unfold node_body, pnode_body, vis_children. destruct asw.
  - apply run_visits_eq; [exact IH|apply visits_ok_all].
  - cbv zeta. destruct (enter h v p a (if by_value G a then ByVal else fl)) as [v'|]; [|reflexivity].
    rewrite (run_visits_eq a kids _ _ _ _ _ IH (visits_ok_all a)). reflexivity.
Qed.

Corollary walk_p_eq v0 t : walk_p G V enter v0 t = (walk G V enter v0 t, false).
Proof. apply walk_tree_eq. Qed.

End WithSpec.
