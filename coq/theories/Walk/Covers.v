(* Walk/Covers.v — what [covers G = true] and [wt_from G t = true] give: the children an arm walks are,
   up to order, exactly the children the tree has. *)
From Coq Require Import List Arith Bool Lia Permutation.
From Verif Require Import Walk.Schema Walk.Model Walk.Lemmas.
Import ListNotations.

(* ---- boolean list checks ------------------------------------------------------------------------ *)
Lemma existsb_eqb_In x l : existsb (Nat.eqb x) l = true <-> In x l.
Proof.
  rewrite existsb_exists. split.
  - intros [y [Hy E]]. apply Nat.eqb_eq in E. now subst.
  - intros H. exists x. split; [exact H|apply Nat.eqb_refl].
Qed.

Lemma nodupb_NoDup l : nodupb l = true -> NoDup l.
Proof.
  induction l as [|x r IH]; cbn [nodupb]; intros H; [constructor|].
  apply andb_true_iff in H. destruct H as [H1 H2]. constructor; [|now apply IH].
  intros Hin. apply existsb_eqb_In in Hin. rewrite Hin in H1. discriminate.
Qed.

Lemma perm_eqb_spec a b : perm_eqb a b = true -> NoDup a /\ NoDup b /\ Permutation a b.
Proof.
  unfold perm_eqb. intros H.
  apply andb_true_iff in H. destruct H as [H H4].
  apply andb_true_iff in H. destruct H as [H H3].
  apply andb_true_iff in H. destruct H as [H1 H2].
  apply nodupb_NoDup in H1. apply nodupb_NoDup in H2. apply Nat.eqb_eq in H3.
  split; [exact H1|]. split; [exact H2|].
  apply NoDup_Permutation_bis; [exact H1|lia|].
  intros x Hx. rewrite forallb_forall in H4. apply existsb_eqb_In. now apply H4.
Qed.

Lemma list_eqb_eq a b : list_eqb a b = true -> a = b.
Proof.
  unfold list_eqb. revert b. induction a as [|x r IH]; intros [|y s] H; cbn in H; try discriminate; [reflexivity|].
  apply andb_true_iff in H. destruct H as [H1 H2].
  apply andb_true_iff in H2. destruct H2 as [H2 H3].
  apply Nat.eqb_eq in H2. subst y. f_equal. apply IH.
  apply andb_true_iff. split; [exact H1|exact H3].
Qed.

Lemma flat_map_flat_map {A B C} (f : B -> list C) (g : A -> list B) l :
  flat_map f (flat_map g l) = flat_map (fun x => flat_map f (g x)) l.
Proof. induction l as [|x r IH]; cbn; [reflexivity|]. now rewrite flat_map_app, IH. Qed.

Lemma flat_map_ext_in' {A B} (f g : A -> list B) l :
  (forall x, In x l -> f x = g x) -> flat_map f l = flat_map g l.
Proof.
  induction l as [|x r IH]; intros H; cbn; [reflexivity|].
  rewrite (H x (or_introl eq_refl)), IH; [reflexivity|]. intros y Hy. apply H. now right.
Qed.

Lemma flat_map_nil_all {A B} (f : A -> list B) l : (forall x, In x l -> f x = []) -> flat_map f l = [].
Proof.
  induction l as [|x r IH]; intros H; cbn; [reflexivity|].
  rewrite (H x (or_introl eq_refl)), IH; [reflexivity|]. intros y Hy. apply H. now right.
Qed.

(* ---- kids_of on lists with distinct keys --------------------------------------------------------- *)
Lemma kids_of_hit {A} (kids : list (field * list A)) kv :
  NoDup (map fst kids) -> In kv kids -> kids_of (fst kv) kids = snd kv.
Proof.
  unfold kids_of, field in *. induction kids as [|k r IH]; intros ND Hin; [destruct Hin|].
  cbn [map] in ND. inversion ND as [|? ? Hnot ND']; subst.
  cbn [find]. destruct Hin as [->|Hin].
  - now rewrite Nat.eqb_refl.
  - destruct (Nat.eqb (fst k) (fst kv)) eqn:E.
    + apply Nat.eqb_eq in E. exfalso. apply Hnot. rewrite E. now apply in_map.
    + now apply IH.
Qed.

Lemma kids_of_miss {A} (kids : list (field * list A)) f : ~ In f (map fst kids) -> kids_of f kids = [].
Proof.
  unfold kids_of, field in *. induction kids as [|k r IH]; intros H; [reflexivity|].
  cbn [find]. destruct (Nat.eqb (fst k) f) eqn:E.
  - apply Nat.eqb_eq in E. exfalso. apply H. left. exact E.
  - apply IH. intros Hin. apply H. now right.
Qed.

Lemma kids_of_In {A} (kids : list (field * list A)) f c :
  In c (kids_of f kids) -> exists kv, In kv kids /\ fst kv = f /\ In c (snd kv).
Proof.
  unfold kids_of. destruct (find (fun kv => Nat.eqb (fst kv) f) kids) as [kv|] eqn:E; [|intros []].
  apply find_some in E. destruct E as [E1 E2]. apply Nat.eqb_eq in E2. intros H. now exists kv.
Qed.

Definition proj_sc {A} (x : step * A * bool * flavour) : step * A := (fst (fst (fst x)), snd (fst (fst x))).

Lemma proj_tag_elems {A} f asw cfl (l : list A) i :
  map proj_sc (tag_elems f asw cfl l i) = elems_steps f l i.
Proof. revert i. induction l as [|a r IH]; intros i; cbn; [reflexivity|]. now rewrite IH. Qed.

Lemma elems_steps_In {A} f (l : list A) i st c :
  In (st, c) (elems_steps f l i) -> fst st = f /\ i <= snd st /\ nth_error l (snd st - i) = Some c.
Proof.
  revert i. induction l as [|a r IH]; intros i H; [destruct H|].
  cbn [elems_steps] in H. destruct H as [H|H].
  - inversion H; subst. cbn. rewrite Nat.sub_diag. auto.
  - apply IH in H. destruct H as [H1 [H2 H3]]. split; [exact H1|]. split; [lia|].
    replace (snd st - i) with (S (snd st - S i)) by lia. exact H3.
Qed.

Lemma elems_steps_NoDup {A} f (l : list A) i : NoDup (map fst (elems_steps f l i)).
Proof.
  revert i. induction l as [|a r IH]; intros i; cbn; [constructor|].
  constructor; [|apply IH]. intros H. apply in_map_iff in H. destruct H as [[st c] [E H]].
  cbn in E. subst st. apply elems_steps_In in H. cbn in H. lia.
Qed.

Lemma all_children_In {A} (kids : list (field * list A)) st c :
  In (st, c) (all_children kids) <->
  exists kv, In kv kids /\ In (st, c) (elems_steps (fst kv) (snd kv) 0).
Proof. unfold all_children. rewrite in_flat_map. reflexivity. Qed.

Lemma all_children_by_fields {A} (kids : list (field * list A)) :
  NoDup (map fst kids) ->
  all_children kids = flat_map (fun f => elems_steps f (kids_of f kids) 0) (map fst kids).
Proof.
  intros ND. unfold all_children.
  rewrite (flat_map_concat_map _ (map fst kids)), map_map, <- flat_map_concat_map.
  apply flat_map_ext_in'. intros kv Hin. now rewrite kids_of_hit.
Qed.


Section WithSpec.
Variable G : spec.
Hypothesis COV : covers G = true.

Lemma cov_type a : a < ntypes G -> type_covered G a = true.
Proof.
  intros H. unfold covers in COV. apply andb_true_iff in COV. destruct COV as [_ C].
  rewrite forallb_forall in C. apply C. apply in_seq. lia.
Qed.

Lemma cov_len_wrapper : length (sp_wrapper G) = ntypes G.
Proof.
  unfold covers in COV. apply andb_true_iff in COV. destruct COV as [C _].
  apply andb_true_iff in C. destruct C as [C _]. apply andb_true_iff in C. destruct C as [C _].
  now apply Nat.eqb_eq in C.
Qed.

Lemma by_value_not_wrapper a : by_value G a = true -> is_wrapper G a = false.
Proof.
  unfold by_value, is_wrapper. intros H. apply Nat.leb_le in H.
  apply nth_overflow. rewrite cov_len_wrapper. exact H.
Qed.

Lemma cov_perm a : a < ntypes G ->
  NoDup (visited G a) /\ NoDup (node_fields G a) /\ Permutation (visited G a) (node_fields G a).
Proof.
  intros H. pose proof (cov_type a H) as C. unfold type_covered in C.
  apply andb_true_iff in C. destruct C as [C _]. apply andb_true_iff in C. destruct C as [C _].
  apply andb_true_iff in C. destruct C as [_ C]. now apply perm_eqb_spec.
Qed.

Lemma cov_visits a : a < ntypes G -> forallb (visit_ok G a) (visits_of G a) = true.
Proof.
  intros H. pose proof (cov_type a H) as C. unfold type_covered in C.
  apply andb_true_iff in C. destruct C as [C _]. apply andb_true_iff in C. now destruct C as [_ C].
Qed.

Lemma cov_targets a : a < ntypes G -> forallb (target_ok G) (fields_of G a) = true.
Proof.
  intros H. pose proof (cov_type a H) as C. unfold type_covered in C.
  apply andb_true_iff in C. now destruct C as [_ C].
Qed.

Lemma by_value_visits a : by_value G a = true -> visits_of G a = [].
Proof. intros H. unfold visits_of, arm_of. now rewrite H. Qed.

Lemma fdesc_of_In a f d : fdesc_of G a f = Some d -> In d (fields_of G a) /\ f_id d = f.
Proof.
  unfold fdesc_of. intros H. apply find_some in H. destruct H as [H1 H2].
  apply Nat.eqb_eq in H2. now split.
Qed.

Lemma fdesc_of_field a f : In f (node_fields G a) -> exists d, fdesc_of G a f = Some d.
Proof.
  unfold node_fields, fdesc_of. intros H. apply in_map_iff in H. destruct H as [d [E Hd]].
  destruct (find (fun d0 => Nat.eqb (f_id d0) f) (fields_of G a)) as [d'|] eqn:F; [now exists d'|].
  exfalso. apply (find_none _ _ F) in Hd. rewrite E, Nat.eqb_refl in Hd. discriminate.
Qed.

(* ---- the node-level part of well-typedness ------------------------------------------------------------ *)

Lemma fields_ok_keys a ds (kt : list (field * list ty)) :
  fields_ok G a ds kt = true -> map f_id ds = map fst kt.
Proof.
  revert kt. induction ds as [|d r IH]; intros [|kv kt] H; cbn in H; try discriminate; [reflexivity|].
  apply andb_true_iff in H. destruct H as [H H3]. apply andb_true_iff in H. destruct H as [H1 _].
  apply Nat.eqb_eq in H1. cbn. f_equal; [exact H1|now apply IH].
Qed.

Lemma fields_ok_field a ds (kt : list (field * list ty)) d :
  fields_ok G a ds kt = true -> In d ds ->
  exists kv, In kv kt /\ fst kv = f_id d /\ field_ok G a d (snd kv) = true.
Proof.
  revert kt. induction ds as [|d0 r IH]; intros [|kv kt] H Hin; cbn in H; try discriminate; [destruct Hin|].
  apply andb_true_iff in H. destruct H as [H H3]. apply andb_true_iff in H. destruct H as [H1 H2].
  apply Nat.eqb_eq in H1. destruct Hin as [->|Hin].
  - exists kv. split; [now left|]. split; [now symmetry|exact H2].
  - destruct (IH kt H3 Hin) as [kv' [A [B C]]]. exists kv'. split; [now right|]. now split.
Qed.

Lemma node_ok_keys a kids :
  a < ntypes G -> node_ok G a (mapkids tree_ty kids) = true ->
  map fst kids = node_fields G a /\ NoDup (map fst kids).
Proof.
  intros Ha H. unfold node_ok in H. apply andb_true_iff in H. destruct H as [H _].
  apply andb_true_iff in H. destruct H as [_ H]. apply fields_ok_keys in H.
  assert (E : map fst (mapkids tree_ty kids) = map fst kids).
  { unfold mapkids. rewrite map_map. reflexivity. }
  rewrite E in H. unfold node_fields. split; [now symmetry|].
  rewrite <- H. apply (cov_perm a Ha).
Qed.

End WithSpec.

(* ---- the children an arm walks vs. the children the node has ----------------------------------------- *)
Section Children.
Variable G : spec.
Hypothesis COV : covers G = true.

Definition E_of {A} (kids : list (field * list A)) (f : field) : list (step * A) :=
  elems_steps f (kids_of f kids) 0.

Lemma field_children_proj {A} a (kids : list (field * list A)) fl s f d :
  fdesc_of G a f = Some d -> map proj_sc (field_children G a kids fl s f) = E_of kids f.
Proof. intros H. unfold field_children, E_of. rewrite H. apply proj_tag_elems. Qed.

(* an if/else chain over a group of which at most one member is set walks all that is set *)
Lemma pick_alt_excl {A} (kids : list (field * list A)) alts :
  length (filter (fun f => nonempty (kids_of f kids)) (map snd alts)) <= 1 ->
  flat_map (E_of kids) (map snd alts) =
  match pick_alt alts kids with Some a => E_of kids (snd a) | None => [] end.
Proof.
  induction alts as [|a r IH]; intros H; [reflexivity|].
  destruct r as [|b r'].
  - cbn. now rewrite app_nil_r.
  - cbn [pick_alt].
    change (map snd (a :: b :: r')) with (snd a :: map snd (b :: r')) in *.
    cbn [flat_map]. cbn [filter] in H.
    destruct (kids_of (snd a) kids) as [|c cs] eqn:K.
    + cbn [nonempty] in H. unfold E_of at 1. rewrite K. cbn [elems_steps app]. apply IH. exact H.
    + cbn [nonempty length] in H.
      assert (Z : flat_map (E_of kids) (map snd (b :: r')) = []).
      { apply flat_map_nil_all. intros f Hf. unfold E_of.
        destruct (kids_of f kids) as [|c' cs'] eqn:K'; [reflexivity|]. exfalso.
        assert (Hin : In f (filter (fun f0 => nonempty (kids_of f0 kids)) (map snd (b :: r')))).
        { apply filter_In. split; [exact Hf|]. now rewrite K'. }
        destruct (filter (fun f0 => nonempty (kids_of f0 kids)) (map snd (b :: r'))); [destruct Hin|cbn [length] in H; lia]. }
      rewrite Z, app_nil_r. reflexivity.
Qed.

Lemma shape_ok_fdesc a sf : shape_ok G a sf = true ->
  exists d, fdesc_of G a (snd sf) = Some d /\ mode_of (fst sf) (f_kind d) = MNormal.
Proof.
  unfold shape_ok. destruct (fdesc_of G a (snd sf)) as [d|]; [|discriminate].
  intros H. exists d. split; [reflexivity|]. destruct (mode_of (fst sf) (f_kind d)); congruence.
Qed.

Lemma alt_ok_kids kids g :
  alt_ok (mapkids tree_ty kids) g = true ->
  length (filter (fun f => nonempty (kids_of f kids)) g) <= 1.
Proof.
  unfold alt_ok. intros H. apply Nat.leb_le in H.
  erewrite filter_ext; [exact H|]. intros f. cbn. rewrite kids_of_map.
  now destruct (kids_of f kids).
Qed.

Lemma visit_children_proj a kids fl vi :
  visit_ok G a vi = true ->
  forallb (alt_ok (mapkids tree_ty kids)) (alts_of G a) = true ->
  map proj_sc (visit_children G a kids fl vi) = flat_map (E_of kids) (visit_fields vi).
Proof.
  intros OK ALT. destruct vi as [s f|alts]; cbn [visit_children visit_fields visit_ok] in *.
  - apply shape_ok_fdesc in OK. destruct OK as [d [Hd _]]. cbn in Hd.
    rewrite (field_children_proj _ _ _ _ _ _ Hd). cbn. now rewrite app_nil_r.
  - apply andb_true_iff in OK. destruct OK as [OK GRP]. apply andb_true_iff in OK. destruct OK as [SH _].
    apply existsb_exists in GRP. destruct GRP as [g [Hg Eg]]. apply list_eqb_eq in Eg. subst g.
    rewrite forallb_forall in ALT. pose proof (alt_ok_kids _ _ (ALT _ Hg)) as EX.
    rewrite (pick_alt_excl kids alts EX).
    destruct (pick_alt alts kids) as [x|] eqn:P; [|reflexivity].
    assert (Hx : In x alts).
    { clear - P. induction alts as [|a r IH]; [discriminate|]. cbn [pick_alt] in P.
      destruct r as [|b r']; [inversion P; now left|].
      destruct (kids_of (snd a) kids); [right; now apply IH|inversion P; now left]. }
    rewrite forallb_forall in SH. apply SH in Hx. apply shape_ok_fdesc in Hx. destruct Hx as [d [Hd _]].
    now apply field_children_proj with (d := d).
Qed.

Lemma vis_children_proj a kids fl :
  a < ntypes G ->
  forallb (alt_ok (mapkids tree_ty kids)) (alts_of G a) = true ->
  map proj_sc (vis_children G a kids fl) = flat_map (E_of kids) (visited G a).
Proof.
  intros Ha ALT. unfold vis_children, visited. pose proof (cov_visits G COV a Ha) as OK.
  induction (visits_of G a) as [|vi r IH]; [reflexivity|].
  cbn [forallb] in OK. apply andb_true_iff in OK. destruct OK as [O1 O2].
  cbn [flat_map]. rewrite map_app, flat_map_app, (visit_children_proj a kids fl vi O1 ALT), (IH O2). reflexivity.
Qed.

(* D3: up to order, the arm of a well-typed node walks exactly the node's children *)
Lemma vis_children_perm a kids fl :
  a < ntypes G -> node_ok G a (mapkids tree_ty kids) = true ->
  Permutation (map proj_sc (vis_children G a kids fl)) (all_children kids).
Proof.
  intros Ha OK. destruct (node_ok_keys G COV a kids Ha OK) as [KEYS ND].
  assert (ALT : forallb (alt_ok (mapkids tree_ty kids)) (alts_of G a) = true).
  { unfold node_ok in OK. apply andb_true_iff in OK. now destruct OK as [_ OK]. }
  rewrite (vis_children_proj a kids fl Ha ALT), (all_children_by_fields kids ND), KEYS.
  apply Permutation_flat_map. apply (cov_perm G COV a Ha).
Qed.

(* by-value nodes of a well-typed tree have no children *)
Lemma by_value_no_kids a kids :
  by_value G a = true -> node_ok G a (mapkids tree_ty kids) = true -> kids = [].
Proof.
  intros BV OK. unfold node_ok in OK. apply andb_true_iff in OK. destruct OK as [OK _].
  apply andb_true_iff in OK. destruct OK as [OK FO]. apply andb_true_iff in OK. destruct OK as [_ LEAF].
  rewrite BV in LEAF. cbn in LEAF. destruct (fields_of G a); [|discriminate].
  destruct kids; [reflexivity|]. cbn in FO. discriminate.
Qed.

(* the flags of the walked children *)
Lemma tag_elems_In {A} f asw cfl (l : list A) i x :
  In x (tag_elems f asw cfl l i) ->
  fst (fst (fst (fst x))) = f /\ snd (fst x) = asw /\ snd x = cfl /\ In (snd (fst (fst x))) l.
Proof.
  revert i. induction l as [|a r IH]; intros i H; [destruct H|].
  cbn [tag_elems] in H. destruct H as [<-|H]; [cbn; auto|].
  apply IH in H. destruct H as [H1 [H2 [H3 H4]]]. repeat split; auto. now right.
Qed.

Lemma vis_children_In {A} a (kids : list (field * list A)) fl x :
  In x (vis_children G a kids fl) ->
  exists d, fdesc_of G a (fst (fst (fst (fst x)))) = Some d /\
            snd (fst x) = is_listw (f_kind d) /\ (exists s, snd x = child_fl s (f_kind d) fl) /\
            In (snd (fst (fst x))) (kids_of (f_id d) kids).
Proof.
  unfold vis_children. rewrite in_flat_map. intros [vi [_ H]].
  assert (FC : forall s f, In x (field_children G a kids fl s f) ->
     exists d, fdesc_of G a (fst (fst (fst (fst x)))) = Some d /\
            snd (fst x) = is_listw (f_kind d) /\ (exists s0, snd x = child_fl s0 (f_kind d) fl) /\
            In (snd (fst (fst x))) (kids_of (f_id d) kids)).
  { intros s f Hf. unfold field_children in Hf. destruct (fdesc_of G a f) as [d|] eqn:D; [|destruct Hf].
    apply tag_elems_In in Hf. destruct Hf as [H1 [H2 [H3 H4]]]. exists d.
    rewrite H1. split; [exact D|]. split; [exact H2|]. split; [now exists s|].
    apply fdesc_of_In in D. destruct D as [_ D]. now rewrite D. }
  destruct vi as [s f|alts]; cbn [visit_children] in H; [now apply FC with s f|].
  destruct (pick_alt alts kids) as [y|]; [now apply FC with (fst y) (snd y)|destruct H].
Qed.

Lemma vis_children_wrapper_flag a kids fl x :
  a < ntypes G -> node_ok G a (mapkids tree_ty kids) = true ->
  In x (vis_children G a kids fl) ->
  snd (fst x) = is_wrapper G (tree_ty (snd (fst (fst x)))).
Proof.
  intros Ha OK Hx. destruct (node_ok_keys G COV a kids Ha OK) as [KEYS ND].
  apply vis_children_In in Hx. destruct Hx as [d [D [F1 [_ IN]]]]. rewrite F1.
  apply fdesc_of_In in D. destruct D as [Dd Df].
  pose proof (cov_targets G COV a Ha) as TG. rewrite forallb_forall in TG. specialize (TG d Dd).
  unfold node_ok in OK. apply andb_true_iff in OK. destruct OK as [OK _].
  apply andb_true_iff in OK. destruct OK as [_ FO].
  destruct (fields_ok_field G a _ _ d FO Dd) as [kv [KV [K1 K2]]].
  assert (NDt : NoDup (map fst (mapkids tree_ty kids))).
  { unfold mapkids. rewrite map_map. exact ND. }
  pose proof (kids_of_hit _ kv NDt KV) as HIT. rewrite K1, kids_of_map in HIT.
  set (c := snd (fst (fst x))) in *.
  assert (CT : In (tree_ty c) (snd kv)). { rewrite <- HIT. now apply in_map. }
  unfold field_ok in K2. apply andb_true_iff in K2. destruct K2 as [_ K2].
  unfold target_ok in TG.
  destruct (f_target d) as [tg|].
  - rewrite forallb_forall in K2. apply K2 in CT. apply Nat.eqb_eq in CT. rewrite <- CT.
    destruct (f_kind d); cbn [is_listw]; try discriminate;
      apply andb_true_iff in TG; destruct TG as [_ TG];
      try (apply negb_true_iff in TG); now rewrite TG.
  - rewrite forallb_forall in K2. apply K2 in CT.
    destruct (f_kind d); try discriminate; cbn [is_listw];
      (destruct (by_value G (tree_ty c)) eqn:BV;
       [now rewrite (by_value_not_wrapper G COV _ BV)|apply negb_true_iff in CT; now rewrite CT]).
Qed.

(* D2: the steps of the walked children are pairwise distinct *)
Lemma E_of_steps_field {A} (kids : list (field * list A)) f st c : In (st, c) (E_of kids f) -> fst st = f.
Proof. unfold E_of. intros H. now apply elems_steps_In in H. Qed.

Lemma flat_map_E_NoDup {A} (kids : list (field * list A)) fs :
  NoDup fs -> NoDup (map fst (flat_map (E_of kids) fs)).
Proof.
  induction fs as [|f r IH]; intros ND; [constructor|].
  inversion ND as [|? ? Hnot ND']; subst. cbn [flat_map]. rewrite map_app.
  assert (N1 : NoDup (map fst (E_of kids f))) by apply elems_steps_NoDup.
  specialize (IH ND').
  clear ND. induction (map fst (E_of kids f)) as [|s l IHl] eqn:EQ in N1 |- *.
Abort.

End Children.
