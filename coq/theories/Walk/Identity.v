(* Walk/Identity.v — what exactly is handed to the visitor: the node at the event's path, with its
   type; by address (of the tree, or of a loop-variable copy inside a class element) or, for the
   leaves js.Parse stores by value, by value. *)
From Coq Require Import List Arith Bool Lia.
From Verif Require Import Walk.Schema Walk.Model Walk.Lemmas Walk.Covers Walk.Trace Walk.Visit.
Import ListNotations.

Lemma tag_elems_nth {A} f asw cfl (l : list A) i x :
  In x (tag_elems f asw cfl l i) ->
  fst (ch_step x) = f /\ i <= snd (ch_step x) /\ nth_error l (snd (ch_step x) - i) = Some (ch_node x).
Proof.
  revert i. induction l as [|a r IH]; intros i H; [destruct H|].
  cbn [tag_elems] in H. destruct H as [<-|H].
  - cbn. rewrite Nat.sub_diag. auto.
  - apply IH in H. destruct H as [H1 [H2 H3]]. split; [exact H1|]. split; [lia|].
    replace (snd (ch_step x) - i) with (S (snd (ch_step x) - S i)) by lia. exact H3.
Qed.

Section WithSpec.
Variable G : spec.

Lemma vis_children_nth a (kids : list (field * list tree)) fl x :
  In x (vis_children G a kids fl) ->
  nth_error (kids_of (fst (ch_step x)) kids) (snd (ch_step x)) = Some (ch_node x).
Proof.
  unfold vis_children. rewrite in_flat_map. intros [vi [_ H]].
  assert (FC : forall s f, In x (field_children G a kids fl s f) ->
     nth_error (kids_of (fst (ch_step x)) kids) (snd (ch_step x)) = Some (ch_node x)).
  { intros s f Hf. unfold field_children in Hf. destruct (fdesc_of G a f) as [d|]; [|destruct Hf].
    apply tag_elems_nth in Hf. destruct Hf as [H1 [_ H3]]. rewrite H1. now rewrite Nat.sub_0_r in H3. }
  destruct vi as [s f|alts]; cbn [visit_children] in H; [now apply FC with s f|].
  destruct (pick_alt alts kids) as [y|]; [now apply FC with (fst y) (snd y)|destruct H].
Qed.

Lemma subtree_at_step a kids st q c :
  nth_error (kids_of (fst st) kids) (snd st) = Some c ->
  subtree_at (Node a kids) (st :: q) = subtree_at c q.
Proof. intros H. destruct st as [f i]. cbn [subtree_at tree_kids fst snd] in *. now rewrite H. Qed.

Section WithVisitor.
Variable V : Type.
Variable enter : list (event V) -> V -> path -> ty -> flavour -> option V.
Notation pwalk := (pwalk G V enter).
Notation walk_cs := (walk_cs G V enter).

(* every event is about the subtree at its path, and reports that subtree's type (all trees) *)
Lemma pwalk_identity t : forall asw h v p fl e,
  In e (pwalk t asw h v p fl) ->
  exists q c, e_path e = p ++ q /\ subtree_at t q = Some c /\ tree_ty c = e_ty e.
Proof.
  induction t as [a kids IH] using tree_ind_In. intros asw h v p fl e H.
  rewrite pwalk_unfold in H.
  assert (OWN : forall k (v0 : V) fl0, exists q c, e_path (Ev k v0 p a fl0) = p ++ q /\
                 subtree_at (Node a kids) q = Some c /\ tree_ty c = e_ty (Ev k v0 p a fl0)).
  { intros. exists [], (Node a kids). cbn. now rewrite app_nil_r. }
  assert (CS : forall fl' h' v', In e (walk_cs (vis_children G a kids fl') h' v' p) ->
            exists q c, e_path e = p ++ q /\ subtree_at (Node a kids) q = Some c /\ tree_ty c = e_ty e).
  { intros fl' h' v' H'. apply walk_cs_In in H'. destruct H' as [cs1 [x [cs2 [E H']]]].
    assert (Hx : In x (vis_children G a kids fl')) by (rewrite E; apply in_elt).
    destruct (vis_children_sub G a kids fl' x Hx) as [kv [K1 K2]].
    apply (IH kv _ K1 K2) in H'. destruct H' as [q [c [E1 [E2 E3]]]].
    exists (ch_step x :: q), c. split; [now rewrite E1, <- app_assoc|]. split; [|exact E3].
    rewrite <- E2. apply subtree_at_step. now apply (vis_children_nth a kids fl'). }
  destruct asw; [now apply CS in H|]. cbv zeta in H.
  destruct (enter h v p a (own_fl G a fl)) as [v'|].
  - destruct H as [<-|H]; [apply OWN|]. apply in_app_or in H. destruct H as [H|[<-|[]]]; [now apply CS in H|apply OWN].
  - destruct H as [<-|[]]. apply OWN.
Qed.

(* flavours: never a typed nil; by value exactly for the nodes the tree itself stores by value *)
Lemma pwalk_flavours t : forall asw h v p fl e,
  fl = Orig \/ fl = Copy ->
  In e (pwalk t asw h v p fl) ->
  (by_value G (e_ty e) = false /\ (e_fl e = Orig \/ e_fl e = Copy)) \/
  (by_value G (e_ty e) = true /\ e_fl e = ByVal).
Proof.
  induction t as [a kids IH] using tree_ind_In. intros asw h v p fl e FL H.
  rewrite pwalk_unfold in H.
  assert (OWN : forall k (v0 : V), (by_value G (e_ty (Ev k v0 p a (own_fl G a fl))) = false /\
                               (e_fl (Ev k v0 p a (own_fl G a fl)) = Orig \/ e_fl (Ev k v0 p a (own_fl G a fl)) = Copy)) \/
                              (by_value G (e_ty (Ev k v0 p a (own_fl G a fl))) = true /\
                               e_fl (Ev k v0 p a (own_fl G a fl)) = ByVal)).
  { intros. cbn. unfold own_fl. destruct (by_value G a); [now right|left; now split]. }
  assert (CS : forall fl' h' v', fl' = Orig \/ fl' = Copy ->
            In e (walk_cs (vis_children G a kids fl') h' v' p) ->
            (by_value G (e_ty e) = false /\ (e_fl e = Orig \/ e_fl e = Copy)) \/
            (by_value G (e_ty e) = true /\ e_fl e = ByVal)).
  { intros fl' h' v' FL' H'. apply walk_cs_In in H'. destruct H' as [cs1 [x [cs2 [E H']]]].
    assert (Hx : In x (vis_children G a kids fl')) by (rewrite E; apply in_elt).
    destruct (vis_children_sub G a kids fl' x Hx) as [kv [K1 K2]].
    apply (IH kv _ K1 K2) in H'; [exact H'|].
    apply vis_children_In in Hx. destruct Hx as [d [_ [_ [[s0 F] _]]]]. unfold ch_fl. rewrite F.
    destruct (f_kind d); cbn [child_fl]; auto. destruct s0; auto. }
  destruct asw; [now apply CS in H|]. cbv zeta in H.
  assert (FL2 : own_fl G a fl = Orig \/ own_fl G a fl = Copy \/ by_value G a = true).
  { unfold own_fl. destruct (by_value G a); [now right; right|destruct FL; auto]. }
  destruct (enter h v p a (own_fl G a fl)) as [v'|].
  - destruct H as [<-|H]; [apply OWN|]. apply in_app_or in H. destruct H as [H|[<-|[]]]; [|apply OWN].
    destruct FL2 as [F|[F|F]]; [apply CS in H; auto..|].
    unfold vis_children in H. unfold visits_of, arm_of in H. rewrite F in H. destruct H.
  - destruct H as [<-|[]]. apply OWN.
Qed.

End WithVisitor.
End WithSpec.

(* when no arm walks a wrapper list through a by-value range, every node that is not stored by value
   is handed over by its own address in the tree (all trees, all visitors) *)
Section NoCopies.
Variable G : spec.
Hypothesis COV : covers G = true.
Hypothesis CF : copy_free G = true.
Variable V : Type.
Variable enter : list (event V) -> V -> path -> ty -> flavour -> option V.
Notation pwalk := (pwalk G V enter).
Notation walk_cs := (walk_cs G V enter).

Lemma copy_free_visits a : forallb visit_copy_free (visits_of G a) = true.
Proof.
  destruct (Nat.ltb a (ntypes G)) eqn:L.
  - apply Nat.ltb_lt in L. unfold copy_free in CF. rewrite forallb_forall in CF. apply CF. apply in_seq. lia.
  - apply Nat.ltb_ge in L. rewrite by_value_visits; [reflexivity|]. unfold by_value. now apply Nat.leb_le.
Qed.

Lemma vis_children_orig a (kids : list (field * list tree)) x :
  In x (vis_children G a kids Orig) -> ch_fl x = Orig.
Proof.
  unfold vis_children. rewrite in_flat_map. intros [vi [Hvi H]].
  pose proof (copy_free_visits a) as CFV. rewrite forallb_forall in CFV. specialize (CFV vi Hvi).
  assert (FC : forall s f, shape_copy_free s = true -> In x (field_children G a kids Orig s f) -> ch_fl x = Orig).
  { intros s f SF Hf. unfold field_children in Hf. destruct (fdesc_of G a f) as [d|]; [|destruct Hf].
    apply tag_elems_In in Hf. destruct Hf as [_ [_ [H3 _]]]. unfold ch_fl. rewrite H3.
    destruct (f_kind d); cbn [child_fl]; try reflexivity. destruct s; try reflexivity. discriminate. }
  destruct vi as [s f|alts]; cbn [visit_children visit_copy_free] in *; [now apply FC with s f|].
  destruct (pick_alt alts kids) as [y|] eqn:P; [|destruct H].
  apply FC with (fst y) (snd y); [|exact H].
  rewrite forallb_forall in CFV. apply CFV.
  clear - P. induction alts as [|a0 r IH]; [discriminate|]. cbn [pick_alt] in P.
  destruct r as [|b r']; [inversion P; now left|].
  destruct (kids_of (snd a0) kids); [right; now apply IH|inversion P; now left].
Qed.

Lemma pwalk_orig t : forall asw h v p e,
  In e (pwalk t asw h v p Orig) ->
  (by_value G (e_ty e) = false /\ e_fl e = Orig) \/ (by_value G (e_ty e) = true /\ e_fl e = ByVal).
Proof.
  induction t as [a kids IH] using tree_ind_In. intros asw h v p e H.
  rewrite pwalk_unfold in H.
  assert (OWN : forall k (v0 : V), (by_value G (e_ty (Ev k v0 p a (own_fl G a Orig))) = false /\
                               e_fl (Ev k v0 p a (own_fl G a Orig)) = Orig) \/
                              (by_value G (e_ty (Ev k v0 p a (own_fl G a Orig))) = true /\
                               e_fl (Ev k v0 p a (own_fl G a Orig)) = ByVal)).
  { intros. cbn. unfold own_fl. destruct (by_value G a); [now right|now left]. }
  assert (CS : forall h' v', In e (walk_cs (vis_children G a kids Orig) h' v' p) ->
            (by_value G (e_ty e) = false /\ e_fl e = Orig) \/ (by_value G (e_ty e) = true /\ e_fl e = ByVal)).
  { intros h' v' H'. apply walk_cs_In in H'. destruct H' as [cs1 [x [cs2 [E H']]]].
    assert (Hx : In x (vis_children G a kids Orig)) by (rewrite E; apply in_elt).
    destruct (vis_children_sub G a kids Orig x Hx) as [kv [K1 K2]].
    rewrite (vis_children_orig a kids x Hx) in H'. now apply (IH kv _ K1 K2) in H'. }
  destruct asw; [now apply CS in H|]. cbv zeta in H.
  destruct (by_value G a) eqn:BV.
  - unfold vis_children, visits_of, arm_of in H. rewrite BV in H. cbn [flat_map Lemmas.walk_cs app] in H.
    destruct (enter h v p a (own_fl G a Orig)); [destruct H as [<-|[<-|[]]]|destruct H as [<-|[]]]; apply OWN.
  - assert (OFL : own_fl G a Orig = Orig) by (unfold own_fl; now rewrite BV). rewrite OFL in *.
    destruct (enter h v p a Orig) as [v'|].
    + destruct H as [<-|H]; [apply OWN|]. apply in_app_or in H. destruct H as [H|[<-|[]]]; [now apply CS in H|apply OWN].
    + destruct H as [<-|[]]. apply OWN.
Qed.

End NoCopies.

(* what [all_nodes] is: the paths of the tree at which a non-wrapper subtree sits *)
Section NodesSpec.
Variable G : spec.
Hypothesis COV : covers G = true.

Lemma elems_steps_nth {A} f (l : list A) i0 i c :
  nth_error l i = Some c -> In ((f, i0 + i), c) (elems_steps f l i0).
Proof.
  revert i0 i. induction l as [|a r IH]; intros i0 i H; [destruct i; discriminate|].
  destruct i as [|i]; cbn in H.
  - inversion H; subst. rewrite Nat.add_0_r. now left.
  - right. replace (i0 + S i) with (S i0 + i) by lia. now apply IH.
Qed.

Lemma kids_of_find {A} (kids : list (field * list A)) f c :
  In c (kids_of f kids) -> exists kv, In kv kids /\ fst kv = f /\ kids_of f kids = snd kv.
Proof.
  unfold kids_of. destruct (find (fun kv => Nat.eqb (fst kv) f) kids) as [kv|] eqn:E; [|intros []].
  intros _. apply find_some in E. destruct E as [E1 E2]. apply Nat.eqb_eq in E2. now exists kv.
Qed.

Lemma nodes_from_spec t : forall p q,
  wt_from G t = true ->
  (In q (nodes_from G t p) <->
   exists r c, q = p ++ r /\ subtree_at t r = Some c /\ is_wrapper G (tree_ty c) = false).
Proof.
  induction t as [a kids IH] using tree_ind_In. intros p q WT. rewrite nodes_from_unfold. split.
  - intros H. apply in_app_or in H. destruct H as [H|H].
    + destruct (is_wrapper G a) eqn:W; [destruct H|]. destruct H as [<-|[]].
      exists [], (Node a kids). cbn. now rewrite app_nil_r.
    + apply in_flat_map in H. destruct H as [[st c0] [A H]]. cbn [fst snd] in H.
      pose proof A as A0. apply all_children_In in A. destruct A as [kv [K1 K2]].
      apply elems_steps_In in K2. destruct K2 as [F1 [_ F2]]. rewrite Nat.sub_0_r in F2.
      assert (K3 : In c0 (snd kv)) by (now apply nth_error_In in F2).
      apply (IH kv c0 K1 K3) in H; [|now apply (wt_children G a kids kv)].
      destruct H as [r [c [E1 [E2 E3]]]]. exists (st :: r), c. split; [now rewrite E1, <- app_assoc|].
      split; [|exact E3]. rewrite <- E2. apply subtree_at_step.
      destruct (by_value G a) eqn:BV.
      * destruct (wt_by_value_leaf G COV a kids WT BV) as [-> _]. destruct K1.
      * pose proof (wt_node_ok G _ _ WT) as OK. pose proof (not_by_value_lt G _ _ OK BV) as LT.
        destruct (node_ok_keys G COV a kids LT OK) as [_ ND].
        rewrite F1, (kids_of_hit kids kv ND K1). exact F2.
  - intros [r [c [E1 [E2 E3]]]]. apply in_or_app. destruct r as [|st r].
    + left. cbn in E2. inversion E2; subst c. cbn [tree_ty] in E3. rewrite E3. left. now rewrite app_nil_r in E1.
    + right. destruct st as [f i]. cbn [subtree_at tree_kids] in E2.
      destruct (nth_error (kids_of f kids) i) as [c0|] eqn:N; [|discriminate].
      assert (IN : In c0 (kids_of f kids)) by (now apply nth_error_In in N).
      destruct (kids_of_find kids f c0 IN) as [kv [K1 [K2 K3]]].
      apply in_flat_map. exists ((f, i), c0). split.
      * apply all_children_In. exists kv. split; [exact K1|]. rewrite K2, <- K3.
        now apply (elems_steps_nth f (kids_of f kids) 0 i c0).
      * cbn [fst snd]. rewrite K3 in IN.
        apply (IH kv c0 K1 IN); [now apply (wt_children G a kids kv)|].
        exists r, c. split; [now rewrite E1, <- app_assoc|now split].
Qed.

End NodesSpec.
